/-
C28 — playback endpoints survive any recording directory content.

Byte-level model of the MediaMTX-owned ("hand-rolled") fMP4 parsers in
internal/playback/segment_fmp4.go:

* `readHeader`     = segmentFMP4ReadHeader
* `durFromParts`   = segmentFMP4ReadDurationFromParts
* `parseSegment`   = parseSegment of on_list.go (the function that runs inside the `parseSegments`
                     goroutines, i.e. OUTSIDE httpp.handlerExitOnPanic and outside any recover)
* `muxWalk`        = the nil-pointer state machine of the callback of segmentFMP4MuxParts (on_get path)

The file is a `List UInt8`; an `io.ReadSeeker` is a position into it (Seek past the end is legal, ReadFull
then fails).  Every Go failure mode is an explicit outcome: integer division by zero (`panicDiv`),
nil dereference (`panicNil`), non-termination (`hang`, fuel exhaustion — proved unreachable), and every
`make([]byte, n)` whose size comes from the file is recorded as an `Alloc` (requested bytes as Go computes
them in uint32/uint64 arithmetic, bytes actually left in the file at that point).

Third-party decoders (abema/go-mp4 `Unmarshal` of mvhd/tfhd/tfdt/trun, mediacommon `fmp4.Init.Unmarshal`)
are NOT part of the model: they are the fields of `Lib`, and every theorem is quantified over all `Lib`.
The driver instantiates `Lib` with small reference decoders (`refLib`, below) plus an oracle column for
`Init.Unmarshal`; a wrong reference decoder shows up as a model/implementation divergence, it cannot make a
theorem wrong.

`Cfg` selects the code as it is (`cur`) or the code with the proposed fix (`fixed`): reject
`mvhd.Timescale = 0`, and compare every declared size with what is left in the file before allocating.
-/
import MtxVerif.Base.DriverLib

namespace MtxVerif.C28

def u32 : Nat := 4294967296

/-- uint32 subtraction as Go computes it (wraps). -/
def sub32 (a b : Nat) : Nat := (a + u32 - b % u32) % u32

def byteAt (f : Bytes) (i : Nat) : Nat := (f.getD i 0).toNat

/-- big-endian uint32 at offset `p` (callers check that the bytes exist). -/
def rd32 (f : Bytes) (p : Nat) : Nat :=
  byteAt f p * 16777216 + byteAt f (p + 1) * 65536 + byteAt f (p + 2) * 256 + byteAt f (p + 3)

def rd64 (f : Bytes) (p : Nat) : Nat := rd32 f p * u32 + rd32 f (p + 4)

def tagAt (f : Bytes) (p : Nat) : Bytes := (f.drop p).take 4

def tFtyp : Bytes := asc ['f', 't', 'y', 'p']
def tMoov : Bytes := asc ['m', 'o', 'o', 'v']
def tMoof : Bytes := asc ['m', 'o', 'o', 'f']
def tMdat : Bytes := asc ['m', 'd', 'a', 't']
def tMfhd : Bytes := asc ['m', 'f', 'h', 'd']
def tTraf : Bytes := asc ['t', 'r', 'a', 'f']
def tTfhd : Bytes := asc ['t', 'f', 'h', 'd']
def tTfdt : Bytes := asc ['t', 'f', 'd', 't']
def tTrun : Bytes := asc ['t', 'r', 'u', 'n']

/-! ### third-party decoders: interface -/

inductive LibRes (α : Type) where
  | ok (a : α)
  | eof
  | other
deriving Repr, DecidableEq

structure Track where
  id : Nat
  ts : Nat
deriving Repr, DecidableEq

structure Lib where
  /-- `amp4.Unmarshal(r, payloadSize, &Mvhd)` with the reader positioned at the given bytes:
      `(DurationV0, Timescale)` -/
  mvhd : Bytes → Nat → LibRes (Nat × Nat)
  /-- `amp4.Unmarshal` of a tfhd payload: TrackID -/
  tfhd : Bytes → Option Nat
  /-- tfdt payload: BaseMediaDecodeTimeV1 -/
  tfdt : Bytes → Option Nat
  /-- trun payload: sum of the entries' SampleDuration -/
  trun : Bytes → Option Nat
  /-- `fmp4.Init.Unmarshal` of ftyp+moov: tracks (id, timescale) -/
  init : Bytes → LibRes (List Track)

/-- The one contract about the library the totality result needs: mediacommon rejects `mdhd.Timescale = 0`
(fmp4/init.go), so every track it returns has a non-zero time scale.  Checked on every oracle column. -/
def LibOK (lib : Lib) : Prop := ∀ b tr, lib.init b = .ok tr → ∀ t ∈ tr, t.ts ≠ 0

/-! ### outcomes -/

inductive Err where
  | eof | ftyp | moov | other | moof | mfhd | unexpected
  | tfhd | badtfhd | track | tfdt | badtfdt | trun | badtrun
deriving Repr, DecidableEq

inductive Out (α : Type) where
  | ok (a : α)
  | err (e : Err)
  | panicDiv
  | hang
deriving Repr, DecidableEq

structure Alloc where
  req : Nat
  rem : Nat
deriving Repr, DecidableEq

abbrev Res (α : Type) := Out α × List Alloc

structure Cfg where
  guardTs : Bool
  guardSz : Bool
deriving Repr, DecidableEq

def cur : Cfg := ⟨false, false⟩
def fixed : Cfg := ⟨true, true⟩

/-! ### segmentFMP4ReadHeader -/

/-- size of the buffer for ftyp+moov.  Current code: `make([]byte, uint64(ftypSize+moovSize))` — the sum is
computed in uint32 and wraps; fixed code: the uint64 sum, compared with the file length first. -/
def headerReq (c : Cfg) (fs ms : Nat) : Nat := if c.guardSz then fs + ms else (fs + ms) % u32

def readHeader (c : Cfg) (lib : Lib) (f : Bytes) : Res (List Track × Nat) :=
  if f.length < 8 then (.err .eof, []) else
  if tagAt f 4 != tFtyp then (.err .ftyp, []) else
  let fs := rd32 f 0
  if f.length < fs + 8 then (.err .eof, []) else
  if tagAt f (fs + 4) != tMoov then (.err .moov, []) else
  let ms := rd32 f fs
  match lib.mvhd (f.drop (fs + 16)) (sub32 ms 8) with
  | .eof => (.err .eof, [])
  | .other => (.err .other, [])
  | .ok (dur, ts) =>
    if ts = 0 then (if c.guardTs then (.err .other, []) else (.panicDiv, [])) else
    let d := dur * 1000000000 / ts
    let req := headerReq c fs ms
    if c.guardSz && f.length < req then (.err .eof, []) else
    let al := [Alloc.mk req f.length]
    if f.length < req then (.err .eof, al) else
    match lib.init (f.take req) with
    | .eof => (.err .eof, al)
    | .other => (.err .other, al)
    | .ok tr => (.ok (tr, d), al)

/-! ### segmentFMP4ReadDurationFromParts -/

/-- "find last valid moof and mdat".  `none` = fuel exhausted (would be a hang). -/
def moofLoop (f : Bytes) : Nat → Nat → Option Nat → Option (Option Nat)
  | 0, _, _ => none
  | fuel + 1, pos, last =>
    if f.length < pos + 8 then some last else
    if tagAt f (pos + 4) != tMoof then some last else
    let p2 := pos + rd32 f pos
    if f.length < p2 + 8 then some last else
    if tagAt f (p2 + 4) != tMdat then some last else
    moofLoop f fuel (p2 + rd32 f p2) (some pos)

def findTrack (tracks : List Track) (id : Nat) : Option Track := tracks.find? (fun t => t.id == id)

/-- header (8 bytes at `pos`) of an expected box, then `buf2 := make([]byte, size-8); ReadFull`. -/
def readBox (c : Cfg) (f : Bytes) (pos : Nat) (tag : Bytes) (noTag : Err) (al : List Alloc) :
    Except (Res Int64) (Bytes × Nat × List Alloc) :=
  if f.length < pos + 8 then .error (.err .eof, al) else
  if tagAt f (pos + 4) != tag then .error (.err noTag, al) else
  let sz := rd32 f pos
  let req := sub32 sz 8
  let rem := f.length - (pos + 8)
  if c.guardSz && (sz < 8 || rem < req) then .error (.err .eof, al) else
  let al' := al ++ [Alloc.mk req rem]
  if rem < req then .error (.err .eof, al') else
  .ok ((f.drop (pos + 8)).take req, pos + 8 + req, al')

/-- durationMp4ToGo on int64 (wrapping), `ts ≠ 0`. -/
def mp4ToGo (v : Int64) (ts : Nat) : Int64 :=
  let t := Int64.ofNat ts
  (v / t) * 1000000000 + (v % t) * 1000000000 / t

/-- one iteration of "foreach traf": `.error r` = the function returns `r`, `.ok (pos', max', allocs')` = next
iteration. -/
def trafStep (c : Cfg) (lib : Lib) (f : Bytes) (tracks : List Track) (pos : Nat) (mx : Int64) (al : List Alloc) :
    Except (Res Int64) (Nat × Int64 × List Alloc) :=
  if f.length < pos + 8 then .error (.err .eof, al) else
  if tagAt f (pos + 4) == tMdat then .error (.ok mx, al) else
  if tagAt f (pos + 4) != tTraf then .error (.err .unexpected, al) else
  match readBox c f (pos + 8) tTfhd .tfhd al with
  | .error r => .error r
  | .ok (p1, pos1, al1) =>
    match lib.tfhd p1 with
    | none => .error (.err .badtfhd, al1)
    | some tid =>
      match findTrack tracks tid with
      | none => .error (.err .track, al1)
      | some tr =>
        match readBox c f pos1 tTfdt .tfdt al1 with
        | .error r => .error r
        | .ok (p2, pos2, al2) =>
          match lib.tfdt p2 with
          | none => .error (.err .badtfdt, al2)
          | some base =>
            match readBox c f pos2 tTrun .trun al2 with
            | .error r => .error r
            | .ok (p3, pos3, al3) =>
              match lib.trun p3 with
              | none => .error (.err .badtrun, al3)
              | some sum =>
                if tr.ts = 0 then .error (.panicDiv, al3) else
                let e := mp4ToGo (Int64.ofNat base + Int64.ofNat sum) tr.ts
                .ok (pos3, (if e > mx then e else mx), al3)

/-- "foreach traf". -/
def trafLoop (c : Cfg) (lib : Lib) (f : Bytes) (tracks : List Track) :
    Nat → Nat → Int64 → List Alloc → Res Int64
  | 0, _, _, al => (.hang, al)
  | fuel + 1, pos, mx, al =>
    match trafStep c lib f tracks pos mx al with
    | .error r => r
    | .ok (pos', mx', al') => trafLoop c lib f tracks fuel pos' mx' al'

def durFromParts (c : Cfg) (lib : Lib) (f : Bytes) (tracks : List Track) : Res Int64 :=
  if f.length < 8 then (.err .eof, []) else
  if tagAt f 4 != tFtyp then (.err .ftyp, []) else
  let fs := rd32 f 0
  if f.length < fs + 8 then (.err .eof, []) else
  if tagAt f (fs + 4) != tMoov then (.err .moov, []) else
  let ms := rd32 f fs
  match moofLoop f (f.length + 1) (fs + ms) none with
  | none => (.hang, [])
  | some none => (.err .moof, [])
  | some (some last) =>
    if f.length < last + 16 then (.err .eof, []) else
    if tagAt f (last + 12) != tMfhd then (.err .mfhd, []) else
    trafLoop c lib f tracks (f.length + 1) (last + 24) 0 []

/-! ### parseSegment (on_list.go) -/

def parseSegment (c : Cfg) (lib : Lib) (f : Bytes) : Res (List Track × Int64) :=
  match readHeader c lib f with
  | (.ok (tr, d), al) =>
    if d = 0 then
      match durFromParts c lib f tr with
      | (.ok d2, al2) => (.ok (tr, d2), al ++ al2)
      | (.err e, al2) => (.err e, al ++ al2)
      | (.panicDiv, al2) => (.panicDiv, al ++ al2)
      | (.hang, al2) => (.hang, al ++ al2)
    else (.ok (tr, Int64.ofNat d), al)
  | (.err e, al) => (.err e, al)
  | (.panicDiv, al) => (.panicDiv, al)
  | (.hang, al) => (.hang, al)

/-! ### safety predicates -/

/-- every allocation is covered by bytes that are really in the file -/
def Fits (al : List Alloc) : Prop := ∀ a ∈ al, a.req ≤ a.rem

instance (al : List Alloc) : Decidable (Fits al) := by unfold Fits; infer_instance

/-- "answers with data or an error": no panic, no hang, and every allocation is covered by bytes that are
really in the file (so at most the file length `n`). -/
def SafeRes {α : Type} (n : Nat) (r : Res α) : Prop :=
  r.1 ≠ .panicDiv ∧ r.1 ≠ .hang ∧ ∀ a ∈ r.2, a.req ≤ a.rem ∧ a.rem ≤ n

/-! ### segmentFMP4MuxParts: nil-pointer state machine of the ReadBoxStructure callback

`tfhd`/`tfdt` are locals of segmentFMP4MuxParts that start as nil, are set by the "tfhd"/"tfdt" cases and are
never reset; the "tfdt" case dereferences `tfhd`, the "trun" case dereferences `tfdt`.  The callback is
invoked by the library for every box it meets, whatever its parent (the switch is on the type only).
An event = one callback invocation as the library delivers it. -/

inductive MEv where
  | tfhd (payloadOk : Bool)
  | tfdt (payloadOk : Bool) (trackFound : Bool)
  | trun (payloadOk : Bool)
  | other
deriving Repr, DecidableEq

inductive MOut where
  | noPanic
  | panicNil
deriving Repr, DecidableEq

/-- `guard` = proposed fix (`if tfhd == nil { return error }`, same for tfdt). -/
def muxWalk (guard : Bool) : Bool → Bool → List MEv → MOut
  | _, _, [] => .noPanic
  | h, d, .other :: r => muxWalk guard h d r
  | _, d, .tfhd ok :: r => if ok then muxWalk guard true d r else .noPanic
  | h, _, .tfdt ok tf :: r =>
    if !ok then .noPanic
    else if !h then (if guard then .noPanic else .panicNil)
    else if !tf then .noPanic
    else muxWalk guard h true r
  | h, d, .trun ok :: r =>
    if !ok then .noPanic
    else if !d then (if guard then .noPanic else .panicNil)
    else muxWalk guard h d r

/-! ### reference decoders used by the driver (NOT used by any theorem) -/

def bit (v k : Nat) : Bool := (v / k) % 2 == 1

def refMvhd (r : Bytes) (size : Nat) : LibRes (Nat × Nat) :=
  if r.length < 4 then .eof else
  let v := byteAt r 0
  if v != 0 && v != 1 then .other else
  let need := if v == 0 then 100 else 112
  if r.length < need then .eof else
  if size < need then .other else
  if v == 0 then .ok (rd32 r 16, rd32 r 12) else .ok (0, rd32 r 20)

def flags24 (p : Bytes) : Nat := byteAt p 1 * 65536 + byteAt p 2 * 256 + byteAt p 3

def refTfhd (p : Bytes) : Option Nat :=
  if p.length < 4 then none else
  if byteAt p 0 != 0 then none else
  let fl := flags24 p
  let need := 8 + (if bit fl 1 then 8 else 0) + (if bit fl 2 then 4 else 0) + (if bit fl 8 then 4 else 0)
    + (if bit fl 16 then 4 else 0) + (if bit fl 32 then 4 else 0)
  if p.length < need then none else some (rd32 p 4)

def refTfdt (p : Bytes) : Option Nat :=
  if p.length < 4 then none else
  let v := byteAt p 0
  if v == 0 then (if p.length < 8 then none else some 0)
  else if v == 1 then (if p.length < 12 then none else some (rd64 p 4))
  else none

def refTrun (p : Bytes) : Option Nat :=
  if p.length < 4 then none else
  let v := byteAt p 0
  if v != 0 && v != 1 then none else
  if p.length < 8 then none else
  let fl := flags24 p
  let cnt := rd32 p 4
  let hdr := 8 + (if bit fl 1 then 4 else 0) + (if bit fl 4 then 4 else 0)
  let es := (if bit fl 256 then 4 else 0) + (if bit fl 512 then 4 else 0) + (if bit fl 1024 then 4 else 0)
    + (if bit fl 2048 then 4 else 0)
  if p.length < hdr then none else
  if es == 0 then some 0 else
  -- go-mp4: a dynamic length equal to LengthUnlimited (math.MaxUint32) means "as many as fit"
  if cnt == 4294967295 && (p.length - hdr) % es != 0 then none else
  let cnt := if cnt == 4294967295 then (p.length - hdr) / es else cnt
  if p.length < hdr + cnt * es then none else
  if bit fl 256 then some ((List.range cnt).foldl (fun acc i => acc + rd32 p (hdr + i * es)) 0) else some 0

def refLib (initOracle : LibRes (List Track)) : Lib :=
  { mvhd := refMvhd, tfhd := refTfhd, tfdt := refTfdt, trun := refTrun, init := fun _ => initOracle }

/-! ### canonical answers -/

def Err.str : Err → String
  | .eof => "eof" | .ftyp => "ftyp" | .moov => "moov" | .other => "other" | .moof => "moof"
  | .mfhd => "mfhd" | .unexpected => "unexpected" | .tfhd => "tfhd" | .badtfhd => "badtfhd"
  | .track => "track" | .tfdt => "tfdt" | .badtfdt => "badtfdt" | .trun => "trun" | .badtrun => "badtrun"

def fmtTracks (tr : List Track) : String :=
  if tr.isEmpty then "-" else ",".intercalate (tr.map fun t => s!"{t.id}:{t.ts}")

def fmtParse : Out (List Track × Int64) → String
  | .ok (tr, d) => s!"ok {d.toInt} {fmtTracks tr}"
  | .err e => "err " ++ e.str
  | .panicDiv => "panic div"
  | .hang => "hang"

def fmtDur : Out Int64 → String
  | .ok d => s!"ok {d.toInt}"
  | .err e => "err " ++ e.str
  | .panicDiv => "panic div"
  | .hang => "hang"

def maxReq (al : List Alloc) : Nat := al.foldl (fun m a => max m a.req) 0
def sumReq (al : List Alloc) : Nat := al.foldl (fun m a => m + a.req) 0

/-- measurement slack of the harness (runtime.MemStats.TotalAlloc delta): library bookkeeping, temp file,
    reflection — 1 MiB + 256 × file length (observed: < 80 × file length, plus ~0.7 KiB per entry of a trun
    without per-sample fields, which the generator keeps below 200 entries). -/
def slack (n : Nat) : Nat := 1048576 + 256 * n

/-- is the measured allocation consistent with what the model says the code requests? -/
def allocConsistent (n measured : Nat) (al : List Alloc) : Bool :=
  sumReq al ≤ measured + slack n && measured ≤ sumReq al + slack n

end MtxVerif.C28
