/-
C01 — internal authentication (internal/auth/manager.go: matchesPermission, authenticateWithUser,
authenticateInternal, Authenticate; internal/conf/credential.go: Credential.Check;
internal/conf/ip_network(s).go: IPNetwork.UnmarshalJSON / Contains, i.e. net.IPNet.Contains).

Everything is on byte lists (Go strings / net.IP / net.IPMask are byte sequences).
Third-party behaviour is an `Oracle` parameter: regexp compile+MatchString, sha256+base64, argon2
verification.  `Req.custom` is the request's `CustomVerifyFunc` (nil = `none`).
All theorems in Props/C01 quantify over every oracle.
-/
import MtxVerif.Base.DriverLib

namespace MtxVerif.C01

/-! ### constants (kernel-reducible ASCII) -/
def aPublish : Bytes := asc ['p','u','b','l','i','s','h']
def aRead : Bytes := asc ['r','e','a','d']
def aPlayback : Bytes := asc ['p','l','a','y','b','a','c','k']
def aAPI : Bytes := asc ['a','p','i']
def aMetrics : Bytes := asc ['m','e','t','r','i','c','s']
def aPprof : Bytes := asc ['p','p','r','o','f']
def anyUser : Bytes := asc ['a','n','y']
def sha256Prefix : Bytes := asc ['s','h','a','2','5','6',':']
def argon2Prefix : Bytes := asc ['a','r','g','o','n','2',':']
/-- `~` -/
def tilde : UInt8 := 126

structure Perm where
  action : Bytes
  path : Bytes
deriving DecidableEq, Repr

/-- `conf.IPNetwork` = `net.IPNet{IP, Mask}` as raw bytes (any lengths: the struct is not validated). -/
structure IPNet where
  ip : Bytes
  mask : Bytes
deriving DecidableEq, Repr

structure User where
  user : Bytes
  pass : Bytes
  ips : List IPNet
  perms : List Perm
deriving DecidableEq, Repr

structure Req where
  action : Bytes
  path : Bytes
  user : Bytes
  pass : Bytes
  token : Bytes
  ip : Bytes
  /-- `CustomVerifyFunc(expectedUser, expectedPass)`; `none` = nil -/
  custom : Option (Bytes → Bytes → Bool)
  enableAsk : Bool

structure Oracle where
  /-- `regexp.Compile(pattern)` then `MatchString(subject)`; `none` = compile error -/
  regexFind : Bytes → Bytes → Option Bool
  /-- base64.StdEncoding(sha256(guess)) -/
  sha256b64 : Bytes → Bytes
  /-- `argon2.VerifyEncoded(guess, encoded)` returned `(true, nil)` -/
  argon2ok : Bytes → Bytes → Bool

/-! ### matchesPermission -/

def isPathAction (a : Bytes) : Bool := a == aPublish || a == aRead || a == aPlayback

/-- body of the `for` loop for one permission: does this entry make the function return true? -/
def permMatches (o : Oracle) (p : Perm) (action path : Bytes) : Bool :=
  if p.action = action then
    if isPathAction p.action then
      match p.path with
      | [] => true
      | c :: pat =>
        if c = tilde then
          -- `err == nil && regexp.MatchString(req.Path)`; no fall-through to string equality
          (match o.regexFind pat path with
           | some true => true
           | _ => false)
        else decide (p.path = path)
    else true
  else false

/-- the loop: first matching entry returns true -/
def matchesPermission (o : Oracle) : List Perm → Bytes → Bytes → Bool
  | [], _, _ => false
  | p :: ps, a, path => if permMatches o p a path then true else matchesPermission o ps a path

/-! ### Credential.Check -/

def credCheck (o : Oracle) (d guess : Bytes) : Bool :=
  if sha256Prefix.isPrefixOf d then d.drop 7 == o.sha256b64 guess       -- ConstantTimeCompare == 1
  else if argon2Prefix.isPrefixOf d then o.argon2ok guess (d.drop 7)
  else if d ≠ [] then d == guess
  else true

/-! ### net.IP.To4, net.IPNet.Contains -/

def isZeros (b : Bytes) : Bool := b.all (· == 0)

/-- `IP.To4()`: `none` = nil -/
def to4 (ip : Bytes) : Option Bytes :=
  if ip.length = 4 then some ip
  else if ip.length = 16 ∧ isZeros (ip.take 10) ∧ ip[10]? = some 0xff ∧ ip[11]? = some 0xff then
    some (ip.drop 12)
  else none

/-- first part of `networkNumberAndMask`: `n.IP.To4()`, else `n.IP` if it has 16 bytes, else nil -/
def netIP (ip : Bytes) : Option Bytes :=
  match to4 ip with
  | some x => some x
  | none => if ip.length = 16 then some ip else none

/-- `networkNumberAndMask`; `([], [])` = `(nil, nil)` -/
def networkNumberAndMask (n : IPNet) : Bytes × Bytes :=
  match netIP n.ip with
  | none => ([], [])
  | some ip =>
    if n.mask.length = 4 then
      (if ip.length ≠ 4 then ([], []) else (ip, n.mask))
    else if n.mask.length = 16 then
      (if ip.length = 4 then (ip, n.mask.drop 12) else (ip, n.mask))
    else ([], [])

/-- `for i < l { if nn[i]&m[i] != ip[i]&m[i] {return false} }` — the three slices have equal length
whenever this is reached (`nnm_len` in Props/C01: the index expressions cannot panic). -/
def maskedEq : Bytes → Bytes → Bytes → Bool
  | a :: as, m :: ms, b :: bs => (a &&& m == b &&& m) && maskedEq as ms bs
  | _, _, _ => true

def ipnetContains (n : IPNet) (ip : Bytes) : Bool :=
  let nm := networkNumberAndMask n
  let ip := (to4 ip).getD ip
  if ip.length ≠ nm.1.length then false else maskedEq nm.1 nm.2 ip

/-- `IPNetworks.Contains` -/
def ipsContain : List IPNet → Bytes → Bool
  | [], _ => false
  | n :: ns, ip => if ipnetContains n ip then true else ipsContain ns ip

/-! ### net.CIDRMask and the glue of IPNetwork.UnmarshalJSON -/

/-- `^byte(0xff >> n)` for n < 8 -/
def maskByte (n : Nat) : UInt8 := UInt8.ofNat (255 - 255 / 2 ^ n)

/-- `net.CIDRMask(ones, 8*len)` -/
def cidrMask (ones : Nat) : Nat → Bytes
  | 0 => []
  | len + 1 => (if ones ≥ 8 then 0xff else maskByte ones) :: cidrMask (ones - 8) len

inductive Unm where
  | ok (n : IPNet)
  | err
  | panic
deriving DecidableEq, Repr

/-- `IPNetwork.UnmarshalJSON` after the string has been decoded; `cidr` = result of `net.ParseCIDR`
(`none` = error), `ip` = result of `net.ParseIP` (`none` = nil). -/
def unmarshalIPNet (cidr : Option IPNet) (ip : Option Bytes) : Unm :=
  match cidr with
  | some n =>
    match to4 n.ip with
    | some v4 => if n.mask.length < 4 then .panic else .ok ⟨v4, n.mask.drop (n.mask.length - 4)⟩
    | none => .ok n
  | none =>
    match ip with
    | some ip =>
      match to4 ip with
      | some v4 => .ok ⟨v4, cidrMask 32 4⟩
      | none => .ok ⟨ip, cidrMask 128 16⟩
    | none => .err

/-- spec for the glue, on the implementation's answer: the stored network must denote the same
(network number, mask) pair — hence contain the same client addresses — as what `net.ParseCIDR`
returned, resp. the single parsed address.  `none` = conforms. -/
def specIPNet (cidr : Option IPNet) (ip : Option Bytes) (impl : Unm) : Option String :=
  match cidr, ip, impl with
  | some c, _, .ok n =>
    if networkNumberAndMask n = networkNumberAndMask c then none
    else some "stored network is not equivalent to the parsed CIDR"
  | none, some a, .ok n =>
    if networkNumberAndMask n = networkNumberAndMask ⟨a, cidrMask (8 * a.length) a.length⟩ then none
    else some "stored network is not the single parsed address"
  | none, none, .err => none
  | _, _, .err => some "parsable IP/CIDR rejected"
  | none, none, .ok _ => some "unparsable IP/CIDR accepted"
  | _, _, .panic => some "panic"

/-! ### authenticateWithUser / authenticateInternal / Authenticate -/

def credsOK (o : Oracle) (u : User) (r : Req) : Bool :=
  match r.custom with
  | some f => f u.user u.pass
  | none => credCheck o u.user r.user && credCheck o u.pass r.pass

def authWithUser (o : Oracle) (r : Req) (u : User) : Bool :=
  if u.ips.length ≠ 0 ∧ ipsContain u.ips r.ip = false then false
  else if matchesPermission o u.perms r.action r.path = false then false
  else if u.user ≠ anyUser then credsOK o u r
  else true

def authInternal (o : Oracle) (r : Req) : List User → Bool
  | [] => false
  | u :: us => if authWithUser o r u then true else authInternal o r us

inductive Outcome where
  | ok (user : Bytes)
  | err (ask : Bool)
deriving DecidableEq, Repr

/-- `Manager.Authenticate` with `Method == internal` (`token` stays "" : getToken is not called). -/
def authenticate (o : Oracle) (users : List User) (r : Req) : Outcome :=
  if authInternal o r users then .ok r.user
  else .err (r.enableAsk && r.user.isEmpty && r.pass.isEmpty)   -- `&& token == ""` holds trivially

/-! ### executable spec (the property's wording), evaluated by the driver on the implementation's answer -/

/-- "grants that action (for publish/read/playback: empty path, equal path, or a `~` regular
expression found in the path)" -/
def permGrants (o : Oracle) (p : Perm) (action path : Bytes) : Bool :=
  p.action == action &&
    (!isPathAction action ||
      p.path.isEmpty ||
      (p.path.head? == some tilde && o.regexFind p.path.tail path == some true) ||
      (p.path.head? != some tilde && p.path == path))

def credMatches (o : Oracle) (d guess : Bytes) : Bool :=
  (sha256Prefix.isPrefixOf d && d.drop 7 == o.sha256b64 guess) ||
  (!sha256Prefix.isPrefixOf d && argon2Prefix.isPrefixOf d && o.argon2ok guess (d.drop 7)) ||
  (!sha256Prefix.isPrefixOf d && !argon2Prefix.isPrefixOf d && (d.isEmpty || d == guess))

def userAdmits (o : Oracle) (r : Req) (u : User) : Bool :=
  (u.ips.isEmpty || u.ips.any (ipnetContains · r.ip)) &&
  u.perms.any (permGrants o · r.action r.path) &&
  (u.user == anyUser ||
    (match r.custom with
     | some f => f u.user u.pass
     | none => credMatches o u.user r.user && credMatches o u.pass r.pass))

def specAdmit (o : Oracle) (users : List User) (r : Req) : Bool := users.any (userAdmits o r)

/-- verdict on an implementation answer; `none` = conforms -/
def specCheck (o : Oracle) (users : List User) (r : Req) (impl : Outcome) : Option String :=
  match impl with
  | .ok u =>
    if !specAdmit o users r then some "admitted although no configured user entry admits the request"
    else if u ≠ r.user then some "admitted request does not report the supplied username"
    else none
  | .err ask =>
    if specAdmit o users r then some "rejected although a configured user entry admits the request"
    else if ask ≠ (r.enableAsk && r.user.isEmpty && r.pass.isEmpty) then
      some "ask-for-credentials flag is not (asking allowed and no user/pass supplied)"
    else none

end MtxVerif.C01
