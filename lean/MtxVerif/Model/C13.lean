/-
C13 — hot reload (internal/core/core.go: reloadConf = closeResources(newConf); conf.Store; createResources(false)).

Generic model.  The *table* (one `Row` per component: which conf fields its constructor reads, which
fields guard its creation, which other components it holds references to, which fields its `close<K>`
predicate compares and how, which other close flags it includes, which fields are reloaded in place)
is regenerated from the source by tools/xlate/c13 into `MtxVerif.Gen.C13`.  Everything here is stated
for an arbitrary table.

Conventions.  Components and conf fields are numbered (`Nat`).  All recursive functions take the rows
**latest first** (`rows.reverse`): the head is the component whose close flag is computed last and
which is created last; its `deps` / `refs` may only mention components of the tail (Go: a variable
must be declared before use; a component must exist before a pointer to it can be stored).
-/
import MtxVerif.Base.DriverLib

namespace MtxVerif.C13

/-- What a disjunct of a `close<K>` predicate detects.
`value`: the values differ (`!=` on scalars/strings/structs of scalars, `reflect.DeepEqual`,
`slices.Equal` on scalar elements, `f(new.F) != f(old.F)` on the derived field `F#f`);
`identity`: `!=` on a pointer-typed field — true iff the two pointers differ;
`unknown`: the extractor could not classify the comparison. -/
inductive CmpKind | value | identity | unknown
  deriving DecidableEq, Repr, Inhabited

structure Cmp where
  field : Nat
  kind : CmpKind
  deriving DecidableEq, Repr

/-- `if !close<K> && [p.k != nil &&] differs F { p.k.Reload…(newConf.F) }` -/
structure Reload where
  field : Nat
  kind : CmpKind
  nilChecked : Bool
  deriving DecidableEq, Repr

structure Row where
  comp : Nat
  guard : List Nat
  reads : List Nat
  refs : List Nat
  cmp : List Cmp
  deps : List Nat
  reloads : List Reload
  shutdown : Bool
  deriving Repr

/-- A configuration as the reload code sees it: the value of every field and the identity (address) of
the object holding it (only meaningful for pointer-typed fields; 0 = nil). -/
structure Conf where
  val : Nat → Nat
  addr : Nat → Nat

/-- A running component instance: a unique id (pointer identity), the values its constructor was
given (and in-place reloads stored later), and the instance ids of the components it points to. -/
structure Inst where
  id : Nat
  args : Nat → Nat
  refs : Nat → Option Nat

structure St where
  conf : Conf
  run : Nat → Option Inst
  next : Nat
  /-- an in-place reload without nil check was invoked on a nil component (Go: nil dereference) -/
  panicked : Bool := false

def differs (old new : Conf) (f : Nat) : CmpKind → Bool
  | .value => old.val f != new.val f
  | .identity => old.addr f != new.addr f
  | .unknown => false

def own (old new : Conf) (r : Row) : Bool :=
  r.cmp.any fun c => differs old new c.field c.kind

/-- The close flags, rows latest first. -/
def flags (old new : Conf) : List Row → Nat → Bool
  | [], _ => false
  | r :: earlier, k =>
    if k = r.comp then own old new r || r.deps.any (flags old new earlier)
    else flags old new earlier k

/-- In-place reloads of one component: the stored argument is replaced by the new value. -/
def patch (old new : Conf) (r : Row) (i : Inst) : Inst :=
  { i with args := fun f =>
      if r.reloads.any (fun rl => rl.field == f && differs old new f rl.kind) then new.val f else i.args f }

/-- Instances after the in-place reloads and the closes of closeResources. -/
def midRun (old new : Conf) (fl : Nat → Bool) (run : Nat → Option Inst) : List Row → Nat → Option Inst
  | [], k => run k
  | r :: rest, k =>
    if k = r.comp then (if fl k then none else (run k).map (patch old new r))
    else midRun old new fl run rest k

/-- Does closeResources dereference a nil component? -/
def panics (old new : Conf) (fl : Nat → Bool) (run : Nat → Option Inst) (L : List Row) : Bool :=
  L.any fun r => !fl r.comp && (run r.comp).isNone &&
    r.reloads.any fun rl => !rl.nilChecked && differs old new rl.field rl.kind

def setRun (run : Nat → Option Inst) (k : Nat) (v : Option Inst) : Nat → Option Inst :=
  fun c => if c = k then v else run c

/-- One block of createResources: `if guard && p.k == nil { p.k = &K{…conf…, …p.c…} }`. -/
def createOne (g : Nat → Bool) (r : Row) (s : St) : St :=
  if g r.comp && (s.run r.comp).isNone then
    { s with
      run := setRun s.run r.comp
        (some { id := s.next, args := s.conf.val, refs := fun c => (s.run c).map (·.id) }),
      next := s.next + 1 }
  else s

/-- createResources, rows latest first (so the tail is created before the head). -/
def createAll (g : Nat → Bool) : List Row → St → St
  | [], s => s
  | r :: earlier, s => createOne g r (createAll g earlier s)

/-- One reload; `g k` is the truth value of component k's guard under the NEW configuration. -/
def reloadG (L : List Row) (g : Nat → Bool) (s : St) (new : Conf) : St :=
  let fl := flags s.conf new L
  createAll g L
    { conf := new,
      run := midRun s.conf new fl s.run L,
      next := s.next,
      panicked := s.panicked || panics s.conf new fl s.run L }

/-- `G k v`: component k's guard evaluated on the field values v. -/
def reload (G : Nat → (Nat → Nat) → Bool) (L : List Row) (s : St) (new : Conf) : St :=
  reloadG L (fun k => G k new.val) s new

/-- Start-up (createResources(true) on an empty Core). -/
def boot (G : Nat → (Nat → Nat) → Bool) (L : List Row) (c : Conf) : St :=
  createAll (fun k => G k c.val) L { conf := c, run := fun _ => none, next := 0 }

def runHistory (G : Nat → (Nat → Nat) → Bool) (L : List Row) (s : St) : List Conf → St
  | [] => s
  | c :: cs => runHistory G L (reload G L s c) cs

/-! ### closures and decidable side conditions (evaluated on the generated table) -/

def comps (L : List Row) : List Nat := L.map (·.comp)

/-- every comparison that can raise component k's close flag (through `deps`) -/
def cmpClosure : List Row → Nat → List Cmp
  | [], _ => []
  | r :: earlier, k =>
    if k = r.comp then r.cmp ++ r.deps.flatMap (cmpClosure earlier) else cmpClosure earlier k

/-- every component whose close flag is (transitively) a disjunct of k's -/
def depClosure : List Row → Nat → List Nat
  | [], _ => []
  | r :: earlier, k =>
    if k = r.comp then r.deps ++ r.deps.flatMap (depClosure earlier) else depClosure earlier k

/-- the parameters of k: what its constructor reads, its guard, and (transitively) the parameters of
the components it holds references to -/
def paramClosure : List Row → Nat → List Nat
  | [], _ => []
  | r :: earlier, k =>
    if k = r.comp then r.reads ++ r.guard ++ r.refs.flatMap (paramClosure earlier)
    else paramClosure earlier k

def detects : CmpKind → Bool
  | .value => true
  | .identity => true
  | .unknown => false

def coveredByClose (L : List Row) (k f : Nat) : Bool :=
  (cmpClosure L k).any fun c => c.field == f && detects c.kind

def coveredByReload (r : Row) (f : Nat) : Bool :=
  r.reloads.any fun rl => rl.field == f && detects rl.kind

/-- well-formed table: component ids distinct, refs and deps point to earlier rows -/
def wfl : List Row → Bool
  | [] => true
  | r :: earlier =>
    !(comps earlier).contains r.comp &&
    r.refs.all (comps earlier).contains &&
    r.deps.all (comps earlier).contains &&
    wfl earlier

/-- `covers gaps L`: every guard field is compared by the close flag (closure), every constructor
field is compared or reloaded in place — except the pairs listed in `gaps`. -/
def coversRow (gaps : List (Nat × Nat)) (L : List Row) (r : Row) : Bool :=
  r.guard.all (coveredByClose L r.comp) &&
  r.reads.all fun f => coveredByClose L r.comp f || coveredByReload r f || gaps.contains (r.comp, f)

def covers (gaps : List (Nat × Nat)) (L : List Row) : Bool := L.all (coversRow gaps L)

/-- the (component, field) pairs that are read but neither compared nor reloaded -/
def actualGaps (L : List Row) : List (Nat × Nat) :=
  L.flatMap fun r => (r.reads.filter fun f => !(coveredByClose L r.comp f || coveredByReload r f)).map
    fun f => (r.comp, f)

/-- guard fields that no comparison covers (not tolerated at all) -/
def guardGaps (L : List Row) : List (Nat × Nat) :=
  L.flatMap fun r => (r.guard.filter fun f => !coveredByClose L r.comp f).map fun f => (r.comp, f)

/-- every held reference is (transitively) a close dependency -/
def refsCovered (L : List Row) : Bool :=
  L.all fun r => r.refs.all (depClosure L r.comp).contains

/-- an in-place reload without nil check only on a component that is always created -/
def reloadsSafe (L : List Row) : Bool :=
  L.all fun r => r.reloads.all fun rl => rl.nilChecked || r.guard.isEmpty

/-- nothing is compared that is not a parameter; every close dependency is a held reference;
in-place reloads are value comparisons of constructor fields -/
def tight : List Row → Bool
  | [] => true
  | r :: earlier =>
    r.cmp.all (fun c => (r.reads ++ r.guard).contains c.field) &&
    r.deps.all r.refs.contains &&
    r.reloads.all (fun rl => r.reads.contains rl.field && rl.kind == .value) &&
    tight earlier

def noUnknown (L : List Row) : Bool :=
  L.all fun r => r.cmp.all (fun c => c.kind != .unknown) && r.reloads.all (fun rl => rl.kind != .unknown)

/-- own comparisons by pointer identity -/
def identityCmps (L : List Row) : List (Nat × Nat) :=
  L.flatMap fun r => (r.cmp.filter fun c => c.kind == .identity).map fun c => (r.comp, c.field)

/-- fields compared by identity anywhere in the closure of k -/
def identityClosure (L : List Row) (k : Nat) : List Nat :=
  ((cmpClosure L k).filter fun c => c.kind == .identity).map (·.field)

def allShutdown (L : List Row) : Bool := L.all (·.shutdown)

end MtxVerif.C13
