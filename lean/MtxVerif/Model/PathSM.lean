/-
PathSM — state-machine model of the `path` event loop (internal/core/path.go), shared by C16/C18/C19/C20.

One `Event` = one `select` arm of `path.runInner` (handler + the `shouldClose ⇒ closePathIfIdle`
epilogue of that arm), or the `ctx.Done` arm together with the epilogue of `path.run` (`close`), or a
stream-level action of a publisher/reader outside the loop (`write`, `detach`).  The path goroutine is
sequential, so each arm is one atomic step; the model is a total function `step : State → Event →
State × List Out`, the output list being the externally visible actions *in program order*.

Every helper below mirrors the Go function of the same name.  Where Go would panic (nil hook call,
`Handler.Start` while running, `Handler.Stop` while stopped, failed type assertion, explicit
`panic("should not happen")`) the model emits `Out.panic` and sets `panicked`.

Not modelled (no influence on the properties): recorder, forward manager, API get, log text,
stream contents (formats, RTP), `pendingRequests` (it only gates the pathManager's decision to close,
which is the free environment event `close`).  `SubStream.Initialize()` is third-party-dependent
(RTP encoder/decoder construction, media compatibility): its success is the oracle argument `subOK`.
-/
import MtxVerif.Base.DriverLib

namespace MtxVerif.PathSM

inductive SrcKind | publisher | redirect | static
deriving DecidableEq, Repr

/-- the part of `conf.Path` the loop looks at. -/
structure Conf where
  kind : SrcKind := .publisher
  sourceOnDemand : Bool := false
  runOnDemand : Bool := false          -- RunOnDemand != ""
  overridePublisher : Bool := false
  alwaysAvailable : Bool := false
  maxReaders : Nat := 0
  regexp : Bool := false               -- Regexp != nil
  fallback : Bool := false             -- Fallback != nil
deriving DecidableEq, Repr

/-- `conf.Path.validate` constraints that matter here. -/
def Conf.valid (c : Conf) : Bool :=
  (!c.sourceOnDemand || c.kind != .publisher) &&
  (!(c.kind == .static && c.regexp) || c.sourceOnDemand) &&
  (!c.alwaysAvailable || (!c.regexp && !c.sourceOnDemand && !c.runOnDemand)) &&
  (!c.runOnDemand || c.kind == .publisher)

def Conf.odStatic (c : Conf) : Bool := c.kind != .publisher && c.kind != .redirect && c.sourceOnDemand
def Conf.odPub (c : Conf) : Bool := c.runOnDemand

inductive Src | pub (p : Nat) | static | redirect
deriving DecidableEq, Repr

inductive OD | initial | waiting | ready | closing
deriving DecidableEq, Repr

inductive Hook | avail | online | demand
deriving DecidableEq, Repr

inductive Timer | srcReady | srcClose | pubReady | pubClose
deriving DecidableEq, Repr

inductive ReplyKind
  | stream (sid : Nat) | redirect | fallback | noStream | timedOut | terminated | maxReaders | nilStream
deriving DecidableEq, Repr

inductive PubReply | ok (sub : Nat) | notPublisher | busy | subErr | terminated
deriving DecidableEq, Repr

inductive Out
  | reply (rid : Nat) (k : ReplyKind)        -- answer to a describe / addReader request
  | pubReply (k : PubReply)                  -- answer to the addPublisher request of this step
  | srcReply (k : PubReply)                  -- answer to the static source's SetReady
  | pubClosed (p : Nat)                      -- Publisher.Close()
  | readerClosed (r : Nat)                   -- Reader.Close()
  | pathReady | pathNotReady                 -- parent.setPathReady / setPathNotReady
  | hook (h : Hook) (start : Bool)           -- hook pair opened / closed
  | srcStart | srcStop                       -- staticsources.Handler.Start / Stop
  | closeIfIdle                              -- parent.closePathIfIdle
  | removePath                               -- parent.removePath
  | arm (t : Timer) | disarm (t : Timer)     -- time.NewTimer / Stop (not externally visible)
  | delivered (rs : List Nat)                -- readers whose callback saw the written unit
  | ignored                                  -- event cannot reach the loop in this state
  | panic
deriving DecidableEq, Repr

structure State where
  conf : Conf := {}
  closed : Bool := false
  panicked : Bool := false
  source : Option Src := none
  stream : Option Nat := none                -- id of the current `*stream.Stream`
  nextStream : Nat := 0
  readers : List Nat := []                   -- keys of `pa.readers`
  descHold : List Nat := []                  -- request ids of describeRequestsOnHold
  readHold : List (Nat × Nat) := []          -- (request id, reader) of readerAddRequestsOnHold
  odSrc : OD := .initial
  odPub : OD := .initial
  tSrcReady : Bool := false                  -- timer armed
  tSrcClose : Bool := false
  tPubReady : Bool := false
  tPubClose : Bool := false
  hkAvail : Bool := false                    -- pair opened by setAvailable not yet closed
  hkOnline : Bool := false                   -- onOfflineHook != nil
  hkDemand : Bool := false                   -- onUnDemandHook != nil
  srcRunning : Bool := false                 -- staticsources.Handler.running
  srcUp : Bool := false                      -- the source instance reported ready and not yet not-ready
  -- stream level (publisher / reader side objects)
  nextSub : Nat := 0
  srcSub : Option Nat := none                -- sub-stream handed to the current source
  aaCur : Option Nat := none                 -- alwaysAvailable: `stream.subStream` (none = offline sub-stream)
  subs : List (Nat × Nat) := []              -- sub-stream id ↦ stream id
  sreg : List (Nat × Nat) := []              -- reader ↦ stream it is registered on (`stream.AddReader`)
deriving Repr

inductive Event
  | describe (rid : Nat)
  | addPublisher (p : Nat) (subOK : Bool)
  | removePublisher (p : Nat)
  | addReader (rid r : Nat)
  | removeReader (r : Nat)
  | srcReady (subOK : Bool)
  | srcNotReady
  | timer (t : Timer)
  | reloadConf (regexp : Bool)
  | close
  | write (sub : Nat)
  | detach (r : Nat)
deriving DecidableEq, Repr

/-- state + outputs so far of the running step -/
structure W where
  s : State
  out : List Out := []

def emit (o : Out) (w : W) : W := { w with out := w.out ++ [o] }
def upd (f : State → State) (w : W) : W := { w with s := f w.s }
def panic (w : W) : W := emit .panic (upd (fun s => { s with panicked := true }) w)

/-! ### hooks / availability -/

def setOffline (w : W) : W :=
  if w.s.hkOnline then emit (.hook .online false) (upd (fun s => { s with hkOnline := false }) w) else w

def setOnline (w : W) : W :=
  emit (.hook .online true) (upd (fun s => { s with hkOnline := true }) (setOffline w))

/-- `setAvailable` (cannot fail when `!alwaysAvailable`; the alwaysAvailable call is in `init`). -/
def setAvailable (w : W) : W :=
  let w := upd (fun s => { s with stream := some s.nextStream, nextStream := s.nextStream + 1 }) w
  let w := emit (.hook .avail true) (upd (fun s => { s with hkAvail := true }) w)
  let w := if w.s.conf.alwaysAvailable then w else setOnline w
  emit .pathReady w

def closeReaders (w : W) : W :=
  { s := { w.s with readers := [] }, out := w.out ++ w.s.readers.map Out.readerClosed }

def setNotAvailable (w : W) : W :=
  let w := emit .pathNotReady w
  let w := setOffline w
  let w := closeReaders w
  let w := if w.s.hkAvail then emit (.hook .avail false) (upd (fun s => { s with hkAvail := false }) w)
           else panic w
  upd (fun s => { s with stream := none }) w

/-- `stream.StartOfflineSubStream()` -/
def startOffline (w : W) : W := upd (fun s => { s with aaCur := none }) w

def executeRemovePublisher (w : W) : W :=
  let w := if w.s.conf.alwaysAvailable then startOffline (setOffline w) else setNotAvailable w
  upd (fun s => { s with source := none, srcSub := none }) w

/-! ### on-demand automata -/

def srcStart (w : W) : W :=
  if w.s.srcRunning then panic w
  else emit .srcStart (upd (fun s => { s with srcRunning := true }) w)

def srcStop (w : W) : W :=
  if w.s.srcRunning then emit .srcStop (upd (fun s => { s with srcRunning := false, srcUp := false, srcSub := none }) w)
  else panic w

def onDemandStaticSourceStart (w : W) : W :=
  let w := srcStart w
  emit (.arm .srcReady) (upd (fun s => { s with tSrcReady := true, odSrc := .waiting }) w)

def onDemandStaticSourceScheduleClose (w : W) : W :=
  emit (.arm .srcClose) (upd (fun s => { s with tSrcClose := true, odSrc := .closing }) w)

def onDemandStaticSourceStop (w : W) : W :=
  let w := if w.s.odSrc = .closing then emit (.disarm .srcClose) (upd (fun s => { s with tSrcClose := false }) w) else w
  srcStop (upd (fun s => { s with odSrc := .initial }) w)

def onDemandPublisherStart (w : W) : W :=
  let w := emit (.hook .demand true) (upd (fun s => { s with hkDemand := true }) w)
  emit (.arm .pubReady) (upd (fun s => { s with tPubReady := true, odPub := .waiting }) w)

def onDemandPublisherScheduleClose (w : W) : W :=
  emit (.arm .pubClose) (upd (fun s => { s with tPubClose := true, odPub := .closing }) w)

def onDemandPublisherStop (w : W) : W :=
  let w := if w.s.odPub = .closing then emit (.disarm .pubClose) (upd (fun s => { s with tPubClose := false }) w) else w
  let w := if w.s.hkDemand then emit (.hook .demand false) (upd (fun s => { s with hkDemand := false }) w)
           else panic w
  upd (fun s => { s with odPub := .initial }) w

/-! ### readers / held requests -/

/-- the reader (re)registers on the stream it was handed (`stream.AddReader`, reader side). -/
def register (r sid : Nat) (s : State) : State :=
  { s with sreg := s.sreg.filter (fun x => x.1 != r) ++ [(r, sid)] }

def replyStream (rid : Nat) (w : W) : W :=
  match w.s.stream with
  | some sid => emit (.reply rid (.stream sid)) w
  | none => emit (.reply rid .nilStream) w

/-- success answer to reader `r`: it (re)registers on the stream it is handed. -/
def replyReader (rid r : Nat) (w : W) : W :=
  match w.s.stream with
  | some sid => emit (.reply rid (.stream sid)) (upd (register r sid) w)
  | none => emit (.reply rid .nilStream) w

def addReaderPost (rid r : Nat) (w : W) : W :=
  if r ∈ w.s.readers then
    replyReader rid r w
  else if w.s.conf.maxReaders ≠ 0 ∧ w.s.readers.length ≥ w.s.conf.maxReaders then
    emit (.reply rid .maxReaders) w
  else
    let w := upd (fun s => { s with readers := s.readers ++ [r] }) w
    let w :=
      if w.s.conf.odStatic then
        if w.s.odSrc = .closing then
          emit (.disarm .srcClose) (upd (fun s => { s with odSrc := .ready, tSrcClose := false }) w)
        else w
      else if w.s.conf.odPub then
        if w.s.odPub = .closing then
          emit (.disarm .pubClose) (upd (fun s => { s with odPub := .ready, tPubClose := false }) w)
        else w
      else w
    replyReader rid r w

def consumeOnHoldRequests (w : W) : W :=
  let w := w.s.descHold.foldl (fun w rid => replyStream rid w) w
  let w := upd (fun s => { s with descHold := [] }) w
  let w := w.s.readHold.foldl (fun w (x : Nat × Nat) => addReaderPost x.1 x.2 w) w
  upd (fun s => { s with readHold := [] }) w

/-- reply `k` to every held request and clear both lists. -/
def failHolds (k : ReplyKind) (w : W) : W :=
  let w : W := { w with out := w.out ++ w.s.descHold.map (fun rid => Out.reply rid k) }
  let w : W := { w with out := w.out ++ w.s.readHold.map (fun x => Out.reply x.1 k) }
  upd (fun s => { s with descHold := [], readHold := [] }) w

/-! ### handlers (`do*`) -/

/-- `onDemandPublisherWaitAgain` (fix of finding F-C19 `hold-no-timer`, upstream 316e99c): a request
is put on hold while the on-demand publisher has gone away (state ready / closing, no stream): stop the
close timer, arm the start-timeout timer again, back to `waiting`. -/
def onDemandPublisherWaitAgain (w : W) : W :=
  if w.s.odPub = .waiting then w
  else
    let w := if w.s.odPub = .closing then emit (.disarm .pubClose) (upd (fun s => { s with tPubClose := false }) w) else w
    emit (.arm .pubReady) (upd (fun s => { s with tPubReady := true, odPub := .waiting }) w)

def holdDemand (w : W) : W :=
  if w.s.conf.odStatic then
    (if w.s.odSrc = .initial then onDemandStaticSourceStart w else w)
  else
    (if w.s.odPub = .initial then onDemandPublisherStart w else onDemandPublisherWaitAgain w)

def doDescribe (rid : Nat) (w : W) : W :=
  if w.s.source = some .redirect then emit (.reply rid .redirect) w
  else if w.s.stream.isSome then replyStream rid w
  else if w.s.conf.odStatic || w.s.conf.odPub then
    upd (fun s => { s with descHold := s.descHold ++ [rid] }) (holdDemand w)
  else if w.s.conf.fallback then emit (.reply rid .fallback) w
  else emit (.reply rid .noStream) w

def doAddReader (rid r : Nat) (w : W) : W :=
  if w.s.stream.isSome then addReaderPost rid r w
  else if w.s.conf.odStatic || w.s.conf.odPub then
    upd (fun s => { s with readHold := s.readHold ++ [(rid, r)] }) (holdDemand w)
  else emit (.reply rid .noStream) w

def doRemoveReader (r : Nat) (w : W) : W :=
  let w := upd (fun s => { s with readers := s.readers.filter (· != r) }) w
  if w.s.readers.isEmpty then
    if w.s.conf.odStatic then
      (if w.s.odSrc = .ready then onDemandStaticSourceScheduleClose w else w)
    else if w.s.conf.odPub then
      (if w.s.odPub = .ready then onDemandPublisherScheduleClose w else w)
    else w
  else w

/-- `SubStream.Initialize()` succeeded: the new sub-stream becomes the stream's current one. -/
def newSub (w : W) : W :=
  upd (fun s => { s with
    nextSub := s.nextSub + 1,
    subs := s.subs ++ [(s.nextSub, s.stream.getD 0)],
    srcSub := some s.nextSub,
    aaCur := if s.conf.alwaysAvailable then some s.nextSub else s.aaCur }) w

/-- error path of `subStream.Initialize()` in doAddPublisher / doSourceStaticSetReady: the stream
that `setAvailable` has just created is taken down again -/
def subErrCleanup (w : W) : W :=
  if w.s.conf.alwaysAvailable then w else setNotAvailable w

/-- `if pa.source != nil { … Close(); executeRemovePublisher() }` (overridePublisher) -/
def pubOverride (w : W) : W :=
  match w.s.source with
  | none => w
  | some (.pub q) => executeRemovePublisher (emit (.pubClosed q) w)
  | some _ => panic w       -- pa.source.(defs.Publisher)

/-- the rest of `doAddPublisher`, entered with `pa.source == nil` -/
def pubAttach (p : Nat) (subOK : Bool) (w : W) : W :=
  let w := if w.s.conf.alwaysAvailable then w else setAvailable w
  if !subOK then emit (.pubReply .subErr) (subErrCleanup w)
  else
    let k := w.s.nextSub
    let w := newSub w
    let w := upd (fun s => { s with source := some (.pub p) }) w
    let w := if w.s.conf.alwaysAvailable then setOnline w else w
    let w :=
      if w.s.conf.odPub ∧ w.s.odPub ≠ .initial then
        onDemandPublisherScheduleClose (emit (.disarm .pubReady) (upd (fun s => { s with tPubReady := false }) w))
      else w
    let w := consumeOnHoldRequests w
    emit (.pubReply (.ok k)) w

def doAddPublisher (p : Nat) (subOK : Bool) (w : W) : W :=
  if w.s.conf.kind ≠ .publisher then emit (.pubReply .notPublisher) w
  else if w.s.source.isSome ∧ !w.s.conf.overridePublisher then emit (.pubReply .busy) w
  else pubAttach p subOK (pubOverride w)

def doRemovePublisher (p : Nat) (w : W) : W :=
  if w.s.source = some (.pub p) then executeRemovePublisher w else w

def doSourceStaticSetReady (subOK : Bool) (w : W) : W :=
  let w := if w.s.conf.alwaysAvailable then w else setAvailable w
  if !subOK then emit (.srcReply .subErr) (subErrCleanup w)
  else
    let k := w.s.nextSub
    let w := upd (fun s => { s with srcUp := true }) (newSub w)
    let w := if w.s.conf.alwaysAvailable then setOnline w else w
    let w :=
      if w.s.conf.odStatic then
        onDemandStaticSourceScheduleClose (emit (.disarm .srcReady) (upd (fun s => { s with tSrcReady := false }) w))
      else w
    let w := consumeOnHoldRequests w
    emit (.srcReply (.ok k)) w

def doSourceStaticSetNotReady (w : W) : W :=
  let w := if w.s.conf.alwaysAvailable then startOffline (setOffline w) else setNotAvailable w
  let w := upd (fun s => { s with srcSub := none, srcUp := false }) w
  if w.s.conf.odStatic ∧ w.s.odSrc ≠ .initial then onDemandStaticSourceStop w else w

def doOnDemandStaticSourceReadyTimer (w : W) : W :=
  onDemandStaticSourceStop (failHolds .timedOut w)

def doOnDemandStaticSourceCloseTimer (w : W) : W :=
  if w.s.conf.alwaysAvailable then panic w
  else onDemandStaticSourceStop (setNotAvailable w)

def doOnDemandPublisherReadyTimer (w : W) : W :=
  onDemandPublisherStop (failHolds .timedOut w)

def doOnDemandPublisherCloseTimer (w : W) : W :=
  onDemandPublisherStop w

def shouldClose (s : State) : Bool :=
  s.conf.regexp && s.source.isNone && s.readers.isEmpty && s.descHold.isEmpty && s.readHold.isEmpty

/-- the `if pa.shouldClose() { pa.parent.closePathIfIdle(pa) }` epilogue of an arm -/
def closeCheck (w : W) : W := if shouldClose w.s then emit .closeIfIdle w else w

/-- epilogue of `path.run`: close the source (static handler: `Close` = `Stop`; publisher: `Close()`) -/
def closeSource (s0 : State) (w : W) : W :=
  match s0.source with
  | some .static =>
    if s0.conf.sourceOnDemand = false ∨ s0.odSrc ≠ .initial then srcStop w else w
  | some (.pub p) => emit (.pubClosed p) w
  | _ => w

/-- `ctx.Done` arm + the epilogue of `path.run` -/
def doClose (w0 : W) : W :=
  let w := emit .removePath w0
  let w := upd (fun s => { s with tSrcReady := false, tSrcClose := false, tPubReady := false, tPubClose := false }) w
  let w := failHolds .terminated w
  -- (the conditions below read fields of the entry state that the statements before them do not touch)
  let w := closeSource w0.s w
  let w := if w0.s.hkDemand then emit (.hook .demand false) (upd (fun s => { s with hkDemand := false }) w) else w
  let w := if w0.s.stream.isSome then setNotAvailable w else w
  upd (fun s => { s with closed := true, srcSub := none }) w

/-- readers whose callback sees a unit written through sub-stream `k` (`SubStream.WriteUnit`):
the stale guard `ss.Stream.subStream != ss` only bites on an alwaysAvailable stream (otherwise a
stream has exactly one sub-stream for its whole life). -/
def deliver (s : State) (k : Nat) : List Nat :=
  match s.subs.find? (fun x => x.1 == k) with
  | none => []
  | some (_, sid) =>
    if s.conf.alwaysAvailable && s.aaCur != some k then []
    else (s.sreg.filter (fun x => x.2 == sid)).map (·.1)

def timerArmed (s : State) : Timer → Bool
  | .srcReady => s.tSrcReady
  | .srcClose => s.tSrcClose
  | .pubReady => s.tPubReady
  | .pubClose => s.tPubClose

def fireTimer (t : Timer) (w : W) : W :=
  match t with
  | .srcReady => closeCheck (doOnDemandStaticSourceReadyTimer (upd (fun s => { s with tSrcReady := false }) w))
  | .srcClose => closeCheck (doOnDemandStaticSourceCloseTimer (upd (fun s => { s with tSrcClose := false }) w))
  | .pubReady => closeCheck (doOnDemandPublisherReadyTimer (upd (fun s => { s with tPubReady := false }) w))
  | .pubClose => doOnDemandPublisherCloseTimer (upd (fun s => { s with tPubClose := false }) w)

/-- events on a closed path: the caller-side `select` takes `<-pa.ctx.Done()`. -/
def stepClosed (e : Event) (w : W) : W :=
  match e with
  | .describe rid => emit (.reply rid .terminated) w
  | .addReader rid _ => emit (.reply rid .terminated) w
  | .addPublisher _ _ => emit (.pubReply .terminated) w
  | .write k => emit (.delivered (deliver w.s k)) w
  | .detach r => upd (fun s => { s with sreg := s.sreg.filter (fun x => x.1 != r) }) w
  | .removeReader _ => w       -- RemoveReader / RemovePublisher just return
  | .removePublisher _ => w
  | _ => emit .ignored w

def stepW (e : Event) (w : W) : W :=
  if w.s.panicked then emit .ignored w
  else if w.s.closed then stepClosed e w
  else match e with
  | .describe rid => closeCheck (doDescribe rid w)
  | .addPublisher p ok => closeCheck (doAddPublisher p ok w)
  | .removePublisher p => closeCheck (doRemovePublisher p w)
  | .addReader rid r => closeCheck (doAddReader rid r w)
  | .removeReader r => closeCheck (doRemoveReader r w)
  | .srcReady ok =>
    -- only a running handler forwards SetReady; an instance reports ready once
    if w.s.source = some .static ∧ w.s.srcRunning ∧ !w.s.srcUp then doSourceStaticSetReady ok w
    else emit .ignored w
  | .srcNotReady =>
    if w.s.source = some .static ∧ w.s.srcRunning ∧ w.s.srcUp then closeCheck (doSourceStaticSetNotReady w)
    else emit .ignored w
  | .timer t => if timerArmed w.s t then fireTimer t w else emit .ignored w
  | .reloadConf rx =>
    if ({ w.s.conf with regexp := rx } : Conf).valid then upd (fun s => { s with conf := { s.conf with regexp := rx } }) w
    else emit .ignored w
  | .close => doClose w
  | .write k => emit (.delivered (deliver w.s k)) w
  | .detach r => upd (fun s => { s with sreg := s.sreg.filter (fun x => x.1 != r) }) w

def step (s : State) (e : Event) : State × List Out :=
  let w := stepW e { s := s }
  (w.s, w.out)

/-- `path.run` prologue: the state in which the loop starts, and what the prologue did. -/
def initW (c : Conf) : W :=
  let w : W := { s := { conf := c } }
  let w :=
    if c.alwaysAvailable then
      -- setAvailable(nil, "", nil, true): no setOnline; the offline sub-stream is current
      emit .pathReady (emit (.hook .avail true)
        (upd (fun s => { s with stream := some 0, nextStream := 1, hkAvail := true, aaCur := none }) w))
    else w
  match c.kind with
  | .redirect => upd (fun s => { s with source := some .redirect }) w
  | .static =>
    let w := upd (fun s => { s with source := some .static }) w
    if !c.sourceOnDemand then srcStart w else w
  | .publisher => w

def init (c : Conf) : State := (initW c).s

/-- run a history, collecting per-step outputs. -/
def run : State → List Event → State × List (List Out)
  | s, [] => (s, [])
  | s, e :: es =>
    let r := step s e
    let rr := run r.1 es
    (rr.1, r.2 :: rr.2)

/-- the flat output trace of a history -/
def trace (s : State) (es : List Event) : List Out := (run s es).2.flatten

/-! ## line-protocol helpers shared by the four drivers (Driver/C16 C18 C19 C20) -/
namespace Drv

def b01 (s : String) : Bool := s == "1"

def natList (l : List Nat) : String := ",".intercalate (l.map toString)

def insNat (x : Nat) : List Nat → List Nat
  | [] => [x]
  | y :: ys => if x ≤ y then x :: y :: ys else y :: insNat x ys
def sortNat (l : List Nat) : List Nat := l.foldr insNat []

def insStr (x : String) : List String → List String
  | [] => [x]
  | y :: ys => if x ≤ y then x :: y :: ys else y :: insStr x ys
def sortStr (l : List String) : List String := l.foldr insStr []

def hookName : Hook → String
  | .avail => "avail" | .online => "online" | .demand => "demand"

def replyKind : ReplyKind → String
  | .stream sid => s!"s{sid}" | .redirect => "redirect" | .fallback => "fallback" | .noStream => "nostream"
  | .timedOut => "timeout" | .terminated => "term" | .maxReaders => "max" | .nilStream => "nil"

def pubReply : PubReply → String
  | .ok k => s!"ok{k}" | .notPublisher => "notpub" | .busy => "busy" | .subErr => "suberr" | .terminated => "term"

/-- tokens of the loop-goroutine trace (in order); `none` = not externally visible / answered separately -/
def traceTok : Out → Option String
  | .pubClosed p => some s!"pub!{p}"
  | .readerClosed r => some s!"rd!{r}"
  | .pathReady => some "ready"
  | .pathNotReady => some "notready"
  | .hook h true => some ("h+" ++ hookName h)
  | .hook h false => some ("h-" ++ hookName h)
  | .srcStart => some "src+"
  | .srcStop => some "src-"
  | .closeIfIdle => some "closeIfIdle"
  | .removePath => some "rmpath"
  | .panic => some "PANIC"
  | _ => none

def replyTok : Out → Option String
  | .reply rid k => some s!"q{rid}={replyKind k}"
  | .pubReply k => some ("pub=" ++ pubReply k)
  | .srcReply k => some ("src=" ++ pubReply k)
  | _ => none

/-- `Reader.Close()` calls of one teardown come in Go map order: sort each maximal run. -/
def sortRuns : List Out → List Out
  | [] => []
  | .readerClosed r :: rest =>
    match sortRuns rest with
    | .readerClosed r' :: rest' =>
      -- insert r into the sorted run that starts the tail
      let rec ins (r : Nat) : List Out → List Out
        | .readerClosed x :: t => if r ≤ x then .readerClosed r :: .readerClosed x :: t else .readerClosed x :: ins r t
        | t => .readerClosed r :: t
      ins r (.readerClosed r' :: rest')
    | t => .readerClosed r :: t
  | o :: rest => o :: sortRuns rest

def fmtOuts (outs : List Out) : String :=
  if outs == [.ignored] then "ignored" else
  let tr := (sortRuns outs).filterMap traceTok
  let re := sortStr (outs.filterMap replyTok)
  let dl := outs.filterMap fun o => match o with
    | .delivered rs => some ("dl=[" ++ natList (sortNat rs) ++ "]") | _ => none
  let all := tr ++ re ++ dl
  if all.isEmpty then "-" else " ".intercalate all

structure Cfg where
  conf : Conf := {}
  auto : Bool := false
  startMs : Nat := 0
  closeMs : Nat := 0

def parseReset (f : List String) : Option Cfg :=
  match f with
  | [_, kind, sod, rod, ovr, aa, max, rx, fb, auto, st, cl] => do
    let k ← match kind with
      | "pub" => some SrcKind.publisher | "static" => some SrcKind.static | "redirect" => some SrcKind.redirect
      | _ => none
    let max ← max.toNat?
    let st ← st.toNat?
    let cl ← cl.toNat?
    pure { conf := { kind := k, sourceOnDemand := b01 sod, runOnDemand := b01 rod, overridePublisher := b01 ovr,
                     alwaysAvailable := b01 aa, maxReaders := max, regexp := b01 rx, fallback := b01 fb },
           auto := b01 auto, startMs := st, closeMs := cl }
  | _ => none

/-- model side of a driver: configuration, model state, fake time slept since a timer was armed -/
structure M where
  cfg : Cfg := {}
  st : State := {}
  slept : Nat := 0

inductive Op
  | ev (e : Event)
  | tick
  | sleep (ms : Nat)
  | reset (c : Cfg)
  | bad

def parseOp (op : String) : Op :=
  let f := words op
  match f with
  | "reset" :: _ => match parseReset f with | some c => .reset c | none => .bad
  | ["desc", rid] => match rid.toNat? with | some rid => .ev (.describe rid) | none => .bad
  | ["addrd", rid, r] => match rid.toNat?, r.toNat? with | some rid, some r => .ev (.addReader rid r) | _, _ => .bad
  | ["rmrd", r] => match r.toNat? with | some r => .ev (.removeReader r) | none => .bad
  | ["detach", r] => match r.toNat? with | some r => .ev (.detach r) | none => .bad
  | ["addpub", p, ok] => match p.toNat? with | some p => .ev (.addPublisher p (b01 ok)) | none => .bad
  | ["rmpub", p] => match p.toNat? with | some p => .ev (.removePublisher p) | none => .bad
  | ["srcready", ok] => .ev (.srcReady (b01 ok))
  | ["srcnotready"] => .ev .srcNotReady
  | ["reload", rx] => .ev (.reloadConf (b01 rx))
  | ["close"] => .ev .close
  | ["write", k] => match k.toNat? with | some k => .ev (.write k) | none => .bad
  | ["tick"] => .tick
  | ["sleep", ms] => match ms.toNat? with | some ms => .sleep ms | none => .bad
  | _ => .bad

/-- one model step; with `auto` the stub pathManager closes the path as soon as it reports idle. -/
def stepAuto (auto : Bool) (s : State) (e : Event) : State × List Out :=
  let r := step s e
  if auto && r.2.contains .closeIfIdle && !r.1.closed then
    let r2 := step r.1 .close
    (r2.1, r.2 ++ r2.2)
  else r

def timerDur (c : Cfg) : Timer → Nat
  | .srcReady => c.startMs | .pubReady => c.startMs
  | .srcClose => c.closeMs | .pubClose => c.closeMs

/-- model answer for one op line: new model state, the outputs, the canonical answer string -/
def exec (m : M) (o : Op) : M × List Out × String :=
  match o with
  | .reset c =>
    let w := initW c.conf
    ({ cfg := c, st := w.s, slept := 0 }, w.out, fmtOuts w.out)
  | .ev e =>
    let (s', outs) := stepAuto m.cfg.auto m.st e
    let armed := outs.any fun o => match o with | .arm _ => true | _ => false
    ({ m with st := s', slept := if armed then 0 else m.slept }, outs, fmtOuts outs)
  | .sleep ms => ({ m with slept := m.slept + ms }, [], "-")
  | .tick =>
    match [Timer.srcReady, .srcClose, .pubReady, .pubClose].find? (timerArmed m.st) with
    | none => (m, [], "none")
    | some t =>
      let (s', outs) := stepAuto m.cfg.auto m.st (.timer t)
      ({ m with st := s', slept := 0 }, outs, s!"after={timerDur m.cfg t - m.slept} " ++ fmtOuts outs)
  | .bad => (m, [], "bad-op")

/-- implementation answer split into tokens -/
def implToks (impl : String) : List String := words impl

def tokNat (pre : String) (t : String) : Option Nat :=
  if t.startsWith pre then (t.drop pre.length).toString.toNat? else none

end Drv

end MtxVerif.PathSM
