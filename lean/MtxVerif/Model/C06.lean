/-
C06 — path names cannot escape the recording tree.

Modelled (MediaMTX's own logic):
* `conf.IsValidPathName` (internal/conf/path.go) — `isValidPathName`, error classes in the code's order;
  the charset regexp (digits, letters, `_`, `-`, `/`, `.`; anchored) is modelled as a per-byte test (exercised by the run);
* `conf.FindPathConf`: static map lookup **before** the name is validated, then validation, then the regexp
  confs in the code's order (all/all_others last, otherwise by name) — whether a conf's regexp matches the
  name is an oracle column;  `findPathConfFixed` = the alternative order (validate first; not adopted);
* `recordstore.CommonPath`, `filepath.Clean` / `filepath.Abs` on `/`-separated paths (lexical), the API's
  `absolutePathInside` (a *string* prefix test), and the composition the delete-segment handler and
  `FindSegments` perform (`deleteTarget`, `walkRoot`);
* a four-state scanner `scan` deciding "some `/`-component is `..`" (used for the containment theorem).

Not modelled: the file system (symlinks!), Windows separators (a `\` in a record path is a separator for
`CommonPath` but an ordinary byte for Linux — formats with `\` are excluded by assumption).
-/
import MtxVerif.Model.C26

namespace MtxVerif.C06
open MtxVerif.C26 (Tok Kind tokenize encodeA substPath)

/-! ### IsValidPathName -/

inductive NameErr | empty | lead | trail | chars | dots
deriving DecidableEq, Repr

/-- digits, letters, `_`, `-`, `/`, `.` -/
def okChar (c : UInt8) : Bool :=
  (48 ≤ c && c ≤ 57) || (97 ≤ c && c ≤ 122) || (65 ≤ c && c ≤ 90) || c == 95 || c == 45 || c == 47 || c == 46

/-- `strings.Split(s, sep)` for a one-byte separator (always at least one element). -/
def splitOn (sep : UInt8) : Bytes → List Bytes
  | [] => [[]]
  | c :: r =>
    if c = sep then [] :: splitOn sep r
    else match splitOn sep r with
      | h :: t => (c :: h) :: t
      | [] => [[c]]

def dot : Bytes := [46]
def dotdot : Bytes := [46, 46]

def isValidPathName (n : Bytes) : Option NameErr :=
  match n with
  | [] => some .empty
  | c :: _ =>
    if c = 47 then some .lead
    else if n.getLast? = some 47 then some .trail
    else if !n.all okChar then some .chars
    else if (splitOn 47 n).any (fun s => s == dot || s == dotdot) then some .dots
    else none

/-- the property's own wording, as a Bool. -/
def validSpec (n : Bytes) : Bool :=
  !n.isEmpty && n.all okChar && n.head? != some 47 && n.getLast? != some 47 &&
  !(splitOn 47 n).contains dot && !(splitOn 47 n).contains dotdot

/-! ### FindPathConf -/

/-- one entry of the `map[string]*conf.Path`: its key, whether it is a regexp conf (`~…`, `all`,
`all_others`), and the oracle "its regexp matches the requested name". -/
structure ConfEntry where
  key : Bytes
  isRegexp : Bool
  hit : Bool
deriving Repr, DecidableEq

def allKey : Bytes := [97, 108, 108]
def allOthersKey : Bytes := [97, 108, 108, 95, 111, 116, 104, 101, 114, 115]

/-- byte-wise `<` on Go strings -/
def bytesLt : Bytes → Bytes → Bool
  | [], [] => false
  | [], _ :: _ => true
  | _ :: _, [] => false
  | a :: as, b :: bs => if a < b then true else if b < a then false else bytesLt as bs

def isAllKey (k : Bytes) : Bool := k == allKey || k == allOthersKey

/-- the comparison function handed to `sort.Slice`. -/
def confLess (a b : ConfEntry) : Bool :=
  if isAllKey a.key then false
  else if isAllKey b.key then true
  else bytesLt a.key b.key

def insertSorted (e : ConfEntry) : List ConfEntry → List ConfEntry
  | [] => [e]
  | x :: xs => if confLess e x then e :: x :: xs else x :: insertSorted e xs

/-- regexp confs in the order the code tries them.  (`all` and `all_others` cannot both be configured,
and keys are distinct, so the order is total and the unstable `sort.Slice` is deterministic.) -/
def sortConfs (l : List ConfEntry) : List ConfEntry := l.foldr insertSorted []

inductive FindRes
  | found (key : Bytes)
  | invalid (e : NameErr)
  | notConfigured
deriving Repr, DecidableEq

/-- `conf.FindPathConf` as written. -/
def findPathConf (confs : List ConfEntry) (name : Bytes) : FindRes :=
  match confs.find? (·.key == name) with
  | some c => .found c.key
  | none =>
    match isValidPathName name with
    | some e => .invalid e
    | none =>
      match (sortConfs (confs.filter (·.isRegexp))).find? (·.hit) with
      | some c => .found c.key
      | none => .notConfigured

/-- alternative order (validate the name before the static lookup).  Not adopted: property C14 wants a
name that is exactly a configured key to resolve to that configuration; kept for the theorem that shows
what the alternative would buy. -/
def findPathConfFixed (confs : List ConfEntry) (name : Bytes) : FindRes :=
  match isValidPathName name with
  | some e => .invalid e
  | none => findPathConf confs name

/-- what `Path.validate` guarantees about every key of the map: a regexp key starts with `~` or is
`all`/`all_others`; every other key passed `IsValidPathName`. -/
def keyOK (c : ConfEntry) : Bool :=
  if c.isRegexp then (c.key.head? == some 126 || isAllKey c.key)
  else (isValidPathName c.key).isNone

/-- decidable class of the finding: the requested name is literally the key of a `~regexp` conf. -/
def regexKeyAsName (confs : List ConfEntry) (name : Bytes) : Bool :=
  name.head? == some 126 && confs.any (·.key == name)

/-! ### CommonPath, Clean, Abs, absolutePathInside -/

/-- `recordstore.CommonPath`: whole leading components (separators `/` and `\`) without `%`, minus the
final separator. -/
def commonAux : Bytes → Bytes → Bytes → Bytes
  | common, part, [] => let _ := part; common
  | common, part, c :: r =>
    if c = 47 ∨ c = 92 then
      let part' := part ++ [c]
      if part'.contains 37 then common else commonAux (common ++ part') [] r
    else commonAux common (part ++ [c]) r

def commonPath (v : Bytes) : Bytes := (commonAux [] [] v).dropLast

/-- one step of `filepath.Clean`'s component loop; `out` = components kept so far. -/
def cleanStep (rooted : Bool) (out : List Bytes) (c : Bytes) : List Bytes :=
  if c = [] ∨ c = dot then out
  else if c = dotdot then
    match out.getLast? with
    | some l => if l = dotdot then out ++ [dotdot] else out.dropLast
    | none => if rooted then out else out ++ [dotdot]
  else out ++ [c]

def cleanComps (rooted : Bool) (comps : List Bytes) : List Bytes := comps.foldl (cleanStep rooted) []

def joinSlash : List Bytes → Bytes
  | [] => []
  | [c] => c
  | c :: cs => c ++ 47 :: joinSlash cs

/-- `filepath.Clean` (Unix). -/
def clean (p : Bytes) : Bytes :=
  match p with
  | [] => dot
  | c :: _ =>
    let rooted := c == 47
    let out := joinSlash (cleanComps rooted (splitOn 47 p))
    if rooted then 47 :: out else if out.isEmpty then dot else out

/-- `filepath.Abs` with working directory `cwd` (absolute, clean). -/
def abs (cwd p : Bytes) : Bytes :=
  if p.head? = some 47 then clean p else clean (cwd ++ 47 :: p)

/-- components of the cleaned absolute path. -/
def absComps (cwd p : Bytes) : List Bytes :=
  if p.head? = some 47 then cleanComps true (splitOn 47 p)
  else cleanComps true (splitOn 47 cwd ++ splitOn 47 p)

/-- `absolutePathInside(base, candidate)`: `none` = "path escapes base directory". -/
def absolutePathInside (cwd base cand : Bytes) : Option Bytes :=
  let b := abs cwd (clean base)
  let c := abs cwd (clean cand)
  if b.isPrefixOf c then some c else none

/-! ### "some component is `..`" as a scanner -/

inductive St | s0 | s1 | s2 | sx | found
deriving DecidableEq, Repr

def step : St → UInt8 → St
  | .found, _ => .found
  | q, c =>
    if c = 47 then (if q = .s2 then .found else .s0)
    else if c = 46 then (match q with | .s0 => .s1 | .s1 => .s2 | _ => .sx)
    else .sx

def scan (q : St) (s : Bytes) : St := s.foldl step q

def finish : St → Bool
  | .s2 => true
  | .found => true
  | _ => false

/-- some `/`-separated component of `s` is `..` -/
def hasDotDot (s : Bytes) : Bool := finish (scan .s0 s)

/-! ### formats -/

/-- the text of a placeholder in the format string. -/
def Kind.text : Kind → Bytes
  | .path => [37, 112, 97, 116, 104]
  | .Y => [37, 89]
  | .m => [37, 109]
  | .d => [37, 100]
  | .H => [37, 72]
  | .M => [37, 77]
  | .S => [37, 83]
  | .f => [37, 102]
  | .z => [37, 122]
  | .s => [37, 115]

/-- the format string a token sequence was read from. -/
def raw (toks : List Tok) : Bytes :=
  toks.flatMap fun
    | .lit b => [b]
    | .cap k => Kind.text k

/-- what time placeholders expand to never contains `/` or `.` and is never empty
(digits, `Z`, `+hhmm`, `-hhmm`, a leading `-` of a negative number). -/
def plainText (v : Bytes) : Bool := !v.isEmpty && v.all (fun c => c != 47 && c != 46)

/-- an assignment whose time fields are plain and whose path name is valid. -/
def goodAssign (A : Kind → Bytes) : Bool :=
  (isValidPathName (A .path)).isNone &&
  [Kind.Y, .m, .d, .H, .M, .S, .f, .z, .s].all (fun k => plainText (A k))

/-! ### compositions performed by the code -/

/-- `.mp4` -/
def extMp4 : Bytes := [46, 109, 112, 52]

/-- root of the directory walk of `FindSegments` for a (validated) name. -/
def walkRoot (cwd fmt name : Bytes) : Bytes :=
  commonPath (abs cwd (substPath fmt name ++ extMp4))

/-- file the delete-segment handler removes (`none` = rejected by `absolutePathInside`). `A` gives the
texts of the time placeholders. -/
def deleteTarget (cwd fmt name : Bytes) (A : Kind → Bytes) : Option Bytes :=
  let common := commonPath fmt
  match absolutePathInside cwd common (substPath fmt name ++ extMp4) with
  | none => none
  | some pf => absolutePathInside cwd common (encodeA (tokenize pf) A)

end MtxVerif.C06
