/-
C03 — every media publish or read is authorized for that path and action
(internal/core/path_manager.go, internal/defs/path_access_request.go, SkipAuth call sites in internal/servers/*).

Part A: state machine of `pathManager`'s access path.  One op = one iteration of `pathManager.run` (the loop
is single-threaded) plus, for the attach ops, the path-level step that follows it.

* `findConf` = `conf.FindPathConf`: exact lookup by configuration NAME first (whatever the kind of that
  configuration — a client may literally ask for the path `all_others`), then `IsValidPathName` (oracle
  column `valid`), then the regular-expression configurations sorted by name with `all`/`all_others` last.
  Regular expressions are restricted to the fragment `~^<literal>` (prefix match) and `all_others`.
* `doFindPathConf` ALWAYS authenticates (it ignores SkipAuth); `doDescribe`/`doAddReader`/`doAddPublisher`
  authenticate unless SkipAuth; `doAddPublisher` first compares `ConfToCompare` (deep `Equal`) with the
  configuration found NOW.  `ToAuthRequest` is modelled field by field.
* configuration content is abstracted to two numbers: `v` (fields that `pathConfCanBeUpdated` copies, i.e. hot
  reloadable) and `w` (everything else: a change closes the path).  `doReloadConf` is modelled on the paths that
  have a publisher (the only path state an answer depends on: readers attach iff there is a stream).
  All configurations are `source: publisher`, `overridePublisher: yes` (harness), so the path-level publisher
  step always succeeds.
* the authentication manager is a PARAMETER `auth : AuthReq → AuthRes`.

Part B: types of the regenerated SkipAuth site table (`Gen/C03.lean`) and the per-kind justification.
-/
import MtxVerif.Base.DriverLib

namespace MtxVerif.C03

/-! ## Part A -/

inductive ConfKind | static | prefix | allOthers
deriving DecidableEq, Repr

structure Conf where
  /-- configuration name = map key (`cam`, `~^dyn/`, `all_others`) -/
  name : Bytes
  kind : ConfKind
  /-- literal prefix of a `~^<literal>` configuration -/
  pat : Bytes
  v : Nat
  w : Nat
deriving DecidableEq, Repr

inductive Action | publish | read
deriving DecidableEq, Repr

structure AccessReq where
  name : Bytes
  query : Bytes
  publish : Bool
  skipAuth : Bool
  proto : Nat
  user : Bytes
  pass : Bytes
  ip : Bytes
  /-- oracle: `conf.IsValidPathName(name) == nil` -/
  valid : Bool
deriving DecidableEq, Repr

structure AuthReq where
  action : Action
  path : Bytes
  query : Bytes
  proto : Nat
  user : Bytes
  pass : Bytes
  ip : Bytes
deriving DecidableEq, Repr

inductive AuthRes | ok | denyAsk | deny
deriving DecidableEq, Repr

abbrev AuthFn := AuthReq → AuthRes

/-- `PathAccessRequest.ToAuthRequest` -/
def toAuth (r : AccessReq) : AuthReq :=
  { action := if r.publish then .publish else .read, path := r.name, query := r.query,
    proto := r.proto, user := r.user, pass := r.pass, ip := r.ip }

def bytesLt : Bytes → Bytes → Bool
  | [], [] => false
  | [], _ :: _ => true
  | _ :: _, [] => false
  | a :: as, b :: bs => if a < b then true else if b < a then false else bytesLt as bs

/-- `sort.Slice` order of the regexp configurations: by name, `all_others` last -/
def confBefore (a b : Conf) : Bool :=
  if a.kind == .allOthers then false
  else if b.kind == .allOthers then true
  else bytesLt a.name b.name

def insertConf (c : Conf) : List Conf → List Conf
  | [] => [c]
  | x :: xs => if confBefore c x then c :: x :: xs else x :: insertConf c xs

def sortConfs : List Conf → List Conf
  | [] => []
  | c :: cs => insertConf c (sortConfs cs)

def isPrefixOf : Bytes → Bytes → Bool
  | [], _ => true
  | _ :: _, [] => false
  | a :: as, b :: bs => a == b && isPrefixOf as bs

def confMatches (c : Conf) (name : Bytes) : Bool :=
  match c.kind with
  | .static => false
  | .prefix => isPrefixOf c.pat name
  | .allOthers => true

/-- `conf.FindPathConf` -/
def findConf (confs : List Conf) (name : Bytes) (valid : Bool) : Option Conf :=
  match confs.find? (fun c => c.name == name) with
  | some c => some c
  | none =>
    if !valid then none
    else (sortConfs (confs.filter (fun c => c.kind != .static))).find? (fun c => confMatches c name)

/-- a path that currently has a publisher -/
structure PubPath where
  name : Bytes
  valid : Bool
  confName : Bytes
  client : Nat
deriving DecidableEq, Repr

structure St where
  confs : List Conf := []
  pubs : List PubPath := []
deriving Repr

inductive Op
  | find (client : Nat) (r : AccessReq)
  | describe (client : Nat) (r : AccessReq)
  | addReader (client : Nat) (r : AccessReq)
  | addPublisher (client : Nat) (r : AccessReq) (cmp : Option Conf)
  | reload (confs : List Conf)
deriving Repr

inductive Out
  | noPath                 -- FindPathConf error
  | changed                -- "configuration has changed"
  | authErr (ask : Bool)   -- *auth.Error
  | found (c : Conf)       -- FindPathConf result
  | noStream               -- path level: nobody is publishing
  | described
  | attached (client : Nat) (name : Bytes) (publish : Bool)
  | reloaded
deriving DecidableEq, Repr

/-- `req.ConfToCompare != nil && !pathConf.Equal(req.ConfToCompare)` -/
def cmpMismatch (cmp : Option Conf) (c : Conf) : Bool :=
  match cmp with
  | some c' => c' != c
  | none => false

/-- the manager-level decision shared by describe / addReader / addPublisher:
    `none` = go on to the path, `some e` = refused with e. -/
def gate (auth : AuthFn) (s : St) (r : AccessReq) (cmp : Option Conf) : Option Out :=
  match findConf s.confs r.name r.valid with
  | none => some .noPath
  | some c =>
    if cmpMismatch cmp c then some .changed
    else if r.skipAuth then none
    else match auth (toAuth r) with
      | .ok => none
      | .denyAsk => some (.authErr true)
      | .deny => some (.authErr false)

def hasPub (s : St) (name : Bytes) : Bool := s.pubs.any (fun p => p.name == name)

def lookupConf (confs : List Conf) (name : Bytes) : Option Conf := confs.find? (fun c => c.name == name)

/-- `pathConfCanBeUpdated`: only the copied (hot) fields differ -/
def canBeUpdated (old new : Conf) : Bool := old.w == new.w

/-- fate of one path in `doReloadConf` -/
def reloadPath (oldConfs newConfs : List Conf) (p : PubPath) : Option PubPath :=
  match findConf newConfs p.name p.valid with
  | none => none
  | some nc =>
    if nc.name != p.confName then
      match lookupConf oldConfs p.confName with
      | some oc => if canBeUpdated oc nc then some { p with confName := nc.name } else none
      | none => none
    else
      match lookupConf oldConfs nc.name with
      | some oc => if oc != nc && !canBeUpdated oc nc then none else some p
      | none => some p

def step (auth : AuthFn) (s : St) : Op → St × Out
  | .find _ r =>
    match findConf s.confs r.name r.valid with
    | none => (s, .noPath)
    | some c =>
      match auth (toAuth r) with
      | .ok => (s, .found c)
      | .denyAsk => (s, .authErr true)
      | .deny => (s, .authErr false)
  | .describe _ r =>
    match gate auth s r none with
    | some e => (s, e)
    | none => (s, if hasPub s r.name then .described else .noStream)
  | .addReader cl r =>
    match gate auth s r none with
    | some e => (s, e)
    | none => (s, if hasPub s r.name then .attached cl r.name false else .noStream)
  | .addPublisher cl r cmp =>
    match gate auth s r cmp with
    | some e => (s, e)
    | none =>
      match findConf s.confs r.name r.valid with
      | none => (s, .noPath)
      | some c =>
        ({ s with pubs := { name := r.name, valid := r.valid, confName := c.name, client := cl } ::
                          s.pubs.filter (fun p => p.name != r.name) },
         .attached cl r.name true)
  | .reload confs =>
    ({ confs := confs, pubs := s.pubs.filterMap (reloadPath s.confs confs) }, .reloaded)

/-- whole history: (state before the op, op, answer) -/
def trace (auth : AuthFn) : St → List Op → List (St × Op × Out)
  | _, [] => []
  | s, op :: rest =>
    let r := step auth s op
    (s, op, r.2) :: trace auth r.1 rest

def Op.req? : Op → Option AccessReq
  | .find _ r | .describe _ r | .addReader _ r | .addPublisher _ r _ => some r
  | .reload _ => none

/-! ### executable spec on the implementation's answers -/

/-- The property on one implementation answer: `attached`/`described`/`found` only if the request was
    admitted (auth oracle) or carried SkipAuth (never honoured by `find`), for the op's own name and action;
    publisher attach with ConfToCompare only if that configuration is the one in force. -/
def specOp (auth : AuthFn) (s : St) (op : Op) (impl : Out) : Option String :=
  match op, impl with
  | .find _ r, .found c =>
    if auth (toAuth r) != .ok then some "FindPathConf succeeded for a request that is not admitted"
    else if findConf s.confs r.name r.valid != some c then some "FindPathConf returned a configuration that is not the one in force"
    else none
  | .describe _ r, .described =>
    if !r.skipAuth && auth (toAuth r) != .ok then some "describe answered for a request that is neither admitted nor SkipAuth" else none
  | .addReader cl r, .attached cl' n p =>
    if cl' != cl || n != r.name || p then some "attached something else than the requested reader"
    else if !r.skipAuth && auth (toAuth r) != .ok then some "reader attached without authorization for that path"
    else none
  | .addPublisher cl r cmp, .attached cl' n p =>
    if cl' != cl || n != r.name || !p then some "attached something else than the requested publisher"
    else if !r.skipAuth && auth (toAuth r) != .ok then some "publisher attached without authorization for that path"
    else match cmp with
      | some c => if findConf s.confs r.name r.valid != some c then
          some "publisher attached although the configuration it was authorized against is no longer in force" else none
      | none => none
  | .addReader _ _, .described | .addReader _ _, .found _ | .find _ _, .attached .. | .find _ _, .described
  | .describe _ _, .attached .. | .describe _ _, .found _ | .addPublisher _ _ _, .described
  | .addPublisher _ _ _, .found _ | .reload _, .attached .. | .reload _, .found _ | .reload _, .described =>
    some "answer of the wrong kind for this op"
  | _, _ => none

/-! ## Part B: SkipAuth sites -/

inductive Target | addPublisher | addReader | describe | find | unknown
deriving DecidableEq, Repr

inductive Tie | sameFunc | viaParams | viaField | none
deriving DecidableEq, Repr

/-- one place in internal/** that sets SkipAuth, with the syntactic facts tools/xlate/c03 established -/
structure SiteF where
  file : Bytes
  fn : Bytes
  target : Target
  publish : Bool
  cmpPresent : Bool
  tie : Tie
  findNoSkip : Bool
  findPublish : Bool
  findErrReturns : Bool
  findSameName : Bool
  cmpIsFindConf : Bool
  noClientData : Bool
  nameFromServer : Bool
  ctors : List Bytes
  secretGuard : Bool
deriving Repr

/-- hand-written justification kinds (DESIGN §5 C03) -/
inductive Kind
  /-- same function (or its only callers): earlier FindPathConf, identical Name expression, Publish, no SkipAuth,
      error path returns, ConfToCompare = that result -/
  | twoStep
  /-- rtsp: FindPathConf in the ANNOUNCE handler stores its result in a field that nothing else writes; RECORD
      passes it as ConfToCompare.  That the session path cannot change in between is gortsplib's contract. -/
  | twoStepAcrossHandlers
  /-- a server-side reader (HLS muxer, RPi secondary stream): no client data in the request, name from server
      state / configuration; constructed only in the listed functions -/
  | internalReader (ctors : List Bytes)
  /-- HLS CDN session: set only under the shared-secret header comparison (C43) -/
  | sharedSecret
deriving Repr

def twoStepCore (s : SiteF) : Bool :=
  s.target == .addPublisher && s.publish && s.cmpPresent && s.findNoSkip && s.findPublish &&
  s.findErrReturns && s.cmpIsFindConf

def justified : Kind → SiteF → Bool
  | .twoStep, s => twoStepCore s && (s.tie == .sameFunc || s.tie == .viaParams) && s.findSameName
  | .twoStepAcrossHandlers, s => twoStepCore s && s.tie == .viaField
  | .internalReader cs, s => s.target == .addReader && !s.publish && s.noClientData && s.nameFromServer && s.ctors == cs
  | .sharedSecret, s => s.target == .addReader && !s.publish && s.secretGuard

/-- a call of a pathManager access method with a request literal -/
structure CallF where
  file : Bytes
  fn : Bytes
  target : Target
  /-- `Publish: true` in the access request -/
  publish : Bool
  /-- the access request literal was found (directly, or through a local variable) -/
  resolved : Bool
deriving Repr

/-- `Publish` matches the method: the action that gets authorized is the one that is performed -/
def callOK (c : CallF) : Bool :=
  c.resolved && (match c.target with
    | .addPublisher => c.publish
    | .addReader => !c.publish
    | .describe => !c.publish
    | .find => true
    | .unknown => false)

structure Expect where
  file : Bytes
  fn : Bytes
  kind : Kind

def siteJustified (exp : List Expect) (s : SiteF) : Bool :=
  exp.any (fun e => e.file == s.file && e.fn == s.fn && justified e.kind s)

/-! ## Part C: per-connection traces recorded at the real protocol servers

The real rtsp / rtmp / srt / hls servers run against a RECORDING path manager that logs every
FindPathConf / Describe / AddPublisher / AddReader request of one client connection and answers from a
permission table read independently of internal/auth.  `admitted` is that independent verdict for the
request's own (name, action, credentials, IP); `granted` is what the stub answered (like the real
pathManager it grants SkipAuth requests and never honours SkipAuth on FindPathConf). -/

/-- `media`: not a path-manager request but a media response (playlist / segment) the server gave to the client
    for path `name` (HLS, where one authorised session serves many requests); `granted` = it was served. -/
inductive EvKind | find | describe | addPub | addReader | media
deriving DecidableEq, Repr

structure Ev where
  kind : EvKind
  name : Bytes
  publish : Bool
  skip : Bool
  admitted : Bool
  granted : Bool
  /-- find: identity of the configuration handed out; addPub: identity of ConfToCompare (0 = nil) -/
  conf : Nat
deriving DecidableEq, Repr

def Ev.isAttach (e : Ev) : Bool := e.granted && (e.kind == .addPub || e.kind == .addReader)

/-- an earlier request of the same connection that justifies a SkipAuth attach `e`: it carried the
    credentials (no SkipAuth), was admitted for exactly that name and action, and — for a publisher — it is the
    FindPathConf whose configuration the attach names in ConfToCompare. -/
def justifies (f e : Ev) : Bool :=
  !f.skip && f.admitted && f.granted && f.name == e.name && f.publish == e.publish &&
  (e.kind != .addPub || (f.kind == .find && e.conf != 0 && e.conf == f.conf))

/-- an earlier request that backs a media response for path `e.name`: a reader request for exactly that path,
    carrying the credentials, admitted and granted -/
def backsMedia (f e : Ev) : Bool :=
  f.kind != .media && !f.skip && !f.publish && f.admitted && f.granted && f.name == e.name

/-- one event, given the earlier events of its connection.  `secretOK`: the client presented the HLS CDN
    secret (only then may a reader be attached with SkipAuth and no earlier authenticated request). -/
def evProblem (secretOK : Bool) (prev : List Ev) (e : Ev) : Option String :=
  if e.kind == .media then
    if !e.granted || secretOK || prev.any (fun f => backsMedia f e) then none
    else some "media of a path was served to a session that holds no authorization for that path"
  else if !e.isAttach then
    if e.granted && !e.skip && !e.admitted then some "a request that the permission table refuses for the client's own address and credentials was granted" else none
  else if (e.kind == .addPub) != e.publish then some "attach with a Publish flag that does not match the method"
  else if !e.skip then
    if e.admitted then none else some "attached with credentials the permission table refuses"
  else if prev.any (fun f => justifies f e) then none
  else if secretOK && e.kind == .addReader then none
  else if e.kind == .addPub && prev.any (fun f => justifies f { e with kind := .addReader }) then
    some "publisher attached with SkipAuth but ConfToCompare is not the configuration its FindPathConf returned"
  else some "attached with SkipAuth without an earlier admitted request for exactly that name and action in the same connection"

def checkFrom (secretOK : Bool) (prev : List Ev) : List Ev → Option String
  | [] => none
  | e :: rest =>
    match evProblem secretOK prev e with
    | some m => some m
    | none => checkFrom secretOK (prev ++ [e]) rest

def checkTrace (secretOK : Bool) (evs : List Ev) : Option String := checkFrom secretOK [] evs

end MtxVerif.C03
