/-
C16 — at most one publisher per path; replaced publishers are cut off.
Model: the shared path state machine (Model/PathSM.lean) incl. its stream-level part (`subs`, `sreg`,
`aaCur`, `deliver`).  This file: the executable spec evaluated on the IMPLEMENTATION's answers.
-/
import MtxVerif.Model.PathSM

namespace MtxVerif.C16
open MtxVerif.PathSM

structure Spec where
  override : Bool := false
  cur : Option Nat := none        -- publisher attached according to the implementation's answers
  curSub : Option Nat := none     -- the sub-stream it (or the static source) was handed
  att : List Nat := []            -- readers attached to the path (handed the stream, not closed/removed since)
  reqs : List (Nat × Nat) := []   -- add-reader request id ↦ reader
  err : Option String := none

def Spec.fail (sp : Spec) (m : String) : Spec := if sp.err.isSome then sp else { sp with err := some m }

def parseDl (t : String) : Option (List Nat) :=
  if t.startsWith "dl=[" then
    let body := ((t.drop 4).toString.dropEnd 1).toString
    if body.isEmpty then some [] else (body.splitOn ",").mapM (·.toNat?)
  else none

/-- bookkeeping tokens that do not depend on the op -/
def specTok (sp : Spec) (t : String) : Spec :=
  match Drv.tokNat "rd!" t with
  | some r => { sp with att := sp.att.filter (· != r) }
  | none =>
  match Drv.tokNat "pub!" t with
  | some q => if sp.cur == some q then { sp with cur := none, curSub := none } else sp
  | none =>
  if t == "src-" || t == "rmpath" then { sp with curSub := none, cur := none }
  else if t.startsWith "q" then
    match t.splitOn "=" with
    | [q, a] =>
      match (q.drop 1).toString.toNat?, a.startsWith "s" && a != "suberr" with
      | some rid, true =>
        match sp.reqs.find? (·.1 == rid) with
        | some (_, r) => if sp.att.contains r then sp else { sp with att := sp.att ++ [r] }
        | none => sp
      | _, _ => sp
    | _ => sp
  else sp

def specOp (sp : Spec) (o : Drv.Op) (impl : String) : Spec :=
  let sp := { sp with err := none }
  let toks := Drv.implToks impl
  match o with
  | .reset c => toks.foldl specTok { override := c.conf.overridePublisher }
  | .ev (.addPublisher p _) =>
    let before := sp.cur
    let okSub := toks.findSome? (Drv.tokNat "pub=ok")
    let sp1 := toks.foldl specTok sp
    let sp1 := match okSub with
      | some k => { sp1 with cur := some p, curSub := some k }
      | none => sp1
    match before with
    | none => sp1
    | some q =>
      if !sp.override then
        if okSub.isSome || !toks.contains "pub=busy" then
          sp1.fail s!"publisher {p} was not rejected although publisher {q} is active and overridePublisher is off"
        else if toks.length != 1 then
          sp1.fail s!"rejecting publisher {p} disturbed the active publisher {q}"
        else sp1
      else
        if okSub.isSome && toks.head? != some s!"pub!{q}" then
          sp1.fail s!"publisher {p} attached but the previous publisher {q} was not closed first"
        else sp1
  | .ev (.removePublisher p) =>
    match sp.cur with
    | some q =>
      if q == p then toks.foldl specTok { sp with cur := none, curSub := none }
      else if impl != "-" then
        (toks.foldl specTok sp).fail s!"removing publisher {p}, which is not attached, disturbed the active publisher {q}"
      else sp
    | none => toks.foldl specTok sp
  | .ev (.srcReady _) =>
    let sp1 := toks.foldl specTok sp
    match toks.findSome? (Drv.tokNat "src=ok") with
    | some k => { sp1 with curSub := some k }
    | none => sp1
  | .ev .srcNotReady =>
    let sp := if impl == "ignored" then sp else { sp with curSub := none }
    toks.foldl specTok sp
  | .ev (.addReader rid r) => toks.foldl specTok { sp with reqs := (rid, r) :: sp.reqs }
  | .ev (.removeReader r) => toks.foldl specTok { sp with att := sp.att.filter (· != r) }
  | .ev (.write k) =>
    let sp1 := toks.foldl specTok sp
    match toks.findSome? parseDl with
    | some rs =>
      let bad := rs.filter sp.att.contains
      if sp.curSub != some k && !bad.isEmpty then
        sp1.fail s!"a unit written through stale sub-stream {k} (live: {sp.curSub}) reached attached readers {bad}"
      else sp1
    | none => sp1.fail "write: no delivery list in the implementation's answer"
  | _ => toks.foldl specTok sp

def Spec.verdict (sp : Spec) : String :=
  match sp.err with
  | some m => "FAIL " ++ m
  | none => "ok"

end MtxVerif.C16
