/-
C02 — HTTP and JWT authentication (internal/auth/manager.go: isHTTP, getToken, Authenticate,
authenticateHTTP, authenticateJWT, pullJWTJWKS / RefreshJWTJWKS; internal/auth/jwt_claims.go).

Modelled: token source precedence, the exclude list (matchesPermission, shared with C01), the
status-code test, the JSON body that is POSTed, the order of the JWT checks (exclude → JWKS → empty
token → verification → permission claim), the decoding *shape* of the permission claim, the JWKS
refresh state, the ask-for-credentials rule.
Oracles (results of library calls, supplied per op line): url.ParseQuery, regexp, the HTTP exchange
(status or transport error), golang-jwt verification against a key set (signature, alg, exp/nbf,
iss, aud) incl. the `sub` claim, encoding/json + jsonwrapper results on the permission claim.
-/
import MtxVerif.Model.C01

namespace MtxVerif.C02

open MtxVerif.C01 (Perm Oracle Outcome matchesPermission aPlayback aAPI aMetrics aPprof)

def pRTSP : Bytes := asc ['r','t','s','p']
def pRTMP : Bytes := asc ['r','t','m','p']
def pHLS : Bytes := asc ['h','l','s']
def pWebRTC : Bytes := asc ['w','e','b','r','t','c']

inductive Method where
  | http
  | jwt
deriving DecidableEq, Repr

structure Req where
  action : Bytes
  path : Bytes
  query : Bytes
  proto : Bytes
  user : Bytes
  pass : Bytes
  token : Bytes
  enableAsk : Bool
  /-- `req.IP.String()` -/
  ipStr : Bytes
  userAgent : Bytes
  /-- `req.ID` rendered by encoding/json (`none` = nil pointer = JSON null) -/
  id : Option Bytes
deriving DecidableEq, Repr

/-- the part of `url.ParseQuery(req.Query)` that getToken looks at: `v["token"]`, `v["jwt"]` -/
structure QueryVals where
  token : List Bytes
  jwt : List Bytes
deriving DecidableEq, Repr

def isHTTP (r : Req) : Bool :=
  r.proto == pHLS || r.proto == pWebRTC ||
  r.action == aPlayback || r.action == aAPI || r.action == aMetrics || r.action == aPprof

/-- third `case` guard of getToken -/
def queryAllowed (tokenInHTTPQuery : Bool) (r : Req) : Bool :=
  r.proto == pRTSP || r.proto == pRTMP || (tokenInHTTPQuery && isHTTP r)

/-- `getToken`; `pq` = result of `url.ParseQuery(req.Query)` (`none` = error) -/
def getToken (tokenInHTTPQuery : Bool) (pq : Option QueryVals) (r : Req) : Bytes :=
  if r.token ≠ [] then r.token
  else if r.pass ≠ [] then r.pass
  else if queryAllowed tokenInHTTPQuery r then
    match pq with
    | some v =>
      match v.token with
      | [t] => t
      | _ =>
        match v.jwt with
        | [t] => t
        | _ => []
    | none => []
  else []

/-! ### HTTP method -/

/-- the JSON object POSTed to the auth server -/
structure Post where
  ip : Bytes
  user : Bytes
  password : Bytes
  token : Bytes
  action : Bytes
  path : Bytes
  protocol : Bytes
  id : Option Bytes
  query : Bytes
  userAgent : Bytes
deriving DecidableEq, Repr

def postOf (r : Req) (token : Bytes) : Post :=
  { ip := r.ipStr, user := r.user, password := r.pass, token := token, action := r.action,
    path := r.path, protocol := r.proto, id := r.id, query := r.query, userAgent := r.userAgent }

/-- what came back from `httpClient.Post` -/
inductive Reply where
  | status (code : Nat)
  | fail                      -- transport error (`err != nil`)
deriving DecidableEq, Repr

/-- `authenticateHTTP`: `(user, err == nil)` and the POST that was made (if any).
`authority` = the auth server as a function of the body it receives. -/
def authenticateHTTP (o : Oracle) (excl : List Perm) (authority : Post → Reply) (r : Req) (token : Bytes) :
    Option Bytes × Option Post :=
  if matchesPermission o excl r.action r.path then (some [], none)
  else
    let p := postOf r token
    match authority p with
    | .fail => (none, some p)
    | .status c => if c < 200 ∨ c > 299 then (none, some p) else (some r.user, some p)

/-! ### JWT method -/

/-- results of the JSON library calls of `jwtClaims.UnmarshalJSON` on the permission claim -/
inductive Claim where
  /-- `claimMap[key]` absent (or the payload is not a JSON object) -/
  | missing
  /-- present; `asArray` = `jsonwrapper.Unmarshal(raw, &permissions)` (`none` = error);
      `asString` = `json.Unmarshal(raw, &str)` (`none` = error) followed by
      `jsonwrapper.Unmarshal([]byte(str), &permissions)` (`some none` = that failed) -/
  | present (asArray : Option (List Perm)) (asString : Option (Option (List Perm)))
deriving DecidableEq, Repr

/-- the decision part of `jwtClaims.UnmarshalJSON`: `none` = it returns an error -/
def decodeClaim : Claim → Option (List Perm)
  | .missing => none
  | .present (some perms) _ => some perms
  | .present none none => none
  | .present none (some none) => none
  | .present none (some (some perms)) => some perms

/-- what golang-jwt says about one token string -/
structure TokInfo where
  /-- `ParseWithClaims` against key set `k` with the configured issuer/audience options succeeds
      as far as header, signature, alg and registered claims go; value = `sub` -/
  verdict : Nat → Option Bytes
  claim : Claim

/-- what the JWKS endpoint serves at the moment: key set number `k`, or something for which
`pullJWTJWKS` returns an error (unreachable, not JSON, too large, not a JWK set) -/
inductive Served where
  | keys (k : Nat)
  | broken
deriving DecidableEq, Repr

/-- `jwksLastRefresh` / `jwtKeyFunc`: a refresh is due (always true before the first fetch and after
`RefreshJWTJWKS`; the one-hour period does not elapse within a run), and the loaded key set -/
structure St where
  due : Bool := true
  loaded : Nat := 0
deriving DecidableEq, Repr

/-- `pullJWTJWKS` -/
def pull (st : St) (served : Served) : St × Option Nat :=
  if st.due then
    match served with
    | .keys k => ({ due := false, loaded := k }, some k)
    | .broken => (st, none)
  else (st, some st.loaded)

/-- `RefreshJWTJWKS` -/
def refresh (st : St) : St := { st with due := true }

/-- `authenticateJWT` after the key set `k` has been obtained: empty token, verification, claim,
permission check.  `none` = an error is returned. -/
def jwtDecide (o : Oracle) (tok : Bytes → TokInfo) (k : Nat) (r : Req) (token : Bytes) : Option Bytes :=
  if token = [] then none
  else
    match (tok token).verdict k, decodeClaim (tok token).claim with
    | some sub, some perms => if matchesPermission o perms r.action r.path then some sub else none
    | _, _ => none

/-- `authenticateJWT` (exclude → pullJWTJWKS → the rest) -/
def authenticateJWT (o : Oracle) (excl : List Perm) (tok : Bytes → TokInfo) (st : St) (served : Served)
    (r : Req) (token : Bytes) : St × Option Bytes :=
  if matchesPermission o excl r.action r.path then (st, some [])
  else
    ((pull st served).1,
      match (pull st served).2 with
      | none => none
      | some k => jwtDecide o tok k r token)

/-! ### Manager.Authenticate -/

structure Cfg where
  method : Method
  /-- HTTPExclude resp. JWTExclude -/
  excl : List Perm
  /-- `JWTInHTTPQuery != nil && *JWTInHTTPQuery` -/
  inQuery : Bool
deriving DecidableEq, Repr

structure Env where
  o : Oracle
  pq : Option QueryVals
  authority : Post → Reply
  tok : Bytes → TokInfo
  served : Served

structure Result where
  out : Outcome
  post : Option Post
deriving DecidableEq, Repr

def tokenOf (cfg : Cfg) (env : Env) (r : Req) : Bytes :=
  getToken (cfg.method == .jwt && cfg.inQuery) env.pq r

def askOf (r : Req) (token : Bytes) : Bool :=
  r.enableAsk && r.user.isEmpty && r.pass.isEmpty && token.isEmpty

def mkOut : Option Bytes → Bool → Outcome
  | some u, _ => .ok u
  | none, ask => .err ask

def authenticate (cfg : Cfg) (env : Env) (st : St) (r : Req) : St × Result :=
  let token := tokenOf cfg env r
  match cfg.method with
  | .http =>
    let res := authenticateHTTP env.o cfg.excl env.authority r token
    (st, ⟨mkOut res.1 (askOf r token), res.2⟩)
  | .jwt =>
    let res := authenticateJWT env.o cfg.excl env.tok st env.served r token
    (res.1, ⟨mkOut res.2 (askOf r token), none⟩)

/-! ### executable spec (the property's wording) evaluated on the implementation's answer -/

def excluded (env : Env) (cfg : Cfg) (r : Req) : Bool :=
  cfg.excl.any (C01.permGrants env.o · r.action r.path)

/-- the statement's token rule, written independently of `getToken`'s control flow -/
def specToken (cfg : Cfg) (env : Env) (r : Req) : Bytes :=
  if !r.token.isEmpty then r.token
  else if !r.pass.isEmpty then r.pass
  else
    let viaQuery := r.proto == pRTSP || r.proto == pRTMP ||
      (cfg.method == .jwt && cfg.inQuery && isHTTP r)
    match viaQuery, env.pq with
    | true, some v =>
      if v.token.length == 1 then v.token.headD []
      else if v.jwt.length == 1 then v.jwt.headD []
      else []
    | _, _ => []

def is2xx : Reply → Bool
  | .status c => decide (200 ≤ c ∧ c ≤ 299)
  | .fail => false

/-- "the token verifies against the JWKS keys [set `k`] …, and its permission claim grants the action
on the path" -/
def specJwt (o : Oracle) (tok : Bytes → TokInfo) (k : Nat) (r : Req) (t : Bytes) : Bool :=
  !t.isEmpty && ((tok t).verdict k).isSome &&
    (match decodeClaim (tok t).claim with
     | some perms => perms.any (C01.permGrants o · r.action r.path)
     | none => false)

/-- should the request be admitted, according to the statement?  `loadedKeys` = the key set the
manager holds after this call's JWKS pull (`none` = pull failed) -/
def specAdmit (cfg : Cfg) (env : Env) (loadedKeys : Option Nat) (r : Req) : Bool :=
  excluded env cfg r ||
  match cfg.method with
  | .http => is2xx (env.authority (postOf r (specToken cfg env r)))
  | .jwt =>
    match loadedKeys with
    | none => false
    | some k => specJwt env.o env.tok k r (specToken cfg env r)

def specCheck (cfg : Cfg) (env : Env) (loadedKeys : Option Nat) (r : Req) (impl : Result) : Option String :=
  let adm := specAdmit cfg env loadedKeys r
  let exc := excluded env cfg r
  let t := specToken cfg env r
  match impl.out with
  | .ok u =>
    if !adm then some "admitted although not excluded and the authority does not grant the request"
    else if exc ∧ impl.post.isSome then some "excluded request was still sent to the auth server"
    else if ¬ exc ∧ cfg.method = .http ∧ impl.post ≠ some (postOf r t) then
      some "POST body does not carry the request's fields / the token chosen by precedence"
    else if ¬ exc ∧ cfg.method = .http ∧ u ≠ r.user then some "admitted HTTP request does not report the supplied user"
    else if ¬ exc ∧ cfg.method = .jwt ∧ some u ≠ (loadedKeys.bind fun k => (env.tok t).verdict k) then
      some "admitted JWT request does not report the token's subject"
    else if exc ∧ u ≠ [] then some "excluded request reports a user"
    else none
  | .err ask =>
    if adm then some "rejected although excluded or granted by the authority"
    else if cfg.method = .http ∧ impl.post ≠ some (postOf r t) then
      some "POST body does not carry the request's fields / the token chosen by precedence"
    else if ask ≠ (r.enableAsk && r.user.isEmpty && r.pass.isEmpty && t.isEmpty) then
      some "ask-for-credentials flag is not (asking allowed and no user/pass/token supplied)"
    else none

end MtxVerif.C02
