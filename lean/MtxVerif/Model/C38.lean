/-
C38 — the configuration watcher never loses the final file content
(internal/confwatcher/confwatcher.go, consumer: Core.run in internal/core/core.go).

Timed-event automaton of `ConfWatcher.run`.  Time is in milliseconds.  An event is what fsnotify
delivers for the parent directory, together with what the loop computes from the file system when it
handles it (oracle, logged by the harness): `cur` = `EvalSymlinks(absolutePath)` as a token
(0 = the watched file does not exist), `isCur` = the event's path resolves to `cur`, `wc` = the event
has the Write or the Create bit.

Two loops are modelled:
* `stepCur`  — the loop as found: an event handled less than `minInterval` after the last signal is
  *discarded* before anything else is looked at;
* `stepFix`  — the loop with a trailing-edge timer: such an event is remembered and reported when
  `minInterval` has elapsed (`notes/C38-fix-trailing-timer.diff`).
The loop is busy (`time.Sleep(additionalWait)`, then the send) until `free`; an event delivered
earlier is handled at `free`.  The consumer receives a signal immediately and then loads the file,
so the content loaded last is the content at the time of the last signal.
-/
import MtxVerif.Base.DriverLib

namespace MtxVerif.C38

def minInterval : Nat := 1000
def additionalWait : Nat := 10

structure Ev where
  t : Nat
  cur : Nat
  isCur : Bool
  wc : Bool
deriving Repr, DecidableEq

structure St where
  /-- `lastCalled` (`none` = Go zero time) -/
  lastCalled : Option Nat := none
  /-- `previousWatchedPath` (0 = "") -/
  prev : Nat
  /-- the loop handles nothing before this time -/
  free : Nat := 0
  /-- deadline of the trailing timer (fixed loop only) -/
  pending : Option Nat := none
  /-- ghost: `cur` of the latest delivered event (= state of the file system until the next event) -/
  lastCur : Nat
  /-- times at which a signal was sent, newest first -/
  signals : List Nat := []
deriving Repr

def initSt (c0 : Nat) : St := { prev := c0, lastCur := c0 }

/-- `time.Since(lastCalled) < minInterval` -/
def tooEarly (s : St) (now : Nat) : Bool :=
  match s.lastCalled with
  | none => false
  | some l => now - l < minInterval

/-- the condition under which the loop notifies -/
def relevant (prev : Nat) (e : Ev) : Bool := e.cur != prev || (e.isCur && e.wc)

/-- sleep `additionalWait`, set `lastCalled`, send -/
def notify (s : St) (now : Nat) : St :=
  { s with lastCalled := some (now + additionalWait), free := now + additionalWait,
           signals := (now + additionalWait) :: s.signals }

/-- The loop as found. -/
def stepCur (s : St) (e : Ev) : St :=
  let now := max e.t s.free
  if tooEarly s now then { s with lastCur := e.cur }                 -- `continue`
  else if e.cur = 0 then { s with prev := 0, lastCur := 0 }
  else if relevant s.prev e then notify { s with prev := e.cur, lastCur := e.cur } now
  else { s with lastCur := e.cur }

/-- the trailing timer fires (deadline `d`) -/
def fire (s : St) (d : Nat) : St :=
  let now := max d s.free
  if s.lastCur = 0 then { s with pending := none, prev := 0 }
  else notify { s with pending := none, prev := s.lastCur } now

/-- a timer whose deadline has passed fires before an event delivered at `t` is handled -/
def preFire (s : St) (t : Nat) : St :=
  match s.pending with
  | some d => if d ≤ t then fire s d else s
  | none => s

/-- the `Events` arm of the loop with the trailing-edge timer -/
def handleFix (s : St) (e : Ev) : St :=
  let now := max e.t s.free
  if e.cur = 0 then { s with prev := 0, lastCur := 0 }
  else if relevant s.prev e then
    if tooEarly s now then
      { s with prev := e.cur, lastCur := e.cur,
               pending := match s.pending with
                 | some d => some d
                 | none => s.lastCalled.map (· + minInterval) }
    else notify { s with prev := e.cur, lastCur := e.cur, pending := none } now
  else { s with lastCur := e.cur }

/-- The loop with the trailing-edge timer. -/
def stepFix (s : St) (e : Ev) : St := handleFix (preFire s e.t) e

/-- after the last event time passes: a pending timer fires -/
def finish (s : St) : St :=
  match s.pending with
  | some d => fire s d
  | none => s

def runCur (s : St) (evs : List Ev) : St := evs.foldl stepCur s
def runFix (s : St) (evs : List Ev) : St := finish (evs.foldl stepFix s)

/-! ### watcher errors

`fsnotify` reports on its `Errors` channel, among others, `ErrEventOverflow`: the kernel queue was
full and events were DROPPED.  The loop leaves on any error and closes the signal channel; a receive
from a closed channel succeeds at once, so the consumer (`case <-confChanged:` in `Core.run`) is woken
and loads the file — this is what makes dropped events harmless. -/

inductive Inp where
  | ev (e : Ev)
  | err (t : Nat)
deriving Repr

structure StX where
  s : St
  /-- the loop has left and closed the signal channel at this time -/
  closed : Option Nat := none
deriving Repr

def stepX (x : StX) : Inp → StX
  | .ev e => if x.closed.isSome then x else { x with s := stepFix x.s e }
  | .err t => if x.closed.isSome then x else { x with closed := some (max t x.s.free) }

def runX (c0 : Nat) (l : List Inp) : StX := l.foldl stepX { s := initSt c0 }

def evsOf : List Inp → List Ev
  | [] => []
  | .ev e :: r => e :: evsOf r
  | .err _ :: r => evsOf r

def hasErr : List Inp → Bool
  | [] => false
  | .ev _ :: r => hasErr r
  | .err _ :: _ => true

/-! ### the property, on the level of the file system -/

/-- an event that reports a change of what the watched path yields:
a write/create on the file itself, or the path resolving to another file than before -/
def isChange (worldPrev : Nat) (e : Ev) : Bool := e.cur != 0 && ((e.isCur && e.wc) || e.cur != worldPrev)

/-- times of the changes in a history (`c0` = resolved path before the first event) -/
def changeTimes : Nat → List Ev → List Nat
  | _, [] => []
  | c, e :: es => if isChange c e then e.t :: changeTimes e.cur es else changeTimes e.cur es

def finalCur : Nat → List Ev → Nat
  | c, [] => c
  | _, e :: es => finalCur e.cur es

def sortedFrom : Nat → List Ev → Bool
  | _, [] => true
  | t, e :: es => t ≤ e.t && sortedFrom e.t es

/-- consecutive events are more than `minInterval + additionalWait` apart -/
def spacedFrom : Option Nat → List Ev → Bool
  | _, [] => true
  | none, e :: es => spacedFrom (some e.t) es
  | some t, e :: es => t + minInterval + additionalWait ≤ e.t && spacedFrom (some e.t) es

/-- every change is followed by a signal (so the consumer's last load sees the final content) -/
def allReported (changes signals : List Nat) : Bool := changes.all fun c => signals.any fun g => c ≤ g

/-! ### executable spec on the harness' observations -/

/-- tolerance for clock readings taken by different goroutines -/
def slack : Nat := 150

/-- the decidable class of the finding: the last change falls into the discard window of a signal -/
def inDropWindow (lastChange : Nat) (signals : List Nat) : Bool :=
  signals.any fun g => g ≤ lastChange + slack && lastChange < g + minInterval + slack

/-- model decisions closer than this to a boundary are not predicted -/
def margin : Nat := 250

def near (a b : Nat) : Bool := a < b + margin && b < a + margin

/-- does the run of the current loop take a decision that real-time noise could flip? -/
def marginalCur : St → List Ev → Bool
  | _, [] => false
  | s, e :: es =>
    let now := max e.t s.free
    (match s.lastCalled with
      | some l => near (now - l) minInterval
      | none => false) || marginalCur (stepCur s e) es

def marginalFix : St → List Ev → Bool
  | _, [] => false
  | s, e :: es =>
    let now := max e.t s.free
    (match s.lastCalled with
      | some l => near (now - l) minInterval
      | none => false) ||
    (match s.pending with
      | some d => near d e.t
      | none => false) ||
    -- a change delivered while the loop sleeps/sends: inotify may have merged it with the one before
    -- for one watcher and not for the other, so whether the loop saw it at all is not known
    (decide (e.t < s.free) && e.cur != 0 && relevant s.prev e) || marginalFix (stepFix s e) es

/-- a change lands inside the `additionalWait` sleep or right after a signal: whether the consumer's
load sees it is decided by single milliseconds -/
def marginalRace (changes signals : List Nat) : Bool :=
  changes.any fun c => signals.any fun g => g < c + 7 && c < g + 30

/-! ### relational tie: do the automaton's rules explain the observed signals?

inotify merges identical consecutive events per instance, so the harness' second watcher and the real
watcher do not always see the same *number* of events of a burst; a twin of the event that triggered a
signal, queued while the loop sleeps, legitimately arms the timer.  The number of signals can therefore
not be predicted from the log, but every observed signal must be one the loop's rules allow, and every
change must be reported within `minInterval + additionalWait`. -/

def within (a b tol : Nat) : Bool := a ≤ b + tol && b ≤ a + tol

/-- tolerance of the relational tie: under load the kernel may deliver an event to the real watcher a
few hundred ms later than to the second one (observed: 220 ms at load average 30) -/
def tieSlack : Nat := 400

/-- a signal at `g` (previous one at `prev`) is allowed: an immediate report of a change not inside the
quiet interval, or the trailing report `minInterval` (+ sleep) after the previous signal -/
def sigLegit (chs : List Nat) (prev : Option Nat) (g : Nat) : Bool :=
  (chs.any fun c => within g (c + additionalWait) tieSlack &&
      (match prev with | none => true | some p => p + minInterval ≤ c + additionalWait + tieSlack)) ||
  (match prev with
    | none => false
    | some p => within g (p + minInterval + additionalWait) tieSlack &&
        chs.any fun c => p ≤ c + additionalWait + tieSlack && c ≤ g + tieSlack)

def allLegit (chs : List Nat) : Option Nat → List Nat → Bool
  | _, [] => true
  | prev, g :: gs => sigLegit chs prev g && allLegit chs (some g) gs

/-- every change is reported within `minInterval + 2·additionalWait` (+ tieSlack), unless the file
disappears again before that -/
def promptlyReported (c0 : Nat) (evs : List Ev) (sigs : List Nat) : Bool :=
  (changeTimes c0 evs).all fun c =>
    (sigs.any fun g => c ≤ g + tieSlack && g ≤ c + minInterval + 2 * additionalWait + tieSlack) ||
    (evs.any fun e => e.cur == 0 && c ≤ e.t && e.t ≤ c + minInterval + 2 * additionalWait + tieSlack)

end MtxVerif.C38
