/-
C18 — reader limits hold; readers are torn down when the stream goes away.
The model is the shared path state machine (Model/PathSM.lean); this file holds the executable spec
that is evaluated on the IMPLEMENTATION's answers (token trace of one op).
-/
import MtxVerif.Model.PathSM

namespace MtxVerif.C18
open MtxVerif.PathSM

/-- what the implementation's own answers say about the path so far (one history) -/
structure Spec where
  max : Nat := 0
  att : List Nat := []            -- readers that were handed the stream and not closed / removed since
  reqs : List (Nat × Nat) := []   -- add-reader request id ↦ reader
  avail : Bool := false           -- a stream is up (`ready` seen, no `notready` since)
  mustClose : List Nat := []      -- readers attached when the stream went away in this op, not yet closed
  closing : Bool := false         -- the path terminated in this op
  err : Option String := none

def Spec.fail (sp : Spec) (m : String) : Spec := if sp.err.isSome then sp else { sp with err := some m }

def specTok (sp : Spec) (t : String) : Spec :=
  if t == "notready" then { sp with avail := false, mustClose := sp.mustClose ++ sp.att }
  else if t == "rmpath" then
    -- the path terminates: whatever happens to the stream, every reader attached now must be closed
    { sp with mustClose := sp.mustClose ++ sp.att, closing := true }
  else if t == "ready" then
    if sp.avail && !sp.att.isEmpty then
      -- the stream object was replaced while readers were attached to the old one, none of them closed
      sp.fail s!"stream replaced without closing attached readers {sp.att}"
    else { sp with avail := true }
  else match Drv.tokNat "rd!" t with
  | some r => { sp with att := sp.att.filter (· != r), mustClose := sp.mustClose.filter (· != r) }
  | none =>
    if t.startsWith "q" then
      match t.splitOn "=" with
      | [q, a] =>
        match (q.drop 1).toString.toNat?, a.startsWith "s" && a != "suberr" with
        | some rid, true =>
          match sp.reqs.find? (·.1 == rid) with
          | some (_, r) => if sp.att.contains r then sp else { sp with att := sp.att ++ [r] }
          | none => sp
        | _, _ => sp
      | _ => sp
    else sp

def specOp (sp : Spec) (o : Drv.Op) (impl : String) : Spec :=
  let sp := { sp with err := none, mustClose := [], closing := false }
  match o with
  | .reset c =>
    (Drv.implToks impl).foldl specTok { max := c.conf.maxReaders }
  | _ =>
    let before := sp.att
    let sp := match o with
      | .ev (.removeReader r) => { sp with att := sp.att.filter (· != r) }
      | .ev (.addReader rid r) => { sp with reqs := (rid, r) :: sp.reqs }
      | _ => sp
    let toks := Drv.implToks impl
    let sp := toks.foldl specTok sp
    let sp := match o with
      | .ev (.addReader rid r) =>
        if before.contains r && toks.contains s!"q{rid}=max" then
          sp.fail s!"reader {r} is already attached but its re-add was refused by the reader limit (counted twice)"
        else sp
      | _ => sp
    let sp := if !sp.mustClose.isEmpty then
        (if sp.closing then sp.fail s!"path terminated but attached readers {sp.mustClose} were not closed"
         else sp.fail s!"stream became unavailable but attached readers {sp.mustClose} were not closed")
      else sp
    let sp := if sp.closing && sp.avail then sp.fail "path terminated but its stream was not taken down" else sp
    if sp.max != 0 && sp.att.length > sp.max then
      sp.fail s!"{sp.att.length} readers attached, maxReaders = {sp.max}"
    else sp

def Spec.verdict (sp : Spec) : String :=
  match sp.err with
  | some m => "FAIL " ++ m
  | none => "ok"

end MtxVerif.C18
