/-
C32 — MoQ wire codecs (internal/protocols/moq/{varint,namespace,parameter,property,controlmessage,subgroup}).

Part 1: a small compositional codec library (core Lean only).

* encoders are plain functions `α → Bytes`;
* decoders are `Dec α = Bytes → Out α`; an `Out` carries the result (`ok value rest`, `err class`, or the
  explicit `panic` outcome: Go index/slice out of range, or a loop that makes no progress) and the
  number of bytes the Go code allocates on that path (`make`, `string(buf[..])` copies, `append`);
* every Go `buf[:n]` / `buf[n:]` is the primitive `slice`, which *panics* when out of range: the
  decoders are total only because the guards the Go code performs dominate the slices, and that is
  what `Props/C32` proves.

Integers are `Nat`; Go's `uint64` wrap-around is written `% 2^64` where the code can wrap.  Go slice
lengths are < 2^63, so the `int(l)` conversions that follow a `l ≤ len(buf)` guard are exact.
-/
import MtxVerif.Base.DriverLib

namespace MtxVerif.C32

/-- error classes (the harness maps Go error strings to these) -/
inductive Err
  | short        -- io.EOF / io.ErrUnexpectedEOF / "not enough bytes…" / "invalid track name length"
  | tooMany      -- "too many namespace fields"
  | tooLarge     -- "properties too large" / "payload too large"
  | unsupported  -- unsupported parameter type / alias type, unknown message type, unexpected status
  | emptyObj     -- "unexpected empty object"
  | secondObj    -- "unexpected second object"
  deriving DecidableEq, Repr

def Err.toStr : Err → String
  | .short => "short" | .tooMany => "toomany" | .tooLarge => "toolarge"
  | .unsupported => "unsupported" | .emptyObj => "emptyobj" | .secondObj => "secondobj"

inductive Res (α : Type) where
  | ok (v : α) (rest : Bytes)
  | err (e : Err)
  | panic
  deriving DecidableEq

/-- length of the unread input after a successful decode, 0 otherwise -/
def Res.restLen : Res α → Nat
  | .ok _ r => r.length
  | _ => 0

structure Out (α : Type) where
  r : Res α
  alloc : Nat := 0

abbrev Dec (α : Type) := Bytes → Out α

namespace Dec

def pure (v : α) : Dec α := fun b => ⟨.ok v b, 0⟩
def fail (e : Err) : Dec α := fun _ => ⟨.err e, 0⟩
/-- explicit crash outcome -/
def crash : Dec α := fun _ => ⟨.panic, 0⟩

def bind (d : Dec α) (f : α → Dec β) : Dec β := fun b =>
  match d b with
  | ⟨.ok v rest, a⟩ => let o := f v rest; ⟨o.r, a + o.alloc⟩
  | ⟨.err e, a⟩ => ⟨.err e, a⟩
  | ⟨.panic, a⟩ => ⟨.panic, a⟩

def map (f : α → β) (d : Dec α) : Dec β := bind d fun v => pure (f v)

end Dec

instance : Monad Dec where
  pure := Dec.pure
  bind := Dec.bind

/-! ### primitives -/

/-- `if !c { return err }` -/
def guardD (c : Bool) (e : Err) : Dec Unit := fun b => if c then ⟨.ok () b, 0⟩ else ⟨.err e, 0⟩

/-- `make(..)` / copy of `n` bytes -/
def allocD (n : Nat) : Dec Unit := fun b => ⟨.ok () b, n⟩

/-- `len(buf)` -/
def lenD : Dec Nat := fun b => ⟨.ok b.length b, 0⟩

/-- `n ≤ len(buf)`, computed by walking at most `n` cells (the driver runs this on long inputs) -/
def hasLen : Nat → Bytes → Bool
  | 0, _ => true
  | _ + 1, [] => false
  | n + 1, _ :: t => hasLen n t

/-- `if len(buf) < n { return err }` -/
def needD (n : Nat) (e : Err) : Dec Unit := fun b => if hasLen n b then ⟨.ok () b, 0⟩ else ⟨.err e, 0⟩

/-- `x := buf[:n]; buf = buf[n:]` — **panics** when `n > len(buf)` -/
def slice (n : Nat) : Dec Bytes := fun b =>
  if n ≤ b.length then ⟨.ok (b.take n) (b.drop n), 0⟩ else ⟨.panic, 0⟩

/-- `buf[0]` then advance — **panics** on the empty buffer -/
def byte0 : Dec UInt8 := fun b =>
  match b with
  | [] => ⟨.panic, 0⟩
  | x :: rest => ⟨.ok x rest, 0⟩

/-- the rest of the buffer (`t.TokenValue = buf[n:]`) -/
def takeAll : Dec Bytes := fun b => ⟨.ok b [], 0⟩

/-- run `inner` on the byte string `sub` (a sub-slice or a freshly read payload); the outer input is
left untouched, whatever `inner` leaves unread is dropped (that is what the Go callers do) -/
def onBytes (inner : Dec α) (sub : Bytes) : Dec α := fun outer =>
  match inner sub with
  | ⟨.ok v _, a⟩ => ⟨.ok v outer, a⟩
  | ⟨.err e, a⟩ => ⟨.err e, a⟩
  | ⟨.panic, a⟩ => ⟨.panic, a⟩

/-! ### big-endian helpers -/

/-- the `k` low-order bytes of `v`, big endian (`byte(v >> 8(k-1)), …, byte(v)`) -/
def beBytes : Nat → Nat → Bytes
  | 0, _ => []
  | k + 1, v => UInt8.ofNat (v / 256 ^ k) :: beBytes k v

def beNat : Bytes → Nat
  | [] => 0
  | x :: xs => x.toNat * 256 ^ xs.length + beNat xs

/-! ### varint (varint.go) — 1 … 9 bytes, the whole uint64 range -/

/-- `Varint.MarshalSize` -/
def varintLen (v : Nat) : Nat :=
  if v < 2 ^ 7 then 1 else if v < 2 ^ 14 then 2 else if v < 2 ^ 21 then 3 else if v < 2 ^ 28 then 4
  else if v < 2 ^ 35 then 5 else if v < 2 ^ 42 then 6 else if v < 2 ^ 49 then 7
  else if v < 2 ^ 56 then 8 else 9

/-- first-byte prefix of an `n`-byte varint -/
def prefixOf (n : Nat) : Nat :=
  match n with
  | 1 => 0 | 2 => 0x80 | 3 => 0xC0 | 4 => 0xE0 | 5 => 0xF0 | 6 => 0xF8 | 7 => 0xFC | 8 => 0xFE
  | _ => 0xFF

/-- `Varint.MarshalTo` -/
def encVarint (v : Nat) : Bytes :=
  let n := varintLen v
  UInt8.ofNat (prefixOf n + v / 256 ^ (n - 1)) :: beBytes (n - 1) v

/-- the `switch` on the first byte in `Read` / `Unmarshal` -/
def sizeOfFirst (b : Nat) : Nat :=
  if b < 0x80 then 1 else if b < 0xC0 then 2 else if b < 0xE0 then 3 else if b < 0xF0 then 4
  else if b < 0xF8 then 5 else if b < 0xFC then 6 else if b < 0xFE then 7
  else if b = 0xFE then 8 else 9

/-- `Varint.Unmarshal` (`stream = false`) and `Varint.Read` on a byte stream (`stream = true`: the
`make([]byte, size-1)` happens before the read). -/
def varint (stream : Bool := false) : Dec Nat := do
  needD 1 .short
  let b0 ← byte0
  let n := sizeOfFirst b0.toNat
  if n == 1 then pure b0.toNat
  else do
    allocD (if stream then n - 1 else 0)
    needD (n - 1) .short
    let rest ← slice (n - 1)
    pure ((b0.toNat - prefixOf n) * 256 ^ (n - 1) + beNat rest)

/-! ### combinators -/

/-- when the bytes of a length-prefixed field are allocated -/
inductive AllocMode
  | none   -- aliases the input (`buf[:l]`)
  | pre    -- `make([]byte, l)` before `io.ReadFull` (stream readers)
  | post   -- `string(buf[:l])` after the length check (buffer decoders)
  deriving DecidableEq

def u64max : Nat := 2 ^ 64 - 1

/-- varint length, limit check, availability check, then the bytes. -/
def bytesLP (max : Nat) (mode : AllocMode) (stream : Bool := false) : Dec Bytes := do
  let n ← varint stream
  guardD (n ≤ max) .tooLarge
  allocD (if mode == .pre then n else 0)
  needD n .short
  allocD (if mode == .post then n else 0)
  slice n

/-- `n` times `d` -/
def repeatN (d : Dec α) : Nat → Dec (List α)
  | 0 => pure []
  | k + 1 => do
    let x ← d
    let xs ← repeatN d k
    pure (x :: xs)

/-- varint count, limit check, `make([]T, count)` (`elemSize` bytes each), then the elements. -/
def listLP (max elemSize : Nat) (d : Dec α) : Dec (List α) := do
  let n ← varint
  guardD (n ≤ max) .tooMany
  allocD (elemSize * n)
  repeatN d n

def pair (d1 : Dec α) (d2 : Dec β) : Dec (α × β) := do
  let a ← d1
  let b ← d2
  pure (a, b)

/-- tagged union: a tag, then the decoder selected by the tag (`none` = unknown tag) -/
def tagged (tag : Dec τ) (sel : τ → Option (Dec α)) : Dec α := do
  let t ← tag
  match sel t with
  | some d => d
  | none => Dec.fail .unsupported

/-- encoders matching the combinators -/
def encBytesLP (b : Bytes) : Bytes := encVarint b.length ++ b
def encListLP (e : α → Bytes) (l : List α) : Bytes := encVarint l.length ++ l.flatMap e

end MtxVerif.C32
