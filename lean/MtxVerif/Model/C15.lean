/-
C15 — live paths reconcile with the configuration after reloads
(internal/core/path_manager.go `doReloadConf`, `pathConfCanBeUpdated`, `createPath`, `doClosePath`,
`doAddPublisher`/`doAddReader`; internal/core/path.go `reloadConf`, `doReloadConf`, `shouldClose`).

State machine of the pathManager goroutine with the `path` goroutines as mailboxes:
  * a configuration is (name, regex?, hot, cold): `hot` = value tuple of the fields assigned in
    `pathConfCanBeUpdated` (forwarding, recording, some camera controls), `cold` = all other fields;
    `Equal` = all equal; `pathConfCanBeUpdated old new` = `old.cold == new.cold` (name/regexp/hot are
    overwritten in the clone before the comparison);
  * resolution is C14's `find` (regexp an oracle: conf name → path name → FindStringSubmatch);
  * `reload new` is one pass of `pathManager.doReloadConf`; `go pa.reloadConf(c)` appends `c` to the
    path's mailbox; `deliver name i` is the path loop receiving the i-th pending conf (the goroutines
    race for the channel, so ANY pending one may arrive first);
  * clients (publisher / readers) are the environment: they create regex paths, keep them alive, and
    show whether a path object survived a reload.

Variants (`Variant`): the code as it is = `⟨false, false⟩`; `fixGroups` = a migration to another conf is
hot only if the capture groups stay the same; `fixOrder` = the path always applies the latest pending
conf.  Where Go would dereference a nil conf (`pm.pathConfs[pa.confName]` missing) the model sets
`panicked`.
-/
import MtxVerif.Model.C14

namespace MtxVerif.C15

structure Conf where
  name : Bytes
  regex : Bool
  hot : Nat
  cold : Nat
deriving Repr, DecidableEq

/-- regexp oracle: conf name → path name → `FindStringSubmatch` -/
abbrev Oracle := Bytes → Bytes → Option (List Bytes)

structure Variant where
  fixGroups : Bool
  fixOrder : Bool
deriving Repr, DecidableEq

def asIs : Variant := ⟨false, false⟩
def fixed : Variant := ⟨true, true⟩

/-- `pathConfCanBeUpdated` -/
def canUpdate (old new : Conf) : Bool := old.cold == new.cold

def lookup (confs : List Conf) (cn : Bytes) : Option Conf := confs.find? (fun c => c.name == cn)

def entries (orc : Oracle) (confs : List Conf) (n : Bytes) : List C14.Entry :=
  confs.map fun c => ⟨c.name, c.regex, if c.regex then orc c.name n else none⟩

/-- `conf.FindPathConf(confs, n)`: the configuration and the matches (`none` = error) -/
def resolve (orc : Oracle) (confs : List Conf) (n : Bytes) : Option (Conf × Option (List Bytes)) :=
  match C14.find C14.isort (entries orc confs n) n with
  | .found cn g => (lookup confs cn).map fun c => (c, g)
  | _ => none

/-- capture groups = `matches[1:]` (the only part of `matches` the code reads) -/
def groupsOf : Option (List Bytes) → List Bytes
  | some (_ :: gs) => gs
  | _ => []

structure LivePath where
  name : Bytes
  confName : Bytes            -- pathManager side (`pa.confName`)
  conf : Conf                 -- path side (`pa.conf`)
  groups : List Bytes         -- `pa.matches[1:]`, fixed at creation
  inc : Nat                   -- which `path` object
  pub : Bool                  -- has a publisher
  readers : List Nat
  mailbox : List Conf         -- pending `go pa.reloadConf(c)`, oldest first
deriving Repr, DecidableEq

structure PM where
  confs : List Conf
  paths : List LivePath
  nextInc : Nat
  panicked : Bool := false
deriving Repr, DecidableEq

/-- the conf the path will run with once its mailbox is drained in order -/
def LivePath.effective (p : LivePath) : Conf := (p.mailbox.getLast?).getD p.conf

def findPath (paths : List LivePath) (n : Bytes) : Option LivePath := paths.find? (fun p => p.name == n)

def hasPath (paths : List LivePath) (n : Bytes) : Bool := paths.any (fun p => p.name == n)

/-! ### doReloadConf -/

/-- first loop: names of changed confs that must be recreated / can be reloaded -/
def toRecreate (old new : List Conf) : List Bytes :=
  (old.filter fun c => match lookup new c.name with
    | some n => n != c && !canUpdate c n
    | none => false).map (·.name)

def toReload (old new : List Conf) : List Bytes :=
  (old.filter fun c => match lookup new c.name with
    | some n => n != c && canUpdate c n
    | none => false).map (·.name)

inductive Dec where
  | close
  | hot (nc : Conf)      -- `pa.confName = nc.Name; go pa.reloadConf(nc)`
  | keep
  | panic
deriving Repr, DecidableEq

/-- second loop, one live path -/
def decidePath (V : Variant) (orc : Oracle) (old new : List Conf) (p : LivePath) : Dec :=
  match resolve orc new p.name with
  | none => .close
  | some (nc, m) =>
    if nc.name != p.confName then
      match lookup old p.confName with
      | none => .panic
      | some oc =>
        if canUpdate oc nc && (!V.fixGroups || groupsOf m == p.groups) then .hot nc else .close
    else if (toRecreate old new).contains nc.name then .close
    else if (toReload old new).contains nc.name then .hot nc
    else .keep

def applyDec (p : LivePath) : Dec → Option LivePath
  | .close => none
  | .panic => none
  | .hot nc => some { p with confName := nc.name, mailbox := p.mailbox ++ [nc] }
  | .keep => some p

def mkPath (c : Conf) (n : Bytes) (m : Option (List Bytes)) (inc : Nat) : LivePath :=
  { name := n, confName := c.name, conf := c, groups := groupsOf m, inc := inc, pub := false,
    readers := [], mailbox := [] }

/-- third loop: create the missing static paths -/
def createStatics : List Conf → List LivePath → Nat → List LivePath × Nat
  | [], ps, k => (ps, k)
  | c :: cs, ps, k =>
    if !c.regex && !hasPath ps c.name then createStatics cs (ps ++ [mkPath c c.name none k]) (k + 1)
    else createStatics cs ps k

def reload (V : Variant) (orc : Oracle) (pm : PM) (new : List Conf) : PM :=
  let kept := pm.paths.filterMap fun p => applyDec p (decidePath V orc pm.confs new p)
  let pan := pm.paths.any fun p => decidePath V orc pm.confs new p == .panic
  let (ps, k) := createStatics new kept pm.nextInc
  { confs := new, paths := ps, nextInc := k, panicked := pm.panicked || pan }

def initPM (confs : List Conf) : PM :=
  let (ps, k) := createStatics confs [] 0
  { confs := confs, paths := ps, nextInc := k }

/-! ### the path loop receives a pending configuration -/

def removeNth : List Conf → Nat → List Conf
  | [], _ => []
  | _ :: xs, 0 => xs
  | x :: xs, i + 1 => x :: removeNth xs i

def deliverPath (V : Variant) (p : LivePath) (i : Nat) : LivePath :=
  if V.fixOrder then
    (match p.mailbox.getLast? with
     | some c => { p with conf := c, mailbox := [] }
     | none => p)
  else
    match p.mailbox[i]? with
    | some c => { p with conf := c, mailbox := removeNth p.mailbox i }
    | none => p

def updPath (paths : List LivePath) (n : Bytes) (f : LivePath → LivePath) : List LivePath :=
  paths.map fun p => if p.name == n then f p else p

/-! ### clients -/

/-- `path.shouldClose` (no on-demand sources in the model) -/
def shouldClose (p : LivePath) : Bool := p.conf.regex && !p.pub && p.readers.isEmpty

def closeIfIdle (paths : List LivePath) (n : Bytes) : List LivePath :=
  paths.filter fun p => !(p.name == n && shouldClose p)

inductive Ev where
  | reload (new : List Conf)
  | deliver (n : Bytes) (i : Nat)
  | pub (n : Bytes)
  | unpub (n : Bytes)
  | read (n : Bytes) (id : Nat)
  | unread (id : Nat)
deriving Repr, DecidableEq

/-- create the path for a request if the name resolves and no path exists (`createPath`) -/
def ensurePath (orc : Oracle) (pm : PM) (n : Bytes) : Option PM :=
  match resolve orc pm.confs n with
  | none => none
  | some (c, m) =>
    if hasPath pm.paths n then some pm
    else some { pm with paths := pm.paths ++ [mkPath c n m pm.nextInc], nextInc := pm.nextInc + 1 }

inductive Status where
  | ok | err | already | nostream | none | busy
deriving Repr, DecidableEq

def stepS (V : Variant) (orc : Oracle) (pm : PM) : Ev → PM × Status
  | .reload new => (reload V orc pm new, .ok)
  | .deliver n i => ({ pm with paths := updPath pm.paths n (fun p => deliverPath V p i) }, .ok)
  | .pub n =>
    match findPath pm.paths n with
    | some p =>
      if p.pub then (pm, .already)
      else (match resolve orc pm.confs n with
        | none => (pm, .err)
        | some _ => ({ pm with paths := updPath pm.paths n (fun p => { p with pub := true }) }, .ok))
    | none =>
      match ensurePath orc pm n with
      | none => (pm, .err)
      | some pm' => ({ pm' with paths := updPath pm'.paths n (fun p => { p with pub := true }) }, .ok)
  | .unpub n =>
    match findPath pm.paths n with
    | some p =>
      if p.pub then
        let ps := updPath pm.paths n (fun p => { p with pub := false, readers := [] })
        ({ pm with paths := closeIfIdle ps n }, .ok)
      else (pm, .none)
    | none => (pm, .none)
  | .read n id =>
    if pm.paths.any (fun p => p.readers.contains id) then (pm, .busy) else
    match ensurePath orc pm n with
    | none => (pm, .err)
    | some pm' =>
      match findPath pm'.paths n with
      | some p =>
        if p.pub then
          ({ pm' with paths := updPath pm'.paths n (fun p =>
              if p.readers.contains id then p else { p with readers := p.readers ++ [id] }) }, .ok)
        else ({ pm' with paths := closeIfIdle pm'.paths n }, .nostream)
      | none => (pm', .err)
  | .unread id =>
    match pm.paths.find? (fun p => p.readers.contains id) with
    | some p =>
      let ps := updPath pm.paths p.name (fun p => { p with readers := p.readers.filter (· != id) })
      ({ pm with paths := closeIfIdle ps p.name }, .ok)
    | none => (pm, .none)

def step (V : Variant) (orc : Oracle) (pm : PM) (ev : Ev) : PM := (stepS V orc pm ev).1

/-- drain every mailbox in order (what the harness observes after quiescence) -/
def drainPath (p : LivePath) : LivePath := { p with conf := p.effective, mailbox := [] }

def drain (pm : PM) : PM := { pm with paths := pm.paths.map drainPath }

/-! ### executable spec (property wording), evaluated on the implementation's answer

`D` = the live paths the implementation reports after the op (mailboxes empty), `prev` = the live
paths before the op, `confs` = the configuration set in force after the op. -/

inductive Verdict where
  | ok
  | failStatic        -- a static configuration has no live path
  | failResolve       -- a live path's name does not resolve to a configuration
  | failConf          -- a live path does not run with the configuration resolution selects
  | failGroups        -- … nor with the capture groups resolution selects
  | failKeep          -- change limited to hot-reloadable fields, but the path or its clients were not kept
  | failRecreate      -- another change, but the path object survived
  | knownStaleGroups  -- F-C15b
  | knownOrder        -- F-C15a
deriving Repr, DecidableEq

def condStatic (confs : List Conf) (exS : List Bytes) (D : List LivePath) : Bool :=
  confs.all fun c => c.regex || hasPath D c.name || exS.contains c.name

def condResolve (orc : Oracle) (confs : List Conf) (D : List LivePath) : Bool :=
  D.all fun p => (resolve orc confs p.name).isSome

def condConf (orc : Oracle) (confs : List Conf) (exO : List Bytes) (D : List LivePath) : Bool :=
  D.all fun p => exO.contains p.name || match resolve orc confs p.name with
    | some (c, _) => p.conf == c && p.confName == c.name
    | none => false

def condGroups (orc : Oracle) (confs : List Conf) (exG : List Bytes) (D : List LivePath) : Bool :=
  D.all fun p => exG.contains p.name || match resolve orc confs p.name with
    | some (_, m) => p.groups == groupsOf m
    | none => false

/-- the clauses about the state alone.  `exG` / `exO` = path objects (by name) whose capture groups /
configuration are excused because they lie in a known-finding class, `exS` = static configurations
whose missing path is excused (all empty = the property). -/
def specState (orc : Oracle) (confs : List Conf) (exG exO : List Bytes) (D : List LivePath)
    (exS : List Bytes := []) : Verdict :=
  if !condStatic confs exS D then .failStatic
  else if !condResolve orc confs D then .failResolve
  else if !condConf orc confs exO D then .failConf
  else if !condGroups orc confs exG D then .failGroups
  else .ok

/-- the clauses about one reload: kept / recreated, per path that was live before -/
def specTransition (orc : Oracle) (prev : List LivePath) (confs : List Conf) (exO : List Bytes)
    (D : List LivePath) : Verdict :=
  if !(prev.all fun p => exO.contains p.name ||
      match resolve orc confs p.name with
      | some (nc, _) =>
        -- change limited to hot-reloadable fields (same configuration, other fields equal): kept with clients
        !(nc.name == p.confName && nc.cold == p.conf.cold) ||
          D.any (fun q => q.name == p.name && q.inc == p.inc && q.pub == p.pub && q.readers == p.readers)
      | none => true) then .failKeep
  else if !(prev.all fun p => exO.contains p.name ||
      match resolve orc confs p.name with
      | some (nc, _) => nc.cold == p.conf.cold || !(D.any fun q => q.inc == p.inc)
      | none => !(D.any fun q => q.inc == p.inc)) then .failRecreate
  else .ok

/-- F-C15b class: path objects (named) that were live before this reload under ANOTHER configuration
name and were kept (hot migration); their capture groups are those of the old configuration for the rest
of the object's life. -/
def migrated (orc : Oracle) (prev : List LivePath) (confs : List Conf) (D : List LivePath) : List Bytes :=
  (D.filter fun p => match resolve orc confs p.name with
    | some (c, _) => prev.any (fun q => q.inc == p.inc && q.name == p.name && q.confName != c.name)
    | none => false).map (·.name)

/-- F-C15a class: kept path objects to which BOTH reloads of a double reload sent a hot reload
(`pending` = the model's paths before any delivery) and that run with an earlier pending configuration. -/
def misordered (orc : Oracle) (pending : List LivePath) (confs : List Conf) (D : List LivePath) : List Bytes :=
  (D.filter fun p => match resolve orc confs p.name with
    | some (c, _) =>
      p.confName == c.name && p.conf != c &&
        pending.any (fun q => q.name == p.name && q.mailbox.length ≥ 2 && q.mailbox.dropLast.contains p.conf)
    | none => false).map (·.name)

/-- the named path is still the same object as before the op -/
def sameObject (prev D : List LivePath) (n : Bytes) : Bool :=
  D.any fun p => p.name == n && prev.any fun q => q.name == n && q.inc == p.inc

/-- … and still runs with the same configuration -/
def sameObjectConf (prev D : List LivePath) (n : Bytes) : Bool :=
  D.any fun p => p.name == n && prev.any fun q => q.name == n && q.inc == p.inc && q.conf == p.conf

def Verdict.toStr : Verdict → String
  | .ok => "ok"
  | .failStatic => "FAIL a static path configuration has no live path"
  | .failResolve => "FAIL a live path's name does not resolve to a configuration"
  | .failConf => "FAIL a live path does not run with the configuration that resolution selects for its name"
  | .failGroups => "FAIL a live path does not run with the capture groups that resolution selects for its name"
  | .failKeep => "FAIL a change limited to hot-reloadable fields did not keep the path and its clients"
  | .failRecreate => "FAIL a change outside the hot-reloadable fields (or loss of the configuration) left the path object alive"
  | .knownStaleGroups => "KNOWN staleGroupsOnMigration a path that migrates to another configuration by hot reload keeps the capture groups of its old configuration"
  | .knownOrder => "KNOWN reloadDeliveryOrder two reloads in quick succession reached a path in the wrong order; it keeps the older configuration"

end MtxVerif.C15
