/-
C42 — placeholder substitution in static-source URLs and forward destinations
(internal/staticsources/handler.go `resolveSource`, internal/forward/dest_handler.go `resolveDest`).

What the code does (since /repo 8657437): it builds ONE `strings.NewReplacer` from the pairs
  resolveSource: `$G<i>` → matches[i] for i = len(matches)-1 … 1 (descending), then `$MTX_QUERY` → query;
  resolveDest:   `$MTX_PATH` → path name, then `$G<i>` → matches[i] for i = len(matches)-1 … 1
and calls `Replace` once.

`strings.Replacer.Replace` (generic algorithm; third-party, trusted): one left-to-right pass; at every
position the FIRST pair of the argument list whose old string matches there is replaced by its value
and the scan continues after it; inserted values are never looked at.  That is `sim` below, and the
priority list is the argument order — so where `$G12` and `$G1` both match, the longer one wins.
`strconv.FormatInt(i, 10)` is `dec`.  (The code before 8657437 made a sequence of `strings.ReplaceAll`
calls, which rescanned inserted values; the witnesses of that defect stay in the harness' fixed cases.)
-/
import MtxVerif.Base.DriverLib

namespace MtxVerif.C42

def DOLLAR : UInt8 := 36

/-- placeholder list: (text to find, value), in priority order -/
abbrev Phs := List (Bytes × Bytes)

/-- first placeholder whose text is a prefix of `s` -/
def firstMatch : Phs → Bytes → Option (Bytes × Bytes)
  | [], _ => none
  | p :: ps, s => if p.1.isPrefixOf s then some p else firstMatch ps s

/-- one left-to-right pass; `skip` = bytes of the placeholder just matched that are still to be passed over -/
def simGo (phs : Phs) : Nat → Bytes → Bytes
  | _, [] => []
  | k + 1, _ :: r => simGo phs k r
  | 0, c :: r =>
    match firstMatch phs (c :: r) with
    | some p => p.2 ++ simGo phs (p.1.length - 1) r
    | none => c :: simGo phs 0 r

/-- `strings.NewReplacer(pairs…).Replace(s)` -/
def sim (phs : Phs) (s : Bytes) : Bytes := simGo phs 0 s

/-- `strconv.FormatInt(n, 10)` for `n ≥ 0` -/
def decGo : Nat → Nat → Bytes
  | 0, _ => []
  | f + 1, n => if n < 10 then [UInt8.ofNat (48 + n)] else decGo f (n / 10) ++ [UInt8.ofNat (48 + n % 10)]

def dec (n : Nat) : Bytes := decGo (n + 1) n

/-- `"$G" + strconv.FormatInt(i, 10)` -/
def phG (i : Nat) : Bytes := DOLLAR :: 71 :: dec i

def MTX_PATH : Bytes := [36, 77, 84, 88, 95, 80, 65, 84, 72]          -- $MTX_PATH
def MTX_QUERY : Bytes := [36, 77, 84, 88, 95, 81, 85, 69, 82, 89]     -- $MTX_QUERY

/-- `for i := len(matches) - 1; i >= 1; i-- { oldnew = append(oldnew, "$G"+i, matches[i]) }` -/
def groupPhs (ms : List Bytes) : Phs :=
  (List.range (ms.length - 1)).reverse.map fun j => (phG (j + 1), ms.getD (j + 1) [])

def sourcePhs (ms : List Bytes) (query : Bytes) : Phs := groupPhs ms ++ [(MTX_QUERY, query)]
def destPhs (pathName : Bytes) (ms : List Bytes) : Phs := (MTX_PATH, pathName) :: groupPhs ms

/-- `resolveSource(s, matches, query)` -/
def resolveSource (s : Bytes) (ms : List Bytes) (query : Bytes) : Bytes :=
  sim (sourcePhs ms query) s

/-- `resolveDest(dest, pathName, matches)` -/
def resolveDest (dest pathName : Bytes) (ms : List Bytes) : Bytes :=
  sim (destPhs pathName ms) dest

/-! ### the glue: `staticsources.Handler` (Start(query) … Stop cycles of an on-demand source)

`Start(onDemand, query)` stores the client's query; `run()` resolves `s.Conf.Source` with it every time the
source instance is (re)created — at the start of the activation and after each failed run (`retryPause`);
a configuration reload replaces `s.Conf` (used from the next re-creation on, and by later activations).
Nothing else is carried from one activation to the next. -/

/-- one activation: the client's query, how many runs fail before the stable one, and an optional new
source template delivered by a reload after the first run -/
structure Act where
  query : Bytes
  retries : Nat
  reload : Option Bytes

/-- the template in force after an activation -/
def tmplAfterAct (t : Bytes) (a : Act) : Bytes := a.reload.getD t

/-- `ResolvedSource` handed to the source instance at each of its runs during one activation -/
def actRuns (t : Bytes) (ms : List Bytes) (a : Act) : List Bytes :=
  resolveSource t ms a.query :: List.replicate a.retries (resolveSource (tmplAfterAct t a) ms a.query)

/-- a whole history on one Handler -/
def histRuns (t : Bytes) (ms : List Bytes) : List Act → List (List Bytes)
  | [] => []
  | a :: r => actRuns t ms a :: histRuns (tmplAfterAct t a) ms r

def tmplAfter (t : Bytes) : List Act → Bytes
  | [] => t
  | a :: r => tmplAfter (tmplAfterAct t a) r

end MtxVerif.C42
