/-
C42 — placeholder substitution in static-source URLs and forward destinations
(internal/staticsources/handler.go `resolveSource`, internal/forward/dest_handler.go `resolveDest`).

What the code does: a SEQUENCE of `strings.ReplaceAll` calls —
  resolveSource: `$G<i>` for i = len(matches)-1 … 1 (descending), then `$MTX_QUERY`;
  resolveDest:   `$MTX_PATH`, then `$G<i>` for i = len(matches)-1 … 1.
Each call rescans the whole intermediate string, including what earlier calls inserted.

`strings.ReplaceAll(s, old, new)` for a non-empty `old` (leftmost, non-overlapping occurrences) is
modelled as the one-placeholder case of `simGo`; `strconv.FormatInt(i, 10)` as `dec`.

What the property asks for (spec side): ONE left-to-right pass in which, at every position, the
first placeholder of the priority list that matches there is replaced by its value and the scan
continues after it — inserted values are never looked at (`sim`).  The priority list is the order
of the calls, so at a position where `$G12` and `$G1` both match the longer one wins.
-/
import MtxVerif.Base.DriverLib

namespace MtxVerif.C42

def DOLLAR : UInt8 := 36

/-- placeholder list: (text to find, value), in priority order -/
abbrev Phs := List (Bytes × Bytes)

/-- first placeholder whose text is a prefix of `s` -/
def firstMatch : Phs → Bytes → Option (Bytes × Bytes)
  | [], _ => none
  | p :: ps, s => if p.1.isPrefixOf s then some p else firstMatch ps s

/-- one left-to-right pass; `skip` = bytes of the placeholder just matched that are still to be passed over -/
def simGo (phs : Phs) : Nat → Bytes → Bytes
  | _, [] => []
  | k + 1, _ :: r => simGo phs k r
  | 0, c :: r =>
    match firstMatch phs (c :: r) with
    | some p => p.2 ++ simGo phs (p.1.length - 1) r
    | none => c :: simGo phs 0 r

/-- simultaneous substitution -/
def sim (phs : Phs) (s : Bytes) : Bytes := simGo phs 0 s

/-- `strings.ReplaceAll(s, old, new)`, `old` non-empty -/
def replaceAll (old new s : Bytes) : Bytes := simGo [(old, new)] 0 s

/-- the sequence of `ReplaceAll` calls -/
def seq (phs : Phs) (s : Bytes) : Bytes := phs.foldl (fun acc p => replaceAll p.1 p.2 acc) s

/-- `strconv.FormatInt(n, 10)` for `n ≥ 0` -/
def decGo : Nat → Nat → Bytes
  | 0, _ => []
  | f + 1, n => if n < 10 then [UInt8.ofNat (48 + n)] else decGo f (n / 10) ++ [UInt8.ofNat (48 + n % 10)]

def dec (n : Nat) : Bytes := decGo (n + 1) n

/-- `"$G" + strconv.FormatInt(i, 10)` -/
def phG (i : Nat) : Bytes := DOLLAR :: 71 :: dec i

def MTX_PATH : Bytes := [36, 77, 84, 88, 95, 80, 65, 84, 72]          -- $MTX_PATH
def MTX_QUERY : Bytes := [36, 77, 84, 88, 95, 81, 85, 69, 82, 89]     -- $MTX_QUERY

/-- `for i := len(matches) - 1; i >= 1; i-- { … "$G"+i → matches[i] }` as a list of calls -/
def groupPhs (ms : List Bytes) : Phs :=
  (List.range (ms.length - 1)).reverse.map fun j => (phG (j + 1), ms.getD (j + 1) [])

def sourcePhs (ms : List Bytes) (query : Bytes) : Phs := groupPhs ms ++ [(MTX_QUERY, query)]
def destPhs (pathName : Bytes) (ms : List Bytes) : Phs := (MTX_PATH, pathName) :: groupPhs ms

/-- `resolveSource(s, matches, query)` -/
def resolveSource (s : Bytes) (ms : List Bytes) (query : Bytes) : Bytes :=
  replaceAll MTX_QUERY query (seq (groupPhs ms) s)

/-- `resolveDest(dest, pathName, matches)` -/
def resolveDest (dest pathName : Bytes) (ms : List Bytes) : Bytes :=
  seq (groupPhs ms) (replaceAll MTX_PATH pathName dest)

/-- The decidable class of the finding: inputs on which the sequence of `ReplaceAll` calls differs
from the single simultaneous pass (a replacement completes or creates a placeholder: `$G$G2` with
group 2 = "1"; `$G1$G13` with group 13 = "2"; a `$…` inside a value that is scanned again). -/
def spliceTemplate (phs : Phs) (s : Bytes) : Bool := seq phs s != sim phs s

end MtxVerif.C42
