/-
C39 — forward destinations reconcile with configuration
(internal/forward/manager.go, internal/forward/dest_handler.go).

State-machine model of `forward.Manager`: `Initialize`, `Start`, `Stop`, `ReloadConf`, and of the
part of `DestHandler` that decides whether a forwarder goroutine (`DestHandler.run`) is alive:
`initialize` / `start` / `stop`.

What a handler is in the model
* `id`      — the handler's UUID (fresh per `createDestHandler`).  The numbering is ours: the handler
              created for list index `i` by an operation gets `nextId + i`, and the operation advances
              `nextId` by the length of the list it processed (the harness numbers UUIDs the same way).
* `armed`   — `ctxCancel != nil`, i.e. `start` has been called at least once.  `stop` on an unarmed
              handler calls a nil func: Go panics — the model has an explicit `dead` outcome for it.
* `running` — the goroutine that owns the *current* `done` channel is alive.
* `epoch`   — identity of the current `done` channel (0 = nil): a new one per `start`; numbered
              `nextEpoch + i` like ids.  "kept running untouched" = same id, same epoch, still running.
* `strm`    — the stream the current goroutine was started with (ghost: not observable in the code).

`start` on a handler that is already running overwrites `ctx`/`done`: the old goroutine can never be
cancelled any more — the model counts it in `leaked`.

Everything that makes Go panic (`destProtocol` on an unknown scheme, `stop` on an unarmed handler)
turns the model state `dead` (terminal, explicit); nothing is silently totalised.
-/
import MtxVerif.Base.DriverLib

namespace MtxVerif.C39

/-- `conf.ForwardDest` (compared with `==` in `ReloadConf`: all three strings). -/
structure Conf where
  dest : String
  fp : String
  tok : String
deriving DecidableEq, Repr

/-- `destProtocol` does not panic. -/
def validScheme (c : Conf) : Bool :=
  c.dest.startsWith "rtmp://" || c.dest.startsWith "rtmps://" || c.dest.startsWith "rtsp://" ||
  c.dest.startsWith "rtsps://" || c.dest.startsWith "srt://" || c.dest.startsWith "whip://" ||
  c.dest.startsWith "whips://"

structure Handler where
  id : Nat
  pos : Nat
  conf : Conf
  armed : Bool := false
  running : Bool := false
  epoch : Nat := 0
  strm : Nat := 0
deriving DecidableEq, Repr

structure St where
  handlers : List Handler := []
  started : Bool := false
  /-- `m.stream` (0 = nil); `Stop` does not clear it. -/
  stream : Nat := 0
  nextId : Nat := 0
  nextEpoch : Nat := 1
  /-- goroutines whose `ctx`/`done` were overwritten by a second `start` (never cancellable). -/
  leaked : Nat := 0
  /-- ghost: every handler that was dropped from `destHandlers` by a reload. -/
  retired : List Handler := []
  /-- ghost: the configured list (argument of the last `Initialize` / `ReloadConf`). -/
  cfg : List Conf := []
  /-- a Go panic happened (terminal). -/
  dead : Bool := false
deriving Repr

inductive Op where
  | start (strm : Nat)
  | stop
  | reload (f : List Conf)
deriving Repr

/-- `createDestHandler(pos, conf)` + `initialize` (scheme already known to be valid). -/
def mkHandler (id pos : Nat) (c : Conf) : Handler := { id := id, pos := pos, conf := c }

/-- `DestHandler.start(strm)`: new ctx, new done channel, new goroutine. -/
def hstart (strm epoch : Nat) (h : Handler) : Handler :=
  { h with armed := true, running := true, epoch := epoch, strm := strm }

/-- `DestHandler.stop()` on an armed handler: cancel, wait for `done` (no-op if already stopped). -/
def hstop (h : Handler) : Handler := { h with running := false }

/-- `Initialize`: handler `i` (0-based) has Pos `i+1`. -/
def initHandlers (nid : Nat) : Nat → List Conf → List Handler
  | _, [] => []
  | i, c :: cs => mkHandler (nid + i) (i + 1) c :: initHandlers nid (i + 1) cs

def initSt (f : List Conf) : St :=
  if f.all validScheme then
    { handlers := initHandlers 0 0 f, nextId := f.length, cfg := f }
  else { dead := true, cfg := f }

/-- `Start(strm)`: handler at index `i` is started with epoch `nep + i`. -/
def startAll (strm nep : Nat) : Nat → List Handler → List Handler
  | _, [] => []
  | i, h :: hs => hstart strm (nep + i) h :: startAll strm nep (i + 1) hs

def countRunning (l : List Handler) : Nat := (l.filter (·.running)).length

/-- the handler `ReloadConf` creates for index `i` (and starts, if the manager is started). -/
def newHandler (started : Bool) (strm nid nep i : Nat) (c : Conf) : Handler :=
  let h := mkHandler (nid + i) (i + 1) c
  if started then hstart strm (nep + i) h else h

/-- The first loop and the tail loop of `ReloadConf`: `(newHandlers, toClose)`;
`toClose` = replaced handlers in index order, then the removed tail. -/
def reloadAux (started : Bool) (strm nid nep : Nat) :
    Nat → List Handler → List Conf → List Handler × List Handler
  | _, old, [] => ([], old)
  | i, [], c :: cs =>
    let r := reloadAux started strm nid nep (i + 1) [] cs
    (newHandler started strm nid nep i c :: r.1, r.2)
  | i, o :: os, c :: cs =>
    let r := reloadAux started strm nid nep (i + 1) os cs
    if o.conf = c then (o :: r.1, r.2)
    else (newHandler started strm nid nep i c :: r.1, o :: r.2)

/-- configurations for which `ReloadConf` calls `createDestHandler`. -/
def created : List Handler → List Conf → List Conf
  | _, [] => []
  | [], c :: cs => c :: created [] cs
  | o :: os, c :: cs => if o.conf = c then created os cs else c :: created os cs

def step (s : St) : Op → St
  | .start strm =>
    if s.dead then s else
    { s with started := true, stream := strm,
             handlers := startAll strm s.nextEpoch 0 s.handlers,
             nextEpoch := s.nextEpoch + s.handlers.length,
             leaked := s.leaked + countRunning s.handlers }
  | .stop =>
    if s.dead then s else
    if s.handlers.all (·.armed) then
      { s with started := false, handlers := s.handlers.map hstop }
    else { s with started := false, dead := true }     -- nil `ctxCancel` called: Go panics
  | .reload f =>
    if s.dead then s else
    if !(created s.handlers f).all validScheme then { s with dead := true }   -- `destProtocol` panics
    else
      let r := reloadAux s.started s.stream s.nextId s.nextEpoch 0 s.handlers f
      let s1 : St := { s with handlers := r.1, cfg := f,
                              nextId := s.nextId + f.length,
                              nextEpoch := if s.started then s.nextEpoch + f.length else s.nextEpoch }
      if s.started then
        if r.2.all (·.armed) then { s1 with retired := s.retired ++ r.2.map hstop }
        else { s1 with retired := s.retired ++ r.2, dead := true }
      else { s1 with retired := s.retired ++ r.2 }

def run : St → List Op → St
  | s, [] => s
  | s, op :: ops => run (step s op) ops

/-- number of live `DestHandler.run` goroutines belonging to this manager. -/
def goroutines (s : St) : Nat := s.leaked + countRunning s.handlers + countRunning s.retired

/-- The environment contract of `path.go`: `Start` (setAvailable) and `Stop` (setNotAvailable)
alternate, and configurations have passed `conf.ForwardDest.Validate` (known scheme). -/
def wf : Bool → List Op → Bool
  | _, [] => true
  | st, .start _ :: r => !st && wf true r
  | st, .stop :: r => st && wf false r
  | st, .reload f :: r => f.all validScheme && wf st r

/-! ### executable spec, evaluated on the implementation's answers -/

/-- one handler as reported by the harness -/
structure Obs where
  id : Nat
  pos : Nat
  conf : Conf
  live : Bool      -- `done` channel exists and is not closed
  epoch : Nat
  api : Bool       -- `APIItem().State != idle`
deriving Repr

structure ObsSt where
  started : Option Bool    -- `none`: not observable in this tree
  stream : Option Nat
  gor : Nat                -- goroutines in `DestHandler.run` (minus the baseline at reset)
  hs : List Obs
  retired : Nat            -- handlers seen earlier that are no longer listed
  retiredLive : List Nat   -- ids of those whose goroutine is still alive
deriving Repr

structure SpecSt where
  avail : Bool := false          -- the stream is available (per the ops)
  strm : Nat := 0
  cfg : List Conf := []
  prev : List Obs := []          -- handlers reported after the previous op
  seen : List Nat := []          -- every id ever reported
  wfOK : Bool := true            -- the history so far respects the environment contract

def posOK : Nat → List Obs → Bool
  | _, [] => true
  | i, o :: os => o.pos == i + 1 && posOK (i + 1) os

/-- the part of the property that holds in every state -/
def specState (sp : SpecSt) (o : ObsSt) : Option String :=
  if o.hs.map (·.conf) ≠ sp.cfg then some "listed destinations differ from the configured list (or its order)"
  else if !posOK 0 o.hs then some "handler positions are not 1..n"
  else if !(o.hs.map (·.id)).Nodup then some "the same forwarder is listed twice"
  else if o.started.isSome && o.started ≠ some sp.avail then some "started flag differs from stream availability"
  else if sp.avail && !(o.hs.all fun h => h.live && h.api) then
    some "stream available but a configured destination has no running forwarder"
  else if sp.avail && o.gor ≠ o.hs.length then
    some "stream available but the number of forwarder goroutines differs from the number of destinations"
  else if sp.avail && o.stream.isSome && o.stream ≠ some sp.strm then
    some "manager holds a stream other than the available one"
  else if !sp.avail && (o.hs.any fun h => h.live || h.api) then
    some "a forwarder runs while the stream is unavailable"
  else if !sp.avail && o.gor ≠ 0 then some "forwarder goroutines alive while the stream is unavailable"
  else if !o.retiredLive.isEmpty then some "a removed or replaced forwarder was not stopped"
  else none

/-- across a reload: unchanged positions keep id and epoch, the others get a fresh id -/
def specReload (sp : SpecSt) (hs : List Obs) : Option String :=
  let rec go : List Obs → List Obs → Option String
    | _, [] => none
    | [], n :: ns =>
      if sp.seen.contains n.id then some "a new destination reuses an old forwarder" else go [] ns
    | p :: ps, n :: ns =>
      if p.conf = n.conf then
        if p.id ≠ n.id then some "an unchanged destination got a new forwarder"
        else if p.epoch ≠ n.epoch then some "an unchanged destination was restarted"
        else go ps ns
      else if sp.seen.contains n.id then some "a changed destination kept its old forwarder"
      else go ps ns
  go sp.prev hs

def addSeen (seen : List Nat) (hs : List Obs) : List Nat :=
  hs.foldl (fun acc h => if acc.contains h.id then acc else h.id :: acc) seen

end MtxVerif.C39
