/-
C19 — every held request is answered exactly once; on-demand start/stop automaton with timers.
Model: Model/PathSM.lean.  This file: the executable spec evaluated on the IMPLEMENTATION's answers.
-/
import MtxVerif.Model.PathSM

namespace MtxVerif.C19
open MtxVerif.PathSM

structure Spec where
  open_ : List Nat := []          -- requests accepted and not yet answered (per the implementation's answers)
  done : List Nat := []           -- requests answered
  armed : Bool := false           -- a start-timeout timer must be running (start seen, neither ready nor stop since)
  srcOn : Bool := false           -- static handler running (src+ / src-)
  demOn : Bool := false           -- runOnDemand pair open (h+demand / h-demand)
  avail : Bool := false
  closed : Bool := false
  od : Bool := false              -- an on-demand source / runOnDemand is configured (from the reset line)
  redirect : Bool := false
  att : List Nat := []
  reqs : List (Nat × Nat) := []
  err : Option String := none

def Spec.fail (sp : Spec) (m : String) : Spec := if sp.err.isSome then sp else { sp with err := some m }

/-- answer token `q<rid>=<kind>` -/
def parseAns (t : String) : Option (Nat × String) :=
  if t.startsWith "q" then
    match t.splitOn "=" with
    | [q, a] => (q.drop 1).toString.toNat?.map (·, a)
    | _ => none
  else none

def specTok (isTick : Bool) (sp : Spec) (t : String) : Spec :=
  match parseAns t with
  | some (rid, a) =>
    let sp :=
      if sp.done.contains rid then sp.fail s!"request {rid} answered twice"
      else if !sp.open_.contains rid then sp.fail s!"answer for request {rid}, which is not pending"
      else sp
    let sp := { sp with open_ := sp.open_.filter (· != rid), done := rid :: sp.done }
    let isStream := a.startsWith "s" && a != "suberr"
    let sp :=
      if a == "timeout" && !isTick then sp.fail s!"request {rid} answered 'timed out' although no timer expired"
      else if a == "term" && !sp.closed then sp.fail s!"request {rid} answered 'terminated' although the path is not closing"
      else if a == "nil" then sp.fail s!"request {rid} answered with a nil stream"
      else if isStream && !sp.avail then sp.fail s!"request {rid} answered with a stream although none is available"
      else sp
    if isStream then
      match sp.reqs.find? (·.1 == rid) with
      | some (_, r) => if sp.att.contains r then sp else { sp with att := sp.att ++ [r] }
      | none => sp
    else sp
  | none =>
    match Drv.tokNat "rd!" t with
    | some r => { sp with att := sp.att.filter (· != r) }
    | none =>
    if t == "ready" then { sp with avail := true }
    else if t == "notready" then { sp with avail := false }
    else if t == "rmpath" then { sp with closed := true, armed := false }
    else if t == "src+" then
      (if sp.srcOn then sp.fail "static source started while running" else sp) |> fun sp => { sp with srcOn := true }
    else if t == "src-" then
      (if !sp.srcOn then sp.fail "static source stopped while not running" else sp) |> fun sp =>
        { sp with srcOn := false, armed := false }
    else if t == "h+demand" then
      (if sp.demOn then sp.fail "runOnDemand started twice" else sp) |> fun sp => { sp with demOn := true }
    else if t == "h-demand" then
      (if !sp.demOn then sp.fail "runOnUnDemand without runOnDemand" else sp) |> fun sp =>
        { sp with demOn := false, armed := false }
    else if t.startsWith "pub=ok" || t.startsWith "src=ok" then { sp with armed := false }
    else sp

/-- `m` = the MODEL state before the op (only used to decide the class of the known finding) -/
def specOp (sp : Spec) (m : State) (o : Drv.Op) (impl : String) : Spec :=
  let sp := { sp with err := none }
  let toks := Drv.implToks impl
  let isTick := match o with | .tick => true | _ => false
  match o with
  | .reset c => toks.foldl (specTok false)
      { od := c.conf.odStatic || c.conf.odPub, redirect := c.conf.kind == .redirect }
  | _ =>
    let (sp, newRid, onDemandStart) := match o with
      | .ev (.describe rid) => ({ sp with open_ := rid :: sp.open_ }, some rid, true)
      | .ev (.addReader rid r) => ({ sp with open_ := rid :: sp.open_, reqs := (rid, r) :: sp.reqs }, some rid, true)
      | .ev (.removeReader r) => ({ sp with att := sp.att.filter (· != r) }, none, false)
      | _ => (sp, none, false)
    let sp0avail := sp.avail
    let sp0closed := sp.closed
    let startSeen := toks.contains "src+" || toks.contains "h+demand"
    let attBefore := sp.att
    let sp := toks.foldl (specTok isTick) sp
    let sp := if startSeen then { sp with armed := true } else sp
    -- a close timer may only expire while no reader is attached
    let sp :=
      if isTick && (toks.contains "src-" || toks.contains "h-demand") && !toks.any (fun t => t.endsWith "=timeout")
          && !attBefore.isEmpty then
        sp.fail s!"on-demand source stopped by the close timer although readers {attBefore} are attached"
      else sp
    -- start on first demand: with on-demand configured, a request that finds no stream is held and starts
    -- the source / command; it is not turned away (fallback redirect, "no stream available")
    let sp := match newRid with
      | some rid =>
        if sp0avail then sp
        else if sp.od && !sp.redirect && !sp0closed &&
            (toks.contains s!"q{rid}=fallback" || toks.contains s!"q{rid}=nostream") then
          sp.fail s!"request {rid} was turned away although on-demand is configured (it must start the source and wait)"
        else sp
      | none => sp
    -- a request that stays on hold needs the on-demand source / command to be running (start on demand)
    let sp := match newRid with
      | some rid =>
        if onDemandStart && sp.open_.contains rid && !sp.srcOn && !sp.demOn && !sp.closed then
          sp.fail s!"request {rid} is held but neither an on-demand source nor runOnDemand is running"
        else sp
      | none => sp
    -- bounded wait: a held request always has a start-timeout timer running, so once the fake clock has
    -- been run to the next expiry (`tick`) nothing can still be on hold: the start timeout answers every
    -- held request, and a close timer never runs while requests are held.  (Former known finding F-C19
    -- `hold-no-timer`, fixed upstream in 316e99c: the close timer stopped runOnDemand and left them waiting.)
    let sp :=
      if isTick && !sp.open_.isEmpty && !sp.closed then
        if toks.contains "h-demand" || toks.contains "src-" then
          sp.fail s!"regression of F-C19 (hold-no-timer): on-demand stopped by the close timer while requests {sp.open_} are on hold"
        else if impl.startsWith "none" then
          sp.fail s!"regression of F-C19 (hold-no-timer): requests {sp.open_} are on hold but no timer is running"
        else sp.fail s!"a timer expired but requests {sp.open_} are still on hold"
      else sp
    -- when the path has closed nothing may stay unanswered
    if sp.closed && !sp.open_.isEmpty then
      sp.fail s!"path closed but requests {sp.open_} were never answered"
    else sp

/-- `runs` query: answer `runs=<alive> max=<most alive at once since the last query>` for the Run()
invocations of the static source instance: never two at a time, none once the handler is stopped
("on-demand sources … stop after the close delay … and restart on later demand"). -/
def specRuns (sp : Spec) (impl : String) : Spec :=
  let sp := { sp with err := none }
  let toks := Drv.implToks impl
  match toks.findSome? (Drv.tokNat "runs="), toks.findSome? (Drv.tokNat "max=") with
  | some a, some m =>
    if toks.contains "conf=stale" then
      sp.fail "a Run() of the static source was started with a configuration other than the one in force (hot reload lost on restart)"
    else if m > 1 then sp.fail s!"{m} Run() invocations of the static source were alive at the same time"
    else if a > 0 && !sp.srcOn then
      sp.fail s!"the static source handler is stopped but {a} Run() of its instance is still alive"
    else sp
  | _, _ => if toks.contains "runs=na" then sp else sp.fail "runs: unparsable answer"

def Spec.verdict (sp : Spec) : String :=
  match sp.err with
  | some m => "FAIL " ++ m
  | none => "ok"

end MtxVerif.C19
