/-
C30 — retention: what one pass of the record cleaner deletes
(internal/recordcleaner/cleaner.go `doRun / processPath / deleteExpiredSegments`,
internal/recordstore/segment.go `FindAllPathsWithSegments / FindSegments`).

The directory tree is the list `files` of the absolute, lexically clean paths of its regular files
(directories are implicit; `WalkDir` from a missing root finds nothing, like an empty one).
Reused models: C26 (`tokenize`, `substPath`, `decodeV` = `Path.Decode`'s matcher, `decodedStart`),
C06 (`isValidPathName`, `findPathConf`, `commonPath`, `abs`).

Oracles (fields of `Env`): `rx key name` = "the regexp of the conf with this key matches the name",
`cal` = `time.Date` / `time.Unix` (decoded start → instant, µs).  `now`, delays in µs.
One pass:
  1. `allPaths` — names with at least one segment (fixed confs: their own name; regexp confs: every decoded,
     valid, regexp-matching `%path` capture below the conf's common path);
  2. per name: `FindPathConf` (may resolve to another conf than the one that discovered the name), skip
     if `recordDeleteAfter == 0`, `FindSegments(conf, name, nil, now-delay)` — re-validates the name, walks
     the common path of the *substituted* record path, keeps files that decode with `start ≤ end` — remove.
`deleteEmptyDirs` only ever calls `os.Remove` on directories, so it cannot delete a file: not modelled.
-/
import MtxVerif.Model.C06

namespace MtxVerif.C30
open MtxVerif.C26 (tokenize substPath decodeV decodedPath decodedStart Match Start)
open MtxVerif.C06 (isValidPathName findPathConf ConfEntry FindRes commonPath extMp4)

structure Conf where
  key : Bytes
  isRegexp : Bool
  fmt : Bytes          -- recordPath
  deleteAfter : Nat    -- recordDeleteAfter in µs; 0 = keep forever
deriving Repr, DecidableEq

structure Env where
  cwd : Bytes
  anch : Bool          -- Decode variant: regex anchored
  coh : Bool           -- Decode variant: repeated placeholders must agree
  rx : Bytes → Bytes → Bool
  cal : Start → Int
  now : Int

/-- `filepath.WalkDir(root)` reaches the file `p`. -/
def inWalk (root p : Bytes) : Bool := !root.isEmpty && (root ++ [47]).isPrefixOf p

/-- absolute record path with the extension, `%path` replaced by `name`. -/
def recPath (E : Env) (fmt name : Bytes) : Bytes := C06.abs E.cwd (substPath fmt name ++ extMp4)

/-- absolute record path with the extension, `%path` kept (regexp confs). -/
def recPathRx (E : Env) (fmt : Bytes) : Bytes := C06.abs E.cwd (fmt ++ extMp4)

/-- the walk callback: a file below the common path of `rp` that `Decode(rp, file)` recognises. -/
def decodeAt (E : Env) (rp f : Bytes) : Option Match :=
  if inWalk (commonPath rp) f then decodeV E.anch E.coh (tokenize rp) f else none

/-- `fixedPathHasSegments` -/
def hasSegments (E : Env) (files : List Bytes) (c : Conf) : Bool :=
  files.any fun f => (decodeAt E (recPath E c.fmt c.key) f).isSome

/-- `regexpPathFindPathsWithSegments` -/
def rxNames (E : Env) (files : List Bytes) (c : Conf) : List Bytes :=
  files.filterMap fun f =>
    match decodeAt E (recPathRx E c.fmt) f with
    | some m =>
      let p := decodedPath m.caps
      if (isValidPathName p).isNone && E.rx c.key p then some p else none
    | none => none

/-- `FindAllPathsWithSegments` (as a list; the code sorts and de-duplicates, which does not matter for what
is deleted). -/
def allPaths (E : Env) (files : List Bytes) (confs : List Conf) : List Bytes :=
  confs.flatMap fun c =>
    if c.isRegexp then rxNames E files c
    else if hasSegments E files c then [c.key] else []

def entries (E : Env) (confs : List Conf) (name : Bytes) : List ConfEntry :=
  confs.map fun c => { key := c.key, isRegexp := c.isRegexp, hit := E.rx c.key name }

/-- `conf.FindPathConf(c.PathConfs, pathName)` -/
def confOf (E : Env) (confs : List Conf) (name : Bytes) : Option Conf :=
  match findPathConf (entries E confs name) name with
  | .found k => confs.find? (·.key == k)
  | _ => none

/-- `FindSegments(conf, name, nil, &end)` keeps `f`. -/
def expired (E : Env) (c : Conf) (name f : Bytes) : Bool :=
  match decodeAt E (recPath E c.fmt name) f with
  | some m => decide (E.cal (decodedStart m.caps) ≤ E.now - (c.deleteAfter : Int))
  | none => false

/-- `processPath` -/
def deletedFor (E : Env) (files : List Bytes) (confs : List Conf) (name : Bytes) : List Bytes :=
  match confOf E confs name with
  | some c =>
    if c.deleteAfter = 0 then []
    else if (isValidPathName name).isSome then []
    else files.filter (expired E c name)
  | none => []

/-- files removed by one `doRun`. -/
def deleted (E : Env) (files : List Bytes) (confs : List Conf) : List Bytes :=
  let dels := (allPaths E files confs).flatMap (deletedFor E files confs)
  files.filter fun f => dels.contains f

def remaining (E : Env) (files : List Bytes) (confs : List Conf) : List Bytes :=
  let d := deleted E files confs
  files.filter fun f => !d.contains f

/-! ### the run loop: which configuration does a pass use? -/

/-- `Cleaner.run`: `ReloadPathConfs` hands a configuration to the loop (the call blocks until the loop has
taken it, so none is lost and they arrive in call order); a pass uses the loop's current one. -/
def inForce (initial : List Conf) (delivered : List (List Conf)) : List Conf :=
  delivered.foldl (fun _ c => c) initial

end MtxVerif.C30
