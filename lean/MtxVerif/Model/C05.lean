/-
C05 — CORS origin matching (internal/protocols/httpp/handler_origin.go, `isOriginAllowed`).

`url.Parse` is an oracle: each URL reaches the model as (parsed ok, scheme, host).  Everything after
parsing is modelled: default-port rewriting (`net.JoinHostPort`, `URL.Port`), the exact-match test,
the wildcard pattern and its matching, the `*` fallback.

The wildcard matcher models the pattern the code builds from the allowed host: the host is first
regexp-quoted, then `*.` becomes `(.+\.)?` and every remaining `*` becomes `.*`; the match is anchored.
(On the pinned tree the second replacement also hit the `*` inside the first one's output, giving
`(..*\.)?` — the same language as `(.+\.)?`.)
(Hosts containing a newline are outside the model: `.` does not match `\n` in Go regexps; url.Parse
rejects such hosts anyway.)
-/
import MtxVerif.Base.DriverLib

namespace MtxVerif.C05

inductive Tok where
  | lit (c : UInt8)
  | star            -- `.*`
  | optSub          -- `(.+\.)?`
deriving Repr, DecidableEq

/-- tokens of the pattern built by the code from an allowed host -/
def tokenize : Bytes → List Tok
  | [] => []
  | [c] => if c = 42 then [.star] else [.lit c]
  | c :: d :: rest =>
    if c = 42 then
      if d = 46 then .optSub :: tokenize rest else .star :: tokenize (d :: rest)
    else .lit c :: tokenize (d :: rest)

/-- tokens under the property's reading: `*` = any characters, every other character literal -/
def tokenizeLit : Bytes → List Tok
  | [] => []
  | c :: rest => (if c = 42 then .star else .lit c) :: tokenizeLit rest

/-- the suffixes of `s` that follow a `.` -/
def afterDots : Bytes → List Bytes
  | [] => []
  | c :: rest => if c = 46 then rest :: afterDots rest else afterDots rest

/-- the suffixes of `s` that follow a `.` which is not the first byte (`.+\.` needs one byte before the dot) -/
def afterDots1 : Bytes → List Bytes
  | [] => []
  | _ :: rest => afterDots rest

def tails : Bytes → List Bytes
  | [] => [[]]
  | c :: rest => (c :: rest) :: tails rest

/-- anchored match of a token pattern -/
def matchT : List Tok → Bytes → Bool
  | [], s => s.isEmpty
  | .lit c :: ts, s =>
    match s with
    | [] => false
    | x :: s' => c == x && matchT ts s'
  | .star :: ts, s => (tails s).any (fun t => matchT ts t)
  | .optSub :: ts, s => matchT ts s || (afterDots1 s).any (fun t => matchT ts t)

structure PURL where
  ok : Bool
  scheme : Bytes
  host : Bytes
deriving Repr

def isDigits (s : Bytes) : Bool := s.all (fun c => 48 ≤ c && c ≤ 57)

def lastColon (s : Bytes) : Option Nat :=
  let rec go (i : Nat) (best : Option Nat) : Bytes → Option Nat
    | [] => best
    | c :: rest => go (i + 1) (if c = 58 then some i else best) rest
  go 0 none s

/-- `URL.Port()` -/
def portOf (host : Bytes) : Bytes :=
  match lastColon host with
  | none => []
  | some i => let p := host.drop (i + 1); if isDigits p then p else []

/-- `net.JoinHostPort` -/
def joinHostPort (host port : Bytes) : Bytes :=
  if host.contains 58 then [91] ++ host ++ [93, 58] ++ port else host ++ [58] ++ port

def http : Bytes := [104, 116, 116, 112]
def https : Bytes := [104, 116, 116, 112, 115]

/-- the default-port rewriting applied to origin and allowed URLs -/
def withDefaultPort (u : PURL) : Bytes :=
  if portOf u.host = [] then
    if u.scheme = http then joinHostPort u.host [56, 48]
    else if u.scheme = https then joinHostPort u.host [52, 52, 51]
    else u.host
  else u.host

inductive Res where
  | none | star | echo
deriving Repr, DecidableEq

def exactMatch (o a : PURL) : Bool :=
  a.scheme == o.scheme && withDefaultPort a == withDefaultPort o
    && portOf (withDefaultPort a) == portOf (withDefaultPort o)

def wildMatch (o a : PURL) : Bool :=
  (withDefaultPort a).contains 42 && a.scheme == o.scheme
    && matchT (tokenize (withDefaultPort a)) (withDefaultPort o)

def starBytes : Bytes := [42]

/-- `isOriginAllowed`.  `origin` raw bytes (only emptiness matters), `o` its parse, `allow` raw allowed
entries with their parses. -/
def isOriginAllowed (origin : Bytes) (o : PURL) (allow : List (Bytes × PURL)) : Res :=
  if allow.isEmpty then .none
  else
    let fallback := if allow.any (fun a => a.1 == starBytes) then Res.star else Res.none
    if origin.isEmpty then fallback
    else if !o.ok || o.scheme.isEmpty then .none
    else if allow.any (fun a => a.2.ok && (exactMatch o a.2 || wildMatch o a.2)) then .echo
    else fallback

/-! ### executable spec (property wording), evaluated on the implementation's answer -/

/-- literal wildcard reading: same scheme, `host:port` in the language of the allowed `host:port`
with `*` = any characters and every other character literal -/
def litWild (o a : PURL) : Bool :=
  (withDefaultPort a).contains 42 && a.scheme == o.scheme
    && matchT (tokenizeLit (withDefaultPort a)) (withDefaultPort o)

def specExact (o a : PURL) : Bool :=
  a.scheme == o.scheme && withDefaultPort a == withDefaultPort o

inductive Verdict where
  | ok
  | knownOptSub      -- echoed only thanks to `(.*\.)?` matching the empty string
  | failEcho
  | failEchoNoScheme
  | failEchoUnparsable
  | failStar
deriving Repr, DecidableEq

/-- verdict for an answer (the implementation's, in the driver; the model's, in the theorems) -/
def spec (origin : Bytes) (o : PURL) (allow : List (Bytes × PURL)) (r : Res) : Verdict :=
  match r with
  | .echo =>
    if origin.isEmpty || !o.ok then .failEchoUnparsable
    -- an Origin without a scheme ("null", a bare host name) has no scheme/host/port to share with an allowed origin:
    -- echoing it is justified only when that very string is configured
    else if o.scheme.isEmpty && !(allow.any (fun a => a.1 == origin)) then .failEchoNoScheme
    else if allow.any (fun a => a.2.ok && (specExact o a.2 || litWild o a.2)) then .ok
    else if allow.any (fun a => a.2.ok && wildMatch o a.2) then .knownOptSub
    else .failEcho
  | .star => if allow.any (fun a => a.1 == starBytes) then .ok else .failStar
  | .none => .ok

def Verdict.toStr : Verdict → String
  | .ok => "ok"
  | .knownOptSub => "KNOWN optionalSubdomainDot '*.' in an allowed origin also matches the empty string (the literal dot is dropped)"
  | .failEcho => "FAIL origin echoed although no allowed origin has the same scheme, host and port and no allowed wildcard of the same scheme matches"
  | .failEchoNoScheme => "FAIL echoed an origin that has no scheme (e.g. null or a bare host name) and is not itself configured"
  | .failEchoUnparsable => "FAIL echoed an origin that is empty or unparsable"
  | .failStar => "FAIL '*' returned although '*' is not an allowed origin"

end MtxVerif.C05
