/-
C22 — remuxing preserves media and injects current parameters at keyframes
(internal/stream/unit_remuxer.go, format_updater.go, composed as in
sub_stream_format.go `writeUnitInner`: `formatUpdater(outFormat, payload)` then
`payload = unitRemuxer(outFormat, payload)`).

NALU / OBU / frame = byte list.  A parameter set of the output format is `Option Bytes`
(`none` = Go `nil`).  Where Go indexes `nalu[0]` of an empty NALU the model returns `Outcome.panic`.

Two models of the H265 updater are kept: `upd265` = the code as written (each in-band parameter set is
compared with the *format's* value, not with the running one) and `upd265Fixed` (compared with the
running value, exactly what the H264 updater does).
-/
import MtxVerif.Base.DriverLib

namespace MtxVerif.C22

abbrev NALU := Bytes
abbrev AU := List NALU

inductive Outcome (α : Type) where
  | ok (a : α)
  | panic
deriving Repr, DecidableEq

/-! ### NAL / OBU classification (first byte) -/

/-- `nalu[0]`; only used after the emptiness check. -/
def b0 (n : NALU) : UInt8 := n.headD 0

/-- `h264.NALUType(nalu[0] & 0x1F)` -/
def typ264 (n : NALU) : Nat := (b0 n &&& 0x1F).toNat
/-- `h265.NALUType((nalu[0] >> 1) & 0b111111)` -/
def typ265 (n : NALU) : Nat := ((b0 n >>> 1) &&& 0x3F).toNat
/-- `av1.OBUType((obu[0] >> 3) & 0b1111)` -/
def typAV1 (n : NALU) : Nat := ((b0 n >>> 3) &&& 0xF).toNat

def isSPS264 (n : NALU) : Bool := !n.isEmpty && typ264 n == 7
def isPPS264 (n : NALU) : Bool := !n.isEmpty && typ264 n == 8
def isAUD264 (n : NALU) : Bool := !n.isEmpty && typ264 n == 9
def isIDR264 (n : NALU) : Bool := !n.isEmpty && typ264 n == 5

def isVPS265 (n : NALU) : Bool := !n.isEmpty && typ265 n == 32
def isSPS265 (n : NALU) : Bool := !n.isEmpty && typ265 n == 33
def isPPS265 (n : NALU) : Bool := !n.isEmpty && typ265 n == 34
def isAUD265 (n : NALU) : Bool := !n.isEmpty && typ265 n == 35
/-- IDR_W_RADL, IDR_N_LP, CRA_NUT — what the remuxer treats as a key frame. -/
def isKey265 (n : NALU) : Bool := !n.isEmpty && (typ265 n == 19 || typ265 n == 20 || typ265 n == 21)

def isTD (n : NALU) : Bool := !n.isEmpty && typAV1 n == 2

/-- NAL units removed by the H264 remuxer: parameter sets and access unit delimiters. -/
def drop264 (n : NALU) : Bool := isSPS264 n || isPPS264 n || isAUD264 n
def drop265 (n : NALU) : Bool := isVPS265 n || isSPS265 n || isPPS265 n || isAUD265 n

/-- some NALU of the access unit is empty: the Go code panics on `nalu[0]`. -/
def hasEmpty (au : AU) : Bool := au.any (·.isEmpty)

/-! ### format updaters, one parameter kind at a time -/

/-- `bytes.Equal(nalu, formatValue)` (a nil slice equals the empty slice). -/
def bytesEq (n : NALU) (cur : Option Bytes) : Bool := n == cur.getD []

/-- H264 style: `if !bytes.Equal(nalu, sps) { sps = nalu }` — compared with the RUNNING value. -/
def updRun (isK : NALU → Bool) (cur : Option Bytes) : AU → Option Bytes
  | [] => cur
  | n :: r => updRun isK (if isK n && !bytesEq n cur then some n else cur) r

/-- H265 style: `if !bytes.Equal(nalu, formatH265.VPS) { vps = nalu }` — compared with the value the
format had BEFORE the access unit (`old`), not with the running value `cur`. -/
def updFmt (isK : NALU → Bool) (old : Option Bytes) (cur : Option Bytes) : AU → Option Bytes
  | [] => cur
  | n :: r => updFmt isK old (if isK n && !bytesEq n old then some n else cur) r

/-- The specification: the last in-band parameter set of the kind, else the initial value. -/
def latest (isK : NALU → Bool) (init : Option Bytes) : List NALU → Option Bytes
  | [] => init
  | n :: r => latest isK (if isK n then some n else init) r

structure P264 where
  sps : Option Bytes
  pps : Option Bytes
deriving Repr, DecidableEq

structure P265 where
  vps : Option Bytes
  sps : Option Bytes
  pps : Option Bytes
deriving Repr, DecidableEq

/-- `formatUpdaterH264` (the `update` flag only decides whether the unchanged values are written back). -/
def upd264 (p : P264) (au : AU) : P264 :=
  ⟨updRun isSPS264 p.sps au, updRun isPPS264 p.pps au⟩

/-- `formatUpdaterH265`, code as written. -/
def upd265 (p : P265) (au : AU) : P265 :=
  ⟨updFmt isVPS265 p.vps p.vps au, updFmt isSPS265 p.sps p.sps au, updFmt isPPS265 p.pps p.pps au⟩

/-- `formatUpdaterH265` with the proposed fix (compare with the running value). -/
def upd265Fixed (p : P265) (au : AU) : P265 :=
  ⟨updRun isVPS265 p.vps au, updRun isSPS265 p.sps au, updRun isPPS265 p.pps au⟩

def latest264 (p : P264) (l : List NALU) : P264 := ⟨latest isSPS264 p.sps l, latest isPPS264 p.pps l⟩
def latest265 (p : P265) (l : List NALU) : P265 :=
  ⟨latest isVPS265 p.vps l, latest isSPS265 p.sps l, latest isPPS265 p.pps l⟩

/-- Decidable class of finding F-C22 for one parameter kind: the access unit carries a parameter set
different from the one in force and, after it, ends the kind with the one in force again. -/
def staleK (isK : NALU → Bool) (old : Option Bytes) (au : AU) : Bool :=
  (au.filter isK).any (fun n => !bytesEq n old) &&
  (match (au.filter isK).getLast? with
   | some l => bytesEq l old
   | none => false)

def stale265 (p : P265) (au : AU) : Bool :=
  staleK isVPS265 p.vps au || staleK isSPS265 p.sps au || staleK isPPS265 p.pps au

/-! ### remuxers -/

/-- First loop of `unitRemuxerH264/H265/AV1`: `(isKeyFrame, n)`.  `k` = number of parameter sets
(`n += 2` / `n += 3`), `known` = all of them non-nil. -/
def pass1Step (isDrop isKey : NALU → Bool) (k : Nat) (known : Bool) (st : Bool × Nat) (n : NALU) :
    Bool × Nat :=
  if isDrop n then st
  else if isKey n then
    let st' : Bool × Nat := if !st.1 then (true, if known then st.2 + k else st.2) else st
    (st'.1, st'.2 + 1)
  else (st.1, st.2 + 1)

def pass1 (isDrop isKey : NALU → Bool) (k : Nat) (known : Bool) (au : AU) : Bool × Nat :=
  au.foldl (pass1Step isDrop isKey k known) (false, 0)

/-- `filteredAU := make([][]byte, n)` filled from index 0 with `items`: more items than `n` is an
index-out-of-range panic, fewer leaves nil entries at the end. `n == 0` returns nil (= `[]`). -/
def fill (n : Nat) (items : List NALU) : Outcome AU :=
  if n = 0 then .ok []
  else if items.length ≤ n then .ok (items ++ List.replicate (n - items.length) [])
  else .panic

def remuxGen (isDrop isKey : NALU → Bool) (pre : List NALU) (known : Bool) (au : AU) : Outcome AU :=
  if hasEmpty au then .panic
  else
    let r := pass1 isDrop isKey pre.length known au
    fill r.2 ((if r.1 && known then pre else []) ++ au.filter (fun n => !isDrop n))

def known264 (p : P264) : Bool := p.sps.isSome && p.pps.isSome
def known265 (p : P265) : Bool := p.vps.isSome && p.sps.isSome && p.pps.isSome
def pre264 (p : P264) : List NALU := [p.sps.getD [], p.pps.getD []]
def pre265 (p : P265) : List NALU := [p.vps.getD [], p.sps.getD [], p.pps.getD []]

def remux264 (p : P264) (au : AU) : Outcome AU := remuxGen drop264 isIDR264 (pre264 p) (known264 p) au
def remux265 (p : P265) (au : AU) : Outcome AU := remuxGen drop265 isKey265 (pre265 p) (known265 p) au
def remuxAV1 (tu : AU) : Outcome AU := remuxGen isTD (fun _ => false) [] false tu

/-- What the property demands of a delivered unit: the current parameter sets (when the unit has a key
frame and all are known), then the unit's NAL units without parameter sets and delimiters, in order. -/
def expected (isDrop isKey : NALU → Bool) (pre : List NALU) (known : Bool) (au : AU) : AU :=
  (if au.any isKey && known then pre else []) ++ au.filter (fun n => !isDrop n)

def expected264 (p : P264) (au : AU) : AU := expected drop264 isIDR264 (pre264 p) (known264 p) au
def expected265 (p : P265) (au : AU) : AU := expected drop265 isKey265 (pre265 p) (known265 p) au

/-! ### one `writeUnitInner` step (non-nil payload): update, then remux -/

/-- The updater runs first and panics on the first empty NALU; nothing has been written back then. -/
def step264 (p : P264) (au : AU) : P264 × Outcome AU :=
  if hasEmpty au then (p, .panic) else let p' := upd264 p au; (p', remux264 p' au)

def step265 (p : P265) (au : AU) : P265 × Outcome AU :=
  if hasEmpty au then (p, .panic) else let p' := upd265 p au; (p', remux265 p' au)

def step265Fixed (p : P265) (au : AU) : P265 × Outcome AU :=
  if hasEmpty au then (p, .panic) else let p' := upd265Fixed p au; (p', remux265 p' au)

/-- run a whole history of access units, collecting the delivered payloads (a panic would end the
process; the model keeps the state and goes on, as the recovering harness does). -/
def runG {σ : Type} (step : σ → AU → σ × Outcome AU) : σ → List AU → σ × List (Outcome AU)
  | p, [] => (p, [])
  | p, au :: r => let s := step p au; let t := runG step s.1 r; (t.1, s.2 :: t.2)

def run264 := runG step264
def run265 := runG step265
def run265Fixed := runG step265Fixed

/-- `good` holds at every step of the history (state taken along the run). -/
def goodRun {σ : Type} (good : σ → AU → Bool) (step : σ → AU → σ × Outcome AU) : σ → List AU → Bool
  | _, [] => true
  | p, au :: r => good p au && goodRun good step (step p au).1 r

/-- no step of the history is in the F-C22 class (evaluated along the run of the code as written). -/
def noStaleRun (p : P265) (aus : List AU) : Bool := goodRun (fun p au => !stale265 p au) step265 p aus

/-! ### sub-stream switch of an always-available stream (`subStreamFormat.initialize2`)

Every sub stream that takes over (offline filler, publisher, filler again …) transfers the parameter sets of
ITS description to the output format by writing them as a unit — provided all of them are present. -/

def subAU264 (d : P264) : Option AU :=
  match d.sps, d.pps with
  | some s, some p => some [s, p]
  | _, _ => none

def subAU265 (d : P265) : Option AU :=
  match d.vps, d.sps, d.pps with
  | some v, some s, some p => some [v, s, p]
  | _, _, _ => none

def switch264 (st d : P264) : P264 × Outcome AU :=
  match subAU264 d with
  | some au => step264 st au
  | none => (st, .ok [])

def switch265 (st d : P265) : P265 × Outcome AU :=
  match subAU265 d with
  | some au => step265 st au
  | none => (st, .ok [])

def switch265Fixed (st d : P265) : P265 × Outcome AU :=
  match subAU265 d with
  | some au => step265Fixed st au
  | none => (st, .ok [])

/-! ### MPEG-4 Video (byte level) -/

def vosSC : Bytes := [0, 0, 1, 0xB0]   -- VisualObjectSequenceStartCode
def govSC : Bytes := [0, 0, 1, 0xB3]   -- GroupOfVOPStartCode

/-- `bytes.Index(s, pat)` (`none` = -1). -/
def indexOf (pat : Bytes) : Bytes → Option Nat
  | [] => if pat.isEmpty then some 0 else none
  | x :: r => if pat.isPrefixOf (x :: r) then some 0 else (indexOf pat r).map (· + 1)

def containsGOV (s : Bytes) : Bool := (indexOf govSC s).isSome

/-- in-band configuration of a frame: `frame[:end+4]` when the frame starts with the VOS start code and a
GOV start code follows. -/
def inbandCfg (frame : Bytes) : Option Bytes :=
  if vosSC.isPrefixOf frame then
    match indexOf govSC (frame.drop 4) with
    | some e => some (frame.take (e + 4))
    | none => none
  else none

/-- `formatUpdaterMPEG4Video` (Config nil and empty are not distinguished: an in-band config has ≥ 4 bytes). -/
def updM4V (cfg : Bytes) (frame : Bytes) : Bytes :=
  if vosSC.isPrefixOf frame then
    match indexOf govSC (frame.drop 4) with
    | none => cfg
    | some e =>
      let conf := frame.take (e + 4)
      if conf != cfg then conf else cfg
  else cfg

/-- `unitRemuxerMPEG4Video`; `[]` = nil payload. -/
def remuxM4V (cfg : Bytes) (frame : Bytes) : Bytes :=
  let f1 :=
    if vosSC.isPrefixOf frame then
      match indexOf govSC (frame.drop 4) with
      | some e => frame.drop (e + 4)
      | none => frame
    else frame
  if containsGOV f1 then cfg ++ f1 else f1

def stepM4V (cfg : Bytes) (frame : Bytes) : Bytes × Bytes :=
  let c := updM4V cfg frame
  (c, remuxM4V c frame)

def runM4V (cfg : Bytes) : List Bytes → Bytes × List Bytes
  | [] => (cfg, [])
  | f :: r => let s := stepM4V cfg f; let t := runM4V s.1 r; (t.1, s.2 :: t.2)

/-- last in-band configuration of a frame sequence, else the initial one -/
def latestCfg (cfg : Bytes) : List Bytes → Bytes
  | [] => cfg
  | f :: r => latestCfg ((inbandCfg f).getD cfg) r

end MtxVerif.C22
