/-
C34 — client-supplied descriptors parse faithfully.

Byte-level models (Go strings are byte strings; every separator is ASCII) of

* `streamID.unmarshal`            internal/servers/srt/streamid.go      (both syntaxes, all error cases)
* `quoteCredential`, `readQuotedCredential`, `LinkHeaderMarshal`, `LinkHeaderUnmarshal`
                                   internal/protocols/whip/link_header.go
* `httpp.Credentials`             internal/protocols/httpp/credentials.go
  (incl. net/http `Request.BasicAuth` up to the base64 decoder, which is an oracle)
* `rtsp.Credentials`              internal/protocols/rtsp/credentials.go
  (gortsplib's `headers.Authorization.Unmarshal` is an oracle; only the field selection is modelled)

and the renderers of the documented syntaxes the round-trip theorems are stated about.
-/
import MtxVerif.Base.DriverLib

namespace MtxVerif.C34

/-! ## Go `strings` helpers on bytes -/

def consHead (c : UInt8) : List Bytes → List Bytes
  | [] => [[c]]
  | h :: t => (c :: h) :: t

/-- `strings.Split(s, sep)` for a one-byte separator (never returns the empty list) -/
def splitB (sep : UInt8) : Bytes → List Bytes
  | [] => [[]]
  | c :: rest => if c = sep then [] :: splitB sep rest else consHead c (splitB sep rest)

/-- `strings.Join(parts, sep)` for a one-byte separator -/
def joinB (sep : UInt8) : List Bytes → Bytes
  | [] => []
  | [a] => a
  | a :: b :: rest => a ++ sep :: joinB sep (b :: rest)

/-- `strings.Cut(s, sep)` for a one-byte separator (= `strings.SplitN(s, sep, 2)` having 2 parts) -/
def cutB (sep : UInt8) : Bytes → Option (Bytes × Bytes)
  | [] => none
  | c :: rest =>
    if c = sep then some ([], rest)
    else match cutB sep rest with
      | some (a, b) => some (c :: a, b)
      | none => none

/-- `strings.CutPrefix` -/
def cutPrefix (p s : Bytes) : Option Bytes :=
  if p.isPrefixOf s then some (s.drop p.length) else none

/-- `strings.Cut(s, sep)` for a literal separator: split around the FIRST occurrence -/
def cutS (sep : Bytes) : Bytes → Option (Bytes × Bytes)
  | [] => if sep.isEmpty then some ([], []) else none
  | c :: rest =>
    if sep.isPrefixOf (c :: rest) then some ([], (c :: rest).drop sep.length)
    else match cutS sep rest with
      | some (a, b) => some (c :: a, b)
      | none => none

/-- `strings.TrimSuffix` -/
def trimSuffix (suf s : Bytes) : Bytes :=
  if suf.isSuffixOf s then s.take (s.length - suf.length) else s

def countB (c : UInt8) (s : Bytes) : Nat := s.count c

/-! ## constants -/

/-- `#!::` -/
def kStd : Bytes := [35, 33, 58, 58]
/-- `read` -/
def kRead : Bytes := [114, 101, 97, 100]
/-- `publish` -/
def kPublish : Bytes := [112, 117, 98, 108, 105, 115, 104]
/-- `request` -/
def kRequest : Bytes := [114, 101, 113, 117, 101, 115, 116]
/-- `#feedbackplay` -/
def kFeedback : Bytes := [35, 102, 101, 101, 100, 98, 97, 99, 107, 112, 108, 97, 121]
/-- `>; rel="ice-server"` -/
def kRelSep : Bytes := [62, 59, 32, 114, 101, 108, 61, 34, 105, 99, 101, 45, 115, 101, 114, 118, 101, 114, 34]
/-- the part of `kRelSep` after its first byte `>` -/
def kRelSepTail : Bytes := [59, 32, 114, 101, 108, 61, 34, 105, 99, 101, 45, 115, 101, 114, 118, 101, 114, 34]
/-- `; username=` -/
def kUsername : Bytes := [59, 32, 117, 115, 101, 114, 110, 97, 109, 101, 61]
/-- `; credential=` -/
def kCredential : Bytes := [59, 32, 99, 114, 101, 100, 101, 110, 116, 105, 97, 108, 61]
/-- `; credential-type="password"` -/
def kCredType : Bytes := [59, 32, 99, 114, 101, 100, 101, 110, 116, 105, 97, 108, 45, 116, 121, 112, 101, 61, 34, 112, 97, 115, 115, 119, 111, 114, 100, 34]
/-- `Bearer ` -/
def kBearer : Bytes := [66, 101, 97, 114, 101, 114, 32]
/-- `basic ` -/
def kBasicLower : Bytes := [98, 97, 115, 105, 99, 32]

/-! ## SRT stream id -/

structure SID where
  publish : Bool := false
  path : Bytes := []
  query : Bytes := []
  user : Bytes := []
  pass : Bytes := []
deriving DecidableEq, Repr

inductive Err where
  | invalidValue   -- "invalid value": a key=value item without '='
  | badMode        -- "unsupported mode"
  | format         -- "stream ID must be 'action:pathname[:query]' or …"
deriving DecidableEq, Repr

inductive Res where
  | ok (s : SID)
  | err (e : Err)
deriving DecidableEq, Repr

/-- meaning of one `key=value` item of the standard syntax (`switch key`) -/
def applyKV (s : SID) (k v : Bytes) : Res :=
  if k = [117] then .ok { s with user := v }            -- u
  else if k = [114] then .ok { s with path := v }       -- r
  else if k = [115] then .ok { s with pass := v }       -- s
  else if k = [109] then                                -- m
    if v = kRequest then .ok { s with publish := false }
    else if v = kPublish then .ok { s with publish := true }
    else .err .badMode
  else .ok s                                            -- h, t and every other key: ignored

/-- one iteration of the loop over the `,`-separated items -/
def stdItem (s : SID) (kv : Bytes) : Res :=
  match cutB 61 kv with
  | none => .err .invalidValue
  | some (k, v) => applyKV s k v

def stdFold (s : SID) : List Bytes → Res
  | [] => .ok s
  | kv :: rest =>
    match stdItem s kv with
    | .ok s' => stdFold s' rest
    | .err e => .err e

/-- `switch parts[0]` + field assignment of the custom syntax -/
def mkCustom (action path query user pass : Bytes) : Res :=
  if action = kRead then .ok { publish := false, path := path, query := query, user := user, pass := pass }
  else if action = kPublish then .ok { publish := true, path := path, query := query, user := user, pass := pass }
  else .err .format

def trimFb (s : Bytes) : Bytes := trimSuffix kFeedback s

/-- the custom syntax after `strings.Split(raw, ":")`: the LAST part loses one `#feedbackplay` suffix -/
def customParts : List Bytes → Res
  | [a, p] => mkCustom a (trimFb p) [] [] []
  | [a, p, q] => mkCustom a p (trimFb q) [] []
  | [a, p, u, w] => mkCustom a p [] u (trimFb w)
  | [a, p, u, w, q] => mkCustom a p (trimFb q) u w
  | _ => .err .format

/-- `streamID.unmarshal` on a zero `streamID` (conn.go declares a fresh one per connection) -/
def unmarshal (raw : Bytes) : Res :=
  if kStd.isPrefixOf raw then stdFold {} (splitB 44 (raw.drop 4))
  else customParts (splitB 58 raw)

/-! ### the documented syntaxes, as renderers -/

/-- custom syntax `action:pathname[:user:pass][:query]` -/
structure CDesc where
  publish : Bool
  path : Bytes
  creds : Option (Bytes × Bytes)
  query : Option Bytes
deriving DecidableEq, Repr

def action (publish : Bool) : Bytes := if publish then kPublish else kRead

def CDesc.tailParts (d : CDesc) : List Bytes :=
  (match d.creds with | some (u, p) => [u, p] | none => []) ++
  (match d.query with | some q => [q] | none => [])

def CDesc.parts (d : CDesc) : List Bytes := action d.publish :: d.path :: d.tailParts

def CDesc.render (d : CDesc) : Bytes := joinB 58 d.parts

/-- the fields the caller put in -/
def CDesc.fields (d : CDesc) : List Bytes := d.path :: d.tailParts

def CDesc.last (d : CDesc) : Bytes := d.fields.getLastD []

def CDesc.sid (d : CDesc) : SID :=
  { publish := d.publish, path := d.path,
    query := d.query.getD [],
    user := (d.creds.map (·.1)).getD [],
    pass := (d.creds.map (·.2)).getD [] }

def noByte (c : UInt8) (s : Bytes) : Bool := !s.contains c

/-- no field contains the separator `:` -/
def CDesc.sepFree (d : CDesc) : Bool := d.fields.all (noByte 58)

/-- standard syntax `#!::k=v,k=v,…` -/
def renderKV (kv : Bytes × Bytes) : Bytes := kv.1 ++ 61 :: kv.2

def renderStd (kvs : List (Bytes × Bytes)) : Bytes := kStd ++ joinB 44 (kvs.map renderKV)

/-- keys avoid `=` and `,`; values avoid `,` (values MAY contain `=`) -/
def stdSepFree (kvs : List (Bytes × Bytes)) : Bool :=
  kvs.all fun kv => noByte 61 kv.1 && noByte 44 kv.1 && noByte 44 kv.2

/-- meaning of a key/value list: items applied left to right, first error wins -/
def applyAll (s : SID) : List (Bytes × Bytes) → Res
  | [] => .ok s
  | kv :: rest =>
    match applyKV s kv.1 kv.2 with
    | .ok s' => applyAll s' rest
    | .err e => .err e

/-- the four-field descriptor of the documentation: `#!::m=…,r=…,u=…,s=…` -/
def stdDesc (s : SID) : List (Bytes × Bytes) :=
  [([109], if s.publish then kPublish else kRequest), ([114], s.path), ([117], s.user), ([115], s.pass)]

/-! ## WHIP/WHEP Link header -/

/-- `quoteCredential` (`strings.NewReplacer` on two one-byte patterns works byte by byte) -/
def quote : Bytes → Bytes
  | [] => []
  | c :: r =>
    if c = 92 then 92 :: 92 :: quote r
    else if c = 34 then 92 :: 34 :: quote r
    else c :: quote r

/-- loop of `readQuotedCredential` (after the opening quote) -/
def readQ (escaped : Bool) (acc : Bytes) : Bytes → Option (Bytes × Bytes)
  | [] => none
  | c :: r =>
    if c = 92 then
      if escaped then readQ false (acc ++ [92]) r else readQ true acc r
    else if c = 34 then
      if escaped then readQ false (acc ++ [34]) r else some (acc, r)
    else
      if escaped then none else readQ false (acc ++ [c]) r

/-- `readQuotedCredential` -/
def readQuoted : Bytes → Option (Bytes × Bytes)
  | [] => none
  | c :: r => if c = 34 then readQ false [] r else none

/-- a `webrtc.ICEServer` as handed to `LinkHeaderMarshal`.  `cred = none`: the `Credential`
interface does not hold a string (the type assertion panics when it is evaluated). -/
structure IceIn where
  urls : List Bytes
  user : Bytes
  cred : Option Bytes
deriving DecidableEq, Repr

/-- a `webrtc.ICEServer` as produced by `LinkHeaderUnmarshal` (`cred = none`: nil interface;
`CredentialType` is `password`, the zero value, in every case) -/
structure IceOut where
  url : Bytes
  user : Bytes
  cred : Option Bytes
deriving DecidableEq, Repr

/-- one entry of `LinkHeaderMarshal`; `none` = Go panics (no URL / non-string credential) -/
def marshal1 (s : IceIn) : Option Bytes :=
  match s.urls with
  | [] => none
  | url :: _ =>
    let head := 60 :: url ++ kRelSep
    if s.user = [] then some head
    else match s.cred with
      | none => none
      | some c =>
        some (head ++ kUsername ++ 34 :: quote s.user ++ 34 :: kCredential ++ 34 :: quote c ++ 34 :: kCredType)

/-- `LinkHeaderMarshal`; `none` = panic -/
def marshal : List IceIn → Option (List Bytes)
  | [] => some []
  | s :: rest =>
    match marshal1 s, marshal rest with
    | some h, some t => some (h :: t)
    | _, _ => none

/-- the credential attributes of one entry (everything after `rel="ice-server"`, when non-empty) -/
def readCreds (url li : Bytes) : Option IceOut :=
  match cutPrefix kUsername li with
  | none => none
  | some li =>
    match readQuoted li with
    | none => none
    | some (user, li) =>
      if user = [] then none
      else
        match cutPrefix kCredential li with
        | none => none
        | some li =>
          match readQuoted li with
          | none => none
          | some (cred, li) =>
            match cutPrefix kCredType li with
            | none => none
            | some li => if li = [] then some { url := url, user := user, cred := some cred } else none

/-- one entry of `LinkHeaderUnmarshal`; `none` = error -/
def unmarshal1 (li : Bytes) : Option IceOut :=
  match cutPrefix [60] li with
  | none => none
  | some li =>
    match cutS kRelSep li with
    | none => none
    | some (url, li) =>
      if li = [] then some { url := url, user := [], cred := none }
      else readCreds url li

/-- `LinkHeaderUnmarshal`; `none` = error (the first bad entry fails the whole list) -/
def unmarshalL : List Bytes → Option (List IceOut)
  | [] => some []
  | h :: rest =>
    match unmarshal1 h with
    | none => none
    | some s =>
      match unmarshalL rest with
      | none => none
      | some t => some (s :: t)

/-- what is expected back from an entry that was written -/
def IceIn.back (s : IceIn) : IceOut :=
  if s.user = [] then { url := s.urls.headD [], user := [], cred := none }
  else { url := s.urls.headD [], user := s.user, cred := s.cred }

/-- `sep` occurs in `s` -/
def hasInfix (sep : Bytes) : Bytes → Bool
  | [] => sep.isEmpty
  | c :: rest => sep.isPrefixOf (c :: rest) || hasInfix sep rest

/-- entries `LinkHeaderMarshal` accepts and whose URL does not contain the literal `>; rel="ice-server"` -/
def IceIn.wf (s : IceIn) : Bool :=
  match s.urls with
  | [] => false
  | url :: _ => !hasInfix kRelSep url && (s.user = [] || s.cred.isSome)

/-! ## HTTP `Credentials` -/

structure Creds where
  user : Bytes := []
  pass : Bytes := []
  token : Bytes := []
deriving DecidableEq, Repr

/-- payload of the first header value that starts with `Bearer ` -/
def firstBearer : List Bytes → Option Bytes
  | [] => none
  | h :: rest => if kBearer.isPrefixOf h then some (h.drop 7) else firstBearer rest

/-- `user:pass` iff the payload has exactly one `:`; otherwise the payload is a token -/
def fromBearer (p : Bytes) : Creds :=
  match splitB 58 p with
  | [u, w] => { user := u, pass := w }
  | _ => { token := p }

def lowerB (c : UInt8) : UInt8 := if 65 ≤ c ∧ c ≤ 90 then c + 32 else c

/-- `parseBasicAuth`'s prefix test: at least 6 bytes, the first 6 ASCII-case-insensitively `Basic ` -/
def hasBasicPrefix (h : Bytes) : Bool := h.length ≥ 6 && (h.take 6).map lowerB == kBasicLower

/-- `Request.BasicAuth()`: looks at the FIRST header value only.  `b64` is the oracle: the result of
`base64.StdEncoding.DecodeString` on that value without its first 6 bytes (`none` = error). -/
def basicAuth (hdrs : List Bytes) (b64 : Option Bytes) : Creds :=
  match hdrs with
  | [] => {}
  | h :: _ =>
    if hasBasicPrefix h then
      match b64 with
      | none => {}
      | some dec =>
        match cutB 58 dec with
        | some (u, p) => { user := u, pass := p }
        | none => {}
    else {}

/-- `httpp.Credentials` -/
def credentials (hdrs : List Bytes) (b64 : Option Bytes) : Creds :=
  match firstBearer hdrs with
  | some p => fromBearer p
  | none => basicAuth hdrs b64

/-! ## RTSP `Credentials` -/

/-- oracle answer of gortsplib's `headers.Authorization.Unmarshal` -/
structure RtspAuth where
  ok : Bool
  basic : Bool
  user : Bytes
  basicPass : Bytes
deriving DecidableEq, Repr

/-- `rtsp.Credentials`: fields are taken only from a header that parsed; the password only from Basic -/
def rtspCredentials (a : RtspAuth) : Creds :=
  if a.ok then { user := a.user, pass := if a.basic then a.basicPass else [] } else {}

end MtxVerif.C34
