/-
C31 — segment operations identify segments by instant
(internal/api/api_recordings.go `onRecordingDeleteSegment`; recorder naming = C26 `recorderName`).

The delete-segment handler parses `start` with `time.Parse(time.RFC3339, …)` and hands the resulting
`time.Time` to `Path.Encode`.  `Encode` reads the calendar fields *in the location of that value*: the
offset the instant was written with (UTC for `Z`, `time.Local` only if the written offset is the local
one at that instant).  The recorder names its files from server-local fields.

Oracle (calendar): the two field tuples of the same instant — `Fo` in the written offset (what
`time.Parse` returns) and `Fl` in `time.Local` (what the recorder uses and what `t.Local()` gives).
`convertsToLocal` says which tuple the handler encodes: `false` = code as written, `true` = with the fix
`start = start.Local()`.
Everything else is reused: C26 (`tokenize`, `substPath`, `encodeA`, `val`), C06 (`deleteTarget`).
-/
import MtxVerif.Model.C06

namespace MtxVerif.C31
open MtxVerif.C26 (Tok Kind Fields tokenize substPath encodeA val assign)

/-- texts of the time placeholders for a field tuple (the path placeholder is already substituted). -/
def texts (F : Fields) : Kind → Bytes := assign [] F

/-- the tuple the handler encodes. -/
def handlerFields (convertsToLocal : Bool) (Fo Fl : Fields) : Fields :=
  if convertsToLocal then Fl else Fo

/-- file the handler removes (`none` = request rejected by `absolutePathInside`). -/
def deleteFile (convertsToLocal : Bool) (cwd fmt name : Bytes) (Fo Fl : Fields) : Option Bytes :=
  C06.deleteTarget cwd fmt name (texts (handlerFields convertsToLocal Fo Fl))

/-- the tokens that make a name depend on the zone the fields are read in: everything except `%s`, `%f`
(and literals). -/
def zoneDependent : Tok → Bool
  | .cap .s => false
  | .cap .f => false
  | .cap .path => false
  | .cap _ => true
  | .lit _ => false

/-- decidable class of finding F-C31: the instant is written with another offset than the server's at
that instant, and the record path has a placeholder whose text depends on the zone. -/
def offsetMismatch (toks : List Tok) (Fo Fl : Fields) : Bool :=
  Fo.off != Fl.off && toks.any zoneDependent

/-- two tuples describe the same instant as far as `%s` / `%f` can tell. -/
def sameInstant (Fo Fl : Fields) : Bool := Fo.unix == Fl.unix && Fo.micros == Fl.micros

/-! ### `FindSegments` with a start bound (playback `/get`, `/list?start=`) -/

/-- the loop "find the segment that may contain the start of the playback and remove all previous
ones"; if no pair brackets `s` only the last segment is kept.  Segments are (file, start) sorted by start. -/
def dropTo (s : Int) : List (Bytes × Int) → List (Bytes × Int)
  | a :: b :: r => if a.2 ≤ s ∧ s < b.2 then a :: b :: r else dropTo s (b :: r)
  | l => l

/-- `FindSegments(conf, name, &start, nil)` on the sorted list of recognised segments (`none` =
`ErrNoSegmentsFound`). -/
def selectFrom (segs : List (Bytes × Int)) (s : Int) : Option (List (Bytes × Int)) :=
  match segs with
  | [] => none
  | a :: _ =>
    if s < a.2 then some segs
    else
      match dropTo s segs with
      | [x] => if x.2 > s then none else some [x]
      | r => some r

end MtxVerif.C31
