/-
C35 — no unauthenticated network input crashes the server (scoped: see props/C35.json).

Models of MediaMTX-owned code that runs on client-chosen input BEFORE authentication, written with
explicit index / slice obligations: every Go `s[i]`, `s[a:b]`, `parts[k]`, `x / y` is a primitive that
returns the `panic` outcome when out of range.  Props/C35 proves that no input reaches `panic`.

  * SRT stream id            internal/servers/srt/streamid.go        `streamID.unmarshal`
  * HTTP credentials         internal/protocols/httpp/credentials.go `Credentials`
  * HTTP empty-path filter   internal/protocols/httpp/handler_filter_requests.go
  * HLS request routing      internal/servers/hls/http_server.go     `onRequest` (up to the path-manager call)
  * WebRTC/WHIP routing      internal/servers/webrtc/http_server.go  `onRequest` (idem)
  * API name / pagination    internal/api/api.go `paramName`, paginate.go (parameters: Model/C44)
  * MoQ decoders             Model/C32_Moq (imported)

Third-party behaviour enters as oracle arguments: `path.Dir/Base/Clean`, the two WHIP regexps,
`uuid.Parse`, `http.Request.BasicAuth`.
-/
import MtxVerif.Model.C44
import MtxVerif.Model.C32_Moq

namespace MtxVerif.C35

inductive R (α : Type) where
  | ok (v : α)
  | err
  | panic
  deriving DecidableEq, Repr

def R.bind (r : R α) (f : α → R β) : R β :=
  match r with
  | .ok v => f v
  | .err => .err
  | .panic => .panic

instance : Monad R where
  pure := R.ok
  bind := R.bind

/-! ### Go primitives with their run-time checks -/

/-- `l[i]` -/
def idx (l : List α) (i : Int) : R α :=
  if i < 0 then .panic else
  match l[i.toNat]? with
  | some x => .ok x
  | none => .panic

/-- `s[lo:hi]` — panics unless `0 ≤ lo ≤ hi ≤ len(s)` -/
def sliceR (s : List α) (lo hi : Int) : R (List α) :=
  if 0 ≤ lo ∧ lo ≤ hi ∧ hi ≤ s.length then .ok ((s.drop lo.toNat).take (hi.toNat - lo.toNat)) else .panic

/-- `s[lo:]` -/
def sliceFrom (s : List α) (lo : Int) : R (List α) := sliceR s lo s.length

/-- `a / b` on ints -/
def divR (a b : Int) : R Int := if b = 0 then .panic else .ok (a / b)

def hasPrefix (p s : Bytes) : Bool := s.take p.length == p
def hasSuffix (p s : Bytes) : Bool := p.length ≤ s.length && s.drop (s.length - p.length) == p
def trimSuffix (p s : Bytes) : Bytes := if hasSuffix p s then s.take (s.length - p.length) else s

/-- `strings.Split(s, sep)` for a one-byte separator: never empty -/
def splitOn (sep : UInt8) : Bytes → List Bytes
  | [] => [[]]
  | c :: cs =>
    match splitOn sep cs with
    | [] => [[c]]   -- unreachable
    | h :: t => if c == sep then [] :: h :: t else (c :: h) :: t

/-- `strings.SplitN(s, sep, 2)` -/
def splitN2 (sep : UInt8) : Bytes → List Bytes
  | [] => [[]]
  | c :: cs =>
    if c == sep then [[], cs] else
    match splitN2 sep cs with
    | [h] => [c :: h]
    | h :: t => (c :: h) :: t
    | [] => [[c]]

/-- `strings.TrimLeft(s, cutset)` -/
def trimLeft (cut : Bytes) : Bytes → Bytes
  | [] => []
  | c :: cs => if cut.contains c then trimLeft cut cs else c :: cs

/-! ### SRT stream id -/

structure StreamID where
  publish : Bool := false
  path : Bytes := []
  query : Bytes := []
  user : Bytes := []
  pass : Bytes := []
  deriving DecidableEq, Repr

def srtStdKV (s : StreamID) (kv : Bytes) : R StreamID :=
  let kv2 := splitN2 (61 : UInt8) kv           -- '='
  if kv2.length ≠ 2 then .err else do
  let key ← idx kv2 0
  let value ← idx kv2 1
  if key == asc ['u'] then pure { s with user := value }
  else if key == asc ['r'] then pure { s with path := value }
  else if key == asc ['s'] then pure { s with pass := value }
  else if key == asc ['m'] then
    (if value == asc ['r','e','q','u','e','s','t'] then pure { s with publish := false }
     else if value == asc ['p','u','b','l','i','s','h'] then pure { s with publish := true }
     else .err)
  else pure s

def srtStdLoop (s : StreamID) : List Bytes → R StreamID
  | [] => pure s
  | kv :: rest => do
    let s' ← srtStdKV s kv
    srtStdLoop s' rest

def srtLegacy (raw : Bytes) : R StreamID :=
  let parts := splitOn (58 : UInt8) raw        -- ':'
  let n : Int := parts.length
  if n < 2 ∨ n > 5 then .err else do
  let last ← idx parts (n - 1)
  let parts := parts.set (n - 1).toNat (trimSuffix (asc ['#','f','e','e','d','b','a','c','k','p','l','a','y']) last)
  let p0 ← idx parts 0
  let publish ← (if p0 == asc ['r','e','a','d'] then R.ok false
                 else if p0 == asc ['p','u','b','l','i','s','h'] then R.ok true else R.err)
  let path ← idx parts 1
  let (user, pass) ← (if n = 4 ∨ n = 5 then do
      let u ← idx parts 2
      let p ← idx parts 3
      pure (u, p)
    else pure (([] : Bytes), ([] : Bytes)))
  let query ← (if n = 3 then idx parts 2 else if n = 5 then idx parts 4 else pure [])
  pure { publish, path, query, user, pass }

/-- `streamID.unmarshal(raw)` -/
def srtUnmarshal (raw : Bytes) : R StreamID :=
  if hasPrefix (asc ['#','!',':',':']) raw then do
    let rest ← sliceFrom raw 4
    srtStdLoop {} (splitOn (44 : UInt8) rest)  -- ','
  else srtLegacy raw

/-! ### HTTP credentials -/

structure Creds where
  user : Bytes := []
  pass : Bytes := []
  token : Bytes := []
  deriving DecidableEq, Repr

def bearer : Bytes := asc ['B','e','a','r','e','r',' ']

/-- `Credentials(h)`: `auths` = the Authorization header values, `basic` = oracle for `h.BasicAuth()` -/
def credentials (auths : List Bytes) (basic : Bytes × Bytes) : R Creds :=
  match auths with
  | [] => pure { user := basic.1, pass := basic.2 }
  | a :: rest =>
    if hasPrefix bearer a then do
      let tok ← sliceFrom a bearer.length
      let parts := splitOn (58 : UInt8) tok
      if parts.length = 2 then do
        let u ← idx parts 0
        let p ← idx parts 1
        pure { user := u, pass := p }
      else pure { token := tok }
    else credentials rest basic

/-! ### the empty-path filter in front of every HTTP handler -/

/-- `handlerFilterRequests`: `true` = passed on -/
def filterPath (p : Bytes) : R Bool :=
  if p.isEmpty then pure false else do
  let c ← idx p 0
  pure (c == 47)

/-! ### HLS routing -/

inductive HlsRoute
  | notGet | js | none
  | index (dir : Bytes)
  | multivariant (dir fname : Bytes)
  | media (dir fname : Bytes)
  | segment (dir fname : Bytes)
  | redirect (loc : Bytes)
  deriving DecidableEq, Repr

/-- `trailingSlashLocation`; `clean` = oracle for `path.Clean(rawPath)` -/
def trailingSlashLocation (clean rawQuery : Bytes) : Bytes :=
  let res := asc ['/'] ++ trimLeft (asc ['/', '\\']) clean ++ asc ['/']
  if rawQuery.isEmpty then res else res ++ asc ['?'] ++ rawQuery

/-- `onRequest` of the HLS server up to the choice of handler.  `oDir`, `oBase` = oracles for
`path.Dir(pa)`, `path.Base(pa)`; `oClean` for `path.Clean(URL.Path)`. -/
def hlsRoute (isGet : Bool) (p rawQuery oDir oBase oClean : Bytes) : R HlsRoute :=
  if !isGet then pure .notGet else do
  let pa ← sliceFrom p 1
  if hasSuffix (asc ['/','h','l','s','.','m','i','n','.','j','s']) pa then pure .js
  else if pa.isEmpty || pa == asc ['f','a','v','i','c','o','n','.','i','c','o'] ||
      hasSuffix (asc ['/','h','l','s','.','m','i','n','.','j','s','.','m','a','p']) pa then pure .none
  else if hasSuffix (asc ['.','m','3','u','8']) pa then
    (if oBase == asc ['i','n','d','e','x','.','m','3','u','8'] then pure (.multivariant oDir oBase)
     else pure (.media oDir oBase))
  else if hasSuffix (asc ['.','t','s']) pa || hasSuffix (asc ['.','m','p','4']) pa ||
      hasSuffix (asc ['.','m','p']) pa then
    pure (.segment oDir (if hasSuffix (asc ['.','m','p']) oBase then oBase ++ asc ['4'] else oBase))
  else if !hasSuffix (asc ['/']) pa then pure (.redirect (trailingSlashLocation oClean rawQuery))
  else do
    let dir ← sliceR pa 0 ((pa.length : Int) - 1)
    pure (.index dir)

/-- filter, then router: what a client can reach -/
def hlsServe (isGet : Bool) (p rawQuery oDir oBase oClean : Bytes) : R (Option HlsRoute) := do
  let pass ← filterPath p
  if pass then do
    let r ← hlsRoute isGet p rawQuery oDir oBase oClean
    pure (some r)
  else pure none

/-! ### WebRTC / WHIP routing -/

inductive Method
  | get | head | put | post | options | patch | delete | other
  deriving DecidableEq, Repr

inductive RtcRoute
  | whipOptions (path : Bytes) (publish : Bool)
  | whipPost (path : Bytes) (publish : Bool)
  | notAllowed
  | none
  | patch (secret : Bytes)
  | delete (secret : Bytes)
  | publisherJS | readerJS
  | page (path : Bytes) (publish : Bool)
  | redirect (loc : Bytes)
  deriving DecidableEq, Repr

def slashPublish : Bytes := asc ['/','p','u','b','l','i','s','h']

/-- `onRequest` of the WebRTC server.  `m1`, `m2` = oracles for `FindStringSubmatch` of
`^/(.+?)/(whip|whep)$` and `^/(.+?)/(whip|whep)/(.+?)$` on the path. -/
def rtcRoute (meth : Method) (p rawQuery : Bytes) (m1 m2 : Option (List Bytes)) (oClean : Bytes) :
    R RtcRoute :=
  match m1 with
  | some m =>
    (match meth with
     | .options => do
       let a ← idx m 1
       let b ← idx m 2
       pure (.whipOptions a (b == asc ['w','h','i','p']))
     | .post => do
       let a ← idx m 1
       let b ← idx m 2
       pure (.whipPost a (b == asc ['w','h','i','p']))
     | .get | .head | .put => pure .notAllowed
     | _ => pure .none)
  | none =>
  match m2 with
  | some m =>
    (match meth with
     | .patch => do
       let s ← idx m 3
       pure (.patch s)
     | .delete => do
       let s ← idx m 3
       pure (.delete s)
     | _ => pure .none)
  | none =>
  if meth != .get then pure .none
  else if hasSuffix (asc ['/','p','u','b','l','i','s','h','e','r','.','j','s']) p then pure .publisherJS
  else if hasSuffix (asc ['/','r','e','a','d','e','r','.','j','s']) p then pure .readerJS
  else if p == asc ['/','f','a','v','i','c','o','n','.','i','c','o'] then pure .none
  else if p.length ≥ 2 then
    (if p.length > slashPublish.length && hasSuffix slashPublish p then do
       let name ← sliceR p 1 ((p.length : Int) - slashPublish.length)
       pure (.page name true)
     else do
       let last ← idx p ((p.length : Int) - 1)
       if last != 47 then pure (.redirect (trailingSlashLocation oClean rawQuery))
       else do
         let name ← sliceR p 1 ((p.length : Int) - 1)
         pure (.page name false))
  else pure .none

/-! ### API: `paramName` and pagination -/

/-- `paramName`: the gin `*name` parameter -/
def paramName (name : Bytes) : R (Option Bytes) :=
  if name.length < 2 then pure none else do
  let c ← idx name 0
  if c != 47 then pure none else do
  let r ← sliceFrom name 1
  pure (some r)

/-- `paginate` with the run-time checks of `/`, `%` and `reflect.Value.Slice`; parameters are parsed
by the C44 model (`none` = rejected).  Result: (pageCount, first, count). -/
def paginateR (len : Nat) (ippStr pageStr : Bytes) : R (Nat × Nat × Nat) :=
  match C44.parseParams ippStr pageStr with
  | none => .err
  | some (ipp, page) =>
    if len = 0 then pure (0, 0, 0) else do
    let q ← divR len ipp
    let _ ← divR len ipp    -- the `%` has the same zero check
    let pc := q.toNat + (if len % ipp ≠ 0 then 1 else 0)
    let lo := min (page * ipp) len
    let hi := min ((page + 1) * ipp) len
    let s ← sliceR (List.range len) lo hi
    pure (pc, lo, s.length)

/-! ### the request a connection hands to the path manager (name, query, credentials) -/

structure AccessReq where
  publish : Bool
  name : Bytes
  query : Bytes
  user : Bytes
  pass : Bytes
  deriving DecidableEq, Repr

/-- SRT `conn.runInner` → `runPublish` / `runRead`: stream id → access request (`err` = `Reject(REJ_PEER)`) -/
def srtConnRequest (raw : Bytes) : R AccessReq := do
  let s ← srtUnmarshal raw
  pure ⟨s.publish, s.path, s.query, s.user, s.pass⟩

/-- RTMP `conn.runRead` / `runPublish`: `strings.TrimLeft(URL.Path, "/")`, `URL.RawQuery`;
`user`, `pass` = oracles for `URL.Query().Get(..)` -/
def rtmpConnRequest (publish : Bool) (path rawQuery oUser oPass : Bytes) : R AccessReq :=
  pure ⟨publish, trimLeft (asc ['/']) path, rawQuery, oUser, oPass⟩

/-- RTSP `onDescribe` / `onAnnounce` / `onSetup`: the path handed over by gortsplib must start with `/`,
which is cut off (`ctx.Path[1:]`); `err` = 400 "invalid path" -/
def rtspStrip (path : Bytes) : R Bytes :=
  if path.length = 0 then .err else do
  let c ← idx path 0
  if c != 47 then .err else sliceFrom path 1

/-- RTSP `session.onRecord` / `APIReaderDescribe`… use `rsession.Path()[1:]`: the stored path is the
one `onAnnounce` accepted, i.e. it went through `rtspStrip` -/
def rtspStoredPathName (announced : Bytes) : R Bytes := do
  let _ ← rtspStrip announced     -- ANNOUNCE was accepted
  sliceFrom announced 1

/-! ### path-name validation (conf.IsValidPathName) and the playback server -/

inductive NameErr | empty | leadingSlash | trailingSlash | chars | dots
  deriving DecidableEq, Repr

/-- `conf.IsValidPathName`; `reOk` = oracle for `rePathName.MatchString(name)`; `none` = valid -/
def isValidPathName (name : Bytes) (reOk : Bool) : R (Option NameErr) :=
  if name.isEmpty then pure (some .empty) else do
  let c0 ← idx name 0
  if c0 == 47 then pure (some .leadingSlash) else do
  let cl ← idx name ((name.length : Int) - 1)
  if cl == 47 then pure (some .trailingSlash)
  else if !reOk then pure (some .chars)
  else if (splitOn 47 name).any (fun seg => seg == asc ['.'] || seg == asc ['.', '.']) then pure (some .dots)
  else pure none

inductive PbOutcome
  | badPath | unauthorized | noConf | badStart | badEnd | badDuration | badFormat | proceed
  deriving DecidableEq, Repr

/-- playback `onGet`: path → validation → authentication → start → duration → format → path conf.
Oracles: `authOk` (auth manager), `startOk` (`time.Parse(RFC3339)`), `durOk` (`ParseFloat` or
`ParseDuration`), `confOk` (`conf.FindPathConf`). -/
def playbackGet (path : Bytes) (reOk authOk startOk durOk confOk : Bool) (format : Bytes) : R PbOutcome := do
  let v ← isValidPathName path reOk
  if v.isSome then pure .badPath
  else if !authOk then pure .unauthorized
  else if !startOk then pure .badStart
  else if !durOk then pure .badDuration
  else if !(format.isEmpty || format == asc ['f','m','p','4'] || format == asc ['m','p','4']) then pure .badFormat
  else if !confOk then pure .noConf
  else pure .proceed

/-- playback `onList`: path → validation → authentication → path conf → start (optional) → end (optional) -/
def playbackList (path : Bytes) (reOk authOk confOk : Bool) (start end_ : Bytes) (startOk endOk : Bool) :
    R PbOutcome := do
  let v ← isValidPathName path reOk
  if v.isSome then pure .badPath
  else if !authOk then pure .unauthorized
  else if !confOk then pure .noConf
  else if !start.isEmpty && !startOk then pure .badStart
  else if !end_.isEmpty && !endOk then pure .badEnd
  else pure .proceed

/-! ### `httpp.ParseContentType` (WHIP POST / PATCH, before the session lookup) -/

def isAsciiSpace (c : UInt8) : Bool := c == 32 || (9 ≤ c && c ≤ 13)

def trimSpaceAscii (b : Bytes) : Bytes :=
  ((b.dropWhile isAsciiSpace).reverse.dropWhile isAsciiSpace).reverse

/-- `strings.TrimSpace(strings.Split(v, ";")[0])` (ASCII white space; see assumptions) -/
def parseContentType (v : Bytes) : R Bytes := do
  let first ← idx (splitOn 59 v) 0
  pure (trimSpaceAscii first)

/-! ### `dumpRequest` (handler_logger.go): runs on every request of every HTTP listener, first -/

def maxRequestBodySizeToLog : Nat := 10 * 1024

/-- `io.ReadAll(io.LimitReader(req.Body, max+1))`: at most max+1 bytes of the body, whatever the declared
`Content-Length` is (it is −1 when the length is unknown) -/
def logPeek (_contentLength : Int) (body : Bytes) : Bytes := body.take (maxRequestBodySizeToLog + 1)

/-- the body as logged: `capped[:max]` + marker when longer than max -/
def dumpCapped (contentLength : Int) (body : Bytes) : R Bytes :=
  let peek := logPeek contentLength body
  if peek.length > maxRequestBodySizeToLog then do
    let c ← sliceR peek 0 maxRequestBodySizeToLog
    pure (c ++ asc ['\n','\n','(','t','r','u','n','c','a','t','e','d',' ','b','o','d','y',')','\n'])
  else pure peek

/-! ### per-packet processing of an anonymous WHIP publisher: `InboundTrack.stripTWCCExtension` -/

/-- what pion/rtp reports about a parsed packet: extension flag, profile, ids of the extension elements -/
structure RtpExt where
  ext : Bool
  profile : Nat
  ids : List Nat
  deriving DecidableEq, Repr

/-- `stripTWCCExtension`.  `getNonNil` = oracle for `pkt.GetExtension(twccID) != nil`.
`pkt.DelExtension(id)` returns an error — which the code turns into `panic(err)` in the track reader
goroutine — exactly when no element has that id. -/
def stripTWCC (twccID : Nat) (p : RtpExt) (getNonNil : Bool) : R RtpExt :=
  if twccID == 0 || !getNonNil then pure p
  else if !p.ids.contains twccID then .panic
  else
    let ids' := p.ids.erase twccID
    if ids'.isEmpty then pure ⟨false, 0, []⟩ else pure ⟨p.ext, p.profile, ids'⟩

end MtxVerif.C35
