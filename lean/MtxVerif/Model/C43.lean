/-
C43 — HLS media is served only to authorized sessions.

Model of the authorization decisions of `httpServer.onRequest` (internal/servers/hls/http_server.go)
with `muxer.findSession`, `muxer.getCDNSession`, `muxer.addSession`, `muxer.apiSessionsKick`
(muxer.go), `session.initialize` (session.go) and the muxer table of `Server.run` (server.go).

State: the paths that have a muxer, the paths whose muxer holds a CDN session, and the
`sessionsBySecret` maps of all muxers as ONE list of sessions tagged with their muxer's path (the
per-muxer map of path `d` is the sub-list with `dir = d`).  A session's secret is a fresh random UUID;
the model names it by its creation index `id` (assumption: `uuid.New` never repeats a value).

Oracles (computed by calling the libraries directly in the harness): `path.Dir` of the request path,
`net.ParseIP(..).String()` of the client address (= gin's `ClientIP()` without trusted proxies),
net/http cookie parsing, net/url query parsing and `uuid.Parse` of the carried secret (resolved to the
creation index of the session owning that secret), and the path manager's verdict on the credentials
(`auth`, decided by `AddReader`, see C03) together with whether it knows the path.
-/
import MtxVerif.Base.DriverLib

namespace MtxVerif.C43

/-- `Bearer ` -/
def kBearer : Bytes := [66, 101, 97, 114, 101, 114, 32]

/-- a carried secret after `uuid.Parse`, resolved against the secrets handed out so far -/
inductive SRef where
  | bad                 -- not a UUID (parse error; includes the empty string)
  | unk                 -- a UUID that is no session's secret
  | sess (k : Nat)      -- the secret of the k-th session created
deriving DecidableEq, Repr

structure Sess where
  id : Nat
  dir : Bytes       -- path of the muxer holding it (`session.pathName`)
  ip : Bytes        -- `session.ip`
deriving DecidableEq, Repr

structure St where
  cdnSecret : Bytes
  muxers : List Bytes := []
  cdn : List Bytes := []
  sessions : List Sess := []
  next : Nat := 0
deriving Repr

def init (cdnSecret : Bytes) : St := { cdnSecret := cdnSecret }

/-- `isCDN := s.cdnSecret != "" && Header.Get("Authorization") == "Bearer "+s.cdnSecret`
(`Header.Get` = first value, `""` when absent) -/
def isCDN (cdnSecret : Bytes) (hdrs : List Bytes) : Bool :=
  !cdnSecret.isEmpty && hdrs.headD [] == kBearer ++ cdnSecret

/-- a GET for a media playlist or a segment (`contentTyp` = mediaPlaylist / segment) -/
structure Probe where
  dir : Bytes
  ip : Bytes
  cookie : Option SRef      -- `none`: no cookie named `hlsSession`
  query : SRef              -- the `session` query parameter (absent = empty = `bad`)
  hdrs : List Bytes         -- Authorization header values
deriving Repr

/-- `findSession`: the cookie, when present, is the ONLY place looked at -/
def carried (p : Probe) : SRef :=
  match p.cookie with
  | some c => c
  | none => p.query

/-- `muxer.findSession` of the muxer of `p.dir` -/
def findSession (st : St) (p : Probe) : Option Sess :=
  match carried p with
  | .sess k =>
    match st.sessions.find? (fun s => s.id == k && s.dir == p.dir) with
    | some s => if s.ip == p.ip then some s else none
    | none => none
  | _ => none

/-- the `default:` branch of `onRequest`: is the request handed to the muxer (true) or answered 401? -/
def serve (st : St) (p : Probe) : Bool :=
  if st.muxers.contains p.dir then
    if isCDN st.cdnSecret p.hdrs then st.cdn.contains p.dir
    else (findSession st p).isSome
  else false

inductive CC where
  | query      -- `?cookieCheck=1`
  | cookie     -- `?cookieCheck=1` and the cookie `cookieCheck=1`
  | none       -- no `cookieCheck=1` in the query
deriving DecidableEq, Repr

/-- a GET for the multivariant playlist `index.m3u8` -/
structure Create where
  dir : Bytes
  ip : Bytes
  known : Bool       -- the path manager has a stream for `dir`
  cc : CC
  hdrs : List Bytes
  auth : Bool        -- the path manager admits the request's credentials for reading
deriving Repr

inductive COut where
  | okNew (k : Nat)    -- 200, session k created
  | okCdn              -- 200, served through the (new or existing) CDN session
  | denied             -- 401
  | notfound           -- 404
  | redirect           -- 302 (cookie check)
deriving DecidableEq, Repr

def addIfMissing (d : Bytes) (l : List Bytes) : List Bytes := if l.contains d then l else d :: l

/-- the `multivariantPlaylist` branch of `onRequest` -/
def create (st : St) (c : Create) : St × COut :=
  if isCDN st.cdnSecret c.hdrs then
    if st.muxers.contains c.dir && st.cdn.contains c.dir then (st, .okCdn)
    else if !c.known then (st, .notfound)                        -- AddReader (SkipAuth) fails
    else ({ st with muxers := addIfMissing c.dir st.muxers, cdn := addIfMissing c.dir st.cdn }, .okCdn)
  else if c.cc = .none then (st, .redirect)
  else if !c.auth then (st, .denied)                             -- AddReader: authentication error
  else if !c.known then (st, .notfound)                          -- AddReader: no stream
  else
    ({ st with muxers := addIfMissing c.dir st.muxers,
               sessions := ⟨st.next, c.dir, c.ip⟩ :: st.sessions,
               next := st.next + 1 }, .okNew st.next)

/-- `apiSessionsKick` of the session with secret index k -/
def kick (st : St) (k : Nat) : St × Bool :=
  ({ st with sessions := st.sessions.filter (fun s => s.id != k) }, st.sessions.any (fun s => s.id == k))

/-- the muxer of `d` is destroyed (`muxer.run` exit: all its sessions are closed, the server forgets it) -/
def closeMux (st : St) (d : Bytes) : St × Bool :=
  ({ st with muxers := st.muxers.filter (· != d), cdn := st.cdn.filter (· != d),
             sessions := st.sessions.filter (fun s => s.dir != d) }, st.muxers.contains d)

inductive Op where
  | create (c : Create)
  | probe (p : Probe)
  | kick (k : Nat)
  | closeMux (d : Bytes)
deriving Repr

def step (st : St) : Op → St
  | .create c => (create st c).1
  | .probe _ => st
  | .kick k => (kick st k).1
  | .closeMux d => (closeMux st d).1

def run (st : St) : List Op → St
  | [] => st
  | op :: rest => run (step st op) rest

/-! ### executable spec of the property, evaluated on the implementation's answers -/

/-- sessions the implementation reported as created: (secret index, path, client IP) -/
abbrev Ledger := List (Nat × Bytes × Bytes)

/-- may a session be created for this request? only for an authorized, non-CDN playlist request -/
def specCreateOk (cdnSecret : Bytes) (c : Create) : Bool :=
  c.auth && !isCDN cdnSecret c.hdrs

/-- may this request be served?  CDN secret, or the secret (cookie or query) of a session created
for the same path from the same IP -/
def specServeOk (cdnSecret : Bytes) (led : Ledger) (p : Probe) : Bool :=
  isCDN cdnSecret p.hdrs ||
  led.any fun (k, d, ip) =>
    (p.cookie == some (.sess k) || p.query == .sess k) && d == p.dir && ip == p.ip

end MtxVerif.C43
