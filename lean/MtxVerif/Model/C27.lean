/-
C27 — recordings are playable up to the last complete part at any crash point.

Two models.

(R) Reader side, byte level.  A segment file is `hdr ++ part₁ ++ … ++ partₙ`, every part is
    `box "moof" m ++ box "mdat" d` with `box t p = be32 (|p|+8) ++ t ++ p` (this is the contract trusted
    from mediacommon `fmp4.Part.Marshal`; it is tested by the harness on every recorded file).  A crash image
    is any prefix of the byte list, optionally followed by zero bytes (`image`).  `scan` is the "find last
    valid moof and mdat" loop of segmentFMP4ReadDurationFromParts, returning the offsets of all the parts it
    accepts; `MtxVerif.C28.moofLoop` — the model that C28 ties to the real code — is proved to return the
    last element of `scan` (`moofLoop_eq_scan` in Props).

(W) Writer side.  State machine of `formatFMP4Track.write` / `formatFMP4Segment.write` / `closeCurPart` /
    `close` (internal/recorder/format_fmp4_{track,segment,part}.go): pending sample per track, sample
    duration from the next sample of the same track, drift check, late-sample discard, part switch
    (`curPart.duration() >= partDuration`), segment switch (next sample of a video track — or of any track
    while no video has been seen — is a random-access sample and `nextDTS - startDTS >= segmentDuration`),
    `nextSegmentStartingPos`, segment numbers, header duration written by `close`.
    All times are `Nat` (the generator only produces non-negative timestamps; Go uses int64).
-/
import MtxVerif.Model.C28

namespace MtxVerif.C27

open MtxVerif.C28 (rd32 byteAt tagAt tMoof tMdat u32)

/-! ## (R) boxes, crash images, scan -/

def be32 (n : Nat) : Bytes :=
  [UInt8.ofNat (n / 16777216 % 256), UInt8.ofNat (n / 65536 % 256), UInt8.ofNat (n / 256 % 256), UInt8.ofNat (n % 256)]

def box (tag payload : Bytes) : Bytes := be32 (payload.length + 8) ++ tag ++ payload

structure Part where
  moof : Bytes
  mdat : Bytes
deriving Repr, DecidableEq

def encPart (p : Part) : Bytes := box tMoof p.moof ++ box tMdat p.mdat

def encParts : List Part → Bytes
  | [] => []
  | p :: r => encPart p ++ encParts r

/-- box sizes fit the 32-bit size field -/
def Part.wf (p : Part) : Prop := p.moof.length + 8 < u32 ∧ p.mdat.length + 8 < u32

def moofLen (p : Part) : Nat := p.moof.length + 8
def partLen (p : Part) : Nat := p.moof.length + 8 + (p.mdat.length + 8)

/-- what is on disk after a crash: the first `k` bytes, then `z` zero bytes (file size extended, data not
written) -/
def image (F : Bytes) (k z : Nat) : Bytes := F.take k ++ List.replicate z 0

/-- the moof/mdat loop of segmentFMP4ReadDurationFromParts: offsets of the accepted parts -/
def scan (f : Bytes) : Nat → Nat → List Nat
  | 0, _ => []
  | fuel + 1, pos =>
    if f.length < pos + 8 then [] else
    if tagAt f (pos + 4) != tMoof then [] else
    let p2 := pos + rd32 f pos
    if f.length < p2 + 8 then [] else
    if tagAt f (p2 + 4) != tMdat then [] else
    pos :: scan f fuel (p2 + rd32 f p2)

/-- the parts the scan is expected to accept from an image cut at `k`: a part is accepted iff its moof box
and the 8-byte header of its mdat box lie inside the kept prefix. -/
def accepted (off k : Nat) : List Part → List Nat
  | [] => []
  | p :: r => if off + moofLen p + 8 ≤ k then off :: accepted (off + partLen p) k r else []

/-- parts that are completely inside the kept prefix -/
def complete (off k : Nat) : List Part → List Nat
  | [] => []
  | p :: r => if off + partLen p ≤ k then off :: complete (off + partLen p) k r else []

/-! ## (W) writer -/

structure TrackCfg where
  video : Bool
  rate : Nat
deriving Repr, DecidableEq

structure Cfg where
  tracks : List TrackCfg
  segDur : Nat
  partDur : Nat
deriving Repr

/-- one sample handed to `formatFMP4Track.write` -/
structure In where
  track : Nat
  dts : Nat          -- track clock units
  ntp : Int          -- unix ns
  nonSync : Bool
  id : Nat
deriving Repr, DecidableEq

/-- timestampToDuration (multiplyAndDivide2) -/
def toDur (t rate : Nat) : Nat := (t / rate) * 1000000000 + (t % rate) * 1000000000 / rate

/-- multiplyAndDivide(v, rate, 1e9) -/
def toClock (v rate : Nat) : Nat := (v / 1000000000) * rate + (v % 1000000000) * rate / 1000000000

/-- a sample as written into a part -/
structure WS where
  id : Nat
  track : Nat
  dur : Nat          -- clock units, uint32
  nonSync : Bool
  dts : Nat          -- ns
  fin : Nat          -- ns: dts + duration
deriving Repr, DecidableEq

structure PTrack where
  tid : Nat          -- track index (fMP4 id = tid + 1)
  base : Nat
  samples : List WS
deriving Repr, DecidableEq

structure PartSt where
  start : Nat
  fin : Nat
  tracks : List PTrack
  all : List WS      -- in write order
deriving Repr, DecidableEq

structure SegSt where
  number : Nat
  startDTS : Nat
  startNTP : Int
  endDTS : Nat
  flushed : List PartSt
  cur : Option PartSt
  trigger : Option Nat := none   -- track whose next sample caused the segment switch that created it
deriving Repr, DecidableEq

/-- a segment file -/
structure FileSt where
  number : Nat
  startDTS : Nat
  startNTP : Int
  hdrMs : Nat          -- mvhd.DurationV0 (0 while the segment is open)
  parts : List PartSt
  trigger : Option Nat := none
  torn : Nat := 0      -- bytes left behind by a part write that failed (write error, process continues)
deriving Repr, DecidableEq

structure St where
  pend : List (Option In) := []
  startI : List (Option (Nat × Int)) := []
  hasVideo : Bool := false
  seg : Option SegSt := none
  nextNumber : Nat := 0
  files : List FileSt := []
  closed : Bool := false
  /-- (segment number, track): a video track's pending sample was discarded as "received too late" while the
      track had no sample in that segment yet -/
  drops : List (Nat × Nat) := []
deriving Repr

def init (c : Cfg) : St :=
  { pend := c.tracks.map (fun _ => none), startI := c.tracks.map (fun _ => none) }

def addToPart (p : PartSt) (w : WS) (base : Nat) : PartSt :=
  let tracks :=
    if p.tracks.any (fun t => t.tid == w.track) then
      p.tracks.map (fun t => if t.tid == w.track then { t with samples := t.samples ++ [w] } else t)
    else p.tracks ++ [⟨w.track, base, [w]⟩]
  { p with tracks := tracks, all := p.all ++ [w], fin := max p.fin w.fin }

/-- formatFMP4Segment.write -/
def segWrite (c : Cfg) (sg : SegSt) (w : WS) (rate : Nat) : SegSt :=
  let sg := { sg with endDTS := max sg.endDTS w.fin }
  let base := toClock (w.dts - sg.startDTS) rate
  match sg.cur with
  | none => { sg with cur := some (addToPart ⟨w.dts, 0, [], []⟩ w base) }
  | some p =>
    if p.fin - p.start ≥ c.partDur then
      { sg with flushed := sg.flushed ++ [p], cur := some (addToPart ⟨w.dts, 0, [], []⟩ w base) }
    else { sg with cur := some (addToPart p w base) }

def segParts (sg : SegSt) : List PartSt :=
  match sg.cur with
  | some p => sg.flushed ++ [p]
  | none => sg.flushed

/-- formatFMP4Segment.close: flush the current part, write the duration; a file exists iff a part was written -/
def segClose (sg : SegSt) : Option FileSt :=
  if (segParts sg).isEmpty then none
  else some ⟨sg.number, sg.startDTS, sg.startNTP, ((sg.endDTS - sg.startDTS) / 1000000) % u32, segParts sg, sg.trigger, 0⟩

/-- what is on disk for an open segment (crash at a write boundary): the flushed parts, header duration 0 -/
def segCrash (sg : SegSt) : Option FileSt :=
  if sg.flushed.isEmpty then none else some ⟨sg.number, sg.startDTS, sg.startNTP, 0, sg.flushed, sg.trigger, 0⟩

def rateOf (c : Cfg) (t : Nat) : Nat := (c.tracks.getD t ⟨false, 1⟩).rate
def isVideo (c : Cfg) (t : Nat) : Bool := (c.tracks.getD t ⟨false, 1⟩).video

/-- nextSegmentStartingPos -/
def nextStart (c : Cfg) (pend : List (Option In)) : Int × Nat :=
  let ds : List (Nat × Int) := (pend.zipIdx.filterMap fun (p, i) => p.map fun x => (toDur x.dts (rateOf c i), x.ntp))
  let maxDTS := ds.foldl (fun m d => max m d.1) 0
  ds.foldl (fun (acc : Int × Nat) (d : Nat × Int) =>
    if maxDTS - d.1 ≤ 1000000000 ∧ d.1 ≤ acc.2 then (d.2, d.1) else acc) ((0 : Int), maxDTS)

def ntpDriftTolerance : Int := 5000000000

/-- the instance terminates (error or normal close): the current segment is closed -/
def closeInst (s : St) : St :=
  match s.seg with
  | none => { s with closed := true }
  | some sg => { s with closed := true, seg := none, files := s.files ++ (segClose sg).toList }

def freshSeg (number dts : Nat) (ntp : Int) (trigger : Option Nat := none) : SegSt :=
  { number := number, startDTS := dts, startNTP := ntp, endDTS := dts, flushed := [], cur := none, trigger := trigger }

/-- all samples written into the segment so far, in write order -/
def segSamples (sg : SegSt) : List WS := (segParts sg).flatMap (·.all)

def segHas (sg : SegSt) (tid : Nat) : Bool := (segSamples sg).any (fun w => w.track == tid)

/-- `if t.f.currentSegment == nil { create }` -/
def curSeg (s : St) (dts : Nat) (ntp : Int) : SegSt :=
  match s.seg with
  | none => freshSeg s.nextNumber dts ntp
  | some sg => sg

def curNext (s : St) : Nat :=
  match s.seg with
  | none => s.nextNumber + 1
  | some _ => s.nextNumber

/-- `else if (dts - startDTS) < 0 { discard }` -/
def lateP (s : St) (dts : Nat) : Bool :=
  match s.seg with
  | none => false
  | some sg => decide (dts < sg.startDTS)

def driftErr (s : St) (track dts : Nat) (ntp : Int) : Bool :=
  match s.startI.getD track none with
  | none => false
  | some (sd, sn) =>
    let drift : Int := (ntp - sn) - ((dts : Int) - (sd : Int))
    decide (drift < -ntpDriftTolerance ∨ drift > ntpDriftTolerance)

def newStartI (s : St) (track dts : Nat) (ntp : Int) : List (Option (Nat × Int)) :=
  match s.startI.getD track none with
  | none => s.startI.set track (some (dts, ntp))
  | some _ => s.startI

/-- duration < 0: the next sample is moved onto this one -/
def adjNext (x smp : In) : In := if x.dts < smp.dts then { x with dts := smp.dts } else x

def mkWS (c : Cfg) (x smp : In) : WS :=
  let rate := rateOf c x.track
  let dur := ((adjNext x smp).dts - smp.dts) % u32
  let dts := toDur smp.dts rate
  ⟨smp.id, x.track, dur, smp.nonSync, dts, dts + toDur dur rate⟩

def switchCond (c : Cfg) (hasVideo : Bool) (x nx : In) (sg : SegSt) : Bool :=
  (!hasVideo || isVideo c x.track) && !nx.nonSync && decide (toDur nx.dts (rateOf c x.track) ≥ sg.startDTS + c.segDur)

/-- formatFMP4Track.write -/
def write (c : Cfg) (s : St) (x : In) : St :=
  if s.closed then s else
  match s.pend.getD x.track none with
  | none => { s with hasVideo := s.hasVideo || isVideo c x.track, pend := s.pend.set x.track (some x) }
  | some smp =>
    let hasVideo := s.hasVideo || isVideo c x.track
    let nx := adjNext x smp
    let w := mkWS c x smp
    let s1 : St := { s with hasVideo := hasVideo, pend := s.pend.set x.track (some nx),
                            startI := newStartI s x.track w.dts smp.ntp }
    if driftErr s x.track w.dts smp.ntp then closeInst s1 else
    let sg := curSeg s w.dts smp.ntp
    let nn := curNext s
    if lateP s w.dts then
      { s1 with seg := some sg, nextNumber := nn,
                drops := if isVideo c x.track && !segHas sg x.track then s.drops ++ [(sg.number, x.track)] else s.drops }
    else
    let sg2 := segWrite c sg w (rateOf c x.track)
    if switchCond c hasVideo x nx sg2 then
      { s1 with seg := some (freshSeg nn (nextStart c s1.pend).2 (nextStart c s1.pend).1 (some x.track)),
                nextNumber := nn + 1,
                files := s.files ++ (segClose sg2).toList }
    else { s1 with seg := some sg2, nextNumber := nn }

/-- the OnData callback of a video format (AV1, VP9, H264, H265, MPEG-4, MPEG-1 video in format_fmp4.go): units before
the first random-access unit are dropped (`firstReceived` / `dtsExtractor == nil`).  The flag becomes true exactly when
`track.write` is called for the first time, which is also when `track.nextSample` becomes non-nil for good — so
"gate closed" is `pend[track] = none`. -/
def gwrite (c : Cfg) (s : St) (x : In) : St :=
  if isVideo c x.track && (s.pend.getD x.track none).isNone && x.nonSync then s else write c s x

def grun (c : Cfg) (s : St) : List In → St
  | [] => s
  | x :: r => grun c (gwrite c s x) r

/-- first sample of track `tid` in the file -/
def firstOf (tid : Nat) (parts : List PartSt) : Option WS := (parts.flatMap (·.all)).find? (fun w => w.track == tid)

/-- "begins with a random-access sample": the first sample of every video track of the file is one -/
def fileSync (c : Cfg) (f : FileSt) : Bool :=
  (List.range c.tracks.length).all fun tid =>
    !isVideo c tid || (match firstOf tid f.parts with | some w => !w.nonSync | none => true)

/-- **write error on a part flush, the process continues**: the storage accepts `n` more bytes of the current segment
file and then fails (n smaller than any part).  `step` is `write` or `gwrite`.  If this step flushes a part into the
existing file (part switch or segment switch), the flush fails: `formatFMP4Segment.write` sets
`curPart = nil` BEFORE looking at the error, so the failed part is dropped (never written again), the error stops the
instance, `close` writes the duration and closes the file: header + the parts flushed before + `n` torn bytes. -/
def writeFault (step : Cfg → St → In → St) (c : Cfg) (s : St) (x : In) (n : Nat) : St :=
  match s.seg with
  | none => step c s x
  | some sg =>
    if sg.flushed.isEmpty then step c s x else      -- the segment file does not exist yet: nothing is injected
    let s' := step c s x
    let fault (f : FileSt) : St :=
      { s' with closed := true, seg := none,
                files := s.files ++ [{ f with parts := sg.flushed, torn := n }] }
    -- drift error: track.write returns the error BEFORE writing anything; the part is flushed when the instance closes,
    -- i.e. after the error has been reported and the storage works again: nothing fails
    if s'.closed then s' else
    if s'.files.length > s.files.length then
      match s'.files.getLast? with
      | some f => if f.number == sg.number && f.parts.length > sg.flushed.length then fault f else s'
      | none => s'
    else
      match s'.seg with
      | some sg2 =>
        if sg2.number == sg.number && sg2.flushed.length > sg.flushed.length then
          fault ⟨sg2.number, sg2.startDTS, sg2.startNTP, ((sg2.endDTS - sg2.startDTS) / 1000000) % u32, sg.flushed, sg2.trigger, n⟩
        else s'
      | none => s'

def run (c : Cfg) (s : St) : List In → St
  | [] => s
  | x :: r => run c (write c s x) r

/-- normal termination (formatFMP4.close) -/
def close (s : St) : St :=
  if s.closed then s else closeInst s

/-- crash at a write boundary -/
def crash (s : St) : List FileSt :=
  match s.seg with
  | none => s.files
  | some sg => s.files ++ (segCrash sg).toList

/-- segmentFMP4CanBeConcatenated, mtxi branch: same stream id, consecutive numbers -/
def canConcat (sid1 : Nat) (n1 : Nat) (sid2 : Nat) (n2 : Nat) : Bool := sid1 == sid2 && n1 + 1 == n2

/-- duration the playback server reads back from a closed header: `DurationV0 * time.Second / 1000` -/
def readHdr (ms : Nat) : Nat := ms * 1000000000 / 1000

/-! ### canonical text -/

def fmtWS (w : WS) : String := s!"{w.id}/{w.dur}/" ++ (if w.nonSync then "n" else "k")

def insertTrack (t : PTrack) : List PTrack → List PTrack
  | [] => [t]
  | x :: r => if t.tid < x.tid then t :: x :: r else x :: insertTrack t r

def sortTracks (l : List PTrack) : List PTrack := l.foldl (fun acc t => insertTrack t acc) []

def fmtPart (p : PartSt) : String :=
  "|".intercalate ((sortTracks p.tracks).map fun t =>
    s!"t{t.tid + 1}@{t.base}:" ++ ",".intercalate (t.samples.map fmtWS))

def fmtFile (f : FileSt) : String :=
  s!"#{f.number} dts={f.startDTS} ntp={f.startNTP} hdr={f.hdrMs} [" ++ ";".intercalate (f.parts.map fmtPart) ++ "]"
    ++ (if f.torn != 0 then s!" torn={f.torn}" else "")

def fmtFiles (l : List FileSt) : String := if l.isEmpty then "none" else " ".intercalate (l.map fmtFile)

/-! ## byte-level view of a recorded file (executable; used by the driver to read real files)

`parsePart` reads one `moof`+`mdat` pair as `fmp4.Part.Marshal` lays it out: moof{mfhd, traf{tfhd,tfdt,trun}*} mdat.
It is the driver's statement of the marshalling contract; every file the real recorder produces is checked
against it and against the writer model (`file` op). -/

structure SInfo where
  id : Nat
  dur : Nat
  size : Nat
  nonSync : Bool
  dataOff : Nat      -- absolute offset of the payload
deriving Repr, DecidableEq

structure TInfo where
  tid : Nat          -- fMP4 track id
  base : Nat
  samples : List SInfo
deriving Repr, DecidableEq

structure PInfo where
  off : Nat
  moofLen : Nat
  mdatLen : Nat
  tracks : List TInfo
deriving Repr, DecidableEq

def tMfhd : Bytes := asc ['m', 'f', 'h', 'd']
def tTraf : Bytes := asc ['t', 'r', 'a', 'f']
def tTfhd : Bytes := asc ['t', 'f', 'h', 'd']
def tTfdt : Bytes := asc ['t', 'f', 'd', 't']
def tTrun : Bytes := asc ['t', 'r', 'u', 'n']

def bitSet (v k : Nat) : Bool := (v / k) % 2 == 1

/-- sample id carried in the payload: 4 bytes big endian; in gated mode (AV1) after the optional sequence-header OBU
(0x0a, size, …) and the frame OBU header (0x32, size) -/
def sampleId (f : Bytes) (off : Nat) : Nat :=
  let off := if byteAt f off == 10 then off + 2 + byteAt f (off + 1) else off
  let off := if byteAt f off == 50 then off + 2 else off
  rd32 f off

/-- entries of a trun (flags as written by mediacommon: data-offset, duration, size, optional flags / cto) -/
def trunEntries (f : Bytes) (moofOff pos : Nat) : Option (List SInfo) :=
  let fl := byteAt f (pos + 9) * 65536 + byteAt f (pos + 10) * 256 + byteAt f (pos + 11)
  let cnt := rd32 f (pos + 12)
  if !bitSet fl 1 || !bitSet fl 256 || !bitSet fl 512 then none else
  let dataOff := rd32 f (pos + 16)
  let es := 8 + (if bitSet fl 1024 then 4 else 0) + (if bitSet fl 2048 then 4 else 0)
  let hdr := pos + 20 + (if bitSet fl 4 then 4 else 0)
  let r := (List.range cnt).foldl (fun (acc : List SInfo × Nat) i =>
      let e := hdr + i * es
      let dur := rd32 f e
      let sz := rd32 f (e + 4)
      let ns := bitSet fl 1024 && bitSet (rd32 f (e + 8)) 65536
      (acc.1 ++ [⟨sampleId f acc.2, dur, sz, ns, acc.2⟩], acc.2 + sz)) ([], moofOff + dataOff)
  some r.1

def parseTrafs (f : Bytes) (moofOff : Nat) : Nat → Nat → Nat → Option (List TInfo)
  | 0, _, _ => none
  | fuel + 1, pos, fin =>
    if pos == fin then some [] else
    if fin < pos + 8 || tagAt f (pos + 4) != tTraf then none else
    let tsz := rd32 f pos
    -- tfhd
    let p1 := pos + 8
    if tagAt f (p1 + 4) != tTfhd then none else
    let tid := rd32 f (p1 + 12)
    let p2 := p1 + rd32 f p1
    if tagAt f (p2 + 4) != tTfdt then none else
    let base := C28.rd64 f (p2 + 12)
    let p3 := p2 + rd32 f p2
    if tagAt f (p3 + 4) != tTrun then none else
    if p3 + rd32 f p3 != pos + tsz || tsz < 8 then none else
    match trunEntries f moofOff p3, parseTrafs f moofOff fuel (pos + tsz) fin with
    | some ss, some rest => some (⟨tid, base, ss⟩ :: rest)
    | _, _ => none

def parsePart (f : Bytes) (off : Nat) : Option PInfo :=
  if f.length < off + 8 || tagAt f (off + 4) != tMoof then none else
  let m := rd32 f off
  if f.length < off + m + 8 || m < 24 then none else
  if tagAt f (off + 12) != tMfhd || rd32 f (off + 8) != 16 then none else
  if tagAt f (off + m + 4) != tMdat then none else
  let d := rd32 f (off + m)
  if f.length < off + m + d || d < 8 then none else
  match parseTrafs f off (f.length + 1) (off + 24) (off + m) with
  | none => none
  | some ts => some ⟨off, m, d, ts⟩

def parseParts (f : Bytes) : Nat → Nat → List PInfo
  | 0, _ => []
  | fuel + 1, off =>
    match parsePart f off with
    | none => []
    | some p => p :: parseParts f fuel (off + p.moofLen + p.mdatLen)

def findTag (f : Bytes) (tag : Bytes) (lim : Nat) : Option Nat :=
  (List.range lim).find? (fun i => tagAt f i == tag)

def tMtxi : Bytes := asc ['m', 't', 'x', 'i']
def tMvhd : Bytes := asc ['m', 'v', 'h', 'd']

structure HInfo where
  hlen : Nat
  number : Nat
  dts : Nat
  ntp : Nat
  hdrMs : Nat
  sid : Nat
deriving Repr, DecidableEq

def parseHeader (f : Bytes) : Option HInfo :=
  if f.length < 8 then none else
  let fs := rd32 f 0
  if f.length < fs + 8 then none else
  let h := fs + rd32 f fs
  if f.length < h then none else
  match findTag f tMtxi h, findTag f tMvhd h with
  | some i, some j =>
    some ⟨h, C28.rd64 f (i + 24), C28.rd64 f (i + 32), C28.rd64 f (i + 40), rd32 f (j + 20),
      byteAt f (i + 8) * 256 + byteAt f (i + 9)⟩
  | _, _ => none

def fmtSInfo (s : SInfo) : String := s!"{s.id}/{s.dur}/" ++ (if s.nonSync then "n" else "k")

def insertTI (t : TInfo) : List TInfo → List TInfo
  | [] => [t]
  | x :: r => if t.tid < x.tid then t :: x :: r else x :: insertTI t r

def fmtPInfo (p : PInfo) : String :=
  "|".intercalate ((p.tracks.foldl (fun acc t => insertTI t acc) []).map fun t =>
    s!"t{t.tid}@{t.base}:" ++ ",".intercalate (t.samples.map fmtSInfo))

def fmtParsed (h : HInfo) (ps : List PInfo) : String :=
  s!"#{h.number} dts={h.dts} ntp={h.ntp} hdr={h.hdrMs} [" ++ ";".intercalate (ps.map fmtPInfo) ++ "]"

/-- sample ids per track (sorted by track id), as the get path serves them -/
def servedOf (ps : List PInfo) : String :=
  let all := ps.flatMap (·.tracks)
  let tids := (all.map (·.tid)).eraseDups
  let sorted := tids.foldl (fun acc t => if acc.any (· == t) then acc else
      (acc.filter (· < t)) ++ [t] ++ (acc.filter (· > t))) ([] : List Nat)
  if sorted.isEmpty then "-" else
  "|".intercalate (sorted.map fun t =>
    s!"t{t}:" ++ ",".intercalate ((all.filter (·.tid == t)).flatMap (fun x => x.samples.map (fun s => toString s.id))))

end MtxVerif.C27
