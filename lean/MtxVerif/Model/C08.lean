/-
C08 — configuration survives JSON encode/decode round trips (internal/conf/duration.go,
internal/conf/string_size.go; whole configuration by correspondence).

Modelled (the code as of /repo commits 834859b and 6496753)
* `Duration.marshalInternal` (`marshalDur`: sign + unsigned magnitude split into days and the rest) and
  `unmarshalInternal` at the text level: the regular expression `^(-?[0-9]+)d`, `strconv.ParseInt` with its ignored
  range error (clamping), int64 wrap-around. `time.Duration.String` / `time.ParseDuration` are oracle parameters.
* `StringSize.MarshalJSON` (`marshalSS`: integer count of the largest unit that divides the value) and the integer
  parser in front of bytefmt (`roundTripSS`).
Kept for the record, with the theorems that characterise the two defects that were fixed (F-C08, F-C08b):
* `marshalDurOld` (negated the int64: MinInt64 was written as "--…"),
* `…Bytefmt`: bytefmt `ByteSize` = (tenths, unit) with round-half-even of the exact quotient (float64 is exact
  below 2^53, division by a power of two is exact), `ToBytes` of that text = ⌊tenths · unit / 10⌋.
-/
import MtxVerif.Base.DriverLib

namespace MtxVerif.C08

open Lean in
/-- `b!"abc"` : kernel-reducible ASCII literal. -/
macro:max "b!" s:str : term => do
  let cs : Array (TSyntax `term) := s.getString.toList.toArray.map fun c => ⟨Syntax.mkCharLit c⟩
  `(asc [$cs,*])

/-! ### int64 -/

def two63 : Int := 9223372036854775808
def minI64 : Int := -two63
def maxI64 : Int := two63 - 1

/-- two's complement wrap-around of Go's int64 arithmetic -/
def wrap64 (x : Int) : Int := (x + two63) % (2 * two63) - two63

/-- 24 hours in nanoseconds -/
def day : Int := 86400000000000

/-! ### decimal text -/

def isDigit (c : UInt8) : Bool := 48 ≤ c && c ≤ 57

def decFuel : Nat → Nat → Bytes → Bytes
  | 0, _, acc => acc
  | f + 1, n, acc =>
    let acc' := UInt8.ofNat (48 + n % 10) :: acc
    if n / 10 = 0 then acc' else decFuel f (n / 10) acc'

/-- `strconv.FormatInt(n, 10)` for `0 ≤ n < 10^25` -/
def dec (n : Nat) : Bytes := decFuel 25 n []

/-- value of a digit string -/
def digitsVal (ds : Bytes) : Nat := ds.foldl (fun acc c => acc * 10 + (c.toNat - 48)) 0

/-! ### Duration -/

/-- `Duration.marshalInternal` BEFORE 6496753 (`fmt` = `time.Duration.String`): `d = -d` overflows at MinInt64 -/
def marshalDurOld (fmt : Int → Bytes) (d : Int) : Bytes :=
  let neg := decide (d < 0)
  let d1 := if neg then wrap64 (-d) else d          -- `d = -d` (MinInt64 stays MinInt64)
  let days := Int.tdiv d1 day                       -- Go `/` and `%` truncate toward zero
  let nonDays := Int.tmod d1 day
  (if neg then [45] else []) ++
  (if days > 0 then dec days.toNat ++ [100] else []) ++
  (if nonDays ≠ 0 then fmt nonDays else [])

/-- the regular expression `^(-?[0-9]+)d`: (has minus sign, digits, text after the match) -/
def daysPrefix (s : Bytes) : Option (Bool × Bytes × Bytes) :=
  let neg := s.head? == some 45
  let r := if neg then s.drop 1 else s
  let ds := r.takeWhile isDigit
  if ds.isEmpty then none
  else match r.drop ds.length with
    | 100 :: rest => some (neg, ds, rest)
    | _ => none

/-- `strconv.ParseInt(m[1], 10, 64)` with the error ignored: out-of-range values come back clamped -/
def parseIntClamp (neg : Bool) (ds : Bytes) : Int :=
  let v : Int := digitsVal ds
  if neg then (if -v < minI64 then minI64 else -v) else (if v > maxI64 then maxI64 else v)

/-- the first half of `unmarshalInternal`: (negative, days, text left for `time.ParseDuration`) -/
def splitDays (s : Bytes) : Bool × Int × Bytes :=
  match daysPrefix s with
  | some (neg, ds, rest) =>
    let v := parseIntClamp neg ds
    if v < 0 then (true, wrap64 (-v), rest) else (false, v, rest)
  | none => (false, 0, s)

/-- `Duration.unmarshalInternal` (`parse` = `time.ParseDuration`, `none` = error) -/
def unmarshalDur (parse : Bytes → Option Int) (s : Bytes) : Option Int :=
  let t := splitDays s
  match (if t.2.2.isEmpty then some 0 else parse t.2.2) with
  | none => none
  | some nd =>
    -- nonDays += time.Duration(days) * 24 * time.Hour   (wrapping; wrap64 is a ring homomorphism)
    let total := wrap64 (nd + t.2.1 * day)
    some (if t.1 then wrap64 (-total) else total)

/-- `Duration.marshalInternal`: the unsigned magnitude is split, so MinInt64 needs no special case -/
def marshalDur (fmt : Int → Bytes) (d : Int) : Bytes :=
  let neg := decide (d < 0)
  let mag : Int := if neg then -d else d            -- as uint64: 0 … 2^63
  let days := mag / day
  let nonDays := mag % day
  (if neg then [45] else []) ++
  (if days > 0 then dec days.toNat ++ [100] else []) ++
  (if nonDays ≠ 0 then fmt nonDays else [])

/-! ### StringSize (bytefmt) -/

/-- unit index chosen by `ByteSize`: largest k ≤ 6 with 1024^k ≤ s -/
def unitIdx (s : Nat) : Nat :=
  if s ≥ 1024 ^ 6 then 6 else if s ≥ 1024 ^ 5 then 5 else if s ≥ 1024 ^ 4 then 4
  else if s ≥ 1024 ^ 3 then 3 else if s ≥ 1024 ^ 2 then 2 else if s ≥ 1024 then 1 else 0

def unitLetter (k : Nat) : UInt8 :=
  match k with | 0 => 66 | 1 => 75 | 2 => 77 | 3 => 71 | 4 => 84 | 5 => 80 | _ => 69   -- B K M G T P E

/-- round-half-even of n / u -/
def rhe (n u : Nat) : Nat :=
  let q := n / u
  let r := n % u
  if 2 * r > u then q + 1 else if 2 * r = u then (if q % 2 = 1 then q + 1 else q) else q

/-- `ByteSize(s)` as (number of tenths, unit index): `strconv.FormatFloat(s/unit, 'f', 1, 64)` -/
def byteSizeQ (s : Nat) : Nat × Nat := (rhe (10 * s) (1024 ^ unitIdx s), unitIdx s)

/-- the text: integer part, optional ".d" (".0" is trimmed), unit letter; `0` is "0B" -/
def renderQ (qk : Nat × Nat) : Bytes :=
  dec (qk.1 / 10) ++ (if qk.1 % 10 = 0 then [] else 46 :: dec (qk.1 % 10)) ++ [unitLetter qk.2]

/-- `ToBytes` of such a text: `uint64(float * unit)` -/
def toBytesQ (qk : Nat × Nat) : Nat := qk.1 * 1024 ^ qk.2 / 10

def marshalSSBytefmt (s : Nat) : Bytes := renderQ (byteSizeQ s)

/-- value read back after `MarshalJSON` → `UnmarshalJSON` -/
def roundTripSSBytefmt (s : Nat) : Nat := toBytesQ (byteSizeQ s)

/-- does the value survive? (decidable class of F-C08 is the complement, below 2^50) -/
def rtOKBytefmt (s : Nat) : Bool := roundTripSSBytefmt s == s

/-- `StringSize.MarshalJSON`: exact, an integer count of the largest unit that divides the value -/
def exactIdxFuel : Nat → Nat → Nat → Nat
  | 0, _, k => k
  | f + 1, s, k => if k < 6 ∧ s ≠ 0 ∧ s % 1024 = 0 then exactIdxFuel f (s / 1024) (k + 1) else k

def exactIdx (s : Nat) : Nat := exactIdxFuel 6 s 0

def marshalSS (s : Nat) : Bytes := dec (s / 1024 ^ exactIdx s) ++ [unitLetter (exactIdx s)]

def roundTripSS (s : Nat) : Nat := (s / 1024 ^ exactIdx s) * 1024 ^ exactIdx s

/-! ### helpers for the driver -/

def ltBytes : Bytes → Bytes → Bool
  | [], [] => false
  | [], _ => true
  | _, [] => false
  | a :: as, b :: bs => a < b || (a == b && ltBytes as bs)

def insertSorted (x : Bytes) : List Bytes → List Bytes
  | [] => [x]
  | y :: ys => if ltBytes y x then y :: insertSorted x ys else x :: y :: ys

/-- `sort.Strings` -/
def sortBytes (l : List Bytes) : List Bytes := l.foldr insertSorted []

end MtxVerif.C08
