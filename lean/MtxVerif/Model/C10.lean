/-
C10 — loading a configuration never panics and accepted configurations satisfy the documented
constraints (internal/conf/conf.go `Load`/`Validate`, internal/conf/path.go `Path.validate`,
internal/conf/decrypt/decrypt.go).

What is modelled
* `decrypt`      : `decrypt.Decrypt` with base64 and secretbox as oracle parameters; the slicing
                   `enc[:24]`, `enc[24:]` is explicit and guarded by the length check.
* `envNilReceiver`: regression record — the class of environment keys for which `env.loadEnvInternal` called
                   `UnmarshalEnv` on a nil pointer before /repo 7bda13e (modelled exactly in C09).
* `validate`     : `Conf.Validate` + `Path.validate` on an abstract view `ConfV` of the configuration (every
                   field a check or a deprecated-parameter override looks at). URL/regexp/path-name/MP4
                   validity are oracle booleans carried in the view.
* `constraints`  : the executable spec — the documented constraints as a decidable predicate on the view
                   of an ACCEPTED configuration.
YAML/JSON decoding and env decoding are not modelled (oracle: the view handed to Validate).
-/
import MtxVerif.Base.DriverLib

namespace MtxVerif.C10

abbrev Str := Bytes

open Lean in
/-- `b!"abc"` : kernel-reducible ASCII literal. -/
macro:max "b!" s:str : term => do
  let cs : Array (TSyntax `term) := s.getString.toList.toArray.map fun c => ⟨Syntax.mkCharLit c⟩
  `(asc [$cs,*])

/-! ### outcome of a step that may panic -/

inductive Outcome (α : Type) where
  | ok (a : α)
  | err
  | panic
deriving Repr, DecidableEq

/-! ### decrypt.Decrypt -/

/-- `copy(secretKey[:], key)` into a zeroed `[32]byte`. -/
def key32 (key : Bytes) : Bytes := key.take 32 ++ List.replicate (32 - key.length) 0

/-- `decrypt.Decrypt(key, file)` (as of /repo a83b2fa: with the length check). `b64 =
base64.StdEncoding.DecodeString`, `sopen key nonce box = secretbox.Open(nil, box, &nonce, &key)`. -/
def decrypt (b64 : Bytes → Option Bytes) (sopen : Bytes → Bytes → Bytes → Option Bytes)
    (key file : Bytes) : Outcome Bytes :=
  match b64 file with
  | none => .err
  | some enc =>
    if enc.length < 24 then .err              -- "encrypted content is too short"
    else match sopen (key32 key) (enc.take 24) (enc.drop 24) with   -- enc[:24], enc[24:]
      | none => .err
      | some p => .ok p

/-- the function BEFORE a83b2fa, kept as the regression record of F-C10: no length check, so `enc[:24]` is a
slice-bounds panic for a short ciphertext. -/
def decryptUnchecked (b64 : Bytes → Option Bytes) (sopen : Bytes → Bytes → Bytes → Option Bytes)
    (key file : Bytes) : Outcome Bytes :=
  match b64 file with
  | none => .err
  | some enc =>
    if enc.length < 24 then .panic
    else match sopen (key32 key) (enc.take 24) (enc.drop 24) with
      | none => .err
      | some p => .ok p

/-- One `os.LookupEnv("…_CONFKEY")` stage of `loadFromFile`, with the oracle answers for the bytes that
reach it. `none` = the variable is not set. -/
structure StageCol where
  key : Bytes
  b64 : Option Bytes
  opened : Option Bytes

def stage : Option StageCol → Outcome Unit
  | none => .ok ()
  | some s =>
    match decrypt (fun _ => s.b64) (fun _ _ _ => s.opened) s.key [] with
    | .ok _ => .ok ()
    | .err => .err
    | .panic => .panic

/-- decryption part of `loadFromFile`: RTSP_CONFKEY first, then MTX_CONFKEY. -/
def loadDecrypt (rk mk : Option StageCol) : Outcome Unit :=
  match stage rk with
  | .ok _ => stage mk
  | o => o

/-! ### env: regression record of the last panic of the loader (fixed in /repo 7bda13e) -/

/-- `pu` = variable names of optional (pointer) parameters with an `UnmarshalEnv` method that are unset after the
file has been read. `loadEnvInternal` applies its "some variable has this prefix ⇒ call UnmarshalEnv with the empty
string" rule to them too and the method dereferences its nil receiver: a variable that merely EXTENDS such a name
(and the name itself not being set) panics. (Exact model and proposed fix: C09.) -/
def envNilReceiver (pu keys : List Bytes) : Bool :=
  pu.any fun n => !keys.contains n && keys.any fun k => n.isPrefixOf k && k != n

/-! ### byte-string helpers (strings.HasPrefix / Contains / Split) -/

def hasPrefix (p s : Str) : Bool := p.isPrefixOf s

def containsSub (sub : Str) : Str → Bool
  | [] => sub.isEmpty
  | c :: cs => sub.isPrefixOf (c :: cs) || containsSub sub cs

def splitByteAux (sep : UInt8) : Str → Str → List Str
  | [], acc => [acc.reverse]
  | c :: cs, acc => if c = sep then acc.reverse :: splitByteAux sep cs [] else splitByteAux sep cs (c :: acc)

/-- `strings.Split(s, ":")` for a one-byte separator. -/
def splitByte (sep : UInt8) (s : Str) : List Str := splitByteAux sep s []

/-! ### the abstract view of a configuration -/

structure User where
  user : Str
  pass : Str
deriving DecidableEq, Repr, Inhabited

structure Fwd where
  dest : Str
  urlOk : Bool      -- oracle: validateForwardDest(dest) succeeded
  scheme : Str      -- oracle: scheme of the parsed URL
deriving DecidableEq, Repr, Inhabited

structure PathV where
  name : Str := []
  nameValid : Bool := false     -- oracle: IsValidPathName(name) == nil
  reOk : Bool := false          -- oracle: regexp.Compile(name[1:]) == nil
  depc : Bool := false          -- one of the six deprecated credential parameters is set on the path
  hasRec : Bool := false        -- the path sets record / recordPath / recordSegmentDuration / recordDeleteAfter itself
  hasRp : Bool := false
  hasSd : Bool := false
  hasDa : Bool := false
  source : Str := []
  urlOk : Bool := false         -- oracle: validateURL(source) == nil
  hostPortOk : Bool := false    -- oracle: net.SplitHostPort(u.Host) == nil
  redirect : Str := []
  redirectOk : Bool := false    -- oracle: checkRedirect(sourceRedirect) == nil
  srtPubPass : Str := []
  srtReadPass : Str := []
  sod : Bool := false
  sdpEmpty : Bool := true
  dpo : Option Bool := none
  overridePublisher : Bool := false
  fallback : Option Str := none
  fallbackOk : Bool := false    -- oracle: checkRedirect(*fallback) == nil
  forward : List Fwd := []
  aa : Bool := false
  aaTracks : Nat := 0
  aaFile : Str := []
  aaFileOk : Bool := false      -- oracle: checkAlwaysAvailableFile == nil
  useAbs : Bool := false
  runOnDemand : Str := []
  runOnUnDemand : Str := []
  runOnInit : Str := []
  record : Bool := false
  recordPath : Str := []
  segDur : Int := 0
  delAfter : Int := 0
  pubUser : Option Str := none
  pubPass : Option Str := none
  readUser : Option Str := none
  readPass : Option Str := none
  udpRange : Nat := 2          -- len(rtspUDPSourcePortRange)
  camID : Nat := 0
  secondary : Bool := false
  width : Nat := 0
  height : Nat := 0
  codec : Str := []
  exposure : Str := []
  awb : Str := []
  awbGains : Nat := 0
  denoise : Str := []
  metering : Str := []
  afMode : Str := []
  afRange : Str := []
  afSpeed : Str := []
  profile : Option Str := none
  level : Option Str := none
  hwProfile : Option Str := none
  hwLevel : Option Str := none
  swProfile : Option Str := none
  swLevel : Option Str := none
  h264Profile : Str := []
  h264Level : Str := []
  jpegQ : Option Nat := none
  mjpegQ : Nat := 0
  idr : Nat := 0
  bitrate : Nat := 0
  primaryName : Str := []
  secW : Nat := 0
  secH : Nat := 0
  secCodec : Str := []
  secIdr : Nat := 0
  secBitrate : Nat := 0
  secProfile : Str := []
  secLevel : Str := []
  secMjpegQ : Nat := 0
deriving DecidableEq, Repr, Inhabited

structure ConfV where
  rbc : Option Int := none
  rto : Int := 0
  wto : Int := 0
  wqs : Int := 0
  ump : Int := 0
  xau : Option Str := none
  am : Nat := 0                 -- 0 internal, 1 http, 2 jwt
  aha : Str := []
  jwks : Str := []
  jck : Str := []
  ucustom : Bool := false       -- oracle: AuthInternalUsers != nil && !DeepEqual(AuthInternalUsers, default)
  users : List User := []
  api : Bool := false
  apiAddr : Str := []
  metrics : Bool := false
  metricsAddr : Str := []
  pprof : Bool := false
  pprofAddr : Str := []
  playback : Bool := false
  playbackAddr : Str := []
  rtsp : Bool := false
  rtspDisable : Option Bool := none
  protocols : Option Nat := none   -- bit set: 1 udp, 2 multicast, 4 tcp
  transports : Nat := 0
  encryption : Option Nat := none  -- 0 no, 1 optional, 2 strict
  rtspEnc : Nat := 0
  rtspAddr : Str := []
  rtspsAddr : Str := []
  rtpAddr : Str := []
  rtcpAddr : Str := []
  mcRange : Str := []
  mcRtp : Int := 0
  mcRtcp : Int := 0
  srtpAddr : Str := []
  srtcpAddr : Str := []
  mcSrtp : Int := 0
  mcSrtcp : Int := 0
  authMethods : Option (List Nat) := none   -- 0 basic, 1 digest
  rtspAuthMethods : List Nat := []
  rtmp : Bool := false
  rtmpDisable : Option Bool := none
  rtmpAddr : Str := []
  hls : Bool := false
  hlsDisable : Option Bool := none
  hlsAddr : Str := []
  cdn : Str := []
  cdnOk : Bool := false            -- oracle: rePlainCredential.MatchString(hlsCDNSecret)
  webrtc : Bool := false
  webrtcDisable : Option Bool := none
  webrtcAddr : Str := []
  ice2 : List Str := []
  iceLegacy : Option (List Str) := none
  udpMux : Option Str := none
  tcpMux : Option Str := none
  localUdp : Str := []
  localTcp : Str := []
  ipsFromIf : Bool := false
  nat : Option (List Str) := none
  hosts : List Str := []
  moq : Bool := false
  moqQuic : Str := []
  gRecord : Option Bool := none
  gRecordPath : Option Str := none
  gSegDur : Option Int := none
  gDelAfter : Option Int := none
  pdDepc : Bool := false
  pdRecord : Bool := false
  pdRecordPath : Str := []
  pdSegDur : Int := 0
  pdDelAfter : Int := 0
  paths : List PathV := []
deriving DecidableEq, Repr, Inhabited

/-! ### Conf.Validate — global part -/

/-- `if bad { return fmt.Errorf(msg) }` followed by the rest. -/
def chk (bad : Bool) (msg : String) (k : Except String α) : Except String α :=
  if bad then .error msg else k

def sAny : Str := b!"any"

def isHashed (s : Str) : Bool := hasPrefix b!"sha256:" s || hasPrefix b!"argon2:" s

def isHTTPURL (s : Str) : Bool := hasPrefix b!"http://" s || hasPrefix b!"https://" s

/-- `(x & (x-1)) != 0` for a positive Go int. -/
def notPow2 (x : Int) : Bool := (x.toNat &&& (x.toNat - 1)) != 0

def legacyUsers : List User := [⟨sAny, []⟩, ⟨sAny, []⟩]

def depMode (c : ConfV) : Bool := c.pdDepc || c.paths.any (·.depc)

def tUDP (t : Nat) : Bool := t.testBit 0
def tMC (t : Nat) : Bool := t.testBit 1

/-- conversion of one deprecated `webrtcICEServers` entry: the URL of the appended `WebRTCICEServer`. -/
def iceLegacyURL (s : Str) : Str :=
  match splitByte 58 s with
  | [p0, _, _, p3, p4] => p0 ++ [58] ++ p3 ++ [58] ++ p4
  | _ => s

def iceURLok (u : Str) : Bool := hasPrefix b!"stun:" u || hasPrefix b!"turn:" u || hasPrefix b!"turns:" u

def optOr (o : Option α) (d : α) : α := match o with | some v => v | none => d

/-- boolean implication -/
def imp (a b : Bool) : Bool := !a || b

/-- the statements of `Validate` up to and including the deprecated record parameters, in source order. -/
def validateGlobal (c : ConfV) : Except String ConfV :=
  -- General
  let c := { c with wqs := optOr c.rbc c.wqs }
  chk (c.rto ≤ 0) "'readTimeout' must be greater than zero" <|
  chk (c.wto ≤ 0) "'writeTimeout' must be greater than zero" <|
  chk (c.wqs ≤ 0) "'writeQueueSize' must be greater than zero" <|
  chk (notPow2 c.wqs) "'writeQueueSize' must be a power of two" <|
  chk (c.ump > 1472) "'udpMaxPayloadSize' must be less than 1472" <|
  -- Authentication
  let c := { c with am := match c.xau with | some _ => 1 | none => c.am, aha := optOr c.xau c.aha }
  chk (depMode c && c.ucustom) "authInternalUsers and legacy credentials cannot be used together" <|
  let c := { c with users := if depMode c then legacyUsers else c.users }
  chk (c.am == 0 && c.users.any (fun u => u.user.isEmpty)) "empty usernames are not supported" <|
  chk (c.am == 0 && c.users.any (fun u => u.user == sAny && !u.pass.isEmpty))
    "using a password with 'any' user is not supported" <|
  chk (c.am == 1 && c.aha.isEmpty) "'authHTTPAddress' is empty" <|
  chk (c.am == 1 && !isHTTPURL c.aha) "'externalAuthenticationURL' must be a HTTP URL" <|
  chk (c.am == 2 && c.jwks.isEmpty) "'authJWTJWKS' is empty" <|
  chk (c.am == 2 && !isHTTPURL c.jwks) "'authJWTJWKS' must be a HTTP URL" <|
  chk (c.am == 2 && c.jck.isEmpty) "'authJWTClaimKey' is empty" <|
  -- Control API, metrics, pprof, playback
  chk (c.api && c.apiAddr.isEmpty) "'apiAddress' must be set when API is enabled" <|
  chk (c.metrics && c.metricsAddr.isEmpty) "'metricsAddress' must be set when metrics are enabled" <|
  chk (c.pprof && c.pprofAddr.isEmpty) "'pprofAddress' must be set when pprof is enabled" <|
  chk (c.playback && c.playbackAddr.isEmpty) "'playbackAddress' must be set when playback is enabled" <|
  -- RTSP server
  let c := { c with rtsp := match c.rtspDisable with | some d => !d | none => c.rtsp,
                    transports := optOr c.protocols c.transports,
                    rtspEnc := optOr c.encryption c.rtspEnc,
                    rtspAuthMethods := optOr c.authMethods c.rtspAuthMethods }
  let plain := c.rtspEnc == 0 || c.rtspEnc == 1
  let secure := c.rtspEnc == 1 || c.rtspEnc == 2
  chk (c.rtsp && plain && c.rtspAddr.isEmpty) "'rtspAddress' must be set" <|
  chk (c.rtsp && plain && tUDP c.transports && c.rtpAddr.isEmpty) "'rtpAddress' must be set" <|
  chk (c.rtsp && plain && tUDP c.transports && c.rtcpAddr.isEmpty) "'rtcpAddress' must be set" <|
  chk (c.rtsp && plain && tMC c.transports && c.mcRange.isEmpty) "'multicastIPRange' must be set" <|
  chk (c.rtsp && plain && tMC c.transports && c.mcRtp == 0) "'multicastRTPPort' must be set" <|
  chk (c.rtsp && plain && tMC c.transports && c.mcRtcp == 0) "'multicastRTCPPort' must be set" <|
  chk (c.rtsp && secure && c.rtspsAddr.isEmpty) "'rtspsAddress' must be set" <|
  chk (c.rtsp && secure && tUDP c.transports && c.srtpAddr.isEmpty) "'srtpAddress' must be set" <|
  chk (c.rtsp && secure && tUDP c.transports && c.srtcpAddr.isEmpty) "'srtcpAddress' must be set" <|
  chk (c.rtsp && secure && tMC c.transports && c.mcRange.isEmpty) "'multicastIPRange' must be set" <|
  chk (c.rtsp && secure && tMC c.transports && c.mcSrtp == 0) "'multicastSRTPPort' must be set" <|
  chk (c.rtsp && secure && tMC c.transports && c.mcSrtcp == 0) "'multicastSRTCPPort' must be set" <|
  chk (c.rtsp && c.rtspAuthMethods.isEmpty) "at least one 'rtspAuthMethods' must be provided" <|
  chk (c.rtsp && c.rtspAuthMethods.contains 1 && c.am != 0)
    "when RTSP digest is enabled, the only supported auth method is 'internal'" <|
  chk (c.rtsp && c.rtspAuthMethods.contains 1 && c.users.any (fun u => isHashed u.user || isHashed u.pass))
    "when RTSP digest is enabled, hashed credentials cannot be used" <|
  -- RTMP, HLS
  let c := { c with rtmp := match c.rtmpDisable with | some d => !d | none => c.rtmp }
  chk (c.rtmp && c.rtmpAddr.isEmpty) "'rtmpAddress' must be set when RTMP is enabled" <|
  let c := { c with hls := match c.hlsDisable with | some d => !d | none => c.hls }
  chk (c.hls && c.hlsAddr.isEmpty) "'hlsAddress' must be set when HLS is enabled" <|
  chk (!c.cdn.isEmpty && !c.cdnOk) "'hlsCDNSecret' contains unsupported characters" <|
  -- WebRTC
  let c := { c with webrtc := match c.webrtcDisable with | some d => !d | none => c.webrtc,
                    localUdp := optOr c.udpMux c.localUdp,
                    localTcp := optOr c.tcpMux c.localTcp,
                    hosts := optOr c.nat c.hosts,
                    ice2 := c.ice2 ++ (optOr c.iceLegacy []).map iceLegacyURL }
  chk (c.webrtc && c.webrtcAddr.isEmpty) "'webrtcAddress' must be set when WebRTC is enabled" <|
  chk (c.webrtc && c.ice2.any (fun u => !iceURLok u)) "invalid ICE server" <|
  chk (c.webrtc && c.localUdp.isEmpty && c.localTcp.isEmpty && c.ice2.isEmpty)
    "at least one between 'webrtcLocalUDPAddress', 'webrtcLocalTCPAddress' or 'webrtcICEServers2' must be filled" <|
  chk (c.webrtc && (!c.localUdp.isEmpty || !c.localTcp.isEmpty) && !c.ipsFromIf && c.hosts.isEmpty)
    "at least one between 'webrtcIPsFromInterfaces' or 'webrtcAdditionalHosts' must be filled" <|
  -- MoQ
  chk (c.moq && c.moqQuic.isEmpty) "'moqQUICAddress' must be set when MoQ is enabled" <|
  -- Record (deprecated) -> pathDefaults
  .ok { c with pdRecord := optOr c.gRecord c.pdRecord,
               pdRecordPath := optOr c.gRecordPath c.pdRecordPath,
               pdSegDur := optOr c.gSegDur c.pdSegDur,
               pdDelAfter := optOr c.gDelAfter c.pdDelAfter }

/-! ### paths -/

def sAll : Str := b!"all"
def sAllOthers : Str := b!"all_others"
def sAllRe : Str := b!"~^.*$"
def sPublisher : Str := b!"publisher"
def sRedirect : Str := b!"redirect"
def sRpiCamera : Str := b!"rpiCamera"

def isAlias (n : Str) : Bool := n == sAll || n == sAllOthers || n == sAllRe

/-- `newPath(&conf.PathDefaults, optional)` relative to the view (which was merged with the path defaults
as they were BEFORE the deprecated global record parameters were copied into them). -/
def remerge (c : ConfV) (p : PathV) : PathV :=
  { p with record := if p.hasRec then p.record else optOr c.gRecord p.record,
           recordPath := if p.hasRp then p.recordPath else optOr c.gRecordPath p.recordPath,
           segDur := if p.hasSd then p.segDur else optOr c.gSegDur p.segDur,
           delAfter := if p.hasDa then p.delAfter else optOr c.gDelAfter p.delAfter }

/-- `pconf.Regexp != nil` after the name switch (when it did not fail). -/
def hasRegexp (p : PathV) : Bool :=
  p.name == sAllOthers || p.name == sAll || (match p.name with | 126 :: _ => true | _ => false)

def isRegexName (n : Str) : Bool := match n with | 126 :: _ => true | _ => false

def passLenBad (s : Str) : Bool := s.length < 10 || s.length > 79

def rtspPrefixes : List Str :=
  [b!"rtsp://", b!"rtsps://", b!"rtsp+http://", b!"rtsps+http://", b!"rtsp+ws://", b!"rtsps+ws://"]

/-- which arm of the `switch` on the source is taken -/
inductive SrcKind where
  | publisher | url | urlPort | unixMpegts | udpRtp | unixRtp | redirect | rpiCamera | invalid
deriving DecidableEq, Repr

def srcKind (s : Str) : SrcKind :=
  if s == sPublisher then .publisher
  else if rtspPrefixes.any (hasPrefix · s) then .url
  else if hasPrefix b!"rtmp://" s || hasPrefix b!"rtmps://" s then .url
  else if hasPrefix b!"http://" s || hasPrefix b!"https://" s then .url
  else if hasPrefix b!"udp://" s then .urlPort
  else if hasPrefix b!"udp+mpegts://" s then .urlPort
  else if hasPrefix b!"unix+mpegts://" s then .unixMpegts
  else if hasPrefix b!"udp+rtp://" s then .udpRtp
  else if hasPrefix b!"unix+rtp://" s then .unixRtp
  else if hasPrefix b!"srt://" s then .url
  else if hasPrefix b!"moqt://" s then .url
  else if hasPrefix b!"whep://" s || hasPrefix b!"wheps://" s then .url
  else if s == sRedirect then .redirect
  else if s == sRpiCamera then .rpiCamera
  else .invalid

def fwdSchemes : List Str := [b!"rtmp", b!"rtmps", b!"rtsp", b!"rtsps", b!"srt", b!"whip", b!"whips"]

/-- `ForwardDest.Validate() != nil` -/
def fwdBad (f : Fwd) : Bool := f.dest.isEmpty || !f.urlOk || !fwdSchemes.contains f.scheme

def optIn (o : Option Str) (l : List Str) : Bool := match o with | none => true | some v => l.contains v

def profiles3 : List Str := [b!"baseline", b!"main", b!"high"]
def levels3 : List Str := [b!"4.0", b!"4.1", b!"4.2"]

/-- `otherPath != pconf && otherPath.Source == "rpiCamera" && same camera && !secondary` -/
def isPrimaryFor (p q : PathV) : Bool :=
  q.name != p.name && q.source == sRpiCamera && q.camID == p.camID && !q.secondary

/-- result of validating one path: the path itself, the primary stream to update (if it is a secondary
rpiCamera stream), the users appended in deprecated-credentials mode. -/
structure PathRes where
  self : PathV
  primary : Option Str
  newUsers : List User

def credOr (o : Option Str) (d : Str) : Str := match o with | some v => if v.isEmpty then d else v | none => d

def pathUsers (p : PathV) : List User :=
  [⟨credOr p.pubUser sAny, credOr p.pubPass []⟩, ⟨credOr p.readUser sAny, credOr p.readPass []⟩]

/-- the `rpiCamera` arm of the source switch. `all` = `conf.Paths` (every path, as merged). Returns the
updated path and, for a secondary stream, the name of its primary stream. -/
def validateRpi (all : List PathV) (p : PathV) : Except String (PathV × Option Str) :=
  chk (p.width == 0) "invalid 'rpiCameraWidth' value" <|
  chk (p.height == 0) "invalid 'rpiCameraHeight' value" <|
  chk ((p.codec == b!"mjpeg" || (p.secondary && p.codec == b!"auto")) && (p.width ≥ 2048 || p.width % 8 != 0))
    "'rpiCameraWidth' must be a multiple of 8 and less than 2048 when using MJPEG" <|
  chk ((p.codec == b!"mjpeg" || (p.secondary && p.codec == b!"auto")) && (p.height ≥ 2048 || p.height % 8 != 0))
    "'rpiCameraHeight' must be a multiple of 8 and less than 2048 when using MJPEG" <|
  chk (![b!"normal", b!"short", b!"long", b!"custom"].contains p.exposure) "invalid 'rpiCameraExposure' value" <|
  chk (![b!"auto", b!"incandescent", b!"tungsten", b!"fluorescent", b!"indoor", b!"daylight", b!"cloudy",
        b!"custom"].contains p.awb) "invalid 'rpiCameraAWB' value" <|
  chk (p.awbGains != 2) "invalid 'rpiCameraAWBGains' value" <|
  chk (![b!"off", b!"cdn_off", b!"cdn_fast", b!"cdn_hq"].contains p.denoise) "invalid 'rpiCameraDenoise' value" <|
  chk (![b!"centre", b!"spot", b!"matrix", b!"custom"].contains p.metering) "invalid 'rpiCameraMetering' value" <|
  chk (![b!"auto", b!"manual", b!"continuous"].contains p.afMode) "invalid 'rpiCameraAfMode' value" <|
  chk (![b!"normal", b!"macro", b!"full"].contains p.afRange) "invalid 'rpiCameraAfRange' value" <|
  chk (![b!"normal", b!"fast"].contains p.afSpeed) "invalid 'rpiCameraAfSpeed' value" <|
  chk (!optIn (p.profile.or p.hwProfile) profiles3) "invalid 'rpiCameraHardwareH264Profile' value" <|
  chk (!optIn (p.level.or p.hwLevel) levels3) "invalid 'rpiCameraHardwareH264Level' value" <|
  chk (!optIn p.swProfile profiles3) "invalid 'rpiCameraSoftwareH264Profile' value" <|
  chk (!optIn p.swLevel levels3) "invalid 'rpiCameraSoftwareH264Level' value" <|
  chk (!(b!"auto" :: profiles3).contains p.h264Profile) "invalid 'rpiCameraH264Profile' value" <|
  chk (!levels3.contains p.h264Level) "invalid 'rpiCameraH264Level' value" <|
  chk (![b!"auto", b!"hardwareH264", b!"softwareH264", b!"mjpeg"].contains p.codec)
    "supported codecs for a RPI Camera stream are auto, hardwareH264, softwareH264, mjpeg" <|
  -- the three deprecated-parameter copies of this arm (none of the checks above reads a copied-to field
  -- before the copy: hwProfile/hwLevel are checked after the copy, which `Option.or` expresses)
  let p' := { p with hwProfile := p.profile.or p.hwProfile, hwLevel := p.level.or p.hwLevel,
                     mjpegQ := optOr p.jpegQ p.mjpegQ }
  if !p.secondary then
    chk (all.any (isPrimaryFor p)) "'rpiCamera' with same camera ID is used as source in two paths" <|
    .ok (p', none)
  else
    match all.find? (isPrimaryFor p) with
    | none => .error "cannot find a primary RPI Camera stream to associate with the secondary stream"
    | some prim =>
      chk (prim.secW != 0) "a primary RPI Camera stream is associated with multiple secondary streams" <|
      .ok ({ p' with primaryName := prim.name }, some prim.name)

/-- the `switch` on the source -/
def validateSource (all : List PathV) (p : PathV) : Except String (PathV × Option Str) :=
  match srcKind p.source with
  | .publisher =>
    chk (!p.srtPubPass.isEmpty && passLenBad p.srtPubPass) "invalid 'srtPublishPassphrase'" <|
    .ok ({ p with overridePublisher := match p.dpo with | some d => !d | none => p.overridePublisher }, none)
  | .url => chk (!p.urlOk) "not a valid URL" <| .ok (p, none)
  | .urlPort =>
    chk (!p.urlOk) "not a valid URL" <|
    chk (!p.hostPortOk) "is missing the port" <| .ok (p, none)
  | .unixMpegts => .ok (p, none)
  | .udpRtp =>
    chk (!p.urlOk) "not a valid URL" <|
    chk (!p.hostPortOk) "is missing the port" <|
    chk p.sdpEmpty "`rtpSDP` was not provided" <| .ok (p, none)
  | .unixRtp => chk p.sdpEmpty "`rtpSDP` was not provided" <| .ok (p, none)
  | .redirect =>
    chk p.redirect.isEmpty "source redirect must be filled" <|
    chk (!p.redirectOk) "invalid redirect" <| .ok (p, none)
  | .rpiCamera => validateRpi all p
  | .invalid => .error "invalid source"

/-- everything after the source switch -/
def validateRest (playback dep : Bool) (p : PathV) (prim : Option Str) : Except String PathRes :=
  chk (p.sod && p.source == sPublisher) "'sourceOnDemand' is useless when source is 'publisher'" <|
  chk (!p.sod && p.source != sPublisher && p.source != sRedirect && hasRegexp p)
    "a path with a regular expression (or path 'all_others') and a static source must have 'sourceOnDemand' set to true" <|
  chk (p.udpRange != 2) "'rtspUDPSourcePortRange' must contain exactly two ports" <|   -- (/repo 9ca8a07, F-C10d)
  chk (!p.srtReadPass.isEmpty && passLenBad p.srtReadPass) "invalid 'readRTPassphrase'" <|
  chk (p.forward.any fwdBad) "invalid 'forward'" <|
  chk (p.fallback.isSome && !p.fallbackOk) "invalid fallback" <|
  chk (p.aa && hasRegexp p) "'alwaysAvailable' cannot be used in a path with a regular expression" <|
  chk (p.aa && p.sod) "'sourceOnDemand' is not compatible with 'alwaysAvailable'" <|
  chk (p.aa && (!p.runOnDemand.isEmpty || !p.runOnUnDemand.isEmpty))
    "'runOnDemand' and 'runOnUnDemand' cannot be used with 'alwaysAvailable'" <|
  chk (p.aa && !p.aaFile.isEmpty && p.aaTracks != 0) "'alwaysAvailableFile' and 'alwaysAvailableTracks' cannot be used together" <|
  chk (p.aa && !p.aaFile.isEmpty && !p.aaFileOk) "invalid 'alwaysAvailableFile'" <|
  chk (p.aa && p.aaFile.isEmpty && p.aaTracks == 0) "'alwaysAvailableTracks' must contain at least one track" <|
  chk (p.aa && p.useAbs) "'useAbsoluteTimestamp' cannot be used with 'alwaysAvailable'" <|
  chk (!containsSub b!"%path" p.recordPath) "'recordPath' must contain %path" <|
  chk (!containsSub b!"%s" p.recordPath &&
        (!containsSub b!"%Y" p.recordPath || !containsSub b!"%m" p.recordPath || !containsSub b!"%d" p.recordPath ||
         !containsSub b!"%H" p.recordPath || !containsSub b!"%M" p.recordPath || !containsSub b!"%S" p.recordPath))
    "'recordPath' must contain either %s or %Y %m %d %H %M %S" <|
  chk (playback && !containsSub b!"%f" p.recordPath) "'recordPath' must contain %f" <|
  chk (p.segDur > 86400000000000) "maximum segment duration is 1 day" <|
  chk (p.delAfter != 0 && p.delAfter < p.segDur) "'recordDeleteAfter' cannot be lower than 'recordSegmentDuration'" <|
  chk (!p.runOnInit.isEmpty && hasRegexp p) "a path with a regular expression does not support option 'runOnInit'" <|
  chk ((!p.runOnDemand.isEmpty || !p.runOnUnDemand.isEmpty) && p.source != sPublisher)
    "'runOnDemand' and 'runOnUnDemand' can be used only when source is 'publisher'" <|
  .ok { self := p, primary := prim, newUsers := if dep then pathUsers p else [] }

/-- `Path.validate` for one path (`p` already merged with the defaults). -/
def validatePath (playback dep : Bool) (all : List PathV) (p : PathV) : Except String PathRes :=
  -- switch on the name: all_others/all -> regexp; "" or not starting with '~' -> IsValidPathName; else Compile(name[1:])
  chk (!(p.name == sAllOthers || p.name == sAll) && !isRegexName p.name && !p.nameValid) "invalid path name" <|
  chk (!(p.name == sAllOthers || p.name == sAll) && isRegexName p.name && !p.reOk) "invalid regular expression" <|
  chk (!p.srtPubPass.isEmpty && p.source != sPublisher) "'srtPublishPassphase' can only be used when source is 'publisher'" <|
  chk (p.source != sRedirect && !p.redirect.isEmpty) "'sourceRedirect' is useless when source is not 'redirect'" <|
  match validateSource all p with
  | .error e => .error e
  | .ok (p', prim) => validateRest playback dep p' prim

/-- `primary.RPICameraSecondaryWidth = pconf.RPICameraWidth` … -/
def attach (s : PathV) (prim : PathV) : PathV :=
  { prim with secW := s.width, secH := s.height, secMjpegQ := s.mjpegQ, secCodec := s.codec,
              secIdr := s.idr, secBitrate := s.bitrate, secProfile := s.h264Profile, secLevel := s.h264Level }

def applyRes (ps : List PathV) (r : PathRes) : List PathV :=
  ps.map fun q =>
    if q.name == r.self.name then r.self
    else if r.primary == some q.name then attach r.self q
    else q

/-- the loop `for _, name := range sortedKeys(conf.OptionalPaths) { conf.Paths[name].validate(…) }` -/
def validatePaths (playback dep : Bool) : List Str → List PathV → List User → Except String (List PathV × List User)
  | [], ps, us => .ok (ps, us)
  | n :: ns, ps, us =>
    match ps.find? (·.name == n) with
    | none => .error "internal: path disappeared"
    | some p =>
      match validatePath playback dep ps p with
      | .error e => .error e
      | .ok r => validatePaths playback dep ns (applyRes ps r) (us ++ r.newUsers)

/-- `Conf.Validate`. -/
def validate (c : ConfV) : Except String ConfV :=
  match validateGlobal c with
  | .error e => .error e
  | .ok g =>
    chk ((g.paths.filter (fun p => isAlias p.name)).length > 1) "all_others, all and '~^.*$' are aliases" <|
    let ps := g.paths.map (remerge c)
    match validatePaths g.playback (depMode g) (ps.map (·.name)) ps g.users with
    | .error e => .error e
    | .ok (ps', us) => .ok { g with paths := ps', users := us }

/-! ### the executable spec: documented constraints of an accepted configuration -/

def isPow2 (x : Int) : Bool := x > 0 && (x.toNat &&& (x.toNat - 1)) == 0

/-- per-path constraints established by the switch on the path name -/
def pcName : List (String × (PathV → Bool)) := [
  ("path name is a valid name, an alias or a compilable regular expression",
    fun p => isAlias p.name || (if isRegexName p.name then p.reOk else p.nameValid))
]

/-- per-path constraints established by the switch on the source -/
def pcSource : List (String × (PathV → Bool)) := [
  ("source is of a supported kind", fun p => srcKind p.source != .invalid),
  ("source URL is valid",
    fun p => imp (srcKind p.source == .url || srcKind p.source == .urlPort || srcKind p.source == .udpRtp) p.urlOk),
  ("UDP source has a port", fun p => imp (srcKind p.source == .urlPort || srcKind p.source == .udpRtp) p.hostPortOk),
  ("RTP source has an SDP", fun p => imp (srcKind p.source == .udpRtp || srcKind p.source == .unixRtp) (!p.sdpEmpty)),
  ("redirect source has a valid target", fun p => imp (srcKind p.source == .redirect) (!p.redirect.isEmpty && p.redirectOk)),
  ("rpiCamera parameters are within their documented ranges", fun p => imp (srcKind p.source == .rpiCamera)
      (p.width != 0 && p.height != 0 &&
       imp (p.codec == b!"mjpeg" || (p.secondary && p.codec == b!"auto"))
          (p.width < 2048 && p.width % 8 == 0 && p.height < 2048 && p.height % 8 == 0) &&
       [b!"normal", b!"short", b!"long", b!"custom"].contains p.exposure &&
       [b!"auto", b!"incandescent", b!"tungsten", b!"fluorescent", b!"indoor", b!"daylight", b!"cloudy",
        b!"custom"].contains p.awb &&
       p.awbGains == 2 &&
       [b!"off", b!"cdn_off", b!"cdn_fast", b!"cdn_hq"].contains p.denoise &&
       [b!"centre", b!"spot", b!"matrix", b!"custom"].contains p.metering &&
       [b!"auto", b!"manual", b!"continuous"].contains p.afMode &&
       [b!"normal", b!"macro", b!"full"].contains p.afRange &&
       [b!"normal", b!"fast"].contains p.afSpeed &&
       optIn p.hwProfile profiles3 && optIn p.hwLevel levels3 && optIn p.swProfile profiles3 && optIn p.swLevel levels3 &&
       (b!"auto" :: profiles3).contains p.h264Profile && levels3.contains p.h264Level &&
       [b!"auto", b!"hardwareH264", b!"softwareH264", b!"mjpeg"].contains p.codec))
]

/-- per-path constraints established by the "common configuration errors" block -/
def pcTop : List (String × (PathV → Bool)) := [
  ("sourceRedirect only with source redirect", fun p => imp (!p.redirect.isEmpty) (p.source == sRedirect)),
  ("srtPublishPassphrase only with publisher and 10..79 characters",
    fun p => imp (!p.srtPubPass.isEmpty) (p.source == sPublisher && !passLenBad p.srtPubPass))
]

/-- per-path constraints established after the source switch (`pb` = global `playback`) -/
def pcRest (pb : Bool) : List (String × (PathV → Bool)) := [
  ("sourceOnDemand is not used with publisher", fun p => imp p.sod (p.source != sPublisher)),
  ("regex/all paths with a static source are on demand",
    fun p => imp (hasRegexp p && p.source != sPublisher && p.source != sRedirect) p.sod),
  ("srtReadPassphrase has 10..79 characters", fun p => imp (!p.srtReadPass.isEmpty) (!passLenBad p.srtReadPass)),
  ("forward destinations are valid", fun p => p.forward.all (fun f => !fwdBad f)),
  ("fallback is valid", fun p => imp p.fallback.isSome p.fallbackOk),
  ("alwaysAvailable exclusions", fun p => imp p.aa
      (!hasRegexp p && !p.sod && p.runOnDemand.isEmpty && p.runOnUnDemand.isEmpty && !p.useAbs &&
       (if p.aaFile.isEmpty then p.aaTracks != 0 else (p.aaTracks == 0 && p.aaFileOk)))),
  ("recordPath contains %path", fun p => containsSub b!"%path" p.recordPath),
  ("recordPath contains a full timestamp", fun p => containsSub b!"%s" p.recordPath ||
      (containsSub b!"%Y" p.recordPath && containsSub b!"%m" p.recordPath && containsSub b!"%d" p.recordPath &&
       containsSub b!"%H" p.recordPath && containsSub b!"%M" p.recordPath && containsSub b!"%S" p.recordPath)),
  ("recordPath contains %f when playback is enabled", fun p => imp pb (containsSub b!"%f" p.recordPath)),
  ("recordSegmentDuration is at most one day", fun p => p.segDur ≤ 86400000000000),
  ("recordDeleteAfter is zero or not below recordSegmentDuration", fun p => p.delAfter == 0 || p.delAfter ≥ p.segDur),
  ("runOnInit is not used with regex/all paths", fun p => imp (!p.runOnInit.isEmpty) (!hasRegexp p)),
  ("runOnDemand/runOnUnDemand only with publisher",
    fun p => imp (!p.runOnDemand.isEmpty || !p.runOnUnDemand.isEmpty) (p.source == sPublisher)),
  ("rtspUDPSourcePortRange has exactly two entries (the RTSP source indexes both)", fun p => p.udpRange == 2)
]

/-- all per-path constraints -/
def pathConstraints (pb : Bool) : List (String × (PathV → Bool)) := pcName ++ pcSource ++ pcTop ++ pcRest pb

def isRpiPrimary (p : PathV) : Bool := p.source == sRpiCamera && !p.secondary
def isRpiSecondary (p : PathV) : Bool := p.source == sRpiCamera && p.secondary

/-- no two primary rpiCamera paths share a camera id -/
def rpiUnique (ps : List PathV) : Bool :=
  ps.all fun p => imp (isRpiPrimary p) (ps.all fun q => imp (isRpiPrimary q && q.camID == p.camID) (q.name == p.name))

/-- every secondary rpiCamera stream has a primary stream on the same camera, recorded in `primaryName` -/
def rpiSecondaryHasPrimary (ps : List PathV) : Bool :=
  ps.all fun s => imp (isRpiSecondary s)
    (ps.any fun q => isRpiPrimary q && q.camID == s.camID && q.name == s.primaryName)

/-- constraints on the global parameters -/
def globalOnlyConstraints : List (String × (ConfV → Bool)) := [
  ("readTimeout is positive", fun c => c.rto > 0),
  ("writeTimeout is positive", fun c => c.wto > 0),
  ("writeQueueSize is a positive power of two", fun c => isPow2 c.wqs),
  ("udpMaxPayloadSize is at most 1472", fun c => c.ump ≤ 1472),
  ("internal users have a name, and no password for 'any' (unless legacy credentials are in use)",
    fun c => imp (c.am == 0 && !depMode c) (c.users.all (fun u => !u.user.isEmpty && !(u.user == sAny && !u.pass.isEmpty)))),
  ("HTTP authentication has an http(s) address", fun c => imp (c.am == 1) (!c.aha.isEmpty && isHTTPURL c.aha)),
  ("JWT authentication has an http(s) JWKS URL and a claim key",
    fun c => imp (c.am == 2) (!c.jwks.isEmpty && isHTTPURL c.jwks && !c.jck.isEmpty)),
  ("enabled API/metrics/pprof/playback servers have an address",
    fun c => imp c.api (!c.apiAddr.isEmpty) && imp c.metrics (!c.metricsAddr.isEmpty) &&
             imp c.pprof (!c.pprofAddr.isEmpty) && imp c.playback (!c.playbackAddr.isEmpty)),
  ("RTSP addresses required by the encryption mode and transports are set", fun c => imp c.rtsp
      (imp (c.rtspEnc == 0 || c.rtspEnc == 1)
          (!c.rtspAddr.isEmpty && imp (tUDP c.transports) (!c.rtpAddr.isEmpty && !c.rtcpAddr.isEmpty) &&
           imp (tMC c.transports) (!c.mcRange.isEmpty && c.mcRtp != 0 && c.mcRtcp != 0)) &&
       imp (c.rtspEnc == 1 || c.rtspEnc == 2)
          (!c.rtspsAddr.isEmpty && imp (tUDP c.transports) (!c.srtpAddr.isEmpty && !c.srtcpAddr.isEmpty) &&
           imp (tMC c.transports) (!c.mcRange.isEmpty && c.mcSrtp != 0 && c.mcSrtcp != 0)))),
  ("RTSP has an authentication method; digest only with internal auth and plain credentials", fun c => imp c.rtsp
      (!c.rtspAuthMethods.isEmpty &&
       imp (c.rtspAuthMethods.contains 1) (c.am == 0 &&
          imp (!depMode c) (c.users.all (fun u => !isHashed u.user && !isHashed u.pass))))),
  ("enabled RTMP/HLS servers have an address; hlsCDNSecret uses supported characters",
    fun c => imp c.rtmp (!c.rtmpAddr.isEmpty) && imp c.hls (!c.hlsAddr.isEmpty) && imp (!c.cdn.isEmpty) c.cdnOk),
  ("WebRTC has an address, valid ICE servers and a way to be reached", fun c => imp c.webrtc
      (!c.webrtcAddr.isEmpty && c.ice2.all iceURLok &&
       (!c.localUdp.isEmpty || !c.localTcp.isEmpty || !c.ice2.isEmpty) &&
       imp (!c.localUdp.isEmpty || !c.localTcp.isEmpty) (c.ipsFromIf || !c.hosts.isEmpty))),
  ("enabled MoQ server has a QUIC address", fun c => imp c.moq (!c.moqQuic.isEmpty))
]

/-- constraints relating several paths -/
def crossConstraints : List (String × (ConfV → Bool)) := [
  ("all, all_others and ~^.*$ are not used together", fun c => (c.paths.filter (fun p => isAlias p.name)).length ≤ 1),
  ("rpiCamera ids are unique among primary streams", fun c => rpiUnique c.paths),
  ("every secondary rpiCamera stream has a primary stream", fun c => rpiSecondaryHasPrimary c.paths)
]

def globalConstraints : List (String × (ConfV → Bool)) := globalOnlyConstraints ++ crossConstraints

/-- names of the constraints an (accepted) configuration violates -/
def violations (c : ConfV) : List String :=
  (globalConstraints.filter (fun k => !k.2 c)).map (·.1) ++
  c.paths.flatMap fun p => ((pathConstraints c.playback).filter (fun k => !k.2 p)).map (·.1)

/-- **the spec** -/
def constraints (c : ConfV) : Bool := violations c == []

end MtxVerif.C10
