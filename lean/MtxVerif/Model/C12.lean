/-
C12 — API configuration edits are exact and atomic
(internal/core/core.go `doAPIConfig*`, internal/conf/conf.go `PatchGlobal/PatchPathDefaults/AddPath/
PatchPath/ReplacePath/RemovePath`, `copyStructFields`, `newPath`).

State of the running configuration as records of (json field name ↦ canonical JSON of the value):
`g` global fields, `d` path defaults, `o` the stored optional paths (`Conf.OptionalPaths`, only the
fields that are set), `p` the derived paths (`Conf.Paths`, rebuilt by every successful `Validate` as
defaults overlaid with the optional values, `name` forced to the map key).  Records and the path maps
are association lists with first-match lookup, so "set these fields" is list append.

Every edit is `clone; edit the clone; Validate; commit or discard`.  `Validate`'s verdict is an input
(`acc`): the model does not know which configurations are valid (that is C10); it knows what happens to
the state in either case.  `shared` = the clone shares `OptionalPath.Values` with the running
configuration (finding F-C11: true iff `deepClone` has no Interface case): then `PatchPath` on the clone
writes into the running configuration even if the edit is rejected afterwards.
-/
import MtxVerif.Base.DriverLib

namespace MtxVerif.C12

abbrev Key := String
abbrev Val := String
abbrev Name := String
abbrev Rec := List (Key × Val)

/-- first-match lookup -/
def get (r : Rec) (k : Key) : Option Val := (r.find? (fun e => e.1 == k)).map (·.2)

abbrev PMap := List (Name × Rec)

def pget (m : PMap) (n : Name) : Option Rec := (m.find? (fun e => e.1 == n)).map (·.2)
def phas (m : PMap) (n : Name) : Bool := (pget m n).isSome
def premove (m : PMap) (n : Name) : PMap := m.filter (fun e => !(e.1 == n))

structure St where
  g : Rec := []
  d : Rec := []
  o : PMap := []
  p : PMap := []
deriving Repr, Inhabited

/-- canonical JSON (hex, as in the harness' snapshots) of a path name given in hex (`-` = empty name);
exact for names without characters that encoding/json escapes — the harness only uses such names -/
def nameVal (n : Name) : Val := "22" ++ (if n == "-" then "" else n) ++ "22"

/-- `newPath(defaults, optional)` followed by `pconf.Name = name` in `validate` -/
def derive1 (d : Rec) (n : Name) (r : Rec) : Rec := ("name", nameVal n) :: (r ++ d)

/-- names of a path map (first occurrences, in list order) -/
def names : PMap → List Name
  | [] => []
  | e :: m => e.1 :: (names m).filter (fun x => !(x == e.1))

/-- `conf.Paths` as rebuilt by a successful `Validate` -/
def derive (d : Rec) (o : PMap) : PMap :=
  (names o).map fun n => (n, derive1 d n ((pget o n).getD []))

def revalidate (s : St) : St := { s with p := derive s.d s.o }

inductive Op
  | gpatch (req : Option Rec)            -- `none`: body not decodable (HTTP 400 before anything happens)
  | dpatch (req : Option Rec)
  | add (n : Name) (req : Option Rec)
  | patch (n : Name) (req : Option Rec)
  | replace (n : Name) (req : Option Rec)
  | delete (n : Name)
deriving Repr, Inhabited

inductive Res
  | decErr | exists | notFound | invalid | ok
deriving Repr, DecidableEq, Inhabited

def Res.str : Res → String
  | .decErr => "dec-err" | .exists => "exists" | .notFound => "not-found" | .invalid => "invalid" | .ok => "ok"

/-- one API edit; `acc` = verdict of `Validate` on the edited clone (only consulted when reached) -/
def step (shared : Bool) (s : St) (op : Op) (acc : Bool) : St × Res :=
  match op with
  | .gpatch none | .dpatch none | .add _ none | .patch _ none | .replace _ none => (s, .decErr)
  | .gpatch (some r) =>
    if acc then (revalidate { s with g := r ++ s.g }, .ok) else (s, .invalid)
  | .dpatch (some r) =>
    if acc then (revalidate { s with d := r ++ s.d }, .ok) else (s, .invalid)
  | .add n (some r) =>
    if phas s.o n then (s, .exists)
    else if acc then (revalidate { s with o := (n, r) :: s.o }, .ok) else (s, .invalid)
  | .patch n (some r) =>
    match pget s.o n with
    | none => (s, .notFound)
    | some old =>
      let edited : St := { s with o := (n, r ++ old) :: s.o }
      if acc then (revalidate edited, .ok)
      else (if shared then edited else s, .invalid)   -- F-C11: the write went through the shared Values
  | .replace n (some r) =>
    if acc then (revalidate { s with o := (n, r) :: s.o }, .ok) else (s, .invalid)
  | .delete n =>
    if !phas s.o n then (s, .notFound)
    else if acc then (revalidate { s with o := premove s.o n }, .ok) else (s, .invalid)

/-- a whole edit history -/
def run (shared : Bool) : St → List (Op × Bool) → St
  | s, [] => s
  | s, (op, acc) :: rest => run shared (step shared s op acc).1 rest

/-! ### the property as an executable relation between the state before and after one edit

`U` is the finite universe the relation is evaluated on: global keys, path keys, path names. -/

structure Univ where
  gk : List Key
  pk : List Key
  ns : List Name

def recEq (ks : List Key) (a b : Rec) : Bool := ks.all fun k => get a k == get b k

/-- `a` is `b` with exactly the fields of `r` set -/
def recPatched (ks : List Key) (a r b : Rec) : Bool :=
  ks.all fun k => get a k == (match get r k with | some v => some v | none => get b k)

def pmapEqExcept (U : Univ) (x : Option Name) (a b : PMap) : Bool :=
  U.ns.all fun n => (some n == x) ||
    (match pget a n, pget b n with
     | none, none => true
     | some ra, some rb => recEq U.pk ra rb
     | _, _ => false)

def sameSt (U : Univ) (s s' : St) : Bool :=
  recEq U.gk s.g s'.g && recEq U.pk s.d s'.d && pmapEqExcept U none s.o s'.o && pmapEqExcept U none s.p s'.p

/-- reads return what is stored: every derived path is defaults overlaid with its optional values, and the
derived paths are exactly the stored ones -/
def coherent (U : Univ) (s : St) : Bool :=
  U.ns.all fun n =>
    match pget s.o n, pget s.p n with
    | none, none => true
    | some ro, some rp => recEq U.pk rp (derive1 s.d n ro)
    | _, _ => false

/-- The property, one step: `s` before, `s'` after, `res` the API result. -/
def stepOK (U : Univ) (s : St) (op : Op) (s' : St) (res : Res) : Bool :=
  match res with
  | .ok =>
    coherent U s' &&
    (match op with
     | .gpatch (some r) => recPatched U.gk s'.g r s.g && recEq U.pk s.d s'.d && pmapEqExcept U none s.o s'.o
     | .dpatch (some r) => recEq U.gk s.g s'.g && recPatched U.pk s'.d r s.d && pmapEqExcept U none s.o s'.o
     | .add n (some r) =>
       !phas s.o n && recEq U.gk s.g s'.g && recEq U.pk s.d s'.d && pmapEqExcept U (some n) s.o s'.o &&
       (match pget s'.o n with | some r' => recEq U.pk r' r | none => false)
     | .patch n (some r) =>
       recEq U.gk s.g s'.g && recEq U.pk s.d s'.d && pmapEqExcept U (some n) s.o s'.o &&
       (match pget s.o n, pget s'.o n with
        | some old, some r' => recPatched U.pk r' r old
        | _, _ => false)
     | .replace n (some r) =>
       recEq U.gk s.g s'.g && recEq U.pk s.d s'.d && pmapEqExcept U (some n) s.o s'.o &&
       (match pget s'.o n with | some r' => recEq U.pk r' r | none => false)
     | .delete n =>
       phas s.o n && recEq U.gk s.g s'.g && recEq U.pk s.d s'.d && pmapEqExcept U (some n) s.o s'.o &&
       !phas s'.o n
     | _ => false)
  | .exists => sameSt U s s' && (match op with | .add n _ => phas s.o n | _ => false)
  | .notFound => sameSt U s s' && (match op with | .patch n _ => !phas s.o n | .delete n => !phas s.o n | _ => false)
  | .decErr => sameSt U s s' &&
    (match op with | .gpatch none | .dpatch none | .add _ none | .patch _ none | .replace _ none => true | _ => false)
  | .invalid => sameSt U s s'

/-- Weaker relation used when deprecated parameters are in play (`Validate` then rewrites other fields,
which this model does not describe): rejection is a no-op, add/patch/delete fail exactly on
existing/missing names. -/
def stepOKweak (U : Univ) (s : St) (op : Op) (s' : St) (res : Res) : Bool :=
  match res with
  | .ok =>
    (match op with
     | .add n _ => !phas s.o n && phas s'.o n
     | .patch n _ => phas s.o n && phas s'.o n
     | .replace n _ => phas s'.o n
     | .delete n => phas s.o n && !phas s'.o n
     | _ => true)
  | .exists => sameSt U s s' && (match op with | .add n _ => phas s.o n | _ => false)
  | .notFound => sameSt U s s' && (match op with | .patch n _ => !phas s.o n | .delete n => !phas s.o n | _ => false)
  | .decErr => sameSt U s s'
  | .invalid => sameSt U s s'

end MtxVerif.C12
