/-
C33 — MoQ subgroup reorderer (internal/protocols/moq/reorderer/reorderer.go).

State machine model of `Reorderer.Push` (one atomic step: the method holds `r.mu` throughout).
A subgroup is abstracted to (group id, payload size, tag) — `tag` identifies the pushed object so
that "each output was received" and "the latest pushed object for an id wins" can be stated.
The Go `map[uint64]*SubGroup` is kept as a list sorted by strictly increasing id (invariant `Inv`);
group ids are MoQ varints (< 2^62) so `cur + 1` never wraps in uint64 and `Nat` is faithful.
-/
import MtxVerif.Base.DriverLib

namespace MtxVerif.C33

structure SG where
  id : Nat
  size : Nat
  tag : Nat
deriving Repr, DecidableEq

structure St where
  init : Bool := false
  cur : Nat := 0
  pending : List SG := []
  bytes : Int := 0
deriving Repr

structure Limits where
  maxReordered : Nat
  maxPendingBytes : Nat

/-- `r.pending[sg.id] = sg` on the sorted representation. -/
def ins (sg : SG) : List SG → List SG
  | [] => [sg]
  | x :: xs =>
    if sg.id < x.id then sg :: x :: xs
    else if sg.id = x.id then sg :: xs
    else x :: ins sg xs

/-- payload size of the entry being replaced (0 if none). -/
def prevSize (id : Nat) : List SG → Nat
  | [] => 0
  | x :: xs => if x.id = id then x.size else prevSize id xs

def sumSize (l : List SG) : Nat := (l.map (·.size)).sum

/-- second loop of `flushUpTo`: keep delivering while the direct successor is pending. -/
def consec (cur : Nat) : List SG → List SG × Nat × List SG
  | [] => ([], cur, [])
  | x :: xs =>
    if x.id = cur + 1 then
      let r := consec (cur + 1) xs
      (x :: r.1, r.2.1, r.2.2)
    else ([], cur, x :: xs)

/-- first loop of `flushUpTo`: `id > r.curGroupID && id <= maxGroupID` -/
def inRange (cur maxId : Nat) (x : SG) : Bool := decide (cur < x.id ∧ x.id ≤ maxId)

def flushUpTo (s : St) (maxId : Nat) : St × List SG :=
  let r := consec maxId (s.pending.filter (fun x => !inRange s.cur maxId x))
  let out := s.pending.filter (inRange s.cur maxId) ++ r.1
  ({ s with cur := r.2.1, pending := r.2.2, bytes := s.bytes - sumSize out }, out)

def push (lim : Limits) (s : St) (sg : SG) : St × List SG :=
  if !s.init then ({ s with init := true, cur := sg.id }, [sg])
  else if sg.id ≤ s.cur then (s, [])
  else if sg.id = s.cur + 1 ∧ s.pending.isEmpty then ({ s with cur := sg.id }, [sg])
  else
    let s1 : St := { s with pending := ins sg s.pending,
                            bytes := s.bytes - prevSize sg.id s.pending + sg.size }
    let diff := sg.id - s.cur
    let countInRange := (s1.pending.filter (fun x => x.id ≤ sg.id)).length
    if countInRange = diff then flushUpTo s1 sg.id
    else if s1.pending.length > lim.maxReordered then flushUpTo s1 sg.id
    else if s1.bytes > lim.maxPendingBytes then flushUpTo s1 sg.id
    else (s1, [])

/-- run a whole history, collecting the per-push outputs. -/
def run (lim : Limits) : St → List SG → St × List (List SG)
  | s, [] => (s, [])
  | s, sg :: rest =>
    let r := push lim s sg
    let rr := run lim r.1 rest
    (rr.1, r.2 :: rr.2)

/-! ### executable spec on the implementation's answers (one history) -/

structure SpecSt where
  lastOut : Option Nat := none          -- id of the last subgroup handed on
  pushed : List SG := []                -- everything received so far (latest first)
  curKnown : Option Nat := none

/-- spec verdict for one push, given the ids/tags the implementation handed on and what it holds back. -/
def specPush (lim : Limits) (sp : SpecSt) (sg : SG) (outs : List (Nat × Nat)) (held heldBytes : Nat) :
    SpecSt × Option String :=
  let pushed := sg :: sp.pushed
  -- strictly increasing, also w.r.t. everything handed on before
  let rec incr (last : Option Nat) : List (Nat × Nat) → Bool
    | [] => true
    | (i, _) :: r => (match last with | none => true | some l => l < i) && incr (some i) r
  let okIncr := incr sp.lastOut outs
  -- each output is the latest received object with that id
  let okRecv := outs.all fun (i, t) => match pushed.find? (·.id = i) with
    | some x => x.tag == t
    | none => false
  -- direct successor of the last delivered one is delivered immediately
  let okNext := match sp.lastOut with
    | some l => if sg.id = l + 1 then outs.any (fun (i, t) => i == sg.id && t == sg.tag) else true
    | none => outs == [(sg.id, sg.tag)]
  let okBound := held ≤ lim.maxReordered ∧ heldBytes ≤ lim.maxPendingBytes
  let last' := match outs.getLast? with | some (i, _) => some i | none => sp.lastOut
  let err :=
    if !okIncr then some "handed-on group ids are not strictly increasing"
    else if !okRecv then some "handed on a subgroup that was not (the latest) received for its id"
    else if !okNext then some "direct successor of the last delivered subgroup was not delivered immediately"
    else if !okBound then some "more subgroups/bytes held back than the reorder limits allow"
    else none
  ({ lastOut := last', pushed := pushed }, err)

end MtxVerif.C33
