/-
C11 — configuration copies are independent (internal/conf/conf.go `deepClone`, `Conf.Clone`, `Path.Clone`).

Heap model.  A Go value is a tree whose reference nodes (pointer, slice backing array, map) carry a
*location id*; two nodes with the same id are the same memory cell (aliasing).  `clone` mirrors the
`reflect.Kind` switch of `deepClone`: every handled reference kind allocates a fresh location
(`reflect.New` / `MakeSlice` / `MakeMap`) and recurses; struct fields that are not settable (unexported)
stay at their zero value; every other kind falls into `default: return rv`, i.e. the very same value with
the very same locations.  Whether `reflect.Interface` is a handled kind is the parameter `ci`
(regenerated from the `case` labels of `deepClone` into `Gen/C11.lean`).

A mutation is a write into one memory cell: `mutate l …` rewrites the content of every node with
location `l` (that is what aliasing means) — "the original as seen after the write".
-/
import MtxVerif.Base.DriverLib

namespace MtxVerif.C11

/-- Leaves without locations. `scalar` = bool/int/uint/float/string (label = hash of the value);
`nil` = nil pointer/slice/map/interface/chan; `empty` = empty non-nil slice (no backing cell);
`zero` = zero value left by `reflect.New` in a non-settable field; `opaque` = content of a non-settable
field of the original (never looked at by `deepClone`). -/
inductive Atom
  | scalar (x : Nat)
  | nil
  | empty
  | zero
  | opaque
deriving DecidableEq, Repr, Inhabited

mutual
inductive V
  | atom (a : Atom)
  | ptr (l : Nat) (p : V)
  | slice (l : Nat) (es : Vs)
  | map (l : Nat) (kvs : Vs)
  | struct (fs : Vs)
  | iface (v : V)          -- non-nil interface boxing the dynamic value `v`
  | other (l : Nat)        -- chan / func / unsafe.Pointer: a reference `deepClone` cannot copy
/-- sequences: struct fields (`flag` = settable, `key` = field index), slice elements (`key` = index),
map entries (`key` = label of the map key, entries sorted by key). -/
inductive Vs
  | nil
  | cons (flag : Bool) (key : Nat) (hd : V) (tl : Vs)
end

mutual
inductive Ty
  | scalar
  | ptr (t : Ty)
  | slice (t : Ty)
  | map (t : Ty)
  | struct (fs : Tys)
  | iface (dyn : Ty)       -- interface whose dynamic values (if not nil) have type `dyn`
  | other
inductive Tys
  | nil
  | cons (settable : Bool) (t : Ty) (tl : Tys)
end

instance : Inhabited V := ⟨.atom .nil⟩
instance : Inhabited Ty := ⟨.scalar⟩

/-! ### deepClone -/

mutual
/-- `deepClone(rv)`; the `Nat` is the allocator (next unused location). -/
def clone (ci : Bool) : V → Nat → V × Nat
  | .atom a, n => (.atom a, n)
  | .ptr _ p, n => let r := clone ci p (n + 1); (.ptr n r.1, r.2)
  | .slice _ es, n => let r := cloneS ci es (n + 1); (.slice n r.1, r.2)
  | .map _ kvs, n => let r := cloneS ci kvs (n + 1); (.map n r.1, r.2)
  | .struct fs, n => let r := cloneF ci fs n; (.struct r.1, r.2)
  | .iface v, n =>
    if ci then let r := clone ci v n; (.iface r.1, r.2)
    else (.iface v, n)                          -- `default: return rv`
  | .other l, n => (.other l, n)                -- `default: return rv`
/-- slice elements / map values: every one is cloned. -/
def cloneS (ci : Bool) : Vs → Nat → Vs × Nat
  | .nil, n => (.nil, n)
  | .cons f k hd tl, n =>
    let r := clone ci hd n
    let rs := cloneS ci tl r.2
    (.cons f k r.1 rs.1, rs.2)
/-- struct fields: `if newField.CanSet() { newField.Set(deepClone(field)) }`. -/
def cloneF (ci : Bool) : Vs → Nat → Vs × Nat
  | .nil, n => (.nil, n)
  | .cons f k hd tl, n =>
    if f then
      let r := clone ci hd n
      let rs := cloneF ci tl r.2
      (.cons f k r.1 rs.1, rs.2)
    else
      let rs := cloneF ci tl n
      (.cons f k (.atom .zero) rs.1, rs.2)
end

/-- `Conf.Clone` / `Path.Clone`: `cloned := deepClone(ValueOf(conf)).Interface().(Conf); return &cloned`
— the result lives in a fresh cell. -/
def cloneRoot (ci : Bool) (v : V) (n : Nat) : V × Nat :=
  let r := clone ci v (n + 1)
  (.ptr n r.1, r.2)

mutual
/-- all location ids occurring in a value -/
def locs : V → List Nat
  | .atom _ => []
  | .ptr l p => l :: locs p
  | .slice l es => l :: locsS es
  | .map l kvs => l :: locsS kvs
  | .struct fs => locsS fs
  | .iface v => locs v
  | .other l => [l]
def locsS : Vs → List Nat
  | .nil => []
  | .cons _ _ hd tl => locs hd ++ locsS tl
end

mutual
/-- Write into cell `l`: a pointer cell gets the new pointee `fp old`, a slice/map cell the new content
`fs old`.  Every node labelled `l` changes (aliases are the same cell); everything else is searched. -/
def mutate (l : Nat) (fp : V → V) (fs : Vs → Vs) : V → V
  | .atom a => .atom a
  | .ptr l' p => if l' = l then .ptr l' (fp p) else .ptr l' (mutate l fp fs p)
  | .slice l' es => if l' = l then .slice l' (fs es) else .slice l' (mutateS l fp fs es)
  | .map l' kvs => if l' = l then .map l' (fs kvs) else .map l' (mutateS l fp fs kvs)
  | .struct fds => .struct (mutateS l fp fs fds)
  | .iface v => .iface (mutate l fp fs v)
  | .other l' => .other l'
def mutateS (l : Nat) (fp : V → V) (fs : Vs → Vs) : Vs → Vs
  | .nil => .nil
  | .cons f k hd tl => .cons f k (mutate l fp fs hd) (mutateS l fp fs tl)
end

mutual
/-- value-level side condition: the copy of `v` cannot share a cell with `v`. -/
def clonable (ci : Bool) : V → Bool
  | .atom _ => true
  | .ptr _ p => clonable ci p
  | .slice _ es => clonableS ci es
  | .map _ kvs => clonableS ci kvs
  | .struct fs => clonableF ci fs
  | .iface v => if ci then clonable ci v else (locs v).isEmpty
  | .other _ => false
def clonableS (ci : Bool) : Vs → Bool
  | .nil => true
  | .cons _ _ hd tl => clonable ci hd && clonableS ci tl
def clonableF (ci : Bool) : Vs → Bool
  | .nil => true
  | .cons f _ hd tl => (if f then clonable ci hd else true) && clonableF ci tl
end

mutual
/-- forget location ids (for "equal up to locations") -/
def erase : V → V
  | .atom a => .atom a
  | .ptr _ p => .ptr 0 (erase p)
  | .slice _ es => .slice 0 (eraseS es)
  | .map _ kvs => .map 0 (eraseS kvs)
  | .struct fs => .struct (eraseS fs)
  | .iface v => .iface (erase v)
  | .other _ => .other 0
def eraseS : Vs → Vs
  | .nil => .nil
  | .cons f k hd tl => .cons f k (erase hd) (eraseS tl)
end

mutual
/-- what a faithful copy looks like: non-settable fields (on the part `deepClone` walks) are zero. -/
def zeroU (ci : Bool) : V → V
  | .atom a => .atom a
  | .ptr l p => .ptr l (zeroU ci p)
  | .slice l es => .slice l (zeroUS ci es)
  | .map l kvs => .map l (zeroUS ci kvs)
  | .struct fs => .struct (zeroUF ci fs)
  | .iface v => if ci then .iface (zeroU ci v) else .iface v
  | .other l => .other l
def zeroUS (ci : Bool) : Vs → Vs
  | .nil => .nil
  | .cons f k hd tl => .cons f k (zeroU ci hd) (zeroUS ci tl)
def zeroUF (ci : Bool) : Vs → Vs
  | .nil => .nil
  | .cons f k hd tl => .cons f k (if f then zeroU ci hd else .atom .zero) (zeroUF ci tl)
end

/-! ### types -/

mutual
/-- no reference anywhere inside (so a shallow copy is a deep copy) -/
def refFree : Ty → Bool
  | .scalar => true
  | .ptr _ => false
  | .slice _ => false
  | .map _ => false
  | .struct fs => refFreeS fs
  | .iface d => refFree d
  | .other => false
def refFreeS : Tys → Bool
  | .nil => true
  | .cons s t tl => s && refFree t && refFreeS tl   -- a non-settable field is not described: assume the worst
end

mutual
/-- Decidable side condition on a type tree: every reference reachable through settable fields is of a
kind `deepClone` handles. -/
def noUnhandled (ci : Bool) : Ty → Bool
  | .scalar => true
  | .ptr t => noUnhandled ci t
  | .slice t => noUnhandled ci t
  | .map t => noUnhandled ci t
  | .struct fs => noUnhandledS ci fs
  | .iface d => if ci then noUnhandled ci d else refFree d
  | .other => false
def noUnhandledS (ci : Bool) : Tys → Bool
  | .nil => true
  | .cons s t tl => (if s then noUnhandled ci t else true) && noUnhandledS ci tl
end

mutual
/-- `v` is a value of type `t` -/
def hasTy : V → Ty → Bool
  | .atom a, t =>
    match a, t with
    | .scalar _, .scalar => true
    | .nil, .ptr _ => true
    | .nil, .slice _ => true
    | .nil, .map _ => true
    | .nil, .iface _ => true
    | .nil, .other => true
    | .empty, .slice _ => true
    | _, _ => false
  | .ptr _ p, t => match t with | .ptr t' => hasTy p t' | _ => false
  | .slice _ es, t => match t with | .slice t' => allTy es t' | _ => false
  | .map _ kvs, t => match t with | .map t' => allTy kvs t' | _ => false
  | .struct fs, t => match t with | .struct ts => fieldsTy fs ts | _ => false
  | .iface v, t => match t with | .iface d => hasTy v d | _ => false
  | .other _, t => match t with | .other => true | _ => false
def allTy : Vs → Ty → Bool
  | .nil, _ => true
  | .cons _ _ hd tl, t => hasTy hd t && allTy tl t
def fieldsTy : Vs → Tys → Bool
  | .nil, ts => match ts with | .nil => true | _ => false
  | .cons f _ hd tl, ts =>
    match ts with
    | .cons s t ts' => (f == s) && (if s then hasTy hd t else true) && fieldsTy tl ts'
    | .nil => false
end

/-! ### mutation slots of a copy (what the harness exercises one by one)

A *slot* is a place a program can assign to: a struct field, a slice element, a map entry, a pointee.
Its *owner* is the memory cell it lives in.  `ro` = the value sits by value inside an interface box
(not assignable in place); `own` = owner of by-value parts. -/

def stepF (p : String) (i : Nat) : String := p ++ "." ++ toString i
def stepE (p : String) (i : Nat) : String := p ++ "[" ++ toString i ++ "]"
def stepK (p : String) (i : Nat) : String := p ++ "{" ++ toString i ++ "}"

mutual
def slots (ro : Bool) (own : Nat) (path : String) : V → List (String × Nat)
  | .atom _ => if ro then [] else [(path, own)]
  | .ptr l p => (if ro then [] else [(path, own)]) ++ slots false l (path ++ "*") p
  | .slice l es => (if ro then [] else [(path, own)]) ++ slotsE l path 0 es
  | .map l kvs => (if ro then [] else [(path, own)]) ++ (path ++ "{+}", l) :: slotsK l path 0 kvs
  | .struct fs => slotsF ro own path fs
  | .iface v => (if ro then [] else [(path, own)]) ++ slots true own (path ++ "!") v
  | .other _ => if ro then [] else [(path, own)]
def slotsE (own : Nat) (path : String) (i : Nat) : Vs → List (String × Nat)
  | .nil => []
  | .cons _ _ hd tl => slots false own (stepE path i) hd ++ slotsE own path (i + 1) tl
def slotsK (own : Nat) (path : String) (i : Nat) : Vs → List (String × Nat)
  | .nil => []
  | .cons _ _ hd tl => slots false own (stepK path i) hd ++ slotsK own path (i + 1) tl
def slotsF (ro : Bool) (own : Nat) (path : String) : Vs → List (String × Nat)
  | .nil => []
  | .cons f k hd tl => (if f then slots ro own (stepF path k) hd else []) ++ slotsF ro own path tl
end

/-- slots of the copy whose owner cell already existed before the copy was made (`< n`) -/
def aliased (n : Nat) (sl : List (String × Nat)) : List String :=
  (sl.filter fun s => s.2 < n).map (·.1)

def maxLoc (v : V) : Nat := (locs v).foldl (fun a l => max a (l + 1)) 0

/-! ### parsing the harness' encoding

types : `s` scalar, `p T`, `l T`, `m T`, `i T`, `o`, `S( {+T | -} )`
values: `s<nat>,` scalar, `n` nil, `e` empty slice, `z` zero, `u` opaque, `p<loc>:V`, `l<loc>:(V…)`,
`m<loc>:(<key>=V…)`, `S( {+V | -V} )`, `iV`, `o<loc>,` -/

def takeNat : List Char → Nat × List Char
  | cs =>
    let ds := cs.takeWhile Char.isDigit
    (ds.foldl (fun a c => a * 10 + (c.toNat - 48)) 0, cs.drop ds.length)

mutual
partial def parseTy : List Char → Option (Ty × List Char)
  | 's' :: r => some (.scalar, r)
  | 'o' :: r => some (.other, r)
  | 'p' :: r => do let (t, r) ← parseTy r; pure (.ptr t, r)
  | 'l' :: r => do let (t, r) ← parseTy r; pure (.slice t, r)
  | 'm' :: r => do let (t, r) ← parseTy r; pure (.map t, r)
  | 'i' :: r => do let (t, r) ← parseTy r; pure (.iface t, r)
  | 'S' :: '(' :: r => do let (fs, r) ← parseTys r; pure (.struct fs, r)
  | _ => none
partial def parseTys : List Char → Option (Tys × List Char)
  | ')' :: r => some (.nil, r)
  | '-' :: r => do let (fs, r) ← parseTys r; pure (.cons false .scalar fs, r)
  | '+' :: r => do
    let (t, r) ← parseTy r
    let (fs, r) ← parseTys r
    pure (.cons true t fs, r)
  | _ => none
end

mutual
partial def parseV : List Char → Option (V × List Char)
  | 'n' :: r => some (.atom .nil, r)
  | 'e' :: r => some (.atom .empty, r)
  | 'z' :: r => some (.atom .zero, r)
  | 'u' :: r => some (.atom .opaque, r)
  | 's' :: r => match takeNat r with
    | (x, ',' :: r) => some (.atom (.scalar x), r)
    | _ => none
  | 'o' :: r => match takeNat r with
    | (x, ',' :: r) => some (.other x, r)
    | _ => none
  | 'p' :: r => match takeNat r with
    | (l, ':' :: r) => do let (v, r) ← parseV r; pure (.ptr l v, r)
    | _ => none
  | 'l' :: r => match takeNat r with
    | (l, ':' :: '(' :: r) => do let (es, r) ← parseElems 0 r; pure (.slice l es, r)
    | _ => none
  | 'm' :: r => match takeNat r with
    | (l, ':' :: '(' :: r) => do let (es, r) ← parseEntries r; pure (.map l es, r)
    | _ => none
  | 'S' :: '(' :: r => do let (fs, r) ← parseFields 0 r; pure (.struct fs, r)
  | 'i' :: r => do let (v, r) ← parseV r; pure (.iface v, r)
  | _ => none
partial def parseElems (i : Nat) : List Char → Option (Vs × List Char)
  | ')' :: r => some (.nil, r)
  | r => do
    let (v, r) ← parseV r
    let (tl, r) ← parseElems (i + 1) r
    pure (.cons true i v tl, r)
partial def parseEntries : List Char → Option (Vs × List Char)
  | ')' :: r => some (.nil, r)
  | r => match takeNat r with
    | (k, '=' :: r) => do
      let (v, r) ← parseV r
      let (tl, r) ← parseEntries r
      pure (.cons true k v tl, r)
    | _ => none
partial def parseFields (i : Nat) : List Char → Option (Vs × List Char)
  | ')' :: r => some (.nil, r)
  | '+' :: r => do
    let (v, r) ← parseV r
    let (tl, r) ← parseFields (i + 1) r
    pure (.cons true i v tl, r)
  | '-' :: r => do
    let (v, r) ← parseV r
    let (tl, r) ← parseFields (i + 1) r
    pure (.cons false i v tl, r)
  | _ => none
end

def parseTyAll (s : String) : Option Ty :=
  match parseTy s.toList with
  | some (t, []) => some t
  | _ => none

def parseVAll (s : String) : Option V :=
  match parseV s.toList with
  | some (v, []) => some v
  | _ => none

mutual
partial def showV : V → String
  | .atom (.scalar x) => "s" ++ toString x ++ ","
  | .atom .nil => "n"
  | .atom .empty => "e"
  | .atom .zero => "z"
  | .atom .opaque => "u"
  | .ptr l p => "p" ++ toString l ++ ":" ++ showV p
  | .slice l es => "l" ++ toString l ++ ":(" ++ showElems es ++ ")"
  | .map l kvs => "m" ++ toString l ++ ":(" ++ showEntries kvs ++ ")"
  | .struct fs => "S(" ++ showFields fs ++ ")"
  | .iface v => "i" ++ showV v
  | .other l => "o" ++ toString l ++ ","
partial def showElems : Vs → String
  | .nil => ""
  | .cons _ _ hd tl => showV hd ++ showElems tl
partial def showEntries : Vs → String
  | .nil => ""
  | .cons _ k hd tl => toString k ++ "=" ++ showV hd ++ showEntries tl
partial def showFields : Vs → String
  | .nil => ""
  | .cons f _ hd tl => (if f then "+" else "-") ++ showV hd ++ showFields tl
end

/-! ### executable spec, evaluated on the IMPLEMENTATION's answer -/

mutual
/-- locations of the copy that lie below an interface node (the decidable class of finding F-C11) /
elsewhere: `(underIface, l)` -/
def locsCtx (u : Bool) : V → List (Bool × Nat)
  | .atom _ => []
  | .ptr l p => (u, l) :: locsCtx u p
  | .slice l es => (u, l) :: locsCtxS u es
  | .map l kvs => (u, l) :: locsCtxS u kvs
  | .struct fs => locsCtxS u fs
  | .iface v => locsCtx true v
  | .other l => [(u, l)]
def locsCtxS (u : Bool) : Vs → List (Bool × Nat)
  | .nil => []
  | .cons _ _ hd tl => locsCtx u hd ++ locsCtxS u tl
end

/-- Verdict on a copy (as encoded by the harness, jointly numbered with the original whose cells are
`0 … n-1`) and on the list of slots whose mutation changed the original. -/
def specClone (n : Nat) (implCopy : V) (aliasPaths : List String) : String :=
  let shared := (locsCtx false implCopy).filter fun x => x.2 < n
  let behind := shared.filter fun x => x.1
  if shared.isEmpty && aliasPaths.isEmpty then "ok"
  else
    "FAIL copy is not independent: " ++ toString shared.length ++ " cell(s) shared with the original (" ++
      toString behind.length ++ " behind an interface); mutations of the copy that changed the original: " ++
      ",".intercalate (aliasPaths.take 5)

end MtxVerif.C11
