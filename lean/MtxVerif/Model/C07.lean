/-
C07 — secrets are not disclosed by API responses or debug dumps
(internal/api/api.go `redactCredentials` + the four configuration GET handlers;
 internal/protocols/httpp/handler_logger.go `dumpRequest`).

Part A.  The secret-bearing part of a configuration: the passwords of the internal users
(`AuthInternalUsers[i].Pass`) and the deprecated `publishPass` / `readPass` of the path defaults and of
every path (`*Credential`, `none` = nil pointer).  `redact` mirrors `redactCredentials` (after the
clone): every non-empty password becomes the placeholder.  What the handlers then serialise:
global/get → users; pathdefaults/get → defaults; paths/list and paths/get → paths.

Part B.  `dumpHeaders` mirrors the header loop of `dumpRequest`: keys in sorted order, one line per
value, the value replaced by the placeholder iff the lookup of the key in `requestHeadersToRedact` hits
(exact map lookup, or through `http.CanonicalHeaderKey` — parameter `canon`, regenerated from the source).
-/
import MtxVerif.Base.DriverLib
import MtxVerif.Model.C11

namespace MtxVerif.C07

def placeholder : Bytes := asc ['<', 'r', 'e', 'd', 'a', 'c', 't', 'e', 'd', '>']

/-! ### Part A -/

structure PathS where
  publishPass : Option Bytes
  readPass : Option Bytes
deriving Repr, DecidableEq, Inhabited

structure ConfS where
  users : List Bytes                 -- AuthInternalUsers[i].Pass
  defaults : PathS
  paths : List (String × PathS)      -- Paths, by name
deriving Repr, DecidableEq, Inhabited

def redactPass (p : Bytes) : Bytes := if p ≠ [] then placeholder else p

def redactOpt : Option Bytes → Option Bytes
  | none => none
  | some p => some (redactPass p)

def redactPath (p : PathS) : PathS := ⟨redactOpt p.publishPass, redactOpt p.readPass⟩

def redact (c : ConfS) : ConfS :=
  { users := c.users.map redactPass,
    defaults := redactPath c.defaults,
    paths := c.paths.map fun e => (e.1, redactPath e.2) }

/-- a password position shows nothing: empty (no password set) or the placeholder -/
def safePass (p : Bytes) : Bool := p == [] || p == placeholder

def safeOpt : Option Bytes → Bool
  | none => true
  | some p => safePass p

def safePath (p : PathS) : Bool := safeOpt p.publishPass && safeOpt p.readPass

/-- executable spec on a served view -/
def safeConf (c : ConfS) : Bool :=
  c.users.all safePass && safePath c.defaults && c.paths.all fun e => safePath e.2

/-- what `config/paths/list?itemsPerPage=ipp&page=p` serves of a (sorted) path list (paginate, C44) -/
def pageOf (paths : List (String × PathS)) (ipp p : Nat) : List (String × PathS) :=
  (paths.drop (p * ipp)).take ipp

/-! type-tree side condition: every credential-typed field the API serialises whose name says "password"
is one of the positions `redactCredentials` rewrites.  `fields` = (scope, json path, Go type) from a
reflection walk; scope `g` = global/get, `p` = path objects (defaults, list, get). -/

def lower (c : Char) : Char := if 'A' ≤ c ∧ c ≤ 'Z' then Char.ofNat (c.toNat + 32) else c

def isInfix (a b : List Char) : Bool :=
  (List.range (b.length + 1)).any fun i => (b.drop i).take a.length == a

/-- last component of a json path like `authInternalUsers[].pass` -/
def lastComp (p : String) : List Char :=
  ((p.splitOn ".").getLast?.getD "").toList

def passLike (jsonPath : String) : Bool := isInfix ['p', 'a', 's', 's'] ((lastComp jsonPath).map lower)

def redactedPositions : List (String × String) :=
  [("g", "authInternalUsers[].pass"), ("p", "publishPass"), ("p", "readPass")]

/-- fields that would leak: credential-typed, password-named, not rewritten -/
def uncovered (fields : List (String × String × String)) : List (String × String) :=
  (fields.filter fun f => f.2.2 == "conf.Credential" && passLike f.2.1 &&
      !(redactedPositions.contains (f.1, f.2.1))).map fun f => (f.1, f.2.1)

/-- the positions the model redacts must exist with credential type (else the model is about nothing) -/
def missing (fields : List (String × String × String)) : List (String × String) :=
  redactedPositions.filter fun r => !(fields.any fun f => f.1 == r.1 && f.2.1 == r.2 && f.2.2 == "conf.Credential")

/-! purity side condition on the type tree: the places `redactCredentials` writes to -/

open MtxVerif.C11 in
/-- type-level reading of "not behind an interface": following `steps` from a type never crosses an
interface node (`0` = deref / element / map value, `k+1` = struct field `k`) -/
def avoidsIface : Ty → List Nat → Bool
  | .iface _, _ => false
  | _, [] => true
  | .ptr t, 0 :: r => avoidsIface t r
  | .slice t, 0 :: r => avoidsIface t r
  | .map t, 0 :: r => avoidsIface t r
  | .struct fs, (k + 1) :: r => fieldAt fs k r
  | _, _ => false
where
  fieldAt : Tys → Nat → List Nat → Bool
    | .nil, _, _ => false
    | .cons s t _, 0, r => s && avoidsIface t r
    | .cons _ _ tl, k + 1, r => fieldAt tl k r

/-! ### Part B -/

abbrev Header := Bytes × List Bytes      -- map key, values in order

def crlf : Bytes := [13, 10]
def colonSp : Bytes := [58, 32]

def isInfixB (a b : Bytes) : Bool :=
  (List.range (b.length + 1)).any fun i => (b.drop i).take a.length == a

/-! HTTP header names are case-insensitive: a header is a credential header if its name equals a listed
name up to ASCII case.  Keys produced by net/http are in canonical spelling, the spelling of the list. -/

def lowerB (b : Bytes) : Bytes := b.map fun c => if 65 ≤ c.toNat ∧ c.toNat ≤ 90 then c + 32 else c

/-- `k` names a listed credential header (case-insensitively) -/
def listedCI (rs : List Bytes) (k : Bytes) : Bool := rs.any fun r => lowerB r == lowerB k

/-- The lookup `dumpRequest` does for a map key.  `canon = false`: `requestHeadersToRedact[k]` (exact);
`canon = true`: `requestHeadersToRedact[http.CanonicalHeaderKey(k)]`, which for keys that are case
variants of listed names is the case-insensitive match.  Which one the code has is regenerated from the
source into `Gen/C07.lean`. -/
def hit (canon : Bool) (rs : List Bytes) (k : Bytes) : Bool :=
  if canon then listedCI rs k else rs.contains k

/-- one `fmt.Fprintf(&b, "%s: %s\r\n", k, v)` with `v` replaced iff `p k` -/
def headerLineBy (p : Bytes → Bool) (k v : Bytes) : Bytes :=
  k ++ colonSp ++ (if p k then placeholder else v) ++ crlf

/-- header section of the dump; `hs` in the order `slices.Sort(keys)` leaves the keys -/
def dumpHeadersBy (p : Bytes → Bool) (hs : List Header) : Bytes :=
  hs.flatMap fun h => h.2.flatMap fun v => headerLineBy p h.1 v

/-- the request with the values of the headers selected by `p` erased (only their number remains) -/
def eraseBy (p : Bytes → Bool) (hs : List Header) : List Header :=
  hs.map fun h => if p h.1 then (h.1, h.2.map fun _ => []) else h

def dumpHeaders (canon : Bool) (rs : List Bytes) (hs : List Header) : Bytes := dumpHeadersBy (hit canon rs) hs

/-- whole dump: request line and Host line are passed in as produced by fmt (oracle), then headers,
blank line, capped body -/
def dump (canon : Bool) (rs : List Bytes) (reqLine hostLine : Bytes) (hs : List Header) (body : Bytes) : Bytes :=
  reqLine ++ hostLine ++ dumpHeaders canon rs hs ++ crlf ++ body

/-- values of ALL credential headers erased, whatever the spelling of the key -/
def eraseSecretsCI (rs : List Bytes) (hs : List Header) : List Header := eraseBy (listedCI rs) hs

/-- decidable side condition: every credential header of the request is spelled as in the list -/
def keysCanonical (rs : List Bytes) (hs : List Header) : Bool :=
  hs.all fun h => !listedCI rs h.1 || rs.contains h.1

/-- what the dump must look like: every value of every credential header replaced by the placeholder -/
def idealHeaders (rs : List Bytes) (hs : List Header) : Bytes := dumpHeadersBy (listedCI rs) hs

/-- the pieces of a secret that are looked for in a dump: the whole value if it is short, otherwise 24-byte
windows every 128 bytes and the last 24 bytes (a dump that shows a truncated secret still shows a window) -/
def chunks (v : Bytes) : List Bytes :=
  if v.length ≤ 32 then [v]
  else ((List.range ((v.length - 24) / 128 + 1)).map fun i => (v.drop (i * 128)).take 24) ++ [v.drop (v.length - 24)]

/-- `c` shows in `out` although nothing outside the credential headers contains it -/
def leaks1 (out ideal c : Bytes) : Bool := isInfixB c out && !isInfixB c ideal

/-- **Executable spec on the implementation's dump** `out`: the planted secrets are all non-empty values
of credential headers; one leaks if (a chunk of) it occurs in `out` although it occurs nowhere in the request
outside the credential headers (request line, Host line, other headers, body — i.e. not in the ideal dump).
Result: leaked values under canonically spelled keys / under other spellings. -/
def leaked (rs : List Bytes) (reqLine hostLine : Bytes) (hs : List Header) (body out : Bytes) :
    List Bytes × List Bytes :=
  let ideal := reqLine ++ hostLine ++ idealHeaders rs hs ++ crlf ++ body
  let bad (h : Header) : List Bytes :=
    h.2.filter fun v => v ≠ [] && (chunks v).any (leaks1 out ideal)
  let cred := hs.filter fun h => listedCI rs h.1
  ((cred.filter fun h => rs.contains h.1).flatMap bad, (cred.filter fun h => !rs.contains h.1).flatMap bad)

end MtxVerif.C07
