/-
C29 — playback list/get return exactly the recorded media in range.

Recordings are produced by the writer model of C27 (`MtxVerif.C27.write`, tied to the real recorder there and
again here, sample by sample).  On top of it:

* `findSegments`  = recordstore.FindSegments (end filter, sort, the three `start` cases)
* `concatenate`   = concatenateSegments of on_list.go (fold with segmentFMP4CanBeConcatenated, mtxi branch)
* `clip`          = the start / end clipping of onList (incl. dropping a first entry that ends before `start`)
* `muxStep`/`muxAll` = muxerFMP4.writeSample as far as *which* samples reach the client: pre-roll GOP buffer,
                    first visible sample, final flush
* `walkSeg`/`getModel` = seekAndMux + segmentFMP4MuxParts: per-track DTS offset, `dts >= duration` cut-off,
                    termination at the next mdat, continuation over concatenable segments

Times are `Int` nanoseconds since an arbitrary epoch; track timestamps are `Int` clock units.
Go's `/` and `%` on int64 are `Int.tdiv` / `Int.tmod`.
-/
import MtxVerif.Model.C27

namespace MtxVerif.C29

/-! ## list -/

structure Seg where
  start : Int        -- from the file name (µs resolution)
  dur : Int          -- header duration, or computed from the parts when the header says 0
  sid : Nat
  number : Nat
deriving Repr, DecidableEq

structure Entry where
  start : Int
  dur : Int
deriving Repr, DecidableEq

/-- insertion sort by start (sort.Slice with `Before`; the generator never produces equal starts) -/
def insertSeg (s : Seg) : List Seg → List Seg
  | [] => [s]
  | x :: r => if s.start < x.start then s :: x :: r else x :: insertSeg s r

def sortSegs (l : List Seg) : List Seg := l.foldr insertSeg []

/-- "find the segment that may contain the start of the playback and remove all previous ones" -/
def dropBefore (start : Int) : List Seg → Option (List Seg)
  | a :: b :: r => if a.start ≤ start ∧ start < b.start then some (a :: b :: r) else dropBefore start (b :: r)
  | _ => none

/-- recordstore.FindSegments on the (already decoded) segment list; `none` = ErrNoSegmentsFound -/
def findSegments (segs : List Seg) (start fin : Option Int) : Option (List Seg) :=
  let l := segs.filter (fun s => match fin with | none => true | some e => decide (s.start ≤ e))
  if l.isEmpty then none else
  let l := sortSegs l
  match start with
  | none => some l
  | some st =>
    match l.head? with
    | none => none
    | some h =>
      if st < h.start then some l else
      match dropBefore st l with
      | some r => some r
      | none =>
        match l.getLast? with
        | none => none
        | some z => if z.start > st then none else some [z]

def canConcat (a b : Seg) : Bool := a.sid == b.sid && a.number + 1 == b.number

/-- concatenateSegments.  `prev` is the previous *segment* (prevInit, not the previous entry); `cur` is the
entry being extended, i.e. `out[len(out)-1]` of the Go code. -/
def concatGo (prev : Seg) (cur : Entry) : List Seg → List Entry
  | [] => [cur]
  | s :: r =>
    if canConcat prev s then concatGo s ⟨cur.start, s.start + s.dur - cur.start⟩ r
    else cur :: concatGo s ⟨s.start, s.dur⟩ r

def concatenate : List Seg → List Entry
  | [] => []
  | s :: r => concatGo s ⟨s.start, s.dur⟩ r

/-- onList clipping; `none` = 404 -/
def clipStart (start : Option Int) (es : List Entry) : Option (List Entry) :=
  match start, es with
  | none, _ => some es
  | some _, [] => none      -- (unreachable in the code: entries[0] exists because FindSegments is non-empty)
  | some st, e :: r =>
    if e.start + e.dur < st then (if r.isEmpty then none else some r)
    else if e.start < st then some (⟨st, e.dur - (st - e.start)⟩ :: r)
    else some (e :: r)

def clipEnd (fin : Option Int) (es : List Entry) : List Entry :=
  match fin, es.getLast? with
  | some e, some l => if l.start + l.dur > e then es.dropLast ++ [⟨l.start, e - l.start⟩] else es
  | _, _ => es

/-- GET /list: `none` = 404 -/
def listModel (segs : List Seg) (start fin : Option Int) : Option (List Entry) :=
  match findSegments segs start fin with
  | none => none
  | some l =>
    match clipStart start (concatenate l) with
    | none => none
    | some es => some (clipEnd fin es)

/-! ## get -/

/-- durationGoToMp4 -/
def goToMp4 (v : Int) (ts : Nat) : Int :=
  (v.tdiv 1000000000) * ts + ((v.tmod 1000000000) * ts).tdiv 1000000000

structure Smp where
  id : Nat
  nonSync : Bool
  dts : Int          -- clock units, relative to the requested start
deriving Repr, DecidableEq

/-- per-track muxer state, restricted to what decides WHICH samples reach the client -/
structure MTrack where
  tid : Nat
  seenVisible : Bool := false      -- firstDTS >= 0
  firstDTS : Int := 0
  buf : List Nat := []             -- ids buffered / emitted, in order
deriving Repr, DecidableEq

/-- muxerFMP4.writeSample -/
def muxStep (t : MTrack) (s : Smp) : MTrack :=
  if s.dts ≥ 0 then
    if !t.seenVisible then
      { t with seenVisible := true, firstDTS := s.dts, buf := (if !s.nonSync then [] else t.buf) ++ [s.id] }
    else { t with buf := t.buf ++ [s.id] }
  else
    if !s.nonSync then { t with buf := [s.id] } else { t with buf := t.buf ++ [s.id] }

/-- one part of a segment as the walk sees it: per track, samples in file order (dts still relative to the
segment: clock units since the segment's start) -/
structure PTrk where
  tid : Nat
  samples : List (Nat × Bool × Int)   -- id, nonSync, dts (clock units from the segment start)
deriving Repr, DecidableEq

structure GSeg where
  seg : Seg
  startDTS : Int                     -- mtxi.DTS
  parts : List (List PTrk)
deriving Repr

structure TrackInfo where
  tid : Nat
  ts : Nat
deriving Repr, DecidableEq

def updTrack (ms : List MTrack) (tid : Nat) (f : MTrack → MTrack) : List MTrack :=
  ms.map (fun m => if m.tid == tid then f m else m)

/-- the entries loop of one trun: stops at the first sample at or beyond the cut-off -/
def walkSamples (off cut : Int) (m : MTrack) : List (Nat × Bool × Int) → MTrack × Bool
  | [] => (m, false)
  | (id, ns, d) :: r =>
    if d + off ≥ cut then (m, true)
    else walkSamples off cut (muxStep m ⟨id, ns, d + off⟩) r

/-- one moof: every traf is walked; `true` = breakAtNextMdat -/
def walkPart (tracks : List TrackInfo) (dtsNs durNs : Int) (ms : List MTrack) : List PTrk → List MTrack × Bool
  | [] => (ms, false)
  | pt :: r =>
    match tracks.find? (fun t => t.tid == pt.tid), ms.find? (fun m => m.tid == pt.tid) with
    | some ti, some m =>
      let (m', stop) := walkSamples (goToMp4 dtsNs ti.ts) (goToMp4 durNs ti.ts) m pt.samples
      let (ms', stop') := walkPart tracks dtsNs durNs (updTrack ms pt.tid (fun _ => m')) r
      (ms', stop || stop')
    | _, _ => walkPart tracks dtsNs durNs ms r

/-- segmentFMP4MuxParts over the parts of one segment: stops after the first part in which some track reached
the cut-off -/
def walkSeg (tracks : List TrackInfo) (dtsNs durNs : Int) : List MTrack → List (List PTrk) → List MTrack
  | ms, [] => ms
  | ms, p :: r =>
    let (ms', stop) := walkPart tracks dtsNs durNs ms p
    if stop then ms' else walkSeg tracks dtsNs durNs ms' r

/-- seekAndMux over the found segments (first one always, the following ones while concatenable) -/
def walkSegs (tracks : List TrackInfo) (startNs durNs : Int) (first : GSeg) :
    List MTrack → Option GSeg → List GSeg → List MTrack
  | ms, _, [] => ms
  | ms, prev, g :: r =>
    match prev with
    | none =>
      walkSegs tracks startNs durNs first (walkSeg tracks (g.seg.start - startNs) durNs ms g.parts) (some g) r
    | some p =>
      if canConcat p.seg g.seg then
        walkSegs tracks startNs durNs first
          (walkSeg tracks ((g.startDTS - first.startDTS) + (first.seg.start - startNs)) durNs ms g.parts) (some g) r
      else ms

structure GetOut where
  tid : Nat
  base : Int
  ids : List Nat
deriving Repr, DecidableEq

/-- GET /get: `none` = 404 (no segment, or nothing visible).  Output per track that has a visible sample. -/
def getModel (tracks : List TrackInfo) (gsegs : List GSeg) (startNs durNs : Int) : Option (List GetOut) :=
  match findSegments (gsegs.map (·.seg)) (some startNs) (some (startNs + durNs)) with
  | none => none
  | some l =>
    let found := l.filterMap (fun s => gsegs.find? (fun g => g.seg == s))
    match found with
    | [] => none
    | first :: _ =>
      let ms0 := tracks.map (fun t => ({ tid := t.tid } : MTrack))
      let ms := walkSegs tracks startNs durNs first ms0 none found
      let outs := ms.filterMap (fun m => if m.seenVisible then some ⟨m.tid, m.firstDTS, m.buf⟩ else none)
      if outs.isEmpty then none else some outs

/-! ### the property, executable, for one request (used on the implementation's answers) -/

/-- all samples of a track in recording order with their dts relative to `startNs`, over the run of concatenable
segments that GET serves (the first found segment and its continuation) -/
def trackTimeline (ti : TrackInfo) (startNs : Int) (first : GSeg) : Option GSeg → List GSeg → List Smp
  | _, [] => []
  | prev, g :: r =>
    let off : Option Int := match prev with
      | none => some (g.seg.start - startNs)
      | some p => if canConcat p.seg g.seg then some ((g.startDTS - first.startDTS) + (first.seg.start - startNs)) else none
    match off with
    | none => []
    | some o =>
      (g.parts.flatMap fun p => (p.filter (·.tid == ti.tid)).flatMap fun pt =>
        pt.samples.map fun (id, ns, d) => (⟨id, ns, d + goToMp4 o ti.ts⟩ : Smp))
      ++ trackTimeline ti startNs first (some g) r

/-- ids that must be returned: samples with 0 ≤ dts < cut-off -/
def wantVisible (ti : TrackInfo) (durNs : Int) (tl : List Smp) : List Nat :=
  (tl.filter (fun s => decide (0 ≤ s.dts ∧ s.dts < goToMp4 durNs ti.ts))).map (·.id)

/-- ids that may precede them: the samples before the start, from the last random-access one on -/
def allowedPreroll (tl : List Smp) : List Nat :=
  let pre := tl.takeWhile (fun s => decide (s.dts < 0))
  let rec go (acc : List Nat) : List Smp → List Nat
    | [] => acc
    | s :: r => go (if s.nonSync then acc ++ [s.id] else [s.id]) r
  go [] pre

/-- muxerFMP4.writeSample with the proposed fix notes/C29-fix-get-dts-not-monotonic.diff: once a visible sample has been
received, later samples are never treated as pre-roll -/
def muxStepFix (t : MTrack) (s : Smp) : MTrack :=
  if s.dts ≥ 0 || t.seenVisible then
    if !t.seenVisible then
      { t with seenVisible := true, firstDTS := s.dts, buf := (if !s.nonSync then [] else t.buf) ++ [s.id] }
    else { t with buf := t.buf ++ [s.id] }
  else
    if !s.nonSync then { t with buf := [s.id] } else { t with buf := t.buf ++ [s.id] }

def getFixedWith (step : MTrack → Smp → MTrack) (tracks : List TrackInfo) (gsegs : List GSeg) (startNs durNs : Int) :
    Option (List GetOut) :=
  match findSegments (gsegs.map (·.seg)) (some startNs) (some (startNs + durNs)) with
  | none => none
  | some l =>
    let found := l.filterMap (fun s => gsegs.find? (fun g => g.seg == s))
    match found with
    | [] => none
    | first :: _ =>
      let outs := tracks.filterMap fun ti =>
        let tl := trackTimeline ti startNs first none found
        let fed := tl.filter (fun s => decide (s.dts < goToMp4 durNs ti.ts))
        let m := fed.foldl step ({ tid := ti.tid } : MTrack)
        if m.seenVisible then some (⟨m.tid, m.firstDTS, m.buf⟩ : GetOut) else none
      if outs.isEmpty then none else some outs

/-- GET /get with the proposed fix (stop only when EVERY track is past the end of the window): per track, all
samples before its cut-off reach the muxer -/
def getFixed (tracks : List TrackInfo) (gsegs : List GSeg) (startNs durNs : Int) : Option (List GetOut) :=
  match findSegments (gsegs.map (·.seg)) (some startNs) (some (startNs + durNs)) with
  | none => none
  | some l =>
    let found := l.filterMap (fun s => gsegs.find? (fun g => g.seg == s))
    match found with
    | [] => none
    | first :: _ =>
      let outs := tracks.filterMap fun ti =>
        let tl := trackTimeline ti startNs first none found
        let fed := tl.filter (fun s => decide (s.dts < goToMp4 durNs ti.ts))
        let m := fed.foldl muxStep ({ tid := ti.tid } : MTrack)
        if m.seenVisible then some (⟨m.tid, m.firstDTS, m.buf⟩ : GetOut) else none
      if outs.isEmpty then none else some outs

/-! ### canonical text -/

def fmtEntries (es : List Entry) : String :=
  "[" ++ ";".intercalate (es.map fun e => s!"{e.start}+{e.dur}") ++ "]"

def fmtGet (os : List GetOut) : String :=
  "|".intercalate (os.map fun o => s!"t{o.tid}@{o.base}:" ++ ",".intercalate (o.ids.map toString))

end MtxVerif.C29
