/-
C20 — hooks fire in well-formed start/stop pairs.
Path-level hooks (runOnReady/runOnNotReady = avail, runOnOnline/runOnOffline, runOnDemand/runOnUnDemand):
the shared path state machine (Model/PathSM.lean), outputs `Out.hook kind start?`.
Per-object hooks (runOnRead/runOnUnread per reader, runOnConnect/runOnDisconnect per connection): the
closure returned by hooks.OnRead / hooks.OnConnect and the three ways the servers consume it
(`ObjEv`, `rtspStep` below).
This file also holds the executable spec evaluated on the IMPLEMENTATION's answers.
-/
import MtxVerif.Model.PathSM

namespace MtxVerif.C20
open MtxVerif.PathSM

/-! ### per-object hooks -/

/-- RTSP session as far as runOnRead is concerned (internal/servers/rtsp/session.go): the hook is
started in `onPlay` only when the gortsplib session is in `PrePlay`, and the returned closure is
called in `onPause` / `onClose` only when it is in `Play`.  State changes are gortsplib's. -/
inductive RState | initial | prePlay | play | closed
deriving DecidableEq, Repr

inductive REv | setup | play | pause | close
deriving DecidableEq, Repr

/-- one handler call: new state and the hook events (start = true) it fires -/
def rtspStep : RState → REv → RState × List Bool
  | .initial, .setup => (.prePlay, [])
  | .prePlay, .setup => (.prePlay, [])
  | .prePlay, .play => (.play, [true])          -- onPlay, State() == PrePlay: hooks.OnRead
  | .play, .play => (.play, [])                 -- onPlay while playing: guard is false
  | .play, .pause => (.prePlay, [false])        -- onPause, case Play: s.onUnreadHook()
  | .play, .close => (.closed, [false])         -- onClose, State() == Play: s.onUnreadHook()
  | .closed, _ => (.closed, [])
  | _, .close => (.closed, [])
  | s, _ => (s, [])                             -- request refused by gortsplib in this state

def rtspRun : RState → List REv → RState × List Bool
  | s, [] => (s, [])
  | s, e :: es =>
    let r := rtspStep s e
    let rr := rtspRun r.1 es
    (rr.1, r.2 ++ rr.2)

/-- the other consumers: `x := hooks.OnX(...); defer x()` in the function that serves the object, or
one assignment when the object starts and one call in its close path. -/
inductive ObjEv | create | destroy
deriving DecidableEq, Repr

def objRun : Bool → List ObjEv → Bool × List Bool
  | alive, [] => (alive, [])
  | false, .create :: es => let r := objRun true es; (r.1, true :: r.2)
  | true, .destroy :: es => let r := objRun false es; (r.1, false :: r.2)
  | alive, _ :: es => objRun alive es            -- not possible for a Go function activation

/-! ### HLS reader sessions (internal/servers/hls: session.initialize / close2, muxer.addSession,
muxer.apiSessionsKick; the muxer loop's "instance crashed" / "muxer destroyed" handling) -/

structure HState where
  up : Bool := true                -- muxer.instance != nil
  plain : List Nat := []           -- sessionsBySecret
  cdn : Option Nat := none         -- cdnSession
  seen : List Nat := []            -- session numbers already used by the script
deriving Repr

inductive HEv | openS (n : Nat) | cdnS (n : Nat) | down | up | kick (n : Nat) | fin
deriving DecidableEq, Repr

inductive HOut | hook (n : Nat) (start : Bool) | err (n : Nat)
deriving DecidableEq, Repr

/-- `close2` on every session the muxer references, then forget them -/
def stopAll (s : HState) : List HOut :=
  s.plain.map (fun n => HOut.hook n false) ++ (match s.cdn with | some m => [HOut.hook m false] | none => [])

def hlsStep (s : HState) : HEv → HState × List HOut
  | .openS n =>
    if n ∈ s.seen then (s, [])
    else if s.up then ({ s with plain := s.plain ++ [n], seen := n :: s.seen }, [.hook n true])
    else ({ s with seen := n :: s.seen }, [.err n])            -- addSession: "muxer instance not available"
  | .cdnS n =>
    if n ∈ s.seen then (s, [])
    else if s.up then
      ({ s with cdn := some n, seen := n :: s.seen },
        (match s.cdn with | some m => [HOut.hook m false] | none => []) ++ [.hook n true])
    else ({ s with seen := n :: s.seen }, [.err n])
  | .down => ({ s with up := false, plain := [], cdn := none }, stopAll s)
  | .up => ({ s with up := true }, [])
  | .kick n =>
    if s.cdn = some n then ({ s with cdn := none }, [.hook n false])
    else if n ∈ s.plain then ({ s with plain := s.plain.filter (· != n) }, [.hook n false])
    else (s, [])
  | .fin => ({ s with plain := [], cdn := none }, stopAll s)

def hlsRun : HState → List HEv → HState × List HOut
  | s, [] => (s, [])
  | s, e :: es =>
    let r := hlsStep s e
    let rr := hlsRun r.1 es
    (rr.1, r.2 ++ rr.2)

/-! ### executable spec on the implementation's trace -/

structure Spec where
  avail : Bool := false
  online : Bool := false
  demand : Bool := false
  err : Option String := none

def Spec.fail (sp : Spec) (m : String) : Spec := if sp.err.isSome then sp else { sp with err := some m }

def specTok (sp : Spec) (t : String) : Spec :=
  if t == "h+avail" then
    (if sp.avail then sp.fail "runOnReady started while its pair is open" else sp) |> fun sp => { sp with avail := true }
  else if t == "h-avail" then
    (if !sp.avail then sp.fail "runOnNotReady without an open runOnReady"
     else if sp.online then sp.fail "runOnNotReady while the runOnOnline pair is still open" else sp) |>
      fun sp => { sp with avail := false }
  else if t == "h+online" then
    (if sp.online then sp.fail "runOnOnline started while its pair is open"
     else if !sp.avail then sp.fail "runOnOnline outside a runOnReady pair" else sp) |> fun sp => { sp with online := true }
  else if t == "h-online" then
    (if !sp.online then sp.fail "runOnOffline without an open runOnOnline" else sp) |> fun sp => { sp with online := false }
  else if t == "h+demand" then
    (if sp.demand then sp.fail "runOnDemand started while its pair is open" else sp) |> fun sp => { sp with demand := true }
  else if t == "h-demand" then
    (if !sp.demand then sp.fail "runOnUnDemand without an open runOnDemand" else sp) |> fun sp => { sp with demand := false }
  else if t == "h+read" || t == "h+connect" || t == "h-read" || t == "h-connect" then sp
  else sp

def specOp (sp : Spec) (o : Drv.Op) (impl : String) : Spec :=
  let sp := { sp with err := none }
  let toks := Drv.implToks impl
  let sp := match o with
    | .reset _ => ({} : Spec)
    | _ => sp
  let sp := toks.foldl specTok sp
  if toks.contains "rmpath" && (sp.avail || sp.online || sp.demand) then
    sp.fail s!"path closed with an open hook pair (ready={sp.avail} online={sp.online} demand={sp.demand})"
  else sp

def Spec.verdict (sp : Spec) : String :=
  match sp.err with
  | some m => "FAIL " ++ m
  | none => "ok"

end MtxVerif.C20
