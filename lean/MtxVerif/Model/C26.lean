/-
C26 — recording segment file names (internal/recordstore/path.go: `Path.Encode`, `Path.Decode`).

What is modelled (MediaMTX's own logic):
* the placeholder language of a record path format (`tokenize`): `%path %Y %m %d %H %M %S %f %z %s`,
  everything else literal bytes;  `substPath` = `strings.ReplaceAll(format, "%path", name)` (the recorder
  and `FindSegments` substitute the path name first and only then call Encode/Decode);
* `Encode`: `leadingZeros`, `timeLocationEncode`, un-padded `%Y` / `%s` (`strconv.FormatInt`);
* `Decode`: the regular expression the code builds is, token by token, `literal | (.*?) | ([0-9]{n}) |
  (Z|\+[0-9]{4}|-[0-9]{4})`.  `allM toks s` enumerates *every* way `s` can start with a text matching the
  token sequence, in the priority order of a backtracking search (lazy `(.*?)`: shortest first), so
    - the code (since fix 2f5d4aa: regex anchored `^…$`) takes the first element whose rest is empty and
      rejects it if a repeated placeholder captured different texts: `decode = decodeV true true`;
    - the pre-fix behaviour (`FindStringSubmatch` leftmost-first, **no anchors**) is `search` = first
      element of `allM` at the first offset that has one; it is kept (`decodeV false false`) only for
      the regression theorems that document finding F-C26;
  capture → placeholder mapping with "last occurrence wins", defaults, the `unixSec > 0` switch.

Oracles (not modelled): the calendar (`time.Date`, `Time.Year()…`, zone database).  The model works on
field tuples; `Start.date args` is turned into an instant by a table passed in the op line.

Assumption: the format is ASCII (Go's regexp works on runes; for ASCII patterns rune- and byte-level
matching coincide because a literal ASCII byte can only match itself and `.` never splits a rune whose
continuation could match an ASCII literal).
-/
import MtxVerif.Base.DriverLib

namespace MtxVerif.C26

inductive Kind | path | Y | m | d | H | M | S | f | z | s
deriving DecidableEq, Repr

inductive Tok
  | lit (b : UInt8)
  | cap (k : Kind)
deriving DecidableEq, Repr

abbrev Caps := List (Kind × Bytes)

/-! ### format → tokens -/

/-- `%path` -/
def pathPat : Bytes := [37, 112, 97, 116, 104]

def kindOfLetter (c : UInt8) : Option Kind :=
  if c = 89 then some .Y else if c = 109 then some .m else if c = 100 then some .d
  else if c = 72 then some .H else if c = 77 then some .M else if c = 83 then some .S
  else if c = 102 then some .f else if c = 122 then some .z else if c = 115 then some .s
  else none

/-- placeholder starting at the head of the string: kind and number of *further* bytes it occupies. -/
def tokAt : Bytes → Option (Kind × Nat)
  | 37 :: c :: r =>
    if pathPat.isPrefixOf (37 :: c :: r) then some (.path, 4)
    else (kindOfLetter c).map fun k => (k, 1)
  | _ => none

/-- left-to-right scan; `skip` = bytes of the current placeholder still to be skipped. -/
def tokenizeAux : Nat → Bytes → List Tok
  | _, [] => []
  | skip + 1, _ :: r => tokenizeAux skip r
  | 0, c :: r =>
    match tokAt (c :: r) with
    | some (k, n) => .cap k :: tokenizeAux n r
    | none => .lit c :: tokenizeAux 0 r

def tokenize (fmt : Bytes) : List Tok := tokenizeAux 0 fmt

/-- `strings.ReplaceAll(format, "%path", name)` -/
def substAux (name : Bytes) : Nat → Bytes → Bytes
  | _, [] => []
  | skip + 1, _ :: r => substAux name skip r
  | 0, c :: r =>
    if pathPat.isPrefixOf (c :: r) then name ++ substAux name 4 r
    else c :: substAux name 0 r

def substPath (fmt name : Bytes) : Bytes := substAux name 0 fmt

/-! ### Encode -/

/-- what the encoder reads off a `time.Time` (oracle values). -/
structure Fields where
  year : Int
  month : Nat
  day : Nat
  hour : Nat
  minute : Nat
  sec : Nat
  micros : Nat
  off : Int        -- zone offset in seconds east of UTC
  unix : Int       -- `Time.Unix()`
deriving Repr, DecidableEq

def natDecAux : Nat → Nat → Bytes
  | 0, _ => []
  | fuel + 1, n =>
    if n < 10 then [UInt8.ofNat (48 + n)]
    else natDecAux fuel (n / 10) ++ [UInt8.ofNat (48 + n % 10)]

/-- decimal digits (exact below 10^20; int64 has at most 19). -/
def natDec (n : Nat) : Bytes := natDecAux 20 n

/-- `strconv.FormatInt(v, 10)` -/
def fmtInt (v : Int) : Bytes :=
  if v < 0 then 45 :: natDec v.natAbs else natDec v.natAbs

/-- `leadingZeros(v, size)` for `v ≥ 0` -/
def leadingZeros (v size : Nat) : Bytes :=
  let out := natDec v
  List.replicate (size - out.length) 48 ++ out

/-- `timeLocationEncode` -/
def zoneEnc (off : Int) : Bytes :=
  if off = 0 then [90]
  else
    let a := off.natAbs
    (if off > 0 then 43 else 45) :: (leadingZeros (a / 60 / 60) 2 ++ leadingZeros ((a / 60) % 60) 2)

def val (F : Fields) : Kind → Bytes
  | .path => []
  | .Y => fmtInt F.year
  | .m => leadingZeros F.month 2
  | .d => leadingZeros F.day 2
  | .H => leadingZeros F.hour 2
  | .M => leadingZeros F.minute 2
  | .S => leadingZeros F.sec 2
  | .f => leadingZeros F.micros 6
  | .z => zoneEnc F.off
  | .s => fmtInt F.unix

/-- `Path{Path: p, Start: t}.Encode(format)` on the token level. -/
def encode (toks : List Tok) (p : Bytes) (F : Fields) : Bytes :=
  toks.flatMap fun
    | .lit b => [b]
    | .cap .path => p
    | .cap k => val F k

/-- the recorder's file name: path name substituted first, then `Path{Start: t}.Encode`. -/
def recorderName (fmt p : Bytes) (F : Fields) : Bytes :=
  encode (tokenize (substPath fmt p)) [] F

/-! ### the matcher -/

def isDigit (b : UInt8) : Bool := 48 ≤ b && b ≤ 57

def Kind.width : Kind → Nat
  | .Y => 4
  | .f => 6
  | .s => 10
  | _ => 2

/-- `Z|\+[0-9]{4}|-[0-9]{4}` -/
def zoneOK (v : Bytes) : Bool :=
  match v with
  | [90] => true
  | c :: r => (c == 43 || c == 45) && r.length == 4 && r.all isDigit
  | _ => false

/-- what one capture group can match. `.` does not match `\n`. -/
def capOK : Kind → Bytes → Bool
  | .path, v => v.all (· != 10)
  | .z, v => zoneOK v
  | k, v => v.length == k.width && v.all isDigit

/-- all ways to cut a newline-free prefix off `s`, shortest prefix first (lazy quantifier). -/
def splitsNL : Bytes → List (Bytes × Bytes)
  | [] => [([], [])]
  | c :: r => ([], c :: r) :: (if c = 10 then [] else (splitsNL r).map fun ab => (c :: ab.1, ab.2))

/-- all (value, rest) with `s = value ++ rest` and `capOK k value`, in priority order. -/
def cands (k : Kind) (s : Bytes) : List (Bytes × Bytes) :=
  match k with
  | .path => splitsNL s
  | .z =>
    match s with
    | [] => []
    | c :: r =>
      if c = 90 then [([90], r)]
      else if (c = 43 ∨ c = 45) ∧ 4 ≤ r.length ∧ (r.take 4).all isDigit then [(c :: r.take 4, r.drop 4)]
      else []
  | k => if k.width ≤ s.length ∧ (s.take k.width).all isDigit then [(s.take k.width, s.drop k.width)] else []

/-- every (captures, rest) such that `s = <text matching the tokens with these captures> ++ rest`,
in the order a backtracking regex engine tries them. -/
def allM : List Tok → Bytes → List (Caps × Bytes)
  | [], s => [([], s)]
  | .lit b :: ts, s =>
    match s with
    | c :: r => if b = c then allM ts r else []
    | [] => []
  | .cap k :: ts, s =>
    (cands k s).flatMap fun vr => (allM ts vr.2).map fun cr => ((k, vr.1) :: cr.1, cr.2)

/-- the text matched by a token sequence with given captures. -/
def render : List Tok → Caps → Bytes
  | [], _ => []
  | .lit b :: ts, cs => b :: render ts cs
  | .cap _ :: ts, c :: cs => c.2 ++ render ts cs
  | .cap _ :: ts, [] => render ts []

/-- captures have the shape the token sequence demands. -/
def fits : List Tok → Caps → Bool
  | [], [] => true
  | [], _ :: _ => false
  | .lit _ :: ts, cs => fits ts cs
  | .cap k :: ts, c :: cs => c.1 = k && capOK k c.2 && fits ts cs
  | .cap _ :: _, [] => false

structure Match where
  off : Nat          -- start offset of the match in the candidate
  caps : Caps
  rest : Bytes       -- unmatched tail
deriving Repr, DecidableEq

/-- `regexp.FindStringSubmatch` as the code calls it: leftmost start, first in priority order, no anchors. -/
def search (toks : List Tok) : Nat → Bytes → Option Match
  | off, [] => (allM toks []).head?.map fun cr => ⟨off, cr.1, cr.2⟩
  | off, x :: s =>
    match (allM toks (x :: s)).head? with
    | some cr => some ⟨off, cr.1, cr.2⟩
    | none => search toks (off + 1) s

/-- what `Decode` matched before fix 2f5d4aa (unanchored). -/
def matchCode (toks : List Tok) (s : Bytes) : Option Match := search toks 0 s

/-- the regex anchored with `^…$` (the code since 2f5d4aa). -/
def matchAnchored (toks : List Tok) (s : Bytes) : Option Match :=
  ((allM toks s).find? fun cr => cr.2.isEmpty).map fun cr => ⟨0, cr.1, cr.2⟩

/-- the match covers the whole candidate. -/
def Match.whole (m : Match) : Bool := m.off == 0 && m.rest.isEmpty

/-! ### captures → decoded value -/

/-- `values[groupMapping[i]] = match`: the last capture of a kind wins. -/
def lastCap (k : Kind) : Caps → Option Bytes
  | [] => none
  | c :: cs =>
    match lastCap k cs with
    | some v => some v
    | none => if c.1 = k then some c.2 else none

/-- every capture of a kind equals the last one of that kind. -/
def consistent (caps : Caps) : Bool := caps.all fun c => lastCap c.1 caps == some c.2

def parseDec (v : Bytes) : Nat := v.foldl (fun acc c => acc * 10 + (c.toNat - 48)) 0

/-- `timeLocationDecode`: offset in seconds of a matched zone string. -/
def zoneDec (v : Bytes) : Int :=
  match v with
  | [90] => 0
  | c :: r =>
    let mag : Int := (parseDec (r.take 2) * 3600 + parseDec ((r.drop 2).take 2) * 60 : Nat)
    if c = 43 then mag else -mag
  | [] => 0

/-- arguments of `time.Date`; `loc = none` is `time.Local`. -/
structure DateArgs where
  year : Nat := 0
  month : Nat := 1
  day : Nat := 1
  hour : Nat := 0
  minute : Nat := 0
  sec : Nat := 0
  micros : Nat := 0
  loc : Option Int := none
deriving Repr, DecidableEq

inductive Start
  | unix (us : Int)            -- `time.Unix(unixSec, micros*1000)`, in microseconds
  | date (a : DateArgs)        -- `time.Date(…)`: calendar oracle
deriving Repr, DecidableEq

def numOr (k : Kind) (caps : Caps) (dflt : Nat) : Nat :=
  match lastCap k caps with
  | some v => parseDec v
  | none => dflt

def decodedPath (caps : Caps) : Bytes := (lastCap .path caps).getD []

def decodedStart (caps : Caps) : Start :=
  let micros := numOr .f caps 0
  let unixSec : Int := match lastCap .s caps with
    | some v => (parseDec v : Nat)
    | none => -1
  if unixSec > 0 then .unix (unixSec * 1000000 + micros)
  else .date {
    year := numOr .Y caps 0, month := numOr .m caps 1, day := numOr .d caps 1,
    hour := numOr .H caps 0, minute := numOr .M caps 0, sec := numOr .S caps 0,
    micros := micros, loc := (lastCap .z caps).map zoneDec }

/-! ### executable spec -/

/-- "the whole name is one the recorder could have produced": some full match with coherent captures. -/
def producibleB (toks : List Tok) (s : Bytes) : Bool :=
  (allM toks s).any fun cr => cr.2.isEmpty && consistent cr.1

def pathCount (toks : List Tok) : Nat := (toks.filter (· == .cap .path)).length

def hasKind (k : Kind) (toks : List Tok) : Bool := toks.contains (.cap k)

/-- the field strings the encoder writes for the placeholders of this format have the widths the decoder's
pattern expects (4-digit year, 10-digit unix seconds, 2-digit month … — true for every instant between
2001-09-09 and 2286-11-20 whose year has four digits). -/
def fieldsOK (toks : List Tok) (F : Fields) : Bool :=
  toks.all fun
    | .lit _ => true
    | .cap .path => true
    | .cap k => capOK k (val F k)

/-- `conf.IsValidPathName` (see C06) restricted to what matters here: no newline. -/
def pathOK (p : Bytes) : Bool := p.all (· != 10)

/-- (pre-fix regression) decidable class of finding F-C26: the unanchored match does not cover the whole
candidate. -/
def unanchoredExtra (toks : List Tok) (s : Bytes) : Bool :=
  match matchCode toks s with
  | some m => !m.whole
  | none => false

/-- (pre-fix regression) a placeholder occurs several times and the unanchored match captured different texts. -/
def repeatedMismatch (toks : List Tok) (s : Bytes) : Bool :=
  match matchCode toks s with
  | some m => !consistent m.caps
  | none => false

/-! ### variants of `Decode`, and notions used by the theorems -/

/-- `Decode`'s matching step, parametrised by variant.  `anch = true` is the regex anchored with `^…$`;
`coh = true` additionally rejects a match in which a repeated placeholder captured different texts.
`anch = coh = true` is the code (`decode` below); `false false` is the code before fix 2f5d4aa. -/
def decodeV (anch coh : Bool) (toks : List Tok) (s : Bytes) : Option Match :=
  match (if anch then matchAnchored toks s else matchCode toks s) with
  | some m => if coh && !consistent m.caps then none else some m
  | none => none

/-- `Path.Decode`'s matching step as the code performs it (anchored, repeated placeholders agree). -/
def decode (toks : List Tok) (s : Bytes) : Option Match := decodeV true true toks s

/-- a name written from an assignment of texts to placeholders. -/
def encodeA (toks : List Tok) (A : Kind → Bytes) : Bytes :=
  toks.flatMap fun
    | .lit b => [b]
    | .cap k => A k

/-- the captures a decoder must find in `encodeA toks A`. -/
def capsOf (toks : List Tok) (A : Kind → Bytes) : Caps :=
  toks.filterMap fun
    | .lit _ => none
    | .cap k => some (k, A k)

/-- the assignment the encoder uses. -/
def assign (p : Bytes) (F : Fields) : Kind → Bytes
  | .path => p
  | k => val F k

/-- tokens of the format after the path name has been substituted, if no splice happened. -/
def expand (toks : List Tok) (p : Bytes) : List Tok :=
  toks.flatMap fun
    | .cap .path => p.map .lit
    | t => [t]

/-- substituting the name and then tokenising = tokenising and then substituting
(false e.g. for `%%path` with a name starting with `s`: the `%` and the name form a new `%s`). -/
def spliceFree (fmt p : Bytes) : Bool := tokenize (substPath fmt p) == expand (tokenize fmt) p

/-- the `time.Date`/`time.Unix` arguments a faithful decoder derives from a name encoded from `F`. -/
def expectedStart (toks : List Tok) (F : Fields) : Start :=
  let micros := if hasKind .f toks then F.micros else 0
  if hasKind .s toks ∧ F.unix > 0 then .unix (F.unix * 1000000 + micros)
  else .date {
    year := if hasKind .Y toks then F.year.toNat else 0,
    month := if hasKind .m toks then F.month else 1,
    day := if hasKind .d toks then F.day else 1,
    hour := if hasKind .H toks then F.hour else 0,
    minute := if hasKind .M toks then F.minute else 0,
    sec := if hasKind .S toks then F.sec else 0,
    micros := micros,
    loc := if hasKind .z toks then some (zoneDec (zoneEnc F.off)) else none }

end MtxVerif.C26
