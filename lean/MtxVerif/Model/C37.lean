/-
C37 — structured log lines (internal/logger/destination_stdout.go, destination_file.go).

Model of the structured branch of `destinationStdout.log` / `destinationFile.log`:

    {"timestamp":"<t.Format(RFC3339Nano)>","level":"<DEB|INF|WAR|ERR>","message":<Q(fmt.Sprintf(..))>}\n

`Q` is `encoding/json` string encoding (`json.Marshal(string)`, HTML escaping on) since /repo b0a84c7;
that this is what the source calls is a regenerated fact (`Gen/C37.lean`, used by the theorems only).
It is modelled byte for byte, on top of a model of `utf8.DecodeRune` (Go semantics: an invalid or
truncated sequence is ONE byte wide).  Oracles (third-party, passed in as columns of the op line):
`fmt.Sprintf` (the formatted message), `time.Format` (the timestamp text).  (Before b0a84c7 the
message was written with `strconv.Quote`, whose `\a \v \xhh \Uhhhhhhhh` are not JSON; the witnesses
stay in corpus/C37 as regressions.)

The spec side is an independent strict JSON reader for one-line flat objects with string values
(`parseLine`), written from RFC 8259, and `sanitize` (each invalid byte → U+FFFD).
-/
import MtxVerif.Base.DriverLib

namespace MtxVerif.C37

/-! ### UTF-8 (Go `unicode/utf8`) in `Nat` arithmetic -/

/-- `utf8.DecodeRune(s)`: `some (rune, width)`; `none` stands for `(RuneError, 1)`. `s` non-empty. -/
def decodeRune : Bytes → Option (Nat × Nat)
  | [] => none
  | b0 :: r =>
    let x := b0.toNat
    if x < 0x80 then some (x, 1)
    else if x < 0xC2 then none
    else if x < 0xE0 then
      match r with
      | b1 :: _ =>
        let y := b1.toNat
        if 0x80 ≤ y ∧ y ≤ 0xBF then some ((x - 0xC0) * 64 + (y - 0x80), 2) else none
      | _ => none
    else if x < 0xF0 then
      match r with
      | b1 :: b2 :: _ =>
        let y := b1.toNat
        let z := b2.toNat
        let lo := if x = 0xE0 then 0xA0 else 0x80
        let hi := if x = 0xED then 0x9F else 0xBF
        if lo ≤ y ∧ y ≤ hi ∧ 0x80 ≤ z ∧ z ≤ 0xBF then
          some (((x - 0xE0) * 64 + (y - 0x80)) * 64 + (z - 0x80), 3)
        else none
      | _ => none
    else if x < 0xF5 then
      match r with
      | b1 :: b2 :: b3 :: _ =>
        let y := b1.toNat
        let z := b2.toNat
        let u := b3.toNat
        let lo := if x = 0xF0 then 0x90 else 0x80
        let hi := if x = 0xF4 then 0x8F else 0xBF
        if lo ≤ y ∧ y ≤ hi ∧ 0x80 ≤ z ∧ z ≤ 0xBF ∧ 0x80 ≤ u ∧ u ≤ 0xBF then
          some ((((x - 0xF0) * 64 + (y - 0x80)) * 64 + (z - 0x80)) * 64 + (u - 0x80), 4)
        else none
      | _ => none
    else none

/-- `utf8.AppendRune` for a valid scalar value -/
def utf8enc (r : Nat) : Bytes :=
  if r < 0x80 then [UInt8.ofNat r]
  else if r < 0x800 then [UInt8.ofNat (0xC0 + r / 64), UInt8.ofNat (0x80 + r % 64)]
  else if r < 0x10000 then
    [UInt8.ofNat (0xE0 + r / 4096), UInt8.ofNat (0x80 + r / 64 % 64), UInt8.ofNat (0x80 + r % 64)]
  else
    [UInt8.ofNat (0xF0 + r / 262144), UInt8.ofNat (0x80 + r / 4096 % 64),
     UInt8.ofNat (0x80 + r / 64 % 64), UInt8.ofNat (0x80 + r % 64)]

/-- U+FFFD in UTF-8 -/
def FFFD : Bytes := [0xEF, 0xBF, 0xBD]

/-- lower-case hex digit of `n < 16` -/
def hexDigit (n : Nat) : UInt8 :=
  if n < 10 then UInt8.ofNat (48 + n) else UInt8.ofNat (87 + n)

def hexVal (c : UInt8) : Option Nat :=
  let x := c.toNat
  if 48 ≤ x ∧ x ≤ 57 then some (x - 48)
  else if 97 ≤ x ∧ x ≤ 102 then some (x - 87)
  else if 65 ≤ x ∧ x ≤ 70 then some (x - 55)
  else none

def hex2 (n : Nat) : Bytes := [hexDigit (n / 16 % 16), hexDigit (n % 16)]
def hex4 (n : Nat) : Bytes := [hexDigit (n / 4096 % 16), hexDigit (n / 256 % 16), hexDigit (n / 16 % 16), hexDigit (n % 16)]
def hex8 (n : Nat) : Bytes := hex4 (n / 65536) ++ hex4 (n % 65536)

/-! ### the record's message as the property wants it read back -/

/-- every invalid byte replaced by U+FFFD; `k` = continuation bytes of the current rune still to copy -/
def sanitizeGo : Nat → Bytes → Bytes
  | _, [] => []
  | k + 1, c :: r => c :: sanitizeGo k r
  | 0, c :: r =>
    match decodeRune (c :: r) with
    | none => FFFD ++ sanitizeGo 0 r
    | some (_, w) => c :: sanitizeGo (w - 1) r

def sanitize (m : Bytes) : Bytes := sanitizeGo 0 m

def BS : UInt8 := 92      -- backslash
def QUOTE : UInt8 := 34

/-! ### `encoding/json` string encoding (`appendString`, escapeHTML = true) -/

def jsonEscASCII (c : UInt8) : Bytes :=
  let x := c.toNat
  if x = 34 ∨ x = 92 then [BS, c]
  else if x = 8 then [BS, 98]
  else if x = 12 then [BS, 102]
  else if x = 10 then [BS, 110]
  else if x = 13 then [BS, 114]
  else if x = 9 then [BS, 116]
  else if x < 0x20 ∨ x = 60 ∨ x = 62 ∨ x = 38 then BS :: 117 :: 48 :: 48 :: hex2 x   -- \u00hh
  else [c]

def jsonStrGo : Bool → Nat → Bytes → Bytes
  | _, _, [] => []
  | cp, k + 1, c :: r => if cp then c :: jsonStrGo cp k r else jsonStrGo cp k r
  | _, 0, c :: r =>
    if c.toNat < 0x80 then jsonEscASCII c ++ jsonStrGo true 0 r
    else match decodeRune (c :: r) with
      | none => BS :: 117 :: 102 :: 102 :: 102 :: 100 :: jsonStrGo true 0 r            -- �
      | some (rune, w) =>
        if rune = 0x2028 ∨ rune = 0x2029 then BS :: 117 :: hex4 rune ++ jsonStrGo false (w - 1) r
        else c :: jsonStrGo true (w - 1) r

def jsonString (m : Bytes) : Bytes := QUOTE :: jsonStrGo true 0 m ++ [QUOTE]

/-! ### the log line -/

/-- vocabulary of the fact extractor (tools/xlate/c37): which routine quotes the message.
Only `jsonMarshal` is modelled; `strconvQuote` is what the tree had before /repo b0a84c7. -/
inductive Quoter where
  | strconvQuote
  | jsonMarshal
deriving Repr, DecidableEq

def kOpen : Bytes := [123, 34, 116, 105, 109, 101, 115, 116, 97, 109, 112, 34, 58, 34]   -- {"timestamp":"
def kMid1 : Bytes := [34, 44, 34, 108, 101, 118, 101, 108, 34, 58, 34]                   -- ","level":"
def kMid2 : Bytes := [34, 44, 34, 109, 101, 115, 115, 97, 103, 101, 34, 58]              -- ","message":
def kClose : Bytes := [125, 10]                                                          -- }\n
def kTimestamp : Bytes := [116, 105, 109, 101, 115, 116, 97, 109, 112]
def kLevel : Bytes := [108, 101, 118, 101, 108]
def kMessage : Bytes := [109, 101, 115, 115, 97, 103, 101]

/-- `writeLevel(_, level, false)`: nothing is written for a value outside Debug..Error -/
def levelStr (l : Nat) : Bytes :=
  if l = 1 then [68, 69, 66] else if l = 2 then [73, 78, 70]
  else if l = 3 then [87, 65, 82] else if l = 4 then [69, 82, 82] else []

/-- the bytes handed to `Write` for one record; `ts` = `t.Format(time.RFC3339Nano)` (oracle) -/
def lineOf (quoted : Bytes) (ts : Bytes) (lvl : Nat) : Bytes :=
  kOpen ++ (ts ++ (kMid1 ++ (levelStr lvl ++ (kMid2 ++ (quoted ++ kClose)))))

/-! ### spec side: a strict JSON string reader and a one-line flat-object reader -/

inductive DSt where
  | s0                                       -- inside the string
  | s1                                       -- after a backslash
  | su (n : Nat) (acc : Nat) (hi : Option Nat)   -- inside \uXXXX, n digits read; hi = pending high surrogate
  | sh (hi : Nat)                            -- a high surrogate was read: a backslash must follow
  | sh1 (hi : Nat)                           -- …then `u`
deriving Repr

/-- what `\uXXXX` (value `v`, pending high surrogate `hi`) contributes: `inl bytes` (continue in s0),
`inr (some h)` (continue in `sh h`), `inr none` (reject) -/
def finishU (v : Nat) (hi : Option Nat) : Sum Bytes (Option Nat) :=
  match hi with
  | some h =>
    if 0xDC00 ≤ v ∧ v ≤ 0xDFFF then .inl (utf8enc (0x10000 + (h - 0xD800) * 1024 + (v - 0xDC00)))
    else .inr none
  | none =>
    if 0xD800 ≤ v ∧ v ≤ 0xDBFF then .inr (some v)
    else if 0xDC00 ≤ v ∧ v ≤ 0xDFFF then .inr none       -- lone low surrogate: rejected
    else .inl (utf8enc v)

/-- Reads a JSON string body up to and including the closing quote (RFC 8259 §7: no raw control
characters, only the escapes `\" \\ \/ \b \f \n \r \t \uXXXX`). Returns (decoded bytes, rest). -/
def dec : DSt → Bytes → Option (Bytes × Bytes)
  | _, [] => none
  | .s0, c :: r =>
    if c = QUOTE then some ([], r)
    else if c = BS then dec .s1 r
    else if c.toNat < 0x20 then none
    else (dec .s0 r).map fun p => (c :: p.1, p.2)
  | .s1, c :: r =>
    let x := c.toNat
    if x = 117 then dec (.su 0 0 none) r
    else
      let b : Option UInt8 :=
        if x = 34 ∨ x = 92 ∨ x = 47 then some c
        else if x = 98 then some 8 else if x = 102 then some 12 else if x = 110 then some 10
        else if x = 114 then some 13 else if x = 116 then some 9 else none
      match b with
      | some b => (dec .s0 r).map fun p => (b :: p.1, p.2)
      | none => none
  | .su n acc hi, c :: r =>
    match hexVal c with
    | none => none
    | some d =>
      let v := acc * 16 + d
      if n < 3 then dec (.su (n + 1) v hi) r
      else match finishU v hi with
        | .inl bs => (dec .s0 r).map fun p => (bs ++ p.1, p.2)
        | .inr (some h) => dec (.sh h) r
        | .inr none => none
  | .sh h, c :: r => if c = BS then dec (.sh1 h) r else none
  | .sh1 h, c :: r => if c.toNat = 117 then dec (.su 0 0 (some h)) r else none

/-- blanks tolerated between tokens. `\n` and `\r` are NOT tolerated: the record must be one line. -/
def skipWs : Bytes → Bytes
  | c :: r => if c = 32 ∨ c = 9 then skipWs r else c :: r
  | [] => []

/-- members of a flat object whose values are strings; input starts at the first key's quote.
Returns the members and what follows the closing brace. -/
def parseMembers : Nat → Bytes → Option (List (Bytes × Bytes) × Bytes)
  | 0, _ => none
  | f + 1, s =>
    match s with
    | 34 :: r =>
      match dec .s0 r with
      | none => none
      | some (key, r1) =>
        match skipWs r1 with
        | 58 :: r2 =>
          match skipWs r2 with
          | 34 :: r3 =>
            match dec .s0 r3 with
            | none => none
            | some (val, r4) =>
              match skipWs r4 with
              | 44 :: r5 => (parseMembers f (skipWs r5)).map fun p => ((key, val) :: p.1, p.2)
              | 125 :: r5 => some ([(key, val)], r5)
              | _ => none
          | _ => none
        | _ => none
    | _ => none

/-- one record: `{ members }` followed by exactly one `\n` and nothing else -/
def parseLine (s : Bytes) : Option (List (Bytes × Bytes)) :=
  match s with
  | 123 :: r =>
    match parseMembers s.length (skipWs r) with
    | some (ms, [10]) => some ms
    | _ => none
  | _ => none

def field (ms : List (Bytes × Bytes)) (k : Bytes) : Option Bytes :=
  match ms.filter (fun kv => kv.1 == k) with
  | [(_, v)] => some v
  | _ => none

/-- The property for one record, evaluated on the bytes that were written: one line, a JSON object,
and the three fields decode to the record's timestamp text, level and sanitised message. -/
def recordOK (written ts : Bytes) (lvl : Nat) (m : Bytes) : Bool :=
  match parseLine written with
  | none => false
  | some ms =>
    field ms kTimestamp == some ts && field ms kLevel == some (levelStr lvl) &&
    field ms kMessage == some (sanitize m)

end MtxVerif.C37
