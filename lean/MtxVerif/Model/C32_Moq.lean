/-
C32 — part 2: every MoQ wire type as a composition of the codec library, with the limits the Go code
enforces.  Encoders mirror `MarshalTo` / `Marshal`, decoders mirror `Unmarshal` / `Read`.
`wf…` = "within the protocol limits the Go decoder enforces" (the domain of the round-trip theorems).
-/
import MtxVerif.Model.C32

namespace MtxVerif.C32

def two64 : Nat := 2 ^ 64

/-! ### namespace (namespace.go) -/

/-- `maxFieldCount` (cross-checked against the source by Gen/C32) -/
def maxFieldCount : Nat := 32

abbrev Namespace := List Bytes

def encNamespace (ns : Namespace) : Bytes := encListLP encBytesLP ns

/-- `Namespace.Unmarshal`: count, `count > 32` rejected, `make(Namespace, count)` (16-byte string
headers), then `count` length-prefixed strings (each copied by `string(buf[:l])`). -/
def decNamespace : Dec Namespace := listLP maxFieldCount 16 (bytesLP u64max .post)

def wfNamespace (ns : Namespace) : Bool :=
  decide (ns.length ≤ maxFieldCount) && ns.all fun p => decide (p.length < two64)

/-! ### parameters (parameter.go, authorization_token.go) -/

structure AuthToken where
  aliasType : Nat
  tokenType : Nat
  value : Bytes
  deriving DecidableEq, Repr

abbrev Params := List AuthToken

def typeAuthorizationToken : Nat := 3
def aliasUseValue : Nat := 3

def authInnerSize (t : AuthToken) : Nat :=
  varintLen t.aliasType + varintLen t.tokenType + t.value.length

/-- `AuthorizationToken.marshalTo` -/
def encAuthToken (t : AuthToken) : Bytes :=
  encVarint (authInnerSize t) ++ (encVarint t.aliasType ++ encVarint t.tokenType ++ t.value)

/-- body of `AuthorizationToken.unmarshal` after `buf = buf[:le]` -/
def decAuthInner : Dec AuthToken := do
  let alias ← varint
  guardD (alias == aliasUseValue) .unsupported
  let tt ← varint
  let v ← takeAll
  pure ⟨alias, tt, v⟩

/-- `AuthorizationToken.unmarshal`: length, availability check, `buf[:le]`, inner fields;
consumes `n1 + le`. -/
def decAuthToken : Dec AuthToken := do
  let sub ← bytesLP u64max .none
  onBytes decAuthInner sub

/-- bytes charged per decoded parameter: `&AuthorizationToken{}` (48) + amortised `append` of a
16-byte interface value (≤ 64) -/
def paramCost : Nat := 112

/-- `Parameters.MarshalTo` starting from `prevType` -/
def encParamsFrom : Nat → Params → Bytes
  | _, [] => []
  | prev, t :: ts =>
    encVarint ((typeAuthorizationToken + two64 - prev) % two64) ++ encAuthToken t
      ++ encParamsFrom typeAuthorizationToken ts

def encParams (ps : Params) : Bytes := encParamsFrom 0 ps

/-- the loop of `Parameters.Unmarshal(count, buf)`; `cur` = currentType (uint64, wraps) -/
def paramsLoop : Nat → Nat → Dec Params
  | 0, _ => pure []
  | k + 1, cur => do
    let delta ← varint
    let cur' := (cur + delta) % two64
    guardD (cur' == typeAuthorizationToken) .unsupported
    allocD paramCost
    let t ← decAuthToken
    let rest ← paramsLoop k cur'
    pure (t :: rest)

/-- count varint + parameters, as every control message embeds them -/
def decParams : Dec Params := do
  let n ← varint
  paramsLoop n 0

def encParamsC (ps : Params) : Bytes := encVarint ps.length ++ encParams ps

def wfAuthToken (t : AuthToken) : Bool :=
  t.aliasType == aliasUseValue && decide (t.tokenType < two64) && decide (authInnerSize t < two64)

def wfParams (ps : Params) : Bool := decide (ps.length < two64) && ps.all wfAuthToken

/-! ### properties (property.go, timestamp.go) — only Timestamp is known; value = the uint64 pattern -/

abbrev Props := List Nat

def timestampPropertyType : Nat := 6

/-- bytes charged per decoded timestamp: the escaping `var ts Timestamp` (8) + amortised `append` -/
def propCost : Nat := 72

def encPropsFrom : Nat → Props → Bytes
  | _, [] => []
  | prev, t :: ts =>
    encVarint ((timestampPropertyType + two64 - prev) % two64) ++ encVarint t
      ++ encPropsFrom timestampPropertyType ts

def encProps (ps : Props) : Bytes := encPropsFrom 0 ps

/-- `Properties.Unmarshal(buf)`: consumes the whole buffer.  `fuel` only makes the recursion
structural; running out of it (an iteration that consumed nothing) is the panic outcome. -/
def propsLoop : Nat → Nat → Dec Props
  | 0, _ => Dec.crash
  | f + 1, cur => fun b =>
    if b.isEmpty then ⟨.ok [] [], 0⟩ else
    (do
      let delta ← varint
      let cur' := (cur + delta) % two64
      if cur' == timestampPropertyType then do
        allocD propCost
        let ts ← varint
        let rest ← propsLoop f cur'
        pure (ts :: rest)
      else if cur' % 2 == 1 then do
        let _ ← bytesLP u64max .none
        propsLoop f cur'
      else do
        let _ ← varint
        propsLoop f cur') b

def decProps : Dec Props := fun b => propsLoop (b.length + 1) 0 b

def wfProps (ps : Props) : Bool := ps.all fun t => decide (t < two64)

/-! ### control messages (controlmessage/*.go) -/

structure Setup where
  path : Bytes
  authority : Bytes
  deriving DecidableEq, Repr

structure Subscribe where
  requestID : Nat
  ns : Namespace
  trackName : Bytes
  params : Params
  deriving DecidableEq, Repr

structure Publish where
  requestID : Nat
  ns : Namespace
  trackName : Bytes
  trackAlias : Nat
  params : Params
  props : Props
  deriving DecidableEq, Repr

structure SubscribeOk where
  trackAlias : Nat
  params : Params
  props : Props
  deriving DecidableEq, Repr

/-- PUBLISH_OK and REQUEST_OK -/
structure ParamsProps where
  params : Params
  props : Props
  deriving DecidableEq, Repr

structure RequestError where
  code : Nat
  reason : Bytes
  deriving DecidableEq, Repr

inductive Msg
  | setup (m : Setup) | clientSetup (m : Setup) | serverSetup (m : Setup)
  | subscribe (m : Subscribe) | subscribeOk (m : SubscribeOk) | requestError (m : RequestError)
  | publish (m : Publish) | publishOk (m : ParamsProps) | requestOk (m : ParamsProps)
  deriving DecidableEq, Repr

def typeSetup : Nat := 0x2F00
def typeClientSetup : Nat := 0x20
def typeServerSetup : Nat := 0x21
def typeSubscribe : Nat := 0x03
def typeSubscribeOk : Nat := 0x04
def typeRequestError : Nat := 0x05
def typePublish : Nat := 0x1d
def typePublishOk : Nat := 0x1e
def typeRequestOk : Nat := 0x07

def setupOptionPath : Nat := 1
def setupOptionAuthority : Nat := 5

/-- payload of `Setup.marshalTo` -/
def encSetupP (m : Setup) : Bytes :=
  (if m.path.isEmpty then [] else encVarint setupOptionPath ++ encBytesLP m.path) ++
  (if m.authority.isEmpty then [] else
    encVarint (setupOptionAuthority - (if m.path.isEmpty then 0 else setupOptionPath))
      ++ encBytesLP m.authority)

/-- `Setup.unmarshal` (whole payload; unknown even options = one varint, unknown odd = bytes) -/
def setupLoop : Nat → Nat → Setup → Dec Setup
  | 0, _, _ => Dec.crash
  | f + 1, prev, acc => fun b =>
    if b.isEmpty then ⟨.ok acc [], 0⟩ else
    (do
      let delta ← varint
      let cur := (prev + delta) % two64
      if cur % 2 == 0 then do
        let _ ← varint
        setupLoop f cur acc
      else do
        let v ← bytesLP u64max .post
        setupLoop f cur
          (if cur == setupOptionPath then { acc with path := v }
           else if cur == setupOptionAuthority then { acc with authority := v } else acc)) b

def decSetupP : Dec Setup := fun b => setupLoop (b.length + 1) 0 ⟨[], []⟩ b

def encSubscribeP (m : Subscribe) : Bytes :=
  encVarint m.requestID ++ encNamespace m.ns ++ encBytesLP m.trackName ++ encParamsC m.params

def decSubscribeP : Dec Subscribe := do
  let rid ← varint
  let ns ← decNamespace
  let tn ← bytesLP u64max .post
  let ps ← decParams
  pure ⟨rid, ns, tn, ps⟩

def encPublishP (m : Publish) : Bytes :=
  encVarint m.requestID ++ encNamespace m.ns ++ encBytesLP m.trackName ++ encVarint m.trackAlias
    ++ encParamsC m.params ++ encProps m.props

def decPublishP : Dec Publish := do
  let rid ← varint
  let ns ← decNamespace
  let tn ← bytesLP u64max .post
  let alias ← varint
  let ps ← decParams
  let pr ← decProps
  pure ⟨rid, ns, tn, alias, ps, pr⟩

def encSubscribeOkP (m : SubscribeOk) : Bytes :=
  encVarint m.trackAlias ++ encParamsC m.params ++ encProps m.props

def decSubscribeOkP : Dec SubscribeOk := do
  let alias ← varint
  let ps ← decParams
  let pr ← decProps
  pure ⟨alias, ps, pr⟩

def encParamsPropsP (m : ParamsProps) : Bytes := encParamsC m.params ++ encProps m.props

def decParamsPropsP : Dec ParamsProps := do
  let ps ← decParams
  let pr ← decProps
  pure ⟨ps, pr⟩

/-- `RequestError.marshalTo`: the retry-interval field is always the single byte 0 -/
def encRequestErrorP (m : RequestError) : Bytes :=
  encVarint m.code ++ [0] ++ encBytesLP m.reason

def decRequestErrorP : Dec RequestError := do
  let code ← varint
  let _retry ← varint
  let reason ← bytesLP u64max .post
  pure ⟨code, reason⟩

def Msg.typ : Msg → Nat
  | .setup _ => typeSetup | .clientSetup _ => typeClientSetup | .serverSetup _ => typeServerSetup
  | .subscribe _ => typeSubscribe | .subscribeOk _ => typeSubscribeOk
  | .requestError _ => typeRequestError | .publish _ => typePublish
  | .publishOk _ => typePublishOk | .requestOk _ => typeRequestOk

def Msg.payload : Msg → Bytes
  | .setup m | .clientSetup m | .serverSetup m => encSetupP m
  | .subscribe m => encSubscribeP m
  | .subscribeOk m => encSubscribeOkP m
  | .requestError m => encRequestErrorP m
  | .publish m => encPublishP m
  | .publishOk m | .requestOk m => encParamsPropsP m

/-- `Marshal()`: type, 16-bit big-endian payload length (**truncated** like `byte(payloadSize>>8)`,
`byte(payloadSize)`), payload -/
def encMsg (m : Msg) : Bytes := encVarint m.typ ++ beBytes 2 m.payload.length ++ m.payload

/-- the `switch t` of `controlmessage.Read` -/
def selMsg (t : Nat) : Option (Dec Msg) :=
  if t == typeSetup then some (Dec.map .setup decSetupP)
  else if t == typeClientSetup then some (Dec.map .clientSetup decSetupP)
  else if t == typeServerSetup then some (Dec.map .serverSetup decSetupP)
  else if t == typeSubscribe then some (Dec.map .subscribe decSubscribeP)
  else if t == typeSubscribeOk then some (Dec.map .subscribeOk decSubscribeOkP)
  else if t == typeRequestError then some (Dec.map .requestError decRequestErrorP)
  else if t == typePublish then some (Dec.map .publish decPublishP)
  else if t == typePublishOk then some (Dec.map .publishOk decParamsPropsP)
  else if t == typeRequestOk then some (Dec.map .requestOk decParamsPropsP)
  else none

/-- 2-byte length, `make([]byte, length)`, `io.ReadFull` -/
def frame16 : Dec Bytes := do
  needD 2 .short
  let lb ← slice 2
  let n := beNat lb
  allocD n
  needD n .short
  slice n

/-- `controlmessage.Read` on a byte stream: type, frame, *then* the type switch, then `unmarshal`
on the payload alone. -/
def readMsg : Dec Msg :=
  tagged (pair (varint true) frame16) fun tp => (selMsg tp.1).map fun d => onBytes d tp.2

def maxMsgPayload : Nat := 65535

def wfSetup (m : Setup) : Bool := decide (m.path.length < two64) && decide (m.authority.length < two64)
def wfSubscribe (m : Subscribe) : Bool :=
  decide (m.requestID < two64) && wfNamespace m.ns && decide (m.trackName.length < two64) && wfParams m.params
def wfPublish (m : Publish) : Bool :=
  decide (m.requestID < two64) && wfNamespace m.ns && decide (m.trackName.length < two64)
    && decide (m.trackAlias < two64) && wfParams m.params && wfProps m.props
def wfSubscribeOk (m : SubscribeOk) : Bool :=
  decide (m.trackAlias < two64) && wfParams m.params && wfProps m.props
def wfParamsProps (m : ParamsProps) : Bool := wfParams m.params && wfProps m.props
def wfRequestError (m : RequestError) : Bool := decide (m.code < two64) && decide (m.reason.length < two64)

def wfMsgBody : Msg → Bool
  | .setup m | .clientSetup m | .serverSetup m => wfSetup m
  | .subscribe m => wfSubscribe m
  | .subscribeOk m => wfSubscribeOk m
  | .requestError m => wfRequestError m
  | .publish m => wfPublish m
  | .publishOk m | .requestOk m => wfParamsProps m

/-- the 16-bit length field is the protocol limit of a control message -/
def fitsFrame (m : Msg) : Bool := decide (m.payload.length ≤ maxMsgPayload)

def wfMsg (m : Msg) : Bool := wfMsgBody m && fitsFrame m

/-! ### subgroup stream (subgroup/*.go) -/

structure Header where
  properties : Bool
  firstObject : Bool
  trackAlias : Nat
  groupID : Nat
  deriving DecidableEq, Repr

structure Object where
  idDelta : Nat
  props : Props
  payload : Bytes
  deriving DecidableEq, Repr

structure SubGroup where
  header : Header
  objects : List Object
  deriving DecidableEq, Repr

def maxPropsLen : Nat := 128 * 1024
def maxPayloadSize : Nat := 10 * 1024 * 1024
def objectStatusEndOfGroup : Nat := 3
def objectStatusEndOfTrack : Nat := 4

def headerType (h : Header) : Nat :=
  0x30 + (if h.properties then 0x01 else 0) + (if h.firstObject then 0x40 else 0)

def encHeader (h : Header) : Bytes :=
  encVarint (headerType h) ++ encVarint h.trackAlias ++ encVarint h.groupID

/-- `Header.read`: ONE byte (not a varint), bit 0 = properties, bit 6 = first object -/
def readHeader : Dec Header := do
  needD 1 .short
  let b ← byte0
  let alias ← varint true
  let gid ← varint true
  pure ⟨b.toNat % 2 == 1, (b.toNat / 64) % 2 == 1, alias, gid⟩

def encObject (hp : Bool) (o : Object) : Bytes :=
  encVarint o.idDelta ++
  (if hp then encBytesLP (encProps o.props) else []) ++
  (if o.payload.isEmpty then [0, UInt8.ofNat objectStatusEndOfGroup] else encBytesLP o.payload)

/-- `Object.read(r, header)` -/
def readObject (hp : Bool) : Dec Object := do
  let idDelta ← varint true
  let props ← (if hp then do
      let sub ← bytesLP maxPropsLen .pre true
      -- `if propsLen > 0 { … }`: the empty property block is not unmarshalled (same result)
      onBytes decProps sub
    else pure [])
  let payload ← bytesLP maxPayloadSize .pre true
  if payload.isEmpty then do
    let status ← varint true
    guardD (status == objectStatusEndOfGroup || status == objectStatusEndOfTrack) .unsupported
    pure ⟨idDelta, props, []⟩
  else pure ⟨idDelta, props, payload⟩

def encSubGroup (s : SubGroup) : Bytes :=
  encHeader s.header ++ s.objects.flatMap (encObject s.header.properties)
    ++ encObject s.header.properties ⟨0, [], []⟩

/-- `SubGroup.Read`: header, one object with a payload, one end marker -/
def readSubGroup : Dec SubGroup := do
  let h ← readHeader
  let o1 ← readObject h.properties
  guardD (!o1.payload.isEmpty) .emptyObj
  let o2 ← readObject h.properties
  guardD o2.payload.isEmpty .secondObj
  pure ⟨h, [o1]⟩

def wfHeader (h : Header) : Bool := decide (h.trackAlias < two64) && decide (h.groupID < two64)

def wfObject (hp : Bool) (o : Object) : Bool :=
  decide (o.idDelta < two64) &&
  (if hp then wfProps o.props && decide ((encProps o.props).length ≤ maxPropsLen) else o.props.isEmpty) &&
  decide (o.payload.length ≤ maxPayloadSize)

def wfSubGroup (s : SubGroup) : Bool :=
  wfHeader s.header &&
  match s.objects with
  | [o] => wfObject s.header.properties o && !o.payload.isEmpty
  | _ => false

end MtxVerif.C32
