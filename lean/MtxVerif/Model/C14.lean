/-
C14 — path configuration resolution (internal/conf/path.go `FindPathConf`, `IsValidPathName`; the
path loop of `Conf.Validate` / `Path.validate` in internal/conf/conf.go, path.go as far as names go).

A configuration set is the Go `map[string]*Path` as a list of entries (one per key; `Validate` sets
`Path.Name` = key).  Map iteration order = order of the list, so "independent of map iteration order"
= invariance under permutation of the list.

`regexp` is an oracle: each entry carries `m` = what `Regexp.FindStringSubmatch(requested name)` says
for that entry's expression (`none` = nil, no match).  `sort.Slice` is a parameter: ANY function that
returns a permutation of its input in which no later element is `less` than an earlier one (Go's
`sort.Slice` is not stable; this is exactly what it guarantees for a strict weak order).
-/
import MtxVerif.Base.DriverLib

namespace MtxVerif.C14

/-- Go `<` on strings: byte-wise lexicographic. -/
def ltB : Bytes → Bytes → Bool
  | [], [] => false
  | [], _ :: _ => true
  | _ :: _, [] => false
  | a :: as, b :: bs => a < b || (a == b && ltB as bs)

structure Entry where
  name : Bytes                    -- map key = Path.Name
  regex : Bool                    -- Path.Regexp != nil
  m : Option (List Bytes)         -- oracle: FindStringSubmatch(requested name); only read if `regex`
deriving Repr, DecidableEq

def nAll : Bytes := [97, 108, 108]                                     -- "all"
def nAllOthers : Bytes := [97, 108, 108, 95, 111, 116, 104, 101, 114, 115]  -- "all_others"
def nTildeAll : Bytes := [126, 94, 46, 42, 36]                          -- "~^.*$"

def isAllName (n : Bytes) : Bool := n == nAll || n == nAllOthers

/-- the comparator handed to `sort.Slice`, statement by statement -/
def less (a b : Entry) : Bool :=
  if isAllName a.name then false
  else if isAllName b.name then true
  else ltB a.name b.name

/-- the property's order: name order, `all`/`all_others` last -/
def before (a b : Entry) : Bool :=
  (!isAllName a.name && isAllName b.name) ||
  (!isAllName a.name && !isAllName b.name && ltB a.name b.name)

/-! ### IsValidPathName -/

/-- the character class of `rePathName`: digits, letters, underscore, minus, slash, dot (one or more, anchored) -/
def nameChar (c : UInt8) : Bool :=
  (48 ≤ c && c ≤ 57) || (97 ≤ c && c ≤ 122) || (65 ≤ c && c ≤ 90) ||
  c == 95 || c == 45 || c == 47 || c == 46

/-- `strings.Split(s, "/")` (accumulator = current segment, reversed) -/
def splitSlashAux : Bytes → Bytes → List Bytes
  | [], cur => [cur.reverse]
  | c :: rest, cur => if c == 47 then cur.reverse :: splitSlashAux rest [] else splitSlashAux rest (c :: cur)

def splitSlash (s : Bytes) : List Bytes := splitSlashAux s []

def dot : Bytes := [46]
def dotdot : Bytes := [46, 46]

def validName (n : Bytes) : Bool :=
  !n.isEmpty && n.head? != some 47 && n.getLast? != some 47 && n.all nameChar &&
  (splitSlash n).all (fun s => s != dot && s != dotdot)

/-! ### FindPathConf -/

inductive Res where
  /-- `(conf, groups, nil)`; the conf is identified by its key; `groups = none` is Go `nil` -/
  | found (name : Bytes) (groups : Option (List Bytes))
  | errInvalid
  | errNotConfigured
deriving Repr, DecidableEq

/-- the final `for … range regexpPathConfs` loop -/
def firstMatch : List Entry → Res
  | [] => .errNotConfigured
  | e :: es =>
    match e.m with
    | some g => .found e.name (some g)
    | none => firstMatch es

/-- `FindPathConf(pathConfs, name)`; `sort` stands for `sort.Slice(_, less)`. -/
def find (sort : List Entry → List Entry) (confs : List Entry) (name : Bytes) : Res :=
  match confs.find? (fun e => e.name == name) with
  | some e => .found e.name none
  | none =>
    if !validName name then .errInvalid
    else firstMatch (sort (confs.filter (fun e => e.regex)))

/-- one conforming sort (insertion sort), used by the driver -/
def insert (e : Entry) : List Entry → List Entry
  | [] => [e]
  | x :: xs => if less x e then x :: insert e xs else e :: x :: xs

def isort : List Entry → List Entry
  | [] => []
  | e :: es => insert e (isort es)

/-! ### executable spec (property wording), evaluated on the implementation's answer -/

inductive Verdict where
  | ok
  | failExact        -- a conf with exactly that name exists but was not returned (or returned with groups)
  | failInvalid      -- no exact conf, name invalid, yet not rejected as invalid
  | failNotFirst     -- returned regex conf is not the first matching one in the property's order
  | failGroups       -- returned conf does not match / groups are not that match's groups
  | failNoMatch      -- "not configured" although a regex conf matches
  | failShape        -- exact-style answer (nil groups) for a name that is not a key, or error for a resolvable name
deriving Repr, DecidableEq

def hasMatch (e : Entry) : Bool := e.regex && e.m.isSome

def spec (confs : List Entry) (name : Bytes) (r : Res) : Verdict :=
  if confs.any (fun e => e.name == name) then
    (if r == .found name none then .ok else .failExact)
  else if !validName name then
    (if r == .errInvalid then .ok else .failInvalid)
  else
    match r with
    | .found n (some g) =>
      match confs.find? (fun e => e.name == n) with
      | none => .failGroups
      | some e =>
        if !(e.regex && e.m == some g) then .failGroups
        else if confs.all (fun e' => !hasMatch e' || e' == e || before e e') then .ok
        else .failNotFirst
    | .errNotConfigured => if confs.any hasMatch then .failNoMatch else .ok
    | _ => .failShape

def Verdict.toStr : Verdict → String
  | .ok => "ok"
  | .failExact => "FAIL a configuration with exactly the requested name exists but the answer is not (that configuration, no groups)"
  | .failInvalid => "FAIL no configuration has the requested name and the name is invalid, but it was not rejected as invalid"
  | .failNotFirst => "FAIL the returned regex configuration is not the first matching one in name order (all/all_others last)"
  | .failGroups => "FAIL the returned configuration is not a regex configuration of the set matching the name with these capture groups"
  | .failNoMatch => "FAIL rejected as not configured although a regex configuration matches the valid name"
  | .failShape => "FAIL wrong kind of answer for a valid name without exact configuration"

/-! ### the names part of `Conf.Validate` (what makes the hypotheses of the theorems true) -/

structure VName where
  name : Bytes
  compiles : Bool      -- oracle: regexp.Compile(name[1:]) succeeds (read only for `~…` names)
deriving Repr, DecidableEq

inductive VRes where
  | ok (regexFlags : List Bool)   -- per input name: Path.Regexp != nil
  | errAlias | errName | errRegex
deriving Repr, DecidableEq

def isAlias (n : Bytes) : Bool := n == nAll || n == nAllOthers || n == nTildeAll

def isRegexName (n : Bytes) : Bool := isAllName n || n.head? == some 126

/-- `Path.validate`, the `switch` on the name -/
def nameErr (v : VName) : Option VRes :=
  if isAllName v.name then none
  else if v.name.isEmpty || v.name.head? != some 126 then
    (if validName v.name then none else some .errName)
  else if v.compiles then none else some .errRegex

def vinsert (e : VName) : List VName → List VName
  | [] => [e]
  | x :: xs => if ltB x.name e.name then x :: vinsert e xs else e :: x :: xs

def vsort : List VName → List VName
  | [] => []
  | e :: es => vinsert e (vsort es)

/-- alias check, then the first error in `sortedKeys` order -/
def validateNames (names : List VName) : VRes :=
  if (names.filter (fun v => isAlias v.name)).length ≥ 2 then .errAlias
  else match (vsort names).findSome? nameErr with
    | some e => e
    | none => .ok (names.map fun v => isRegexName v.name)

end MtxVerif.C14
