/-
C36 — metrics exposition is always valid and faithful (internal/metrics/metrics.go).

Model of the renderer (`tags`, `metric`, `metricFloat`) and a parser for the Prometheus text
exposition format (one sample per line:
`metric_name [ "{" label_name "=" '"' label_value '"' { "," … } [ "," ] "}" ] value [ timestamp ]`,
label values with the escapes `\\`, `\"`, `\n`; `#` lines are comments; empty lines are ignored).

Two renderers are modelled:
* `tagsRaw`  — label values written verbatim (what `tags` did when this property was first checked);
* `tagsEsc`  — label values written with `\`, `"` and line feed escaped (Prometheus text format rules).
The driver accepts either as "the model" (whichever the implementation follows byte for byte); the
property itself is decided by parsing the implementation's output back.

Third-party behaviour kept as oracle: `strconv.FormatFloat(v, 'f', -1, 64)` (the text is passed in).
`strconv.FormatInt` is modelled (`fmtInt`).
-/
import MtxVerif.Base.DriverLib

namespace MtxVerif.C36

abbrev Label := Bytes × Bytes

structure Sample where
  name : Bytes
  labels : List Label
  value : Bytes
deriving DecidableEq, Repr

/-! ### renderer -/

/-- Prometheus label-value escaping: `\` → `\\`, `"` → `\"`, LF → `\n`. -/
def escape : Bytes → Bytes
  | [] => []
  | c :: cs =>
    if c = 92 then 92 :: 92 :: escape cs
    else if c = 34 then 92 :: 34 :: escape cs
    else if c = 10 then 92 :: 110 :: escape cs
    else c :: escape cs

/-- `k="v"` -/
def renderPair (esc : Bytes → Bytes) (p : Label) : Bytes := p.1 ++ [61, 34] ++ esc p.2 ++ [34]

/-- the inside of the braces: pairs separated by `,` -/
def renderPairs (esc : Bytes → Bytes) : List Label → Bytes
  | [] => []
  | [p] => renderPair esc p
  | p :: q :: rest => renderPair esc p ++ [44] ++ renderPairs esc (q :: rest)

/-- `tags` on an already key-sorted list. -/
def renderTags (esc : Bytes → Bytes) (ls : List Label) : Bytes := [123] ++ renderPairs esc ls ++ [125]

/-- Go string comparison (`sort.Strings`): lexicographic on bytes. -/
def bytesLe : Bytes → Bytes → Bool
  | [], _ => true
  | _ :: _, [] => false
  | a :: as, b :: bs => if a < b then true else if b < a then false else bytesLe as bs

/-- `sortedKeys` + lookup: the map as a list of pairs with distinct keys, sorted by key. -/
def sortLabels (m : List Label) : List Label := m.mergeSort (fun a b => bytesLe a.1 b.1)

def tagsRaw (m : List Label) : Bytes := renderTags id (sortLabels m)
def tagsEsc (m : List Label) : Bytes := renderTags escape (sortLabels m)

def fmtNat (n : Nat) : Bytes := (Nat.toDigits 10 n).map fun c => UInt8.ofNat c.toNat

/-- `strconv.FormatInt(v, 10)` -/
def fmtInt (v : Int) : Bytes :=
  if v < 0 then 45 :: fmtNat v.natAbs else fmtNat v.natAbs

/-- `metric` / `metricFloat` without the trailing line feed: `key tags ' ' value`. -/
def sampleLine (key tags val : Bytes) : Bytes := key ++ tags ++ [32] ++ val

/-- `metric(out, key, tags, value)` -/
def metric (key tags : Bytes) (v : Int) : Bytes := sampleLine key tags (fmtInt v) ++ [10]

/-- `metricFloat`; `txt` = `strconv.FormatFloat(value, 'f', -1, 64)` (oracle). -/
def metricFloat (key tags txt : Bytes) : Bytes := sampleLine key tags txt ++ [10]

/-! ### Prometheus text-format parser -/

def isBlank (c : UInt8) : Bool := c == 32 || c == 9
def isDigit (c : UInt8) : Bool := 48 ≤ c && c ≤ 57
def isAlpha (c : UInt8) : Bool := (97 ≤ c && c ≤ 122) || (65 ≤ c && c ≤ 90)
def isLabelStart (c : UInt8) : Bool := isAlpha c || c == 95
def isLabelChar (c : UInt8) : Bool := isLabelStart c || isDigit c
def isNameStart (c : UInt8) : Bool := isLabelStart c || c == 58
def isNameChar (c : UInt8) : Bool := isNameStart c || isDigit c

def skipBlanks (l : Bytes) : Bytes := l.dropWhile isBlank

/-- Label value after the opening quote: decoded value and the rest after the closing quote.
A raw line feed, an unknown escape or a missing closing quote is an error. -/
def readValue : Bytes → Option (Bytes × Bytes)
  | [] => none
  | c :: rest =>
    if c = 34 then some ([], rest)
    else if c = 10 then none
    else if c = 92 then
      match rest with
      | [] => none
      | d :: rest' =>
        if d = 92 then (readValue rest').map fun r => (92 :: r.1, r.2)
        else if d = 34 then (readValue rest').map fun r => (34 :: r.1, r.2)
        else if d = 110 then (readValue rest').map fun r => (10 :: r.1, r.2)
        else none
    else (readValue rest).map fun r => (c :: r.1, r.2)

/-- Label set after the opening brace; `fuel` bounds the number of labels. -/
def readLabels : Nat → Bytes → Option (List Label × Bytes)
  | 0, _ => none
  | fuel + 1, inp =>
    match skipBlanks inp with
    | [] => none
    | c :: rest =>
      if c = 125 then some ([], rest)
      else if !isLabelStart c then none
      else
        let k := (c :: rest).takeWhile isLabelChar
        match skipBlanks ((c :: rest).dropWhile isLabelChar) with
        | [] => none
        | e :: r2 =>
          if e ≠ 61 then none else
          match skipBlanks r2 with
          | [] => none
          | q :: r3 =>
            if q ≠ 34 then none else
            match readValue r3 with
            | none => none
            | some (v, r4) =>
              match skipBlanks r4 with
              | [] => none
              | s :: r5 =>
                if s = 44 then (readLabels fuel r5).map fun r => ((k, v) :: r.1, r.2)
                else if s = 125 then some ([(k, v)], r5)
                else none

/-- decimal integer token: optional sign, at least one digit -/
def isIntTok (s : Bytes) : Bool :=
  match s with
  | [] => false
  | c :: rest => if c == 45 || c == 43 then (!rest.isEmpty && rest.all isDigit) else (c :: rest).all isDigit

/-- digits [ '.' digits ] | '.' digits, then an optional exponent — `strconv.ParseFloat` decimal syntax -/
def isDecFloat (s : Bytes) : Bool :=
  let s := match s with | c :: rest => if c == 45 || c == 43 then rest else c :: rest | [] => []
  let ip := s.takeWhile isDigit
  let r := s.dropWhile isDigit
  let (fp, r, dot) := match r with
    | 46 :: r' => (r'.takeWhile isDigit, r'.dropWhile isDigit, true)
    | _ => ([], r, false)
  let mantOK := !(ip.isEmpty && fp.isEmpty) && (dot || !ip.isEmpty)
  let expOK := match r with
    | [] => true
    | e :: r' =>
      if e == 101 || e == 69 then
        let r' := match r' with | c :: t => if c == 45 || c == 43 then t else c :: t | [] => []
        !r'.isEmpty && r'.all isDigit
      else false
  mantOK && expOK

def lower (c : UInt8) : UInt8 := if 65 ≤ c && c ≤ 90 then c + 32 else c

/-- `NaN`, `Inf`, `+Inf`, `-Inf`, `Infinity` (any case) -/
def isSpecialFloat (s : Bytes) : Bool :=
  let s := s.map lower
  let s' := match s with | c :: rest => if c == 45 || c == 43 then rest else c :: rest | [] => []
  s == [110, 97, 110] || s' == [105, 110, 102] || s' == [105, 110, 102, 105, 110, 105, 116, 121]

/-- a token `strconv.ParseFloat` accepts (the hexadecimal and underscore forms are not needed) -/
def isValueTok (s : Bytes) : Bool := isIntTok s || isDecFloat s || isSpecialFloat s

/-- One sample line (without its line feed). -/
def parseSample (line : Bytes) : Option Sample :=
  match skipBlanks line with
  | [] => none
  | c :: rest =>
    if !isNameStart c then none else
    let name := (c :: rest).takeWhile isNameChar
    let r2 := skipBlanks ((c :: rest).dropWhile isNameChar)
    let lab : Option (List Label × Bytes) :=
      match r2 with
      | [] => some ([], [])
      | b :: r3 => if b = 123 then readLabels (r3.length + 1) r3 else some ([], b :: r3)
    match lab with
    | none => none
    | some (labels, r4) =>
      let r5 := skipBlanks r4
      let val := r5.takeWhile (fun c => !isBlank c)
      let r6 := skipBlanks (r5.dropWhile (fun c => !isBlank c))
      let ts := r6.takeWhile (fun c => !isBlank c)
      let r7 := skipBlanks (r6.dropWhile (fun c => !isBlank c))
      if isValueTok val && (ts.isEmpty || isIntTok ts) && r7.isEmpty then some ⟨name, labels, val⟩
      else none

/-- split at line feeds; a trailing piece without line feed is kept if non-empty -/
def splitLines : Bytes → Bytes → List Bytes
  | [], acc => if acc.isEmpty then [] else [acc.reverse]
  | c :: cs, acc => if c = 10 then acc.reverse :: splitLines cs [] else splitLines cs (c :: acc)

def isSkippable (line : Bytes) : Bool :=
  match skipBlanks line with
  | [] => true
  | c :: _ => c == 35

/-- Whole exposition: every line is empty, a comment, or a well-formed sample. -/
def parseLines : List Bytes → Option (List Sample)
  | [] => some []
  | l :: ls =>
    if isSkippable l then parseLines ls
    else match parseSample l with
      | none => none
      | some s => (parseLines ls).map (s :: ·)

def parseDoc (out : Bytes) : Option (List Sample) := parseLines (splitLines out [])

/-! ### documents, as `onMetrics` builds them -/

inductive Item where
  | comment (text : Bytes)       -- `out.WriteString("# " + text + "\n")`
  | blank                         -- `out.WriteString("\n")`
  | sample (s : Sample)           -- `metric` / `metricFloat` with `tags(labels)` (or no tags if `labels = []`)
deriving Repr

def renderItem (esc : Bytes → Bytes) : Item → Bytes
  | .comment t => [35, 32] ++ t ++ [10]
  | .blank => [10]
  | .sample s =>
    sampleLine s.name (if s.labels.isEmpty then [] else renderTags esc s.labels) s.value ++ [10]

def renderDoc (esc : Bytes → Bytes) (d : List Item) : Bytes := d.flatMap (renderItem esc)

def samplesOf : List Item → List Sample
  | [] => []
  | .sample s :: r => s :: samplesOf r
  | _ :: r => samplesOf r

/-! ### side conditions -/

def validName (n : Bytes) : Bool :=
  match n with
  | [] => false
  | c :: rest => isNameStart c && rest.all isNameChar

def validLabelName (n : Bytes) : Bool :=
  match n with
  | [] => false
  | c :: rest => isLabelStart c && rest.all isLabelChar

/-- value token: what `FormatInt` / `FormatFloat('f')` produce -/
def goodVal (v : Bytes) : Bool := isValueTok v && v.all (fun c => !isBlank c && c != 10 && c != 123)

/-- the decidable class of the finding: a label value the raw renderer cannot carry -/
def safeValue (v : Bytes) : Bool := v.all fun c => c != 34 && c != 92 && c != 10

def validSample (s : Sample) : Bool :=
  validName s.name && s.labels.all (fun p => validLabelName p.1) && goodVal s.value

/-! ### executable spec for a whole scrape (faithfulness by naming convention)

An entity (path, session, connection, forward destination, reader group) is given by the harness as
its section (`paths`, `rtsp_sessions`, …), its label map, the value of the section's base metric
(1, or the reader count for `paths_readers`) and its numeric fields by lower-cased Go field name.
A sample `sec_some_counter{labels} v` is faithful if an entity of section `sec` has exactly these
labels and its field `somecounter` (underscores dropped) prints as `v`. -/

structure Entity where
  sect : Bytes
  labels : List Label
  base : Bytes
  fields : List (Bytes × Bytes)
deriving Repr

def isPrefixOf (p l : Bytes) : Bool := l.take p.length == p

/-- the section a metric name belongs to: the longest section name `p` with `name = p` or `name = p_…` -/
def sectionOf (sections : List Bytes) (name : Bytes) : Option Bytes :=
  let cands := sections.filter fun p => name == p || isPrefixOf (p ++ [95]) name
  cands.foldl (fun best p => match best with
    | none => some p
    | some b => if p.length > b.length then some p else some b) none

/-- metric-name suffixes whose field name does not follow the convention -/
def fieldExceptions : List (Bytes × Bytes) :=
  [(strBytes "srt_conns_bytes_mss", strBytes "bytemss")]

def fieldKey (sec name : Bytes) : Bytes :=
  match fieldExceptions.find? (·.1 == name) with
  | some e => e.2
  | none => ((name.drop (sec.length + 1)).filter (· != 95)).map lower

def sampleFaithful (sections : List Bytes) (ents : List Entity) (s : Sample) : Bool :=
  if s.labels.isEmpty then s.value == [48]     -- "no entity" placeholder lines carry 0
  else match sectionOf sections s.name with
    | none => false
    | some sec =>
      ents.any fun e =>
        e.sect == sec && sortLabels e.labels == sortLabels s.labels &&
        (if s.name == sec then e.base == s.value
         else match e.fields.find? (·.1 == fieldKey sec s.name) with
           | some f => f.2 == s.value
           | none => false)

/-- every entity is reported with its base sample (used for scrapes without filter) -/
def entityReported (samples : List Sample) (e : Entity) : Bool :=
  samples.any fun s => s.name == e.sect && sortLabels s.labels == sortLabels e.labels && s.value == e.base

end MtxVerif.C36
