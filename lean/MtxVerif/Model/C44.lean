/-
C44 — API list pagination (internal/api/paginate.go).

Model of `paginate` / `paginate2`.  Go `int` is 64 bit; both parameters come from
`strconv.ParseUint(_, 10, 31)` so they are < 2^31 and the products `page*ipp`, `(page+1)*ipp`
are < 2^62: no wrap-around, hence `Nat` is faithful (theorem `products_fit` in Props/C44).
-/
import MtxVerif.Base.DriverLib

namespace MtxVerif.C44

/-- `strconv.ParseUint(s, 10, 31)`: non-empty, decimal digits only, value < 2^31. -/
def parseUint31 (s : Bytes) : Option Nat :=
  if s.isEmpty then none
  else if s.all (fun c => 48 ≤ c.toNat ∧ c.toNat ≤ 57) then
    let v := s.foldl (fun acc c => acc * 10 + (c.toNat - 48)) 0
    if v < 2 ^ 31 then some v else none
  else none

/-- Parameter handling of `paginate`: `none` = request rejected. -/
def parseParams (ippStr pageStr : Bytes) : Option (Nat × Nat) :=
  let ipp? : Option Nat :=
    if ippStr.isEmpty then some 100
    else match parseUint31 ippStr with
      | none => none
      | some 0 => none
      | some v => some v
  match ipp? with
  | none => none
  | some ipp =>
    if pageStr.isEmpty then some (ipp, 0)
    else match parseUint31 pageStr with
      | none => none
      | some p => some (ipp, p)

/-- `pageCount` as computed by `paginate2`. -/
def pageCount (len ipp : Nat) : Nat :=
  if len = 0 then 0 else len / ipp + (if len % ipp ≠ 0 then 1 else 0)

def lo (len ipp page : Nat) : Nat := min (page * ipp) len
def hi (len ipp page : Nat) : Nat := min ((page + 1) * ipp) len

/-- The slice `items[min:max]` that `paginate2` leaves in place. -/
def page (l : List α) (ipp p : Nat) : List α :=
  if l.length = 0 then l
  else (l.drop (lo l.length ipp p)).take (hi l.length ipp p - lo l.length ipp p)

/-! ### Executable spec, evaluated on the implementation's answers

`pagesOK len ipp spans` : `spans` are the (first item, length) pairs the implementation returned for
pages `0 … pageCount+1` of the list `[0, …, len-1]`.  The property: they are consecutive slices whose
concatenation is the whole list, each at most `ipp` long, the ones past the end empty. -/
def pagesOK (len ipp pc : Nat) (spans : List (Nat × Nat)) : Bool :=
  let rec go (next : Nat) (i : Nat) : List (Nat × Nat) → Bool
    | [] => next == len
    | (start, n) :: rest =>
      (n ≤ ipp) && (if n == 0 then true else start == next) &&
      (if i ≥ pc then n == 0 else true) && go (next + n) (i + 1) rest
  go 0 0 spans && (spans.length ≥ pc)

end MtxVerif.C44
