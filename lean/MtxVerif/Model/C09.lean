/-
C09 — environment overrides are equivalent to file values (internal/conf/env/env.go).

`loadEnv` mirrors `loadEnvInternal` kind by kind over a generic type tree `Ty` and value tree `V`:
Unmarshaler first (incl. the "some key has this prefix ⇒ call with the empty string" rule and the nil receiver),
the five scalar types (32-bit integer parse, bool spellings), maps of pointers (key = next `_`-free upper-case
token, lower-cased; a missing or nil entry is created), structs (fields by upper-cased json tag,
`json:"-"` skipped, a nil `*struct` ⇒ panic), string/uint/float lists by comma (empty value ⇒ empty list), struct lists by index with the "continue while a key with the item prefix exists or the
value has more items" loop, anything else ⇒ "unsupported type" error.
strconv.ParseFloat and the `UnmarshalEnv` methods of the real parameter types are oracles.
-/
import MtxVerif.Base.DriverLib

namespace MtxVerif.C09

open Lean in
/-- `b!"abc"` : kernel-reducible ASCII literal. -/
macro:max "b!" s:str : term => do
  let cs : Array (TSyntax `term) := s.getString.toList.toArray.map fun c => ⟨Syntax.mkCharLit c⟩
  `(asc [$cs,*])

/-! ### environment -/

abbrev Env := List (Bytes × Bytes)

def Env.get (e : Env) (k : Bytes) : Option Bytes := (e.find? (fun kv => kv.1 == k)).map (·.2)

/-- `envHasAtLeastAKeyWithPrefix` -/
def hasKeyWithPrefix (e : Env) (p : Bytes) : Bool := e.any (fun kv => p.isPrefixOf kv.1)

/-! ### types and values -/

inductive Ty where
  | str | int | uint | float | bool
  | unm                                   -- scalar-like type with an `UnmarshalEnv` method
  | unmStruct (fs : List (Bytes × Ty))    -- `UnmarshalEnv` = `env.Load(prefix, inner struct)` (OptionalPath)
  | ptr (t : Ty)
  | strList | uintList | floatList | otherList
  | structList (fs : List (Bytes × Ty))
  | struct (fs : List (Bytes × Ty))       -- field = (json tag incl. ",omitempty" or "-", type)
  | map (elem : Ty)                       -- map[string]*elem
  | other
deriving Repr, Inhabited

inductive V where
  | str (s : Bytes) | int (i : Int) | uint (n : Nat) | float (canon : Bytes) | bool (b : Bool)
  | unm (history : Bytes)                 -- test double: concatenation of "<prefix=value>" per call
  | opt (inner : V)                       -- value of an `unmStruct`: its inner pointer (nil / some struct)
  | nil | some (v : V)
  | list (l : List V) | nilList
  | struct (fs : List V)
  | map (es : List (Bytes × V)) | nilMap
  | other
deriving Repr, Inhabited

inductive Outcome (α : Type) where
  | ok (a : α)
  | err
  | panic
  | nondet          -- Go's map iteration order decides between an error and a panic
deriving Repr, Inhabited

/-! ### text helpers -/

def upperAscii (t : Bytes) : Bytes := t.map fun c => if 97 ≤ c ∧ c ≤ 122 then c - 32 else c
def lowerAscii (t : Bytes) : Bytes := t.map fun c => if 65 ≤ c ∧ c ≤ 90 then c + 32 else c

def splitByteAux (sep : UInt8) : Bytes → Bytes → List Bytes
  | [], acc => [acc.reverse]
  | c :: cs, acc => if c = sep then acc.reverse :: splitByteAux sep cs [] else splitByteAux sep cs (c :: acc)

/-- `strings.Split(s, ",")` -/
def splitComma (s : Bytes) : List Bytes := splitByteAux 44 s []

def isDigit (c : UInt8) : Bool := 48 ≤ c && c ≤ 57

def digitsVal (ds : Bytes) : Nat := ds.foldl (fun acc c => acc * 10 + (c.toNat - 48)) 0

/-- `strconv.ParseUint(s, 10, 32)`: decimal digits only (underscores are not accepted with base 10), < 2^32 -/
def parseUint32 (s : Bytes) : Option Nat :=
  if s.isEmpty || !s.all isDigit then none
  else let v := digitsVal s; if v < 2 ^ 32 then some v else none

/-- `strconv.ParseInt(s, 10, 32)`: optional sign, digits, within [-2^31, 2^31) -/
def parseInt32 (s : Bytes) : Option Int :=
  let (neg, ds) : Bool × Bytes := match s with
    | 45 :: r => (true, r)
    | 43 :: r => (false, r)
    | _ => (false, s)
  if ds.isEmpty || !ds.all isDigit then none
  else
    let v : Int := digitsVal ds
    if neg then (if v ≤ 2 ^ 31 then some (-v) else none) else (if v < 2 ^ 31 then some v else none)

/-- the bool spellings of `loadEnvInternal` (after `strings.ToLower`) -/
def parseBool (s : Bytes) : Option Bool :=
  let l := lowerAscii s
  if l == b!"yes" || l == b!"true" then some true
  else if l == b!"no" || l == b!"false" then some false
  else none

/-- `strings.TrimSuffix(tag, ",omitempty")` then `strings.ToUpper` -/
def fieldKey (tag : Bytes) : Bytes :=
  let suf := b!",omitempty"
  let t := if tag.length ≥ suf.length && tag.drop (tag.length - suf.length) == suf then tag.take (tag.length - suf.length) else tag
  upperAscii t

def decFuel : Nat → Nat → Bytes → Bytes
  | 0, _, acc => acc
  | f + 1, n, acc =>
    let acc' := UInt8.ofNat (48 + n % 10) :: acc
    if n / 10 = 0 then acc' else decFuel f (n / 10) acc'

/-- `strconv.FormatInt(int64(i), 10)` for list indices -/
def decNat (n : Nat) : Bytes := decFuel 20 n []

/-- the test double's `UnmarshalEnv`: values starting with "ERR" are rejected, otherwise the value becomes the
record "<prefix=value>" of the call (the real parameter types set their value from the text the same way) -/
def unmCall (_hist pfx v : Bytes) : Option Bytes :=
  if b!"ERR".isPrefixOf v then none else some ([60] ++ pfx ++ [61] ++ v ++ [62])

/-! ### loadEnvInternal -/

/-- strconv.ParseFloat oracle: text ↦ canonical rendering of the parsed value (absent = error) -/
abbrev FloatOracle := List (Bytes × Bytes)

/-- distinct map keys addressed by the environment under `prefix_`: (`mapKey`, lower-cased) in first-occurrence
order; keys that are empty or not upper-case are ignored by the code -/
def mapKeys (e : Env) (pfx : Bytes) : List (Bytes × Bytes) :=
  let p := pfx ++ [95]
  let ks := e.filterMap fun kv =>
    if p.isPrefixOf kv.1 then
      let tok := (kv.1.drop p.length).takeWhile (· ≠ 95)
      if tok.isEmpty || tok != upperAscii tok then none else some (tok, lowerAscii tok)
    else none
  ks.eraseDups

mutual

/-- zero value of a type (`reflect.New(t).Elem()`) -/
def zeroOf : Ty → V
  | .str => .str []
  | .int => .int 0
  | .uint => .uint 0
  | .float => .float [48]
  | .bool => .bool false
  | .unm => .unm []
  | .unmStruct _ => .opt .nil
  | .ptr _ => .nil
  | .strList | .uintList | .floatList | .otherList | .structList _ => .nilList
  | .struct fs => .struct (zeroFields fs)
  | .map _ => .nilMap
  | .other => .other

def zeroFields : List (Bytes × Ty) → List V
  | [] => []
  | (_, t) :: fs => zeroOf t :: zeroFields fs

end

/-- pointer / non-pointer dispatch at the top of `loadEnvInternal`: for a `*T` parameter the location is the
pointer itself (nil or not), for a `T` parameter it is `&field` (never nil). `la` = the rest of the function. -/
def dispatch (la : Bytes → Ty → Option V → Outcome V) (pfx : Bytes) (t : Ty) (cur : V) : Outcome V :=
  match t with
  | .ptr (.ptr _) => .err      -- no pointer-to-pointer parameters
  | .ptr t' =>
    match cur with
    | .nil => la pfx t' none
    | .some v => la pfx t' (some v)
    | _ => .err
  | _ =>
    match la pfx t (some cur) with
    | .ok (.some v) => .ok v
    | .ok _ => .err
    | .err => .err
    | .panic => .panic
    | .nondet => .nondet

/-- the `reflect.Struct` case: fields in declaration order, `json:"-"` skipped, first failure wins.
`child` = `loadEnvInternal` one level down. -/
def loadFieldsWith (child : Bytes → Ty → V → Outcome V) (pfx : Bytes) : List (Bytes × Ty) → List V → List V → Outcome V
  | [], _, acc => .ok (.struct acc.reverse)
  | _ :: _, [], _ => .err
  | (tag, t) :: fs, v :: vs, acc =>
    if tag == b!"-" then loadFieldsWith child pfx fs vs (v :: acc)
    else
      match child (pfx ++ [95] ++ fieldKey tag) t v with
      | .ok v' => loadFieldsWith child pfx fs vs (v' :: acc)
      | .err => .err
      | .panic => .panic
      | .nondet => .nondet

def loadStructWith (child : Bytes → Ty → V → Outcome V) (pfx : Bytes) (fs : List (Bytes × Ty)) (s : V) : Outcome V :=
  match s with
  | .struct vs => loadFieldsWith child pfx fs vs []
  | _ => .err

/-- the `reflect.Map` case, one distinct map key at a time (Go visits them in random order: an error and a
panic for different keys ⇒ `nondet`). `fresh` = the map was nil and has not been created yet. -/
def loadMapKeysWith (child : Bytes → Ty → V → Outcome V) (pfx : Bytes) (elem : Ty) :
    List (Bytes × Bytes) → List (Bytes × V) → Bool → Bool → Bool → Outcome V
  | [], es, fresh, sawErr, sawPanic =>
    if sawErr && sawPanic then .nondet
    else if sawPanic then .panic
    else if sawErr then .err
    else if fresh then .ok (.some .nilMap)
    else .ok (.some (.map es))
  | (tok, key) :: ks, es, _, sawErr, sawPanic =>
    -- `if nv == zero || nv.IsNil() { nv = reflect.New(…); SetMapIndex }`: a missing entry and an entry that is a
    -- nil pointer (`paths: {foo: null}` in the file) are both replaced by a fresh zero value
    let cur : V := match es.lookup key with
      | some (.some v) => v
      | _ => zeroOf elem
    match child (pfx ++ [95] ++ tok) elem cur with
    | .ok v' =>
      let es' := if (es.lookup key).isSome then es.map (fun kv => if kv.1 == key then (kv.1, .some v') else kv)
                 else es ++ [(key, .some v')]
      loadMapKeysWith child pfx elem ks es' false sawErr sawPanic
    | .err =>
      -- the entry has been created before the error
      let es' := if (es.lookup key).isSome then es else es ++ [(key, .some cur)]
      loadMapKeysWith child pfx elem ks es' false true sawPanic
    | .panic => loadMapKeysWith child pfx elem ks es false sawErr true
    | .nondet => .nondet

/-- the struct-list loop `for i := 0; ; i++` (`steps` bounds the number of iterations) -/
def loadItemsWith (child : Bytes → Ty → V → Outcome V) (e : Env) (pfx : Bytes) (fs : List (Bytes × Ty)) :
    Nat → Nat → List V → Outcome (List V)
  | 0, _, _ => .err
  | steps + 1, i, items =>
    let itemPfx := pfx ++ [95] ++ decNat i
    if !hasKeyWithPrefix e itemPfx && items.length ≤ i then .ok items
    else
      let cur : V := if i < items.length then items.getD i .other else .struct (zeroFields fs)
      match child itemPfx (.struct fs) cur with
      | .ok v' =>
        let items' := if i < items.length then items.set i v' else items ++ [v']
        loadItemsWith child e pfx fs steps (i + 1) items'
      | .err => .err
      | .panic => .panic
      | .nondet => .nondet

/-- the body of `loadEnvInternal` for a non-pointer type `t` behind a pointer that is nil (`none`) or points to
`cur`; returns the new pointer (`nil` / `some v`). `fuel` bounds the nesting depth of the type; `fx = true` is the code
as of /repo 7bda13e, `fx = false` the prefix rule before it (regression record of F-C09). -/
def loadAt (fx : Bool) (fl : FloatOracle) (e : Env) : Nat → Bytes → Ty → Option V → Outcome V
  | 0, _, _, _ => .err
  | fuel + 1, pfx, t, cur? =>
    let child := dispatch (loadAt fx fl e fuel)
    let unchanged : Outcome V := .ok (match cur? with | none => .nil | some v => .some v)
    -- "some key has this prefix ⇒ call with the empty string": restricted to children (`prefix_…`) of a value
    -- that exists (`fx`); before 7bda13e any variable starting with the same letters counted
    let prefixRule : Bool :=
      if fx then cur?.isSome && hasKeyWithPrefix e (pfx ++ [95]) else hasKeyWithPrefix e pfx
    match t with
    -- Unmarshaler
    | .unm =>
      match e.get pfx with
      | some ev =>
        let hist := match cur? with | some (.unm h) => h | _ => []
        (match unmCall hist pfx ev with | some h => .ok (.some (.unm h)) | none => .err)
      | none =>
        if prefixRule then
          match cur? with
          | none => .panic                      -- method called on a nil receiver, which it dereferences
          | some (.unm h) => (match unmCall h pfx [] with | some h' => .ok (.some (.unm h')) | none => .err)
          | some _ => .err
        else unchanged
    | .unmStruct fs =>
      if (e.get pfx).isSome || prefixRule then
        let recv : Option V := match cur?, e.get pfx with
          | none, some _ => some (.opt .nil)     -- `prv.Set(reflect.New(rt))`
          | none, none => none
          | some v, _ => some v
        match recv with
        | none => .panic                         -- nil receiver
        | some (.opt inner) =>
          -- `if p.Values == nil { p.Values = new }` ; `env.Load(prefix, p.Values)`
          let innerV : V := match inner with | .nil => .struct (zeroFields fs) | .some s => s | _ => .other
          (match loadStructWith child pfx fs innerV with
           | .ok s => .ok (.some (.opt (.some s)))
           | .err => .err
           | .panic => .panic
           | .nondet => .nondet)
        | some _ => .err
      else unchanged
    -- the five scalar types
    | .str =>
      match e.get pfx with
      | some ev => .ok (.some (.str ev))
      | none => unchanged
    | .int =>
      match e.get pfx with
      | some ev => (match parseInt32 ev with | some v => .ok (.some (.int v)) | none => .err)
      | none => unchanged
    | .uint =>
      match e.get pfx with
      | some ev => (match parseUint32 ev with | some v => .ok (.some (.uint v)) | none => .err)
      | none => unchanged
    | .float =>
      match e.get pfx with
      | some ev => (match fl.lookup ev with | some c => .ok (.some (.float c)) | none => .err)
      | none => unchanged
    | .bool =>
      match e.get pfx with
      | some ev => (match parseBool ev with | some b => .ok (.some (.bool b)) | none => .err)
      | none => unchanged
    -- map[string]*elem
    | .map elem =>
      match cur? with
      | some (.map es) => loadMapKeysWith child pfx elem (mapKeys e pfx) es false false false
      | some .nilMap => loadMapKeysWith child pfx elem (mapKeys e pfx) [] true false false
      | _ => .err
    -- struct
    | .struct fs =>
      match cur? with
      | none =>
        -- `prv.Elem().Field(i)` on a nil *struct, reached at the first field that is not `json:"-"`
        if fs.all (fun ft => ft.1 == b!"-") then unchanged else .panic
      | some s =>
        (match loadStructWith child pfx fs s with
         | .ok s' => .ok (.some s')
         | .err => .err
         | .panic => .panic
         | .nondet => .nondet)
    -- slices
    | .strList =>
      match e.get pfx with
      | some ev =>
        if ev.isEmpty then .ok (.some (.list []))
        else .ok (.some (.list ((splitComma ev).map .str)))
      | none => unchanged
    | .uintList =>
      match e.get pfx with
      | some ev =>
        if ev.isEmpty then .ok (.some (.list []))
        else (match (splitComma ev).mapM parseUint32 with | some l => .ok (.some (.list (l.map .uint))) | none => .err)
      | none => unchanged
    | .floatList =>
      match e.get pfx with
      | some ev =>
        if ev.isEmpty then .ok (.some (.list []))
        else (match (splitComma ev).mapM (fun x => fl.lookup x) with | some l => .ok (.some (.list (l.map .float))) | none => .err)
      | none => unchanged
    | .structList fs =>
      if e.get pfx == some [] then .ok (.some (.list []))
      else
        let items? : Option (List V) := match cur? with
          | none => some []
          | some (.list l) => some l
          | some .nilList => some []
          | some _ => none
        (match items? with
         | none => .err
         | some items =>
           match loadItemsWith child e pfx fs (e.length + items.length + 1) 0 items with
           | .ok l =>
             -- the pointer / slice is only touched when an element was appended or rewritten
             if l.isEmpty && items.isEmpty then unchanged else .ok (.some (.list l))
           | .err => .err
           | .panic => .panic
           | .nondet => .nondet)
    | .otherList => .err
    | .other => .err
    | .ptr _ => .err

/-- `loadEnvInternal(env, prefix, prv)` where `prv` points to a location of type `t` holding `cur` -/
def loadEnv (fx : Bool) (fl : FloatOracle) (e : Env) (fuel : Nat) (pfx : Bytes) (t : Ty) (cur : V) : Outcome V :=
  dispatch (loadAt fx fl e fuel) pfx t cur

/-! ### canonical text of a value (shared with the Go harness) -/

def ltBytes : Bytes → Bytes → Bool
  | [], [] => false
  | [], _ => true
  | _, [] => false
  | a :: as, b :: bs => a < b || (a == b && ltBytes as bs)

def insertKV (x : Bytes × String) : List (Bytes × String) → List (Bytes × String)
  | [] => [x]
  | y :: ys => if ltBytes y.1 x.1 then y :: insertKV x ys else x :: y :: ys

partial def showV : V → String
  | .str s => "s" ++ Hex.encode s
  | .int i => "i" ++ toString i
  | .uint n => "u" ++ toString n
  | .float c => "f" ++ Hex.encode c
  | .bool b => if b then "b1" else "b0"
  | .unm h => "m" ++ Hex.encode h
  | .opt inner => "O" ++ showV inner
  | .nil => "~"
  | .some v => "&" ++ showV v
  | .list l => "[" ++ ",".intercalate (l.map showV) ++ "]"
  | .nilList => "N"
  | .struct fs => "{" ++ ",".intercalate (fs.map showV) ++ "}"
  | .map es =>
    let sorted := (es.map fun kv => (kv.1, Hex.encode kv.1 ++ ":" ++ showV kv.2)).foldr insertKV []
    "<" ++ ",".intercalate (sorted.map (·.2)) ++ ">"
  | .nilMap => "M"
  | .other => "?"

/-! ### the name scheme -/

/-- one step of a parameter path -/
inductive Seg where
  | field (tag : Bytes)      -- struct field, by json tag
  | key (k : Bytes)          -- map entry (lower-case key as it appears in the file)
  | idx (i : Nat)            -- list item
deriving Repr, DecidableEq

def segName : Seg → Bytes
  | .field tag => fieldKey tag
  | .key k => upperAscii k
  | .idx i => decNat i

/-- the environment variable that addresses a parameter path -/
def envName (pfx : Bytes) (p : List Seg) : Bytes :=
  p.foldl (fun acc s => acc ++ [95] ++ segName s) pfx

end MtxVerif.C09
