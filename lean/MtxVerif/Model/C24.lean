/-
C24 — timestamp scaling (`multiplyAndDivide*`, `timestampToDuration`, `durationToTimestamp`,
`durationGoToMp4`, `durationMp4ToGo`; 17 copies in /repo).

Go `int64` / `time.Duration` / `int` (64 bit) values are modelled as `Int` with explicit two's
complement wrap-around after every arithmetic operation (`wrap64 = Int.bmod · 2^64`).  Go's `/` and `%`
truncate toward zero (`Int.tdiv`, `Int.tmod`) and panic on a zero divisor (`none`).
`MinInt64 / -1` wraps to `MinInt64` in Go (no panic): `wrap64 (tdiv (-2^63) (-1)) = -2^63`.

`I64.*` are the primitives the translator (tools/xlate/c24) emits; `muldiv` is the canonical body
every three-argument copy must be equal to; `muldivFixed` is the body after the proposed repair
(remainder term computed with a 128-bit intermediate product, Go helper `mulDivTrunc128`).
-/
import MtxVerif.Base.DriverLib

namespace MtxVerif.C24

/-- two's complement int64 wrap-around -/
def wrap64 (x : Int) : Int := Int.bmod x (2 ^ 64)

/-- representable as int64 -/
def InI64 (x : Int) : Prop := -(2 ^ 63) ≤ x ∧ x < 2 ^ 63

instance (x : Int) : Decidable (InI64 x) := by unfold InI64; exact inferInstance

namespace I64

def add (a b : Int) : Int := wrap64 (a + b)
def sub (a b : Int) : Int := wrap64 (a - b)
def mul (a b : Int) : Int := wrap64 (a * b)
def neg (a : Int) : Int := wrap64 (-a)

/-- Go `a / b` on int64: panics when `b = 0`; `MinInt64 / -1` wraps. -/
def div (a b : Int) : Option Int := if b = 0 then none else some (wrap64 (Int.tdiv a b))

/-- Go `a % b` on int64: panics when `b = 0`; the remainder has the sign of `a`. -/
def mod (a b : Int) : Option Int := if b = 0 then none else some (Int.tmod a b)

/-- `int64(x)` / `time.Duration(x)` of a `uint32` value: value preserving. -/
def ofU32 (x : Int) : Int := x

/-- `uint32(x)` of an int64 value: keeps the low 32 bits. -/
def toU32 (x : Int) : Int := x % 2 ^ 32

/-- Proposed-repair primitive: Go helper `mulDivTrunc128(a, b, c)` = `a*b/c` truncated toward zero with a
128-bit intermediate product, result converted to int64 (panics when `c = 0`). -/
def mulDivTrunc128 (a b c : Int) : Option Int :=
  if c = 0 then none else some (wrap64 (Int.tdiv (a * b) c))

end I64

/-- Canonical body of `multiplyAndDivide(v, m, d)`:
`secs := v / d; dec := v % d; return secs*m + dec*m/d`. -/
def muldiv (v m d : Int) : Option Int :=
  if d = 0 then none
  else some (wrap64 (wrap64 (wrap64 (Int.tdiv v d) * m) + wrap64 (Int.tdiv (wrap64 (Int.tmod v d * m)) d)))

/-- Canonical body after the proposed repair: `return secs*m + mulDivTrunc128(dec, m, d)`. -/
def muldivFixed (v m d : Int) : Option Int :=
  if d = 0 then none
  else some (wrap64 (wrap64 (wrap64 (Int.tdiv v d) * m) + wrap64 (Int.tdiv (Int.tmod v d * m) d)))

/-- The canonical body a copy must be equal to: repaired or not (flag emitted by the translator). -/
def canon (fixed : Bool) (v m d : Int) : Option Int :=
  if fixed then muldivFixed v m d else muldiv v m d

/-- The mathematically exact product-then-quotient, truncated toward zero. -/
def exact (v m d : Int) : Int := Int.tdiv (v * m) d

/-- Decidable class of the known finding: the remainder product `(v % d) * m` does not fit in int64. -/
def overflowRegion (v m d : Int) : Bool := !decide (InI64 (Int.tmod v d * m))

/-- The property's domain for the two rates: clock rates / time scales in `1 … 2^32`. -/
def rateOK (r : Int) : Bool := decide (1 ≤ r ∧ r ≤ 2 ^ 32)

def nsPerSec : Int := 1000000000

/-- A call site of a three-argument copy; `m`/`d` are `some c` when the argument is a syntactic
constant.  Filled in by the translator (`Gen.sites`). -/
structure Site where
  copy : String
  file : String
  line : Nat
  m : Option Int
  d : Option Int

def Site.matches (s : Site) (m d : Int) : Bool :=
  (match s.m with | none => true | some c => c == m) &&
  (match s.d with | none => true | some c => c == d)

def Site.oneConst (s : Site) : Bool := s.m.isSome || s.d.isSome

/-- every constant rate argument lies in `1 … 2^31` -/
def Site.constSmall (s : Site) : Bool :=
  (match s.m with | none => true | some c => decide (1 ≤ c ∧ c ≤ 2 ^ 31)) &&
  (match s.d with | none => true | some c => decide (1 ≤ c ∧ c ≤ 2 ^ 31))

/-- How a two-argument wrapper `f(x, rate)` instantiates `(v, m, d)`, by function name. -/
inductive Shape | rateIsD | rateIsM
deriving DecidableEq, Repr

def shapeOf (fn : String) : Option Shape :=
  if fn == "timestampToDuration" then some .rateIsD       -- (t, 1e9, rate)
  else if fn == "durationMp4ToGo" then some .rateIsD      -- (v, 1e9, timeScale)
  else if fn == "durationToTimestamp" then some .rateIsM  -- (d, rate, 1e9)
  else if fn == "durationGoToMp4" then some .rateIsM      -- (v, timeScale, 1e9)
  else none

def Shape.args (s : Shape) (x r : Int) : Int × Int × Int :=
  match s with
  | .rateIsD => (x, nsPerSec, r)
  | .rateIsM => (x, r, nsPerSec)

/-! ### executable spec, evaluated on the implementation's answer

`verdict reachable v m d impl` — `impl` is the int64 the real function returned (`none` = it panicked).
* result not representable, or zero divisor: nothing is claimed;
* implementation equals the exact value: ok;
* otherwise it is a violation.  It is the *known* one iff the operands lie in `overflowRegion` (outside
  that region `muldiv_exact` proves the canonical body exact, so a deviation there is a different bug);
  inside the region it is reported only when both rates are in the property's domain `1 … 2^32` and some
  call site of this copy can pass such a rate pair (`reachable`). -/
inductive Verdict | ok | fail (why : String) | known (why : String)

def verdict (reachable : Bool) (v m d : Int) (impl : Option Int) : Verdict :=
  if d = 0 then
    (match impl with | none => .ok | some _ => .fail "zero divisor did not panic")
  else if impl = none then .fail "panic with a non-zero divisor"
  else
    let e := exact v m d
    if ¬ InI64 e then .ok
    else if impl = some e then .ok
    else if overflowRegion v m d then
      (if rateOK m && rateOK d && reachable then
        .known "remainder product (v%d)*m wraps in int64; result differs from the exact quotient"
       else .ok)
    else .fail "result differs from the exact truncated quotient although (v%d)*m fits in int64"

end MtxVerif.C24
