/-
C23 — RTP re-packetization is size-bounded and lossless
(internal/stream/rtp_encoder.go, sub_stream_format.go `initialize` / `writeUnitInner`,
gortsplib `rtph264.Encoder/Decoder`, `rtpfragmented.Encoder/Decoder`).

(a) MediaMTX's own logic, in full: when an RTP encoder exists (`initialize`), the oversize trigger,
    `rtpTimeOffset`, `pkt.Timestamp += rtpTimeOffset + uint32(u.PTS)`, SSRC / sequence seeding — generic
    over a packetiser given as a function `pack : payload → List Raw`.
(b) Lean models of two packetiser families and their decoders: H264 (single NAL unit packet, STAP-A,
    FU-A) and the generic fragmenter (MPEG-4 Video, MPEG-4 Audio LATM).
Everything else (H265, AV1, VP8/9, audio codecs, KLV) enters only through the contract `PackOK`.
-/
import MtxVerif.Base.DriverLib

namespace MtxVerif.C23

/-- what a packetiser produces for one packet before MediaMTX touches it: marker, payload and the
timestamp it sets relative to the start of the unit (0 for all video packetisers; sample / frame
offsets for LPCM, G711 and multi-frame Opus units) -/
structure Raw where
  marker : Bool
  payload : Bytes
  dts : Nat := 0
deriving Repr, DecidableEq

structure Pkt where
  ssrc : Nat
  seq : Nat      -- uint16
  ts : Nat       -- uint32
  marker : Bool
  payload : Bytes
deriving Repr, DecidableEq

def two16 : Nat := 65536
def two32 : Nat := 4294967296

/-- `uint32(u.PTS)` of an `int64` -/
def u32 (pts : Int) : Nat := (pts % (two32 : Int)).toNat

/-- the encoder numbers its packets consecutively (uint16 wrap-around), timestamp as set by the packetiser -/
def number (ssrc seq : Nat) : List Raw → List Pkt
  | [] => []
  | r :: rest => ⟨ssrc, seq % two16, r.dts % two32, r.marker, r.payload⟩ :: number ssrc (seq + 1) rest

/-- `pkt.Timestamp += rtpTimeOffset + uint32(u.PTS)` (uint32 arithmetic) -/
def stamp (off : Nat) (pts : Int) (p : Pkt) : Pkt :=
  { p with ts := (p.ts + (off + u32 pts) % two32) % two32 }

/-! ### (a) MediaMTX logic -/

structure EncSt where
  ssrc : Nat
  seq : Nat
deriving Repr, DecidableEq

structure SF where
  enc : Option EncSt := none
  timeOffset : Nat := 0
deriving Repr, DecidableEq

structure Cfg where
  max : Nat
  /-- `newRTPEncoder` succeeds for the format -/
  encAvailable : Bool := true
deriving Repr

/-- `subStreamFormat.initialize`: an encoder is created up front for non-RTP publishers, always-available
streams and forced remuxing (H264 packetization-mode 0); its SSRC, first sequence number and
`rtpTimeOffset` are random (`ssrc seq off` stand for the values drawn). -/
def initSF (cfg : Cfg) (s : SF) (useRTPPackets alwaysAvailable forceRemux : Bool) (ssrc seq off : Nat) :
    Option SF :=
  if s.enc.isNone && (!useRTPPackets || alwaysAvailable || forceRemux) then
    if cfg.encAvailable then some { enc := some ⟨ssrc, seq⟩, timeOffset := off } else none
  else some s

inductive WriteErr where
  | tooBig        -- "RTP payload size (%d) is greater than maximum allowed (%d)"
deriving Repr, DecidableEq

structure Out (P : Type) where
  rtp : List Pkt
  payload : Option P

/-- the oversize trigger of `writeUnitInner` (only when the unit carries RTP packets and no encoder exists):
the first packet whose payload exceeds the maximum creates the encoder, seeded with that packet's SSRC and
sequence number, and fixes `rtpTimeOffset = pkt.Timestamp - uint32(u.PTS)`. -/
def trigger (cfg : Cfg) (s : SF) (pts : Int) (inRtp : List Pkt) : Except WriteErr SF :=
  if inRtp.isEmpty then .ok s
  else if s.enc.isSome then .ok s
  else match inRtp.find? (fun p => p.payload.length > cfg.max) with
    | none => .ok s
    | some p =>
      if cfg.encAvailable then
        .ok { enc := some ⟨p.ssrc, p.seq⟩, timeOffset := (p.ts + two32 - u32 pts) % two32 }
      else .error .tooBig

/-- `writeUnitInner` from `len(u.RTPPackets) != 0` down to the encoding.  `inRtp` = incoming packets,
`payload` = the unit's payload (given, or decoded from `inRtp[0]` — decoding is not modelled here),
`remux` = C22, `pack` = the packetiser at the configured maximum (`none` payload = nil). -/
def writeUnit {P : Type} (cfg : Cfg) (remux : P → Option P) (pack : P → List Raw)
    (s : SF) (pts : Int) (inRtp : List Pkt) (payload : Option P) : Except WriteErr (SF × Out P) :=
  match trigger cfg s pts inRtp with
  | .error e => .error e
  | .ok s1 =>
    -- `if rtpEncoder != nil { u.RTPPackets = nil }`
    let rtp1 := if s1.enc.isSome then [] else inRtp
    match payload with
    | none => .ok (s1, ⟨rtp1, none⟩)
    | some pl =>
      match remux pl, s1.enc with
      | some pl', some e =>
        .ok ({ s1 with enc := some ⟨e.ssrc, (e.seq + (pack pl').length) % two16⟩ },
             ⟨(number e.ssrc e.seq (pack pl')).map (stamp s1.timeOffset pts), some pl'⟩)
      | pl', _ => .ok (s1, ⟨rtp1, pl'⟩)

/-- the contract a packetiser must satisfy (at a given maximum) on the payloads in `Valid` -/
structure PackOK {P : Type} (max : Nat) (pack : P → List Raw) (unpack : List Raw → Option P)
    (Valid : P → Prop) : Prop where
  size : ∀ p, Valid p → ∀ r ∈ pack p, r.payload.length ≤ max
  nonempty : ∀ p, Valid p → pack p ≠ []
  roundtrip : ∀ p, Valid p → unpack (pack p) = some p

/-! ### (b1) the generic fragmenter (`rtpfragmented`) -/

/-- pieces of `k` bytes, the last one shorter (never empty); structural recursion on a fuel ≥ length -/
def chunksAux (k : Nat) : Nat → Bytes → List Bytes
  | 0, _ => []
  | fuel + 1, b =>
    if b.length ≤ k then (if b.isEmpty then [] else [b])
    else b.take k :: chunksAux k fuel (b.drop k)

/-- `k = 0` is an integer division by zero in Go (callers guard it) -/
def chunks (k : Nat) (b : Bytes) : List Bytes := if k = 0 then [] else chunksAux k b.length b

/-- marker on the last packet only -/
def markLast : List Bytes → List Raw
  | [] => []
  | [c] => [{ marker := true, payload := c }]
  | c :: rest => { marker := false, payload := c } :: markLast rest

/-- `rtpfragmented.Encoder.Encode` -/
def fragPack (max : Nat) (frame : Bytes) : List Raw := markLast (chunks max frame)

inductive DecRes (α : Type) where
  | more
  | out (a : α)
  | err
deriving Repr, DecidableEq

structure FragDec where
  frags : Bytes := []        -- joined fragments (`fragmentsSize == 0` ⇔ empty)
  next : Nat := 0
deriving Repr, DecidableEq

/-- `rtpfragmented.Decoder.Decode` (the 1 MiB frame limit is an assumption) -/
def fragDecode (d : FragDec) (p : Pkt) : FragDec × DecRes Bytes :=
  if p.payload.isEmpty then (d, .err)
  else if d.frags.isEmpty then
    if p.marker then (d, .out p.payload)
    else ({ frags := p.payload, next := (p.seq + 1) % two16 }, .more)
  else if p.seq != d.next then ({ d with frags := [] }, .err)
  else if p.marker then ({ frags := [], next := (d.next + 1) % two16 }, .out (d.frags ++ p.payload))
  else ({ frags := d.frags ++ p.payload, next := (d.next + 1) % two16 }, .more)

/-- feed all packets of one unit; the result of the last packet -/
def fragDecodeAll (d : FragDec) : List Pkt → FragDec × DecRes Bytes
  | [] => (d, .more)
  | [p] => fragDecode d p
  | p :: rest =>
    match fragDecode d p with
    | (d', .more) => fragDecodeAll d' rest
    | (d', r) => (d', r)

/-! ### (b2) H264 (`rtph264`) -/

abbrev NALU := Bytes

/-- `lenAggregated(nalus, nil)` -/
def lenAgg (b : List NALU) : Nat := 1 + (b.map fun n => 2 + n.length).sum

/-- the batching loop of `Encode`; `cur = []` is Go's `batch == nil` (before the first NAL unit) -/
def splitBatches (max : Nat) : List NALU → List NALU → List (List NALU)
  | cur, [] => [cur]
  | cur, n :: rest =>
    if lenAgg cur + (2 + n.length) ≤ max then splitBatches max (cur ++ [n]) rest
    else if cur.isEmpty then splitBatches max [n] rest
    else cur :: splitBatches max [n] rest

def hi8 (n : Nat) : UInt8 := UInt8.ofNat (n / 256)
def lo8 (n : Nat) : UInt8 := UInt8.ofNat (n % 256)

/-- `writeAggregated` payload -/
def stapA (b : List NALU) : Bytes := 24 :: b.flatMap fun n => hi8 n.length :: lo8 n.length :: n

/-- FU indicator: NRI of the NAL unit, type 28 -/
def fuInd (hdr : UInt8) : UInt8 := (((hdr >>> 5) &&& 3) <<< 5) ||| 28

/-- FU header: S, E, 0, type of the NAL unit -/
def fuB1 (hdr : UInt8) (start fin : Bool) : UInt8 :=
  ((if start then 1 else 0 : UInt8) <<< 7) ||| ((if fin then 1 else 0 : UInt8) <<< 6) ||| (hdr &&& 0x1F)

def fuHdr (hdr : UInt8) (start fin : Bool) : Bytes := [fuInd hdr, fuB1 hdr start fin]

def fuFrags (hdr : UInt8) (start : Bool) : List Bytes → List Bytes
  | [] => []
  | [c] => [fuHdr hdr start true ++ c]
  | c :: rest => (fuHdr hdr start false ++ c) :: fuFrags hdr false rest

/-- `writeFragmented` payloads (FU-A); `max ≥ 3` here -/
def fuA (max : Nat) (n : NALU) : List Bytes := fuFrags (n.headD 0) true (chunks (max - 2) n.tail)

/-- `writeBatch` payloads; `none` = Go panics (`max ≤ 2`: `avail = max - 2 ≤ 0` ⇒ integer division by zero
for `max = 2`, `make` with a negative length for `max = 1` — except the 1-byte NAL unit at `max = 1`, for which
`make([]*rtp.Packet, 0)` silently yields no packet) -/
def batchPayloads (max : Nat) : List NALU → Option (List Bytes)
  | [n] =>
    if n.length < max then some [n]
    else if max ≤ 2 then (if max == 1 && n.length == 1 then some [] else none)
    else some (fuA max n)
  | b => some [stapA b]

def allSome {α : Type} : List (Option (List α)) → Option (List α)
  | [] => some []
  | none :: _ => none
  | some x :: rest => (allSome rest).map (x ++ ·)

/-- `rtph264.Encoder.Encode`: the marker is set on the last packet of the last batch -/
def h264Pack (max : Nat) (au : List NALU) : Option (List Raw) :=
  (allSome ((splitBatches max [] au).map (batchPayloads max))).map markLast

/-- `bytes.Index(b, pat) ≥ 0` -/
def containsSeq (pat : Bytes) : Bytes → Bool
  | [] => pat.isEmpty
  | x :: r => pat.isPrefixOf (x :: r) || containsSeq pat r

/-- a NAL unit of a valid H.264 stream: not empty, forbidden_zero_bit clear, a type that is not one of the
RTP aggregation / fragmentation types 24–29, and (emulation prevention) no start code inside -/
def cleanNALU (n : NALU) : Bool :=
  !n.isEmpty && (n.headD 0 &&& 0x80) == 0 &&
  !(24 ≤ (n.headD 0 &&& 0x1F).toNat && (n.headD 0 &&& 0x1F).toNat ≤ 29) &&
  !containsSeq [0, 0, 1] n && n.length < two16

structure H264Dec where
  frag : Option Bytes := none     -- NAL unit under reassembly (header restored + data so far)
  next : Nat := 0
  frame : List NALU := []         -- frameBuffer
  unmodelled : Bool := false      -- Annex-B mode: not modelled
deriving Repr, DecidableEq

/-- STAP-A body → NAL units (`none` = invalid) -/
def parseStap : Nat → Bytes → Option (List NALU)
  | 0, _ => none
  | fuel + 1, b =>
    match b with
    | h :: l :: rest =>
      let size := h.toNat * 256 + l.toNat
      if size == 0 then (if rest.all (· == 0) then some [] else none)
      else if size > rest.length then none
      else
        let n := rest.take size
        let rest' := rest.drop size
        if rest'.isEmpty then some [n]
        else (parseStap fuel rest').map (n :: ·)
    | _ => none

/-- `splitNALUs` + `removeAnnexB` are the identity on data without start codes; anything else is flagged -/
def afterFU (d : H264Dec) (n : Bytes) : H264Dec × DecRes (List NALU) :=
  if containsSeq [0, 0, 1] n then ({ d with frag := none, unmodelled := true }, .err)
  else ({ d with frag := none }, .out [n])

/-- `decodeNALUs`: NAL units completed by this packet -/
def h264Nalus (d : H264Dec) (p : Pkt) : H264Dec × DecRes (List NALU) :=
  match p.payload with
  | [] => ({ d with frag := none }, .err)
  | b0 :: rest =>
    let typ := (b0 &&& 0x1F).toNat
    if typ == 28 then
      match rest with
      | [] => (d, .err)
      | b1 :: data =>
        let start := (b1 >>> 7) == 1
        let fin := ((b1 >>> 6) &&& 1) == 1
        if start then
          let n : Bytes := ((((b0 >>> 5) &&& 3) <<< 5) ||| (b1 &&& 0x1F)) :: data
          if fin then afterFU d n
          else ({ d with frag := some n, next := (p.seq + 1) % two16 }, .more)
        else
          match d.frag with
          | none => (d, .err)
          | some acc =>
            if p.seq != d.next then ({ d with frag := none }, .err)
            else if fin then afterFU d (acc ++ data)
            else ({ d with frag := some (acc ++ data), next := (d.next + 1) % two16 }, .more)
    else if typ == 24 then
      match parseStap (rest.length + 1) rest with
      | some (n :: ns) => ({ d with frag := none }, .out (n :: ns))
      | _ => ({ d with frag := none }, .err)
    else if typ == 25 || typ == 26 || typ == 27 || typ == 29 then ({ d with frag := none }, .err)
    else
      -- single NAL unit packet; Annex-B detection (`00 00 00 01` inside) is not modelled
      if containsSeq [0, 0, 0, 1] p.payload then ({ d with frag := none, unmodelled := true }, .err)
      else ({ d with frag := none }, .out [p.payload])

/-- `Decode` for packets of ONE unit (same timestamp): NAL units are collected until the marker.  The limits
(50 NAL units, 8 MiB per access unit) are assumptions. -/
def h264Decode (d : H264Dec) (p : Pkt) : H264Dec × DecRes (List NALU) :=
  if d.unmodelled then (d, .err) else
  match h264Nalus d p with
  | (d', .out ns) =>
    if p.marker then ({ d' with frame := [] }, .out (d'.frame ++ ns))
    else ({ d' with frame := d'.frame ++ ns }, .more)
  | (d', .more) => (d', .more)
  | (d', .err) => (d', .err)

def h264DecodeAll (d : H264Dec) : List Pkt → H264Dec × DecRes (List NALU)
  | [] => (d, .more)
  | [p] => h264Decode d p
  | p :: rest =>
    match h264Decode d p with
    | (d', .more) => h264DecodeAll d' rest
    | (d', r) => (d', r)

/-! ### (b3) Opus (`rtpEncoderOpus.encode` in rtp_encoder.go — MediaMTX's own code around `rtpsimpleaudio`)

Every Opus packet of the unit becomes one RTP packet (payload = the packet, no marker); packet `i` is stamped
with the summed durations of the packets before it (`pts += opus.PacketDuration2(packet)`), in 1/48000 s. -/

/-- `frameSizes[pkt[0]>>3]` (RFC 6716 §3.1) -/
def opusFrameSizes : List Nat :=
  [480, 960, 1920, 2880, 480, 960, 1920, 2880, 480, 960, 1920, 2880, 480, 960, 480, 960,
   120, 240, 480, 960, 120, 240, 480, 960, 120, 240, 480, 960, 120, 240, 480, 960]

/-- `opus.PacketDuration2` -/
def opusDur (pkt : Bytes) : Nat :=
  match pkt with
  | [] => 0
  | b0 :: rest =>
    let fd := opusFrameSizes.getD (b0 >>> 3).toNat 0
    match (b0 &&& 3).toNat, rest with
    | 0, _ => fd
    | 1, _ => fd * 2
    | 2, _ => fd * 2
    | _, [] => 0
    | _, b1 :: _ => fd * (b1 &&& 63).toNat

def opusPackFrom (acc : Nat) : List Bytes → List Raw
  | [] => []
  | p :: rest => { marker := false, payload := p, dts := acc } :: opusPackFrom (acc + opusDur p) rest

def opusPack (pkts : List Bytes) : List Raw := opusPackFrom 0 pkts

/-- the depacketiser: one Opus packet per RTP packet -/
def opusUnpack (raws : List Raw) : Option (List Bytes) := some (raws.map (·.payload))

/-! ### the whole life of a stream format: several sub streams (always-available paths)

`streamFormat` (encoder, `rtpTimeOffset`) belongs to the STREAM; every sub stream (offline filler, publisher,
filler again, next publisher …) runs `initialize` against it and then writes units through it. -/

inductive LifeEv (P : Type) where
  /-- a new sub stream is initialised (`ssrc seq off` = the random values it would draw) -/
  | sub (useRTPPackets alwaysAvailable forceRemux : Bool) (ssrc seq off : Nat)
  | unit (pts : Int) (inRtp : List Pkt) (payload : Option P)

def lifeStep {P : Type} (cfg : Cfg) (remux : P → Option P) (pack : P → List Raw) (s : SF) :
    LifeEv P → Option SF
  | .sub a b c ssrc seq off => initSF cfg s a b c ssrc seq off
  | .unit pts inRtp payload =>
    match writeUnit cfg remux pack s pts inRtp payload with
    | .ok (s', _) => some s'
    | .error _ => some s      -- the unit is dropped before anything changed

def lifeRun {P : Type} (cfg : Cfg) (remux : P → Option P) (pack : P → List Raw) :
    SF → List (LifeEv P) → Option SF
  | s, [] => some s
  | s, e :: rest => (lifeStep cfg remux pack s e).bind fun s' => lifeRun cfg remux pack s' rest

/-- executable spec over the units a reader receives during the whole life of a stream whose packets
are all generated by the server: one SSRC, consecutive sequence numbers across units and sub streams,
`timestamp − uint32(unit timestamp)` one constant. -/
structure LifeSt where
  ssrc : Nat
  next : Nat
  off : Nat
deriving Repr

/-- one delivered unit: its timestamp and its packets `(seq, ts, payload length)`; `sameTs` = video codec
(all packets of the unit carry the same timestamp) -/
def lifeUnit (max : Nat) (sameTs : Bool) (st : Option LifeSt) (pts : Int) (ssrc : Nat)
    (pkts : List (Nat × Nat × Nat)) : Except String (Option LifeSt) :=
  match pkts with
  | [] => .ok st
  | (seq0, ts0, _) :: _ =>
    let off := (ts0 + two32 - u32 pts) % two32
    if pkts.any (fun p => p.2.2 > max) then .error "a generated payload exceeds the configured maximum"
    else if !(pkts.zipIdx.all fun (p, i) => p.1 == (seq0 + i) % two16) then
      .error "sequence numbers inside a unit are not consecutive"
    else if sameTs && pkts.any (fun p => p.2.1 != ts0) then
      .error "packets of one unit carry different timestamps"
    else
      let st' : LifeSt := ⟨ssrc, (seq0 + pkts.length) % two16, off⟩
      match st with
      | none => .ok (some st')
      | some s =>
        if s.ssrc != ssrc then .error s!"SSRC changed from {s.ssrc} to {ssrc} during the life of the stream"
        else if s.next != seq0 then
          .error s!"sequence numbers are not consecutive across units / sub streams (expected {s.next}, got {seq0})"
        else if s.off != off then
          .error s!"timestamp - unit timestamp changed from {s.off} to {off}: the per-format offset is not fixed over the life of the stream"
        else .ok (some st')

/-! ### finding F-C23-av1: length-level model of `rtpav1.Encoder.Encode`, only to DECIDE the class

The AV1 packetiser itself is not modelled (contract only).  This simulation follows its space accounting
(`avail`, `needed`, `omitSize`, fragment lengths) and reports whether it ever closes a packet with the
"continues in the next packet" flag although NO byte of the pending OBU was placed in it (`avail = 0`, or
`avail ≤ LEB128 size of max` for a length-prefixed element): the next packet then starts with `Z = 1` and the
depacketiser glues the new OBU to the previous one. -/

def lebSize (n : Nat) : Nat := if n < 128 then 1 else if n < 16384 then 2 else if n < 2097152 then 3 else 4

/-- `cur` = bytes in the current packet, `inPkt` = `obusInPacket`, `rem` = bytes of the current OBU still to
place, `isLast` = it is the last OBU of the unit.  Returns true iff the no-room case is hit. -/
def av1NoRoomObu (max : Nat) : Nat → Nat → Nat → Nat → Bool → (Bool × Nat × Nat)
  | 0, cur, inPkt, _, _ => (false, cur, inPkt)
  | fuel + 1, cur, inPkt, rem, isLast =>
    let avail := max - cur
    let om := isLast && inPkt < 3
    let needed := if om then rem else rem + lebSize rem
    if needed ≤ avail then (false, cur + needed, if om then inPkt else inPkt + 1)
    else if om then
      if avail > 0 then av1NoRoomObu max fuel 1 0 (rem - avail) isLast
      else (true, 1, 0)
    else
      if avail > lebSize max then av1NoRoomObu max fuel 1 0 (rem - (avail - lebSize max)) isLast
      else (true, 1, 0)

def av1NoRoomAux (max : Nat) : Nat → Nat → List Nat → Bool
  | _, _, [] => false
  | cur, inPkt, [l] => (av1NoRoomObu max (l + 8) cur inPkt l true).1
  | cur, inPkt, l :: rest =>
    let r := av1NoRoomObu max (l + 8) cur inPkt l false
    r.1 || av1NoRoomAux max r.2.1 r.2.2 rest

/-- decidable class of F-C23-av1 -/
def av1NoRoom (max : Nat) (obus : List Bytes) : Bool := av1NoRoomAux max 1 0 (obus.map (·.length))

end MtxVerif.C23
