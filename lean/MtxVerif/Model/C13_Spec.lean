/-
C13 — the generated table of the real code, the recorded finding classes, and the executable spec the
driver evaluates on the implementation's observations.
-/
import MtxVerif.Model.C13
import MtxVerif.Gen.C13

namespace MtxVerif.C13
open MtxVerif.Gen.C13

/-- the real table, latest first -/
def L : List Row := rows.reverse

/-- Finding class `uncomparedRead`: constructor fields of the RTSPS server that closeRTSPSServer does
not compare (it was copied from closeRTSPServer, which compares the RTP/RTCP/multicast fields of the
plain server). -/
def knownGaps : List (Nat × Nat) :=
  [(K_rtspsServer, F_SRTPAddress), (K_rtspsServer, F_SRTCPAddress), (K_rtspsServer, F_MulticastIPRange),
   (K_rtspsServer, F_MulticastSRTPPort), (K_rtspsServer, F_MulticastSRTCPPort)]

/-- Finding class `ptrIdentityCmp`: `newConf.RTSPUDPReadBufferSize != currentConf.RTSPUDPReadBufferSize`
compares two `*uint`. -/
def knownIdentity : List (Nat × Nat) :=
  [(K_rtspServer, F_RTSPUDPReadBufferSize), (K_rtspsServer, F_RTSPUDPReadBufferSize)]

/-! ### driver support -/

def idxOf? (l : List String) (s : String) : Option Nat :=
  let i := l.idxOf s
  if i < l.length then some i else none

def fieldIds (names : List String) : List Nat := names.filterMap (idxOf? fieldNames)
def compIds (names : List String) : List Nat := names.filterMap (idxOf? compNames)
def compName (k : Nat) : String := compNames.getD k "?"
def fieldName (f : Nat) : String := fieldNames.getD f "?"

/-- the abstract configurations of one observed reload: `chg` = fields whose value changed,
`ptr` = pointer-typed fields whose pointer changed -/
def oldConf : Conf := { val := fun _ => 0, addr := fun _ => 0 }
def newConf (chg ptr : List Nat) : Conf :=
  { val := fun f => if chg.contains f then 1 else 0,
    addr := fun f => if chg.contains f || ptr.contains f then 1 else 0 }

def stOf (running : List Nat) : St :=
  { conf := oldConf,
    run := fun k => if running.contains k then some { id := k, args := fun _ => 0, refs := fun _ => none } else none,
    next := 1000 }

def lifeOf (a b : Option Inst) : String :=
  match a, b with
  | none, none => "off"
  | none, some _ => "started"
  | some _, none => "stopped"
  | some i, some j => if i.id = j.id then "kept" else "recreated"

/-- the model's prediction of what happens to every component -/
def predictLife (running chg ptr fresh : List Nat) : List (Nat × String) :=
  let s := stOf running
  let s' := reloadG L (fun k => fresh.contains k) s (newConf chg ptr)
  (comps rows).map fun k => (k, lifeOf (s.run k) (s'.run k))

def fmtLife (l : List (Nat × String)) : String :=
  ",".intercalate (l.map fun (k, v) => compName k ++ ":" ++ v)

/-- second half of the property on the implementation's observation: a component that was closed
although none of its parameters changed value.  `KNOWN ptrIdentityCmp` exactly when a pointer compared
by identity in its close closure was re-allocated and that comparison is a recorded one. -/
def specKeeps (life : List (Nat × String)) (chg ptr fresh : List Nat) : String :=
  let bad := life.filterMap fun (k, v) =>
    let runningAfter := v == "kept" || v == "recreated" || v == "started"
    if runningAfter != fresh.contains k then
      some (false, s!"{compName k} is {v} but a cold start with the new configuration " ++
        (if fresh.contains k then "runs it" else "does not run it"))
    else if v == "recreated" || v == "stopped" then
      if (paramClosure L k).any chg.contains then none
      else
        let idf := (identityClosure L k).filter ptr.contains
        let known := idf.any fun f => knownIdentity.any fun (_, g) => g == f
        some (known && (identityCmps L).all knownIdentity.contains,
          s!"{compName k} {v} although none of its parameters changed" ++
          (if idf.isEmpty then "" else s!" (pointer identity of {fieldName (idf.headD 0)} compared)"))
    else none
  match bad.find? (fun b => !b.1) with
  | some (_, m) => "FAIL " ++ m
  | none =>
    match bad with
    | (_, m) :: _ => "KNOWN ptrIdentityCmp " ++ m
    | [] => "ok"

/-- first half of the property on the implementation's observation: `stale` lists
`component.structField` whose value differs from a cold start with the current configuration,
`badref` lists component pointers that do not point to the current instance. -/
def specApplies (stale badref : List String) : String :=
  if let b :: _ := badref then
    "FAIL " ++ b ++ " does not point to the current instance"
  else
    let cls := stale.map fun e =>
      match e.splitOn "." with
      | [cn, fld] =>
        match idxOf? compNames cn with
        | some k =>
          let fs := ((argMaps.lookup k).getD []).lookup fld |>.getD []
          let known := fs.any fun f => knownGaps.contains (k, f) && (actualGaps L).contains (k, f)
          (known, e)
        | none => (false, e)
      | _ => (false, e)
    match cls.find? (fun c => !c.1) with
    | some (_, e) => "FAIL " ++ e ++ " still has the old value after the reload"
    | none =>
      match cls with
      | (_, e) :: _ => "KNOWN uncomparedRead " ++ e ++ " still has the old value after the reload"
      | [] => "ok"

end MtxVerif.C13
