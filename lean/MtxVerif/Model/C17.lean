/-
C17 — readers get the publisher's units in order; drops are counted
(internal/stream/stream.go AddReader/RemoveReader, reader.go start/run/runInner/push/stop,
sub_stream_format.go writeUnitInner fan-out).

Atomic-step model.  One reader = a bounded FIFO (gortsplib `ringbuffer`, trusted contract: `Push`
returns false iff all `size` slots are occupied, `Pull` hands out the oldest item and frees its slot
BEFORE the callback runs, `Close` clears the slots and makes `Pull` fail) plus the goroutine `run`,
which is either idle (blocked in `Pull` on an empty buffer), inside a callback (`infl`), or finished
(`dead`: a callback returned an error; the goroutine blocks on `r.err <-`).

Events: `add` (AddReader of a fresh Reader), `write` (SubStream.WriteUnit → writeUnitInner fan-out:
`sr.push` for every reader registered for that format), `done`/`fail` (the callback in flight returns
nil / an error), `remove` (RemoveReader: detach under the stream mutex, `buffer.Close()`, wait for the
goroutine).  An idle live goroutine pulls as soon as an item is queued: `settle` is applied inside the
same atomic step (the harness waits for exactly this quiescence).

`delivered` records a unit at the moment its callback is ENTERED.  `written`, `dropped` are ghost
fields (history variables) used by the theorems.
-/
import MtxVerif.Model.C22

namespace MtxVerif.C17

structure U where
  fmt : Nat
  tag : Nat
  /-- format 3 (MPEG-4 Video) only: the remuxed frame (C22) — it depends on the configuration the format
  had when the unit was written, so the event carries it; `[]` for the other formats, whose delivered
  payload is a function of `(fmt, tag)` -/
  data : Bytes := []
deriving Repr, DecidableEq, BEq

structure Rd where
  id : Nat
  subs : List Nat
  cap : Nat
  attached : Bool := true
  dead : Bool := false
  q : List U := []
  infl : Option U := none
  delivered : List U := []
  discarded : Nat := 0
  /-- ghost: every unit written to a subscribed format while attached -/
  written : List U := []
  /-- ghost: units that were still queued when the reader was removed (`RingBuffer.Close` clears them) -/
  dropped : Nat := 0
deriving Repr

inductive Ev where
  | add (r : Nat) (subs : List Nat)
  | write (f : Nat) (tag : Nat) (data : Bytes)
  | done (r : Nat)
  | fail (r : Nat)
  | remove (r : Nat)
deriving Repr

structure St where
  cap : Nat
  rds : List Rd := []
deriving Repr

/-- the goroutine is blocked in `Pull`: attached, loop alive, not inside a callback -/
def Rd.idle (r : Rd) : Bool := r.attached && !r.dead && r.infl.isNone

/-- `runInner`: an idle goroutine pulls the oldest queued callback and enters it -/
def Rd.settle (r : Rd) : Rd :=
  if r.idle then
    match r.q with
    | u :: rest => { r with q := rest, infl := some u, delivered := r.delivered ++ [u] }
    | [] => r
  else r

/-- `sr.push(cb)` for one registered reader: `Push` fails iff the buffer holds `cap` items -/
def Rd.push (r : Rd) (u : U) : Rd :=
  if r.attached && r.subs.contains u.fmt then
    if r.q.length < r.cap then
      ({ r with written := r.written ++ [u], q := r.q ++ [u] }).settle
    else { r with written := r.written ++ [u], discarded := r.discarded + 1 }
  else r

/-- the callback in flight returns nil -/
def Rd.done (r : Rd) : Rd :=
  if r.infl.isSome then ({ r with infl := none }).settle else r

/-- the callback in flight returns an error: `runInner` returns, the loop is over -/
def Rd.fail (r : Rd) : Rd :=
  if r.infl.isSome then { r with infl := none, dead := true } else r

/-- `RemoveReader`: no more pushes, queued callbacks are cleared, the callback in flight (already
delivered) finishes, `stop()` returns after the goroutine has ended -/
def Rd.remove (r : Rd) : Rd :=
  if r.attached then
    { r with attached := false, q := [], infl := none, dropped := r.dropped + r.q.length }
  else r

def onReader (id : Nat) (f : Rd → Rd) (rds : List Rd) : List Rd :=
  rds.map fun r => if r.id == id then f r else r

def step (s : St) : Ev → St
  | .add id subs =>
    if s.rds.any (·.id == id) then s
    else { s with rds := s.rds ++ [{ id := id, subs := subs, cap := s.cap }] }
  | .write f tag data => { s with rds := s.rds.map (·.push ⟨f, tag, data⟩) }
  | .done id => { s with rds := onReader id Rd.done s.rds }
  | .fail id => { s with rds := onReader id Rd.fail s.rds }
  | .remove id => { s with rds := onReader id Rd.remove s.rds }

def run (s : St) (evs : List Ev) : St := evs.foldl step s

def get (s : St) (id : Nat) : Option Rd := s.rds.find? (·.id == id)

/-! ### payloads used by the correspondence run

format 0 = H264: the harness writes `[AUD, non-IDR slice carrying the tag]`, the reader must see the
remuxed unit (C22: the slice only); format ≥ 1: opaque single-buffer payload carrying format and tag. -/

def tagBytes (f tag : Nat) : Bytes := [UInt8.ofNat f, UInt8.ofNat (tag / 256), UInt8.ofNat (tag % 256)]

def writtenAU (tag : Nat) : C22.AU := [[0x09, 0xF0], 0x41 :: tagBytes 0 tag]

/-- format 3 = MPEG-4 Video; the frame written for `tag`: `tag % 4 = 0` key frame with an in-band configuration
(configuration byte changes every 4 tags), `1, 2` key frame starting with a GOV (no configuration: the remuxer
must put the current one in front), `3` plain VOP.  GOV frames + configuration are not longer than a frame
with in-band configuration (so that a remuxer building frames inside an old buffer would fit). -/
def writtenM4V (tag : Nat) : Bytes :=
  let t := tagBytes 3 tag
  match tag % 4 with
  | 0 => [0, 0, 1, 0xB0, UInt8.ofNat ((tag / 4) % 3 + 1), 0, 0, 1, 0xB3] ++ t ++ [0, 0, 1, 0xB6, 7]
  | 3 => [0, 0, 1, 0xB6] ++ t
  | _ => [0, 0, 1, 0xB3] ++ t ++ [0, 0, 1, 0xB6, 7]

/-- what a reader must see for unit `(f, tag)`: "unmodified after remuxing" -/
def expectedPayload (u : U) : String :=
  if u.fmt = 0 then
    match (C22.step264 ⟨none, none⟩ (writtenAU u.tag)).2 with
    | .ok au => ".".intercalate (au.map Hex.encode)
    | .panic => "panic"
  else if u.fmt = 3 then Hex.encode u.data
  else Hex.encode (tagBytes u.fmt u.tag)

/-! ### executable spec, evaluated on the implementation's answers

Per reader, from the op lines and the implementation's own answers only: what was written to it, what
it reported as delivered (in order), its discard counter, whether it is inside a callback. -/

structure SRd where
  id : Nat
  subs : List Nat
  attached : Bool := true
  dead : Bool := false
  infl : Bool := false
  written : List U := []     -- since add
  nDelivered : Nat := 0
  lastPos : Nat := 0         -- position in `written` after the last delivered unit
  discarded : Nat := 0
  /-- payloads as the implementation reported them when the callbacks were entered, in order -/
  got : List String := []
deriving Repr

structure Spec where
  cap : Nat
  rds : List SRd := []
deriving Repr

/-- a delivery reported by the implementation: reader, format the callback was registered for, payload -/
structure Dlv where
  r : Nat
  f : Nat
  payload : String
deriving Repr

def SRd.pending (r : SRd) : Nat := r.written.length - r.nDelivered - r.discarded

/-- position (1-based end) of the first unit after `from` whose expected payload is `p` -/
def findFrom (l : List U) (start : Nat) (f : Nat) (p : String) : Option Nat :=
  let rec go (i : Nat) : List U → Option Nat
    | [] => none
    | u :: rest => if i ≥ start && u.fmt == f && expectedPayload u == p then some (i + 1) else go (i + 1) rest
  go 0 l

/-- check the deliveries of one op against one reader; returns the updated reader or a reason -/
def SRd.deliver (r : SRd) (d : Dlv) : Except String SRd :=
  if !r.attached then .error s!"callback of reader {r.id} ran after RemoveReader returned"
  else if r.infl then .error s!"reader {r.id}: a second callback was entered while one is in flight"
  else if r.dead then .error s!"reader {r.id}: callback ran after its loop ended with an error"
  else if !r.subs.contains d.f then .error s!"reader {r.id} got a unit of format {d.f} it did not subscribe to"
  else match findFrom r.written r.lastPos d.f d.payload with
    | none => .error s!"reader {r.id}: delivered unit was not written to format {d.f} after the previously delivered one (reordered, duplicated, modified or foreign)"
    | some p => .ok { r with infl := true, nDelivered := r.nDelivered + 1, lastPos := p, got := r.got ++ [d.payload] }

def applyDeliveries (rds : List SRd) : List Dlv → Except String (List SRd)
  | [] => .ok rds
  | d :: rest =>
    match rds.find? (·.id == d.r) with
    | none => .error s!"delivery to unknown reader {d.r}"
    | some r =>
      match r.deliver d with
      | .error e => .error e
      | .ok r' => applyDeliveries (rds.map fun x => if x.id == d.r then r' else x) rest

/-- counters reported by the implementation after the op; `wf` = format written by this op (if any) -/
def checkCounters (cap : Nat) (wf : Option Nat) (before : List SRd) (rds : List SRd) (cs : List (Nat × Nat)) :
    Except String (List SRd) :=
  rds.mapM fun r =>
    match cs.find? (·.1 == r.id), before.find? (·.id == r.id) with
    | some (_, c), some b =>
      if c == r.discarded then .ok r
      else if c != r.discarded + 1 then .error s!"reader {r.id}: discard counter went from {r.discarded} to {c} in one step"
      else match wf with
        | none => .error s!"reader {r.id}: discard counted in a step that wrote nothing"
        | some f =>
          if !(b.attached && b.subs.contains f) then .error s!"reader {r.id}: discard counted for a unit not written to it"
          -- queue occupancy before this write, from the implementation's own history
          else if b.pending - 1 < cap then .error s!"reader {r.id}: unit skipped although its queue held only {b.pending - 1} of {cap}"
          else .ok { r with discarded := c }
    | _, _ => .error s!"reader {r.id}: no discard counter reported"

/-- quiescence: an attached live reader that is not inside a callback has nothing queued -/
def checkQuiescent (rds : List SRd) : Except String Unit :=
  match rds.find? (fun r => r.attached && !r.dead && !r.infl && r.pending > 0) with
  | some r => .error s!"reader {r.id} is idle but {r.pending} unit(s) written to it were neither delivered nor counted as discarded"
  | none => .ok ()

def Spec.step (s : Spec) (ev : Ev) (ds : List Dlv) (cs : List (Nat × Nat)) : Except String Spec := do
  -- 1. apply the op itself
  let rds1 : List SRd :=
    match ev with
    | .add id subs => if s.rds.any (·.id == id) then s.rds else s.rds ++ [{ id := id, subs := subs }]
    | .write f tag data => s.rds.map fun r =>
        if r.attached && r.subs.contains f then { r with written := r.written ++ [⟨f, tag, data⟩] } else r
    | .done id => s.rds.map fun r => if r.id == id then { r with infl := false } else r
    | .fail id => s.rds.map fun r => if r.id == id && r.infl then { r with infl := false, dead := true } else r
    | .remove id => s.rds.map fun r => if r.id == id then { r with attached := false, infl := false } else r
  -- 2. deliveries reported for this op
  let rds2 ← applyDeliveries rds1 ds
  -- 3. counters
  let wf := match ev with | .write f _ _ => some f | _ => none
  let rds3 ← checkCounters s.cap wf rds1 rds2 cs
  -- 4. nothing left behind
  checkQuiescent rds3
  pure { s with rds := rds3 }

/-! ### publisher switch (always-available streams: the only streams whose sub stream can be replaced)

`SubStream.WriteUnit` takes `Stream.mutex.RLock()`, checks `Stream.subStream == ss` and dispatches — one atomic
step w.r.t. `SubStream.Initialize`, which installs the new sub stream under `Stream.mutex.Lock()`.  Publishers are
numbered in the order they took over (0 = the offline filler). -/

structure PubSt where
  cur : Nat := 0
deriving Repr

inductive PubEv where
  /-- a new publisher's sub stream is initialised and becomes the current one -/
  | pub
  /-- publisher `p` writes a unit -/
  | write (p tag : Nat)
  /-- publisher `p` starts a write while the replacing `Initialize` is already waiting for the stream lock:
  the write can only take effect after the switch -/
  | race (p tag : Nat)
deriving Repr

/-- new state and the tag delivered to the readers (if any) -/
def pubStep (s : PubSt) : PubEv → PubSt × Option Nat
  | .pub => ({ cur := s.cur + 1 }, none)
  | .write p tag => (s, if p == s.cur then some tag else none)
  | .race p tag => ({ cur := s.cur + 1 }, if p == s.cur + 1 then some tag else none)

/-! ### RTP publishers on an always-available stream: the depacketiser state belongs to the publisher's sub stream

An RTP publisher's packets are collected until the marker; a publisher that takes over starts with a fresh
depacketiser — data a previous publisher left incomplete never shows up in the new publisher's units. -/

structure RtpSt where
  cur : Option Nat := none      -- index of the current RTP publisher (none: the offline filler runs)
  n : Nat := 0                  -- publishers so far
  pending : List Nat := []      -- tags of the NAL units collected since the last marker
deriving Repr

inductive RtpEv where
  /-- a new RTP publisher takes over and sends one priming packet (tag 65535, marker set) -/
  | pubr
  /-- the publisher leaves, the offline sub stream takes over -/
  | off
  /-- publisher `p` sends a single-NAL-unit packet carrying `tag` -/
  | rtp (p tag : Nat) (marker : Bool)
deriving Repr

/-- new state and the access unit (tags) delivered to the readers, if any -/
def rtpStep (s : RtpSt) : RtpEv → RtpSt × Option (List Nat)
  | .pubr => ({ cur := some (s.n + 1), n := s.n + 1, pending := [] }, some [65535])
  | .off => ({ s with cur := none, pending := [] }, none)
  | .rtp p tag marker =>
    if s.cur == some p then
      if marker then ({ s with pending := [] }, some (s.pending ++ [tag]))
      else ({ s with pending := s.pending ++ [tag] }, none)
    else (s, none)

/-- the retained units, re-read at the end of the history: `reader:payload/payload/…;…` -/
def fmtRetained (l : List (Nat × List String)) : String :=
  if l.isEmpty then "k=-" else
  "k=" ++ ";".intercalate (l.map fun (r, ps) => s!"{r}:{if ps.isEmpty then "-" else "/".intercalate ps}")

end MtxVerif.C17
