/-
C41 — TLS fingerprint pinning (internal/protocols/tls/make_config.go).

`MakeConfig(fp)` for `fp ≠ ""` sets `InsecureSkipVerify` and a `VerifyConnection` callback that accepts
iff `hex(sha256(leaf.Raw)) == strings.ToLower(fp)`.  SHA-256 and hex encoding are oracles: the model
receives `hash` = the 64 lower-case hex characters of the leaf's digest.  `strings.ToLower` is modelled on
ASCII; for a fingerprint with a non-ASCII byte Go lower-cases rune-wise, and no non-ASCII rune lower-cases
to a hex digit (checked exhaustively over all runes by the harness on every run), so such a fingerprint
can never equal a digest: the model rejects.
-/
import MtxVerif.Base.DriverLib

namespace MtxVerif.C41

def lowerByte (c : UInt8) : UInt8 := if 65 ≤ c ∧ c ≤ 90 then c + 32 else c

def isLowerHex (c : UInt8) : Bool := (48 ≤ c && c ≤ 57) || (97 ≤ c && c ≤ 102)

/-- the comparison made by `VerifyConnection` -/
def accept (fp hash : Bytes) : Bool :=
  fp.all (fun c => c < 128) && fp.map lowerByte == hash

/-- spec: case-insensitive (ASCII) equality, defined independently of `accept` -/
def ciEq : Bytes → Bytes → Bool
  | [], [] => true
  | a :: as, b :: bs => (a == b || (a < 128 && b < 128 && lowerByte a == lowerByte b)) && ciEq as bs
  | _, _ => false

end MtxVerif.C41
