/-
C04 — administrative HTTP endpoints enforce their permission
(internal/api/api.go, internal/metrics/metrics.go, internal/pprof/pprof.go, internal/playback/server.go).

Model of the fragment of gin's handler-chain semantics the four servers use:

* `Context.Next` = `for c.index < len(c.handlers) { c.handlers[c.index](c); c.index++ }`, and every
  `Abort…` sets `c.index` past the end: the chain stops at the first handler that aborts (`run`).
  None of the middlewares calls `Next` itself.
* `middlewarePreflightRequests` (same text in all four servers): OPTIONS with a non-empty
  `Access-Control-Request-Method` header ⇒ two literal headers, `AbortWithStatus(204)`, no body.
* `middlewareAuth` (api, metrics, pprof): build `auth.Request{Action: <constant>, Query, Credentials, IP}`,
  `AuthManager.Authenticate`; on error optionally `WWW-Authenticate`, then
  `writeErrorNoLog(ctx, 401, "authentication error")` = `AbortWithStatusJSON` ⇒ constant body, abort.
* playback has no auth middleware: `onList`/`onGet` start with
  `IsValidPathName(query path)` (400 + abort on failure) and `doAuth(ctx, pathName)` (same as the middleware,
  with `Path: pathName`), and only then do anything else (`guarded`).

The authentication manager is a PARAMETER (`auth : AuthReq → AuthRes`); handlers and unknown middlewares
are arbitrary functions on the context.  What a handler can put into a response is abstracted to
`Chunk.data` / `effects` (state changes); the denial and preflight responses are built from constants only.
-/
import MtxVerif.Base.DriverLib

namespace MtxVerif.C04

inductive Action | publish | read | playback | api | metrics | pprof
deriving DecidableEq, Repr

inductive Srv | api | metrics | pprof | playback
deriving DecidableEq, Repr

/-- the permission the property demands for each server -/
def Srv.action : Srv → Action
  | .api => .api | .metrics => .metrics | .pprof => .pprof | .playback => .playback

def Srv.name : Srv → String
  | .api => "api" | .metrics => "metrics" | .pprof => "pprof" | .playback => "playback"

/-! ### facts regenerated from the source (types of `Gen/C04.lean`) -/

/-- kind of a middleware function, by pattern match on its body (tools/xlate/c04) -/
inductive Mw | preflight | auth | other
deriving DecidableEq, Repr

structure RouteF where
  method : String
  path : String
  handler : String
  /-- kinds of the middlewares gin runs before the handler, in order -/
  mws : List Mw
  /-- the handler body starts with the playback guard (valid path name, then `doAuth(ctx, pathName)`) -/
  guarded : Bool
deriving Repr

structure ServerF where
  srv : Srv
  /-- the `conf.AuthAction…` constant in the server's auth middleware / helper -/
  authAction : Action
  /-- the auth request carries `Path: <requested path>` -/
  authUsesPath : Bool
  /-- every error path of the auth function ends in writeErrorNoLog(ctx, 401, constant) (= abort) + return -/
  authDenyOK : Bool
  /-- references to the router variables that are not Use/Group/route registration/Handler: router -/
  otherRouterUses : Nat
  routes : List RouteF
deriving Repr

/-- shape the theorems need: middleware servers `[preflight, auth] → handler`;
    playback `[preflight] → guarded handler` with the path in the auth request. -/
def routeOK (f : ServerF) (r : RouteF) : Bool :=
  if f.srv = .playback then r.mws == [.preflight] && r.guarded && f.authUsesPath
  else r.mws == [.preflight, .auth] && !r.guarded

def serverOK (f : ServerF) : Bool :=
  decide (f.authAction = f.srv.action) && f.authDenyOK && f.otherRouterUses == 0 &&
  !f.routes.isEmpty && f.routes.all (routeOK f)

/-! ### requests, auth manager, gin context -/

structure Creds where
  user : Bytes
  pass : Bytes
  token : Bytes
deriving DecidableEq, Repr

structure Req where
  /-- `ctx.Request.Method == "OPTIONS"` -/
  options : Bool
  /-- header `Access-Control-Request-Method` is non-empty -/
  acrm : Bool
  creds : Creds
  ip : Bytes
  rawQuery : Bytes
  /-- `ctx.Query("path")` -/
  queryPath : Bytes
  /-- oracle: `conf.IsValidPathName(queryPath) == nil` -/
  validPath : Bool
deriving Repr

def Req.preflight (r : Req) : Bool := r.options && r.acrm

structure AuthReq where
  action : Action
  path : Bytes
  query : Bytes
  creds : Creds
  ip : Bytes
deriving DecidableEq, Repr

/-- `Authenticate` result: admitted, or refused with / without `AskCredentials` -/
inductive AuthRes | ok | denyAsk | deny
deriving DecidableEq, Repr

abbrev AuthFn := AuthReq → AuthRes

def mkAuthReq (a : Action) (withPath : Bool) (r : Req) : AuthReq :=
  { action := a, path := if withPath then r.queryPath else [], query := r.rawQuery, creds := r.creds, ip := r.ip }

inductive Hdr | wwwAuthenticate | allowMethods | allowHeaders | other (n : Nat)
deriving DecidableEq, Repr

/-- pieces of a response body: the two constant error objects, or something a handler produced -/
inductive Chunk | authError | badPath | data (n : Nat)
deriving DecidableEq, Repr

structure Ctx where
  aborted : Bool := false
  status : Nat := 200
  hdrs : List Hdr := []
  body : List Chunk := []
  /-- state changes performed while serving the request -/
  effects : List Nat := []
deriving DecidableEq, Repr

abbrev Handler := Req → Ctx → Ctx

/-- gin: run the chain, stop at the first abort. -/
def run : List Handler → Req → Ctx → Ctx
  | [], _, c => c
  | h :: hs, r, c => if c.aborted then c else run hs r (h r c)

def preflightMw : Handler := fun r c =>
  if r.preflight then
    { c with aborted := true, status := 204, hdrs := c.hdrs ++ [.allowMethods, .allowHeaders] }
  else c

/-- `[WWW-Authenticate;] writeErrorNoLog(ctx, 401, "authentication error"); return` -/
def denyWith (ask : Bool) (c : Ctx) : Ctx :=
  { c with aborted := true, status := 401,
           hdrs := if ask then c.hdrs ++ [.wwwAuthenticate] else c.hdrs,
           body := c.body ++ [.authError] }

def authStep (auth : AuthFn) (a : Action) (withPath : Bool) (r : Req) (c : Ctx) (k : Ctx → Ctx) : Ctx :=
  match auth (mkAuthReq a withPath r) with
  | .ok => k c
  | .denyAsk => denyWith true c
  | .deny => denyWith false c

/-- `middlewareAuth` of api / metrics / pprof -/
def authMw (auth : AuthFn) (a : Action) : Handler := fun r c => authStep auth a false r c id

/-- `onList` / `onGet` of playback: validity check, `doAuth`, then the rest of the handler -/
def guardedHandler (auth : AuthFn) (a : Action) (withPath : Bool) (inner : Handler) : Handler := fun r c =>
  if !r.validPath then { c with aborted := true, status := 400, body := c.body ++ [.badPath] }
  else authStep auth a withPath r c (inner r)

/-- the chain gin runs for a route, built from the regenerated facts -/
def chainFor (auth : AuthFn) (f : ServerF) (r : RouteF) (other inner : Handler) : List Handler :=
  r.mws.map (fun
    | .preflight => preflightMw
    | .auth => authMw auth f.authAction
    | .other => other)
  ++ [if r.guarded then guardedHandler auth f.authAction f.authUsesPath inner else inner]

/-! ### the property -/

/-- "the client is admitted for the server's action (playback: on the requested path)" -/
def Admitted (auth : AuthFn) (s : Srv) (r : Req) : Bool :=
  (s != .playback || r.validPath) && auth (mkAuthReq s.action (s == .playback) r) == .ok

/-- the complete response to a request that is a preflight or is not admitted: built from constants -/
def refusal (auth : AuthFn) (s : Srv) (r : Req) : Ctx :=
  if r.preflight then { aborted := true, status := 204, hdrs := [.allowMethods, .allowHeaders] }
  else if s == .playback && !r.validPath then { aborted := true, status := 400, body := [.badPath] }
  else denyWith (auth (mkAuthReq s.action (s == .playback) r) == .denyAsk) {}

def Chunk.isData : Chunk → Bool
  | .data _ => true
  | _ => false

def Ctx.carriesData (c : Ctx) : Bool := c.body.any Chunk.isData
def Ctx.changesState (c : Ctx) : Bool := !c.effects.isEmpty

/-! ### executable spec on the implementation's answers -/

inductive BodyClass | empty | authErr | other
deriving DecidableEq, Repr

structure Obs where
  status : Nat
  body : BodyClass
  canary : Bool
  changed : Bool
  www : Bool
deriving DecidableEq, Repr

def BodyClass.str : BodyClass → String
  | .empty => "empty" | .authErr => "autherr" | .other => "other"

def b01 (b : Bool) : String := if b then "1" else "0"

def Obs.str (o : Obs) : String :=
  s!"{o.status} {o.body.str} canary={b01 o.canary} changed={b01 o.changed} www={b01 o.www}"

/-- what the harness would observe of a model context -/
def observe (c : Ctx) : Obs :=
  { status := c.status,
    body := if c.body.isEmpty then .empty else if c.body == [.authError] then .authErr else .other,
    canary := c.carriesData, changed := c.changesState, www := c.hdrs.contains .wwwAuthenticate }

/-- The property, evaluated on an observed response.
    `routed`: the request instantiates a registered route (method and path).
    `res`: the auth manager's answer for the request the property names (oracle column). -/
def specObs (s : Srv) (routed : Bool) (r : Req) (res : AuthRes) (o : Obs) : Option String :=
  if r.preflight then
    if o.status != 204 then some "preflight request not answered with 204"
    else if o.body != .empty || o.canary then some "preflight response carries a body"
    else if o.changed then some "preflight request changed state"
    else none
  else if (s != .playback || r.validPath) && res == .ok then none
  else
    if o.canary then some "request without the permission received data"
    else if o.changed then some "request without the permission changed state"
    else if 200 ≤ o.status && o.status < 300 then some "request without the permission was answered 2xx"
    else if routed && (s != .playback || r.validPath) then
      if o.status != 401 then some "request without the permission not answered with 401"
      else if o.body != .authErr then some "401 response body is not the constant error object"
      else none
    else none

end MtxVerif.C04
