/-
C25 — NTP estimator (internal/ntpestimator/estimator.go, `Estimator.Estimate`).

Instants (`time.Time` without monotonic reading) are integers: nanoseconds since the zero `time.Time`
(January 1, year 1 UTC), so `time.Time{}` is `0`.  `Add`, `After`, `Before`, `Equal` are `+ > < =` on that
integer (no saturation: the harness keeps wall-clock readings between year 1 and year 9999, durations are
int64 nanoseconds, so seconds never come near the int64 limits of `time.Time`).
`pts - e.refPTS` is an int64 subtraction (wraps); the scaling is the canonical `multiplyAndDivide` of C24
with all its wrap-arounds; a zero `ClockRate` makes it panic (`none`) — the state is then unchanged.

The code tests "not initialised" as `refNTP.Equal(time.Time{})`; the model keeps exactly that (`refNTP = 0`),
including the quirk that an estimator anchored at the zero instant counts as not initialised.
-/
import MtxVerif.Model.C24

namespace MtxVerif.C25
open MtxVerif.C24

/-- `maxTimeDifference = 5 * time.Second` in nanoseconds -/
def maxDiff : Int := 5000000000

structure St where
  refNTP : Int := 0
  refPTS : Int := 0
deriving Repr, DecidableEq

/-- `multiplyAndDivide(time.Duration(pts-e.refPTS), time.Second, time.Duration(e.ClockRate))` -/
def delta (rate : Int) (s : St) (pts : Int) : Option Int :=
  muldiv (wrap64 (pts - s.refPTS)) nsPerSec rate

/-- One call of `Estimate(pts)` with `timeNow()` reading `now`.  Result `none` = panic (zero clock rate). -/
def step (rate : Int) (s : St) (now pts : Int) : St × Option Int :=
  if s.refNTP = 0 then ({ refNTP := now, refPTS := pts }, some now)
  else match delta rate s pts with
    | none => (s, none)
    | some dlt =>
      let computed := s.refNTP + dlt
      if computed > now ∨ computed < now - maxDiff then ({ refNTP := now, refPTS := pts }, some now)
      else (s, some computed)

/-- A whole history of calls `(now, pts)`: final state and the outputs. -/
def run (rate : Int) : St → List (Int × Int) → St × List (Option Int)
  | s, [] => (s, [])
  | s, (now, pts) :: rest =>
    let r := step rate s now pts
    let rr := run rate r.1 rest
    (rr.1, r.2 :: rr.2)

/-! ### executable spec, evaluated on the implementation's answers (one history)

The spec follows the *implementation's* reported anchor (`refNTP`, `refPTS` read from the real struct
after each call) and checks the property on the implementation's outputs:
 * bounds: `now - 5 s ≤ out ≤ now` — always;
 * steady: if an anchor is held, frame timestamps advance (`pts ≥ refPTS` and `pts ≥` previous `pts`), the
   scaling is in its exact range, and the anchored estimate
   `A = refNTP + exact((pts - refPTS) * 10^9 / rate)` lies in `[now - 5 s, now]` (the clock ran steadily
   relative to the anchor), then the output must be `A` and the anchor must be kept — hence consecutive
   outputs differ exactly by the scaled frame-timestamp difference, without accumulated drift.
Nothing else is demanded (what the estimator does when it has to re-anchor is not part of the property;
the model/implementation comparison covers it). -/
structure Spec where
  refNTP : Int := 0
  refPTS : Int := 0
  lastPTS : Option Int := none

/-- scaling is exact and nothing wraps: rate in `1 … 2^32`, `pts - refPTS` and the scaled value fit int64 -/
def exactRange (rate refPTS pts : Int) : Bool :=
  rateOK rate && decide (InI64 (pts - refPTS)) && decide (InI64 (exact (pts - refPTS) nsPerSec rate))

def advancing (sp : Spec) (pts : Int) : Bool :=
  decide (sp.refPTS ≤ pts) && (match sp.lastPTS with | none => true | some p => decide (p ≤ pts))

def specStep (rate : Int) (sp : Spec) (now pts : Int) (out ref' pts' : Int) : Spec × Option String :=
  let sp' : Spec := { refNTP := ref', refPTS := pts', lastPTS := some pts }
  let err : Option String :=
    if out > now then some "absolute timestamp is later than the wall clock"
    else if out < now - maxDiff then some "absolute timestamp is more than 5 s behind the wall clock"
    else if sp.refNTP ≠ 0 ∧ advancing sp pts = true ∧ exactRange rate sp.refPTS pts = true then
      let a := sp.refNTP + exact (pts - sp.refPTS) nsPerSec rate
      if now - maxDiff ≤ a ∧ a ≤ now then
        (if out = a ∧ ref' = sp.refNTP ∧ pts' = sp.refPTS then none
         else some "clock steady relative to the anchor, but the timestamp does not advance by the frame timestamp difference")
      else none
    else none
  (sp', err)

/-! ### round 2: the property on what the server hands on (integration sites of the estimator)

The estimator is used at two places: `stream.subStreamFormat.writeUnitInner` (paths with a replaced NTP, in
particular always-available paths, where the frame timestamp handed on is `u.PTS + ptsOffset`) and
`hls.ToStream` (frame timestamp handed on = track pts rescaled to the RTP clock rate).  There the anchor is
not observable; the property is evaluated on consecutive *emitted* frames `(now, pts, ntp)`, `pts` in the
clock rate `rOut` of the outgoing format:
 * bounds: `now - 5 s ≤ ntp ≤ now`;
 * steady: if frame timestamps advance (`pts ≥` previous `pts`) and the previous absolute timestamp advanced
   by the scaled frame-timestamp difference, `p`, lies in `[now - 5 s + tol, now + tol]` (the wall clock ran
   steadily), then `|ntp - p| ≤ 2·tol`.  `tol` absorbs the truncations (a few ns, plus one tick of each clock
   where the timestamp is rescaled).  Checked only while every timestamp seen is within ±2^32 ticks and the
   rate is in `1 … 2^32` (exact range of the scaling). -/
structure Obs where
  last : Option (Int × Int) := none   -- (ntp, pts) of the previous emitted frame
  small : Bool := true

def ceilDiv (a b : Int) : Int := (a + b - 1) / b

/-- tolerance in ns: truncations + one tick of the outgoing clock and one of the estimator's clock -/
def obsTol (rOut rEst : Int) : Int :=
  if rOut = rEst then 4 else 4 + ceilDiv nsPerSec rOut + ceilDiv nsPerSec rEst

def ptsSmall (pts : Int) : Bool := decide (-(2 ^ 32) ≤ pts ∧ pts ≤ 2 ^ 32)

def obsStep (rOut tol : Int) (o : Obs) (extraSmall : Bool) (now pts ntp : Int) : Obs × Option String :=
  let small := o.small && ptsSmall pts && extraSmall
  let o' : Obs := { last := some (ntp, pts), small := small }
  let err : Option String :=
    if ntp > now then some "absolute timestamp is later than the wall clock"
    else if ntp < now - maxDiff then some "absolute timestamp is more than 5 s behind the wall clock"
    else match o.last with
      | none => none
      | some (pn, pp) =>
        if small = true ∧ rateOK rOut = true ∧ pp ≤ pts then
          let p := pn + exact (pts - pp) nsPerSec rOut
          if now - maxDiff + tol ≤ p ∧ p ≤ now + tol then
            (if ntp - p ≤ 2 * tol ∧ p - ntp ≤ 2 * tol then none
             else some "wall clock steady and frame timestamps advance, but consecutive absolute timestamps do not differ by the frame timestamp difference")
          else none
        else none
  (o', err)

/-- run the observable spec over a trace of emitted frames; first violation (index, reason) -/
def obsRun (rOut tol : Int) : Obs → Nat → List (Bool × Int × Int × Int) → Option (Nat × String)
  | _, _, [] => none
  | o, i, (sm, now, pts, ntp) :: rest =>
    match obsStep rOut tol o sm now pts ntp with
    | (_, some e) => some (i, e)
    | (o', none) => obsRun rOut tol o' (i + 1) rest

end MtxVerif.C25
