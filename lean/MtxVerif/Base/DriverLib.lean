/-
Line-protocol driver library (core Lean only — must stay free of Mathlib so that drivers link).

A driver is started as `drv_cXX <ops.txt> <impl.out>`.  Both files have the same number of lines.
Line i of ops.txt is one operation (`<op> <arg> <arg> …`, space separated; byte strings are lower-case
hex, the empty byte string is `-`).  Line i of impl.out is the canonicalised answer the real Go code
gave for that operation.  For every line the driver prints

    <model answer>\t<spec verdict>

where the spec verdict is the executable spec of the property evaluated on the IMPLEMENTATION's answer:
`ok`, `FAIL <reason>` (the property is violated on that input), or `KNOWN <class> <reason>`
(violated, and the input lies in the decidable class `<class>` listed in KNOWN_FINDINGS.txt).
-/
namespace MtxVerif

abbrev Bytes := List UInt8

namespace Hex

def nibble (c : Char) : Option Nat :=
  if '0' ≤ c ∧ c ≤ '9' then some (c.toNat - '0'.toNat)
  else if 'a' ≤ c ∧ c ≤ 'f' then some (c.toNat - 'a'.toNat + 10)
  else if 'A' ≤ c ∧ c ≤ 'F' then some (c.toNat - 'A'.toNat + 10)
  else none

def decodeChars : List Char → Option Bytes
  | [] => some []
  | [_] => none
  | a :: b :: rest => do
    let x ← nibble a
    let y ← nibble b
    let r ← decodeChars rest
    pure (UInt8.ofNat (x * 16 + y) :: r)

/-- `-` is the empty byte string. -/
def decode (s : String) : Option Bytes :=
  if s == "-" then some [] else decodeChars s.toList

def digit (n : Nat) : Char :=
  if n < 10 then Char.ofNat ('0'.toNat + n) else Char.ofNat ('a'.toNat + (n - 10))

def encode (b : Bytes) : String :=
  if b.isEmpty then "-" else
  String.ofList (b.flatMap fun x => [digit (x.toNat / 16), digit (x.toNat % 16)])

end Hex

/-- Go-style view of an ASCII string as bytes. -/
def strBytes (s : String) : Bytes := s.toUTF8.toList

/-- Kernel-reducible ASCII literal, for `decide`d examples: `asc ['a','b']`. -/
def asc (l : List Char) : Bytes := l.map fun c => UInt8.ofNat c.toNat

def bytesStr (b : Bytes) : String := String.ofList (b.map fun x => Char.ofNat x.toNat)

structure DrvOut where
  model : String
  spec : String := "ok"

def words (line : String) : List String :=
  (line.splitOn " ").filter (· ≠ "")

def stripNL (s : String) : String :=
  let s := if s.endsWith "\n" then (s.dropEnd 1).toString else s
  if s.endsWith "\r" then (s.dropEnd 1).toString else s

partial def drvLoop {σ : Type} (hOps hImpl : IO.FS.Handle) (out : IO.FS.Stream)
    (step : σ → String → String → σ × DrvOut) (s : σ) : IO Unit := do
  let l ← hOps.getLine
  if l.isEmpty then return ()
  let il ← hImpl.getLine
  let (s', o) := step s (stripNL l) (stripNL il)
  out.putStrLn (o.model ++ "\t" ++ o.spec)
  drvLoop hOps hImpl out step s'

def runDriver {σ : Type} (args : List String) (init : σ)
    (step : σ → String → String → σ × DrvOut) : IO UInt32 := do
  match args with
  | [ops, impl] =>
    let hOps ← IO.FS.Handle.mk ops .read
    let hImpl ← IO.FS.Handle.mk impl .read
    let out ← IO.getStdout
    drvLoop hOps hImpl out step init
    out.flush
    return 0
  | _ =>
    IO.eprintln "usage: drv <ops.txt> <impl.out>"
    return 2

end MtxVerif
