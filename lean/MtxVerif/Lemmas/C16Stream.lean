/-
PathSM, stream level (C16): which sub-stream is live on which stream object, which readers are
registered where.  `SInv` is preserved by every step of a state satisfying the general invariant.
-/
import MtxVerif.Lemmas.C18PathSM_Step

namespace MtxVerif.PathSM

structure SInv (s : State) : Prop where
  /-- ids handed out so far are below the counters -/
  d1 : ∀ x ∈ s.subs, x.2 < s.nextStream ∧ x.1 < s.nextSub
  d2 : ∀ sid, s.stream = some sid → sid < s.nextStream
  /-- a reader attached to the path is registered, if at all, on the path's current stream -/
  d3 : ∀ r ∈ s.readers, ∀ sid, (r, sid) ∈ s.sreg → s.stream = some sid
  /-- alwaysAvailable: the stream's current sub-stream is the one handed to the current source -/
  d5 : s.conf.alwaysAvailable = true → s.closed = false → s.aaCur = s.srcSub
  /-- otherwise: the only sub-stream living on the current stream is the current source's -/
  d7 : s.conf.alwaysAvailable = false → ∀ x ∈ s.subs, s.stream = some x.2 → s.srcSub = some x.1
  d8 : ∀ k, s.srcSub = some k → k < s.nextSub
  /-- a live sub-stream belongs to the attached publisher or to the static source that is up -/
  d9 : s.srcSub.isSome = true → (∃ p, s.source = some (.pub p)) ∨ s.srcUp = true

theorem sinv_addReaderPost (rid r : Nat) (w : W) (h : SInv w.s) (hs : w.s.stream.isSome = true) :
    SInv (addReaderPost rid r w).s := by
  rw [addReaderPost_s]
  obtain ⟨sid, hsid⟩ := Option.isSome_iff_exists.mp hs
  unfold regAfter
  rw [hsid]
  cases h
  (repeat' split) <;> (constructor <;> grind)

theorem consume_pres (P : State → Prop)
    (hP : ∀ rid r (w : W), P w.s → P (addReaderPost rid r w).s)
    (hc1 : ∀ s, P s → P { s with descHold := [] }) (hc2 : ∀ s, P s → P { s with readHold := [] })
    (w : W) (h : P w.s) : P (consumeOnHoldRequests w).s := by
  unfold consumeOnHoldRequests
  dsimp only
  have e1 : ∀ (l : List Nat) (w : W), (l.foldl (fun w rid => replyStream rid w) w).s = w.s := by
    intro l; induction l with
    | nil => intro w; rfl
    | cons x xs ih => intro w; rw [List.foldl_cons, ih, replyStream_s]
  have e2 : ∀ (l : List (Nat × Nat)) (w : W), P w.s →
      P (l.foldl (fun w (x : Nat × Nat) => addReaderPost x.1 x.2 w) w).s := by
    intro l; induction l with
    | nil => intro w h; exact h
    | cons x xs ih => intro w h; exact ih _ (hP _ _ _ h)
  apply hc2
  apply e2
  apply hc1
  rw [e1]; exact h

theorem sinv_consume (w : W) (h : SInv w.s) (hs : w.s.stream.isSome = true) :
    SInv (consumeOnHoldRequests w).s := by
  have := consume_pres (fun s => SInv s ∧ s.stream.isSome = true)
    (fun rid r w h => ⟨sinv_addReaderPost rid r w h.1 h.2, by rw [(addReaderPost_rd rid r w).f5]; exact h.2⟩)
    (fun s h => ⟨by cases h.1; constructor <;> grind, h.2⟩)
    (fun s h => ⟨by cases h.1; constructor <;> grind, h.2⟩) w ⟨h, hs⟩
  exact this.1

theorem sinv_pubAttach (p : Nat) (ok : Bool) (w : W) (hi : Inv w.s) (h : SInv w.s) (hc : w.s.closed = false)
    (hk : w.s.conf.kind = .publisher) (hsrc : w.s.source = none) (hss : w.s.srcSub = none) :
    SInv (pubAttach p ok w).s := by
  unfold pubAttach
  dsimp only
  have hval := hi.valid
  unfold Conf.valid at hval
  cases ok
  · simp only [Bool.not_false, if_true, emit_s, subErrCleanup_s]
    (repeat' split) <;> (try simp only [setAvailable_s] at *) <;> (cases hi; cases h; constructor <;> grind)
  · simp only [Bool.not_true, Bool.false_eq_true, if_false, emit_s]
    have hgd : w.s.conf.alwaysAvailable = true → ∃ sid, w.s.stream = some sid ∧ w.s.stream.getD 0 = sid := by
      intro haa
      obtain ⟨sid, hsid⟩ := Option.isSome_iff_exists.mp (hi.aa haa hc)
      exact ⟨sid, hsid, by rw [hsid]; rfl⟩
    refine sinv_consume _ ?_ ?_
    · (repeat' split) <;>
        simp only [emit_s, upd_s, newSub_s, setOnline_s, setAvailable_s, onDemandPublisherScheduleClose,
          Option.getD_some] at * <;>
        (cases hi; cases h; constructor <;> grind)
    · (repeat' split) <;>
        simp only [emit_s, upd_s, newSub_s, setOnline_s, setAvailable_s, onDemandPublisherScheduleClose] at * <;>
        (cases hi; grind)

theorem sinv_execRemove (w : W) (hi : Inv w.s) (h : SInv w.s) : SInv (executeRemovePublisher w).s := by
  rw [executeRemovePublisher_s]
  cases hi; cases h; constructor <;> grind

theorem sinv_doAddPublisher (p : Nat) (ok : Bool) (w : W) (hi : Inv w.s) (h : SInv w.s) (hc : w.s.closed = false) :
    SInv (doAddPublisher p ok w).s := by
  unfold doAddPublisher
  split
  · exact h
  split
  · exact h
  · rename_i hk _
    have hk' : w.s.conf.kind = .publisher := by simpa using hk
    obtain ⟨i1, i2, i3, i4⟩ := pubOverride_post w hi hc hk'
    have hS : SInv (pubOverride w).s ∧ (pubOverride w).s.srcSub = none := by
      unfold pubOverride
      split
      · rename_i hsrc
        refine ⟨h, ?_⟩
        -- no source ⇒ no live sub-stream
        cases hss : w.s.srcSub with
        | none => rfl
        | some k =>
          exfalso
          rcases h.d9 (by rw [hss]; rfl) with ⟨q, hq⟩ | hup
          · rw [hsrc] at hq; cases hq
          · have := hi.s4 (hi.s3 hup); rw [hk'] at this; cases this
      · exact ⟨sinv_execRemove _ hi h, by simp [executeRemovePublisher_s]⟩
      · rename_i x hx hne
        exfalso
        rcases hi.kPub hk' with h0 | ⟨q, hq⟩
        · rw [h0] at hne; cases hne
        · rw [hq] at hne; injection hne with e; exact hx q e.symm
    exact sinv_pubAttach p ok _ i1 hS.1 i3 (i4 ▸ hk') i2 hS.2

theorem sinv_doRemovePublisher (p : Nat) (w : W) (hi : Inv w.s) (h : SInv w.s) : SInv (doRemovePublisher p w).s := by
  unfold doRemovePublisher
  split
  · exact sinv_execRemove _ hi h
  · exact h

theorem sinv_doDescribe (rid : Nat) (w : W) (h : SInv w.s) : SInv (doDescribe rid w).s := by
  unfold doDescribe
  (repeat' split) <;> simp only [emit_s, replyStream_s, upd_s, holdDemand_s] <;> (cases h; constructor <;> grind)

theorem sinv_doAddReader (rid r : Nat) (w : W) (h : SInv w.s) : SInv (doAddReader rid r w).s := by
  unfold doAddReader
  split
  · exact sinv_addReaderPost _ _ _ h ‹_›
  (repeat' split) <;> simp only [emit_s, upd_s, holdDemand_s] <;> (cases h; constructor <;> grind)

theorem sinv_doRemoveReader (r : Nat) (w : W) (h : SInv w.s) : SInv (doRemoveReader r w).s := by
  unfold doRemoveReader onDemandStaticSourceScheduleClose onDemandPublisherScheduleClose
  dsimp only
  have h3 : ∀ x, x ∈ w.s.readers.filter (· != r) → x ∈ w.s.readers := fun x hx => (List.mem_filter.mp hx).1
  cases h
  repeat' split
  all_goals (simp only [upd_s, emit_s] at *; generalize w.s.readers.filter (· != r) = rs at *; constructor <;> grind)

theorem sinv_srcReady (ok : Bool) (w : W) (hi : Inv w.s) (h : SInv w.s) (hc : w.s.closed = false)
    (hg : w.s.source = some .static ∧ w.s.srcRunning = true ∧ (!w.s.srcUp) = true) :
    SInv (doSourceStaticSetReady ok w).s := by
  unfold doSourceStaticSetReady
  dsimp only
  have hval := hi.valid
  unfold Conf.valid at hval
  have hss : w.s.srcSub = none := by
    cases hss : w.s.srcSub with
    | none => rfl
    | some k =>
      exfalso
      rcases h.d9 (by rw [hss]; rfl) with ⟨q, hq⟩ | hup
      · rw [hg.1] at hq; cases hq
      · rw [hup] at hg; simp at hg
  cases ok
  · simp only [Bool.not_false, if_true, emit_s, subErrCleanup_s]
    (repeat' split) <;> (try simp only [setAvailable_s] at *) <;> (cases hi; cases h; constructor <;> grind)
  · simp only [Bool.not_true, Bool.false_eq_true, if_false, emit_s]
    have hgd : w.s.conf.alwaysAvailable = true → ∃ sid, w.s.stream = some sid ∧ w.s.stream.getD 0 = sid := by
      intro haa
      obtain ⟨sid, hsid⟩ := Option.isSome_iff_exists.mp (hi.aa haa hc)
      exact ⟨sid, hsid, by rw [hsid]; rfl⟩
    refine sinv_consume _ ?_ ?_
    · (repeat' split) <;>
        simp only [emit_s, upd_s, newSub_s, setOnline_s, setAvailable_s, onDemandStaticSourceScheduleClose,
          Option.getD_some] at * <;>
        (cases hi; cases h; constructor <;> grind)
    · (repeat' split) <;>
        simp only [emit_s, upd_s, newSub_s, setOnline_s, setAvailable_s, onDemandStaticSourceScheduleClose] at * <;>
        (cases hi; grind)

theorem sinv_srcNotReady (w : W) (hi : Inv w.s) (h : SInv w.s) : SInv (doSourceStaticSetNotReady w).s := by
  unfold doSourceStaticSetNotReady
  dsimp only
  (repeat' split) <;>
    simp only [upd_s, setOffline_s, startOffline_s, setNotAvailable_s, onDemandStaticSourceStop_s] at * <;>
    (cases hi; cases h; constructor <;> grind)

theorem sinv_fireTimer (t : Timer) (w : W) (hi : Inv w.s) (h : SInv w.s) (hc : w.s.closed = false)
    (ha : timerArmed w.s t = true) : SInv (fireTimer t w).s := by
  have hv := odStatic_iff w.s.conf
  have hval := hi.valid
  unfold Conf.valid at hval
  cases t <;> unfold fireTimer timerArmed at * <;> simp only [closeCheck_s]
  · unfold doOnDemandStaticSourceReadyTimer
    simp only [onDemandStaticSourceStop_s, failHolds_s, upd_s]
    cases hi; cases h; constructor <;> grind
  · unfold doOnDemandStaticSourceCloseTimer
    (repeat' split) <;> simp only [onDemandStaticSourceStop_s, setNotAvailable_s, upd_s, panic, emit_s] at * <;>
      (cases hi; cases h; constructor <;> grind)
  · unfold doOnDemandPublisherReadyTimer
    simp only [onDemandPublisherStop_s, failHolds_s, upd_s]
    cases h; constructor <;> grind
  · unfold doOnDemandPublisherCloseTimer
    simp only [onDemandPublisherStop_s, upd_s]
    cases h; constructor <;> grind

theorem sinv_doClose (w : W) (hi : Inv w.s) (h : SInv w.s) : SInv (doClose w).s := by
  rw [doClose_s]
  cases hi; cases h; constructor <;> grind

theorem sinv_stepW (e : Event) (w : W) (hi : Inv w.s) (h : SInv w.s) : SInv (stepW e w).s := by
  unfold stepW
  split
  · exact h
  split
  · unfold stepClosed
    split <;> first | exact h | (simp only [upd_s]; cases h; constructor <;> grind)
  rename_i hp hcl
  have hc : w.s.closed = false := by simpa using hcl
  split
  · rw [closeCheck_s]; exact sinv_doDescribe _ _ h
  · rw [closeCheck_s]; exact sinv_doAddPublisher _ _ _ hi h hc
  · rw [closeCheck_s]; exact sinv_doRemovePublisher _ _ hi h
  · rw [closeCheck_s]; exact sinv_doAddReader _ _ _ h
  · rw [closeCheck_s]; exact sinv_doRemoveReader _ _ h
  · split
    · exact sinv_srcReady _ _ hi h hc ‹_›
    · exact h
  · split
    · rw [closeCheck_s]; exact sinv_srcNotReady _ hi h
    · exact h
  · split
    · exact sinv_fireTimer _ _ hi h hc ‹_›
    · exact h
  · split
    · simp only [upd_s]; cases h; constructor <;> grind
    · exact h
  · exact sinv_doClose _ hi h
  · exact h
  · simp only [upd_s]; cases h; constructor <;> grind

theorem sinv_init (c : Conf) : SInv (init c) := by
  unfold init initW
  dsimp only
  (repeat' split) <;> simp only [upd_s, emit_s, srcStart_s] at * <;> (constructor <;> grind)

theorem sinv_run (es : List Event) : ∀ s, Inv s → SInv s → SInv (run s es).1 := by
  induction es with
  | nil => intro s _ h; exact h
  | cons e es ih => intro s hi h; exact ih _ (inv_step s e hi) (sinv_stepW e { s := s } hi h)

theorem sinv_reach (c : Conf) (hv : c.valid = true) (es : List Event) : SInv (run (init c) es).1 :=
  sinv_run es _ (inv_init c hv) (sinv_init c)

/-! ### how the live sub-stream id moves: it stays, is dropped, or becomes a brand-new id -/

def SubMove (s s' : State) : Prop :=
  (s'.srcSub = s.srcSub ∨ s'.srcSub = none ∨ s'.srcSub = some s.nextSub) ∧ s.nextSub ≤ s'.nextSub

theorem SubMove.refl (s : State) : SubMove s s := ⟨Or.inl rfl, Nat.le_refl _⟩

theorem consume_sub (w : W) : (consumeOnHoldRequests w).s.srcSub = w.s.srcSub ∧
    (consumeOnHoldRequests w).s.nextSub = w.s.nextSub := by
  obtain ⟨s1, R, e⟩ := consume_rd w
  rw [e]; exact ⟨R.f17, R.f16⟩

theorem pubAttach_sub (p : Nat) (ok : Bool) (w : W) : SubMove w.s (pubAttach p ok w).s := by
  unfold pubAttach SubMove
  dsimp only
  cases ok
  · simp only [Bool.not_false, if_true, emit_s, subErrCleanup_s]; split <;> simp [setAvailable_s]
  · simp only [Bool.not_true, Bool.false_eq_true, if_false, emit_s, consume_sub]
    (repeat' split) <;> simp [newSub_s, setOnline_s, setAvailable_s, onDemandPublisherScheduleClose]

theorem pubOverride_sub (w : W) : SubMove w.s (pubOverride w).s := by
  unfold pubOverride SubMove; split <;> simp [executeRemovePublisher_s, panic]

theorem SubMove.trans {a b c : State} (h1 : SubMove a b) (h2 : SubMove b c) (hd : ∀ k, a.srcSub = some k → k < a.nextSub) :
    (c.srcSub = a.srcSub ∨ c.srcSub = none ∨ ∃ k, c.srcSub = some k ∧ a.nextSub ≤ k) ∧ a.nextSub ≤ c.nextSub := by
  unfold SubMove at *; grind

theorem srcReady_sub (ok : Bool) (w : W) : SubMove w.s (doSourceStaticSetReady ok w).s := by
  unfold doSourceStaticSetReady SubMove
  dsimp only
  cases ok
  · simp only [Bool.not_false, if_true, emit_s, subErrCleanup_s]; split <;> simp [setAvailable_s]
  · simp only [Bool.not_true, Bool.false_eq_true, if_false, emit_s, consume_sub]
    (repeat' split) <;> simp [newSub_s, setOnline_s, setAvailable_s, onDemandStaticSourceScheduleClose]

/-- one step: the live sub-stream id is kept, dropped, or replaced by an id never handed out before -/
theorem stepW_sub (e : Event) (w : W) (hd : ∀ k, w.s.srcSub = some k → k < w.s.nextSub) :
    ((stepW e w).s.srcSub = w.s.srcSub ∨ (stepW e w).s.srcSub = none ∨
      ∃ k, (stepW e w).s.srcSub = some k ∧ w.s.nextSub ≤ k) ∧ w.s.nextSub ≤ (stepW e w).s.nextSub := by
  have base : ∀ s' : State, SubMove w.s s' →
      (s'.srcSub = w.s.srcSub ∨ s'.srcSub = none ∨ ∃ k, s'.srcSub = some k ∧ w.s.nextSub ≤ k) ∧
        w.s.nextSub ≤ s'.nextSub := by
    intro s' h; unfold SubMove at h; grind
  unfold stepW
  split
  · exact base _ (SubMove.refl _)
  split
  · unfold stepClosed; split <;> exact base _ (SubMove.refl _)
  split
  · apply base; rw [closeCheck_s]; unfold doDescribe SubMove
    (repeat' split) <;> simp [replyStream_s, holdDemand_s]
  · rw [closeCheck_s]; unfold doAddPublisher
    split
    · exact base _ (SubMove.refl _)
    split
    · exact base _ (SubMove.refl _)
    · exact (pubOverride_sub w).trans (pubAttach_sub _ _ _) hd
  · apply base; rw [closeCheck_s]; unfold doRemovePublisher SubMove
    split <;> simp [executeRemovePublisher_s]
  · apply base; rw [closeCheck_s]; unfold doAddReader SubMove
    (repeat' split) <;> simp [holdDemand_s, (addReaderPost_rd _ _ _).f17, (addReaderPost_rd _ _ _).f16]
  · apply base; rw [closeCheck_s]
    unfold doRemoveReader onDemandStaticSourceScheduleClose onDemandPublisherScheduleClose SubMove
    dsimp only
    (repeat' split) <;> simp
  · apply base
    split
    · exact srcReady_sub _ _
    · exact SubMove.refl _
  · apply base
    split
    · rw [closeCheck_s]; unfold doSourceStaticSetNotReady SubMove
      dsimp only
      (repeat' split) <;> simp [setOffline_s, startOffline_s, setNotAvailable_s, onDemandStaticSourceStop_s]
    · exact SubMove.refl _
  · apply base
    split
    · rename_i t _
      unfold SubMove
      cases t <;> unfold fireTimer <;> simp only [closeCheck_s]
      · simp only [doOnDemandStaticSourceReadyTimer, onDemandStaticSourceStop_s, failHolds_s, upd_s]
        by_cases hr : w.s.srcRunning = true <;> simp [hr]
      · unfold doOnDemandStaticSourceCloseTimer
        split
        · simp [panic]
        · simp only [onDemandStaticSourceStop_s, setNotAvailable_s, upd_s]
          by_cases hr : w.s.srcRunning = true <;> simp [hr]
      · simp [doOnDemandPublisherReadyTimer, onDemandPublisherStop_s, failHolds_s]
      · simp [doOnDemandPublisherCloseTimer, onDemandPublisherStop_s]
    · exact SubMove.refl _
  · apply base; unfold SubMove; split <;> simp
  · apply base; unfold SubMove; rw [doClose_s]; simp
  · exact base _ (SubMove.refl _)
  · exact base _ (SubMove.refl _)

end MtxVerif.PathSM
