/-
C41 — the call sites of `tls.MakeConfig` (facts regenerated from the Go source by tools/xlate/c41).

`Props/C41.lean` proves that the configuration MakeConfig returns accepts exactly the pinned certificate.  The
property is about every outgoing TLS connection that has a fingerprint configured (sources, forwarding, auth server,
JWKS): it holds only if each of those clients is given that configuration whatever the URL looks like.  The decided
theorems below are over the regenerated table, so a client that stops calling MakeConfig, calls it only for some
targets, passes something other than its fingerprint setting, drops the result, or builds a client TLS configuration
by hand breaks an obligation.
-/
import MtxVerif.Gen.C41

namespace MtxVerif.C41Sites
open MtxVerif.Gen.C41

def siteOK (s : Site) : Bool :=
  s.argIsFingerprint && (s.guard != .other) && (s.use != .other) &&
  -- only the JWKS download may sit behind the refresh-period test
  (s.guard == .none || s.client == .authJWKS)

def knownClients : List Client :=
  [.authHTTP, .authJWKS, .fwdRTMP, .fwdRTSP, .fwdWebRTC, .srcHLS, .srcMoQ, .srcRTMP, .srcRTSP, .srcWebRTC]

/-- every call of MakeConfig passes a fingerprint setting, is not conditional on anything but the JWKS refresh period,
and its result becomes the client's TLS configuration -/
theorem real_sites_ok : makeConfigSites.all siteOK = true := by decide

/-- each of the ten clients named by the property (HTTP auth, JWKS, three forwarders, five sources) calls it -/
theorem real_clients_covered :
    knownClients.all (fun c => makeConfigSites.any (fun s => s.client == c)) = true := by decide

/-- no client-side `crypto/tls` configuration is built by hand (only the empty fallback used without a fingerprint) -/
theorem real_no_handmade_client_config : nonEmptyClientConfigLiterals = 0 := by decide

/-- generic: under the three facts, every known client obtains its TLS configuration from MakeConfig applied to its
own fingerprint setting, unconditionally (JWKS: whenever it downloads) -/
theorem client_pinned (sites : List Site) (hok : sites.all siteOK = true)
    (hcov : knownClients.all (fun c => sites.any (fun s => s.client == c)) = true)
    (c : Client) (hc : c ∈ knownClients) :
    ∃ s ∈ sites, s.client = c ∧ s.argIsFingerprint = true ∧ s.use ≠ .other ∧
      (s.guard = .none ∨ (s.guard = .refreshPeriod ∧ c = .authJWKS)) := by
  rw [List.all_eq_true] at hcov
  have h1 := hcov c hc
  rw [List.any_eq_true] at h1
  obtain ⟨s, hs, hsc⟩ := h1
  have hsc' : s.client = c := by simpa using hsc
  rw [List.all_eq_true] at hok
  have h2 := hok s hs
  unfold siteOK at h2
  simp only [Bool.and_eq_true, Bool.or_eq_true, bne_iff_ne, ne_eq, beq_iff_eq] at h2
  obtain ⟨⟨⟨ha, hg⟩, hu⟩, hgc⟩ := h2
  refine ⟨s, hs, hsc', ha, hu, ?_⟩
  cases hgd : s.guard with
  | none => exact Or.inl rfl
  | other => exact absurd hgd hg
  | refreshPeriod =>
    right
    refine ⟨rfl, ?_⟩
    rcases hgc with hgn | hj
    · rw [hgd] at hgn; cases hgn
    · rw [← hsc']; exact hj

end MtxVerif.C41Sites
