/-
C26 — helper lemmas about the matcher (`allM`): it enumerates exactly the decompositions
`s = render toks caps ++ rest` with well-shaped captures.
-/
import MtxVerif.Model.C26

namespace MtxVerif.C26

theorem mem_splitsNL (s a b : Bytes) :
    (a, b) ∈ splitsNL s ↔ a.all (· != 10) = true ∧ s = a ++ b := by
  induction s generalizing a b with
  | nil =>
    simp only [splitsNL, List.mem_singleton, Prod.mk.injEq]
    constructor
    · rintro ⟨rfl, rfl⟩; simp
    · rintro ⟨_, h⟩
      have := List.append_eq_nil_iff.mp h.symm
      exact this
  | cons c r ih =>
    simp only [splitsNL, List.mem_cons, Prod.mk.injEq]
    constructor
    · rintro (⟨rfl, rfl⟩ | h)
      · simp
      · by_cases hc : c = 10
        · simp [hc] at h
        · simp only [hc, if_false, List.mem_map] at h
          obtain ⟨⟨a', b'⟩, hm, he⟩ := h
          simp only [Prod.mk.injEq] at he
          obtain ⟨rfl, rfl⟩ := he
          obtain ⟨h1, h2⟩ := (ih a' b').mp hm
          refine ⟨?_, by simp [h2]⟩
          simp only [List.all_cons, h1, Bool.and_true]
          simpa using hc
    · rintro ⟨h1, h2⟩
      cases a with
      | nil => left; exact ⟨rfl, by simpa using h2.symm⟩
      | cons x a' =>
        right
        simp only [List.cons_append, List.cons.injEq] at h2
        obtain ⟨rfl, h2⟩ := h2
        simp only [List.all_cons, Bool.and_eq_true] at h1
        have hc : c ≠ 10 := by simpa using h1.1
        simp only [hc, if_false, List.mem_map]
        exact ⟨(a', b), (ih a' b).mpr ⟨h1.2, h2⟩, rfl⟩

/-- kinds matched by `[0-9]{n}` -/
def Kind.isNum : Kind → Bool
  | .path => false
  | .z => false
  | _ => true

theorem capOK_num {k : Kind} (hk : k.isNum = true) (v : Bytes) :
    capOK k v = (v.length == k.width && v.all isDigit) := by
  cases k <;> first | rfl | simp [Kind.isNum] at hk

theorem cands_num {k : Kind} (hk : k.isNum = true) (s : Bytes) :
    cands k s = if k.width ≤ s.length ∧ (s.take k.width).all isDigit then [(s.take k.width, s.drop k.width)] else [] := by
  cases k <;> first | rfl | simp [Kind.isNum] at hk

theorem mem_cands_num {k : Kind} (hk : k.isNum = true) (s v r : Bytes) :
    (v, r) ∈ cands k s ↔ capOK k v = true ∧ s = v ++ r := by
  rw [cands_num hk, capOK_num hk]
  constructor
  · intro h
    split at h
    · rename_i hc
      simp only [List.mem_singleton, Prod.mk.injEq] at h
      obtain ⟨rfl, rfl⟩ := h
      refine ⟨?_, (List.take_append_drop _ _).symm⟩
      simp only [Bool.and_eq_true, beq_iff_eq, List.length_take]
      exact ⟨by omega, hc.2⟩
    · simp at h
  · rintro ⟨h1, rfl⟩
    simp only [Bool.and_eq_true, beq_iff_eq] at h1
    have ht : (v ++ r).take k.width = v := by rw [← h1.1]; simp
    have hd : (v ++ r).drop k.width = r := by rw [← h1.1]; simp
    rw [ht, hd, if_pos ⟨by simp; omega, h1.2⟩]
    simp

theorem mem_cands_z (s v r : Bytes) :
    (v, r) ∈ cands .z s ↔ capOK .z v = true ∧ s = v ++ r := by
  simp only [cands, capOK]
  cases s with
  | nil =>
    simp only [List.not_mem_nil, false_iff, not_and]
    intro hz h
    have := List.append_eq_nil_iff.mp h.symm
    rw [this.1] at hz
    simp [zoneOK] at hz
  | cons c t =>
    simp only
    by_cases h90 : c = 90
    · simp only [h90, if_true, List.mem_singleton, Prod.mk.injEq]
      constructor
      · rintro ⟨rfl, rfl⟩; exact ⟨by simp [zoneOK], rfl⟩
      · rintro ⟨hz, he⟩
        cases v with
        | nil => simp [zoneOK] at hz
        | cons x v' =>
          simp only [List.cons_append, List.cons.injEq] at he
          obtain ⟨rfl, rfl⟩ := he
          cases v' with
          | nil => exact ⟨rfl, rfl⟩
          | cons y v'' =>
            unfold zoneOK at hz
            simp at hz
    · simp only [h90, if_false]
      constructor
      · intro h
        split at h
        · rename_i hc
          simp only [List.mem_singleton, Prod.mk.injEq] at h
          obtain ⟨rfl, rfl⟩ := h
          refine ⟨?_, by simp⟩
          unfold zoneOK
          split
          · rename_i heq
            simp only [List.cons.injEq] at heq
            exact absurd heq.1 h90
          · rename_i c' r' _ heq
            simp only [List.cons.injEq] at heq
            obtain ⟨rfl, rfl⟩ := heq
            simp only [Bool.and_eq_true, Bool.or_eq_true, beq_iff_eq, List.length_take]
            exact ⟨⟨hc.1, by omega⟩, hc.2.2⟩
          · rename_i hne
            exact absurd rfl (hne _ _)
        · simp at h
      · rintro ⟨hz, he⟩
        cases v with
        | nil => simp [zoneOK] at hz
        | cons x v' =>
          simp only [List.cons_append, List.cons.injEq] at he
          obtain ⟨rfl, rfl⟩ := he
          unfold zoneOK at hz
          split at hz
          · rename_i heq
            simp only [List.cons.injEq] at heq
            exact absurd heq.1 h90
          · rename_i c' r' _ heq
            simp only [List.cons.injEq] at heq
            obtain ⟨rfl, rfl⟩ := heq
            simp only [Bool.and_eq_true, Bool.or_eq_true, beq_iff_eq] at hz
            have ht : (v' ++ r).take 4 = v' := by rw [← hz.1.2]; simp
            have hd : (v' ++ r).drop 4 = r := by rw [← hz.1.2]; simp
            rw [ht, hd, if_pos ⟨hz.1.1, by simp; omega, hz.2⟩]
            simp
          · simp at hz

theorem mem_cands (k : Kind) (s v r : Bytes) :
    (v, r) ∈ cands k s ↔ capOK k v = true ∧ s = v ++ r := by
  cases hk : k.isNum
  · cases k <;> simp [Kind.isNum] at hk
    · exact mem_splitsNL s v r
    · exact mem_cands_z s v r
  · exact mem_cands_num hk s v r

/-- `allM` enumerates exactly the decompositions of `s` into a text matching the tokens plus a rest. -/
theorem mem_allM (toks : List Tok) (s : Bytes) (cs : Caps) (r : Bytes) :
    (cs, r) ∈ allM toks s ↔ fits toks cs = true ∧ s = render toks cs ++ r := by
  induction toks generalizing s cs with
  | nil =>
    cases cs with
    | nil => simp [allM, fits, render, eq_comm]
    | cons c cs => simp [allM, fits]
  | cons t ts ih =>
    cases t with
    | lit b =>
      cases s with
      | nil => simp [allM, fits, render]
      | cons c s' =>
        simp only [allM, fits, render, List.cons_append, List.cons.injEq]
        by_cases hbc : b = c
        · simp only [hbc, if_true, true_and]
          exact ih s' cs
        · simp only [hbc, if_false, List.not_mem_nil, false_iff, not_and]
          intro _ h _
          exact hbc h.symm
    | cap k =>
      simp only [allM, List.mem_flatMap, List.mem_map, Prod.mk.injEq]
      constructor
      · rintro ⟨⟨v, r1⟩, hv, ⟨cs1, r2⟩, hm, he, rfl⟩
        obtain ⟨hok, rfl⟩ := (mem_cands k s v r1).mp hv
        obtain ⟨hf, hr⟩ := (ih r1 cs1).mp hm
        subst he
        simp only at hr
        subst hr
        simp [fits, render, hok, hf]
      · rintro ⟨hf, rfl⟩
        cases cs with
        | nil => simp [fits] at hf
        | cons c cs1 =>
          obtain ⟨k', v⟩ := c
          simp only [fits, Bool.and_eq_true, decide_eq_true_eq] at hf
          obtain ⟨⟨rfl, hok⟩, hf⟩ := hf
          refine ⟨(v, render ts cs1 ++ r), (mem_cands k' _ v _).mpr ⟨hok, by simp [render]⟩,
            (cs1, r), (ih _ cs1).mpr ⟨hf, rfl⟩, rfl, rfl⟩

/-! ### assignments, `capsOf`, `encodeA` -/

theorem fits_capsOf_iff (toks : List Tok) (A : Kind → Bytes) :
    fits toks (capsOf toks A) = true ↔ ∀ k, Tok.cap k ∈ toks → capOK k (A k) = true := by
  induction toks with
  | nil => simp [capsOf, fits]
  | cons t ts ih =>
    cases t with
    | lit b =>
      have : capsOf (Tok.lit b :: ts) A = capsOf ts A := by simp [capsOf]
      rw [this]
      simp only [fits, List.mem_cons, reduceCtorEq, false_or]
      exact ih
    | cap k =>
      have : capsOf (Tok.cap k :: ts) A = (k, A k) :: capsOf ts A := by simp [capsOf]
      rw [this]
      simp only [fits, decide_true, Bool.true_and, Bool.and_eq_true, List.mem_cons, Tok.cap.injEq]
      constructor
      · rintro ⟨h1, h2⟩ k' (rfl | hk')
        · exact h1
        · exact ih.mp h2 k' hk'
      · intro h
        exact ⟨h k (Or.inl rfl), ih.mpr fun k' hk' => h k' (Or.inr hk')⟩

theorem render_capsOf (toks : List Tok) (A : Kind → Bytes) :
    render toks (capsOf toks A) = encodeA toks A := by
  induction toks with
  | nil => rfl
  | cons t ts ih =>
    cases t with
    | lit b =>
      have : capsOf (Tok.lit b :: ts) A = capsOf ts A := by simp [capsOf]
      rw [this]
      simp only [render, encodeA, List.flatMap_cons, List.singleton_append, List.cons.injEq, true_and]
      exact ih
    | cap k =>
      have : capsOf (Tok.cap k :: ts) A = (k, A k) :: capsOf ts A := by simp [capsOf]
      rw [this]
      simp only [render, encodeA, List.flatMap_cons, List.append_cancel_left_eq]
      exact ih

/-- well-shaped captures that agree with an assignment are the captures of that assignment. -/
theorem fits_eq_capsOf (toks : List Tok) (cs : Caps) (A : Kind → Bytes)
    (hf : fits toks cs = true) (hA : ∀ c ∈ cs, c.2 = A c.1) : cs = capsOf toks A := by
  induction toks generalizing cs with
  | nil =>
    cases cs with
    | nil => rfl
    | cons c cs => simp [fits] at hf
  | cons t ts ih =>
    cases t with
    | lit b =>
      have : capsOf (Tok.lit b :: ts) A = capsOf ts A := by simp [capsOf]
      rw [this]
      exact ih cs (by simpa [fits] using hf) hA
    | cap k =>
      have : capsOf (Tok.cap k :: ts) A = (k, A k) :: capsOf ts A := by simp [capsOf]
      rw [this]
      cases cs with
      | nil => simp [fits] at hf
      | cons c cs1 =>
        obtain ⟨k', v⟩ := c
        simp only [fits, Bool.and_eq_true, decide_eq_true_eq] at hf
        obtain ⟨⟨rfl, _⟩, hf⟩ := hf
        have hv : v = A k' := hA (k', v) List.mem_cons_self
        rw [hv, ih cs1 hf (fun c hc => hA c (List.mem_cons_of_mem _ hc))]

theorem lastCap_of_agree (k : Kind) (cs : Caps) (A : Kind → Bytes) (hA : ∀ c ∈ cs, c.2 = A c.1)
    (v : Bytes) (h : lastCap k cs = some v) : v = A k := by
  induction cs with
  | nil => simp [lastCap] at h
  | cons c cs ih =>
    unfold lastCap at h
    split at h
    · rename_i v' hv'
      cases h
      exact ih (fun c hc => hA c (List.mem_cons_of_mem _ hc)) hv'
    · split at h
      · rename_i hk
        cases h
        rw [← hk]
        exact hA c List.mem_cons_self
      · cases h

theorem lastCap_isSome_of_mem (k : Kind) (cs : Caps) (v : Bytes) (h : (k, v) ∈ cs) :
    ∃ w, lastCap k cs = some w := by
  induction cs with
  | nil => cases h
  | cons c cs ih =>
    unfold lastCap
    cases hl : lastCap k cs with
    | some w => exact ⟨w, rfl⟩
    | none =>
      rcases List.mem_cons.mp h with rfl | h'
      · exact ⟨v, by simp⟩
      · obtain ⟨w, hw⟩ := ih h'
        rw [hl] at hw
        cases hw

theorem lastCap_capsOf (toks : List Tok) (A : Kind → Bytes) (k : Kind) (hk : Tok.cap k ∈ toks) :
    lastCap k (capsOf toks A) = some (A k) := by
  have hm : (k, A k) ∈ capsOf toks A := by
    simp only [capsOf, List.mem_filterMap]
    exact ⟨Tok.cap k, hk, rfl⟩
  obtain ⟨w, hw⟩ := lastCap_isSome_of_mem k _ _ hm
  have hA : ∀ c ∈ capsOf toks A, c.2 = A c.1 := by
    intro c hc
    simp only [capsOf, List.mem_filterMap] at hc
    obtain ⟨t, _, ht⟩ := hc
    cases t with
    | lit b => simp at ht
    | cap k' => simp at ht; rw [← ht]
  rw [hw, lastCap_of_agree k _ A hA w hw]

theorem lastCap_capsOf_none (toks : List Tok) (A : Kind → Bytes) (k : Kind) (hk : Tok.cap k ∉ toks) :
    lastCap k (capsOf toks A) = none := by
  cases hl : lastCap k (capsOf toks A) with
  | none => rfl
  | some w =>
    exfalso
    have : ∀ (cs : Caps) (w : Bytes), lastCap k cs = some w → ∃ v, (k, v) ∈ cs := by
      intro cs
      induction cs with
      | nil => intro w h; simp [lastCap] at h
      | cons c cs ih =>
        intro w h
        unfold lastCap at h
        split at h
        · rename_i v' hv'
          obtain ⟨v, hv⟩ := ih _ hv'
          exact ⟨v, List.mem_cons_of_mem _ hv⟩
        · split at h
          · rename_i hk'
            exact ⟨c.2, by rw [← hk']; exact List.mem_cons_self⟩
          · cases h
    obtain ⟨v, hv⟩ := this _ _ hl
    simp only [capsOf, List.mem_filterMap] at hv
    obtain ⟨t, ht, he⟩ := hv
    cases t with
    | lit b => simp at he
    | cap k' =>
      simp at he
      exact hk (he.1 ▸ ht)

theorem consistent_capsOf (toks : List Tok) (A : Kind → Bytes) : consistent (capsOf toks A) = true := by
  unfold consistent
  rw [List.all_eq_true]
  intro c hc
  have hc' := hc
  simp only [capsOf, List.mem_filterMap] at hc
  obtain ⟨t, ht, he⟩ := hc
  cases t with
  | lit b => simp at he
  | cap k =>
    simp at he
    rw [← he]
    simp [lastCap_capsOf toks A k ht]

/-- coherent captures agree with the assignment "last capture of each kind". -/
theorem consistent_agree (cs : Caps) (h : consistent cs = true) :
    ∀ c ∈ cs, c.2 = (fun k => (lastCap k cs).getD []) c.1 := by
  intro c hc
  unfold consistent at h
  rw [List.all_eq_true] at h
  have := h c hc
  simp only [beq_iff_eq] at this
  simp [this]

/-! ### determinism: uniqueness of the parse -/

theorem zoneOK_cases (v : Bytes) (h : zoneOK v = true) :
    v = [90] ∨ (v.length = 5 ∧ (∃ c, v.head? = some c ∧ c ≠ 90) ∧ ∃ d, v.getLast? = some d ∧ isDigit d = true) := by
  unfold zoneOK at h
  split at h
  · left; rfl
  · rename_i c r hne
    right
    simp only [Bool.and_eq_true, Bool.or_eq_true, beq_iff_eq] at h
    obtain ⟨⟨hc, hl⟩, hd⟩ := h
    refine ⟨by simp [hl], ⟨c, rfl, ?_⟩, ?_⟩
    · rcases hc with rfl | rfl <;> decide
    · have hr : r ≠ [] := by intro e; simp [e] at hl
      rw [List.getLast?_cons_of_ne_nil hr]
      cases hg : r.getLast? with
      | none => simp [List.getLast?_eq_none_iff] at hg; exact absurd hg hr
      | some d =>
        refine ⟨d, rfl, ?_⟩
        rw [List.all_eq_true] at hd
        exact hd d (List.mem_of_getLast? hg)
  · cases h

/-- two admissible texts of a non-path placeholder have the same length if they start alike … -/
theorem capOK_len_head {k : Kind} (hk : k ≠ .path) {v v' : Bytes}
    (h : capOK k v = true) (h' : capOK k v' = true) (hh : v.head? = v'.head?) : v.length = v'.length := by
  cases hn : k.isNum
  · cases k <;> simp [Kind.isNum] at hn
    · exact absurd rfl hk
    · simp only [capOK] at h h'
      rcases zoneOK_cases v h with rfl | ⟨hl, ⟨c, hc, hc9⟩, _⟩ <;>
        rcases zoneOK_cases v' h' with rfl | ⟨hl', ⟨c', hc', hc9'⟩, _⟩
      · rfl
      · rw [hc'] at hh; simp at hh; exact absurd hh.symm hc9'
      · rw [hc] at hh; simp at hh; exact absurd hh hc9
      · omega
  · rw [capOK_num hn] at h h'
    simp only [Bool.and_eq_true, beq_iff_eq] at h h'
    omega

/-- … or end alike. -/
theorem capOK_len_last {k : Kind} (hk : k ≠ .path) {v v' : Bytes}
    (h : capOK k v = true) (h' : capOK k v' = true) (hh : v.getLast? = v'.getLast?) : v.length = v'.length := by
  cases hn : k.isNum
  · cases k <;> simp [Kind.isNum] at hn
    · exact absurd rfl hk
    · simp only [capOK] at h h'
      rcases zoneOK_cases v h with rfl | ⟨hl, _, ⟨d, hd, hdd⟩⟩ <;>
        rcases zoneOK_cases v' h' with rfl | ⟨hl', _, ⟨d', hd', hdd'⟩⟩
      · rfl
      · rw [hd'] at hh; simp at hh; subst hh; exact absurd hdd' (by decide)
      · rw [hd] at hh; simp at hh; subst hh; exact absurd hdd (by decide)
      · omega
  · rw [capOK_num hn] at h h'
    simp only [Bool.and_eq_true, beq_iff_eq] at h h'
    omega

theorem capOK_ne_nil {k : Kind} (hk : k ≠ .path) {v : Bytes} (h : capOK k v = true) : v ≠ [] := by
  intro e
  subst e
  cases k <;> first | exact absurd rfl hk | simp [capOK, zoneOK, Kind.width] at h

theorem cap_left_inj {k : Kind} (hk : k ≠ .path) {v v' x x' : Bytes}
    (h : capOK k v = true) (h' : capOK k v' = true) (he : v ++ x = v' ++ x') : v = v' ∧ x = x' := by
  apply List.append_inj he
  apply capOK_len_head hk h h'
  have := congrArg List.head? he
  cases v with
  | nil => exact absurd rfl (capOK_ne_nil hk h)
  | cons a v1 =>
    cases v' with
    | nil => exact absurd rfl (capOK_ne_nil hk h')
    | cons b v2 => simpa using this

theorem cap_right_inj {k : Kind} (hk : k ≠ .path) {v v' a a' : Bytes}
    (h : capOK k v = true) (h' : capOK k v' = true) (he : a ++ v = a' ++ v') : a = a' ∧ v = v' := by
  apply List.append_inj' he
  apply capOK_len_last hk h h'
  have := congrArg List.getLast? he
  rw [List.getLast?_append, List.getLast?_append] at this
  have hv := capOK_ne_nil hk h
  have hv' := capOK_ne_nil hk h'
  cases hg : v.getLast? with
  | none => exact absurd (List.getLast?_eq_none_iff.mp hg) hv
  | some d =>
    cases hg' : v'.getLast? with
    | none => exact absurd (List.getLast?_eq_none_iff.mp hg') hv'
    | some d' => rw [hg, hg'] at this; simpa using this

def pathFree (toks : List Tok) : Prop := ∀ t ∈ toks, t ≠ Tok.cap .path

theorem pathCount_cons_path (ts : List Tok) : pathCount (Tok.cap .path :: ts) = pathCount ts + 1 := by
  simp [pathCount]

theorem pathCount_cons_lit (b : UInt8) (ts : List Tok) : pathCount (Tok.lit b :: ts) = pathCount ts := by
  simp [pathCount]

theorem pathCount_cons_cap {k : Kind} (hk : k ≠ .path) (ts : List Tok) :
    pathCount (Tok.cap k :: ts) = pathCount ts := by
  simp [pathCount, hk]

theorem pathFree_of_count (toks : List Tok) (h : pathCount toks = 0) : pathFree toks := by
  intro t ht e
  subst e
  unfold pathCount at h
  have : Tok.cap Kind.path ∈ toks.filter (· == Tok.cap .path) := by
    rw [List.mem_filter]; exact ⟨ht, by simp⟩
  rw [List.length_eq_zero_iff.mp h] at this
  cases this

/-- path-free token sequences parse deterministically from the right. -/
theorem render_right_inj (toks : List Tok) (hpf : pathFree toks) (cs cs' : Caps) (a a' : Bytes)
    (hf : fits toks cs = true) (hf' : fits toks cs' = true)
    (he : a ++ render toks cs = a' ++ render toks cs') : a = a' ∧ cs = cs' := by
  induction toks generalizing cs cs' a a' with
  | nil =>
    cases cs <;> cases cs' <;> simp [fits] at hf hf'
    simpa [render] using he
  | cons t ts ih =>
    have hpf' : pathFree ts := fun t ht => hpf t (List.mem_cons_of_mem _ ht)
    cases t with
    | lit b =>
      simp only [fits] at hf hf'
      simp only [render] at he
      have he' : (a ++ [b]) ++ render ts cs = (a' ++ [b]) ++ render ts cs' := by simpa using he
      obtain ⟨h1, h2⟩ := ih hpf' cs cs' _ _ hf hf' he'
      exact ⟨List.append_cancel_right h1, h2⟩
    | cap k =>
      have hk : k ≠ .path := fun e => hpf (Tok.cap k) List.mem_cons_self (by rw [e])
      cases cs with
      | nil => simp [fits] at hf
      | cons c cs1 =>
        cases cs' with
        | nil => simp [fits] at hf'
        | cons c' cs1' =>
          obtain ⟨k1, v⟩ := c
          obtain ⟨k2, v'⟩ := c'
          simp only [fits, Bool.and_eq_true, decide_eq_true_eq] at hf hf'
          obtain ⟨⟨rfl, hok⟩, hf⟩ := hf
          obtain ⟨⟨rfl, hok'⟩, hf'⟩ := hf'
          simp only [render] at he
          have he' : (a ++ v) ++ render ts cs1 = (a' ++ v') ++ render ts cs1' := by simpa using he
          obtain ⟨h1, h2⟩ := ih hpf' cs1 cs1' _ _ hf hf' he'
          obtain ⟨h3, h4⟩ := cap_right_inj hk hok hok' h1
          exact ⟨h3, by rw [h4, h2]⟩

/-- **Uniqueness of the parse**: with at most one `%path`, a name has at most one decomposition along
the format (fixed-width fields; the zone text is determined by its first and by its last byte). -/
theorem render_inj (toks : List Tok) (h1 : pathCount toks ≤ 1) (cs cs' : Caps)
    (hf : fits toks cs = true) (hf' : fits toks cs' = true)
    (he : render toks cs = render toks cs') : cs = cs' := by
  induction toks generalizing cs cs' with
  | nil => cases cs <;> cases cs' <;> simp [fits] at hf hf' ⊢
  | cons t ts ih =>
    cases t with
    | lit b =>
      rw [pathCount_cons_lit] at h1
      simp only [fits] at hf hf'
      simp only [render, List.cons.injEq, true_and] at he
      exact ih h1 cs cs' hf hf' he
    | cap k =>
      cases cs with
      | nil => simp [fits] at hf
      | cons c cs1 =>
        cases cs' with
        | nil => simp [fits] at hf'
        | cons c' cs1' =>
          obtain ⟨k1, v⟩ := c
          obtain ⟨k2, v'⟩ := c'
          simp only [fits, Bool.and_eq_true, decide_eq_true_eq] at hf hf'
          obtain ⟨⟨rfl, hok⟩, hf⟩ := hf
          obtain ⟨⟨rfl, hok'⟩, hf'⟩ := hf'
          simp only [render] at he
          by_cases hk : k2 = .path
          · subst hk
            rw [pathCount_cons_path] at h1
            have hpf : pathFree ts := pathFree_of_count ts (by omega)
            obtain ⟨h3, h4⟩ := render_right_inj ts hpf cs1 cs1' v v' hf hf' he
            rw [h3, h4]
          · rw [pathCount_cons_cap hk] at h1
            obtain ⟨h3, h4⟩ := cap_left_inj hk hok hok' he
            rw [h3, ih h1 cs1 cs1' hf hf' h4]

/-! ### path-free formats: the matcher is deterministic -/

theorem cands_len_le_one {k : Kind} (hk : k ≠ .path) (s : Bytes) : (cands k s).length ≤ 1 := by
  cases hn : k.isNum
  · cases k <;> simp [Kind.isNum] at hn
    · exact absurd rfl hk
    · simp only [cands]
      cases s with
      | nil => simp
      | cons c t =>
        simp only
        split
        · simp
        · split <;> simp
  · rw [cands_num hn]
    split <;> simp

theorem cands_det {k : Kind} (hk : k ≠ .path) {v : Bytes} (hok : capOK k v = true) (r : Bytes) :
    cands k (v ++ r) = [(v, r)] := by
  have hm : (v, r) ∈ cands k (v ++ r) := (mem_cands k _ v r).mpr ⟨hok, rfl⟩
  have hl := cands_len_le_one hk (v ++ r)
  cases hc : cands k (v ++ r) with
  | nil => rw [hc] at hm; cases hm
  | cons x xs =>
    rw [hc] at hm hl
    cases xs with
    | nil => simp only [List.mem_singleton] at hm; rw [hm]
    | cons y ys => simp at hl

theorem allM_det (toks : List Tok) (hpf : pathFree toks) (cs : Caps) (r : Bytes)
    (hf : fits toks cs = true) : allM toks (render toks cs ++ r) = [(cs, r)] := by
  induction toks generalizing cs with
  | nil => cases cs <;> simp [fits] at hf; simp [allM, render]
  | cons t ts ih =>
    have hpf' : pathFree ts := fun t ht => hpf t (List.mem_cons_of_mem _ ht)
    cases t with
    | lit b =>
      simp only [fits] at hf
      simp [allM, render, ih hpf' cs hf]
    | cap k =>
      have hk : k ≠ .path := fun e => hpf (Tok.cap k) List.mem_cons_self (by rw [e])
      cases cs with
      | nil => simp [fits] at hf
      | cons c cs1 =>
        obtain ⟨k1, v⟩ := c
        simp only [fits, Bool.and_eq_true, decide_eq_true_eq] at hf
        obtain ⟨⟨e, hok⟩, hf⟩ := hf
        subst e
        simp only [allM, render, List.append_assoc]
        rw [cands_det hk hok]
        simp [ih hpf' cs1 hf]

theorem search_head (toks : List Tok) (s : Bytes) (off : Nat) (cr : Caps × Bytes)
    (h : (allM toks s).head? = some cr) : search toks off s = some ⟨off, cr.1, cr.2⟩ := by
  cases s with
  | nil => simp [search, h]
  | cons x s => simp [search, h]

/-! ### decimal texts -/

theorem parseDec_append_single (l : Bytes) (c : UInt8) :
    parseDec (l ++ [c]) = parseDec l * 10 + (c.toNat - 48) := by
  simp [parseDec, List.foldl_append]

theorem digit_toNat (d : Nat) (h : d < 10) : (UInt8.ofNat (48 + d)).toNat - 48 = d := by
  rw [UInt8.toNat_ofNat']
  omega

theorem parseDec_natDecAux (fuel n : Nat) (h : n < 10 ^ fuel) : parseDec (natDecAux fuel n) = n := by
  induction fuel generalizing n with
  | zero => simp at h; subst h; rfl
  | succ f ih =>
    unfold natDecAux
    split
    · rename_i h10
      have := parseDec_append_single [] (UInt8.ofNat (48 + n))
      simp only [List.nil_append] at this
      rw [this, digit_toNat n h10]
      simp [parseDec]
    · rw [parseDec_append_single, ih (n / 10) (by rw [Nat.pow_succ] at h; omega),
        digit_toNat (n % 10) (Nat.mod_lt _ (by decide))]
      omega

theorem parseDec_natDec (n : Nat) (h : n < 10 ^ 20) : parseDec (natDec n) = n :=
  parseDec_natDecAux 20 n h

theorem parseDec_zeros (k : Nat) (l : Bytes) : parseDec (List.replicate k 48 ++ l) = parseDec l := by
  induction k with
  | zero => simp
  | succ k ih =>
    rw [List.replicate_succ, List.cons_append]
    unfold parseDec at ih ⊢
    simpa using ih

theorem parseDec_leadingZeros (v w : Nat) (h : v < 10 ^ 20) : parseDec (leadingZeros v w) = v := by
  unfold leadingZeros
  simp only
  rw [parseDec_zeros, parseDec_natDec v h]

end MtxVerif.C26
