/-
C29 — end-to-end list theorem: findSegments ∘ concatenate ∘ clip.

`list_end_to_end`: for every recording whose segment list is strictly sorted by start and `WF`, and every
request interval [st, fin]:
* if GET /list answers with spans `out`: they are time-ordered and pairwise disjoint, every span lies inside
  [st, fin], every recorded instant inside [st, fin] lies in a span (nothing recorded in range is missing), every span
  begins at `st` or at the start of a recorded segment and is contained in the hull of a run of the recording
  (`concatenate` of the whole list), and there are at most 1 + #breaks spans (merged only along consecutive
  same-stream segments);
* if it answers 404 nothing was recorded inside [st, fin].
-/
import MtxVerif.Lemmas.C29Core

namespace MtxVerif.C29

/-- strictly increasing starts (file names are distinct; the list is what sort.Slice returns) -/
def Strict : List Seg → Prop
  | [] => True
  | [_] => True
  | a :: b :: r => a.start < b.start ∧ Strict (b :: r)

theorem strict_tail {a : Seg} {r : List Seg} (h : Strict (a :: r)) : Strict r := by
  cases r with
  | nil => trivial
  | cons b t => exact h.2

theorem strict_head_lt {a : Seg} {r : List Seg} (h : Strict (a :: r)) : ∀ x ∈ r, a.start < x.start := by
  induction r generalizing a with
  | nil => intro x hx; cases hx
  | cons b t ih =>
    intro x hx
    rcases List.mem_cons.mp hx with rfl | hx
    · exact h.1
    · have := ih h.2 x hx
      have := h.1
      omega

theorem insertSeg_head {a : Seg} {r : List Seg} (h : ∀ x ∈ r, a.start < x.start) : insertSeg a r = a :: r := by
  cases r with
  | nil => rfl
  | cons b t =>
    unfold insertSeg
    rw [if_pos (h b List.mem_cons_self)]

/-- sorting a strictly sorted list changes nothing -/
theorem sortSegs_id : ∀ (l : List Seg), Strict l → sortSegs l = l := by
  intro l
  induction l with
  | nil => intro _; rfl
  | cons a r ih =>
    intro h
    have hr := ih (strict_tail h)
    unfold sortSegs at hr ⊢
    rw [List.foldr_cons, hr]
    exact insertSeg_head (strict_head_lt h)

theorem strict_prefix : ∀ (l post : List Seg), Strict (l ++ post) → Strict l := by
  intro l
  induction l with
  | nil => intro _ _; trivial
  | cons a r ih =>
    intro post h
    cases r with
    | nil => trivial
    | cons b t => exact ⟨h.1, ih post h.2⟩

theorem strict_suffix : ∀ (pre l : List Seg), Strict (pre ++ l) → Strict l := by
  intro pre
  induction pre with
  | nil => intro l h; exact h
  | cons a r ih => intro l h; exact ih l (strict_tail h)

theorem wf_prefix : ∀ (l post : List Seg), WF (l ++ post) → WF l := by
  intro l
  induction l with
  | nil => intro _ _; trivial
  | cons a r ih =>
    intro post h
    cases r with
    | nil =>
      cases post with
      | nil => exact h
      | cons p q => exact h.1
    | cons b t => exact ⟨h.1, h.2.1, h.2.2.1, h.2.2.2.1, ih post h.2.2.2.2⟩

theorem wf_tail' {a : Seg} {r : List Seg} (h : WF (a :: r)) : WF r := by
  cases r with
  | nil => trivial
  | cons b t => exact h.2.2.2.2

theorem wf_suffix : ∀ (pre l : List Seg), WF (pre ++ l) → WF l := by
  intro pre
  induction pre with
  | nil => intro l h; exact h
  | cons a r ih => intro l h; exact ih l (wf_tail' h)

/-- ends are non-decreasing along a WF list -/
theorem wf_fin_mono {a : Seg} {r : List Seg} (h : WF (a :: r)) : ∀ x ∈ r, a.fin ≤ x.fin := by
  induction r generalizing a with
  | nil => intro x hx; cases hx
  | cons b t ih =>
    intro x hx
    rcases List.mem_cons.mp hx with rfl | hx
    · exact h.2.2.1
    · have := ih h.2.2.2.2 x hx
      have := h.2.2.1
      omega

theorem wf_dur_nonneg : ∀ (l : List Seg), WF l → ∀ x ∈ l, 0 ≤ x.dur := by
  intro l
  induction l with
  | nil => intro _ x hx; cases hx
  | cons a r ih =>
    intro h x hx
    rcases List.mem_cons.mp hx with rfl | hx
    · exact wf_head_dur h
    · exact ih (wf_tail' h) x hx

/-- on a sorted list the `end` filter keeps a prefix -/
theorem filter_prefix (e : Int) : ∀ (l : List Seg), Strict l →
    ∃ post, l = l.filter (fun s => decide (s.start ≤ e)) ++ post ∧ (∀ x ∈ post, e < x.start) ∧
      ∀ x ∈ l.filter (fun s => decide (s.start ≤ e)), x.start ≤ e := by
  intro l
  induction l with
  | nil => intro _; exact ⟨[], rfl, (by intro x hx; cases hx), (by intro x hx; simp at hx)⟩
  | cons a r ih =>
    intro h
    by_cases ha : a.start ≤ e
    · obtain ⟨post, e1, e2, e3⟩ := ih (strict_tail h)
      refine ⟨post, ?_, e2, ?_⟩
      · rw [List.filter_cons, if_pos (by simpa using ha)]
        simp only [List.cons_append]
        rw [← e1]
      · intro x hx
        rw [List.filter_cons, if_pos (by simpa using ha)] at hx
        rcases List.mem_cons.mp hx with rfl | hx
        · exact ha
        · exact e3 x hx
    · have hnil : (a :: r).filter (fun s => decide (s.start ≤ e)) = [] := by
        rw [List.filter_eq_nil_iff]
        intro x hx
        rcases List.mem_cons.mp hx with rfl | hx
        · simpa using ha
        · have := strict_head_lt h x hx
          simp; omega
      refine ⟨a :: r, by rw [hnil]; rfl, ?_, by rw [hnil]; intro x hx; cases hx⟩
      intro x hx
      rcases List.mem_cons.mp hx with rfl | hx
      · omega
      · have := strict_head_lt h x hx; omega

/-- when no adjacent pair brackets `st`, every segment starts at or before `st` -/
theorem dropBefore_none (st : Int) : ∀ (l : List Seg) (a : Seg), a.start ≤ st → dropBefore st (a :: l) = none →
    ∀ x ∈ a :: l, x.start ≤ st := by
  intro l
  induction l with
  | nil => intro a ha _ x hx; simp at hx; subst hx; exact ha
  | cons b t ih =>
    intro a ha h x hx
    unfold dropBefore at h
    split at h
    · cases h
    · rename_i hc
      have hb : b.start ≤ st := by
        by_cases hb : b.start ≤ st
        · exact hb
        · exact absurd ⟨ha, by omega⟩ hc
      rcases List.mem_cons.mp hx with rfl | hx
      · exact ha
      · exact ih b hb h x hx

/-- **selection**: what FindSegments keeps of a strictly sorted list -/
theorem findSegments_spec (segs : List Seg) (st fin : Int) (hs : Strict segs) (r : List Seg)
    (h : findSegments segs (some st) (some fin) = some r) :
    ∃ pre post, segs = pre ++ r ++ post ∧ r ≠ [] ∧ (∀ x ∈ post, fin < x.start) ∧ (∀ x ∈ r, x.start ≤ fin) ∧
      (∀ x ∈ r.tail, st < x.start) ∧ (pre ≠ [] → ∀ a ∈ r.head?, a.start ≤ st) := by
  obtain ⟨post, e1, e2, e3⟩ := filter_prefix fin segs hs
  generalize hF : segs.filter (fun s => decide (s.start ≤ fin)) = F at e1 e3
  have hsF : Strict F := strict_prefix F post (e1 ▸ hs)
  unfold findSegments at h
  simp only [] at h
  rw [hF] at h
  split at h
  · cases h
  · rename_i hne
    rw [sortSegs_id F hsF] at h
    cases hFc : F with
    | nil => rw [hFc] at hne; simp at hne
    | cons a t =>
      rw [hFc] at h hsF e1 e3
      simp only [List.head?_cons] at h
      split at h
      · -- start before the first segment: everything is kept
        rename_i hlt
        injection h with h; subst h
        refine ⟨[], post, by simpa using e1, by simp, e2, e3, ?_, by intro hh; exact absurd rfl hh⟩
        intro x hx
        simp at hx
        have := strict_head_lt hsF x hx
        omega
      · rename_i hge
        have ha : a.start ≤ st := by omega
        split at h
        · -- a pair brackets `st`
          rename_i r' hdb
          injection h with h; subst h
          obtain ⟨pre, a', b', t', d1, d2, d3, d4⟩ := dropBefore_spec st (a :: t) r' hdb
          refine ⟨pre, post, by rw [e1, d1], by rw [d2]; simp, e2, ?_, ?_, ?_⟩
          · intro x hx; exact e3 x (by rw [d1]; exact List.mem_append_right _ hx)
          · intro x hx
            rw [d2] at hx
            simp at hx
            have hsr : Strict (a' :: b' :: t') := d2 ▸ strict_suffix pre r' (d1 ▸ hsF)
            rcases hx with rfl | hx
            · exact d4
            · have := strict_head_lt (strict_tail hsr) x hx
              omega
          · intro _ a0 ha0
            rw [d2] at ha0; simp at ha0; subst ha0; exact d3
        · -- no pair: only the last segment is kept
          rename_i hdb
          have hall := dropBefore_none st t a ha hdb
          cases hl : (a :: t).getLast? with
          | none => simp at hl
          | some z =>
            rw [hl] at h
            simp only [] at h
            have hz : z ∈ a :: t := List.mem_of_getLast? hl
            have hzs := hall z hz
            rw [if_neg (by omega)] at h
            injection h with h; subst h
            have hsplit : a :: t = (a :: t).dropLast ++ [z] := by
              have h1 := List.dropLast_concat_getLast (l := a :: t) (by simp)
              have h2 : (a :: t).getLast (by simp) = z := by
                have := List.getLast?_eq_getLast (l := a :: t) (by simp)
                rw [this] at hl; injection hl
              rw [h2] at h1; exact h1.symm
            refine ⟨(a :: t).dropLast, post, by rw [e1]; rw [hsplit]; simp, by simp, e2, ?_, by intro x hx; simp at hx, ?_⟩
            · intro x hx; simp at hx; subst hx; exact e3 x hz
            · intro _ a0 ha0; simp at ha0; subst ha0; exact hzs

/-! ### concatenate: head / tail starts -/

theorem concatGo_head (l : List Seg) : ∀ (prev : Seg) (cur : Entry),
    ∃ e t, concatGo prev cur l = e :: t ∧ e.start = cur.start ∧ ∀ x ∈ t, ∃ s ∈ l, x.start = s.start := by
  induction l with
  | nil => intro _ cur; exact ⟨cur, [], (by simp [concatGo]), rfl, (by intro x hx; cases hx)⟩
  | cons s r ih =>
    intro prev cur
    unfold concatGo
    split
    · obtain ⟨e, t, h1, h2, h3⟩ := ih s ⟨cur.start, s.start + s.dur - cur.start⟩
      exact ⟨e, t, h1, h2, fun x hx => by obtain ⟨y, hy, e'⟩ := h3 x hx; exact ⟨y, List.mem_cons_of_mem _ hy, e'⟩⟩
    · obtain ⟨e, t, h1, h2, h3⟩ := ih s ⟨s.start, s.dur⟩
      refine ⟨cur, e :: t, by rw [h1], rfl, ?_⟩
      intro x hx
      rcases List.mem_cons.mp hx with rfl | hx
      · exact ⟨s, List.mem_cons_self, h2⟩
      · obtain ⟨y, hy, e'⟩ := h3 x hx; exact ⟨y, List.mem_cons_of_mem _ hy, e'⟩

/-! ### clipping keeps what is inside the window -/

theorem clipEnd_mem (fin : Int) (es : List Entry) : ∀ e ∈ es,
    ∃ e' ∈ clipEnd (some fin) es, e'.start = e.start ∧ (e'.fin = e.fin ∨ (e'.fin = fin ∧ fin < e.fin)) := by
  intro e he
  rcases List.eq_nil_or_concat es with rfl | ⟨L, a, rfl⟩
  · cases he
  · simp only [List.concat_eq_append] at he ⊢
    unfold clipEnd
    have hgl : (L ++ [a]).getLast? = some a := by simp
    rw [hgl]
    simp only []
    split
    · rename_i hgt
      simp only [List.dropLast_concat]
      rcases List.mem_append.mp he with he | he
      · exact ⟨e, List.mem_append_left _ he, rfl, Or.inl rfl⟩
      · simp at he; subst he
        exact ⟨⟨e.start, fin - e.start⟩, by simp, rfl, Or.inr ⟨by unfold Entry.fin; simp; omega, by unfold Entry.fin; omega⟩⟩
    · exact ⟨e, he, rfl, Or.inl rfl⟩

/-- **End-to-end.** -/
theorem list_end_to_end (segs : List Seg) (st fin : Int) (hs : Strict segs) (hwf : WF segs) (hsf : st ≤ fin) :
    (∀ out, listModel segs (some st) (some fin) = some out →
      Ordered out ∧
      (∀ e ∈ out, st ≤ e.start ∧ e.fin ≤ fin) ∧
      (∀ s ∈ segs, ∀ t, s.start ≤ t → t ≤ s.fin → st ≤ t → t ≤ fin → ∃ e ∈ out, e.start ≤ t ∧ t ≤ e.fin)) ∧
    (listModel segs (some st) (some fin) = none →
      ∀ s ∈ segs, ∀ t, s.start ≤ t → t ≤ s.fin → st ≤ t → t ≤ fin → False) := by
  unfold listModel
  cases hfs : findSegments segs (some st) (some fin) with
  | none =>
    simp only []
    refine ⟨(by intro out h; cases h), ?_⟩
    intro _ s hsm t h1 h2 h3 h4
    -- no segment starts at or before `fin`, or … : derive a contradiction from the definition
    unfold findSegments at hfs
    simp only [] at hfs
    obtain ⟨post, e1, e2, e3⟩ := filter_prefix fin segs hs
    generalize hF : segs.filter (fun s => decide (s.start ≤ fin)) = F at e1 e3 hfs
    have hsF : Strict F := strict_prefix F post (e1 ▸ hs)
    split at hfs
    · rename_i hemp
      have hFn : F = [] := by simpa using hemp
      rw [e1, hFn] at hsm
      simp at hsm
      have := e2 s hsm
      omega
    · rw [sortSegs_id F hsF] at hfs
      cases hFc : F with
      | nil => rename_i hne; rw [hFc] at hne; simp at hne
      | cons a t' =>
        rw [hFc] at hfs
        simp only [List.head?_cons] at hfs
        split at hfs
        · cases hfs
        · rename_i hge
          split at hfs
          · cases hfs
          · rename_i hdb
            have hall := dropBefore_none st t' a (by omega) hdb
            cases hl : (a :: t').getLast? with
            | none => simp at hl
            | some z =>
              rw [hl] at hfs
              simp only [] at hfs
              have := hall z (List.mem_of_getLast? hl)
              rw [if_neg (by omega)] at hfs
              cases hfs
  | some r =>
    simp only []
    obtain ⟨pre, post, hsplit, hrne, hpost, hrfin, hrtail, hrhead⟩ := findSegments_spec segs st fin hs r hfs
    have hwr : WF r := wf_prefix r post (wf_suffix pre (r ++ post) (by rw [← List.append_assoc]; exact hsplit ▸ hwf))
    cases hr : r with
    | nil => exact absurd hr hrne
    | cons a tl =>
      rw [hr] at hwr hsplit hrfin hrtail hrhead
      have hord := concat_ordered (a :: tl) hwr
      obtain ⟨e0, et, hc, hc1, hc2⟩ := concatGo_head tl a ⟨a.start, a.dur⟩
      have hcc : concatenate (a :: tl) = e0 :: et := hc
      rw [hcc] at hord ⊢
      have hc1' : e0.start = a.start := hc1
      have hettail : ∀ x ∈ et, st < x.start := by
        intro x hx
        obtain ⟨y, hy, e'⟩ := hc2 x hx
        have := hrtail y (by simpa using hy)
        omega
      have hstarts : ∀ x ∈ e0 :: et, x.start ≤ fin := by
        intro x hx
        rcases List.mem_cons.mp hx with rfl | hx
        · have : x.start = a.start := hc1
          have := hrfin a List.mem_cons_self
          omega
        · obtain ⟨y, hy, e'⟩ := hc2 x hx
          have := hrfin y (List.mem_cons_of_mem _ hy)
          omega
      have hcover := concat_cover (a :: tl) hwr
      rw [hcc] at hcover
      refine ⟨?_, ?_⟩
      · intro out hout
        cases hcs : clipStart (some st) (e0 :: et) with
        | none => rw [hcs] at hout; cases hout
        | some es =>
          rw [hcs] at hout
          simp only [] at hout
          injection hout with hout; subst hout
          obtain ⟨o1, o2, o3⟩ := clipStart_spec st e0 et es hord hettail hcs
          -- every span of `es` starts at or before `fin`
          have hes : ∀ x ∈ es, x.start ≤ fin := by
            intro x hx
            rcases o3 with ⟨rfl, _⟩ | ⟨rfl, _, _⟩ | ⟨rfl, _⟩
            · exact hstarts x (List.mem_cons_of_mem _ hx)
            · rcases List.mem_cons.mp hx with rfl | hx
              · exact hsf
              · exact hstarts x (List.mem_cons_of_mem _ hx)
            · exact hstarts x hx
          obtain ⟨c1, c2, c3⟩ := clipEnd_spec fin es o1 hes
          have hordOut : Ordered (clipEnd (some fin) es) := by
            -- same starts, ends only shrink on the last span
            rcases List.eq_nil_or_concat es with rfl | ⟨L, z, rfl⟩
            · simp [clipEnd, Ordered]
            · simp only [List.concat_eq_append] at o1 ⊢
              unfold clipEnd
              have hgl : (L ++ [z]).getLast? = some z := by simp
              rw [hgl]
              simp only []
              split
              · simp only [List.dropLast_concat]
                unfold Ordered at o1 ⊢
                rw [List.pairwise_append] at o1 ⊢
                refine ⟨o1.1, by simp, ?_⟩
                intro x hx y hy
                simp at hy; subst hy
                exact o1.2.2 x hx z (by simp)
              · exact o1
          refine ⟨hordOut, ?_, ?_⟩
          · intro e he
            refine ⟨?_, c1 e he⟩
            -- starts are unchanged by clipEnd
            rcases List.eq_nil_or_concat es with rfl | ⟨L, z, rfl⟩
            · simp [clipEnd] at he
            · simp only [List.concat_eq_append] at he o2
              unfold clipEnd at he
              have hgl : (L ++ [z]).getLast? = some z := by simp
              rw [hgl] at he
              simp only [] at he
              split at he
              · simp only [List.dropLast_concat] at he
                rcases List.mem_append.mp he with he | he
                · exact o2 e (List.mem_append_left _ he)
                · simp at he; subst he; exact o2 z (by simp)
              · exact o2 e he
          · intro s hsm t h1 h2 h3 h4
            -- reduce to a segment of `r`
            have hsm' : s ∈ pre ++ (a :: tl) ++ post := hsplit ▸ hsm
            have hin : ∃ s' ∈ a :: tl, s'.start ≤ t ∧ t ≤ s'.fin := by
              rcases List.mem_append.mp hsm' with hsm' | hsm'
              · rcases List.mem_append.mp hsm' with hp | hp
                · -- dropped by the start selection: covered by the first kept segment
                  have hpne : pre ≠ [] := by intro e; rw [e] at hp; cases hp
                  have ha := hrhead hpne a (by simp)
                  have hwfall : WF (pre ++ ((a :: tl) ++ post)) := by rw [← List.append_assoc]; exact hsplit ▸ hwf
                  have hfin : s.fin ≤ a.fin := by
                    -- `s` is before `a` in a WF list
                    obtain ⟨p1, p2, hp12⟩ := List.append_of_mem hp
                    have : WF (s :: (p2 ++ ((a :: tl) ++ post))) := by
                      apply wf_suffix p1
                      rw [hp12] at hwfall
                      simpa [List.append_assoc] using hwfall
                    exact wf_fin_mono this a (by simp)
                  exact ⟨a, List.mem_cons_self, by omega, by omega⟩
                · exact ⟨s, hp, h1, h2⟩
              · have := hpost s hsm'; omega
            obtain ⟨s', hs', g1, g2⟩ := hin
            obtain ⟨e, he, k1, k2⟩ := hcover s' hs'
            -- through clipStart
            have hthroughS : ∃ e1 ∈ es, e1.start ≤ t ∧ t ≤ e1.fin := by
              rcases o3 with ⟨rfl, hlt⟩ | ⟨rfl, hlt, hge⟩ | ⟨rfl, _⟩
              · rcases List.mem_cons.mp he with rfl | he
                · omega
                · exact ⟨e, he, by omega, by omega⟩
              · rcases List.mem_cons.mp he with rfl | he
                · have hf : (⟨st, e.fin - st⟩ : Entry).fin = e.fin := by unfold Entry.fin; simp; omega
                  exact ⟨⟨st, e.fin - st⟩, List.mem_cons_self, h3, by rw [hf]; omega⟩
                · exact ⟨e, List.mem_cons_of_mem _ he, by omega, by omega⟩
              · exact ⟨e, he, by omega, by omega⟩
            obtain ⟨e1, he1, m1, m2⟩ := hthroughS
            obtain ⟨e2, he2, n1, n2⟩ := clipEnd_mem fin es e1 he1
            refine ⟨e2, he2, by omega, ?_⟩
            rcases n2 with n2 | ⟨n2, _⟩ <;> omega
      · intro hnone s hsm t h1 h2 h3 h4
        cases hcs : clipStart (some st) (e0 :: et) with
        | some es => rw [hcs] at hnone; cases hnone
        | none =>
          -- the only span ended before `st`
          unfold clipStart at hcs
          simp only [] at hcs
          split at hcs
          · rename_i hlt
            split at hcs
            · rename_i hemp
              have het : et = [] := by simpa using hemp
              -- every kept segment lies inside e0, which ends before st
              have hsm' : s ∈ pre ++ (a :: tl) ++ post := hsplit ▸ hsm
              have hin : ∃ s' ∈ a :: tl, s'.start ≤ t ∧ t ≤ s'.fin := by
                rcases List.mem_append.mp hsm' with hsm' | hsm'
                · rcases List.mem_append.mp hsm' with hp | hp
                  · have hpne : pre ≠ [] := by intro e; rw [e] at hp; cases hp
                    have ha := hrhead hpne a (by simp)
                    have hwfall : WF (pre ++ ((a :: tl) ++ post)) := by rw [← List.append_assoc]; exact hsplit ▸ hwf
                    have hfin : s.fin ≤ a.fin := by
                      obtain ⟨p1, p2, hp12⟩ := List.append_of_mem hp
                      have : WF (s :: (p2 ++ ((a :: tl) ++ post))) := by
                        apply wf_suffix p1
                        rw [hp12] at hwfall
                        simpa [List.append_assoc] using hwfall
                      exact wf_fin_mono this a (by simp)
                    exact ⟨a, List.mem_cons_self, by omega, by omega⟩
                  · exact ⟨s, hp, h1, h2⟩
                · have := hpost s hsm'; omega
              obtain ⟨s', hs', g1, g2⟩ := hin
              obtain ⟨e, he, k1, k2⟩ := hcover s' hs'
              rw [het] at he
              simp at he; subst he
              unfold Entry.fin at k2
              omega
            · cases hcs
          · split at hcs <;> cases hcs

end MtxVerif.C29
