/-
C15 — helper lemmas: resolution (on top of C14), `createStatics`, the per-path decision of a reload.
No property is stated here.
-/
import MtxVerif.Props.C14
import MtxVerif.Model.C15

namespace MtxVerif.C15
open MtxVerif.C14 (Entry)

/-- what `Conf.Validate` guarantees for a configuration set (C14 `validate_ok_wf`) -/
structure WFconfs (confs : List Conf) : Prop where
  nodup : (confs.map (·.name)).Nodup
  oneAll : ∀ a ∈ confs, ∀ b ∈ confs, C14.isAllName a.name = true → C14.isAllName b.name = true → a = b

/-! #### lookup / resolve -/

theorem lookup_some {confs : List Conf} {cn : Bytes} {c : Conf} (h : lookup confs cn = some c) :
    c ∈ confs ∧ c.name = cn := by
  unfold lookup at h
  exact ⟨List.mem_of_find?_eq_some h, by simpa using List.find?_some h⟩

theorem lookup_mem {confs : List Conf} (hn : (confs.map (·.name)).Nodup) {c : Conf} (hc : c ∈ confs) :
    lookup confs c.name = some c := by
  cases h : lookup confs c.name with
  | none =>
    unfold lookup at h
    have := List.find?_eq_none.mp h c hc
    simp at this
  | some x =>
    have hx := lookup_some h
    rw [C14.map_nodup_inj Conf.name hn x hx.1 c hc hx.2]

theorem mem_entries {orc : Oracle} {confs : List Conf} {n : Bytes} {e : Entry}
    (h : e ∈ entries orc confs n) :
    ∃ c ∈ confs, e = ⟨c.name, c.regex, if c.regex then orc c.name n else none⟩ := by
  unfold entries at h
  obtain ⟨c, hc, rfl⟩ := List.mem_map.mp h
  exact ⟨c, hc, rfl⟩

theorem entries_names (orc : Oracle) (confs : List Conf) (n : Bytes) :
    (entries orc confs n).map (·.name) = confs.map (·.name) := by
  simp [entries, List.map_map, Function.comp_def]

theorem wf_entries {confs : List Conf} (wf : WFconfs confs) (orc : Oracle) (n : Bytes) :
    C14.WF (entries orc confs n) := by
  constructor
  · rw [entries_names]; exact wf.nodup
  · intro a ha b hb hA hB
    obtain ⟨ca, hca, rfl⟩ := mem_entries ha
    obtain ⟨cb, hcb, rfl⟩ := mem_entries hb
    rw [wf.oneAll ca hca cb hcb hA hB]

theorem firstMatch_found {l : List Entry} {cn : Bytes} {g : Option (List Bytes)}
    (h : C14.firstMatch l = .found cn g) : ∃ e ∈ l, e.name = cn ∧ e.m = g ∧ g ≠ none := by
  induction l with
  | nil => simp [C14.firstMatch] at h
  | cons x xs ih =>
    unfold C14.firstMatch at h
    cases hm : x.m with
    | some gg =>
      rw [hm] at h
      simp only [C14.Res.found.injEq] at h
      exact ⟨x, List.mem_cons_self, h.1, by rw [hm, h.2], by rw [← h.2]; simp⟩
    | none =>
      rw [hm] at h
      obtain ⟨e, he, h1, h2, h3⟩ := ih h
      exact ⟨e, List.mem_cons_of_mem _ he, h1, h2, h3⟩

theorem resolve_some {orc : Oracle} {confs : List Conf} {n : Bytes} {c : Conf} {m : Option (List Bytes)}
    (h : resolve orc confs n = some (c, m)) : c ∈ confs ∧ lookup confs c.name = some c := by
  unfold resolve at h
  split at h
  · rename_i cn g _
    cases hl : lookup confs cn with
    | none => rw [hl] at h; simp at h
    | some x =>
      rw [hl] at h
      simp only [Option.map_some, Option.some.injEq, Prod.mk.injEq] at h
      have := lookup_some hl
      rw [← h.1]
      exact ⟨this.1, by rw [this.2]; exact hl⟩
  · cases h

/-- the matches returned by resolution: none for the exact configuration, the oracle's answer for a
regex configuration (whose name then differs from the path name) -/
theorem resolve_shape {orc : Oracle} {confs : List Conf} {n : Bytes} {c : Conf} {m : Option (List Bytes)}
    (h : resolve orc confs n = some (c, m)) :
    (c.name = n ∧ m = none) ∨ (c.name ≠ n ∧ m = orc c.name n) := by
  unfold resolve at h
  split at h
  · rename_i cn g hf
    cases hl : lookup confs cn with
    | none => rw [hl] at h; simp at h
    | some x =>
      rw [hl] at h
      simp only [Option.map_some, Option.some.injEq, Prod.mk.injEq] at h
      obtain ⟨rfl, rfl⟩ := h
      have hx := lookup_some hl
      unfold C14.find at hf
      split at hf
      · rename_i e he
        simp only [C14.Res.found.injEq] at hf
        have hen : e.name = n := by simpa using List.find?_some he
        left
        exact ⟨by rw [hx.2, ← hf.1, hen], hf.2.symm⟩
      · rename_i hnone
        split at hf
        · cases hf
        · obtain ⟨e, he, h1, h2, _⟩ := firstMatch_found hf
          have he' : e ∈ (entries orc confs n).filter (fun e => e.regex) :=
            (C14.isort_isSort.perm _).subset he
          obtain ⟨hmem, hreg⟩ := List.mem_filter.mp he'
          obtain ⟨c', _, rfl⟩ := mem_entries hmem
          simp only at hreg h1 h2
          right
          constructor
          · intro hcn
            have := List.find?_eq_none.mp hnone _ hmem
            simp only [beq_iff_eq] at this
            exact this (by rw [h1, ← hx.2, hcn])
          · rw [← h2, hreg, hx.2, ← h1]; simp
  · cases h

theorem resolve_exact {orc : Oracle} {confs : List Conf} (wf : WFconfs confs) {c : Conf} (hc : c ∈ confs) :
    resolve orc confs c.name = some (c, none) := by
  have hmem : (⟨c.name, c.regex, if c.regex then orc c.name c.name else none⟩ : Entry) ∈ entries orc confs c.name := by
    unfold entries; exact List.mem_map.mpr ⟨c, hc, rfl⟩
  have := C14.find?_name_some (wf_entries wf orc c.name) hmem
  simp only at this
  unfold resolve C14.find
  rw [this]
  simp [lookup_mem wf.nodup hc]

/-! #### createStatics -/

theorem hasPath_false {ps : List LivePath} {n : Bytes} (h : hasPath ps n = false) :
    ∀ p ∈ ps, p.name ≠ n := by
  intro p hp hn
  have : hasPath ps n = true := List.any_eq_true.mpr ⟨p, hp, by simp [hn]⟩
  rw [h] at this; cases this

theorem hasPath_true {ps : List LivePath} {n : Bytes} (h : hasPath ps n = true) :
    ∃ p ∈ ps, p.name = n := by
  obtain ⟨p, hp, hn⟩ := List.any_eq_true.mp h
  exact ⟨p, hp, by simpa using hn⟩

theorem cs_sub (cs : List Conf) : ∀ (ps : List LivePath) (k : Nat) (p : LivePath), p ∈ ps →
    p ∈ (createStatics cs ps k).1 := by
  induction cs with
  | nil => intro ps k p hp; exact hp
  | cons c cs ih =>
    intro ps k p hp
    unfold createStatics
    split
    · exact ih _ _ p (List.mem_append_left _ hp)
    · exact ih _ _ p hp

theorem cs_le (cs : List Conf) : ∀ (ps : List LivePath) (k : Nat), k ≤ (createStatics cs ps k).2 := by
  induction cs with
  | nil => intro ps k; exact Nat.le_refl _
  | cons c cs ih =>
    intro ps k
    unfold createStatics
    split
    · exact Nat.le_trans (Nat.le_succ k) (ih _ _)
    · exact ih _ _

theorem cs_mem (cs : List Conf) : ∀ (ps : List LivePath) (k : Nat) (q : LivePath),
    q ∈ (createStatics cs ps k).1 →
    q ∈ ps ∨ ∃ c ∈ cs, c.regex = false ∧ ∃ i, k ≤ i ∧ i < (createStatics cs ps k).2 ∧ q = mkPath c c.name none i := by
  induction cs with
  | nil => intro ps k q hq; exact Or.inl hq
  | cons c cs ih =>
    intro ps k q hq
    unfold createStatics at hq ⊢
    split at hq
    · rename_i hcond
      simp only [hcond, if_true]
      simp only [Bool.and_eq_true, Bool.not_eq_true'] at hcond
      rcases ih _ _ q hq with h | ⟨c', hc', hr, i, hi1, hi2, rfl⟩
      · rcases List.mem_append.mp h with h | h
        · exact Or.inl h
        · right
          refine ⟨c, List.mem_cons_self, hcond.1, k, Nat.le_refl _, ?_, by simpa using h⟩
          exact Nat.lt_of_lt_of_le (Nat.lt_succ_self k) (cs_le cs _ _)
      · right
        exact ⟨c', List.mem_cons_of_mem _ hc', hr, i, Nat.le_of_succ_le hi1, hi2, rfl⟩
    · rename_i hcond
      simp only [hcond]
      rcases ih _ _ q hq with h | ⟨c', hc', hr, i, hi1, hi2, rfl⟩
      · exact Or.inl h
      · right
        exact ⟨c', List.mem_cons_of_mem _ hc', hr, i, hi1, hi2, rfl⟩

theorem cs_static (cs : List Conf) : ∀ (ps : List LivePath) (k : Nat) (c : Conf), c ∈ cs → c.regex = false →
    ∃ q ∈ (createStatics cs ps k).1, q.name = c.name := by
  induction cs with
  | nil => intro ps k c hc; cases hc
  | cons x cs ih =>
    intro ps k c hc hr
    unfold createStatics
    rcases List.mem_cons.mp hc with rfl | hc
    · split
      · exact ⟨mkPath c c.name none k, cs_sub cs _ _ _ (List.mem_append_right _ (List.mem_singleton.mpr rfl)), rfl⟩
      · rename_i hcond
        simp only [hr, Bool.not_false, Bool.true_and, Bool.not_eq_true', Bool.not_eq_false] at hcond
        obtain ⟨p, hp, hn⟩ := hasPath_true hcond
        exact ⟨p, cs_sub cs _ _ _ hp, hn⟩
    · split
      · exact ih _ _ c hc hr
      · exact ih _ _ c hc hr

theorem cs_names (cs : List Conf) : ∀ (ps : List LivePath) (k : Nat), (ps.map (·.name)).Nodup →
    ((createStatics cs ps k).1.map (·.name)).Nodup := by
  induction cs with
  | nil => intro ps k h; exact h
  | cons c cs ih =>
    intro ps k h
    unfold createStatics
    split
    · rename_i hcond
      simp only [Bool.and_eq_true, Bool.not_eq_true'] at hcond
      apply ih
      rw [List.map_append, List.nodup_append]
      refine ⟨h, by simp, ?_⟩
      intro a ha b hb
      obtain ⟨p, hp, rfl⟩ := List.mem_map.mp ha
      simp only [List.map_cons, List.map_nil, List.mem_singleton] at hb
      rw [hb]
      exact hasPath_false hcond.2 p hp
    · exact ih _ _ h

theorem cs_incs (cs : List Conf) : ∀ (ps : List LivePath) (k : Nat), (∀ p ∈ ps, p.inc < k) →
    (ps.map (·.inc)).Nodup →
    (∀ q ∈ (createStatics cs ps k).1, q.inc < (createStatics cs ps k).2) ∧
      ((createStatics cs ps k).1.map (·.inc)).Nodup := by
  induction cs with
  | nil => intro ps k h1 h2; exact ⟨h1, h2⟩
  | cons c cs ih =>
    intro ps k h1 h2
    unfold createStatics
    split
    · apply ih
      · intro p hp
        rcases List.mem_append.mp hp with hp | hp
        · exact Nat.lt_succ_of_lt (h1 p hp)
        · have : p = mkPath c c.name none k := by simpa using hp
          rw [this]; exact Nat.lt_succ_self k
      · rw [List.map_append, List.nodup_append]
        refine ⟨h2, by simp, ?_⟩
        intro a ha b hb
        obtain ⟨p, hp, rfl⟩ := List.mem_map.mp ha
        simp only [List.map_cons, List.map_nil, List.mem_singleton] at hb
        rw [hb]
        exact Nat.ne_of_lt (h1 p hp)
    · exact ih _ _ h1 h2

/-! #### filterMap / map keep names and incs distinct -/

theorem filterMap_nodup {α : Type} (key : LivePath → α) (f : LivePath → Option LivePath)
    (hf : ∀ p q, f p = some q → key q = key p) :
    ∀ (ps : List LivePath), (ps.map key).Nodup → ((ps.filterMap f).map key).Nodup := by
  intro ps
  induction ps with
  | nil => intro _; simp
  | cons x xs ih =>
    intro h
    simp only [List.map_cons, List.nodup_cons] at h
    rw [List.filterMap_cons]
    cases hx : f x with
    | none => exact ih h.2
    | some y =>
      simp only [List.map_cons, List.nodup_cons]
      refine ⟨?_, ih h.2⟩
      intro hmem
      obtain ⟨q, hq, hk⟩ := List.mem_map.mp hmem
      obtain ⟨p, hp, hpq⟩ := List.mem_filterMap.mp hq
      apply h.1
      rw [← hf x y hx, ← hk, hf p q hpq]
      exact List.mem_map.mpr ⟨p, hp, rfl⟩

theorem map_key_eq {α : Type} (key : LivePath → α) (f : LivePath → LivePath) (hf : ∀ p, key (f p) = key p)
    (ps : List LivePath) : (ps.map f).map key = ps.map key := by
  simp [List.map_map, Function.comp_def, hf]

theorem updPath_key {α : Type} (key : LivePath → α) (n : Bytes) (f : LivePath → LivePath)
    (hf : ∀ p, key (f p) = key p) (ps : List LivePath) : (updPath ps n f).map key = ps.map key := by
  unfold updPath
  apply map_key_eq
  intro p
  split
  · exact hf p
  · rfl

theorem mem_updPath {ps : List LivePath} {n : Bytes} {f : LivePath → LivePath} {q : LivePath}
    (h : q ∈ updPath ps n f) : ∃ p ∈ ps, q = p ∨ q = f p := by
  unfold updPath at h
  obtain ⟨p, hp, rfl⟩ := List.mem_map.mp h
  refine ⟨p, hp, ?_⟩
  split
  · exact Or.inr rfl
  · exact Or.inl rfl

/-! #### the per-path decision -/

theorem mem_toRecreate {old new : List Conf} {c n : Conf} (hc : c ∈ old) (hl : lookup new c.name = some n)
    (hne : n ≠ c) (hu : canUpdate c n = false) : (toRecreate old new).contains c.name = true := by
  unfold toRecreate
  rw [List.contains_iff_mem]
  apply List.mem_map.mpr
  refine ⟨c, List.mem_filter.mpr ⟨hc, ?_⟩, rfl⟩
  simp [hl, hne, hu]

theorem mem_toReload {old new : List Conf} {c n : Conf} (hc : c ∈ old) (hl : lookup new c.name = some n)
    (hne : n ≠ c) (hu : canUpdate c n = true) : (toReload old new).contains c.name = true := by
  unfold toReload
  rw [List.contains_iff_mem]
  apply List.mem_map.mpr
  refine ⟨c, List.mem_filter.mpr ⟨hc, ?_⟩, rfl⟩
  simp [hl, hne, hu]

theorem toRecreate_mem {old new : List Conf} {cn : Bytes} (h : (toRecreate old new).contains cn = true) :
    ∃ c ∈ old, c.name = cn ∧ ∃ n, lookup new cn = some n ∧ n ≠ c ∧ canUpdate c n = false := by
  unfold toRecreate at h
  rw [List.contains_iff_mem] at h
  obtain ⟨c, hc, rfl⟩ := List.mem_map.mp h
  obtain ⟨hc1, hc2⟩ := List.mem_filter.mp hc
  refine ⟨c, hc1, rfl, ?_⟩
  split at hc2
  · rename_i n hn
    simp only [Bool.and_eq_true, bne_iff_ne, ne_eq, Bool.not_eq_true'] at hc2
    exact ⟨n, hn, hc2.1, hc2.2⟩
  · cases hc2

theorem getLast?_append_singleton {α : Type} (l : List α) (a : α) : (l ++ [a]).getLast? = some a := by
  simp

end MtxVerif.C15
