/- PathSM invariant: describe / addReader / removeReader arms -/
import MtxVerif.Lemmas.C18PathSM

namespace MtxVerif.PathSM

theorem inv_doDescribe (rid : Nat) (w : W) (h : Inv w.s) (hc : w.s.closed = false) : Inv (doDescribe rid w).s := by
  unfold doDescribe
  split
  · exact h
  split
  · rw [replyStream_s]; exact h
  split
  · simp only [upd_s, holdDemand_s]
    obtain ⟨h1, h2, h3, h4, h5, h6, h7, h8, h9, h9', h10, h11, h12, h13, h14, h15, h16, h17, h18, h19, h20, h21, h22, h23, h24⟩ := h
    have := odStatic_iff w.s.conf
    inv_fields
  split
  · exact h
  · exact h

theorem inv_doAddReader (rid r : Nat) (w : W) (h : Inv w.s) (hc : w.s.closed = false) : Inv (doAddReader rid r w).s := by
  unfold doAddReader
  split
  · exact inv_rdstep h ‹_› (addReaderPost_rd ..)
  split
  · simp only [upd_s, holdDemand_s]
    cases h
    have := odStatic_iff w.s.conf
    inv_fields
  · exact h

theorem filter_ne_length (l : List Nat) (r : Nat) : (l.filter (· != r)).length ≤ l.length := List.length_filter_le _ _

theorem inv_doRemoveReader (r : Nat) (w : W) (h : Inv w.s) (hc : w.s.closed = false) : Inv (doRemoveReader r w).s := by
  unfold doRemoveReader onDemandStaticSourceScheduleClose onDemandPublisherScheduleClose
  have h1 := filter_ne_length w.s.readers r
  have h2 : (w.s.readers.filter (· != r)).Nodup := h.nodup.filter _
  have h3 : w.s.readers.filter (· != r) ≠ [] → w.s.readers ≠ [] := by
    intro hne he; rw [he] at hne; exact hne rfl
  cases h
  have := odStatic_iff w.s.conf
  dsimp only
  repeat' split
  all_goals (simp only [upd_s, emit_s] at *; generalize w.s.readers.filter (· != r) = rs at *; inv_fields)


end MtxVerif.PathSM
