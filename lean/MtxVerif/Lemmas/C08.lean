/-
C08 — helper lemmas for Props/C08: decimal text, the days-prefix regular expression, reading back the text of a
sign/magnitude pair, a concrete toy time library satisfying `DurLib`, rounding lemmas for byte sizes.
-/
import MtxVerif.Model.C08

namespace MtxVerif.C08


theorem digit_facts : ∀ k : Fin 10, isDigit (UInt8.ofNat (48 + k.val)) = true ∧
    (UInt8.ofNat (48 + k.val)).toNat - 48 = k.val ∧ UInt8.ofNat (48 + k.val) ≠ 45 ∧ UInt8.ofNat (48 + k.val) ≠ 100 := by decide

def step10 (acc : Nat) (c : UInt8) : Nat := acc * 10 + (c.toNat - 48)

theorem digitsVal_eq (ds : Bytes) : digitsVal ds = ds.foldl step10 0 := rfl

/-- `decFuel` prepends the decimal digits of `n` -/
theorem decFuel_spec : ∀ (f n : Nat) (acc : Bytes), n < 10 ^ f → 0 < f →
    ∃ ds : Bytes, decFuel f n acc = ds ++ acc ∧ ds ≠ [] ∧ (∀ c ∈ ds, isDigit c = true) ∧
      (∀ a, ds.foldl step10 a = a * 10 ^ ds.length + n) ∧ (∀ c, ds.head? = some c → c ≠ 45)
  | 0, _, _, _, hf => absurd hf (by decide)
  | f + 1, n, acc, hn, _ => by
    have hk : n % 10 < 10 := Nat.mod_lt _ (by decide)
    obtain ⟨d1, d2, d3, d4⟩ := digit_facts ⟨n % 10, hk⟩
    simp only at d1 d2 d3 d4
    unfold decFuel
    simp only []
    split
    · next h0 =>
      refine ⟨[UInt8.ofNat (48 + n % 10)], rfl, by simp, ?_, ?_, ?_⟩
      · intro c hc; rw [List.mem_singleton.mp hc]; exact d1
      · intro a; simp only [List.foldl, step10, d2, List.length_singleton, Nat.pow_one]; omega
      · intro c hc; rw [← Option.some.inj hc]; exact d3
    · next h0 =>
      have hf1 : 0 < f := by
        rcases Nat.eq_zero_or_pos f with h | h
        · subst h; simp at hn; omega
        · exact h
      have hn' : n / 10 < 10 ^ f := by
        rw [Nat.pow_succ] at hn; omega
      obtain ⟨ds, e, hne, hdig, hval, hhead⟩ := decFuel_spec f (n / 10) (UInt8.ofNat (48 + n % 10) :: acc) hn' hf1
      refine ⟨ds ++ [UInt8.ofNat (48 + n % 10)], by rw [e]; simp, by simp, ?_, ?_, ?_⟩
      · intro c hc
        rcases List.mem_append.mp hc with h | h
        · exact hdig c h
        · rw [List.mem_singleton.mp h]; exact d1
      · intro a
        rw [List.foldl_append, hval a]
        simp only [List.foldl, step10, d2, List.length_append, List.length_singleton, Nat.pow_succ]
        have := Nat.div_add_mod n 10
        rw [Nat.add_mul, Nat.mul_assoc]
        omega
      · intro c hc
        cases ds with
        | nil => exact absurd rfl hne
        | cons x xs => simp at hc; exact hhead x (by simp) |> fun h => hc ▸ h


/-- facts about `dec n` (= `strconv.FormatInt`): non-empty, only digits, does not start with '-', value n -/
theorem dec_spec (n : Nat) (h : n < 10 ^ 25) :
    dec n ≠ [] ∧ (∀ c ∈ dec n, isDigit c = true) ∧ digitsVal (dec n) = n ∧ (∀ c, (dec n).head? = some c → c ≠ 45) := by
  obtain ⟨ds, e, hne, hdig, hval, hhead⟩ := decFuel_spec 25 n [] h (by decide)
  have : dec n = ds := by unfold dec; rw [e]; simp
  rw [this]
  refine ⟨hne, hdig, ?_, hhead⟩
  rw [digitsVal_eq, hval 0]; simp

theorem takeWhile_digits : ∀ (ds : Bytes) (c : UInt8) (r : Bytes), (∀ x ∈ ds, isDigit x = true) → isDigit c = false →
    (ds ++ c :: r).takeWhile isDigit = ds
  | [], c, r, _, hc => by simp [List.takeWhile, hc]
  | d :: ds, c, r, hd, hc => by
    have h1 : isDigit d = true := hd d (by simp)
    simp only [List.cons_append, List.takeWhile, h1]
    rw [takeWhile_digits ds c r (fun x hx => hd x (by simp [hx])) hc]

/-- the regular expression on our own days prefix: `<digits>d<rest>` -/
theorem daysPrefix_dec (n : Nat) (h : n < 10 ^ 25) (rest : Bytes) :
    daysPrefix (dec n ++ 100 :: rest) = some (false, dec n, rest) := by
  obtain ⟨hne, hdig, _, hhead⟩ := dec_spec n h
  unfold daysPrefix
  have hneg : ((dec n ++ 100 :: rest).head? == some 45) = false := by
    cases hd : dec n with
    | nil => exact absurd hd hne
    | cons x xs =>
      have : x ≠ 45 := hhead x (by rw [hd]; rfl)
      simp [this]
  simp only [hneg, Bool.false_eq_true, if_false]
  rw [takeWhile_digits (dec n) 100 rest hdig (by decide)]
  have : (dec n).isEmpty = false := by cases hd : dec n with | nil => exact absurd hd hne | cons _ _ => rfl
  simp only [this, Bool.false_eq_true, if_false, List.drop_left]

theorem daysPrefix_neg_dec (n : Nat) (h : n < 10 ^ 25) (rest : Bytes) :
    daysPrefix (45 :: (dec n ++ 100 :: rest)) = some (true, dec n, rest) := by
  obtain ⟨hne, hdig, _, _⟩ := dec_spec n h
  unfold daysPrefix
  simp only [List.head?_cons, BEq.rfl, if_true, List.drop_succ_cons, List.drop_zero]
  rw [takeWhile_digits (dec n) 100 rest hdig (by decide)]
  have : (dec n).isEmpty = false := by cases hd : dec n with | nil => exact absurd hd hne | cons _ _ => rfl
  simp only [this, Bool.false_eq_true, if_false, List.drop_left]


/-- what `durationOld_rt_partial` assumes about `time.Duration.String` / `time.ParseDuration` for sub-day values
(checked on samples of the real library by the `durlib` ops) -/
structure DurLib (fmt : Int → Bytes) (parse : Bytes → Option Int) : Prop where
  inv : ∀ x, 0 < x → x < day → parse (fmt x) = some x
  invNeg : ∀ x, 0 < x → x < day → parse (45 :: fmt x) = some (-x)
  noDays : ∀ x, 0 < x → x < day → daysPrefix (fmt x) = none
  noDaysNeg : ∀ x, 0 < x → x < day → daysPrefix (45 :: fmt x) = none
  nonEmpty : ∀ x, 0 < x → x < day → fmt x ≠ []

theorem wrap64_id {x : Int} (h1 : minI64 ≤ x) (h2 : x ≤ maxI64) : wrap64 x = x := by
  unfold wrap64 minI64 maxI64 two63 at *; omega

theorem wrap64_two63 : wrap64 two63 = -two63 := by decide

theorem parseIntClamp_pos (n : Nat) (h : (n : Int) ≤ maxI64) : parseIntClamp false (dec n) = n := by
  have hn : n < 10 ^ 25 := by unfold maxI64 two63 at h; omega
  unfold parseIntClamp
  simp only [(dec_spec n hn).2.2.1, Bool.false_eq_true, if_false]
  rw [if_neg (by omega)]

theorem parseIntClamp_neg (n : Nat) (h : (n : Int) ≤ two63) : parseIntClamp true (dec n) = -(n : Int) := by
  have hn : n < 10 ^ 25 := by unfold two63 at h; omega
  unfold parseIntClamp
  simp only [(dec_spec n hn).2.2.1, if_true]
  rw [if_neg (by unfold minI64; omega)]

/-- text of a duration with magnitude `m` as the (fixed) marshaller writes it -/
def textOf (fmt : Int → Bytes) (sign : Bool) (m : Int) : Bytes :=
  (if sign then [45] else []) ++ (if m / day > 0 then dec (m / day).toNat ++ [100] else []) ++
  (if m % day ≠ 0 then fmt (m % day) else [])

/-- core: reading back the text of sign/magnitude -/
theorem unmarshal_textOf {fmt : Int → Bytes} {parse : Bytes → Option Int} (L : DurLib fmt parse)
    (sign : Bool) (m : Int) (h0 : 0 ≤ m) (hm : m ≤ maxI64 ∨ (sign = true ∧ m = two63)) (hs : sign = true → 0 < m) :
    unmarshalDur parse (textOf fmt sign m) = some (if sign then wrap64 (-m) else m) := by
  have hday : day = 86400000000000 := rfl
  have hmle : m ≤ 9223372036854775808 := by
    rcases hm with h | ⟨_, h⟩ <;> unfold maxI64 two63 at * <;> omega
  have hN0 : 0 ≤ m % day := by rw [hday]; omega
  have hN1 : m % day < day := by rw [hday]; omega
  have hD0 : 0 ≤ m / day := by rw [hday]; omega
  have hDle : m / day ≤ 106751 := by rw [hday]; omega
  have hdm : m % day + m / day * day = m := Int.emod_add_ediv_mul m day
  -- the tail after the days prefix
  have htail : (if (if m % day ≠ 0 then fmt (m % day) else []).isEmpty then some 0
      else parse (if m % day ≠ 0 then fmt (m % day) else [])) = some (m % day) := by
    by_cases hN : m % day = 0
    · simp [hN]
    · have hpos : 0 < m % day := by omega
      have hne := L.nonEmpty _ hpos hN1
      simp only [hN, ne_eq, not_false_eq_true, if_true]
      cases hf : fmt (m % day) with
      | nil => exact absurd hf hne
      | cons a b =>
        simp only [List.isEmpty_cons, Bool.false_eq_true, if_false]
        rw [← hf]; exact L.inv _ hpos hN1
  by_cases hD : m / day > 0
  · -- days prefix present
    have hDn : ((m / day).toNat : Int) = m / day := Int.toNat_of_nonneg hD0
    have hfuel : (m / day).toNat < 10 ^ 25 := by omega
    have hDmax : ((m / day).toNat : Int) ≤ maxI64 := by rw [hDn]; unfold maxI64 two63; omega
    have hD63 : ((m / day).toNat : Int) ≤ two63 := by rw [hDn]; unfold two63; omega
    unfold textOf
    simp only [hD, if_true]
    cases sign with
    | false =>
      simp only [Bool.false_eq_true, if_false, List.nil_append, List.append_assoc, List.singleton_append]
      have hsd : splitDays (dec (m / day).toNat ++ 100 :: (if m % day ≠ 0 then fmt (m % day) else []))
          = (false, m / day, if m % day ≠ 0 then fmt (m % day) else []) := by
        unfold splitDays
        simp only [daysPrefix_dec _ hfuel, parseIntClamp_pos _ hDmax, hDn]
        rw [if_neg (show ¬ (m / day < 0) by omega)]
      unfold unmarshalDur
      simp only [hsd, htail, hdm, Bool.false_eq_true, if_false]
      have hmx : m ≤ maxI64 := by
        rcases hm with h | ⟨h, _⟩
        · exact h
        · cases h
      rw [wrap64_id (by unfold minI64 two63; omega) hmx]
    | true =>
      simp only [if_true, List.append_assoc, List.singleton_append, List.cons_append, List.nil_append]
      have hsd : splitDays (45 :: (dec (m / day).toNat ++ 100 :: (if m % day ≠ 0 then fmt (m % day) else [])))
          = (true, m / day, if m % day ≠ 0 then fmt (m % day) else []) := by
        unfold splitDays
        simp only [daysPrefix_neg_dec _ hfuel, parseIntClamp_neg _ hD63, hDn]
        rw [if_pos (show -(m / day) < 0 by omega), Int.neg_neg,
          wrap64_id (by unfold minI64 two63; omega) (by unfold maxI64 two63; omega)]
      unfold unmarshalDur
      simp only [hsd, htail, hdm, if_true]
      rcases hm with h | ⟨_, h⟩
      · rw [wrap64_id (by unfold minI64 two63; omega) h]
      · subst h; rw [wrap64_two63]; rfl
  · -- no days prefix: the magnitude is below one day
    have hD0' : m / day = 0 := by omega
    have hmN : m % day = m := by rw [hD0'] at hdm; omega
    unfold textOf
    simp only [hD, if_false, List.append_nil]
    by_cases hN : m % day = 0
    · have hm0 : m = 0 := by omega
      have hsf : sign = false := by
        cases sign with
        | false => rfl
        | true => exact absurd (hs rfl) (by omega)
      subst hsf; subst hm0
      have e0 : (0 : Int) % day = 0 := by decide
      simp only [e0, ne_eq, not_true_eq_false, if_false, Bool.false_eq_true, List.append_nil]
      rfl
    · have hpos : 0 < m % day := by omega
      simp only [hN, ne_eq, not_false_eq_true, if_true]
      rw [hmN] at hpos hN1 ⊢
      have hne := L.nonEmpty _ hpos hN1
      cases sign with
      | false =>
        simp only [Bool.false_eq_true, if_false, List.nil_append]
        have hsd : splitDays (fmt m) = (false, 0, fmt m) := by
          unfold splitDays; simp only [L.noDays _ hpos hN1]
        have hie : (fmt m).isEmpty = false := by
          cases hf : fmt m with
          | nil => exact absurd hf hne
          | cons a b => rfl
        unfold unmarshalDur
        simp only [hsd, hie, Bool.false_eq_true, if_false, L.inv _ hpos hN1, Int.zero_mul, Int.add_zero]
        rw [wrap64_id (by unfold minI64 two63; omega) (by unfold maxI64 two63; omega)]
      | true =>
        simp only [if_true, List.singleton_append]
        have hsd : splitDays (45 :: fmt m) = (false, 0, 45 :: fmt m) := by
          unfold splitDays; simp only [L.noDaysNeg _ hpos hN1]
        unfold unmarshalDur
        simp only [hsd, List.isEmpty_cons, Bool.false_eq_true, if_false, L.invNeg _ hpos hN1, Int.zero_mul, Int.add_zero]


/-! ### the full statement is false at MinInt64 — shown with a concrete library satisfying `DurLib` -/

/-- a toy `Duration.String`: `[-]<nanoseconds>ns` -/
def fmtT (x : Int) : Bytes := (if x < 0 then [45] else []) ++ dec x.natAbs ++ [110, 115]

def parseU (s : Bytes) : Option Int :=
  let ds := s.takeWhile isDigit
  if ds.isEmpty then none else if s.drop ds.length == [110, 115] then some (digitsVal ds) else none

/-- the matching toy `ParseDuration` -/
def parseT (s : Bytes) : Option Int :=
  match s with
  | 45 :: r => (parseU r).map (fun v => -v)
  | _ => parseU s

theorem parseU_fmt (n : Nat) (h : n < 10 ^ 25) : parseU (dec n ++ [110, 115]) = some (n : Int) := by
  obtain ⟨hne, hdig, hval, _⟩ := dec_spec n h
  unfold parseU
  have e : dec n ++ [110, 115] = dec n ++ 110 :: [115] := rfl
  rw [e, takeWhile_digits (dec n) 110 [115] hdig (by decide)]
  have : (dec n).isEmpty = false := by cases hd : dec n with | nil => exact absurd hd hne | cons _ _ => rfl
  simp only [this, Bool.false_eq_true, if_false, List.drop_left, BEq.rfl, if_true, hval]

theorem toyLib : DurLib fmtT parseT := by
  have key : ∀ x : Int, 0 < x → x < day → x.natAbs < 10 ^ 25 ∧ (x.natAbs : Int) = x ∧ fmtT x = dec x.natAbs ++ [110, 115] := by
    intro x h0 h1
    have hd : day = 86400000000000 := rfl
    refine ⟨by omega, by omega, ?_⟩
    unfold fmtT; rw [if_neg (by omega)]; rfl
  constructor
  · intro x h0 h1
    obtain ⟨hf, hx, e⟩ := key x h0 h1
    obtain ⟨hne, _, _, hhead⟩ := dec_spec _ hf
    rw [e]
    unfold parseT
    cases hd : dec x.natAbs with
    | nil => exact absurd hd hne
    | cons a b =>
      have ha : a ≠ 45 := hhead a (by rw [hd]; rfl)
      simp only [List.cons_append]
      split
      · next heq => injection heq with h _; exact absurd h ha
      · rw [← List.cons_append, ← hd, parseU_fmt _ hf, hx]
  · intro x h0 h1
    obtain ⟨hf, hx, e⟩ := key x h0 h1
    rw [e]
    show (parseU (dec x.natAbs ++ [110, 115])).map (fun v => -v) = some (-x)
    rw [parseU_fmt _ hf, hx]; rfl
  · intro x h0 h1
    obtain ⟨hf, hx, e⟩ := key x h0 h1
    obtain ⟨hne, hdig, _, hhead⟩ := dec_spec _ hf
    rw [e]
    unfold daysPrefix
    have hneg : ((dec x.natAbs ++ [110, 115]).head? == some 45) = false := by
      cases hd : dec x.natAbs with
      | nil => exact absurd hd hne
      | cons a b =>
        have : a ≠ 45 := hhead a (by rw [hd]; rfl)
        simp [this]
    have e2 : dec x.natAbs ++ [110, 115] = dec x.natAbs ++ 110 :: [115] := rfl
    simp only [hneg, Bool.false_eq_true, if_false]
    rw [e2, takeWhile_digits _ 110 [115] hdig (by decide)]
    have : (dec x.natAbs).isEmpty = false := by cases hd : dec x.natAbs with | nil => exact absurd hd hne | cons _ _ => rfl
    simp only [this, Bool.false_eq_true, if_false, List.drop_left]
    rfl
  · intro x h0 h1
    obtain ⟨hf, hx, e⟩ := key x h0 h1
    obtain ⟨hne, hdig, _, _⟩ := dec_spec _ hf
    rw [e]
    unfold daysPrefix
    have e2 : dec x.natAbs ++ [110, 115] = dec x.natAbs ++ 110 :: [115] := rfl
    simp only [List.head?_cons, BEq.rfl, if_true, List.drop_succ_cons, List.drop_zero]
    rw [e2, takeWhile_digits _ 110 [115] hdig (by decide)]
    have : (dec x.natAbs).isEmpty = false := by cases hd : dec x.natAbs with | nil => exact absurd hd hne | cons _ _ => rfl
    simp only [this, Bool.false_eq_true, if_false, List.drop_left]
    rfl
  · intro x h0 h1
    obtain ⟨_, _, e⟩ := key x h0 h1
    rw [e]; simp


/-! ### byte sizes -/

/-- rounding ⌊q·u/10⌋·10/u to the nearest integer gives back q when the unit is large (u > 20) -/
theorem rhe_of_floor (u q s : Nat) (hu : 20 < u) (hs : s = q * u / 10) : rhe (10 * s) u = q := by
  have hdm := Nat.div_add_mod (q * u) 10
  have hρ := Nat.mod_lt (q * u) (by decide : 0 < 10)
  rw [← hs] at hdm
  by_cases h0 : q * u % 10 = 0
  · have e : 10 * s = u * q := by rw [Nat.mul_comm u q]; omega
    have hq : (10 * s) / u = q ∧ (10 * s) % u = 0 := by
      rw [Nat.div_mod_unique (by omega)]; exact ⟨by omega, by omega⟩
    unfold rhe; simp only [hq.1, hq.2]; simp
    omega
  · have hq1 : 1 ≤ q := by
      rcases Nat.eq_zero_or_pos q with h | h
      · subst h; simp at h0
      · exact h
    have e : (u - q * u % 10) + u * (q - 1) = 10 * s := by
      have : u * (q - 1) = q * u - u := by rw [Nat.mul_comm, Nat.sub_mul]; simp
      have hge : u ≤ q * u := Nat.le_mul_of_pos_left u hq1
      omega
    have hq : (10 * s) / u = q - 1 ∧ (10 * s) % u = u - q * u % 10 := by
      rw [Nat.div_mod_unique (by omega)]; exact ⟨e, by omega⟩
    unfold rhe; simp only [hq.1, hq.2]
    rw [if_pos (by omega)]; omega

theorem unitIdx_small {s : Nat} (h : s < 1024) : unitIdx s = 0 := by
  unfold unitIdx; simp only [Nat.reducePow]
  repeat' split
  all_goals omega

theorem unitIdx_ge {s : Nat} (h : 1024 ≤ s) : 1 ≤ unitIdx s := by
  unfold unitIdx; simp only [Nat.reducePow]
  repeat' split
  all_goals omega

theorem rhe_bound (n u : Nat) (hu : 0 < u) :
    2 * (rhe n u * u) ≤ 2 * n + u ∧ 2 * n ≤ 2 * (rhe n u * u) + u := by
  have hdm := Nat.div_add_mod' n u
  have hr := Nat.mod_lt n hu
  have hs : (n / u + 1) * u = n / u * u + u := by rw [Nat.add_mul]; simp
  unfold rhe
  simp only []
  split
  · rw [hs]; omega
  · split
    · split
      · rw [hs]; omega
      · omega
    · omega

theorem exactIdxFuel_dvd : ∀ (f s k : Nat), ∃ j, exactIdxFuel f s k = k + j ∧ 1024 ^ j ∣ s
  | 0, s, k => ⟨0, rfl, by simp⟩
  | f + 1, s, k => by
    unfold exactIdxFuel
    split
    · next hc =>
      obtain ⟨j, hj, hd⟩ := exactIdxFuel_dvd f (s / 1024) (k + 1)
      refine ⟨j + 1, by rw [hj]; omega, ?_⟩
      have : s = 1024 * (s / 1024) := by have := Nat.div_add_mod s 1024; omega
      rw [this, Nat.pow_succ, Nat.mul_comm]
      exact Nat.mul_dvd_mul_left 1024 hd
    · exact ⟨0, rfl, by simp⟩


end MtxVerif.C08
