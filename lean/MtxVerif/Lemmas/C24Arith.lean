/-
C24 — arithmetic core (no dependency on the generated file; also used by C25).

`exact_split` (no wrap-around), `muldiv_exact` (canonical body with int64 wrap-around is exact whenever
the remainder product fits and the exact result is representable — all signs, every non-zero divisor),
guard discharge for the call-site classes, `muldivFixed_exact` (repaired body, no guard).
-/
import MtxVerif.Model.C24

namespace MtxVerif.C24

/-! ### 1. arithmetic -/

def SameSign (x y : Int) : Prop := (0 ≤ x ∧ 0 ≤ y) ∨ (x ≤ 0 ∧ y ≤ 0)

theorem sameSign_mul {x y : Int} (h : SameSign x y) (m : Int) : SameSign (x * m) (y * m) := by
  rcases Int.le_total 0 m with hm | hm
  · rcases h with ⟨hx, hy⟩ | ⟨hx, hy⟩
    · exact Or.inl ⟨Int.mul_nonneg hx hm, Int.mul_nonneg hy hm⟩
    · exact Or.inr ⟨Int.mul_nonpos_of_nonpos_of_nonneg hx hm, Int.mul_nonpos_of_nonpos_of_nonneg hy hm⟩
  · rcases h with ⟨hx, hy⟩ | ⟨hx, hy⟩
    · exact Or.inr ⟨Int.mul_nonpos_of_nonneg_of_nonpos hx hm, Int.mul_nonpos_of_nonneg_of_nonpos hy hm⟩
    · exact Or.inl ⟨Int.mul_nonneg_of_nonpos_of_nonpos hx hm, Int.mul_nonneg_of_nonpos_of_nonpos hy hm⟩

theorem tdiv_add_mul_pos {a b d : Int} (hd : 0 < d) (ha : 0 ≤ a * d) (hb : 0 ≤ b) :
    Int.tdiv (a * d + b) d = a + Int.tdiv b d := by
  rw [Int.tdiv_eq_ediv_of_nonneg (by omega), Int.tdiv_eq_ediv_of_nonneg hb,
    Int.add_comm (a * d) b, Int.add_mul_ediv_right _ _ (by omega)]
  omega

theorem tdiv_add_mul_nonneg {a b d : Int} (hd : d ≠ 0) (ha : 0 ≤ a * d) (hb : 0 ≤ b) :
    Int.tdiv (a * d + b) d = a + Int.tdiv b d := by
  rcases Int.lt_or_gt_of_ne hd with h | h
  · have h1 : 0 < -d := by omega
    have e : a * d = (-a) * (-d) := (Int.neg_mul_neg a d).symm
    have := tdiv_add_mul_pos (a := -a) (b := b) h1 (by rw [← e]; exact ha) hb
    rw [← e, Int.tdiv_neg, Int.tdiv_neg] at this
    omega
  · exact tdiv_add_mul_pos h ha hb

/-- truncated division distributes over an exact multiple when both parts have the same sign -/
theorem tdiv_add_mul {a b d : Int} (hd : d ≠ 0) (h : SameSign (a * d) b) :
    Int.tdiv (a * d + b) d = a + Int.tdiv b d := by
  rcases h with ⟨ha, hb⟩ | ⟨ha, hb⟩
  · exact tdiv_add_mul_nonneg hd ha hb
  · have e : a * d + b = -((-a) * d + (-b)) := by rw [Int.neg_mul]; omega
    have := tdiv_add_mul_nonneg (a := -a) (b := -b) hd (by rw [Int.neg_mul]; omega) (by omega)
    rw [e, Int.neg_tdiv, this, Int.neg_tdiv]
    omega

/-- quotient·divisor and remainder of a truncated division both have the sign of the dividend -/
theorem sameSign_tdiv_tmod (v d : Int) : SameSign (Int.tdiv v d * d) (Int.tmod v d) := by
  have key : ∀ w : Int, 0 ≤ w → 0 ≤ Int.tdiv w d * d ∧ 0 ≤ Int.tmod w d := by
    intro w hw
    refine ⟨?_, Int.tmod_nonneg d hw⟩
    rcases Int.le_total 0 d with hd | hd
    · exact Int.mul_nonneg (Int.tdiv_nonneg hw hd) hd
    · exact Int.mul_nonneg_of_nonpos_of_nonpos (Int.tdiv_nonpos_of_nonneg_of_nonpos hw hd) hd
  rcases Int.le_total 0 v with hv | hv
  · exact Or.inl (key v hv)
  · have := key (-v) (by omega)
    rw [Int.neg_tdiv, Int.neg_tmod, Int.neg_mul] at this
    exact Or.inr ⟨by omega, by omega⟩

/-- The mathematical identity behind the helper (unbounded integers, no wrap-around):
`(v*m) / d = (v/d)*m + ((v%d)*m) / d` with `/`, `%` truncating toward zero — for every `d ≠ 0`, all signs. -/
theorem exact_split (v m d : Int) (hd : d ≠ 0) :
    Int.tdiv (v * m) d = Int.tdiv v d * m + Int.tdiv (Int.tmod v d * m) d := by
  have hv : v = Int.tdiv v d * d + Int.tmod v d := (Int.tdiv_mul_add_tmod v d).symm
  have e : v * m = (Int.tdiv v d * m) * d + Int.tmod v d * m := by
    conv => lhs; rw [hv]
    rw [Int.add_mul, Int.mul_assoc, Int.mul_comm d m, ← Int.mul_assoc]
  have hs : SameSign ((Int.tdiv v d * m) * d) (Int.tmod v d * m) := by
    have := sameSign_mul (sameSign_tdiv_tmod v d) m
    rwa [Int.mul_assoc, Int.mul_comm d m, ← Int.mul_assoc] at this
  rw [e, tdiv_add_mul hd hs]

theorem wrap64_of_in {x : Int} (h : InI64 x) : wrap64 x = x := by
  unfold wrap64
  obtain ⟨h1, h2⟩ := h
  exact Int.bmod_eq_of_le (by omega) (by omega)

theorem wrap64_in (x : Int) : InI64 (wrap64 x) := by
  unfold wrap64 InI64
  have h1 := Int.le_bmod (x := x) (m := 2 ^ 64) (by decide)
  have h2 := Int.bmod_lt (x := x) (m := 2 ^ 64) (by decide)
  constructor <;> omega

/-- int64 arithmetic is arithmetic modulo 2^64: inner wrap-arounds of `secs*m + q` are absorbed. -/
theorem wrap64_absorb (s m q : Int) :
    wrap64 (wrap64 (wrap64 s * m) + wrap64 q) = wrap64 (s * m + q) := by
  unfold wrap64
  rw [Int.add_bmod_bmod, Int.bmod_add_bmod, Int.add_bmod (Int.bmod s (2 ^ 64) * m) q, Int.bmod_mul_bmod,
    ← Int.add_bmod]

/-- **Main theorem (property at full strength, under the exact no-overflow guard).**
For all integers `v m d` (not only int64 values) with `d ≠ 0`: if the remainder product `(v % d) * m` fits in int64
and the exact result is representable, the canonical body — with all its int64 wrap-arounds — returns
the mathematically exact product-then-quotient truncated toward zero.  No sign restriction. -/
theorem muldiv_exact (v m d : Int) (hd : d ≠ 0)
    (hg : InI64 (Int.tmod v d * m)) (hr : InI64 (exact v m d)) :
    muldiv v m d = some (exact v m d) := by
  unfold muldiv
  rw [if_neg hd, wrap64_of_in hg, wrap64_absorb]
  unfold exact at *
  rw [← exact_split v m d hd, wrap64_of_in hr]

/-- the guard in Boolean form, as used by the executable spec -/
theorem muldiv_exact_of_not_overflowRegion (v m d : Int) (hd : d ≠ 0)
    (hg : overflowRegion v m d = false) (hr : InI64 (exact v m d)) :
    muldiv v m d = some (exact v m d) := by
  apply muldiv_exact v m d hd _ hr
  simpa [overflowRegion] using hg

/-- After the proposed repair (128-bit remainder term) no guard is needed. -/
theorem muldivFixed_exact (v m d : Int) (hd : d ≠ 0) (hr : InI64 (exact v m d)) :
    muldivFixed v m d = some (exact v m d) := by
  unfold muldivFixed
  rw [if_neg hd, wrap64_absorb]
  unfold exact at *
  rw [← exact_split v m d hd, wrap64_of_in hr]

/-- Zero divisor: the Go code panics (explicit outcome, never a silent value). -/
theorem muldiv_zero (v m : Int) : muldiv v m 0 = none ∧ muldivFixed v m 0 = none := by
  simp [muldiv, muldivFixed]

/-- The result is always an int64 (trivially, but it is what the driver compares). -/
theorem muldiv_in (v m d r : Int) (h : muldiv v m d = some r) : InI64 r := by
  unfold muldiv at h
  split at h
  · contradiction
  · cases h; exact wrap64_in _

/-! #### guard discharge -/

theorem natAbs_tmod_lt (v d : Int) (hd : 0 < d) : (Int.tmod v d).natAbs < d.natAbs := by
  rw [Int.natAbs_tmod]
  exact Nat.mod_lt _ (by omega)

/-- General guard: positive divisor, non-negative multiplier, `(d-1)*m < 2^63`. -/
theorem guard_of_bound (v m d : Int) (hd : 0 < d) (hm : 0 ≤ m) (hb : (d - 1) * m < 2 ^ 63) :
    InI64 (Int.tmod v d * m) := by
  have h1 := natAbs_tmod_lt v d hd
  have h2 : (Int.tmod v d * m).natAbs ≤ ((d - 1) * m).natAbs := by
    rw [Int.natAbs_mul, Int.natAbs_mul]
    exact Nat.mul_le_mul_right _ (by omega)
  have h3 : 0 ≤ (d - 1) * m := Int.mul_nonneg (by omega) hm
  unfold InI64
  omega

theorem mul_le_mul_nonneg {a b c e : Int} (h1 : a ≤ c) (h2 : b ≤ e) (ha : 0 ≤ a) (hb : 0 ≤ b) :
    a * b ≤ c * e :=
  Int.le_trans (Int.mul_le_mul_of_nonneg_right h1 hb) (Int.mul_le_mul_of_nonneg_left h2 (by omega))

/-- Call-site class "one rate is a constant `c ≤ 2^31`" (covers `time.Second = 10^9`, `90000`, `48000`,
`10^6`), the other rate anywhere in the property's domain `1 … 2^32`: guard holds for *all* `v`. -/
theorem guard_const_m (v c d : Int) (hc : 1 ≤ c ∧ c ≤ 2 ^ 31) (hd : 1 ≤ d ∧ d ≤ 2 ^ 32) :
    InI64 (Int.tmod v d * c) := by
  apply guard_of_bound v c d (by omega) (by omega)
  have : (d - 1) * c ≤ (2 ^ 32 - 1) * 2 ^ 31 := mul_le_mul_nonneg (by omega) hc.2 (by omega) (by omega)
  omega

theorem guard_const_d (v m c : Int) (hc : 1 ≤ c ∧ c ≤ 2 ^ 31) (hm : 1 ≤ m ∧ m ≤ 2 ^ 32) :
    InI64 (Int.tmod v c * m) := by
  apply guard_of_bound v m c (by omega) (by omega)
  have : (c - 1) * m ≤ (2 ^ 31 - 1) * 2 ^ 32 := mul_le_mul_nonneg (by omega) hm.2 (by omega) (by omega)
  omega

/-- Nanosecond conversions (`timestampToDuration`, `durationMp4ToGo`, NTP estimator): `m = 10^9`. -/
theorem ticks_to_ns_exact (v r : Int) (hr : 1 ≤ r ∧ r ≤ 2 ^ 32) (hx : InI64 (exact v nsPerSec r)) :
    muldiv v nsPerSec r = some (exact v nsPerSec r) :=
  muldiv_exact v nsPerSec r (by omega) (guard_const_m v nsPerSec r (by decide) hr) hx

/-- Nanosecond conversions (`durationToTimestamp`, `durationGoToMp4`): `d = 10^9`. -/
theorem ns_to_ticks_exact (v r : Int) (hr : 1 ≤ r ∧ r ≤ 2 ^ 32) (hx : InI64 (exact v r nsPerSec)) :
    muldiv v r nsPerSec = some (exact v r nsPerSec) :=
  muldiv_exact v r nsPerSec (by decide) (guard_const_d v r nsPerSec (by decide) hr) hx

end MtxVerif.C24
