/- PathSM invariant: close, the step function, the start state, whole histories -/
import MtxVerif.Lemmas.C18PathSM_Rd
import MtxVerif.Lemmas.C18PathSM_Pub
import MtxVerif.Lemmas.C18PathSM_Src

namespace MtxVerif.PathSM

theorem inv_doClose (w : W) (h : Inv w.s) (hc : w.s.closed = false) : Inv (doClose w).s := by
  have hv := odStatic_iff w.s.conf
  have hq : w.s.conf.odPub = w.s.conf.runOnDemand := rfl
  have hval := h.valid
  unfold Conf.valid at hval
  rw [doClose_s]
  unfold closeStops
  cases h; inv_fields

theorem odStatic_regexp (c : Conf) (rx : Bool) : ({ c with regexp := rx } : Conf).odStatic = c.odStatic := rfl
theorem odPub_regexp (c : Conf) (rx : Bool) : ({ c with regexp := rx } : Conf).odPub = c.odPub := rfl

theorem inv_sreg (s : State) (h : Inv s) (g : List (Nat × Nat)) : Inv { s with sreg := g } := by
  cases h; constructor <;> grind

theorem inv_stepW (e : Event) (w : W) (h : Inv w.s) : Inv (stepW e w).s := by
  unfold stepW
  split
  · exact h
  split
  · unfold stepClosed
    split <;> first | exact h | exact inv_sreg _ h _
  rename_i hp hcl
  have hc : w.s.closed = false := by simpa using hcl
  split
  · rw [closeCheck_s]; exact inv_doDescribe _ _ h hc
  · rw [closeCheck_s]; exact inv_doAddPublisher _ _ _ h hc
  · rw [closeCheck_s]; exact inv_doRemovePublisher _ _ h hc
  · rw [closeCheck_s]; exact inv_doAddReader _ _ _ h hc
  · rw [closeCheck_s]; exact inv_doRemoveReader _ _ h hc
  · split
    · exact inv_srcReady _ _ h hc ‹_›
    · exact h
  · split
    · rw [closeCheck_s]; exact inv_srcNotReady _ h hc ‹_›
    · exact h
  · split
    · exact inv_fireTimer _ _ h hc ‹_›
    · exact h
  · split
    · rename_i rx hvv
      simp only [upd_s]
      have := odStatic_regexp w.s.conf rx
      have := odPub_regexp w.s.conf rx
      cases h; constructor <;> grind
    · exact h
  · exact inv_doClose _ h hc
  · exact h
  · exact inv_sreg _ h _

theorem inv_step (s : State) (e : Event) (h : Inv s) : Inv (step s e).1 := inv_stepW e { s := s } h

theorem inv_init (c : Conf) (hv : c.valid = true) : Inv (init c) := by
  unfold init initW
  have hv' := odStatic_iff c
  have hval := hv
  unfold Conf.valid at hval
  dsimp only
  (repeat' split) <;> simp only [upd_s, emit_s, srcStart_s] at * <;> (constructor <;> grind)

theorem inv_run (es : List Event) : ∀ s, Inv s → Inv (run s es).1 := by
  induction es with
  | nil => intro s h; exact h
  | cons e es ih => intro s h; exact ih _ (inv_step s e h)

/-- every state reachable from the loop's start state satisfies the invariant -/
theorem inv_reach (c : Conf) (hv : c.valid = true) (es : List Event) : Inv (run (init c) es).1 :=
  inv_run es _ (inv_init c hv)

end MtxVerif.PathSM
