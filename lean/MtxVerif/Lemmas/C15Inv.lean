/-
C15 — invariants of the pathManager model and their preservation, event by event.
-/
import MtxVerif.Lemmas.C15Basic

namespace MtxVerif.C15

/-! ### per-path predicates -/

/-- pathManager side: the path's name resolves, to the configuration it is filed under -/
def ResOK (orc : Oracle) (confs : List Conf) (p : LivePath) : Prop :=
  ∃ c m, resolve orc confs p.name = some (c, m) ∧ c.name = p.confName

/-- path side: once the mailbox is drained in order the path runs with the configuration it is filed under -/
def EffOK (confs : List Conf) (p : LivePath) : Prop := lookup confs p.confName = some p.effective

/-- the capture groups are the ones resolution selects -/
def GrpOK (orc : Oracle) (confs : List Conf) (p : LivePath) : Prop :=
  ∃ c m, resolve orc confs p.name = some (c, m) ∧ p.groups = groupsOf m

/-- holds for every variant and every delivery order -/
structure InvA (orc : Oracle) (pm : PM) : Prop where
  wf : WFconfs pm.confs
  names : (pm.paths.map (·.name)).Nodup
  incLt : ∀ p ∈ pm.paths, p.inc < pm.nextInc
  incs : (pm.paths.map (·.inc)).Nodup
  res : ∀ p ∈ pm.paths, ResOK orc pm.confs p
  noPanic : pm.panicked = false

/-- needs in-order delivery (or the `fixOrder` variant) -/
structure InvB (pm : PM) : Prop where
  eff : ∀ p ∈ pm.paths, EffOK pm.confs p
  stat : ∀ c ∈ pm.confs, c.regex = false → ∃ p ∈ pm.paths, p.name = c.name

def InvG (orc : Oracle) (pm : PM) : Prop := ∀ p ∈ pm.paths, GrpOK orc pm.confs p

/-! ### events -/

def Fifo : Ev → Prop
  | .deliver _ i => i = 0
  | _ => True

/-- no path migrates to a configuration whose match gives other capture groups (F-C15b side condition) -/
def NoStale (orc : Oracle) (pm : PM) : Ev → Prop
  | .reload new => ∀ p ∈ pm.paths, ∀ nc m, resolve orc new p.name = some (nc, m) →
      nc.name ≠ p.confName → groupsOf m = p.groups
  | _ => True

/-- reloads install validated configuration sets; client requests reach a path whose mailbox is empty
(the harness waits for quiescence; a request racing with an undelivered reload is not covered) -/
def okEv (pm : PM) : Ev → Prop
  | .reload new => WFconfs new
  | .deliver _ _ => True
  | .pub n => ∀ p ∈ pm.paths, p.name = n → p.mailbox = []
  | .unpub n => ∀ p ∈ pm.paths, p.name = n → p.mailbox = []
  | .read n _ => ∀ p ∈ pm.paths, p.name = n → p.mailbox = []
  | .unread id => ∀ p ∈ pm.paths, p.readers.contains id = true → p.mailbox = []

/-! ### shape of one reload -/

theorem applyDec_some {p q : LivePath} {d : Dec} (h : applyDec p d = some q) :
    q.name = p.name ∧ q.inc = p.inc ∧ q.pub = p.pub ∧ q.readers = p.readers ∧ q.groups = p.groups ∧
      q.conf = p.conf ∧
      ((d = .keep ∧ q = p) ∨ ∃ nc, d = .hot nc ∧ q.confName = nc.name ∧ q.mailbox = p.mailbox ++ [nc]) := by
  cases d with
  | close => simp [applyDec] at h
  | panic => simp [applyDec] at h
  | keep =>
    simp only [applyDec, Option.some.injEq] at h
    subst h
    exact ⟨rfl, rfl, rfl, rfl, rfl, rfl, Or.inl ⟨rfl, rfl⟩⟩
  | hot nc =>
    simp only [applyDec, Option.some.injEq] at h
    subst h
    exact ⟨rfl, rfl, rfl, rfl, rfl, rfl, Or.inr ⟨nc, rfl, rfl, rfl⟩⟩

theorem decide_keep {V : Variant} {orc : Oracle} {old new : List Conf} {p : LivePath}
    (h : decidePath V orc old new p = .keep) :
    ∃ nc m, resolve orc new p.name = some (nc, m) ∧ nc.name = p.confName ∧
      (toRecreate old new).contains nc.name = false ∧ (toReload old new).contains nc.name = false := by
  unfold decidePath at h
  split at h
  · cases h
  · rename_i nc m hr
    split at h
    · split at h
      · cases h
      · split at h <;> cases h
    · rename_i hne
      split at h
      · cases h
      · rename_i h1
        split at h
        · cases h
        · rename_i h2
          refine ⟨nc, m, hr, by simpa using hne, by simpa using h1, by simpa using h2⟩

theorem decide_hot {V : Variant} {orc : Oracle} {old new : List Conf} {p : LivePath} {nc : Conf}
    (h : decidePath V orc old new p = .hot nc) :
    ∃ m, resolve orc new p.name = some (nc, m) ∧
      (nc.name ≠ p.confName → V.fixGroups = true → groupsOf m = p.groups) := by
  unfold decidePath at h
  split at h
  · cases h
  · rename_i nc' m hr
    split at h
    · split at h
      · cases h
      · split at h
        · rename_i hc
          simp only [Dec.hot.injEq] at h
          subst h
          refine ⟨m, hr, ?_⟩
          intro _ hV
          simp only [Bool.and_eq_true, hV, Bool.not_true, Bool.false_or, beq_iff_eq] at hc
          exact hc.2
        · cases h
    · rename_i hne
      split at h
      · cases h
      · split at h
        · simp only [Dec.hot.injEq] at h
          subst h
          exact ⟨m, hr, fun hn => absurd (by simpa using hne) hn⟩
        · cases h

theorem decide_panic {V : Variant} {orc : Oracle} {old new : List Conf} {p : LivePath}
    (h : decidePath V orc old new p = .panic) : lookup old p.confName = none := by
  unfold decidePath at h
  split at h
  · cases h
  · split at h
    · split at h
      · rename_i hl; exact hl
      · split at h <;> cases h
    · split at h
      · cases h
      · split at h <;> cases h

/-- a path that survives a reload: its name still resolves, to the configuration it is now filed under -/
theorem kept_res {V : Variant} {orc : Oracle} {old new : List Conf} {p q : LivePath}
    (h : applyDec p (decidePath V orc old new p) = some q) : ResOK orc new q := by
  obtain ⟨hn, _, _, _, _, _, hd⟩ := applyDec_some h
  rcases hd with ⟨hk, rfl⟩ | ⟨nc, hh, hcn, _⟩
  · obtain ⟨nc, m, hr, hname, _, _⟩ := decide_keep hk
    exact ⟨nc, m, hr, hname⟩
  · obtain ⟨m, hr, _⟩ := decide_hot hh
    exact ⟨nc, m, by rw [hn]; exact hr, hcn.symm⟩

/-- … and, if it ran (or was about to run) with the configuration it was filed under, it still does -/
theorem kept_eff {V : Variant} {orc : Oracle} {old new : List Conf} {p q : LivePath}
    (heff : EffOK old p) (h : applyDec p (decidePath V orc old new p) = some q) : EffOK new q := by
  obtain ⟨_, _, _, _, _, _, hd⟩ := applyDec_some h
  rcases hd with ⟨hk, rfl⟩ | ⟨nc, hh, hcn, hmb⟩
  · obtain ⟨nc, m, hr, hname, h1, h2⟩ := decide_keep hk
    have hnew := (resolve_some hr).2
    unfold EffOK at heff ⊢
    have hoc := lookup_some heff
    rw [← hname, hnew]
    -- the old and the new configuration of that name are equal, otherwise the name is in one of the sets
    by_cases hne : nc = q.effective
    · rw [hne]
    · exfalso
      have hl : lookup new q.effective.name = some nc := by rw [hoc.2, ← hname]; exact hnew
      cases hu : canUpdate q.effective nc with
      | false =>
        have := mem_toRecreate hoc.1 hl hne hu
        rw [hoc.2, ← hname, h1] at this; cases this
      | true =>
        have := mem_toReload hoc.1 hl hne hu
        rw [hoc.2, ← hname, h2] at this; cases this
  · obtain ⟨m, hr, _⟩ := decide_hot hh
    unfold EffOK LivePath.effective
    rw [hcn, hmb, getLast?_append_singleton]
    exact (resolve_some hr).2

/-- … and keeps the right capture groups, unless it migrated to another configuration with other groups -/
theorem kept_grp {V : Variant} {orc : Oracle} {old new : List Conf} {p q : LivePath}
    (hres : ResOK orc old p) (hg : GrpOK orc old p)
    (hside : V.fixGroups = true ∨ ∀ nc m, resolve orc new p.name = some (nc, m) → nc.name ≠ p.confName →
      groupsOf m = p.groups)
    (h : applyDec p (decidePath V orc old new p) = some q) : GrpOK orc new q := by
  obtain ⟨hn, _, _, _, hgr, _, hd⟩ := applyDec_some h
  obtain ⟨oc, om, hor, hocn⟩ := hres
  obtain ⟨oc', om', hor', hog⟩ := hg
  rw [hor] at hor'
  simp only [Option.some.injEq, Prod.mk.injEq] at hor'
  obtain ⟨rfl, rfl⟩ := hor'
  -- same configuration name before and after: same match
  have same : ∀ nc m, resolve orc new p.name = some (nc, m) → nc.name = p.confName → groupsOf m = p.groups := by
    intro nc m hr hname
    rw [hog]
    rcases resolve_shape hor with ⟨h1, h2⟩ | ⟨h1, h2⟩ <;> rcases resolve_shape hr with ⟨h3, h4⟩ | ⟨h3, h4⟩
    · rw [h2, h4]
    · exact absurd (by rw [hname, ← hocn, h1]) h3
    · exact absurd (by rw [hocn, ← hname, h3]) h1
    · rw [h2, h4, hname, hocn]
  rcases hd with ⟨hk, rfl⟩ | ⟨nc, hh, _, _⟩
  · obtain ⟨nc, m, hr, hname, _, _⟩ := decide_keep hk
    exact ⟨nc, m, hr, (same nc m hr hname).symm⟩
  · obtain ⟨m, hr, hfix⟩ := decide_hot hh
    refine ⟨nc, m, by rw [hn]; exact hr, ?_⟩
    rw [hgr]
    by_cases hname : nc.name = p.confName
    · exact (same nc m hr hname).symm
    · rcases hside with hV | hs
      · exact (hfix hname hV).symm
      · exact (hs nc m hr hname).symm

/-- a path created for a static configuration satisfies all per-path predicates -/
theorem mkStatic_ok {orc : Oracle} {confs : List Conf} (wf : WFconfs confs) {c : Conf} (hc : c ∈ confs) (i : Nat) :
    ResOK orc confs (mkPath c c.name none i) ∧ EffOK confs (mkPath c c.name none i) ∧
      GrpOK orc confs (mkPath c c.name none i) :=
  ⟨⟨c, none, resolve_exact wf hc, rfl⟩, lookup_mem wf.nodup hc, ⟨c, none, resolve_exact wf hc, rfl⟩⟩

/-- a path created for a request -/
theorem mkReq_ok {orc : Oracle} {confs : List Conf} {n : Bytes} {c : Conf} {m : Option (List Bytes)}
    (hr : resolve orc confs n = some (c, m)) (i : Nat) :
    ResOK orc confs (mkPath c n m i) ∧ EffOK confs (mkPath c n m i) ∧ GrpOK orc confs (mkPath c n m i) :=
  ⟨⟨c, m, hr, rfl⟩, (resolve_some hr).2, ⟨c, m, hr, rfl⟩⟩

/-! ### membership in the state after a reload -/

theorem mem_reload {V : Variant} {orc : Oracle} {pm : PM} {new : List Conf} {q : LivePath}
    (h : q ∈ (reload V orc pm new).paths) :
    (∃ p ∈ pm.paths, applyDec p (decidePath V orc pm.confs new p) = some q) ∨
    (∃ c ∈ new, c.regex = false ∧ ∃ i, pm.nextInc ≤ i ∧ i < (reload V orc pm new).nextInc ∧
      q = mkPath c c.name none i) := by
  unfold reload at h ⊢
  simp only at h ⊢
  rcases cs_mem new _ _ q h with h | h
  · left
    obtain ⟨p, hp, hpq⟩ := List.mem_filterMap.mp h
    exact ⟨p, hp, hpq⟩
  · right; exact h

theorem reload_kept_mem {V : Variant} {orc : Oracle} {pm : PM} {new : List Conf} {p q : LivePath}
    (hp : p ∈ pm.paths) (h : applyDec p (decidePath V orc pm.confs new p) = some q) :
    q ∈ (reload V orc pm new).paths := by
  unfold reload
  simp only
  exact cs_sub new _ _ q (List.mem_filterMap.mpr ⟨p, hp, h⟩)

theorem reload_confs (V : Variant) (orc : Oracle) (pm : PM) (new : List Conf) :
    (reload V orc pm new).confs = new := rfl

theorem reload_nextInc_le (V : Variant) (orc : Oracle) (pm : PM) (new : List Conf) :
    pm.nextInc ≤ (reload V orc pm new).nextInc := by
  unfold reload; simp only; exact cs_le _ _ _

/-! ### InvA -/

theorem invA_reload {V : Variant} {orc : Oracle} {pm : PM} (inv : InvA orc pm) {new : List Conf}
    (wf : WFconfs new) : InvA orc (reload V orc pm new) := by
  have keyName : ∀ p q, applyDec p (decidePath V orc pm.confs new p) = some q → q.name = p.name :=
    fun p q h => (applyDec_some h).1
  have keyInc : ∀ p q, applyDec p (decidePath V orc pm.confs new p) = some q → q.inc = p.inc :=
    fun p q h => (applyDec_some h).2.1
  have hkeptLt : ∀ q ∈ pm.paths.filterMap (fun p => applyDec p (decidePath V orc pm.confs new p)),
      q.inc < pm.nextInc := by
    intro q hq
    obtain ⟨p, hp, hpq⟩ := List.mem_filterMap.mp hq
    rw [keyInc p q hpq]; exact inv.incLt p hp
  have hincs := cs_incs new _ pm.nextInc hkeptLt
    (filterMap_nodup (·.inc) _ keyInc pm.paths inv.incs)
  constructor
  · exact wf
  · unfold reload; simp only
    exact cs_names new _ _ (filterMap_nodup (·.name) _ keyName pm.paths inv.names)
  · unfold reload; simp only; exact hincs.1
  · unfold reload; simp only; exact hincs.2
  · intro q hq
    rw [reload_confs]
    rcases mem_reload hq with ⟨p, _, hpq⟩ | ⟨c, hc, _, i, _, _, rfl⟩
    · exact kept_res hpq
    · exact (mkStatic_ok wf hc i).1
  · unfold reload; simp only
    rw [inv.noPanic, Bool.false_or]
    apply Bool.eq_false_iff.mpr
    intro h
    obtain ⟨p, hp, hd⟩ := List.any_eq_true.mp h
    have hd : decidePath V orc pm.confs new p = .panic := by simpa using hd
    obtain ⟨c, m, hr, hcn⟩ := inv.res p hp
    have := (resolve_some hr).2
    rw [hcn, decide_panic hd] at this
    cases this

theorem invA_core {orc : Oracle} {pm : PM} (inv : InvA orc pm) {ps : List LivePath}
    (hn : (ps.map (·.name)).Nodup) (hi : (ps.map (·.inc)).Nodup) (hlt : ∀ p ∈ ps, p.inc < pm.nextInc)
    (hres : ∀ p ∈ ps, ResOK orc pm.confs p) : InvA orc { pm with paths := ps } :=
  ⟨inv.wf, hn, hlt, hi, hres, inv.noPanic⟩

/-- a function that only touches conf / mailbox / pub / readers -/
def Cosmetic (f : LivePath → LivePath) : Prop :=
  ∀ p, (f p).name = p.name ∧ (f p).inc = p.inc ∧ (f p).confName = p.confName ∧ (f p).groups = p.groups

theorem invA_upd {orc : Oracle} {pm : PM} (inv : InvA orc pm) (n : Bytes) {f : LivePath → LivePath}
    (hf : Cosmetic f) : InvA orc { pm with paths := updPath pm.paths n f } := by
  apply invA_core inv
  · rw [updPath_key (·.name) n f (fun p => (hf p).1)]; exact inv.names
  · rw [updPath_key (·.inc) n f (fun p => (hf p).2.1)]; exact inv.incs
  · intro q hq
    obtain ⟨p, hp, h | h⟩ := mem_updPath hq
    · rw [h]; exact inv.incLt p hp
    · rw [h, (hf p).2.1]; exact inv.incLt p hp
  · intro q hq
    obtain ⟨p, hp, h | h⟩ := mem_updPath hq
    · rw [h]; exact inv.res p hp
    · obtain ⟨c, m, hr, hcn⟩ := inv.res p hp
      rw [h]
      exact ⟨c, m, by rw [(hf p).1]; exact hr, by rw [(hf p).2.2.1]; exact hcn⟩

theorem invA_filter {orc : Oracle} {pm : PM} (inv : InvA orc pm) (g : LivePath → Bool) :
    InvA orc { pm with paths := pm.paths.filter g } := by
  apply invA_core inv
  · exact inv.names.sublist ((List.filter_sublist).map _)
  · exact inv.incs.sublist ((List.filter_sublist).map _)
  · intro p hp; exact inv.incLt p (List.mem_filter.mp hp).1
  · intro p hp; exact inv.res p (List.mem_filter.mp hp).1

theorem invA_ensure {orc : Oracle} {pm pm' : PM} (inv : InvA orc pm) {n : Bytes}
    (h : ensurePath orc pm n = some pm') : InvA orc pm' := by
  unfold ensurePath at h
  split at h
  · cases h
  · rename_i c m hr
    split at h
    · simp only [Option.some.injEq] at h; rw [← h]; exact inv
    · rename_i hno
      simp only [Option.some.injEq] at h
      rw [← h]
      have hno : hasPath pm.paths n = false := by simpa using hno
      refine ⟨inv.wf, ?_, ?_, ?_, ?_, inv.noPanic⟩
      · simp only [List.map_append, List.nodup_append]
        refine ⟨inv.names, by simp, ?_⟩
        intro a ha b hb
        obtain ⟨p, hp, rfl⟩ := List.mem_map.mp ha
        simp only [List.map_cons, List.map_nil, List.mem_singleton] at hb
        rw [hb]; exact hasPath_false hno p hp
      · intro p hp
        rcases List.mem_append.mp hp with hp | hp
        · exact Nat.lt_succ_of_lt (inv.incLt p hp)
        · have : p = mkPath c n m pm.nextInc := by simpa using hp
          rw [this]; exact Nat.lt_succ_self _
      · simp only [List.map_append, List.nodup_append]
        refine ⟨inv.incs, by simp, ?_⟩
        intro a ha b hb
        obtain ⟨p, hp, rfl⟩ := List.mem_map.mp ha
        simp only [List.map_cons, List.map_nil, List.mem_singleton] at hb
        rw [hb]; exact Nat.ne_of_lt (inv.incLt p hp)
      · intro p hp
        rcases List.mem_append.mp hp with hp | hp
        · exact inv.res p hp
        · have : p = mkPath c n m pm.nextInc := by simpa using hp
          rw [this]; exact (mkReq_ok hr _).1

theorem deliverPath_core (V : Variant) (p : LivePath) (i : Nat) :
    (deliverPath V p i).name = p.name ∧ (deliverPath V p i).inc = p.inc ∧
      (deliverPath V p i).confName = p.confName ∧ (deliverPath V p i).groups = p.groups ∧
      (deliverPath V p i).pub = p.pub ∧ (deliverPath V p i).readers = p.readers := by
  unfold deliverPath
  split
  · split <;> exact ⟨rfl, rfl, rfl, rfl, rfl, rfl⟩
  · split <;> exact ⟨rfl, rfl, rfl, rfl, rfl, rfl⟩

theorem cosmetic_deliver (V : Variant) (i : Nat) : Cosmetic (fun p => deliverPath V p i) := by
  intro p
  have := deliverPath_core V p i
  exact ⟨this.1, this.2.1, this.2.2.1, this.2.2.2.1⟩

def setPub (b : Bool) (p : LivePath) : LivePath := { p with pub := b }
def dropClients (p : LivePath) : LivePath := { p with pub := false, readers := [] }
def addReader (id : Nat) (p : LivePath) : LivePath :=
  if p.readers.contains id then p else { p with readers := p.readers ++ [id] }
def delReader (id : Nat) (p : LivePath) : LivePath := { p with readers := p.readers.filter (· != id) }

theorem cosmetic_setPub (b : Bool) : Cosmetic (setPub b) := fun _ => ⟨rfl, rfl, rfl, rfl⟩
theorem cosmetic_dropClients : Cosmetic dropClients := fun _ => ⟨rfl, rfl, rfl, rfl⟩
theorem cosmetic_addReader (id : Nat) : Cosmetic (addReader id) := by
  intro p; unfold addReader; split <;> exact ⟨rfl, rfl, rfl, rfl⟩
theorem cosmetic_delReader (id : Nat) : Cosmetic (delReader id) := fun _ => ⟨rfl, rfl, rfl, rfl⟩

/-- the client events written with the named update functions -/
theorem stepS_eq (V : Variant) (orc : Oracle) (pm : PM) (ev : Ev) : stepS V orc pm ev =
    match ev with
    | .reload new => (reload V orc pm new, .ok)
    | .deliver n i => ({ pm with paths := updPath pm.paths n (fun p => deliverPath V p i) }, .ok)
    | .pub n =>
      (match findPath pm.paths n with
      | some p =>
        if p.pub then (pm, .already)
        else (match resolve orc pm.confs n with
          | none => (pm, .err)
          | some _ => ({ pm with paths := updPath pm.paths n (setPub true) }, .ok))
      | none =>
        match ensurePath orc pm n with
        | none => (pm, .err)
        | some pm' => ({ pm' with paths := updPath pm'.paths n (setPub true) }, .ok))
    | .unpub n =>
      (match findPath pm.paths n with
      | some p =>
        if p.pub then ({ pm with paths := List.filter (fun p => !(p.name == n && shouldClose p)) (updPath pm.paths n dropClients) }, .ok)
        else (pm, .none)
      | none => (pm, .none))
    | .read n id =>
      if pm.paths.any (fun p => p.readers.contains id) then (pm, .busy) else
      (match ensurePath orc pm n with
      | none => (pm, .err)
      | some pm' =>
        match findPath pm'.paths n with
        | some p =>
          if p.pub then ({ pm' with paths := updPath pm'.paths n (addReader id) }, .ok)
          else ({ pm' with paths := pm'.paths.filter (fun p => !(p.name == n && shouldClose p)) }, .nostream)
        | none => (pm', .err))
    | .unread id =>
      (match pm.paths.find? (fun p => p.readers.contains id) with
      | some p =>
        ({ pm with paths := List.filter (fun q => !(q.name == p.name && shouldClose q)) (updPath pm.paths p.name (delReader id)) }, .ok)
      | none => (pm, .none)) := by
  cases ev <;> rfl

theorem invA_step {V : Variant} {orc : Oracle} {pm : PM} (inv : InvA orc pm) {ev : Ev} (hok : okEv pm ev) :
    InvA orc (step V orc pm ev) := by
  unfold step
  rw [stepS_eq]
  cases ev with
  | reload new => exact invA_reload inv hok
  | deliver n i => exact invA_upd inv n (cosmetic_deliver V i)
  | pub n =>
    simp only
    split
    · split
      · exact inv
      · split
        · exact inv
        · exact invA_upd inv n (cosmetic_setPub true)
    · split
      · exact inv
      · rename_i pm' he
        exact invA_upd (invA_ensure inv he) n (cosmetic_setPub true)
  | unpub n =>
    simp only
    split
    · split
      · exact invA_filter (invA_upd inv n cosmetic_dropClients) _
      · exact inv
    · exact inv
  | read n id =>
    simp only
    split
    · exact inv
    · split
      · exact inv
      · rename_i pm' he
        have inv' := invA_ensure inv he
        split
        · split
          · exact invA_upd inv' n (cosmetic_addReader id)
          · exact invA_filter inv' _
        · exact inv'
  | unread id =>
    simp only
    split
    · rename_i p _
      exact invA_filter (invA_upd inv p.name (cosmetic_delReader id)) _
    · exact inv

end MtxVerif.C15
