/- PathSM invariant: addPublisher / removePublisher arms -/
import MtxVerif.Lemmas.C18PathSM

namespace MtxVerif.PathSM

theorem inv_execRemove (w : W) (h : Inv w.s) (hc : w.s.closed = false) (q : Nat)
    (hs : w.s.source = some (.pub q)) : Inv (executeRemovePublisher w).s := by
  rw [executeRemovePublisher_s]
  have hv := odStatic_iff w.s.conf
  cases h; inv_fields

theorem pubOverride_post (w : W) (h : Inv w.s) (hc : w.s.closed = false) (hk : w.s.conf.kind = .publisher) :
    Inv (pubOverride w).s ∧ (pubOverride w).s.source = none ∧ (pubOverride w).s.closed = false ∧
    (pubOverride w).s.conf = w.s.conf := by
  unfold pubOverride
  split
  · exact ⟨h, ‹_›, hc, rfl⟩
  · rename_i q hq
    refine ⟨inv_execRemove _ h hc q hq, ?_, ?_, ?_⟩ <;> simp [executeRemovePublisher_s, hc]
  · rename_i x hx hne
    exfalso
    rcases h.kPub hk with h0 | ⟨q, hq⟩
    · rw [h0] at hne; cases hne
    · rw [hq] at hne; injection hne with e; exact hx q e.symm

theorem inv_pubAttach (p : Nat) (ok : Bool) (w : W) (h : Inv w.s) (hc : w.s.closed = false)
    (hk : w.s.conf.kind = .publisher) (hs : w.s.source = none) : Inv (pubAttach p ok w).s := by
  unfold pubAttach
  dsimp only
  have hv := odStatic_iff w.s.conf
  have hval := h.valid
  unfold Conf.valid at hval
  cases ok
  · simp only [Bool.not_false, if_true, emit_s, subErrCleanup_s]
    (repeat' split) <;> (try simp only [setAvailable_s] at *) <;> (cases h; inv_fields)
  · simp only [Bool.not_true, Bool.false_eq_true, if_false, emit_s]
    refine inv_consume _ ?_ ?_
    · (repeat' split) <;>
        simp only [emit_s, upd_s, newSub_s, setOnline_s, setAvailable_s, onDemandPublisherScheduleClose] at * <;>
        (cases h; inv_fields)
    · (repeat' split) <;>
        simp only [emit_s, upd_s, newSub_s, setOnline_s, setAvailable_s, onDemandPublisherScheduleClose] at * <;>
        (cases h; grind)

theorem inv_doAddPublisher (p : Nat) (ok : Bool) (w : W) (h : Inv w.s) (hc : w.s.closed = false) :
    Inv (doAddPublisher p ok w).s := by
  unfold doAddPublisher
  split
  · exact h
  split
  · exact h
  · rename_i hk _
    have hk' : w.s.conf.kind = .publisher := by simpa using hk
    obtain ⟨i1, i2, i3, i4⟩ := pubOverride_post w h hc hk'
    exact inv_pubAttach p ok _ i1 i3 (i4 ▸ hk') i2

theorem inv_doRemovePublisher (p : Nat) (w : W) (h : Inv w.s) (hc : w.s.closed = false) :
    Inv (doRemovePublisher p w).s := by
  unfold doRemovePublisher
  split
  · exact inv_execRemove w h hc p ‹_›
  · exact h


end MtxVerif.PathSM
