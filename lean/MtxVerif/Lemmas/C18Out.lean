/- PathSM: every helper only appends to the output list (membership is monotone). -/
import MtxVerif.Lemmas.C18PathSM_Step

namespace MtxVerif.PathSM

variable {x : Out} {w : W}

theorem mem_emit (o : Out) (h : x ∈ w.out) : x ∈ (emit o w).out := by simp [h]
theorem mem_upd (f : State → State) (h : x ∈ w.out) : x ∈ (upd f w).out := h
theorem mem_panic (h : x ∈ w.out) : x ∈ (panic w).out := by simp [panic, h]

theorem mem_setOffline (h : x ∈ w.out) : x ∈ (setOffline w).out := by
  unfold setOffline; split <;> simp [h]

theorem mem_setOnline (h : x ∈ w.out) : x ∈ (setOnline w).out := by
  unfold setOnline; simp [mem_setOffline h]

theorem mem_setAvailable (h : x ∈ w.out) : x ∈ (setAvailable w).out := by
  unfold setAvailable
  dsimp only
  apply mem_emit
  split
  · exact mem_emit _ (mem_upd _ (mem_upd _ h))
  · exact mem_setOnline (mem_emit _ (mem_upd _ (mem_upd _ h)))

theorem mem_closeReaders (h : x ∈ w.out) : x ∈ (closeReaders w).out := by
  simp [closeReaders, h]

theorem mem_setNotAvailable (h : x ∈ w.out) : x ∈ (setNotAvailable w).out := by
  unfold setNotAvailable
  dsimp only
  have h1 : x ∈ (closeReaders (setOffline (emit .pathNotReady w))).out :=
    mem_closeReaders (mem_setOffline (mem_emit _ h))
  split <;> simp [h1, panic]

/-- the key fact: `setNotAvailable` calls `Close()` on every attached reader -/
theorem setNotAvailable_closes (r : Nat) (hr : r ∈ w.s.readers) :
    Out.readerClosed r ∈ (setNotAvailable w).out := by
  unfold setNotAvailable
  dsimp only
  have h1 : Out.readerClosed r ∈ (closeReaders (setOffline (emit .pathNotReady w))).out := by
    simp only [closeReaders, setOffline_s, emit_s]
    exact List.mem_append_right _ (List.mem_map.mpr ⟨r, hr, rfl⟩)
  split <;> simp [h1, panic]

theorem mem_executeRemovePublisher (h : x ∈ w.out) : x ∈ (executeRemovePublisher w).out := by
  unfold executeRemovePublisher
  dsimp only
  split
  · exact mem_upd _ (mem_upd _ (mem_setOffline h))
  · exact mem_upd _ (mem_setNotAvailable h)

theorem mem_srcStart (h : x ∈ w.out) : x ∈ (srcStart w).out := by
  unfold srcStart; split <;> simp [h, panic]

theorem mem_srcStop (h : x ∈ w.out) : x ∈ (srcStop w).out := by
  unfold srcStop; split <;> simp [h, panic]

theorem mem_onDemandStaticSourceStop (h : x ∈ w.out) : x ∈ (onDemandStaticSourceStop w).out := by
  unfold onDemandStaticSourceStop
  dsimp only
  split <;> exact mem_srcStop (by simp [h])

theorem mem_onDemandPublisherStop (h : x ∈ w.out) : x ∈ (onDemandPublisherStop w).out := by
  unfold onDemandPublisherStop
  dsimp only
  split <;> split <;> simp [h, panic]

theorem mem_replyStream (rid : Nat) (h : x ∈ w.out) : x ∈ (replyStream rid w).out := by
  unfold replyStream; split <;> simp [h]

theorem mem_replyReader (rid r : Nat) (h : x ∈ w.out) : x ∈ (replyReader rid r w).out := by
  unfold replyReader; split <;> simp [h]

theorem mem_addReaderPost (rid r : Nat) (h : x ∈ w.out) : x ∈ (addReaderPost rid r w).out := by
  unfold addReaderPost
  dsimp only
  split
  · exact mem_replyReader _ _ h
  split
  · simp [h]
  · apply mem_replyReader
    split
    · split <;> simp [h]
    · split
      · split <;> simp [h]
      · exact h

theorem mem_foldl {α : Type} (f : W → α → W) (hf : ∀ w a, x ∈ w.out → x ∈ (f w a).out) (l : List α) :
    ∀ w : W, x ∈ w.out → x ∈ (l.foldl f w).out := by
  induction l with
  | nil => intro w h; exact h
  | cons a as ih => intro w h; exact ih _ (hf w a h)

theorem mem_consume (h : x ∈ w.out) : x ∈ (consumeOnHoldRequests w).out := by
  unfold consumeOnHoldRequests
  dsimp only
  apply mem_upd
  apply mem_foldl _ (fun w a h => mem_addReaderPost _ _ h)
  apply mem_upd
  exact mem_foldl _ (fun w a h => mem_replyStream _ h) _ _ h

theorem mem_failHolds (k : ReplyKind) (h : x ∈ w.out) : x ∈ (failHolds k w).out := by
  simp [failHolds, h]

theorem mem_closeCheck (h : x ∈ w.out) : x ∈ (closeCheck w).out := by
  unfold closeCheck; split <;> simp [h]

theorem mem_subErrCleanup (h : x ∈ w.out) : x ∈ (subErrCleanup w).out := by
  unfold subErrCleanup; split
  · exact h
  · exact mem_setNotAvailable h

theorem mem_pubAttach (p : Nat) (ok : Bool) (h : x ∈ w.out) : x ∈ (pubAttach p ok w).out := by
  unfold pubAttach
  dsimp only
  have h0 : x ∈ (if w.s.conf.alwaysAvailable = true then w else setAvailable w).out := by
    split
    · exact h
    · exact mem_setAvailable h
  generalize (if w.s.conf.alwaysAvailable = true then w else setAvailable w) = w1 at h0 ⊢
  split
  · exact mem_emit _ (mem_subErrCleanup h0)
  · apply mem_emit
    apply mem_consume
    have h1 : x ∈ (upd (fun s => { s with source := some (.pub p) }) (newSub w1)).out := h0
    generalize (upd (fun s => { s with source := some (.pub p) }) (newSub w1)) = w2 at h1 ⊢
    have h2 : x ∈ (if w2.s.conf.alwaysAvailable = true then setOnline w2 else w2).out := by
      split
      · exact mem_setOnline h1
      · exact h1
    generalize (if w2.s.conf.alwaysAvailable = true then setOnline w2 else w2) = w3 at h2 ⊢
    split
    · simp [onDemandPublisherScheduleClose, h2]
    · exact h2

/-! ### teardown: a step that replaces or drops the stream closes every reader attached before it -/

theorem consume_stream (w : W) : (consumeOnHoldRequests w).s.stream = w.s.stream := by
  obtain ⟨s1, R, e⟩ := consume_rd w
  rw [e]; exact R.f5

theorem pubAttach_stream_aa (p : Nat) (ok : Bool) (w : W) (haa : w.s.conf.alwaysAvailable = true) :
    (pubAttach p ok w).s.stream = w.s.stream := by
  unfold pubAttach
  dsimp only
  cases ok
  · simp [haa, subErrCleanup_s]
  · simp only [Bool.not_true, Bool.false_eq_true, if_false, emit_s, consume_stream, haa, if_true]
    (repeat' split) <;> simp [newSub_s, setOnline_s, onDemandPublisherScheduleClose]

theorem srcReady_stream_aa (ok : Bool) (w : W) (haa : w.s.conf.alwaysAvailable = true) :
    (doSourceStaticSetReady ok w).s.stream = w.s.stream := by
  unfold doSourceStaticSetReady
  dsimp only
  cases ok
  · simp [haa, subErrCleanup_s]
  · simp only [Bool.not_true, Bool.false_eq_true, if_false, emit_s, consume_stream, haa, if_true]
    (repeat' split) <;> simp [newSub_s, setOnline_s, onDemandStaticSourceScheduleClose]

theorem teardown_stepW (e : Event) (w : W) (h : Inv w.s) (sid : Nat) (hs : w.s.stream = some sid)
    (hch : (stepW e w).s.stream ≠ some sid) :
    ∀ r ∈ w.s.readers, Out.readerClosed r ∈ (stepW e w).out := by
  intro r hr
  have hsome : w.s.stream.isSome = true := by rw [hs]; rfl
  unfold stepW at hch ⊢
  split at hch
  · exact absurd hs hch
  split at hch
  · exfalso; apply hch; unfold stepClosed; split <;> simp [hs]
  rename_i hp hcl
  have hc : w.s.closed = false := by simpa using hcl
  rw [if_neg hp, if_neg hcl]
  split at hch
  · -- describe
    exfalso; apply hch; rw [closeCheck_s]; unfold doDescribe
    (repeat' split) <;> simp [replyStream_s, holdDemand_s, hs]
  · -- addPublisher
    rename_i p ok
    simp only [closeCheck_s] at hch
    apply mem_closeCheck
    unfold doAddPublisher at hch ⊢
    split at hch
    · exact absurd hs hch
    split at hch
    · exact absurd hs hch
    rename_i hk hb
    rw [if_neg hk, if_neg hb]
    have hk' : w.s.conf.kind = .publisher := by simpa using hk
    by_cases haa : w.s.conf.alwaysAvailable = true
    · exfalso; apply hch
      obtain ⟨_, _, _, e4⟩ := pubOverride_post w h hc hk'
      rw [pubAttach_stream_aa _ _ _ (by rw [e4]; exact haa)]
      unfold pubOverride; split
      · exact hs
      · simp [executeRemovePublisher_s, haa, hs]
      · simp [panic, hs]
    · have haa' : w.s.conf.alwaysAvailable = false := by simpa using haa
      apply mem_pubAttach
      unfold pubOverride
      split
      · rename_i hsrc
        have := h.c1 haa' hsome hk'
        rw [hsrc] at this; cases this
      · unfold executeRemovePublisher
        dsimp only
        rw [if_neg (by simpa using haa)]
        exact mem_upd _ (setNotAvailable_closes r hr)
      · rename_i x hx hne
        exfalso
        rcases h.kPub hk' with h0 | ⟨q, hq⟩
        · rw [h0] at hne; cases hne
        · rw [hq] at hne; injection hne with e; exact hx q e.symm
  · -- removePublisher
    simp only [closeCheck_s] at hch
    apply mem_closeCheck
    unfold doRemovePublisher at hch ⊢
    split at hch
    · rename_i hsrc
      rw [if_pos hsrc]
      by_cases haa : w.s.conf.alwaysAvailable = true
      · exfalso; apply hch; simp [executeRemovePublisher_s, haa, hs]
      · unfold executeRemovePublisher
        dsimp only
        rw [if_neg haa]
        exact mem_upd _ (setNotAvailable_closes r hr)
    · exact absurd hs hch
  · -- addReader
    exfalso; apply hch; rw [closeCheck_s]; unfold doAddReader
    (repeat' split) <;> simp [holdDemand_s, (addReaderPost_rd _ _ _).f5, hs]
  · -- removeReader
    exfalso; apply hch; rw [closeCheck_s]
    unfold doRemoveReader onDemandStaticSourceScheduleClose onDemandPublisherScheduleClose
    dsimp only
    (repeat' split) <;> simp [hs]
  · -- srcReady
    split at hch
    · rename_i ok hg
      exfalso
      by_cases haa : w.s.conf.alwaysAvailable = true
      · apply hch; rw [srcReady_stream_aa _ _ haa]; exact hs
      · have haa' : w.s.conf.alwaysAvailable = false := by simpa using haa
        have hks : w.s.conf.kind = .static := h.kStatic.mpr hg.1
        have := h.c2 haa' hsome (by rw [hks]; decide)
        rw [this] at hg; simp at hg
    · exact absurd hs hch
  · -- srcNotReady
    split at hch
    · rename_i hg
      rw [if_pos hg]
      simp only [closeCheck_s] at hch
      apply mem_closeCheck
      unfold doSourceStaticSetNotReady at hch ⊢
      dsimp only at hch ⊢
      by_cases haa : w.s.conf.alwaysAvailable = true
      · exfalso; apply hch
        simp only [haa, if_true]
        (repeat' split) <;> simp [setOffline_s, startOffline_s, onDemandStaticSourceStop_s, hs]
      · rw [if_neg haa]
        have h1 : Out.readerClosed r ∈ (upd (fun s => { s with srcSub := none, srcUp := false }) (setNotAvailable w)).out :=
          mem_upd _ (setNotAvailable_closes r hr)
        split
        · exact mem_onDemandStaticSourceStop h1
        · exact h1
    · exact absurd hs hch
  · -- timers
    split at hch
    · rename_i t ha
      rw [if_pos ha]
      cases t <;> unfold fireTimer at hch ⊢ <;> dsimp only at hch ⊢
      · exfalso; apply hch; rw [closeCheck_s]
        simp [doOnDemandStaticSourceReadyTimer, onDemandStaticSourceStop_s, failHolds_s, hs]
      · apply mem_closeCheck
        unfold doOnDemandStaticSourceCloseTimer
        split
        · exfalso; apply hch; rw [closeCheck_s]; unfold doOnDemandStaticSourceCloseTimer
          rename_i haa
          simp only [upd_s] at haa
          simp [haa, panic, hs]
        · apply mem_onDemandStaticSourceStop
          exact setNotAvailable_closes (w := upd _ w) r hr
      · exfalso; apply hch; rw [closeCheck_s]
        simp [doOnDemandPublisherReadyTimer, onDemandPublisherStop_s, failHolds_s, hs]
      · exfalso; apply hch
        simp [doOnDemandPublisherCloseTimer, onDemandPublisherStop_s, hs]
    · exact absurd hs hch
  · -- reloadConf
    exfalso; apply hch; split <;> simp [hs]
  · -- close
    unfold doClose
    dsimp only
    rw [if_pos hsome]
    apply mem_upd
    apply setNotAvailable_closes
    have e1 : ∀ w1 : W, (if w.s.hkDemand = true then emit (Out.hook Hook.demand false) (upd (fun s => { s with hkDemand := false }) w1) else w1).s.readers = w1.s.readers := by
      intro w1; split <;> rfl
    rw [e1, closeSource_s]
    split <;> simp [srcStop_s, failHolds_s, hr]
  · exact absurd hs hch
  · exact absurd hs hch

end MtxVerif.PathSM
