/- PathSM: every helper only appends to the output list (membership is monotone). -/
import MtxVerif.Lemmas.C18PathSM

namespace MtxVerif.PathSM

variable {x : Out} {w : W}

theorem mem_emit (o : Out) (h : x ∈ w.out) : x ∈ (emit o w).out := by simp [h]
theorem mem_upd (f : State → State) (h : x ∈ w.out) : x ∈ (upd f w).out := h
theorem mem_panic (h : x ∈ w.out) : x ∈ (panic w).out := by simp [panic, h]

theorem mem_setOffline (h : x ∈ w.out) : x ∈ (setOffline w).out := by
  unfold setOffline; split <;> simp [h]

theorem mem_setOnline (h : x ∈ w.out) : x ∈ (setOnline w).out := by
  unfold setOnline; simp [mem_setOffline h]

theorem mem_setAvailable (h : x ∈ w.out) : x ∈ (setAvailable w).out := by
  unfold setAvailable
  dsimp only
  apply mem_emit
  split
  · exact mem_emit _ (mem_upd _ (mem_upd _ h))
  · exact mem_setOnline (mem_emit _ (mem_upd _ (mem_upd _ h)))

theorem mem_closeReaders (h : x ∈ w.out) : x ∈ (closeReaders w).out := by
  simp [closeReaders, h]

theorem mem_setNotAvailable (h : x ∈ w.out) : x ∈ (setNotAvailable w).out := by
  unfold setNotAvailable
  dsimp only
  have h1 : x ∈ (closeReaders (setOffline (emit .pathNotReady w))).out :=
    mem_closeReaders (mem_setOffline (mem_emit _ h))
  split <;> simp [h1, panic]

/-- the key fact: `setNotAvailable` calls `Close()` on every attached reader -/
theorem setNotAvailable_closes (r : Nat) (hr : r ∈ w.s.readers) :
    Out.readerClosed r ∈ (setNotAvailable w).out := by
  unfold setNotAvailable
  dsimp only
  have h1 : Out.readerClosed r ∈ (closeReaders (setOffline (emit .pathNotReady w))).out := by
    simp only [closeReaders, setOffline_s, emit_s]
    exact List.mem_append_right _ (List.mem_map.mpr ⟨r, hr, rfl⟩)
  split <;> simp [h1, panic]

theorem mem_executeRemovePublisher (h : x ∈ w.out) : x ∈ (executeRemovePublisher w).out := by
  unfold executeRemovePublisher
  dsimp only
  split
  · exact mem_upd _ (mem_upd _ (mem_setOffline h))
  · exact mem_upd _ (mem_setNotAvailable h)

theorem mem_srcStart (h : x ∈ w.out) : x ∈ (srcStart w).out := by
  unfold srcStart; split <;> simp [h, panic]

theorem mem_srcStop (h : x ∈ w.out) : x ∈ (srcStop w).out := by
  unfold srcStop; split <;> simp [h, panic]

theorem mem_onDemandStaticSourceStop (h : x ∈ w.out) : x ∈ (onDemandStaticSourceStop w).out := by
  unfold onDemandStaticSourceStop
  dsimp only
  split <;> exact mem_srcStop (by simp [h])

theorem mem_onDemandPublisherStop (h : x ∈ w.out) : x ∈ (onDemandPublisherStop w).out := by
  unfold onDemandPublisherStop
  dsimp only
  split <;> split <;> simp [h, panic]

theorem mem_replyStream (rid : Nat) (h : x ∈ w.out) : x ∈ (replyStream rid w).out := by
  unfold replyStream; split <;> simp [h]

theorem mem_replyReader (rid r : Nat) (h : x ∈ w.out) : x ∈ (replyReader rid r w).out := by
  unfold replyReader; split <;> simp [h]

theorem mem_addReaderPost (rid r : Nat) (h : x ∈ w.out) : x ∈ (addReaderPost rid r w).out := by
  unfold addReaderPost
  dsimp only
  split
  · exact mem_replyReader _ _ h
  split
  · simp [h]
  · apply mem_replyReader
    split
    · split <;> simp [h]
    · split
      · split <;> simp [h]
      · exact h

theorem mem_foldl {α : Type} (f : W → α → W) (hf : ∀ w a, x ∈ w.out → x ∈ (f w a).out) (l : List α) :
    ∀ w : W, x ∈ w.out → x ∈ (l.foldl f w).out := by
  induction l with
  | nil => intro w h; exact h
  | cons a as ih => intro w h; exact ih _ (hf w a h)

theorem mem_consume (h : x ∈ w.out) : x ∈ (consumeOnHoldRequests w).out := by
  unfold consumeOnHoldRequests
  dsimp only
  apply mem_upd
  apply mem_foldl _ (fun w a h => mem_addReaderPost _ _ h)
  apply mem_upd
  exact mem_foldl _ (fun w a h => mem_replyStream _ h) _ _ h

theorem mem_failHolds (k : ReplyKind) (h : x ∈ w.out) : x ∈ (failHolds k w).out := by
  simp [failHolds, h]

theorem mem_closeCheck (h : x ∈ w.out) : x ∈ (closeCheck w).out := by
  unfold closeCheck; split <;> simp [h]

theorem mem_subErrCleanup (h : x ∈ w.out) : x ∈ (subErrCleanup w).out := by
  unfold subErrCleanup; split
  · exact h
  · exact mem_setNotAvailable h

theorem mem_pubAttach (p : Nat) (ok : Bool) (h : x ∈ w.out) : x ∈ (pubAttach p ok w).out := by
  unfold pubAttach
  dsimp only
  have h0 : x ∈ (if w.s.conf.alwaysAvailable = true then w else setAvailable w).out := by
    split
    · exact h
    · exact mem_setAvailable h
  generalize (if w.s.conf.alwaysAvailable = true then w else setAvailable w) = w1 at h0 ⊢
  split
  · exact mem_emit _ (mem_subErrCleanup h0)
  · apply mem_emit
    apply mem_consume
    have h1 : x ∈ (upd (fun s => { s with source := some (.pub p) }) (newSub w1)).out := h0
    generalize (upd (fun s => { s with source := some (.pub p) }) (newSub w1)) = w2 at h1 ⊢
    have h2 : x ∈ (if w2.s.conf.alwaysAvailable = true then setOnline w2 else w2).out := by
      split
      · exact mem_setOnline h1
      · exact h1
    generalize (if w2.s.conf.alwaysAvailable = true then setOnline w2 else w2) = w3 at h2 ⊢
    split
    · simp [onDemandPublisherScheduleClose, h2]
    · exact h2

end MtxVerif.PathSM
