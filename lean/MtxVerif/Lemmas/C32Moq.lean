/-
C32 — per-type lemmas: totality, progress, allocation bound and round trip of every MoQ decoder of
Model/C32_Moq.lean, obtained by composing the combinator lemmas of Lemmas/C32Lib.lean.
-/
import MtxVerif.Model.C32_Moq
import MtxVerif.Lemmas.C32Lib

namespace MtxVerif.C32

theorem u64max_lt {n : Nat} (h : n < two64) : n ≤ u64max := by
  unfold two64 at h; unfold u64max; omega

/-! ### namespace -/

theorem total_namespace : Total decNamespace := Total.listLP _ _ (Total.bytesLP _ _ _)
theorem nonIncr_namespace : NonIncr decNamespace := NonIncr.listLP _ _ (NonIncr.bytesLP _ _ _)
theorem allocB_namespace : AllocB (16 * 32) decNamespace :=
  AllocB.listLP 32 16 (AllocB.bytesLP0 _ _ (by decide))

theorem rt_part : RT encBytesLP (bytesLP u64max .post) (fun p => p.length < two64) := by
  intro p tail h
  exact bytesLP_rt _ _ _ p tail (u64max_lt h) h

theorem wfNamespace_iff (ns : Namespace) :
    wfNamespace ns = true ↔ ns.length ≤ 32 ∧ ∀ p ∈ ns, p.length < two64 := by
  unfold wfNamespace maxFieldCount
  simp

theorem rt_namespace (ns : Namespace) (h : wfNamespace ns = true) (tail : Bytes) :
    (decNamespace (encNamespace ns ++ tail)).r = .ok ns tail := by
  rw [wfNamespace_iff] at h
  exact listLP_rt 32 16 rt_part ns tail ⟨h.1, by omega, h.2⟩

/-- a decoded namespace never has more than 32 fields -/
theorem namespace_le (b : Bytes) (ns : Namespace) (r : Bytes) (h : (decNamespace b).r = .ok ns r) :
    ns.length ≤ 32 := listLP_le _ _ b ns r h

/-! ### authorization token -/

theorem total_authInner : Total decAuthInner := by
  simp only [decAuthInner, bind_eq, pure_eq]
  exact Total.bind (Total.varint _) fun _ => Total.bind (Total.guardD _ _) fun _ =>
    Total.bind (Total.varint _) fun _ => Total.bind Total.takeAll fun _ => Total.pure _

theorem alloc_authInner (b : Bytes) : (decAuthInner b).alloc = 0 := by
  have h : AllocC (0 + (0 + (0 + (0 + 0)))) decAuthInner := by
    simp only [decAuthInner, bind_eq, pure_eq]
    exact AllocC.bind (AllocC.zero_of_alloc varint_alloc0) fun _ =>
      AllocC.bind (AllocC.guardD _ _) fun _ =>
      AllocC.bind (AllocC.zero_of_alloc varint_alloc0) fun _ =>
      AllocC.bind (AllocC.zero_of_alloc takeAll_alloc) fun _ => AllocC.pure _
  have := h b
  omega

theorem total_authToken : Total decAuthToken := by
  simp only [decAuthToken, bind_eq]
  exact Total.bind (Total.bytesLP _ _ _) fun _ => Total.onBytes total_authInner _

theorem strict_authToken : Strict decAuthToken := by
  simp only [decAuthToken, bind_eq]
  exact Strict.bind (Strict.bytesLP _ _ _) fun _ => NonIncr.onBytes _ _

theorem allocB_authToken : AllocB 0 decAuthToken := by
  simp only [decAuthToken, bind_eq]
  exact AllocB.bind (AllocB.bytesLP0 _ _ (by decide)) fun _ =>
    AllocB.onBytes (AllocC.zero_of_alloc alloc_authInner) _

theorem wfAuthToken_iff (t : AuthToken) :
    wfAuthToken t = true ↔ t.aliasType = 3 ∧ t.tokenType < two64 ∧ authInnerSize t < two64 := by
  simp [wfAuthToken, aliasUseValue, and_assoc]

theorem rt_authToken (t : AuthToken) (h : wfAuthToken t = true) (tail : Bytes) :
    (decAuthToken (encAuthToken t ++ tail)).r = .ok t tail := by
  rw [wfAuthToken_iff] at h
  obtain ⟨ha, ht, hs⟩ := h
  have hlen : (encVarint t.aliasType ++ encVarint t.tokenType ++ t.value).length = authInnerSize t := by
    simp [authInnerSize, encVarint_length]; omega
  simp only [decAuthToken, bind_eq, encAuthToken]
  rw [← hlen]
  have hlp := bytesLP_rt u64max .none false (encVarint t.aliasType ++ encVarint t.tokenType ++ t.value)
    tail (u64max_lt (by rw [hlen]; exact hs)) (by rw [hlen]; exact hs)
  simp only [encBytesLP] at hlp
  rw [bind_ok hlp]
  rw [onBytes_r]
  have h3 : (3 : Nat) < 2 ^ 64 := by decide
  have inner : (decAuthInner (encVarint t.aliasType ++ encVarint t.tokenType ++ t.value)).r
      = .ok t [] := by
    simp only [decAuthInner, bind_eq, pure_eq, List.append_assoc]
    rw [bind_ok (varint_rt false _ (by rw [ha]; exact h3) _)]
    rw [bind_r]
    simp only [guardD_r, ha, aliasUseValue, beq_self_eq_true, if_true]
    rw [bind_ok (varint_rt false _ ht _)]
    rw [bind_r]
    simp only [takeAll_r, pure_r]
    cases t
    simp_all
  rw [inner]

/-! ### parameters -/

theorem total_paramsLoop (k cur : Nat) : Total (paramsLoop k cur) := by
  induction k generalizing cur with
  | zero => exact Total.pure _
  | succ k ih =>
    simp only [paramsLoop, bind_eq, pure_eq]
    exact Total.bind (Total.varint _) fun _ => Total.bind (Total.guardD _ _) fun _ =>
      Total.bind (Total.allocD _) fun _ => Total.bind total_authToken fun _ =>
      Total.bind (ih _) fun _ => Total.pure _

theorem nonIncr_paramsLoop (k cur : Nat) : NonIncr (paramsLoop k cur) := by
  induction k generalizing cur with
  | zero => exact NonIncr.pure _
  | succ k ih =>
    simp only [paramsLoop, bind_eq, pure_eq]
    exact NonIncr.bind (NonIncr.varint _) fun _ => NonIncr.bind (NonIncr.guardD _ _) fun _ =>
      NonIncr.bind (NonIncr.allocD _) fun _ => NonIncr.bind strict_authToken.nonIncr fun _ =>
      NonIncr.bind (ih _) fun _ => NonIncr.pure _

/-- whatever the (unchecked, up to 2^64) parameter count says, allocation is paid for by input -/
theorem allocB_paramsLoop (k cur : Nat) : AllocB 0 (paramsLoop k cur) := by
  induction k generalizing cur with
  | zero => exact AllocB.pure _
  | succ k ih =>
    simp only [paramsLoop, bind_eq, pure_eq]
    refine AllocB.bindStrict varint_alloc0 (Strict.varint _) fun delta => ?_
    have : AllocB (0 + (paramCost + (0 + (0 + 0)))) (Dec.bind (guardD ((cur + delta) % two64 == typeAuthorizationToken) .unsupported)
        fun _ => Dec.bind (allocD paramCost) fun _ => Dec.bind decAuthToken fun t =>
          Dec.bind (paramsLoop k ((cur + delta) % two64)) fun rest => Dec.pure (t :: rest)) :=
      AllocB.bind (AllocB.guardD _ _) fun _ => AllocB.bind (AllocB.allocD _) fun _ =>
        AllocB.bind allocB_authToken fun _ => AllocB.bind (ih _) fun _ => AllocB.pure _
    exact this.mono (by decide)

theorem total_params : Total decParams := by
  simp only [decParams, bind_eq]
  exact Total.bind (Total.varint _) fun _ => total_paramsLoop _ _

theorem nonIncr_params : NonIncr decParams := by
  simp only [decParams, bind_eq]
  exact NonIncr.bind (NonIncr.varint _) fun _ => nonIncr_paramsLoop _ _

theorem allocB_params : AllocB 0 decParams := by
  simp only [decParams, bind_eq]
  exact AllocB.bind AllocB.varint0 fun _ => allocB_paramsLoop _ _

theorem wfParams_iff (ps : Params) :
    wfParams ps = true ↔ ps.length < two64 ∧ ∀ t ∈ ps, wfAuthToken t = true := by
  simp [wfParams, List.all_eq_true]

theorem rt_paramsLoop (ps : Params) (prev : Nat) (hp : prev = 0 ∨ prev = 3)
    (h : ∀ t ∈ ps, wfAuthToken t = true) (tail : Bytes) :
    (paramsLoop ps.length prev (encParamsFrom prev ps ++ tail)).r = .ok ps tail := by
  induction ps generalizing prev with
  | nil => simp [paramsLoop, encParamsFrom]
  | cons t ts ih =>
    simp only [List.length_cons, paramsLoop, bind_eq, pure_eq, encParamsFrom, List.append_assoc]
    have hd : (typeAuthorizationToken + two64 - prev) % two64 < 2 ^ 64 := by
      unfold two64; exact Nat.mod_lt _ (by decide)
    rw [bind_ok (varint_rt false _ hd _)]
    have hc : (prev + (typeAuthorizationToken + two64 - prev) % two64) % two64 = 3 := by
      unfold typeAuthorizationToken two64
      rcases hp with rfl | rfl <;> decide
    rw [hc, bind_r]
    simp only [guardD_r, typeAuthorizationToken, beq_self_eq_true, if_true]
    rw [bind_r]
    simp only [allocD_r]
    rw [bind_ok (rt_authToken t (h t (by simp)) _)]
    rw [bind_ok (ih 3 (Or.inr rfl) (fun u hu => h u (by simp [hu])))]
    simp

theorem rt_params (ps : Params) (h : wfParams ps = true) (tail : Bytes) :
    (decParams (encParamsC ps ++ tail)).r = .ok ps tail := by
  rw [wfParams_iff] at h
  simp only [decParams, bind_eq, encParamsC, List.append_assoc]
  rw [bind_ok (varint_rt false _ h.1 _)]
  exact rt_paramsLoop ps 0 (Or.inl rfl) h.2 tail

/-! ### properties -/

theorem encVarint_ne_nil (v : Nat) : encVarint v ≠ [] := by simp [encVarint]

/-- the loop never panics and never hangs as long as the fuel exceeds the input length -/
theorem total_propsLoop (f cur : Nat) (b : Bytes) (hf : b.length < f) :
    (propsLoop f cur b).r ≠ .panic := by
  induction f generalizing cur b with
  | zero => omega
  | succ f ih =>
    unfold propsLoop
    by_cases he : b.isEmpty
    · simp [he]
    · simp only [he, Bool.false_eq_true, if_false, bind_eq, pure_eq]
      refine bind_ne_panic (Total.varint _ b) fun delta r1 h1 => ?_
      have s1 := Strict.varint _ b delta r1 h1
      split
      · refine bind_ne_panic (Total.allocD _ _) fun _ r2 h2 => ?_
        simp at h2; subst h2
        refine bind_ne_panic (Total.varint _ _) fun ts r3 h3 => ?_
        have s3 := Strict.varint _ _ ts r3 h3
        refine bind_ne_panic (ih _ _ (by omega)) fun _ _ _ => ?_
        simp
      · split
        · refine bind_ne_panic (Total.bytesLP _ _ _ _) fun _ r2 h2 => ?_
          have s2 := Strict.bytesLP _ _ _ _ _ r2 h2
          exact ih _ _ (by omega)
        · refine bind_ne_panic (Total.varint _ _) fun _ r2 h2 => ?_
          have s2 := Strict.varint _ _ _ r2 h2
          exact ih _ _ (by omega)

theorem total_props : Total decProps := fun b => total_propsLoop _ _ b (Nat.lt_succ_self _)

theorem allocB_propsLoop (f cur : Nat) : AllocB 0 (propsLoop f cur) := by
  induction f generalizing cur with
  | zero => intro b; simp [propsLoop, crash_r, crash_alloc, Res.restLen]
  | succ f ih =>
    intro b
    unfold propsLoop
    by_cases he : b.isEmpty
    · simp [he, Res.restLen]
    · simp only [he, Bool.false_eq_true, if_false, bind_eq, pure_eq]
      refine AllocB.bindStrict varint_alloc0 (Strict.varint _) (fun delta => ?_) b
      split
      · have : AllocB (propCost + (0 + (0 + 0))) (Dec.bind (allocD propCost) fun _ =>
            Dec.bind (varint) fun ts => Dec.bind (propsLoop f ((cur + delta) % two64)) fun rest =>
              Dec.pure (ts :: rest)) :=
          AllocB.bind (AllocB.allocD _) fun _ => AllocB.bind AllocB.varint0 fun _ =>
            AllocB.bind (ih _) fun _ => AllocB.pure _
        exact this.mono (by decide)
      · split
        · have : AllocB (0 + 0) (Dec.bind (bytesLP u64max .none) fun _ =>
              propsLoop f ((cur + delta) % two64)) :=
            AllocB.bind (AllocB.bytesLP0 _ _ (by decide)) fun _ => ih _
          exact this.mono (by decide)
        · have : AllocB (0 + 0) (Dec.bind (varint) fun _ => propsLoop f ((cur + delta) % two64)) :=
            AllocB.bind AllocB.varint0 fun _ => ih _
          exact this.mono (by decide)

theorem allocB_props : AllocB 0 decProps := fun b => allocB_propsLoop _ _ b

theorem wfProps_iff (ps : Props) : wfProps ps = true ↔ ∀ t ∈ ps, t < two64 := by
  unfold wfProps; simp

theorem rt_propsLoop (ps : Props) (prev f : Nat) (hp : prev = 0 ∨ prev = 6)
    (h : ∀ t ∈ ps, t < two64) (hf : (encPropsFrom prev ps).length < f) :
    (propsLoop f prev (encPropsFrom prev ps)).r = .ok ps [] := by
  induction ps generalizing prev f with
  | nil =>
    cases f with
    | zero => omega
    | succ f => simp [propsLoop, encPropsFrom]
  | cons t ts ih =>
    cases f with
    | zero => omega
    | succ f =>
      have hd : (timestampPropertyType + two64 - prev) % two64 < 2 ^ 64 := by
        unfold two64; exact Nat.mod_lt _ (by decide)
      have hc : (prev + (timestampPropertyType + two64 - prev) % two64) % two64 = 6 := by
        unfold timestampPropertyType two64
        rcases hp with rfl | rfl <;> decide
      have hne : (encPropsFrom prev (t :: ts)).isEmpty = false := by
        simp [encPropsFrom, encVarint_ne_nil]
      have ht : t < 2 ^ 64 := h t (by simp)
      have hl1 := encVarint_length ((timestampPropertyType + two64 - prev) % two64)
      have hl2 := encVarint_length t
      have hr1 := varintLen_range ((timestampPropertyType + two64 - prev) % two64)
      have hlen : (encPropsFrom timestampPropertyType ts).length < f := by
        simp only [encPropsFrom, List.length_append] at hf; omega
      unfold propsLoop
      rw [hne]
      simp only [Bool.false_eq_true, if_false, bind_eq, pure_eq, encPropsFrom, List.append_assoc]
      rw [bind_ok (varint_rt false _ hd _), hc]
      simp only [timestampPropertyType, beq_self_eq_true, if_true]
      rw [bind_r]
      simp only [allocD_r]
      have := varint_rt false t ht (encPropsFrom 6 ts)
      rw [bind_ok this]
      rw [bind_ok (ih 6 f (Or.inr rfl) (fun u hu => h u (by simp [hu])) hlen)]
      simp

theorem rt_props (ps : Props) (h : wfProps ps = true) :
    (decProps (encProps ps)).r = .ok ps [] := by
  rw [wfProps_iff] at h
  exact rt_propsLoop ps 0 _ (Or.inl rfl) h (Nat.lt_succ_self _)

/-! ### SETUP options -/

theorem total_setupLoop (f prev : Nat) (acc : Setup) (b : Bytes) (hf : b.length < f) :
    (setupLoop f prev acc b).r ≠ .panic := by
  induction f generalizing prev acc b with
  | zero => omega
  | succ f ih =>
    unfold setupLoop
    by_cases he : b.isEmpty
    · simp [he]
    · simp only [he, Bool.false_eq_true, if_false, bind_eq, pure_eq]
      refine bind_ne_panic (Total.varint _ b) fun delta r1 h1 => ?_
      have s1 := Strict.varint _ b delta r1 h1
      split
      · refine bind_ne_panic (Total.varint _ _) fun _ r2 h2 => ?_
        have s2 := Strict.varint _ _ _ r2 h2
        exact ih _ _ _ (by omega)
      · refine bind_ne_panic (Total.bytesLP _ _ _ _) fun _ r2 h2 => ?_
        have s2 := Strict.bytesLP _ _ _ _ _ r2 h2
        exact ih _ _ _ (by omega)

theorem total_setup : Total decSetupP := fun b => total_setupLoop _ _ _ b (Nat.lt_succ_self _)

theorem allocB_setupLoop (f prev : Nat) (acc : Setup) : AllocB 0 (setupLoop f prev acc) := by
  induction f generalizing prev acc with
  | zero => intro b; simp [setupLoop, crash_r, crash_alloc, Res.restLen]
  | succ f ih =>
    intro b
    unfold setupLoop
    by_cases he : b.isEmpty
    · simp [he, Res.restLen]
    · simp only [he, Bool.false_eq_true, if_false, bind_eq, pure_eq]
      refine AllocB.bindStrict varint_alloc0 (Strict.varint _) (fun delta => ?_) b
      split
      · have : AllocB (0 + 0) (Dec.bind (varint) fun _ => setupLoop f ((prev + delta) % two64) acc) :=
          AllocB.bind AllocB.varint0 fun _ => ih _ _
        exact this.mono (by decide)
      · exact (AllocB.bind (AllocB.bytesLP0 _ _ (by decide)) fun _ => ih _ _).mono (by decide)

theorem allocB_setup : AllocB 0 decSetupP := fun b => allocB_setupLoop _ _ _ b

theorem setupLoop_nil (f prev : Nat) (acc : Setup) : (setupLoop (f + 1) prev acc []).r = .ok acc [] := by
  simp [setupLoop]

/-- one odd (byte-string) option -/
theorem setupLoop_odd (f prev delta : Nat) (acc : Setup) (v rest : Bytes) (hd : delta < 2 ^ 64)
    (hv : v.length < two64) (hodd : ((prev + delta) % two64) % 2 = 1) :
    (setupLoop (f + 1) prev acc (encVarint delta ++ (encBytesLP v ++ rest))).r =
      (setupLoop f ((prev + delta) % two64)
        (if (prev + delta) % two64 == setupOptionPath then { acc with path := v }
         else if (prev + delta) % two64 == setupOptionAuthority then { acc with authority := v }
         else acc) rest).r := by
  have hne : (encVarint delta ++ (encBytesLP v ++ rest)).isEmpty = false := by
    simp [encVarint_ne_nil]
  conv => lhs; unfold setupLoop
  rw [hne]
  simp only [Bool.false_eq_true, if_false, bind_eq, pure_eq]
  rw [bind_ok (varint_rt false _ hd _)]
  simp only [hodd]
  have : ((1 : Nat) == 0) = false := rfl
  simp only [this, Bool.false_eq_true, if_false]
  rw [bind_ok (bytesLP_rt _ _ _ v rest (u64max_lt hv) hv)]

theorem wfSetup_iff (m : Setup) :
    wfSetup m = true ↔ m.path.length < two64 ∧ m.authority.length < two64 := by
  unfold wfSetup; simp

theorem rt_setup (m : Setup) (h : wfSetup m = true) : (decSetupP (encSetupP m)).r = .ok m [] := by
  rw [wfSetup_iff] at h
  obtain ⟨hp, ha⟩ := h
  obtain ⟨path, auth⟩ := m
  simp only at hp ha
  unfold decSetupP
  generalize hF : (encSetupP ⟨path, auth⟩).length = F
  unfold encSetupP
  simp only
  by_cases e1 : path.isEmpty <;> by_cases e2 : auth.isEmpty
  · simp only [e1, e2, if_true, List.append_nil]
    rw [setupLoop_nil]
    simp at e1 e2; simp [e1, e2]
  · simp only [e1, e2, if_true, Bool.false_eq_true, if_false, List.nil_append, setupOptionAuthority,
      Nat.sub_zero]
    have := setupLoop_odd F 0 5 ⟨[], []⟩ auth [] (by decide) ha (by decide)
    simp only [List.append_nil] at this
    rw [this]
    cases F with
    | zero => simp [encSetupP, e1, e2, encVarint] at hF
    | succ F =>
      rw [setupLoop_nil]
      simp at e1; simp [e1, two64, setupOptionPath, setupOptionAuthority]
  · simp only [e1, e2, if_true, Bool.false_eq_true, if_false, List.append_nil, setupOptionPath]
    have := setupLoop_odd F 0 1 ⟨[], []⟩ path [] (by decide) hp (by decide)
    simp only [List.append_nil] at this
    rw [this]
    cases F with
    | zero => simp [encSetupP, e1, e2, encVarint] at hF
    | succ F =>
      rw [setupLoop_nil]
      simp at e2; simp [e2, two64, setupOptionPath]
  · simp only [e1, e2, Bool.false_eq_true, if_false, setupOptionPath, setupOptionAuthority,
      List.append_assoc]
    rw [setupLoop_odd F 0 1 ⟨[], []⟩ path _ (by decide) hp (by decide)]
    cases F with
    | zero => simp [encSetupP, e1, e2, encVarint] at hF
    | succ F =>
      have h2 := setupLoop_odd F ((0 + 1) % two64) 4 (if (0 + 1) % two64 == setupOptionPath then
          { path := path, authority := [] : Setup } else if (0 + 1) % two64 == setupOptionAuthority then
          { path := [], authority := path } else ⟨[], []⟩) auth [] (by decide) ha (by decide)
      simp only [List.append_nil] at h2
      have e : (5 : Nat) - 1 = 4 := rfl
      rw [e, h2]
      cases F with
      | zero =>
        simp [encSetupP, e1, e2, encVarint, encBytesLP] at hF
      | succ F =>
        rw [setupLoop_nil]
        simp [two64, setupOptionPath, setupOptionAuthority]

/-! ### control message payloads -/

theorem total_subscribe : Total decSubscribeP := by
  simp only [decSubscribeP, bind_eq, pure_eq]
  exact Total.bind (Total.varint _) fun _ => Total.bind total_namespace fun _ =>
    Total.bind (Total.bytesLP _ _ _) fun _ => Total.bind total_params fun _ => Total.pure _

theorem allocB_subscribe : AllocB 512 decSubscribeP := by
  simp only [decSubscribeP, bind_eq, pure_eq]
  exact (AllocB.bind AllocB.varint0 fun _ => AllocB.bind allocB_namespace fun _ =>
    AllocB.bind (AllocB.bytesLP0 _ _ (by decide)) fun _ => AllocB.bind allocB_params fun _ =>
    AllocB.pure _).mono (by decide)

theorem total_publish : Total decPublishP := by
  simp only [decPublishP, bind_eq, pure_eq]
  exact Total.bind (Total.varint _) fun _ => Total.bind total_namespace fun _ =>
    Total.bind (Total.bytesLP _ _ _) fun _ => Total.bind (Total.varint _) fun _ =>
    Total.bind total_params fun _ => Total.bind total_props fun _ => Total.pure _

theorem allocB_publish : AllocB 512 decPublishP := by
  simp only [decPublishP, bind_eq, pure_eq]
  exact (AllocB.bind AllocB.varint0 fun _ => AllocB.bind allocB_namespace fun _ =>
    AllocB.bind (AllocB.bytesLP0 _ _ (by decide)) fun _ => AllocB.bind AllocB.varint0 fun _ =>
    AllocB.bind allocB_params fun _ => AllocB.bind allocB_props fun _ => AllocB.pure _).mono (by decide)

theorem total_subscribeOk : Total decSubscribeOkP := by
  simp only [decSubscribeOkP, bind_eq, pure_eq]
  exact Total.bind (Total.varint _) fun _ => Total.bind total_params fun _ =>
    Total.bind total_props fun _ => Total.pure _

theorem allocB_subscribeOk : AllocB 512 decSubscribeOkP := by
  simp only [decSubscribeOkP, bind_eq, pure_eq]
  exact (AllocB.bind AllocB.varint0 fun _ => AllocB.bind allocB_params fun _ =>
    AllocB.bind allocB_props fun _ => AllocB.pure _).mono (by decide)

theorem total_paramsProps : Total decParamsPropsP := by
  simp only [decParamsPropsP, bind_eq, pure_eq]
  exact Total.bind total_params fun _ => Total.bind total_props fun _ => Total.pure _

theorem allocB_paramsProps : AllocB 512 decParamsPropsP := by
  simp only [decParamsPropsP, bind_eq, pure_eq]
  exact (AllocB.bind allocB_params fun _ => AllocB.bind allocB_props fun _ =>
    AllocB.pure _).mono (by decide)

theorem total_requestError : Total decRequestErrorP := by
  simp only [decRequestErrorP, bind_eq, pure_eq]
  exact Total.bind (Total.varint _) fun _ => Total.bind (Total.varint _) fun _ =>
    Total.bind (Total.bytesLP _ _ _) fun _ => Total.pure _

theorem allocB_requestError : AllocB 512 decRequestErrorP := by
  simp only [decRequestErrorP, bind_eq, pure_eq]
  exact (AllocB.bind AllocB.varint0 fun _ => AllocB.bind AllocB.varint0 fun _ =>
    AllocB.bind (AllocB.bytesLP0 _ _ (by decide)) fun _ => AllocB.pure _).mono (by decide)

theorem rt_subscribe (m : Subscribe) (h : wfSubscribe m = true) (tail : Bytes) :
    (decSubscribeP (encSubscribeP m ++ tail)).r = .ok m tail := by
  simp only [wfSubscribe, Bool.and_eq_true, decide_eq_true_eq] at h
  obtain ⟨⟨⟨h1, h2⟩, h3⟩, h4⟩ := h
  simp only [decSubscribeP, encSubscribeP, bind_eq, pure_eq, List.append_assoc]
  rw [bind_ok (varint_rt false _ h1 _), bind_ok (rt_namespace _ h2 _),
    bind_ok (bytesLP_rt _ _ _ _ _ (u64max_lt h3) h3), bind_ok (rt_params _ h4 _)]
  rfl

theorem rt_publish (m : Publish) (h : wfPublish m = true) :
    (decPublishP (encPublishP m)).r = .ok m [] := by
  simp only [wfPublish, Bool.and_eq_true, decide_eq_true_eq] at h
  obtain ⟨⟨⟨⟨⟨h1, h2⟩, h3⟩, h4⟩, h5⟩, h6⟩ := h
  simp only [decPublishP, encPublishP, bind_eq, pure_eq, List.append_assoc]
  rw [bind_ok (varint_rt false _ h1 _), bind_ok (rt_namespace _ h2 _),
    bind_ok (bytesLP_rt _ _ _ _ _ (u64max_lt h3) h3), bind_ok (varint_rt false _ h4 _),
    bind_ok (rt_params _ h5 _), bind_ok (rt_props _ h6)]
  rfl

theorem rt_subscribeOk (m : SubscribeOk) (h : wfSubscribeOk m = true) :
    (decSubscribeOkP (encSubscribeOkP m)).r = .ok m [] := by
  simp only [wfSubscribeOk, Bool.and_eq_true, decide_eq_true_eq] at h
  obtain ⟨⟨h1, h2⟩, h3⟩ := h
  simp only [decSubscribeOkP, encSubscribeOkP, bind_eq, pure_eq, List.append_assoc]
  rw [bind_ok (varint_rt false _ h1 _), bind_ok (rt_params _ h2 _), bind_ok (rt_props _ h3)]
  rfl

theorem rt_paramsProps (m : ParamsProps) (h : wfParamsProps m = true) :
    (decParamsPropsP (encParamsPropsP m)).r = .ok m [] := by
  simp only [wfParamsProps, Bool.and_eq_true] at h
  obtain ⟨h1, h2⟩ := h
  simp only [decParamsPropsP, encParamsPropsP, bind_eq, pure_eq]
  rw [bind_ok (rt_params _ h1 _), bind_ok (rt_props _ h2)]
  rfl

theorem rt_requestError (m : RequestError) (h : wfRequestError m = true) (tail : Bytes) :
    (decRequestErrorP (encRequestErrorP m ++ tail)).r = .ok m tail := by
  simp only [wfRequestError, Bool.and_eq_true, decide_eq_true_eq] at h
  obtain ⟨h1, h2⟩ := h
  simp only [decRequestErrorP, encRequestErrorP, bind_eq, pure_eq, List.append_assoc]
  have h0 : encVarint 0 = [0] := by decide
  rw [bind_ok (varint_rt false _ h1 _), ← h0, bind_ok (varint_rt false 0 (by decide) _),
    bind_ok (bytesLP_rt _ _ _ _ _ (u64max_lt h2) h2)]
  rfl

/-! ### the frame and `controlmessage.Read` -/

theorem total_frame16 : Total frame16 := by
  intro b
  simp only [frame16, bind_eq, bind_r, needD_r]
  by_cases h1 : 2 ≤ b.length
  · simp only [h1, if_true, slice_r, allocD_r, List.length_drop]
    by_cases h2 : beNat (b.take 2) ≤ b.length - 2 <;> simp [h2]
  · simp [h1]

theorem frame16_le (b v r : Bytes) (h : (frame16 b).r = .ok v r) : v.length ≤ maxMsgPayload := by
  simp only [frame16, bind_eq, bind_r, needD_r] at h
  by_cases h1 : 2 ≤ b.length
  · simp only [h1, if_true, slice_r, allocD_r, List.length_drop] at h
    have hl := beNat_lt (b.take 2)
    have : (b.take 2).length = 2 := by simp; omega
    rw [this] at hl
    by_cases h2 : beNat (b.take 2) ≤ b.length - 2
    · simp [h2] at h; rw [← h.1]; simp [maxMsgPayload]; omega
    · simp [h2] at h
  · simp [h1] at h

theorem allocC_frame16 : AllocC maxMsgPayload frame16 := by
  intro b
  simp only [frame16, bind_eq, bind_r, bind_alloc, needD_r, needD_alloc]
  by_cases h1 : 2 ≤ b.length
  · simp only [h1, if_true, slice_r, slice_alloc, allocD_r, allocD_alloc, List.length_drop]
    have hl := beNat_lt (b.take 2)
    have : (b.take 2).length = 2 := by simp; omega
    rw [this] at hl
    by_cases h2 : beNat (b.take 2) ≤ b.length - 2 <;> simp [h2, maxMsgPayload] <;> omega
  · simp [h1]

theorem frame16_rt (payload tail : Bytes) (h : payload.length ≤ maxMsgPayload) :
    (frame16 (beBytes 2 payload.length ++ (payload ++ tail))).r = .ok payload tail := by
  have hb := beBytes_length 2 payload.length
  have hn : beNat (beBytes 2 payload.length) = payload.length := by
    rw [beNat_beBytes]; unfold maxMsgPayload at h; apply Nat.mod_eq_of_lt; omega
  simp only [frame16, bind_eq, bind_r, needD_r, List.length_append, hb]
  have : 2 ≤ 2 + (payload.length + tail.length) := by omega
  simp only [this, if_true, slice_r, List.length_append, hb, allocD_r, List.take_left' hb,
    List.drop_left' hb, hn, Nat.le_add_right]
  simp

theorem selMsg_ind (P : Dec Msg → Prop)
    (h1 : P (Dec.map .setup decSetupP)) (h2 : P (Dec.map .clientSetup decSetupP))
    (h3 : P (Dec.map .serverSetup decSetupP)) (h4 : P (Dec.map .subscribe decSubscribeP))
    (h5 : P (Dec.map .subscribeOk decSubscribeOkP)) (h6 : P (Dec.map .requestError decRequestErrorP))
    (h7 : P (Dec.map .publish decPublishP)) (h8 : P (Dec.map .publishOk decParamsPropsP))
    (h9 : P (Dec.map .requestOk decParamsPropsP)) (t : Nat) (d : Dec Msg) (h : selMsg t = some d) :
    P d := by
  unfold selMsg at h
  repeat' split at h
  all_goals first | (injection h with h; rw [← h]; assumption) | (simp at h)

theorem total_selMsg (t : Nat) (d : Dec Msg) (h : selMsg t = some d) : Total d :=
  selMsg_ind Total (Total.map _ total_setup) (Total.map _ total_setup) (Total.map _ total_setup)
    (Total.map _ total_subscribe) (Total.map _ total_subscribeOk) (Total.map _ total_requestError)
    (Total.map _ total_publish) (Total.map _ total_paramsProps) (Total.map _ total_paramsProps) t d h

theorem allocB_selMsg (t : Nat) (d : Dec Msg) (h : selMsg t = some d) : AllocB 512 d :=
  selMsg_ind (AllocB 512) (AllocB.map _ (allocB_setup.mono (by decide)))
    (AllocB.map _ (allocB_setup.mono (by decide))) (AllocB.map _ (allocB_setup.mono (by decide)))
    (AllocB.map _ allocB_subscribe) (AllocB.map _ allocB_subscribeOk) (AllocB.map _ allocB_requestError)
    (AllocB.map _ allocB_publish) (AllocB.map _ allocB_paramsProps) (AllocB.map _ allocB_paramsProps) t d h

theorem total_readMsg : Total readMsg := by
  unfold readMsg
  refine Total.tagged (Total.pair (Total.varint _) total_frame16) fun tp d h => ?_
  cases hs : selMsg tp.1 with
  | none => rw [hs] at h; simp at h
  | some d' =>
    rw [hs] at h; simp at h; rw [← h]
    exact Total.onBytes (total_selMsg _ _ hs) _

theorem pair_ok {d1 : Dec α} {d2 : Dec β} {b : Bytes} {a : α} {p : β} {r : Bytes}
    (h : (pair d1 d2 b).r = .ok (a, p) r) : ∃ r1, (d1 b).r = .ok a r1 ∧ (d2 r1).r = .ok p r := by
  simp only [pair, bind_eq, pure_eq, bind_r] at h
  cases h1 : (d1 b).r with
  | ok x r1 =>
    rw [h1] at h; simp only [] at h
    cases h2 : (d2 r1).r with
    | ok y r2 =>
      rw [h2] at h; simp at h
      exact ⟨r1, by rw [h.1.1], by rw [h2, h.1.2, h.2]⟩
    | err e => rw [h2] at h; simp at h
    | panic => rw [h2] at h; simp at h
  | err e => rw [h1] at h; simp at h
  | panic => rw [h1] at h; simp at h

/-- allocation limit of one control message read from a stream, whatever the bytes -/
def msgAllocLimit : Nat := 8 + maxMsgPayload + (128 * maxMsgPayload + 512)

theorem allocC_readMsg : AllocC msgAllocLimit readMsg := by
  unfold readMsg tagged msgAllocLimit
  simp only [bind_eq]
  refine AllocC.bindOk (AllocC.pair (AllocC.varint _) allocC_frame16) fun b tp r h => ?_
  obtain ⟨t, payload⟩ := tp
  obtain ⟨r1, _, hf⟩ := pair_ok h
  have hl := frame16_le _ _ _ hf
  cases hs : selMsg t with
  | none => simp only [hs, Option.map_none]; exact (AllocC.fail _).mono (Nat.zero_le _)
  | some d =>
    simp only [hs, Option.map_some]
    exact AllocC.onBytes (allocB_selMsg _ _ hs) payload hl

theorem selMsg_typ (m : Msg) : selMsg m.typ = some (match m with
    | .setup _ => Dec.map .setup decSetupP | .clientSetup _ => Dec.map .clientSetup decSetupP
    | .serverSetup _ => Dec.map .serverSetup decSetupP | .subscribe _ => Dec.map .subscribe decSubscribeP
    | .subscribeOk _ => Dec.map .subscribeOk decSubscribeOkP
    | .requestError _ => Dec.map .requestError decRequestErrorP
    | .publish _ => Dec.map .publish decPublishP | .publishOk _ => Dec.map .publishOk decParamsPropsP
    | .requestOk _ => Dec.map .requestOk decParamsPropsP) := by
  cases m <;> rfl

/-- every payload decoder returns the message when run on exactly its encoded payload -/
theorem rt_payload (m : Msg) (h : wfMsgBody m = true) :
    ∃ d rest, selMsg m.typ = some d ∧ (d m.payload).r = .ok m rest := by
  cases m with
  | setup x => exact ⟨_, _, rfl, map_ok (rt_setup x h)⟩
  | clientSetup x => exact ⟨_, _, rfl, map_ok (rt_setup x h)⟩
  | serverSetup x => exact ⟨_, _, rfl, map_ok (rt_setup x h)⟩
  | subscribe x =>
    have := rt_subscribe x h []
    simp only [List.append_nil] at this
    exact ⟨_, _, rfl, map_ok this⟩
  | subscribeOk x => exact ⟨_, _, rfl, map_ok (rt_subscribeOk x h)⟩
  | requestError x =>
    have := rt_requestError x h []
    simp only [List.append_nil] at this
    exact ⟨_, _, rfl, map_ok this⟩
  | publish x => exact ⟨_, _, rfl, map_ok (rt_publish x h)⟩
  | publishOk x => exact ⟨_, _, rfl, map_ok (rt_paramsProps x h)⟩
  | requestOk x => exact ⟨_, _, rfl, map_ok (rt_paramsProps x h)⟩

theorem typ_lt (m : Msg) : m.typ < 2 ^ 64 := by cases m <;> simp only [Msg.typ] <;> decide

theorem rt_readMsg (m : Msg) (h : wfMsg m = true) (tail : Bytes) :
    (readMsg (encMsg m ++ tail)).r = .ok m tail := by
  simp only [wfMsg, Bool.and_eq_true, fitsFrame, decide_eq_true_eq] at h
  obtain ⟨hb, hf⟩ := h
  obtain ⟨d, rest, hs, hd⟩ := rt_payload m hb
  unfold readMsg tagged encMsg
  simp only [bind_eq, List.append_assoc]
  have hp : (pair (varint true) frame16 (encVarint m.typ ++ (beBytes 2 m.payload.length ++
      (m.payload ++ tail)))).r = .ok (m.typ, m.payload) tail := by
    simp only [pair, bind_eq, pure_eq]
    rw [bind_ok (varint_rt true _ (typ_lt m) _), bind_ok (frame16_rt _ _ hf)]
    rfl
  rw [bind_ok hp]
  simp only [hs, Option.map_some]
  rw [onBytes_r, hd]

/-! ### subgroup stream -/

theorem total_readHeader : Total readHeader := by
  intro b
  simp only [readHeader, bind_eq, pure_eq]
  cases b with
  | nil => simp [bind_r]
  | cons x xs =>
    rw [bind_r]; simp only [needD_r, List.length_cons, Nat.le_add_left, if_true]
    rw [bind_r]; simp only [byte0]
    exact (Total.bind (Total.varint _) fun _ => Total.bind (Total.varint _) fun _ => Total.pure _) xs

theorem allocC_readHeader : AllocC 16 readHeader := by
  have h : AllocC (0 + (0 + (8 + (8 + 0)))) readHeader := by
    simp only [readHeader, bind_eq, pure_eq]
    exact AllocC.bind (AllocC.zero_of_alloc (needD_alloc _ _)) fun _ =>
      AllocC.bind (AllocC.zero_of_alloc fun b => by cases b <;> rfl) fun _ =>
      AllocC.bind (AllocC.varint _) fun _ => AllocC.bind (AllocC.varint _) fun _ => AllocC.pure _
  exact h.mono (by decide)

theorem headerType_lt (h : Header) : headerType h < 128 := by
  unfold headerType; cases h.properties <;> cases h.firstObject <;> decide

theorem rt_header (h : Header) (hw : wfHeader h = true) (tail : Bytes) :
    (readHeader (encHeader h ++ tail)).r = .ok h tail := by
  simp only [wfHeader, Bool.and_eq_true, decide_eq_true_eq] at hw
  obtain ⟨h1, h2⟩ := hw
  have ht := headerType_lt h
  have he : encVarint (headerType h) = [UInt8.ofNat (headerType h)] := by
    have : varintLen (headerType h) = 1 := by unfold varintLen; simp; omega
    simp [encVarint, this, prefixOf, beBytes]
  simp only [readHeader, bind_eq, pure_eq, encHeader, he, List.append_assoc, List.cons_append,
    List.nil_append]
  rw [bind_r]; simp only [needD_r, List.length_cons, Nat.le_add_left, if_true]
  rw [bind_r]; simp only [byte0]
  rw [bind_ok (varint_rt true _ h1 _), bind_ok (varint_rt true _ h2 _)]
  have hn : (UInt8.ofNat (headerType h)).toNat = headerType h := by
    simp; omega
  simp only [pure_r, hn]
  obtain ⟨p, f, a, g⟩ := h
  unfold headerType
  cases p <;> cases f <;> simp

theorem total_readObject (hp : Bool) : Total (readObject hp) := by
  simp only [readObject, bind_eq, pure_eq]
  refine Total.bind (Total.varint _) fun _ => Total.bind ?_ fun _ =>
    Total.bind (Total.bytesLP _ _ _) fun payload => ?_
  · cases hp
    · exact Total.pure _
    · exact Total.bind (Total.bytesLP _ _ _) fun _ => Total.onBytes total_props _
  · split
    · exact Total.bind (Total.varint _) fun _ => Total.bind (Total.guardD _ _) fun _ => Total.pure _
    · exact Total.pure _

/-- allocation limit of one object read from a stream -/
def objAllocLimit : Nat := 8 + (8 + maxPropsLen + 128 * maxPropsLen) + (8 + maxPayloadSize) + 8

theorem allocC_readObject (hp : Bool) : AllocC objAllocLimit (readObject hp) := by
  have h : AllocC (8 + ((8 + maxPropsLen + (128 * maxPropsLen + 0)) + ((8 + maxPayloadSize) + (8 + (0 + 0)))))
      (readObject hp) := by
    simp only [readObject, bind_eq, pure_eq]
    refine AllocC.bind (AllocC.varint _) fun _ => AllocC.bind ?_ fun _ =>
      AllocC.bind (AllocC.bytesLP _ _) fun payload => ?_
    · cases hp
      · exact (AllocC.pure _).mono (Nat.zero_le _)
      · exact AllocC.bindOk (AllocC.bytesLP _ _) fun b sub r h =>
          AllocC.onBytes allocB_props sub (bytesLP_le _ _ _ _ _ _ h)
    · split
      · exact AllocC.bind (AllocC.varint _) fun _ => AllocC.bind (AllocC.guardD _ _) fun _ => AllocC.pure _
      · exact (AllocC.pure _).mono (Nat.zero_le _)
  exact h.mono (by decide)

theorem wfObject_iff (hp : Bool) (o : Object) : wfObject hp o = true ↔
    o.idDelta < two64 ∧
    (if hp then wfProps o.props = true ∧ (encProps o.props).length ≤ maxPropsLen else o.props = []) ∧
    o.payload.length ≤ maxPayloadSize := by
  unfold wfObject
  cases hp <;> simp [and_assoc]

theorem maxPropsLen_lt : maxPropsLen < 2 ^ 64 := by decide
theorem maxPayloadSize_lt : maxPayloadSize < 2 ^ 64 := by decide

theorem rt_object (hp : Bool) (o : Object) (h : wfObject hp o = true) (tail : Bytes) :
    (readObject hp (encObject hp o ++ tail)).r = .ok o tail := by
  rw [wfObject_iff] at h
  obtain ⟨h1, h2, h3⟩ := h
  obtain ⟨idd, props, payload⟩ := o
  simp only at h1 h2 h3
  simp only [readObject, encObject, bind_eq, pure_eq, List.append_assoc]
  rw [bind_ok (varint_rt true _ h1 _)]
  have hprops : ∀ rest, ((if hp = true then
        Dec.bind (bytesLP maxPropsLen .pre true) fun sub => onBytes decProps sub
      else Dec.pure []) ((if hp = true then encBytesLP (encProps props) else []) ++ rest)).r
        = .ok props rest := by
    intro rest
    cases hp with
    | false => simp at h2; simp [h2]
    | true =>
      simp only [if_true] at h2 ⊢
      have := maxPropsLen_lt
      rw [bind_ok (bytesLP_rt _ _ _ _ _ h2.2 (by omega)), onBytes_r, rt_props _ h2.1]
  rw [bind_ok (hprops _)]
  have := maxPayloadSize_lt
  by_cases he : payload.isEmpty
  · have hnil : payload = [] := by simpa using he
    subst hnil
    have h0 : ([0, UInt8.ofNat objectStatusEndOfGroup] : Bytes) = encBytesLP [] ++ encVarint 3 := by decide
    simp only [List.isEmpty_nil, if_true, h0, List.append_assoc]
    rw [bind_ok (bytesLP_rt _ _ _ [] _ (Nat.zero_le _) (by decide))]
    simp only [List.isEmpty_nil, if_true]
    rw [bind_ok (varint_rt true 3 (by decide) _)]
    simp [bind_r, objectStatusEndOfGroup]
  · simp only [he, Bool.false_eq_true, if_false]
    rw [bind_ok (bytesLP_rt _ _ _ payload _ h3 (by omega))]
    simp [he]

theorem total_readSubGroup : Total readSubGroup := by
  simp only [readSubGroup, bind_eq, pure_eq]
  exact Total.bind total_readHeader fun _ => Total.bind (total_readObject _) fun _ =>
    Total.bind (Total.guardD _ _) fun _ => Total.bind (total_readObject _) fun _ =>
    Total.bind (Total.guardD _ _) fun _ => Total.pure _

/-- allocation limit of one subgroup stream, whatever the bytes -/
def subGroupAllocLimit : Nat := 16 + 2 * objAllocLimit

theorem allocC_readSubGroup : AllocC subGroupAllocLimit readSubGroup := by
  have h : AllocC (16 + (objAllocLimit + (0 + (objAllocLimit + (0 + 0))))) readSubGroup := by
    simp only [readSubGroup, bind_eq, pure_eq]
    exact AllocC.bind allocC_readHeader fun _ => AllocC.bind (allocC_readObject _) fun _ =>
      AllocC.bind (AllocC.guardD _ _) fun _ => AllocC.bind (allocC_readObject _) fun _ =>
      AllocC.bind (AllocC.guardD _ _) fun _ => AllocC.pure _
  exact h.mono (by unfold subGroupAllocLimit; omega)

theorem rt_subGroup (s : SubGroup) (h : wfSubGroup s = true) (tail : Bytes) :
    (readSubGroup (encSubGroup s ++ tail)).r = .ok s tail := by
  obtain ⟨hd, objs⟩ := s
  simp only [wfSubGroup, Bool.and_eq_true] at h
  obtain ⟨hh, ho⟩ := h
  match objs, ho with
  | [o], ho =>
    simp only [Bool.and_eq_true, Bool.not_eq_true'] at ho
    obtain ⟨ho1, ho2⟩ := ho
    simp only [readSubGroup, encSubGroup, bind_eq, pure_eq, List.flatMap_cons, List.flatMap_nil,
      List.append_nil, List.append_assoc]
    rw [bind_ok (rt_header hd hh _), bind_ok (rt_object _ o ho1 _)]
    rw [bind_r]; simp only [guardD_r, ho2, Bool.not_false, if_true]
    have hend : wfObject hd.properties ⟨0, [], []⟩ = true := by
      rw [wfObject_iff]; cases hd.properties <;> simp [two64, wfProps, encProps, encPropsFrom]
    rw [bind_ok (rt_object _ ⟨0, [], []⟩ hend _)]
    simp [bind_r]

end MtxVerif.C32
