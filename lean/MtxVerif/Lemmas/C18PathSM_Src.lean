/- PathSM invariant: static source ready / not-ready and timer arms -/
import MtxVerif.Lemmas.C18PathSM

namespace MtxVerif.PathSM

theorem inv_srcReady (ok : Bool) (w : W) (h : Inv w.s) (hc : w.s.closed = false)
    (hg : w.s.source = some .static ∧ w.s.srcRunning = true ∧ (!w.s.srcUp) = true) :
    Inv (doSourceStaticSetReady ok w).s := by
  unfold doSourceStaticSetReady
  dsimp only
  have hv := odStatic_iff w.s.conf
  have hval := h.valid
  unfold Conf.valid at hval
  cases ok
  · simp only [Bool.not_false, if_true, emit_s, subErrCleanup_s]
    (repeat' split) <;> (try simp only [setAvailable_s] at *) <;> (cases h; inv_fields)
  · simp only [Bool.not_true, Bool.false_eq_true, if_false, emit_s]
    refine inv_consume _ ?_ ?_
    · (repeat' split) <;>
        simp only [emit_s, upd_s, newSub_s, setOnline_s, setAvailable_s, onDemandStaticSourceScheduleClose] at * <;>
        (cases h; inv_fields)
    · (repeat' split) <;>
        simp only [emit_s, upd_s, newSub_s, setOnline_s, setAvailable_s, onDemandStaticSourceScheduleClose] at * <;>
        (cases h; grind)

theorem inv_srcNotReady (w : W) (h : Inv w.s) (hc : w.s.closed = false)
    (hg : w.s.source = some .static ∧ w.s.srcRunning = true ∧ w.s.srcUp = true) :
    Inv (doSourceStaticSetNotReady w).s := by
  unfold doSourceStaticSetNotReady
  dsimp only
  have hv := odStatic_iff w.s.conf
  have hval := h.valid
  unfold Conf.valid at hval
  (repeat' split) <;>
    simp only [upd_s, setOffline_s, startOffline_s, setNotAvailable_s, onDemandStaticSourceStop_s] at * <;>
    (repeat' split) <;> (cases h; inv_fields)

theorem inv_fireTimer (t : Timer) (w : W) (h : Inv w.s) (hc : w.s.closed = false) (ha : timerArmed w.s t = true) :
    Inv (fireTimer t w).s := by
  have hv := odStatic_iff w.s.conf
  have hval := h.valid
  unfold Conf.valid at hval
  cases t <;> unfold fireTimer timerArmed at * <;> simp only [closeCheck_s]
  · unfold doOnDemandStaticSourceReadyTimer
    simp only [onDemandStaticSourceStop_s, failHolds_s, upd_s]
    (repeat' split) <;> (cases h; inv_fields)
  · unfold doOnDemandStaticSourceCloseTimer
    (repeat' split) <;> simp only [onDemandStaticSourceStop_s, setNotAvailable_s, upd_s, panic, emit_s] at * <;>
      (repeat' split) <;> (cases h; inv_fields)
  · unfold doOnDemandPublisherReadyTimer
    simp only [onDemandPublisherStop_s, failHolds_s, upd_s]
    cases h; inv_fields
  · unfold doOnDemandPublisherCloseTimer
    simp only [onDemandPublisherStop_s, upd_s]
    cases h; inv_fields


end MtxVerif.PathSM
