/-
Shared invariant library for the PathSM properties (C16, C18, C19, C20): state-effect lemmas of the
helpers and the reader-set invariants.  Core Lean only.
-/
import MtxVerif.Model.PathSM

namespace MtxVerif.PathSM

@[simp] theorem emit_s (o : Out) (w : W) : (emit o w).s = w.s := rfl
@[simp] theorem emit_out (o : Out) (w : W) : (emit o w).out = w.out ++ [o] := rfl
@[simp] theorem upd_s (f : State → State) (w : W) : (upd f w).s = f w.s := rfl
@[simp] theorem upd_out (f : State → State) (w : W) : (upd f w).out = w.out := rfl

/-! ### state effect of the helpers (closed forms, used as simp lemmas) -/

theorem setOffline_s (w : W) : (setOffline w).s = { w.s with hkOnline := false } := by
  unfold setOffline; split
  · rfl
  · rename_i h; rcases w with ⟨s, o⟩; cases s; simp_all

theorem setOnline_s (w : W) : (setOnline w).s = { w.s with hkOnline := true } := by
  simp [setOnline, setOffline_s]

theorem setAvailable_s (w : W) : (setAvailable w).s =
    { w.s with stream := some w.s.nextStream, nextStream := w.s.nextStream + 1, hkAvail := true,
               hkOnline := if w.s.conf.alwaysAvailable then w.s.hkOnline else true } := by
  unfold setAvailable
  by_cases h : w.s.conf.alwaysAvailable <;> simp [h, setOnline_s]

theorem closeReaders_s (w : W) : (closeReaders w).s = { w.s with readers := [] } := rfl

theorem setNotAvailable_s (w : W) : (setNotAvailable w).s =
    { w.s with hkOnline := false, readers := [], hkAvail := false, stream := none,
               panicked := w.s.panicked || !w.s.hkAvail } := by
  unfold setNotAvailable
  by_cases h : w.s.hkAvail <;> simp [h, setOffline_s, closeReaders_s, panic]

theorem startOffline_s (w : W) : (startOffline w).s = { w.s with aaCur := none } := rfl

theorem executeRemovePublisher_s (w : W) : (executeRemovePublisher w).s =
    { w.s with
      hkOnline := false, source := none, srcSub := none,
      aaCur := if w.s.conf.alwaysAvailable then none else w.s.aaCur,
      readers := if w.s.conf.alwaysAvailable then w.s.readers else [],
      hkAvail := if w.s.conf.alwaysAvailable then w.s.hkAvail else false,
      stream := if w.s.conf.alwaysAvailable then w.s.stream else none,
      panicked := if w.s.conf.alwaysAvailable then w.s.panicked else (w.s.panicked || !w.s.hkAvail) } := by
  unfold executeRemovePublisher
  rcases w with ⟨s, o⟩
  by_cases h : s.conf.alwaysAvailable = true <;> simp_all [setOffline_s, startOffline_s, setNotAvailable_s]

theorem srcStart_s (w : W) : (srcStart w).s =
    { w.s with srcRunning := true, panicked := w.s.panicked || w.s.srcRunning } := by
  unfold srcStart
  by_cases h : w.s.srcRunning
  · rcases w with ⟨s, o⟩; cases s; simp_all [panic]
  · simp [h]

theorem srcStop_s (w : W) : (srcStop w).s =
    { w.s with
      srcRunning := false,
      srcUp := if w.s.srcRunning then false else w.s.srcUp,
      srcSub := if w.s.srcRunning then none else w.s.srcSub,
      panicked := if w.s.srcRunning then w.s.panicked else true } := by
  unfold srcStop
  rcases w with ⟨s, o⟩
  by_cases h : s.srcRunning = true
  · simp [h]
  · cases s; simp_all [panic]

theorem failHolds_s (k : ReplyKind) (w : W) : (failHolds k w).s = { w.s with descHold := [], readHold := [] } := rfl

theorem replyStream_s (rid : Nat) (w : W) : (replyStream rid w).s = w.s := by
  unfold replyStream; split <;> rfl

theorem closeCheck_s (w : W) : (closeCheck w).s = w.s := by
  unfold closeCheck; split <;> rfl

/-! ### the general invariant of reachable states (both code variants, all histories) -/

structure Inv (s : State) : Prop where
  valid : s.conf.valid = true
  np : s.panicked = false
  kPub : s.conf.kind = .publisher → s.source = none ∨ ∃ p, s.source = some (.pub p)
  kStatic : s.conf.kind = .static ↔ s.source = some .static
  kRedirect : s.conf.kind = .redirect ↔ s.source = some .redirect
  hkA : s.hkAvail = s.stream.isSome
  aa : s.conf.alwaysAvailable = true → s.closed = false → s.stream.isSome = true
  cl : s.closed = true → s.stream = none ∧ s.readers = [] ∧ s.descHold = [] ∧ s.readHold = [] ∧
        s.tSrcReady = false ∧ s.tSrcClose = false ∧ s.tPubReady = false ∧ s.tPubClose = false ∧
        s.hkDemand = false ∧ s.hkOnline = false
  bound : s.conf.maxReaders ≠ 0 → s.readers.length ≤ s.conf.maxReaders
  nodup : s.readers.Nodup
  r3 : s.readers ≠ [] → s.stream.isSome = true
  s1 : s.conf.alwaysAvailable = false → s.closed = false → ∀ p, s.source = some (.pub p) → s.stream.isSome = true
  s2 : s.conf.alwaysAvailable = false → s.closed = false → s.srcUp = true → s.stream.isSome = true
  hkO : s.hkOnline = true → s.stream.isSome = true
  c1 : s.conf.alwaysAvailable = false → s.stream.isSome = true → s.conf.kind = .publisher → s.source.isSome = true
  c2 : s.conf.alwaysAvailable = false → s.stream.isSome = true → s.conf.kind ≠ .publisher → s.srcUp = true
  s3 : s.srcUp = true → s.srcRunning = true
  s4 : s.srcRunning = true → s.conf.kind = .static
  o1 : s.conf.odStatic = false → s.odSrc = .initial
  o2 : s.closed = false → (s.tSrcReady = true ↔ s.odSrc = .waiting)
  o2' : s.closed = false → (s.tSrcClose = true ↔ s.odSrc = .closing)
  o3 : s.conf.odStatic = true → s.closed = false → (s.srcRunning = true ↔ s.odSrc ≠ .initial)
  o4 : s.conf.odStatic = true → s.closed = false → (s.srcUp = true ↔ (s.odSrc = .ready ∨ s.odSrc = .closing))
  o5 : s.conf.kind = .static → s.conf.sourceOnDemand = false → (s.srcRunning = true ↔ s.closed = false)
  q1 : s.conf.odPub = false → s.odPub = .initial
  q2 : s.closed = false → (s.tPubReady = true ↔ s.odPub = .waiting)
  q2' : s.closed = false → (s.tPubClose = true ↔ s.odPub = .closing)
  q3 : s.closed = false → (s.hkDemand = true ↔ s.odPub ≠ .initial)

theorem holdDemand_s (w : W) : (holdDemand w).s =
    { w.s with
      srcRunning := if w.s.conf.odStatic ∧ w.s.odSrc = .initial then true else w.s.srcRunning,
      panicked := if w.s.conf.odStatic ∧ w.s.odSrc = .initial then (w.s.panicked || w.s.srcRunning) else w.s.panicked,
      tSrcReady := if w.s.conf.odStatic ∧ w.s.odSrc = .initial then true else w.s.tSrcReady,
      odSrc := if w.s.conf.odStatic ∧ w.s.odSrc = .initial then .waiting else w.s.odSrc,
      hkDemand := if ¬ w.s.conf.odStatic ∧ w.s.odPub = .initial then true else w.s.hkDemand,
      tPubReady := if ¬ w.s.conf.odStatic ∧ w.s.odPub ≠ .waiting then true else w.s.tPubReady,
      tPubClose := if ¬ w.s.conf.odStatic ∧ w.s.odPub = .closing then false else w.s.tPubClose,
      odPub := if ¬ w.s.conf.odStatic then .waiting else w.s.odPub } := by
  unfold holdDemand onDemandStaticSourceStart onDemandPublisherStart onDemandPublisherWaitAgain
  rcases w with ⟨s, o⟩
  by_cases h1 : s.conf.odStatic = true
  · by_cases h2 : s.odSrc = .initial <;> simp_all [srcStart_s]
  · cases h3 : s.odPub <;> (cases s; simp_all)

theorem odStatic_iff (c : Conf) : c.odStatic = true ↔ (c.kind = .static ∧ c.sourceOnDemand = true) := by
  unfold Conf.odStatic; cases c.kind <;> simp

/-- split `Inv` into its fields and let `grind` discharge each -/
macro "inv_fields" : tactic => `(tactic| (constructor <;> grind))

/-! ### admitting readers (`addReaderPost`, `consumeOnHoldRequests`) -/

/-- `s'` arises from `s` by admitting readers: only the reader set, the stream registrations and the
"closing → ready" move of the on-demand automaton change. -/
structure RdStep (s s' : State) : Prop where
  f1 : s'.conf = s.conf
  f2 : s'.closed = s.closed
  f3 : s'.panicked = s.panicked
  f4 : s'.source = s.source
  f5 : s'.stream = s.stream
  f6 : s'.nextStream = s.nextStream
  f7 : s'.descHold = s.descHold
  f8 : s'.readHold = s.readHold
  f9 : s'.tSrcReady = s.tSrcReady
  f10 : s'.tPubReady = s.tPubReady
  f11 : s'.hkAvail = s.hkAvail
  f12 : s'.hkOnline = s.hkOnline
  f13 : s'.hkDemand = s.hkDemand
  f14 : s'.srcRunning = s.srcRunning
  f15 : s'.srcUp = s.srcUp
  f16 : s'.nextSub = s.nextSub
  f17 : s'.srcSub = s.srcSub
  f18 : s'.aaCur = s.aaCur
  f19 : s'.subs = s.subs
  rsub : ∀ r ∈ s.readers, r ∈ s'.readers
  bound : (s.conf.maxReaders ≠ 0 → s.readers.length ≤ s.conf.maxReaders) →
          (s.conf.maxReaders ≠ 0 → s'.readers.length ≤ s.conf.maxReaders)
  nodup : s.readers.Nodup → s'.readers.Nodup
  odS : (s'.odSrc = s.odSrc ∧ s'.tSrcClose = s.tSrcClose) ∨
        (s.conf.odStatic = true ∧ s.odSrc = .closing ∧ s'.odSrc = .ready ∧ s'.tSrcClose = false ∧ s'.readers ≠ [])
  odP : (s'.odPub = s.odPub ∧ s'.tPubClose = s.tPubClose) ∨
        (s.conf.odStatic = false ∧ s.conf.odPub = true ∧ s.odPub = .closing ∧ s'.odPub = .ready ∧ s'.tPubClose = false ∧
          s'.readers ≠ [])
  grow : s'.readers ≠ s.readers →
        (s.conf.odStatic = true → s'.odSrc ≠ .closing) ∧
        (s.conf.odStatic = false → s.conf.odPub = true → s'.odPub ≠ .closing)

theorem RdStep.refl (s : State) : RdStep s s := by constructor <;> grind

theorem RdStep.trans {a b c : State} (h1 : RdStep a b) (h2 : RdStep b c) : RdStep a c := by
  obtain ⟨a1, a2, a3, a4, a5, a6, a7, a8, a9, a10, a11, a12, a13, a14, a15, a16, a17, a18, a19, a20, a21, a22, a23, a24, a25⟩ := h1
  obtain ⟨b1, b2, b3, b4, b5, b6, b7, b8, b9, b10, b11, b12, b13, b14, b15, b16, b17, b18, b19, b20, b21, b22, b23, b24, b25⟩ := h2
  have hne : b.readers ≠ [] → c.readers ≠ [] := by
    intro h1 h2
    cases hb : b.readers with
    | nil => exact h1 hb
    | cons x xs => have := b20 x (by rw [hb]; exact List.mem_cons_self); rw [h2] at this; cases this
  constructor <;> grind

def regAfter (r : Nat) (s : State) : List (Nat × Nat) :=
  match s.stream with
  | some sid => s.sreg.filter (fun x => x.1 != r) ++ [(r, sid)]
  | none => s.sreg

theorem replyReader_s (rid r : Nat) (w : W) : (replyReader rid r w).s = { w.s with sreg := regAfter r w.s } := by
  unfold replyReader register regAfter
  rcases w with ⟨s, o⟩
  cases h : s.stream
  · cases s; simp_all
  · simp_all

theorem addReaderPost_s (rid r : Nat) (w : W) : (addReaderPost rid r w).s =
    if r ∈ w.s.readers then { w.s with sreg := regAfter r w.s }
    else if w.s.conf.maxReaders ≠ 0 ∧ w.s.readers.length ≥ w.s.conf.maxReaders then w.s
    else { w.s with
      readers := w.s.readers ++ [r],
      odSrc := if w.s.conf.odStatic = true ∧ w.s.odSrc = .closing then .ready else w.s.odSrc,
      tSrcClose := if w.s.conf.odStatic = true ∧ w.s.odSrc = .closing then false else w.s.tSrcClose,
      odPub := if w.s.conf.odStatic = false ∧ w.s.conf.odPub = true ∧ w.s.odPub = .closing then .ready else w.s.odPub,
      tPubClose := if w.s.conf.odStatic = false ∧ w.s.conf.odPub = true ∧ w.s.odPub = .closing then false else w.s.tPubClose,
      sreg := regAfter r w.s } := by
  unfold addReaderPost
  by_cases hmem : r ∈ w.s.readers
  · rw [if_pos hmem, if_pos hmem, replyReader_s]
  by_cases hmax : w.s.conf.maxReaders ≠ 0 ∧ w.s.readers.length ≥ w.s.conf.maxReaders
  · rw [if_neg hmem, if_neg hmem, if_pos hmax, if_pos hmax]; rfl
  · rw [if_neg hmem, if_neg hmem, if_neg hmax, if_neg hmax]
    rcases w with ⟨s, o⟩
    simp only [upd_s]
    by_cases hS : s.conf.odStatic = true <;> by_cases hc : s.odSrc = .closing <;>
      by_cases hP : s.conf.odPub = true <;> by_cases hc2 : s.odPub = .closing <;>
      simp_all [replyReader_s, regAfter]

theorem addReaderPost_rd (rid r : Nat) (w : W) : RdStep w.s (addReaderPost rid r w).s := by
  rw [addReaderPost_s]
  have hne : w.s.readers ++ [r] ≠ [] := by simp
  split
  · constructor <;> grind
  split
  · exact RdStep.refl _
  · constructor <;> grind

theorem foldl_rd {α : Type} (f : W → α → W) (hf : ∀ w x, RdStep w.s (f w x).s) (l : List α) (w : W) :
    RdStep w.s (l.foldl f w).s := by
  induction l generalizing w with
  | nil => exact RdStep.refl _
  | cons x xs ih => exact (hf w x).trans (ih (f w x))

/-- state after `consumeOnHoldRequests`: some readers admitted, both hold lists cleared -/
theorem consume_rd (w : W) : ∃ s1, RdStep w.s s1 ∧
    (consumeOnHoldRequests w).s = { s1 with descHold := [], readHold := [] } := by
  unfold consumeOnHoldRequests
  simp only [upd_s]
  have e1 : ∀ (l : List Nat) (w : W), (l.foldl (fun w rid => replyStream rid w) w).s = w.s := by
    intro l; induction l with
    | nil => intro w; rfl
    | cons x xs ih => intro w; rw [List.foldl_cons, ih, replyStream_s]
  generalize hw1 : upd (fun s => { s with descHold := [] }) (w.s.descHold.foldl (fun w rid => replyStream rid w) w) = w1
  have hw1s : w1.s = { w.s with descHold := [] } := by rw [← hw1]; simp [e1]
  have hrh : (w.s.descHold.foldl (fun w rid => replyStream rid w) w).s.readHold = w1.s.readHold := by
    rw [hw1s, e1]
  rw [hrh]
  have R := foldl_rd (fun w (x : Nat × Nat) => addReaderPost x.1 x.2 w) (fun w x => addReaderPost_rd x.1 x.2 w)
    w1.s.readHold w1
  generalize (w1.s.readHold.foldl (fun w (x : Nat × Nat) => addReaderPost x.1 x.2 w) w1).s = sf at R ⊢
  refine ⟨{ sf with descHold := w.s.descHold }, ?_, ?_⟩
  · rw [hw1s] at R
    obtain ⟨a1, a2, a3, a4, a5, a6, a7, a8, a9, a10, a11, a12, a13, a14, a15, a16, a17, a18, a19, a20, a21, a22, a23, a24, a25⟩ := R
    constructor <;> grind
  · have hd : sf.descHold = [] := by rw [R.f7, hw1s]
    cases sf; simp_all

theorem inv_rdstep {s s' : State} (h : Inv s) (hs : s.stream.isSome = true) (R : RdStep s s') : Inv s' := by
  cases h; cases R
  have := odStatic_iff s.conf
  constructor <;> grind

theorem inv_clearHolds {s : State} (h : Inv s) : Inv { s with descHold := [], readHold := [] } := by
  cases h; constructor <;> grind

theorem inv_consume (w : W) (h : Inv w.s) (hs : w.s.stream.isSome = true) : Inv (consumeOnHoldRequests w).s := by
  obtain ⟨s1, R, e⟩ := consume_rd w
  rw [e]; exact inv_clearHolds (inv_rdstep h hs R)

theorem subErrCleanup_s (w : W) : (subErrCleanup w).s =
    { w.s with
      hkOnline := if w.s.conf.alwaysAvailable then w.s.hkOnline else false,
      readers := if w.s.conf.alwaysAvailable then w.s.readers else [],
      hkAvail := if w.s.conf.alwaysAvailable then w.s.hkAvail else false,
      stream := if w.s.conf.alwaysAvailable then w.s.stream else none,
      panicked := if w.s.conf.alwaysAvailable then w.s.panicked else (w.s.panicked || !w.s.hkAvail) } := by
  unfold subErrCleanup
  rcases w with ⟨s, o⟩
  by_cases h2 : s.conf.alwaysAvailable = true
  · cases s; simp_all
  · simp_all [setNotAvailable_s]

theorem newSub_s (w : W) : (newSub w).s = { w.s with
    nextSub := w.s.nextSub + 1,
    subs := w.s.subs ++ [(w.s.nextSub, w.s.stream.getD 0)],
    srcSub := some w.s.nextSub,
    aaCur := if w.s.conf.alwaysAvailable then some w.s.nextSub else w.s.aaCur } := rfl

theorem onDemandStaticSourceStop_s (w : W) : (onDemandStaticSourceStop w).s =
    { w.s with
      tSrcClose := if w.s.odSrc = .closing then false else w.s.tSrcClose, odSrc := .initial,
      srcRunning := false,
      srcUp := if w.s.srcRunning then false else w.s.srcUp,
      srcSub := if w.s.srcRunning then none else w.s.srcSub,
      panicked := if w.s.srcRunning then w.s.panicked else true } := by
  unfold onDemandStaticSourceStop
  rcases w with ⟨s, o⟩
  by_cases h1 : s.odSrc = .closing <;> by_cases h2 : s.srcRunning = true <;> simp_all [srcStop_s]

theorem onDemandPublisherStop_s (w : W) : (onDemandPublisherStop w).s =
    { w.s with tPubClose := if w.s.odPub = .closing then false else w.s.tPubClose, odPub := .initial,
               hkDemand := false, panicked := w.s.panicked || !w.s.hkDemand } := by
  unfold onDemandPublisherStop
  rcases w with ⟨s, o⟩
  by_cases h1 : s.odPub = .closing <;> by_cases h2 : s.hkDemand = true <;> simp_all [panic]

/-- does the `path.run` epilogue stop the static source handler? -/
def closeStops (s : State) : Prop :=
  s.source = some .static ∧ (s.conf.sourceOnDemand = false ∨ s.odSrc ≠ .initial)

instance (s : State) : Decidable (closeStops s) := by unfold closeStops; infer_instance

theorem closeSource_s (s0 : State) (w : W) :
    (closeSource s0 w).s = if closeStops s0 then (srcStop w).s else w.s := by
  unfold closeSource closeStops
  split
  · rename_i h; simp only [h, true_and]; split <;> rfl
  · rename_i p h; simp [h]
  · rename_i h1 h2
    have : ¬ (s0.source = some .static) := fun e => h1 e
    simp [this]

theorem doClose_s (w : W) : (doClose w).s =
    { w.s with
      tSrcReady := false, tSrcClose := false, tPubReady := false, tPubClose := false,
      descHold := [], readHold := [],
      srcRunning := if closeStops w.s then false else w.s.srcRunning,
      srcUp := if closeStops w.s ∧ w.s.srcRunning = true then false else w.s.srcUp,
      hkDemand := false,
      hkOnline := if w.s.stream.isSome then false else w.s.hkOnline,
      readers := if w.s.stream.isSome then [] else w.s.readers,
      hkAvail := if w.s.stream.isSome then false else w.s.hkAvail,
      stream := none,
      panicked := if w.s.stream.isSome
        then ((if closeStops w.s ∧ w.s.srcRunning = false then true else w.s.panicked) || !w.s.hkAvail)
        else (if closeStops w.s ∧ w.s.srcRunning = false then true else w.s.panicked),
      closed := true, srcSub := none } := by
  rcases w with ⟨s, o⟩
  simp only [doClose, upd_s]
  by_cases h1 : closeStops s <;> by_cases h4 : s.srcRunning = true <;>
    by_cases h2 : s.hkDemand = true <;> by_cases h3 : s.stream.isSome = true <;>
    simp_all [failHolds_s, setNotAvailable_s, srcStop_s, closeSource_s]


end MtxVerif.PathSM
