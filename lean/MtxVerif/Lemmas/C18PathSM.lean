/-
Shared invariant library for the PathSM properties (C16, C18, C19, C20): state-effect lemmas of the
helpers and the reader-set invariants.  Core Lean only.
-/
import MtxVerif.Model.PathSM

namespace MtxVerif.PathSM

@[simp] theorem emit_s (o : Out) (w : W) : (emit o w).s = w.s := rfl
@[simp] theorem emit_out (o : Out) (w : W) : (emit o w).out = w.out ++ [o] := rfl
@[simp] theorem upd_s (f : State → State) (w : W) : (upd f w).s = f w.s := rfl
@[simp] theorem upd_out (f : State → State) (w : W) : (upd f w).out = w.out := rfl

/-! ### state effect of the helpers (closed forms, used as simp lemmas) -/

theorem setOffline_s (w : W) : (setOffline w).s = { w.s with hkOnline := false } := by
  unfold setOffline; split
  · rfl
  · rename_i h; rcases w with ⟨s, o⟩; cases s; simp_all

theorem setOnline_s (w : W) : (setOnline w).s = { w.s with hkOnline := true } := by
  simp [setOnline, setOffline_s]

theorem setAvailable_s (w : W) : (setAvailable w).s =
    { w.s with stream := some w.s.nextStream, nextStream := w.s.nextStream + 1, hkAvail := true,
               hkOnline := if w.s.conf.alwaysAvailable then w.s.hkOnline else true } := by
  unfold setAvailable
  by_cases h : w.s.conf.alwaysAvailable <;> simp [h, setOnline_s]

theorem closeReaders_s (w : W) : (closeReaders w).s = { w.s with readers := [] } := rfl

theorem setNotAvailable_s (w : W) : (setNotAvailable w).s =
    { w.s with hkOnline := false, readers := [], hkAvail := false, stream := none,
               panicked := w.s.panicked || !w.s.hkAvail } := by
  unfold setNotAvailable
  by_cases h : w.s.hkAvail <;> simp [h, setOffline_s, closeReaders_s, panic]

theorem startOffline_s (w : W) : (startOffline w).s = { w.s with aaCur := none } := rfl

theorem executeRemovePublisher_s (w : W) : (executeRemovePublisher w).s =
    { w.s with
      hkOnline := false, source := none, srcSub := none,
      aaCur := if w.s.conf.alwaysAvailable then none else w.s.aaCur,
      readers := if w.s.conf.alwaysAvailable then w.s.readers else [],
      hkAvail := if w.s.conf.alwaysAvailable then w.s.hkAvail else false,
      stream := if w.s.conf.alwaysAvailable then w.s.stream else none,
      panicked := if w.s.conf.alwaysAvailable then w.s.panicked else (w.s.panicked || !w.s.hkAvail) } := by
  unfold executeRemovePublisher
  rcases w with ⟨s, o⟩
  by_cases h : s.conf.alwaysAvailable = true <;> simp_all [setOffline_s, startOffline_s, setNotAvailable_s]

theorem srcStart_s (w : W) : (srcStart w).s =
    { w.s with srcRunning := true, panicked := w.s.panicked || w.s.srcRunning } := by
  unfold srcStart
  by_cases h : w.s.srcRunning
  · rcases w with ⟨s, o⟩; cases s; simp_all [panic]
  · simp [h]

theorem srcStop_s (w : W) : (srcStop w).s =
    { w.s with
      srcRunning := false,
      srcUp := if w.s.srcRunning then false else w.s.srcUp,
      srcSub := if w.s.srcRunning then none else w.s.srcSub,
      panicked := if w.s.srcRunning then w.s.panicked else true } := by
  unfold srcStop
  rcases w with ⟨s, o⟩
  by_cases h : s.srcRunning = true
  · simp [h]
  · cases s; simp_all [panic]

theorem failHolds_s (k : ReplyKind) (w : W) : (failHolds k w).s = { w.s with descHold := [], readHold := [] } := rfl

theorem replyStream_s (rid : Nat) (w : W) : (replyStream rid w).s = w.s := by
  unfold replyStream; split <;> rfl

theorem closeCheck_s (w : W) : (closeCheck w).s = w.s := by
  unfold closeCheck; split <;> rfl

/-! ### the general invariant of reachable states (both code variants, all histories) -/

structure Inv (s : State) : Prop where
  valid : s.conf.valid = true
  np : s.panicked = false
  kPub : s.conf.kind = .publisher → s.source = none ∨ ∃ p, s.source = some (.pub p)
  kStatic : s.conf.kind = .static ↔ s.source = some .static
  kRedirect : s.conf.kind = .redirect ↔ s.source = some .redirect
  hkA : s.hkAvail = s.stream.isSome
  aa : s.conf.alwaysAvailable = true → s.closed = false → s.stream.isSome = true
  cl : s.closed = true → s.stream = none ∧ s.readers = [] ∧ s.descHold = [] ∧ s.readHold = [] ∧
        s.tSrcReady = false ∧ s.tSrcClose = false ∧ s.tPubReady = false ∧ s.tPubClose = false ∧
        s.hkDemand = false ∧ s.hkOnline = false
  bound : s.conf.maxReaders ≠ 0 → s.readers.length ≤ s.conf.maxReaders
  nodup : s.readers.Nodup
  r3 : s.readers ≠ [] → s.stream.isSome = true
  s1 : s.conf.alwaysAvailable = false → ∀ p, s.source = some (.pub p) → s.stream.isSome = true
  s2 : s.conf.alwaysAvailable = false → s.srcUp = true → s.stream.isSome = true
  s3 : s.srcUp = true → s.srcRunning = true
  s4 : s.srcRunning = true → s.conf.kind = .static
  o1 : s.conf.odStatic = false → s.odSrc = .initial
  o2 : s.closed = false → (s.tSrcReady = true ↔ s.odSrc = .waiting)
  o2' : s.closed = false → (s.tSrcClose = true ↔ s.odSrc = .closing)
  o3 : s.conf.odStatic = true → s.closed = false → (s.srcRunning = true ↔ s.odSrc ≠ .initial)
  o4 : s.conf.odStatic = true → s.closed = false → (s.srcUp = true ↔ (s.odSrc = .ready ∨ s.odSrc = .closing))
  o5 : s.conf.kind = .static → s.conf.sourceOnDemand = false → (s.srcRunning = true ↔ s.closed = false)
  q1 : s.conf.odPub = false → s.odPub = .initial
  q2 : s.closed = false → (s.tPubReady = true ↔ s.odPub = .waiting)
  q2' : s.closed = false → (s.tPubClose = true ↔ s.odPub = .closing)
  q3 : s.closed = false → (s.hkDemand = true ↔ s.odPub ≠ .initial)

theorem holdDemand_s (w : W) : (holdDemand w).s =
    { w.s with
      srcRunning := if w.s.conf.odStatic ∧ w.s.odSrc = .initial then true else w.s.srcRunning,
      panicked := if w.s.conf.odStatic ∧ w.s.odSrc = .initial then (w.s.panicked || w.s.srcRunning) else w.s.panicked,
      tSrcReady := if w.s.conf.odStatic ∧ w.s.odSrc = .initial then true else w.s.tSrcReady,
      odSrc := if w.s.conf.odStatic ∧ w.s.odSrc = .initial then .waiting else w.s.odSrc,
      hkDemand := if ¬ w.s.conf.odStatic ∧ w.s.odPub = .initial then true else w.s.hkDemand,
      tPubReady := if ¬ w.s.conf.odStatic ∧ w.s.odPub = .initial then true else w.s.tPubReady,
      odPub := if ¬ w.s.conf.odStatic ∧ w.s.odPub = .initial then .waiting else w.s.odPub } := by
  unfold holdDemand onDemandStaticSourceStart onDemandPublisherStart
  rcases w with ⟨s, o⟩
  split <;> split <;> simp_all [srcStart_s]

theorem odStatic_iff (c : Conf) : c.odStatic = true ↔ (c.kind = .static ∧ c.sourceOnDemand = true) := by
  unfold Conf.odStatic; cases c.kind <;> simp

/-- split `Inv` into its fields and let `grind` discharge each -/
macro "inv_fields" : tactic => `(tactic| (constructor <;> grind))

theorem inv_doDescribe (rid : Nat) (w : W) (h : Inv w.s) (hc : w.s.closed = false) : Inv (doDescribe rid w).s := by
  unfold doDescribe
  split
  · exact h
  split
  · rw [replyStream_s]; exact h
  split
  · simp only [upd_s, holdDemand_s]
    obtain ⟨h1, h2, h3, h4, h5, h6, h7, h8, h9, h9', h10, h11, h12, h13, h14, h15, h16, h17, h18, h19, h20, h21, h22, h23, h24⟩ := h
    have := odStatic_iff w.s.conf
    inv_fields
  split
  · exact h
  · exact h

/-! ### admitting readers (`addReaderPost`, `consumeOnHoldRequests`) -/

/-- `s'` arises from `s` by admitting readers: only the reader set, the stream registrations and the
"closing → ready" move of the on-demand automaton change. -/
structure RdStep (s s' : State) : Prop where
  f1 : s'.conf = s.conf
  f2 : s'.closed = s.closed
  f3 : s'.panicked = s.panicked
  f4 : s'.source = s.source
  f5 : s'.stream = s.stream
  f6 : s'.nextStream = s.nextStream
  f7 : s'.descHold = s.descHold
  f8 : s'.readHold = s.readHold
  f9 : s'.tSrcReady = s.tSrcReady
  f10 : s'.tPubReady = s.tPubReady
  f11 : s'.hkAvail = s.hkAvail
  f12 : s'.hkOnline = s.hkOnline
  f13 : s'.hkDemand = s.hkDemand
  f14 : s'.srcRunning = s.srcRunning
  f15 : s'.srcUp = s.srcUp
  f16 : s'.nextSub = s.nextSub
  f17 : s'.srcSub = s.srcSub
  f18 : s'.aaCur = s.aaCur
  f19 : s'.subs = s.subs
  rsub : ∀ r ∈ s.readers, r ∈ s'.readers
  bound : (s.conf.maxReaders ≠ 0 → s.readers.length ≤ s.conf.maxReaders) →
          (s.conf.maxReaders ≠ 0 → s'.readers.length ≤ s.conf.maxReaders)
  nodup : s.readers.Nodup → s'.readers.Nodup
  odS : (s'.odSrc = s.odSrc ∧ s'.tSrcClose = s.tSrcClose) ∨
        (s.conf.odStatic = true ∧ s.odSrc = .closing ∧ s'.odSrc = .ready ∧ s'.tSrcClose = false)
  odP : (s'.odPub = s.odPub ∧ s'.tPubClose = s.tPubClose) ∨
        (s.conf.odStatic = false ∧ s.conf.odPub = true ∧ s.odPub = .closing ∧ s'.odPub = .ready ∧ s'.tPubClose = false)
  grow : s'.readers ≠ s.readers →
        (s.conf.odStatic = true → s'.odSrc ≠ .closing) ∧
        (s.conf.odStatic = false → s.conf.odPub = true → s'.odPub ≠ .closing)

theorem RdStep.refl (s : State) : RdStep s s := by constructor <;> grind

theorem RdStep.trans {a b c : State} (h1 : RdStep a b) (h2 : RdStep b c) : RdStep a c := by
  obtain ⟨a1, a2, a3, a4, a5, a6, a7, a8, a9, a10, a11, a12, a13, a14, a15, a16, a17, a18, a19, a20, a21, a22, a23, a24, a25⟩ := h1
  obtain ⟨b1, b2, b3, b4, b5, b6, b7, b8, b9, b10, b11, b12, b13, b14, b15, b16, b17, b18, b19, b20, b21, b22, b23, b24, b25⟩ := h2
  constructor <;> grind

def regAfter (r : Nat) (s : State) : List (Nat × Nat) :=
  match s.stream with
  | some sid => s.sreg.filter (fun x => x.1 != r) ++ [(r, sid)]
  | none => s.sreg

theorem replyReader_s (rid r : Nat) (w : W) : (replyReader rid r w).s = { w.s with sreg := regAfter r w.s } := by
  unfold replyReader register regAfter
  rcases w with ⟨s, o⟩
  cases h : s.stream
  · cases s; simp_all
  · simp_all

theorem addReaderPost_s (rid r : Nat) (w : W) : (addReaderPost rid r w).s =
    if r ∈ w.s.readers then { w.s with sreg := regAfter r w.s }
    else if w.s.conf.maxReaders ≠ 0 ∧ w.s.readers.length ≥ w.s.conf.maxReaders then w.s
    else { w.s with
      readers := w.s.readers ++ [r],
      odSrc := if w.s.conf.odStatic = true ∧ w.s.odSrc = .closing then .ready else w.s.odSrc,
      tSrcClose := if w.s.conf.odStatic = true ∧ w.s.odSrc = .closing then false else w.s.tSrcClose,
      odPub := if w.s.conf.odStatic = false ∧ w.s.conf.odPub = true ∧ w.s.odPub = .closing then .ready else w.s.odPub,
      tPubClose := if w.s.conf.odStatic = false ∧ w.s.conf.odPub = true ∧ w.s.odPub = .closing then false else w.s.tPubClose,
      sreg := regAfter r w.s } := by
  unfold addReaderPost
  by_cases hmem : r ∈ w.s.readers
  · rw [if_pos hmem, if_pos hmem, replyReader_s]
  by_cases hmax : w.s.conf.maxReaders ≠ 0 ∧ w.s.readers.length ≥ w.s.conf.maxReaders
  · rw [if_neg hmem, if_neg hmem, if_pos hmax, if_pos hmax]; rfl
  · rw [if_neg hmem, if_neg hmem, if_neg hmax, if_neg hmax]
    rcases w with ⟨s, o⟩
    simp only [upd_s]
    by_cases hS : s.conf.odStatic = true <;> by_cases hc : s.odSrc = .closing <;>
      by_cases hP : s.conf.odPub = true <;> by_cases hc2 : s.odPub = .closing <;>
      simp_all [replyReader_s, regAfter]

theorem addReaderPost_rd (rid r : Nat) (w : W) : RdStep w.s (addReaderPost rid r w).s := by
  rw [addReaderPost_s]
  split
  · constructor <;> grind
  split
  · exact RdStep.refl _
  · constructor <;> grind

theorem foldl_rd {α : Type} (f : W → α → W) (hf : ∀ w x, RdStep w.s (f w x).s) (l : List α) (w : W) :
    RdStep w.s (l.foldl f w).s := by
  induction l generalizing w with
  | nil => exact RdStep.refl _
  | cons x xs ih => exact (hf w x).trans (ih (f w x))

/-- state after `consumeOnHoldRequests`: some readers admitted, both hold lists cleared -/
theorem consume_rd (w : W) : ∃ s1, RdStep w.s s1 ∧
    (consumeOnHoldRequests w).s = { s1 with descHold := [], readHold := [] } := by
  unfold consumeOnHoldRequests
  simp only [upd_s]
  have e1 : ∀ (l : List Nat) (w : W), (l.foldl (fun w rid => replyStream rid w) w).s = w.s := by
    intro l; induction l with
    | nil => intro w; rfl
    | cons x xs ih => intro w; rw [List.foldl_cons, ih, replyStream_s]
  generalize hw1 : upd (fun s => { s with descHold := [] }) (w.s.descHold.foldl (fun w rid => replyStream rid w) w) = w1
  have hw1s : w1.s = { w.s with descHold := [] } := by rw [← hw1]; simp [e1]
  have hrh : (w.s.descHold.foldl (fun w rid => replyStream rid w) w).s.readHold = w1.s.readHold := by
    rw [hw1s, e1]
  rw [hrh]
  have R := foldl_rd (fun w (x : Nat × Nat) => addReaderPost x.1 x.2 w) (fun w x => addReaderPost_rd x.1 x.2 w)
    w1.s.readHold w1
  generalize (w1.s.readHold.foldl (fun w (x : Nat × Nat) => addReaderPost x.1 x.2 w) w1).s = sf at R ⊢
  refine ⟨{ sf with descHold := w.s.descHold }, ?_, ?_⟩
  · rw [hw1s] at R
    obtain ⟨a1, a2, a3, a4, a5, a6, a7, a8, a9, a10, a11, a12, a13, a14, a15, a16, a17, a18, a19, a20, a21, a22, a23, a24, a25⟩ := R
    constructor <;> grind
  · have hd : sf.descHold = [] := by rw [R.f7, hw1s]
    cases sf; simp_all

theorem inv_rdstep {s s' : State} (h : Inv s) (hs : s.stream.isSome = true) (R : RdStep s s') : Inv s' := by
  cases h; cases R
  have := odStatic_iff s.conf
  constructor <;> grind

theorem inv_clearHolds {s : State} (h : Inv s) : Inv { s with descHold := [], readHold := [] } := by
  cases h; constructor <;> grind

theorem inv_consume (w : W) (h : Inv w.s) (hs : w.s.stream.isSome = true) : Inv (consumeOnHoldRequests w).s := by
  obtain ⟨s1, R, e⟩ := consume_rd w
  rw [e]; exact inv_clearHolds (inv_rdstep h hs R)

theorem inv_doAddReader (rid r : Nat) (w : W) (h : Inv w.s) (hc : w.s.closed = false) : Inv (doAddReader rid r w).s := by
  unfold doAddReader
  split
  · exact inv_rdstep h ‹_› (addReaderPost_rd ..)
  split
  · simp only [upd_s, holdDemand_s]
    cases h
    have := odStatic_iff w.s.conf
    inv_fields
  · exact h

theorem filter_ne_length (l : List Nat) (r : Nat) : (l.filter (· != r)).length ≤ l.length := List.length_filter_le _ _

theorem inv_doRemoveReader (r : Nat) (w : W) (h : Inv w.s) (hc : w.s.closed = false) : Inv (doRemoveReader r w).s := by
  unfold doRemoveReader onDemandStaticSourceScheduleClose onDemandPublisherScheduleClose
  have h1 := filter_ne_length w.s.readers r
  have h2 : (w.s.readers.filter (· != r)).Nodup := h.nodup.filter _
  have h3 : w.s.readers.filter (· != r) ≠ [] → w.s.readers ≠ [] := by
    intro hne he; rw [he] at hne; exact hne rfl
  cases h
  have := odStatic_iff w.s.conf
  dsimp only
  repeat' split
  all_goals (simp only [upd_s, emit_s] at *; generalize w.s.readers.filter (· != r) = rs at *; inv_fields)

theorem subErrCleanup_s (w : W) : (subErrCleanup w).s =
    { w.s with
      hkOnline := if w.s.conf.alwaysAvailable then w.s.hkOnline else false,
      readers := if w.s.conf.alwaysAvailable then w.s.readers else [],
      hkAvail := if w.s.conf.alwaysAvailable then w.s.hkAvail else false,
      stream := if w.s.conf.alwaysAvailable then w.s.stream else none,
      panicked := if w.s.conf.alwaysAvailable then w.s.panicked else (w.s.panicked || !w.s.hkAvail) } := by
  unfold subErrCleanup
  rcases w with ⟨s, o⟩
  by_cases h2 : s.conf.alwaysAvailable = true
  · cases s; simp_all
  · simp_all [setNotAvailable_s]

theorem newSub_s (w : W) : (newSub w).s = { w.s with
    nextSub := w.s.nextSub + 1,
    subs := w.s.subs ++ [(w.s.nextSub, w.s.stream.getD 0)],
    srcSub := some w.s.nextSub,
    aaCur := if w.s.conf.alwaysAvailable then some w.s.nextSub else w.s.aaCur } := rfl

theorem inv_execRemove (w : W) (h : Inv w.s) (hc : w.s.closed = false) (q : Nat)
    (hs : w.s.source = some (.pub q)) : Inv (executeRemovePublisher w).s := by
  rw [executeRemovePublisher_s]
  have hv := odStatic_iff w.s.conf
  cases h; inv_fields

theorem pubOverride_post (w : W) (h : Inv w.s) (hc : w.s.closed = false) (hk : w.s.conf.kind = .publisher) :
    Inv (pubOverride w).s ∧ (pubOverride w).s.source = none ∧ (pubOverride w).s.closed = false ∧
    (pubOverride w).s.conf = w.s.conf := by
  unfold pubOverride
  split
  · exact ⟨h, ‹_›, hc, rfl⟩
  · rename_i q hq
    refine ⟨inv_execRemove _ h hc q hq, ?_, ?_, ?_⟩ <;> simp [executeRemovePublisher_s, hc]
  · rename_i x hx hne
    exfalso
    rcases h.kPub hk with h0 | ⟨q, hq⟩
    · rw [h0] at hne; cases hne
    · rw [hq] at hne; injection hne with e; exact hx q e.symm

theorem inv_pubAttach (p : Nat) (ok : Bool) (w : W) (h : Inv w.s) (hc : w.s.closed = false)
    (hk : w.s.conf.kind = .publisher) (hs : w.s.source = none) : Inv (pubAttach p ok w).s := by
  unfold pubAttach
  dsimp only
  have hv := odStatic_iff w.s.conf
  have hval := h.valid
  unfold Conf.valid at hval
  cases ok
  · simp only [Bool.not_false, if_true, emit_s, subErrCleanup_s]
    (repeat' split) <;> (try simp only [setAvailable_s] at *) <;> (cases h; inv_fields)
  · simp only [Bool.not_true, Bool.false_eq_true, if_false, emit_s]
    refine inv_consume _ ?_ ?_
    · (repeat' split) <;>
        simp only [emit_s, upd_s, newSub_s, setOnline_s, setAvailable_s, onDemandPublisherScheduleClose] at * <;>
        (cases h; inv_fields)
    · (repeat' split) <;>
        simp only [emit_s, upd_s, newSub_s, setOnline_s, setAvailable_s, onDemandPublisherScheduleClose] at * <;>
        (cases h; grind)

theorem inv_doAddPublisher (p : Nat) (ok : Bool) (w : W) (h : Inv w.s) (hc : w.s.closed = false) :
    Inv (doAddPublisher p ok w).s := by
  unfold doAddPublisher
  split
  · exact h
  split
  · exact h
  · rename_i hk _
    have hk' : w.s.conf.kind = .publisher := by simpa using hk
    obtain ⟨i1, i2, i3, i4⟩ := pubOverride_post w h hc hk'
    exact inv_pubAttach p ok _ i1 i3 (i4 ▸ hk') i2

theorem inv_doRemovePublisher (p : Nat) (w : W) (h : Inv w.s) (hc : w.s.closed = false) :
    Inv (doRemovePublisher p w).s := by
  unfold doRemovePublisher
  split
  · exact inv_execRemove w h hc p ‹_›
  · exact h

theorem inv_srcReady (ok : Bool) (w : W) (h : Inv w.s) (hc : w.s.closed = false)
    (hg : w.s.source = some .static ∧ w.s.srcRunning = true ∧ (!w.s.srcUp) = true) :
    Inv (doSourceStaticSetReady ok w).s := by
  unfold doSourceStaticSetReady
  dsimp only
  have hv := odStatic_iff w.s.conf
  have hval := h.valid
  unfold Conf.valid at hval
  cases ok
  · simp only [Bool.not_false, if_true, emit_s, subErrCleanup_s]
    (repeat' split) <;> (try simp only [setAvailable_s] at *) <;> (cases h; inv_fields)
  · simp only [Bool.not_true, Bool.false_eq_true, if_false, emit_s]
    refine inv_consume _ ?_ ?_
    · (repeat' split) <;>
        simp only [emit_s, upd_s, newSub_s, setOnline_s, setAvailable_s, onDemandStaticSourceScheduleClose] at * <;>
        (cases h; inv_fields)
    · (repeat' split) <;>
        simp only [emit_s, upd_s, newSub_s, setOnline_s, setAvailable_s, onDemandStaticSourceScheduleClose] at * <;>
        (cases h; grind)

theorem onDemandStaticSourceStop_s (w : W) : (onDemandStaticSourceStop w).s =
    { w.s with
      tSrcClose := if w.s.odSrc = .closing then false else w.s.tSrcClose, odSrc := .initial,
      srcRunning := false,
      srcUp := if w.s.srcRunning then false else w.s.srcUp,
      srcSub := if w.s.srcRunning then none else w.s.srcSub,
      panicked := if w.s.srcRunning then w.s.panicked else true } := by
  unfold onDemandStaticSourceStop
  rcases w with ⟨s, o⟩
  by_cases h1 : s.odSrc = .closing <;> by_cases h2 : s.srcRunning = true <;> simp_all [srcStop_s]

theorem onDemandPublisherStop_s (w : W) : (onDemandPublisherStop w).s =
    { w.s with tPubClose := if w.s.odPub = .closing then false else w.s.tPubClose, odPub := .initial,
               hkDemand := false, panicked := w.s.panicked || !w.s.hkDemand } := by
  unfold onDemandPublisherStop
  rcases w with ⟨s, o⟩
  by_cases h1 : s.odPub = .closing <;> by_cases h2 : s.hkDemand = true <;> simp_all [panic]

theorem inv_srcNotReady (w : W) (h : Inv w.s) (hc : w.s.closed = false)
    (hg : w.s.source = some .static ∧ w.s.srcRunning = true ∧ w.s.srcUp = true) :
    Inv (doSourceStaticSetNotReady w).s := by
  unfold doSourceStaticSetNotReady
  dsimp only
  have hv := odStatic_iff w.s.conf
  have hval := h.valid
  unfold Conf.valid at hval
  (repeat' split) <;>
    simp only [upd_s, setOffline_s, startOffline_s, setNotAvailable_s, onDemandStaticSourceStop_s] at * <;>
    (repeat' split) <;> (cases h; inv_fields)

theorem inv_fireTimer (t : Timer) (w : W) (h : Inv w.s) (hc : w.s.closed = false) (ha : timerArmed w.s t = true) :
    Inv (fireTimer t w).s := by
  have hv := odStatic_iff w.s.conf
  have hval := h.valid
  unfold Conf.valid at hval
  cases t <;> unfold fireTimer timerArmed at * <;> simp only [closeCheck_s]
  · unfold doOnDemandStaticSourceReadyTimer
    simp only [onDemandStaticSourceStop_s, failHolds_s, upd_s]
    (repeat' split) <;> (cases h; inv_fields)
  · unfold doOnDemandStaticSourceCloseTimer
    (repeat' split) <;> simp only [onDemandStaticSourceStop_s, setNotAvailable_s, upd_s, panic, emit_s] at * <;>
      (repeat' split) <;> (cases h; inv_fields)
  · unfold doOnDemandPublisherReadyTimer
    simp only [onDemandPublisherStop_s, failHolds_s, upd_s]
    cases h; inv_fields
  · unfold doOnDemandPublisherCloseTimer
    simp only [onDemandPublisherStop_s, upd_s]
    cases h; inv_fields

theorem inv_doClose (w : W) (h : Inv w.s) (hc : w.s.closed = false) : Inv (doClose w).s := by sorry

theorem odStatic_regexp (c : Conf) (rx : Bool) : ({ c with regexp := rx } : Conf).odStatic = c.odStatic := rfl
theorem odPub_regexp (c : Conf) (rx : Bool) : ({ c with regexp := rx } : Conf).odPub = c.odPub := rfl

theorem inv_sreg (s : State) (h : Inv s) (g : List (Nat × Nat)) : Inv { s with sreg := g } := by
  cases h; constructor <;> grind

theorem inv_stepW (e : Event) (w : W) (h : Inv w.s) : Inv (stepW e w).s := by
  unfold stepW
  split
  · exact h
  split
  · unfold stepClosed
    split <;> first | exact h | exact inv_sreg _ h _
  rename_i hp hcl
  have hc : w.s.closed = false := by simpa using hcl
  split
  · rw [closeCheck_s]; exact inv_doDescribe _ _ h hc
  · rw [closeCheck_s]; exact inv_doAddPublisher _ _ _ h hc
  · rw [closeCheck_s]; exact inv_doRemovePublisher _ _ h hc
  · rw [closeCheck_s]; exact inv_doAddReader _ _ _ h hc
  · rw [closeCheck_s]; exact inv_doRemoveReader _ _ h hc
  · split
    · exact inv_srcReady _ _ h hc ‹_›
    · exact h
  · split
    · rw [closeCheck_s]; exact inv_srcNotReady _ h hc ‹_›
    · exact h
  · split
    · exact inv_fireTimer _ _ h hc ‹_›
    · exact h
  · split
    · rename_i rx hvv
      simp only [upd_s]
      have := odStatic_regexp w.s.conf rx
      have := odPub_regexp w.s.conf rx
      cases h; constructor <;> grind
    · exact h
  · exact inv_doClose _ h hc
  · exact h
  · exact inv_sreg _ h _

theorem inv_step (s : State) (e : Event) (h : Inv s) : Inv (step s e).1 := inv_stepW e { s := s } h

theorem inv_init (c : Conf) (hv : c.valid = true) : Inv (init c) := by
  unfold init initW
  have hv' := odStatic_iff c
  have hval := hv
  unfold Conf.valid at hval
  dsimp only
  (repeat' split) <;> simp only [upd_s, emit_s, srcStart_s] at * <;> (constructor <;> grind)

theorem inv_run (es : List Event) : ∀ s, Inv s → Inv (run s es).1 := by
  induction es with
  | nil => intro s h; exact h
  | cons e es ih => intro s h; exact ih _ (inv_step s e h)

/-- every state reachable from the loop's start state satisfies the invariant -/
theorem inv_reach (c : Conf) (hv : c.valid = true) (es : List Event) : Inv (run (init c) es).1 :=
  inv_run es _ (inv_init c hv)

end MtxVerif.PathSM
