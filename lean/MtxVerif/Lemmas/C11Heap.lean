/-
Heap-model lemmas shared by C11 (copies are independent) and C07 (redaction is pure):
a write into a cell that does not occur in a value does not change the value.
-/
import MtxVerif.Model.C11

namespace MtxVerif.C11

/-- all cells of `v` were allocated before `n` -/
def Below (n : Nat) (v : V) : Prop := ∀ l ∈ locs v, l < n

/-- a sequence of heap writes, as seen from value `v` -/
def applyWrites (ws : List (Nat × (V → V) × (Vs → Vs))) (v : V) : V :=
  ws.foldl (fun v w => mutate w.1 w.2.1 w.2.2 v) v

/-! #### a write into a cell that does not occur in a value does not change it -/

mutual
theorem mutate_noop (l : Nat) (fp : V → V) (fs : Vs → Vs) : ∀ v : V, l ∉ locs v → mutate l fp fs v = v
  | .atom a, _ => by simp [mutate]
  | .ptr l' p, h => by
    have h1 : l' ≠ l := fun e => h (by simp [locs, e])
    have h2 : l ∉ locs p := fun e => h (by simp [locs, e])
    simp [mutate, h1, mutate_noop l fp fs p h2]
  | .slice l' es, h => by
    have h1 : l' ≠ l := fun e => h (by simp [locs, e])
    have h2 : l ∉ locsS es := fun e => h (by simp [locs, e])
    simp [mutate, h1, mutateS_noop l fp fs es h2]
  | .map l' es, h => by
    have h1 : l' ≠ l := fun e => h (by simp [locs, e])
    have h2 : l ∉ locsS es := fun e => h (by simp [locs, e])
    simp [mutate, h1, mutateS_noop l fp fs es h2]
  | .struct fds, h => by
    have h2 : l ∉ locsS fds := fun e => h (by simpa [locs] using e)
    simp [mutate, mutateS_noop l fp fs fds h2]
  | .iface v, h => by
    have h2 : l ∉ locs v := fun e => h (by simpa [locs] using e)
    simp [mutate, mutate_noop l fp fs v h2]
  | .other l', _ => by simp [mutate]
theorem mutateS_noop (l : Nat) (fp : V → V) (fs : Vs → Vs) : ∀ vs : Vs, l ∉ locsS vs → mutateS l fp fs vs = vs
  | .nil, _ => by simp [mutateS]
  | .cons f k hd tl, h => by
    have h1 : l ∉ locs hd := fun e => h (by simp [locsS, e])
    have h2 : l ∉ locsS tl := fun e => h (by simp [locsS, e])
    simp [mutateS, mutate_noop l fp fs hd h1, mutateS_noop l fp fs tl h2]
end

end MtxVerif.C11
