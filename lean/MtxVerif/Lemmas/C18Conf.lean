/- PathSM: the configuration seen by the loop only ever changes in `regexp` (hot reload). -/
import MtxVerif.Lemmas.C18PathSM

namespace MtxVerif.PathSM

/-- same configuration up to the hot-reloadable part -/
def ConfEq (a b : Conf) : Prop := b = { a with regexp := b.regexp }

theorem ConfEq.refl (a : Conf) : ConfEq a a := by cases a; rfl
theorem ConfEq.of_eq {a b : Conf} (h : b = a) : ConfEq a b := h ▸ ConfEq.refl a
theorem ConfEq.trans {a b c : Conf} (h1 : ConfEq a b) (h2 : ConfEq b c) : ConfEq a c := by
  unfold ConfEq at *; rw [h2, h1]

theorem consume_conf (w : W) : (consumeOnHoldRequests w).s.conf = w.s.conf := by
  obtain ⟨s1, R, e⟩ := consume_rd w
  rw [e]; exact R.f1

theorem pubAttach_conf (p : Nat) (ok : Bool) (w : W) : (pubAttach p ok w).s.conf = w.s.conf := by
  unfold pubAttach
  dsimp only
  cases ok
  · simp only [Bool.not_false, if_true, emit_s, subErrCleanup_s]; split <;> simp [setAvailable_s]
  · simp only [Bool.not_true, Bool.false_eq_true, if_false, emit_s, consume_conf]
    (repeat' split) <;> simp [newSub_s, setOnline_s, setAvailable_s, onDemandPublisherScheduleClose]

theorem pubOverride_conf (w : W) : (pubOverride w).s.conf = w.s.conf := by
  unfold pubOverride; split <;> simp [executeRemovePublisher_s, panic]

theorem srcReady_conf (ok : Bool) (w : W) : (doSourceStaticSetReady ok w).s.conf = w.s.conf := by
  unfold doSourceStaticSetReady
  dsimp only
  cases ok
  · simp only [Bool.not_false, if_true, emit_s, subErrCleanup_s]; split <;> simp [setAvailable_s]
  · simp only [Bool.not_true, Bool.false_eq_true, if_false, emit_s, consume_conf]
    (repeat' split) <;> simp [newSub_s, setOnline_s, setAvailable_s, onDemandStaticSourceScheduleClose]

theorem stepW_conf (e : Event) (w : W) : ConfEq w.s.conf (stepW e w).s.conf := by
  unfold stepW
  split
  · exact ConfEq.refl _
  split
  · unfold stepClosed; split <;> exact ConfEq.refl _
  split
  · apply ConfEq.of_eq
    rw [closeCheck_s]; unfold doDescribe
    (repeat' split) <;> simp [replyStream_s, holdDemand_s]
  · apply ConfEq.of_eq
    rw [closeCheck_s]; unfold doAddPublisher
    (repeat' split) <;> simp [pubAttach_conf, pubOverride_conf]
  · apply ConfEq.of_eq
    rw [closeCheck_s]; unfold doRemovePublisher
    split <;> simp [executeRemovePublisher_s]
  · apply ConfEq.of_eq
    rw [closeCheck_s]; unfold doAddReader
    (repeat' split) <;> simp [holdDemand_s, (addReaderPost_rd _ _ _).f1]
  · apply ConfEq.of_eq
    rw [closeCheck_s]; unfold doRemoveReader onDemandStaticSourceScheduleClose onDemandPublisherScheduleClose
    dsimp only
    (repeat' split) <;> simp
  · apply ConfEq.of_eq
    split
    · exact srcReady_conf _ _
    · rfl
  · apply ConfEq.of_eq
    split
    · rw [closeCheck_s]; unfold doSourceStaticSetNotReady
      dsimp only
      (repeat' split) <;> simp [setOffline_s, startOffline_s, setNotAvailable_s, onDemandStaticSourceStop_s]
    · rfl
  · apply ConfEq.of_eq
    split
    · rename_i t _
      cases t <;> unfold fireTimer <;> simp only [closeCheck_s]
      · simp [doOnDemandStaticSourceReadyTimer, onDemandStaticSourceStop_s, failHolds_s]
      · unfold doOnDemandStaticSourceCloseTimer
        split <;> simp [onDemandStaticSourceStop_s, setNotAvailable_s, panic]
      · simp [doOnDemandPublisherReadyTimer, onDemandPublisherStop_s, failHolds_s]
      · simp [doOnDemandPublisherCloseTimer, onDemandPublisherStop_s]
    · rfl
  · split
    · simp [ConfEq]
    · exact ConfEq.refl _
  · apply ConfEq.of_eq; rw [doClose_s]
  · exact ConfEq.refl _
  · exact ConfEq.refl _

theorem initW_conf (c : Conf) : (init c).conf = c := by
  unfold init initW
  dsimp only
  (repeat' split) <;> simp [srcStart_s]

theorem run_conf (es : List Event) : ∀ s, ConfEq s.conf (run s es).1.conf := by
  induction es with
  | nil => intro s; exact ConfEq.refl _
  | cons e es ih => intro s; exact (stepW_conf e { s := s }).trans (ih _)

end MtxVerif.PathSM
