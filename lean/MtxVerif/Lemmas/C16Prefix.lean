/- PathSM: the helpers of the addPublisher arm only append to the output list (prefix form). -/
import MtxVerif.Lemmas.C18PathSM

namespace MtxVerif.PathSM

variable {l : List Out} {w : W}

theorem pre_emit (o : Out) (h : l <+: w.out) : l <+: (emit o w).out := h.trans (List.prefix_append _ _)
theorem pre_upd (f : State → State) (h : l <+: w.out) : l <+: (upd f w).out := h
theorem pre_panic (h : l <+: w.out) : l <+: (panic w).out := pre_emit _ (pre_upd _ h)

theorem pre_setOffline (h : l <+: w.out) : l <+: (setOffline w).out := by
  unfold setOffline; split
  · exact pre_emit _ (pre_upd _ h)
  · exact h

theorem pre_setOnline (h : l <+: w.out) : l <+: (setOnline w).out :=
  pre_emit _ (pre_upd _ (pre_setOffline h))

theorem pre_setAvailable (h : l <+: w.out) : l <+: (setAvailable w).out := by
  unfold setAvailable
  dsimp only
  apply pre_emit
  split
  · exact pre_emit _ (pre_upd _ (pre_upd _ h))
  · exact pre_setOnline (pre_emit _ (pre_upd _ (pre_upd _ h)))

theorem pre_setNotAvailable (h : l <+: w.out) : l <+: (setNotAvailable w).out := by
  unfold setNotAvailable
  dsimp only
  have h1 : l <+: (closeReaders (setOffline (emit .pathNotReady w))).out :=
    (pre_setOffline (pre_emit _ h)).trans (List.prefix_append _ _)
  apply pre_upd
  split
  · exact pre_emit _ (pre_upd _ h1)
  · exact pre_panic h1

theorem pre_executeRemovePublisher (h : l <+: w.out) : l <+: (executeRemovePublisher w).out := by
  unfold executeRemovePublisher
  dsimp only
  split
  · exact pre_upd _ (pre_upd _ (pre_setOffline h))
  · exact pre_upd _ (pre_setNotAvailable h)

theorem pre_replyStream (rid : Nat) (h : l <+: w.out) : l <+: (replyStream rid w).out := by
  unfold replyStream; split <;> exact pre_emit _ h

theorem pre_replyReader (rid r : Nat) (h : l <+: w.out) : l <+: (replyReader rid r w).out := by
  unfold replyReader; split
  · exact pre_emit _ (pre_upd _ h)
  · exact pre_emit _ h

theorem pre_addReaderPost (rid r : Nat) (h : l <+: w.out) : l <+: (addReaderPost rid r w).out := by
  unfold addReaderPost
  dsimp only
  split
  · exact pre_replyReader _ _ h
  split
  · exact pre_emit _ h
  · apply pre_replyReader
    split
    · split
      · exact pre_emit _ (pre_upd _ (pre_upd _ h))
      · exact pre_upd _ h
    · split
      · split
        · exact pre_emit _ (pre_upd _ (pre_upd _ h))
        · exact pre_upd _ h
      · exact pre_upd _ h

theorem pre_foldl {α : Type} (f : W → α → W) (hf : ∀ w a, l <+: w.out → l <+: (f w a).out) (xs : List α) :
    ∀ w : W, l <+: w.out → l <+: (xs.foldl f w).out := by
  induction xs with
  | nil => intro w h; exact h
  | cons a as ih => intro w h; exact ih _ (hf w a h)

theorem pre_consume (h : l <+: w.out) : l <+: (consumeOnHoldRequests w).out := by
  unfold consumeOnHoldRequests
  dsimp only
  apply pre_upd
  apply pre_foldl _ (fun w a h => pre_addReaderPost _ _ h)
  apply pre_upd
  exact pre_foldl _ (fun w a h => pre_replyStream _ h) _ _ h

theorem pre_closeCheck (h : l <+: w.out) : l <+: (closeCheck w).out := by
  unfold closeCheck; split
  · exact pre_emit _ h
  · exact h

theorem pre_subErrCleanup (h : l <+: w.out) : l <+: (subErrCleanup w).out := by
  unfold subErrCleanup; split
  · exact h
  · exact pre_setNotAvailable h

theorem pre_pubAttach (p : Nat) (ok : Bool) (h : l <+: w.out) : l <+: (pubAttach p ok w).out := by
  unfold pubAttach
  dsimp only
  have h0 : l <+: (if w.s.conf.alwaysAvailable = true then w else setAvailable w).out := by
    split
    · exact h
    · exact pre_setAvailable h
  generalize (if w.s.conf.alwaysAvailable = true then w else setAvailable w) = w1 at h0 ⊢
  split
  · exact pre_emit _ (pre_subErrCleanup h0)
  · apply pre_emit
    apply pre_consume
    have h1 : l <+: (upd (fun s => { s with source := some (.pub p) }) (newSub w1)).out := h0
    generalize (upd (fun s => { s with source := some (.pub p) }) (newSub w1)) = w2 at h1 ⊢
    have h2 : l <+: (if w2.s.conf.alwaysAvailable = true then setOnline w2 else w2).out := by
      split
      · exact pre_setOnline h1
      · exact h1
    generalize (if w2.s.conf.alwaysAvailable = true then setOnline w2 else w2) = w3 at h2 ⊢
    split
    · exact pre_emit _ (pre_upd _ (pre_emit _ (pre_upd _ h2)))
    · exact h2

end MtxVerif.PathSM
