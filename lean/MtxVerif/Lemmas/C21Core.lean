/-
C21 — hook commands receive values verbatim and report their exit status.  Property theorems
(everything that does not depend on the regenerated source facts; the ties are in Props/C21.lean, so that
a fact the extractor no longer finds breaks ONLY the tie theorems).

Reading guide (statement → theorem):
* "substituted into single arguments without changing how the command is split"
    → `argv_elementwise`, `argc_independent_of_values`, `expand_tokens` (single pass), `expand_clean`
* "reach the command exactly … when referenced"     → `value_verbatim`, `arg_verbatim`
* "reach the command exactly as environment variables" → `env_passed`
* "a non-zero status is reported as failed with that status" → `ExitReported_full` (def, FALSE on the
   pinned tree: `exit_reported_witness`), `exit_reported_partial`, `exit_reported_fixed`, `exit_current`
-/
import MtxVerif.Model.C21

namespace MtxVerif.C21

/-! #### byte-class facts -/

theorem identStart_not_special {c : UInt8} (h : isIdentStart c = true) : isSpecial c = false := by
  simp only [isIdentStart, isSpecial, Bool.or_eq_true, Bool.and_eq_true, beq_iff_eq, decide_eq_true_eq] at h ⊢
  simp only [Bool.or_eq_false_iff, Bool.and_eq_false_iff, beq_eq_false_iff_ne, ne_eq, decide_eq_false_iff_not]
  omega

theorem identStart_alnum {c : UInt8} (h : isIdentStart c = true) : isAlnum c = true := by
  simp only [isIdentStart, isAlnum, Bool.or_eq_true, Bool.and_eq_true, beq_iff_eq, decide_eq_true_eq] at h ⊢
  omega

theorem identStart_ne_lbrace {c : UInt8} (h : isIdentStart c = true) : (c == LBRACE) = false := by
  rw [beq_eq_false_iff_ne]
  intro e; subst e
  revert h; decide

theorem alnum_ne_rbrace {c : UInt8} (h : isAlnum c = true) : (c != RBRACE) = true := by
  rw [bne_iff_ne]
  intro e; subst e
  revert h; decide

theorem isIdent_cons {k : Bytes} (h : isIdent k = true) :
    ∃ c r, k = c :: r ∧ isIdentStart c = true ∧ r.all isAlnum = true := by
  cases k with
  | nil => simp [isIdent] at h
  | cons c r =>
    simp only [isIdent, Bool.and_eq_true] at h
    exact ⟨c, r, rfl, h.1, h.2⟩

/-! #### the skip counter is `drop` -/

theorem expandGo_skip (f : Bytes → Bytes) : ∀ (n : Nat) (s : Bytes),
    expandGo f n s = expandGo f 0 (s.drop n)
  | 0, s => by simp
  | n + 1, [] => by simp [expandGo]
  | n + 1, _ :: r => by
    simp only [expandGo, List.drop_succ_cons]
    exact expandGo_skip f n r

/-! #### single pass: the token structure of a word does not depend on the values -/

inductive Tok where
  | lit (c : UInt8)      -- byte copied
  | ref (name : Bytes)   -- replaced by the value of `name`
  | eaten                -- invalid syntax (`${}`, `${` without `}`): characters dropped
  | dollar               -- `$` not followed by a name: kept
deriving Repr, DecidableEq

/-- tokenisation of a word; defined without any reference to the variable values -/
def tokens : Nat → Bytes → List Tok
  | _, [] => []
  | k + 1, _ :: r => tokens k r
  | 0, c :: r =>
    if c == DOLLAR && !r.isEmpty then
      let nw := getShellName r
      (if nw.1.isEmpty then (if nw.2 > 0 then Tok.eaten else Tok.dollar) else Tok.ref nw.1) :: tokens nw.2 r
    else Tok.lit c :: tokens 0 r

def render (f : Bytes → Bytes) : Tok → Bytes
  | .lit c => [c]
  | .ref n => f n
  | .eaten => []
  | .dollar => [DOLLAR]

/-- **Single pass.** The expansion is the concatenation, token by token, of a tokenisation that is
computed from the word alone; each reference contributes the value exactly as it is, and the value is
never looked at again (it can neither introduce nor destroy a reference). -/
theorem expand_tokens (f : Bytes → Bytes) : ∀ (s : Bytes) (k : Nat),
    expandGo f k s = (tokens k s).flatMap (render f) := by
  intro s
  induction s with
  | nil => intro k; simp [expandGo, tokens]
  | cons c r ih =>
    intro k
    cases k with
    | succ k => simp only [expandGo, tokens]; exact ih k
    | zero =>
      simp only [expandGo, tokens]
      split
      · rw [List.flatMap_cons, ← ih]
        congr 1
        unfold emit
        split
        · split <;> rfl
        · rfl
      · rw [List.flatMap_cons, ← ih]; rfl

/-- Two variable maps that agree on the names referenced by a word give the same argument. -/
theorem expand_congr (f g : Bytes → Bytes) (s : Bytes)
    (h : ∀ n, Tok.ref n ∈ tokens 0 s → f n = g n) : expand f s = expand g s := by
  unfold expand
  rw [expand_tokens, expand_tokens]
  generalize tokens 0 s = ts at h
  induction ts with
  | nil => rfl
  | cons t ts ih =>
    rw [List.flatMap_cons, List.flatMap_cons, ih (fun n hn => h n (List.mem_cons_of_mem _ hn))]
    congr 1
    cases t with
    | ref n => exact h n List.mem_cons_self
    | _ => rfl

/-- A word without `$` is passed unchanged. -/
theorem expand_no_dollar (f : Bytes → Bytes) (s : Bytes) (h : ∀ c ∈ s, (c == DOLLAR) = false) :
    expand f s = s := by
  unfold expand
  induction s with
  | nil => rfl
  | cons c r ih =>
    simp only [expandGo, h c List.mem_cons_self, Bool.false_and]
    rw [ih (fun c hc => h c (List.mem_cons_of_mem _ hc))]
    rfl

/-! #### `getShellName` on identifier references -/

theorem takeWhile_append_stop {p : UInt8 → Bool} (n t : Bytes) (hn : n.all p = true)
    (ht : t = [] ∨ ∃ d t', t = d :: t' ∧ p d = false) : (n ++ t).takeWhile p = n := by
  induction n with
  | nil =>
    rcases ht with rfl | ⟨d, t', rfl, hd⟩
    · rfl
    · simp [hd]
  | cons c r ih =>
    simp only [List.all_cons, Bool.and_eq_true] at hn
    simp only [List.cons_append, List.takeWhile, hn.1]
    rw [ih hn.2]

/-- bare reference: `$IDENT` where the identifier is the maximal alphanumeric run -/
theorem getShellName_bare (s : Bytes) (h : isIdent (s.takeWhile isAlnum) = true) :
    getShellName s = (s.takeWhile isAlnum, (s.takeWhile isAlnum).length) := by
  obtain ⟨c, r, hk, hc, _⟩ := isIdent_cons h
  cases s with
  | nil => simp [List.takeWhile] at hk
  | cons d t =>
    have hd : d = c := by
      by_cases ha : isAlnum d = true
      · simp only [List.takeWhile, ha] at hk; exact (List.cons.inj hk).1
      · have ha' : isAlnum d = false := by simpa using ha
        simp [List.takeWhile, ha'] at hk
    subst hd
    simp only [getShellName, identStart_ne_lbrace hc, identStart_not_special hc]
    rfl

/-- braced reference: `${IDENT}` -/
theorem getShellName_braced (t : Bytes) (hlt : (t.takeWhile (· != RBRACE)).length < t.length)
    (h : isIdent (t.takeWhile (· != RBRACE)) = true) :
    getShellName (LBRACE :: t) =
      (t.takeWhile (· != RBRACE), (t.takeWhile (· != RBRACE)).length + 2) := by
  obtain ⟨c, r, hk, hc, _⟩ := isIdent_cons h
  have hscan : braceScan t = (t.takeWhile (· != RBRACE), (t.takeWhile (· != RBRACE)).length + 2) := by
    simp only [braceScan, hlt, if_true]
    rw [hk]; rfl
  cases t with
  | nil => simp [List.takeWhile] at hk
  | cons d t' =>
    have hd : d = c := by
      by_cases ha : (d != RBRACE) = true
      · simp only [List.takeWhile, ha] at hk; exact (List.cons.inj hk).1
      · have ha' : (d != RBRACE) = false := by simpa using ha
        simp [List.takeWhile, ha'] at hk
    subst hd
    have hl : (LBRACE == LBRACE) = true := by decide
    cases t' with
    | nil => simp only [getShellName, hl, if_true]; exact hscan
    | cons c2 t'' =>
      simp only [getShellName, hl, if_true, identStart_not_special hc, Bool.false_and]
      exact hscan

/-! #### clean words: expansion = plain left-to-right substitution -/

/-- **Substitution theorem.** For every word all of whose `$` start `$IDENT` / `${IDENT}` (the only
forms in the documentation; `cleanParse` is decidable and independent of the values), the argument
is the word with each reference replaced, once and left to right, by the value — whatever bytes the
values contain. -/
theorem expand_clean_go (f : Bytes → Bytes) : ∀ (s : Bytes) (k : Nat) (p : List (Sum UInt8 Bytes)),
    cleanGo k s = some p → expandGo f k s = renderPieces f p := by
  intro s
  induction s with
  | nil => intro k p h; simp [cleanGo] at h; subst h; simp [expandGo, renderPieces]
  | cons c r ih =>
    intro k p h
    cases k with
    | succ k => simp only [cleanGo] at h; simp only [expandGo]; exact ih k p h
    | zero =>
      simp only [cleanGo] at h
      split at h
      · rename_i hc
        cases r with
        | nil => simp at h
        | cons d r' =>
          simp only at h
          split at h
          · -- braced
            rename_i hd
            split at h
            · rename_i hcond
              simp only [Bool.and_eq_true, decide_eq_true_eq] at hcond
              obtain ⟨p', hp', rfl⟩ := Option.map_eq_some_iff.mp h
              have hdl : d = LBRACE := by simpa using hd
              subst hdl
              have hg := getShellName_braced r' hcond.1 hcond.2
              obtain ⟨c1, r1, hk, _, _⟩ := isIdent_cons hcond.2
              have e := ih _ p' hp'
              simp only [expandGo] at e
              simp only [expandGo, hc, List.isEmpty_cons, Bool.not_false, Bool.and_self, if_true, hg]
              rw [e]
              simp only [renderPieces, List.flatMap_cons, emit]
              rw [hk]; rfl
            · simp at h
          · -- bare
            rename_i hd
            split at h
            · rename_i hid
              obtain ⟨p', hp', rfl⟩ := Option.map_eq_some_iff.mp h
              have hg := getShellName_bare (d :: r') hid
              obtain ⟨c1, r1, hk, _, _⟩ := isIdent_cons hid
              simp only [expandGo, hc, List.isEmpty_cons, Bool.not_false, Bool.and_self, if_true, hg]
              rw [ih _ p' hp']
              simp only [renderPieces, List.flatMap_cons, emit]
              rw [hk]; rfl
            · simp at h
      · rename_i hc
        obtain ⟨p', hp', rfl⟩ := Option.map_eq_some_iff.mp h
        have hc' : (c == DOLLAR) = false := by simpa using hc
        simp only [expandGo, hc', Bool.false_and]
        rw [ih 0 p' hp']
        simp [renderPieces]

theorem expand_clean (f : Bytes → Bytes) (s : Bytes) (p : List (Sum UInt8 Bytes))
    (h : cleanParse s = some p) : expand f s = renderPieces f p :=
  expand_clean_go f s 0 p h

/-- **Value verbatim.** A word that is exactly `$K` or `${K}` becomes the value of `K`, byte for byte. -/
theorem value_verbatim (f : Bytes → Bytes) (s k : Bytes) (h : pureRef s = some k) :
    expand f s = f k := by
  unfold pureRef at h
  split at h
  · rename_i n hp
    cases h
    rw [expand_clean f s _ hp]
    simp [renderPieces]
  · cases h

/-- the two concrete shapes, for every identifier -/
theorem value_verbatim_bare (f : Bytes → Bytes) (k : Bytes) (hk : isIdent k = true) :
    expand f (DOLLAR :: k) = f k := by
  obtain ⟨c, r, rfl, hc, hr⟩ := isIdent_cons hk
  have htw : (c :: r).takeWhile isAlnum = c :: r := by
    have := takeWhile_append_stop (p := isAlnum) (c :: r) []
      (by simp only [List.all_cons, identStart_alnum hc, hr, Bool.and_self]) (Or.inl rfl)
    simpa using this
  have hg := getShellName_bare (c :: r) (by rw [htw]; exact hk)
  rw [htw] at hg
  have hd : (DOLLAR == DOLLAR) = true := by decide
  simp only [expand, expandGo, hd, List.isEmpty_cons, Bool.not_false, Bool.and_self, if_true, hg]
  rw [expandGo_skip]
  simp [emit, expandGo]

theorem value_verbatim_braced (f : Bytes → Bytes) (k : Bytes) (hk : isIdent k = true) :
    expand f (DOLLAR :: LBRACE :: (k ++ [RBRACE])) = f k := by
  obtain ⟨c, r, rfl, hc, hr⟩ := isIdent_cons hk
  have hall : (c :: r).all (· != RBRACE) = true := by
    simp only [List.all_cons, Bool.and_eq_true]
    refine ⟨alnum_ne_rbrace (identStart_alnum hc), ?_⟩
    rw [List.all_eq_true] at hr ⊢
    exact fun x hx => alnum_ne_rbrace (hr x hx)
  have htw : ((c :: r) ++ [RBRACE]).takeWhile (· != RBRACE) = c :: r :=
    takeWhile_append_stop (p := (· != RBRACE)) (c :: r) [RBRACE] hall
      (Or.inr ⟨RBRACE, [], rfl, by decide⟩)
  have hg := getShellName_braced ((c :: r) ++ [RBRACE]) (by rw [htw]; simp) (by rw [htw]; exact hk)
  rw [htw] at hg
  have hd : (DOLLAR == DOLLAR) = true := by decide
  simp only [expand, expandGo, hd, List.isEmpty_cons, Bool.not_false, Bool.and_self, if_true, hg]
  rw [expandGo_skip]
  simp [emit, expandGo]

/-! #### the argument list of a run -/

/-- **Arguments are the element-wise expansion of the split command line**: whatever the values
contain, they never change how the command was split. -/
theorem argv_elementwise (rc : Bool) (prog : Bytes) (ws : List Bytes) (ok : Bool) (env osenv : Env)
    (code : Nat) (argv : List Bytes) (rep : Option Nat)
    (h : runCmd rc (some (prog :: ws)) ok env osenv code = .ran argv rep) :
    argv = ws.map (expandEnv env osenv) ∧ rep = exitReport rc code := by
  simp only [runCmd] at h
  split at h
  · cases h
  · split at h
    · cases h
    · split at h
      · cases h
      · injection h with h1 h2
        subst h1 h2
        simp

theorem argc_independent_of_values (rc : Bool) (prog : Bytes) (ws : List Bytes) (ok : Bool)
    (env osenv : Env) (code : Nat) (argv : List Bytes) (rep : Option Nat)
    (h : runCmd rc (some (prog :: ws)) ok env osenv code = .ran argv rep) :
    argv.length = ws.length := by
  rw [(argv_elementwise rc prog ws ok env osenv code argv rep h).1]; simp

/-- an argument written `$K` / `${K}` with `K` passed by the server is the value, verbatim -/
theorem arg_verbatim (rc : Bool) (prog : Bytes) (ws : List Bytes) (ok : Bool) (env osenv : Env)
    (code : Nat) (argv : List Bytes) (rep : Option Nat)
    (h : runCmd rc (some (prog :: ws)) ok env osenv code = .ran argv rep)
    (i : Nat) (w k v : Bytes) (hw : ws[i]? = some w) (hk : pureRef w = some k)
    (hv : envGet env k = some v) : argv[i]? = some v := by
  rw [(argv_elementwise rc prog ws ok env osenv code argv rep h).1, List.getElem?_map, hw]
  simp only [Option.map_some, expandEnv]
  rw [value_verbatim _ w k hk]
  simp [lookupVar, hv]

/-- a run happens whenever the command splits into ≥ 1 word, the program exists and nothing contains NUL -/
theorem runs_when_representable (rc : Bool) (prog : Bytes) (ws : List Bytes) (env osenv : Env) (code : Nat)
    (h1 : env.any (fun kv => hasNul kv.2 || hasNul kv.1) = false)
    (h2 : ((prog :: ws).map (expandEnv env osenv)).any hasNul = false) :
    runCmd rc (some (prog :: ws)) true env osenv code =
      .ran (ws.map (expandEnv env osenv)) (exitReport rc code) := by
  simp only [runCmd, Bool.not_true, h1, h2]
  simp

/-! #### environment -/

theorem envGet_mem {l : Env} {k v : Bytes} (h : envGet l k = some v) : (k, v) ∈ l := by
  induction l with
  | nil => simp [envGet] at h
  | cons x r ih =>
    obtain ⟨k', v'⟩ := x
    simp only [envGet] at h
    split at h
    · rename_i hk
      have : k' = k := by simpa using hk
      subst this; cases h; exact List.mem_cons_self
    · exact List.mem_cons_of_mem _ (ih h)

theorem lastGet_key_mem {l : Env} {k x : Bytes} (h : lastGet l k = some x) : k ∈ l.map (·.1) := by
  induction l with
  | nil => simp [lastGet] at h
  | cons y r ih =>
    obtain ⟨k', v'⟩ := y
    simp only [lastGet] at h
    split at h
    · rename_i x' hx
      cases h; exact List.mem_cons_of_mem _ (ih hx)
    · split at h
      · rename_i hk
        have : k' = k := by simpa using hk
        subst this; simp
      · cases h

theorem lastGet_of_mem_nodup {l : Env} {k v : Bytes} (hnd : (l.map (·.1)).Nodup) (h : (k, v) ∈ l) :
    lastGet l k = some v := by
  induction l with
  | nil => cases h
  | cons y r ih =>
    obtain ⟨k', v'⟩ := y
    simp only [List.map_cons, List.nodup_cons] at hnd
    simp only [lastGet]
    rcases List.mem_cons.mp h with e | hm
    · injection e with e1 e2
      subst e1 e2
      cases hx : lastGet r k with
      | some x => exact absurd (lastGet_key_mem hx) hnd.1
      | none => simp
    · rw [ih hnd.2 hm]

theorem lastGet_append (a b : Env) (k : Bytes) :
    lastGet (a ++ b) k = (match lastGet b k with | some x => some x | none => lastGet a k) := by
  induction a with
  | nil =>
    simp only [List.nil_append]
    cases lastGet b k <;> simp [lastGet]
  | cons y r ih =>
    obtain ⟨k', v'⟩ := y
    simp only [List.cons_append, lastGet, ih]
    cases lastGet b k <;> simp

/-- **Environment.** Every pair of `c.Env` reaches the child's environment with exactly its value —
for every iteration order `envl` of the Go map and every inherited environment (which it overrides). -/
theorem env_passed (env envl osenv : Env) (k v : Bytes) (hperm : envl.Perm env)
    (hnd : (env.map (·.1)).Nodup) (h : envGet env k = some v) :
    childGet envl osenv k = some v := by
  unfold childGet
  rw [lastGet_append]
  have hm : (k, v) ∈ envl := hperm.symm.subset (envGet_mem h)
  have hnd' : (envl.map (·.1)).Nodup := ((hperm.map (·.1)).nodup_iff).mpr hnd
  rw [lastGet_of_mem_nodup hnd' hm]

/-- a variable the server does not pass is inherited unchanged -/
theorem env_inherited (env osenv : Env) (k : Bytes) (h : k ∉ env.map (·.1)) :
    childGet env osenv k = lastGet osenv k := by
  unfold childGet
  rw [lastGet_append]
  cases hx : lastGet env k with
  | some x => exact absurd (lastGet_key_mem hx) h
  | none => rfl

/-! #### exit status -/

/-- The property's last sentence, for a given shape of the `Wait` closure. -/
def ExitReported_full (returnsCode : Bool) : Prop :=
  ∀ code : Nat, code ≠ 0 → exitReport returnsCode code = some code

/-- With `return ee.ExitCode()` the statement holds for every status. -/
theorem exit_reported_fixed : ExitReported_full true := by
  intro code h
  simp [exitReport, waitResult, h]

/-- Outside the decidable class `exitCodeDropped` the report is right, for either shape. -/
theorem exit_reported_partial (rc : Bool) (code : Nat) (h : exitCodeDropped rc code = false) :
    (code ≠ 0 → exitReport rc code = some code) ∧ (code = 0 → exitReport rc code = none) := by
  cases rc
  · have : code = 0 := by simpa [exitCodeDropped] using h
    subst this; simp [exitReport, waitResult]
  · refine ⟨fun h0 => by simp [exitReport, waitResult, h0], fun h0 => by simp [exitReport, waitResult, h0]⟩

/-- Inside the class nothing is reported at all (so the class is exactly the failure set). -/
theorem exit_dropped_iff (rc : Bool) (code : Nat) :
    exitCodeDropped rc code = true ↔ (code ≠ 0 ∧ exitReport rc code = none) := by
  cases rc <;> simp [exitCodeDropped, exitReport, waitResult]

/-- Counterexample on the pinned tree's shape (`ee.ExitCode()` evaluated and dropped): status 1. -/
theorem exit_reported_witness : ¬ ExitReported_full false := by
  intro h
  have := h 1 (by decide)
  revert this; decide

/-- exit status 0 is never reported as a failure (Restart = false) -/
theorem exit_zero (rc : Bool) : exitReport rc 0 = none := by
  cases rc <;> rfl

/-- what is handed to `exec.Command`: EVERY word of the split command line, the program word included,
expanded element-wise -/
def execArgv (words : List Bytes) (env osenv : Env) : List Bytes := words.map (expandEnv env osenv)

/-- **The program word is expanded like any other word**: when a command runs, its arguments are the tail
of `execArgv`, whose head is the executable that was started; and whenever that expansion names an existing
program (`ok`) and nothing contains NUL, the command does run. -/
theorem exec_target (rc : Bool) (prog : Bytes) (ws : List Bytes) (env osenv : Env) (code : Nat)
    (h1 : env.any (fun kv => hasNul kv.2 || hasNul kv.1) = false)
    (h2 : (execArgv (prog :: ws) env osenv).any hasNul = false) :
    runCmd rc (some (prog :: ws)) true env osenv code =
      .ran (execArgv (prog :: ws) env osenv).tail (exitReport rc code) ∧
    (execArgv (prog :: ws) env osenv).head? = some (expandEnv env osenv prog) := by
  refine ⟨?_, rfl⟩
  have := runs_when_representable rc prog ws env osenv code h1 h2
  simpa [execArgv] using this

/-- a program word that is a reference is the value, byte for byte (`$HELPER arg …`) -/
theorem prog_verbatim (prog k v : Bytes) (ws : List Bytes) (env osenv : Env)
    (hk : pureRef prog = some k) (hv : envGet env k = some v) :
    (execArgv (prog :: ws) env osenv).head? = some v := by
  simp only [execArgv, List.map_cons, List.head?_cons, expandEnv]
  rw [value_verbatim _ prog k hk]
  simp [lookupVar, hv]

/-! #### restarting hooks (`Restart: true`) -/

/-- Every run of a restarting hook has the outcome of the first one: `run()` passes the unchanged
command string and `c.Env` to `runOSSpecific` each time (nothing is carried over between runs). -/
theorem restart_all_runs (rc : Bool) (split : Option (List Bytes)) (ok : Bool) (env osenv : Env) (code n : Nat) :
    ∀ o ∈ runsRestart rc split ok env osenv code n, o = runCmdRestart rc split ok env osenv code := by
  intro o ho
  exact List.eq_of_mem_replicate ho

/-- … so on every run the arguments are the element-wise expansion of the ORIGINAL words (a value is
never expanded a second time), and the exit status is always reported. -/
theorem restart_argv (rc : Bool) (prog : Bytes) (ws : List Bytes) (ok : Bool) (env osenv : Env) (code : Nat)
    (argv : List Bytes) (rep : Option Nat)
    (h : runCmdRestart rc (some (prog :: ws)) ok env osenv code = .ran argv rep) :
    argv = ws.map (expandEnv env osenv) ∧ rep = some (waitResult rc code) := by
  unfold runCmdRestart at h
  cases hr : runCmd rc (some (prog :: ws)) ok env osenv code with
  | ran a r =>
    rw [hr] at h
    injection h with h1 h2
    subst h1 h2
    exact ⟨(argv_elementwise rc prog ws ok env osenv code _ _ hr).1, rfl⟩
  | panic => rw [hr] at h; cases h
  | splitErr => rw [hr] at h; cases h
  | startErr => rw [hr] at h; cases h

theorem restart_reports_status (code : Nat) (h : code ≠ 0) : waitResult true code = code := by
  simp [waitResult, h]

/-! #### non-vacuity / samples (tests, not theorems) -/

-- `$MTX_PATH` and `${G1}` are pure references
example : pureRef (asc ['$','M','T','X','_','P','A','T','H']) = some (asc ['M','T','X','_','P','A','T','H']) := by decide
example : pureRef (asc ['$','{','G','1','}']) = some (asc ['G','1']) := by decide
-- a value containing a space, a quote and a reference arrives as ONE argument, unchanged
example :
    runCmd true (some [asc ['h'], asc ['-','x'], asc ['$','G','1']]) true
      [(asc ['G','1'], asc ['i','t','\'','s',' ','$','G','1'])] [] 3
    = .ran [asc ['-','x'], asc ['i','t','\'','s',' ','$','G','1']] (some 3) := by decide
-- same run on the pinned tree's shape: the status is lost
example :
    runCmd false (some [asc ['h'], asc ['$','G','1']]) true [(asc ['G','1'], asc ['v'])] [] 3
    = .ran [asc ['v']] none := by decide
-- bad syntax is eaten, `$` before a non-name is kept, special one-character names
example : expand (fun _ => asc ['V']) (asc ['a','$','{','}','b','$','{','c']) = asc ['a','b','c'] := by decide
example : expand (fun _ => asc ['V']) (asc ['$','.','$']) = asc ['$','.','$'] := by decide
example : expand (fun n => n) (asc ['$','1','2','$','{','*','}']) = asc ['1','2','*'] := by decide
-- hypotheses of `env_passed` are satisfiable, and the passed value overrides the inherited one
example : childGet [(asc ['A'], asc ['1'])] [(asc ['A'], asc ['0']), (asc ['B'], asc ['2'])] (asc ['A']) = some (asc ['1']) := by decide
example : runCmd true (some []) true [] [] 0 = .panic := by decide

end MtxVerif.C21
