/-
C32 — lemmas about the codec library (Model/C32.lean): for every primitive and combinator
  * `.r` computation rules and the round-trip rule,
  * `Total`   : never the panic outcome,
  * `NonIncr` / `Strict` : the unread rest is no longer / strictly shorter than the input,
  * `AllocB B`: `alloc + A·|rest| ≤ A·|input| + B`  (allocation is paid for by consumed input, up to `B`),
  * `AllocC K`: `alloc ≤ K` whatever the input (stream readers).
-/
import MtxVerif.Model.C32

namespace MtxVerif.C32

/-- bytes of allocation per consumed input byte that the buffer decoders may cause (the worst case is
one `append`ed parameter per consumed byte: 48-byte struct + amortised slice growth) -/
notation "A" => (128 : Nat)

def Total (d : Dec α) : Prop := ∀ b, (d b).r ≠ .panic
def NonIncr (d : Dec α) : Prop := ∀ b v r, (d b).r = .ok v r → r.length ≤ b.length
def Strict (d : Dec α) : Prop := ∀ b v r, (d b).r = .ok v r → r.length < b.length
def AllocB (B : Nat) (d : Dec α) : Prop := ∀ b, (d b).alloc + A * (d b).r.restLen ≤ A * b.length + B
def AllocC (K : Nat) (d : Dec α) : Prop := ∀ b, (d b).alloc ≤ K

/-- round trip of a prefix codec: decoding `enc v` followed by anything returns `v` and that anything -/
def RT (enc : α → Bytes) (dec : Dec α) (wf : α → Prop) : Prop :=
  ∀ v tail, wf v → (dec (enc v ++ tail)).r = .ok v tail

/-! ### bind / pure -/

@[simp] theorem pure_eq (v : α) : (Pure.pure v : Dec α) = Dec.pure v := rfl
@[simp] theorem bind_eq (d : Dec α) (f : α → Dec β) : (d >>= f) = Dec.bind d f := rfl

theorem bind_r (d : Dec α) (f : α → Dec β) (b : Bytes) :
    (Dec.bind d f b).r = match (d b).r with
      | .ok v rest => (f v rest).r
      | .err e => .err e
      | .panic => .panic := by
  unfold Dec.bind
  cases h : d b with
  | mk r a => cases r <;> simp

theorem bind_alloc (d : Dec α) (f : α → Dec β) (b : Bytes) :
    (Dec.bind d f b).alloc = (d b).alloc + match (d b).r with
      | .ok v rest => (f v rest).alloc
      | _ => 0 := by
  unfold Dec.bind
  cases h : d b with
  | mk r a => cases r <;> simp

theorem bind_ok {d : Dec α} {f : α → Dec β} {b : Bytes} {v : α} {rest : Bytes}
    (h : (d b).r = .ok v rest) : (Dec.bind d f b).r = (f v rest).r := by
  rw [bind_r, h]

theorem bind_err {d : Dec α} {f : α → Dec β} {b : Bytes} {e : Err}
    (h : (d b).r = .err e) : (Dec.bind d f b).r = .err e := by
  rw [bind_r, h]

@[simp] theorem pure_r (v : α) (b : Bytes) : (Dec.pure v b).r = .ok v b := rfl
@[simp] theorem pure_alloc (v : α) (b : Bytes) : (Dec.pure v b).alloc = 0 := rfl
@[simp] theorem fail_r (e : Err) (b : Bytes) : (Dec.fail e b : Out α).r = .err e := rfl
@[simp] theorem fail_alloc (e : Err) (b : Bytes) : (Dec.fail e b : Out α).alloc = 0 := rfl

theorem Total.bind {d : Dec α} {f : α → Dec β} (h1 : Total d) (h2 : ∀ v, Total (f v)) :
    Total (Dec.bind d f) := by
  intro b
  rw [bind_r]
  cases h : (d b).r with
  | ok v rest => exact h2 v rest
  | err e => simp
  | panic => exact absurd h (h1 b)

theorem Total.pure (v : α) : Total (Dec.pure v) := by intro b; simp
theorem Total.fail (e : Err) : Total (Dec.fail e : Dec α) := by intro b; simp

theorem NonIncr.bind {d : Dec α} {f : α → Dec β} (h1 : NonIncr d) (h2 : ∀ v, NonIncr (f v)) :
    NonIncr (Dec.bind d f) := by
  intro b v r h
  rw [bind_r] at h
  cases hd : (d b).r with
  | ok w rest =>
    rw [hd] at h
    have := h1 b w rest hd
    have := h2 w rest v r h
    omega
  | err e => rw [hd] at h; simp at h
  | panic => rw [hd] at h; simp at h

theorem Strict.bind {d : Dec α} {f : α → Dec β} (h1 : Strict d) (h2 : ∀ v, NonIncr (f v)) :
    Strict (Dec.bind d f) := by
  intro b v r h
  rw [bind_r] at h
  cases hd : (d b).r with
  | ok w rest =>
    rw [hd] at h
    have := h1 b w rest hd
    have := h2 w rest v r h
    omega
  | err e => rw [hd] at h; simp at h
  | panic => rw [hd] at h; simp at h

theorem Strict.nonIncr {d : Dec α} (h : Strict d) : NonIncr d :=
  fun b v r hr => Nat.le_of_lt (h b v r hr)

theorem NonIncr.pure (v : α) : NonIncr (Dec.pure v) := by
  intro b w r h; simp at h; rw [h.2]; exact Nat.le_refl _
theorem NonIncr.fail (e : Err) : NonIncr (Dec.fail e : Dec α) := by
  intro b w r h; simp at h

theorem AllocB.bind {d : Dec α} {f : α → Dec β} {B1 B2 : Nat} (h1 : AllocB B1 d)
    (h2 : ∀ v, AllocB B2 (f v)) : AllocB (B1 + B2) (Dec.bind d f) := by
  intro b
  rw [bind_r, bind_alloc]
  have a1 := h1 b
  cases hd : (d b).r with
  | ok w rest =>
    rw [hd] at a1
    have a2 := h2 w rest
    simp only [Res.restLen] at a1
    simp only []
    omega
  | err e => rw [hd] at a1; simp only [Res.restLen] at a1 ⊢; omega
  | panic => rw [hd] at a1; simp only [Res.restLen] at a1 ⊢; omega

theorem AllocB.pure (v : α) : AllocB 0 (Dec.pure v) := by intro b; simp [Res.restLen]
theorem AllocB.fail (e : Err) : AllocB 0 (Dec.fail e : Dec α) := by intro b; simp [Res.restLen]

theorem AllocB.mono {d : Dec α} {B B' : Nat} (h : AllocB B d) (hb : B ≤ B') : AllocB B' d := by
  intro b; have := h b; omega

theorem AllocC.bind {d : Dec α} {f : α → Dec β} {K1 K2 : Nat} (h1 : AllocC K1 d)
    (h2 : ∀ v, AllocC K2 (f v)) : AllocC (K1 + K2) (Dec.bind d f) := by
  intro b
  rw [bind_alloc]
  have a1 := h1 b
  cases hd : (d b).r with
  | ok w rest => have a2 := h2 w rest; simp only []; omega
  | err e => simp only []; omega
  | panic => simp only []; omega

theorem AllocC.pure (v : α) : AllocC 0 (Dec.pure v) := by intro b; simp
theorem AllocC.fail (e : Err) : AllocC 0 (Dec.fail e : Dec α) := by intro b; simp
theorem AllocC.mono {d : Dec α} {K K' : Nat} (h : AllocC K d) (hk : K ≤ K') : AllocC K' d := by
  intro b; have := h b; omega

/-- an `AllocB` decoder run on an input of at most `n` bytes allocates at most `A·n + B` -/
theorem AllocB.le {d : Dec α} {B : Nat} (h : AllocB B d) (b : Bytes) :
    (d b).alloc ≤ A * b.length + B := by have := h b; omega

/-! ### primitives -/

@[simp] theorem guardD_r (c : Bool) (e : Err) (b : Bytes) :
    (guardD c e b).r = if c then .ok () b else .err e := by unfold guardD; split <;> rfl
@[simp] theorem guardD_alloc (c : Bool) (e : Err) (b : Bytes) : (guardD c e b).alloc = 0 := by
  unfold guardD; split <;> rfl
@[simp] theorem allocD_r (n : Nat) (b : Bytes) : (allocD n b).r = .ok () b := rfl
@[simp] theorem allocD_alloc (n : Nat) (b : Bytes) : (allocD n b).alloc = n := rfl
theorem hasLen_iff (n : Nat) (b : Bytes) : hasLen n b = true ↔ n ≤ b.length := by
  induction n generalizing b with
  | zero => simp [hasLen]
  | succ n ih =>
    cases b with
    | nil => simp [hasLen]
    | cons x t => simp [hasLen, ih]

@[simp] theorem needD_r (n : Nat) (e : Err) (b : Bytes) :
    (needD n e b).r = if n ≤ b.length then .ok () b else .err e := by
  unfold needD
  by_cases h : n ≤ b.length
  · simp [h, (hasLen_iff n b).mpr h]
  · have : hasLen n b = false := by
      cases hh : hasLen n b with
      | false => rfl
      | true => exact absurd ((hasLen_iff n b).mp hh) h
    simp [h, this]
@[simp] theorem needD_alloc (n : Nat) (e : Err) (b : Bytes) : (needD n e b).alloc = 0 := by
  unfold needD; split <;> rfl
@[simp] theorem lenD_r (b : Bytes) : (lenD b).r = .ok b.length b := rfl
@[simp] theorem lenD_alloc (b : Bytes) : (lenD b).alloc = 0 := rfl
@[simp] theorem slice_r (n : Nat) (b : Bytes) :
    (slice n b).r = if n ≤ b.length then .ok (b.take n) (b.drop n) else .panic := by
  unfold slice; split <;> rfl
@[simp] theorem slice_alloc (n : Nat) (b : Bytes) : (slice n b).alloc = 0 := by
  unfold slice; split <;> rfl
@[simp] theorem takeAll_r (b : Bytes) : (takeAll b).r = .ok b [] := rfl
@[simp] theorem takeAll_alloc (b : Bytes) : (takeAll b).alloc = 0 := rfl

theorem Total.guardD (c : Bool) (e : Err) : Total (guardD c e) := by
  intro b; simp; split <;> simp
theorem NonIncr.guardD (c : Bool) (e : Err) : NonIncr (guardD c e) := by
  intro b v r h; simp at h; split at h <;> simp at h; rw [h]; exact Nat.le_refl _
theorem AllocB.guardD (c : Bool) (e : Err) : AllocB 0 (guardD c e) := by
  intro b; simp; split <;> simp [Res.restLen]
theorem AllocC.guardD (c : Bool) (e : Err) : AllocC 0 (guardD c e) := by intro b; simp

theorem Total.allocD (n : Nat) : Total (allocD n) := by intro b; simp
theorem NonIncr.allocD (n : Nat) : NonIncr (allocD n) := by
  intro b v r h; simp at h; rw [h]; exact Nat.le_refl _
theorem AllocB.allocD (n : Nat) : AllocB n (allocD n) := by intro b; simp [Res.restLen]; omega
theorem AllocC.allocD (n : Nat) : AllocC n (allocD n) := by intro b; simp

theorem Total.takeAll : Total takeAll := by intro b; simp
theorem NonIncr.takeAll : NonIncr takeAll := by
  intro b v r h; simp at h; rw [h.2]; simp
theorem AllocB.takeAll : AllocB 0 takeAll := by intro b; simp [Res.restLen]

/-! ### onBytes -/

theorem onBytes_r (inner : Dec α) (sub outer : Bytes) :
    (onBytes inner sub outer).r = match (inner sub).r with
      | .ok v _ => .ok v outer
      | .err e => .err e
      | .panic => .panic := by
  unfold onBytes
  cases h : inner sub with
  | mk r a => cases r <;> simp

theorem onBytes_alloc (inner : Dec α) (sub outer : Bytes) :
    (onBytes inner sub outer).alloc = (inner sub).alloc := by
  unfold onBytes
  cases h : inner sub with
  | mk r a => cases r <;> simp

theorem Total.onBytes {inner : Dec α} (h : Total inner) (sub : Bytes) : Total (onBytes inner sub) := by
  intro b
  rw [onBytes_r]
  cases hi : (inner sub).r with
  | ok v r => simp
  | err e => simp
  | panic => exact absurd hi (h sub)

theorem NonIncr.onBytes (inner : Dec α) (sub : Bytes) : NonIncr (onBytes inner sub) := by
  intro b v r h
  rw [onBytes_r] at h
  cases hi : (inner sub).r with
  | ok w r' => rw [hi] at h; simp at h; rw [h.2]; exact Nat.le_refl _
  | err e => rw [hi] at h; simp at h
  | panic => rw [hi] at h; simp at h

/-- the inner decoder's allocation is bounded through the length of the sub-buffer -/
theorem AllocC.onBytes {inner : Dec α} {B n : Nat} (h : AllocB B inner) (sub : Bytes)
    (hn : sub.length ≤ n) : AllocC (A * n + B) (onBytes inner sub) := by
  intro b
  rw [onBytes_alloc]
  have := h.le sub
  have : A * sub.length ≤ A * n := Nat.mul_le_mul_left _ hn
  omega

/-! ### big-endian helpers -/

theorem beBytes_length (k v : Nat) : (beBytes k v).length = k := by
  induction k with
  | zero => rfl
  | succ k ih => simp [beBytes, ih]

theorem beNat_beBytes (k v : Nat) : beNat (beBytes k v) = v % 256 ^ k := by
  induction k with
  | zero => simp [beBytes, beNat, Nat.mod_one]
  | succ k ih =>
    simp only [beBytes, beNat, ih, beBytes_length]
    rw [Nat.pow_succ, Nat.mod_mul]
    simp only [UInt8.toNat_ofNat']
    rw [Nat.mul_comm (256 ^ k)]
    have : (2 : Nat) ^ 8 = 256 := by decide
    rw [this]
    omega

theorem beNat_lt (b : Bytes) : beNat b < 256 ^ b.length := by
  induction b with
  | nil => simp [beNat]
  | cons x xs ih =>
    simp only [beNat, List.length_cons, Nat.pow_succ]
    have hx : x.toNat < 256 := by have := x.toNat_lt; omega
    have : x.toNat * 256 ^ xs.length ≤ 255 * 256 ^ xs.length := Nat.mul_le_mul_right _ (by omega)
    omega

/-! ### varint -/

theorem sizeOfFirst_pos (b : Nat) : 1 ≤ sizeOfFirst b ∧ sizeOfFirst b ≤ 9 := by
  unfold sizeOfFirst; repeat' split
  all_goals omega

theorem varint_r (s : Bool) (b : Bytes) : (varint s b).r =
    match b with
    | [] => .err .short
    | b0 :: rest =>
      if sizeOfFirst b0.toNat = 1 then .ok b0.toNat rest
      else if sizeOfFirst b0.toNat - 1 ≤ rest.length then
        .ok ((b0.toNat - prefixOf (sizeOfFirst b0.toNat)) * 256 ^ (sizeOfFirst b0.toNat - 1)
              + beNat (rest.take (sizeOfFirst b0.toNat - 1))) (rest.drop (sizeOfFirst b0.toNat - 1))
      else .err .short := by
  cases b with
  | nil => simp [varint, bind_r]
  | cons b0 rest =>
    simp only [varint, bind_eq, pure_eq, bind_r, needD_r, byte0, List.length_cons]
    by_cases h1 : sizeOfFirst b0.toNat = 1
    · simp [h1]
    · by_cases h2 : sizeOfFirst b0.toNat ≤ rest.length + 1
      · simp [h1, h2, bind_r]
      · simp [h1, h2, bind_r]

theorem varint_alloc (s : Bool) (b : Bytes) : (varint s b).alloc ≤ if s then 8 else 0 := by
  have hs := fun x => sizeOfFirst_pos x
  cases b with
  | nil => simp [varint, bind_alloc, bind_r, byte0]
  | cons b0 rest =>
    simp only [varint, bind_eq, pure_eq, bind_alloc, bind_r, needD_r, needD_alloc,
      byte0, List.length_cons]
    have := hs b0.toNat
    by_cases h1 : sizeOfFirst b0.toNat = 1
    · simp [h1]
    · by_cases h2 : sizeOfFirst b0.toNat ≤ rest.length + 1
      · cases s <;> simp [h1, h2, bind_r, bind_alloc] <;> omega
      · cases s <;> simp [h1, h2, bind_r, bind_alloc] <;> omega

theorem Total.varint (s : Bool) : Total (varint s) := by
  intro b
  rw [varint_r]
  cases b with
  | nil => simp
  | cons b0 rest => simp only []; repeat' split <;> simp

theorem Strict.varint (s : Bool) : Strict (varint s) := by
  intro b v r h
  rw [varint_r] at h
  cases b with
  | nil => simp at h
  | cons b0 rest =>
    simp only [] at h
    split at h
    · simp at h; rw [← h.2]; simp
    · split at h
      · simp at h; rw [← h.2]; simp; omega
      · simp at h

theorem NonIncr.varint (s : Bool) : NonIncr (varint s) := (Strict.varint s).nonIncr

theorem AllocC.varint (s : Bool) : AllocC 8 (varint s) := by
  intro b; have := varint_alloc s b; split at this <;> omega

theorem AllocB.varint0 : AllocB 0 (varint false) := by
  intro b
  have ha := varint_alloc false b
  simp at ha
  have hs := Strict.varint false b
  cases h : (C32.varint false b).r with
  | ok v r => have := hs v r h; simp only [Res.restLen]; omega
  | err e => simp only [Res.restLen]; omega
  | panic => simp only [Res.restLen]; omega

theorem AllocB.varint (s : Bool) : AllocB 8 (varint s) := by
  intro b
  have ha := AllocC.varint s b
  have hs := Strict.varint s b
  cases h : (C32.varint s b).r with
  | ok v r => have := hs v r h; simp only [Res.restLen]; omega
  | err e => simp only [Res.restLen]; omega
  | panic => simp only [Res.restLen]; omega

theorem varintLen_range (v : Nat) : 1 ≤ varintLen v ∧ varintLen v ≤ 9 := by
  unfold varintLen; repeat' split
  all_goals omega

/-- size table of the encoder (`MarshalSize`) -/
theorem encVarint_length (v : Nat) : (encVarint v).length = varintLen v := by
  have := varintLen_range v
  simp [encVarint, beBytes_length]; omega

theorem varintLen_spec (v : Nat) (hv : v < 2 ^ 64) :
    (varintLen v = 1 ∧ v < 2 ^ 7) ∨ (varintLen v = 2 ∧ 2 ^ 7 ≤ v ∧ v < 2 ^ 14) ∨
    (varintLen v = 3 ∧ 2 ^ 14 ≤ v ∧ v < 2 ^ 21) ∨ (varintLen v = 4 ∧ 2 ^ 21 ≤ v ∧ v < 2 ^ 28) ∨
    (varintLen v = 5 ∧ 2 ^ 28 ≤ v ∧ v < 2 ^ 35) ∨ (varintLen v = 6 ∧ 2 ^ 35 ≤ v ∧ v < 2 ^ 42) ∨
    (varintLen v = 7 ∧ 2 ^ 42 ≤ v ∧ v < 2 ^ 49) ∨ (varintLen v = 8 ∧ 2 ^ 49 ≤ v ∧ v < 2 ^ 56) ∨
    (varintLen v = 9 ∧ 2 ^ 56 ≤ v ∧ v < 2 ^ 64) := by
  unfold varintLen
  repeat' split
  all_goals omega

theorem sizeOfFirst_spec (f n lo hi : Nat)
    (hn : (n, lo, hi) ∈ [(1, 0, 128), (2, 128, 192), (3, 192, 224), (4, 224, 240), (5, 240, 248),
      (6, 248, 252), (7, 252, 254), (8, 254, 255), (9, 255, 256)])
    (h1 : lo ≤ f) (h2 : f < hi) : sizeOfFirst f = n := by
  simp only [List.mem_cons, Prod.mk.injEq, List.not_mem_nil, or_false] at hn
  unfold sizeOfFirst
  rcases hn with h | h | h | h | h | h | h | h | h
  all_goals (obtain ⟨rfl, rfl, rfl⟩ := h; repeat' split)
  all_goals omega

theorem first_ok (v : Nat) (hv : v < 2 ^ 64) :
    prefixOf (varintLen v) + v / 256 ^ (varintLen v - 1) < 256 ∧
    sizeOfFirst (prefixOf (varintLen v) + v / 256 ^ (varintLen v - 1)) = varintLen v ∧
    (prefixOf (varintLen v) + v / 256 ^ (varintLen v - 1) - prefixOf (varintLen v))
        * 256 ^ (varintLen v - 1) + v % 256 ^ (varintLen v - 1) = v := by
  rcases varintLen_spec v hv with h | h | h | h | h | h | h | h | h
  all_goals (obtain ⟨hn, hr⟩ := h; rw [hn]; simp only [prefixOf, Nat.reducePow, Nat.reduceSub] at hr ⊢)
  · exact ⟨by omega, sizeOfFirst_spec _ 1 0 128 (by simp) (by omega) (by omega), by omega⟩
  · exact ⟨by omega, sizeOfFirst_spec _ 2 128 192 (by simp) (by omega) (by omega), by omega⟩
  · exact ⟨by omega, sizeOfFirst_spec _ 3 192 224 (by simp) (by omega) (by omega), by omega⟩
  · exact ⟨by omega, sizeOfFirst_spec _ 4 224 240 (by simp) (by omega) (by omega), by omega⟩
  · exact ⟨by omega, sizeOfFirst_spec _ 5 240 248 (by simp) (by omega) (by omega), by omega⟩
  · exact ⟨by omega, sizeOfFirst_spec _ 6 248 252 (by simp) (by omega) (by omega), by omega⟩
  · exact ⟨by omega, sizeOfFirst_spec _ 7 252 254 (by simp) (by omega) (by omega), by omega⟩
  · exact ⟨by omega, sizeOfFirst_spec _ 8 254 255 (by simp) (by omega) (by omega), by omega⟩
  · exact ⟨by omega, sizeOfFirst_spec _ 9 255 256 (by simp) (by omega) (by omega), by omega⟩

/-- **varint round trip**, every `v < 2^64` -/
theorem varint_rt (s : Bool) (v : Nat) (hv : v < 2 ^ 64) (tail : Bytes) :
    (varint s (encVarint v ++ tail)).r = .ok v tail := by
  rw [varint_r]
  obtain ⟨h1, h2, h3⟩ := first_ok v hv
  have hb := beBytes_length (varintLen v - 1) v
  simp only [encVarint, List.cons_append, UInt8.toNat_ofNat', Nat.reducePow, Nat.mod_eq_of_lt h1, h2,
    List.length_append, hb, List.take_left' hb, List.drop_left' hb, beNat_beBytes]
  by_cases hn : varintLen v = 1
  · rw [hn] at h3
    simp [prefixOf] at h3
    simp [hn, beBytes, prefixOf]
  · simp only [hn, if_false, Nat.le_add_right, if_true]
    rw [h3]

/-! ### bytesLP -/

theorem bytesLP_r (max : Nat) (mode : AllocMode) (s : Bool) (b : Bytes) :
    (bytesLP max mode s b).r = match (varint s b).r with
      | .ok n rest =>
        if n ≤ max then (if n ≤ rest.length then .ok (rest.take n) (rest.drop n) else .err .short)
        else .err .tooLarge
      | .err e => .err e
      | .panic => .panic := by
  simp only [bytesLP, bind_eq, bind_r]
  cases h : (C32.varint s b).r with
  | ok n rest =>
    simp only [guardD_r, decide_eq_true_eq]
    by_cases h1 : n ≤ max
    · by_cases h2 : n ≤ rest.length <;> simp [h1, h2, bind_r]
    · simp [h1]
  | err e => simp
  | panic => simp

theorem bytesLP_alloc (max : Nat) (mode : AllocMode) (s : Bool) (b : Bytes) :
    (bytesLP max mode s b).alloc = (varint s b).alloc + match (varint s b).r with
      | .ok n rest =>
        if n ≤ max then (if mode = .pre then n else 0) +
          (if n ≤ rest.length then (if mode = .post then n else 0) else 0)
        else 0
      | _ => 0 := by
  simp only [bytesLP, bind_eq, bind_r, bind_alloc]
  cases h : (C32.varint s b).r with
  | ok n rest =>
    simp only [guardD_r, guardD_alloc, decide_eq_true_eq]
    by_cases h1 : n ≤ max
    · by_cases h2 : n ≤ rest.length <;> simp [h1, h2, bind_r, bind_alloc]
    · simp [h1]
  | err e => simp
  | panic => simp

theorem Total.bytesLP (max : Nat) (mode : AllocMode) (s : Bool) : Total (bytesLP max mode s) := by
  intro b
  rw [bytesLP_r]
  cases h : (C32.varint s b).r with
  | ok n rest => simp only []; repeat' split <;> simp
  | err e => simp
  | panic => exact absurd h (Total.varint s b)

theorem Strict.bytesLP (max : Nat) (mode : AllocMode) (s : Bool) : Strict (bytesLP max mode s) := by
  intro b v r h
  rw [bytesLP_r] at h
  cases hv : (C32.varint s b).r with
  | ok n rest =>
    have := Strict.varint s b n rest hv
    rw [hv] at h
    simp only [] at h
    split at h
    · split at h
      · simp at h; rw [← h.2]; simp; omega
      · simp at h
    · simp at h
  | err e => rw [hv] at h; simp at h
  | panic => rw [hv] at h; simp at h

theorem NonIncr.bytesLP (max : Nat) (mode : AllocMode) (s : Bool) : NonIncr (bytesLP max mode s) :=
  (Strict.bytesLP max mode s).nonIncr

/-- on success the returned bytes respect the limit -/
theorem bytesLP_le (max : Nat) (mode : AllocMode) (s : Bool) (b v r : Bytes)
    (h : (bytesLP max mode s b).r = .ok v r) : v.length ≤ max := by
  rw [bytesLP_r] at h
  cases hv : (C32.varint s b).r with
  | ok n rest =>
    rw [hv] at h
    simp only [] at h
    split at h
    · split at h
      · simp at h; rw [← h.1]; simp; omega
      · simp at h
    · simp at h
  | err e => rw [hv] at h; simp at h
  | panic => rw [hv] at h; simp at h

theorem AllocB.bytesLP (max : Nat) (mode : AllocMode) (s : Bool) :
    AllocB (8 + if mode = .pre then max else 0) (bytesLP max mode s) := by
  intro b
  rw [bytesLP_r, bytesLP_alloc]
  have ha := AllocC.varint s b
  cases hv : (C32.varint s b).r with
  | ok n rest =>
    have := Strict.varint s b n rest hv
    simp only []
    by_cases h1 : n ≤ max
    · by_cases h2 : n ≤ rest.length
      · simp only [h1, h2, if_true, Res.restLen, List.length_drop]
        cases mode <;> simp <;> omega
      · simp only [h1, h2, if_true, if_false, Res.restLen]
        cases mode <;> simp <;> omega
    · simp only [h1, if_false, Res.restLen]; omega
  | err e => simp only [Res.restLen]; omega
  | panic => simp only [Res.restLen]; omega

theorem AllocB.bytesLP0 (max : Nat) (mode : AllocMode) (hm : mode ≠ .pre) :
    AllocB 0 (C32.bytesLP max mode false) := by
  intro b
  rw [bytesLP_r, bytesLP_alloc]
  have ha := varint_alloc false b
  simp at ha
  cases hv : (C32.varint false b).r with
  | ok n rest =>
    have := Strict.varint false b n rest hv
    simp only []
    by_cases h1 : n ≤ max
    · by_cases h2 : n ≤ rest.length
      · simp only [h1, h2, if_true, Res.restLen, List.length_drop]
        cases mode <;> simp at hm ⊢ <;> omega
      · simp only [h1, h2, if_true, if_false, Res.restLen]
        cases mode <;> simp at hm ⊢ <;> omega
    · simp only [h1, if_false, Res.restLen]; omega
  | err e => simp only [Res.restLen]; omega
  | panic => simp only [Res.restLen]; omega

theorem AllocC.bytesLP (max : Nat) (s : Bool) : AllocC (8 + max) (bytesLP max .pre s) := by
  intro b
  rw [bytesLP_alloc]
  have ha := AllocC.varint s b
  cases hv : (C32.varint s b).r with
  | ok n rest =>
    simp only []
    by_cases h1 : n ≤ max
    · by_cases h2 : n ≤ rest.length <;> simp [h1, h2] <;> omega
    · simp [h1]; omega
  | err e => simp only []; omega
  | panic => simp only []; omega

/-- round trip of a length-prefixed byte string -/
theorem bytesLP_rt (max : Nat) (mode : AllocMode) (s : Bool) (v tail : Bytes)
    (h1 : v.length ≤ max) (h2 : v.length < 2 ^ 64) :
    (bytesLP max mode s (encBytesLP v ++ tail)).r = .ok v tail := by
  rw [bytesLP_r]
  simp only [encBytesLP, List.append_assoc]
  rw [varint_rt s _ h2]
  simp [h1]

/-! ### repeatN / listLP / pair / tagged -/

theorem Total.repeatN {d : Dec α} (h : Total d) (n : Nat) : Total (repeatN d n) := by
  induction n with
  | zero => exact Total.pure _
  | succ k ih =>
    simp only [C32.repeatN, bind_eq, pure_eq]
    exact Total.bind h fun _ => Total.bind ih fun _ => Total.pure _

theorem NonIncr.repeatN {d : Dec α} (h : NonIncr d) (n : Nat) : NonIncr (repeatN d n) := by
  induction n with
  | zero => exact NonIncr.pure _
  | succ k ih =>
    simp only [C32.repeatN, bind_eq, pure_eq]
    exact NonIncr.bind h fun _ => NonIncr.bind ih fun _ => NonIncr.pure _

theorem AllocB.repeatN {d : Dec α} (h : AllocB 0 d) (n : Nat) : AllocB 0 (repeatN d n) := by
  induction n with
  | zero => exact AllocB.pure _
  | succ k ih =>
    simp only [C32.repeatN, bind_eq, pure_eq]
    exact AllocB.bind h fun _ => AllocB.bind ih fun _ => AllocB.pure _

theorem repeatN_rt {e : α → Bytes} {d : Dec α} {wf : α → Prop} (h : RT e d wf) (l : List α)
    (hl : ∀ x ∈ l, wf x) (tail : Bytes) :
    (repeatN d l.length (l.flatMap e ++ tail)).r = .ok l tail := by
  induction l with
  | nil => simp [C32.repeatN]
  | cons x xs ih =>
    simp only [List.length_cons, C32.repeatN, bind_eq, pure_eq, List.flatMap_cons, List.append_assoc]
    rw [bind_ok (h x _ (hl x (by simp)))]
    rw [bind_ok (ih fun y hy => hl y (by simp [hy]))]
    simp

/-- on success `repeatN` returns exactly `n` elements -/
theorem repeatN_length {d : Dec α} (n : Nat) (b : Bytes) (v : List α) (r : Bytes)
    (h : (repeatN d n b).r = .ok v r) : v.length = n := by
  induction n generalizing b v r with
  | zero => simp [C32.repeatN] at h; rw [h.1]; rfl
  | succ k ih =>
    simp only [C32.repeatN, bind_eq, pure_eq, bind_r] at h
    cases h1 : (d b).r with
    | ok x rest =>
      rw [h1] at h; simp only [] at h
      cases h2 : (C32.repeatN d k rest).r with
      | ok xs rest2 =>
        rw [h2] at h; simp at h
        rw [← h.1]; simp [ih rest xs rest2 h2]
      | err e => rw [h2] at h; simp at h
      | panic => rw [h2] at h; simp at h
    | err e => rw [h1] at h; simp at h
    | panic => rw [h1] at h; simp at h

theorem Total.listLP (max sz : Nat) {d : Dec α} (h : Total d) : Total (listLP max sz d) := by
  simp only [C32.listLP, bind_eq]
  exact Total.bind (Total.varint _) fun _ => Total.bind (Total.guardD _ _) fun _ =>
    Total.bind (Total.allocD _) fun _ => Total.repeatN h _

theorem NonIncr.listLP (max sz : Nat) {d : Dec α} (h : NonIncr d) : NonIncr (listLP max sz d) := by
  simp only [C32.listLP, bind_eq]
  exact NonIncr.bind (NonIncr.varint _) fun _ => NonIncr.bind (NonIncr.guardD _ _) fun _ =>
    NonIncr.bind (NonIncr.allocD _) fun _ => NonIncr.repeatN h _

/-- the `make([]T, count)` of a counted list is bounded because the count check precedes it -/
theorem AllocB.listLP (max sz : Nat) {d : Dec α} (h : AllocB 0 d) :
    AllocB (sz * max) (listLP max sz d) := by
  intro b
  simp only [C32.listLP, bind_eq, bind_r, bind_alloc]
  have ha := AllocB.varint0 b
  cases hv : (C32.varint false b).r with
  | ok n rest =>
    rw [hv] at ha
    simp only [Res.restLen] at ha
    simp only [guardD_r, guardD_alloc, decide_eq_true_eq]
    by_cases h1 : n ≤ max
    · simp only [h1, if_true, allocD_r, allocD_alloc]
      have hr := AllocB.repeatN h n rest
      have : sz * n ≤ sz * max := Nat.mul_le_mul_left _ h1
      generalize (C32.repeatN d n rest).alloc = ar at hr ⊢
      generalize (C32.repeatN d n rest).r.restLen = rr at hr ⊢
      generalize sz * n = x at this ⊢
      generalize sz * max = y at this ⊢
      generalize (C32.varint false b).alloc = av at ha ⊢
      generalize rest.length = rl at ha hr ⊢
      generalize b.length = bl at ha ⊢
      show av + (0 + (x + ar)) + 128 * rr ≤ 128 * bl + y
      omega
    · simp only [h1, if_false, Res.restLen]; omega
  | err e => rw [hv] at ha; simp only [Res.restLen] at ha ⊢; omega
  | panic => rw [hv] at ha; simp only [Res.restLen] at ha ⊢; omega

theorem listLP_rt (max sz : Nat) {e : α → Bytes} {d : Dec α} {wf : α → Prop} (h : RT e d wf) :
    RT (encListLP e) (listLP max sz d) (fun l => l.length ≤ max ∧ l.length < 2 ^ 64 ∧ ∀ x ∈ l, wf x) := by
  intro l tail ⟨h1, h2, h3⟩
  simp only [C32.listLP, bind_eq, encListLP, List.append_assoc]
  rw [bind_ok (varint_rt false _ h2 _)]
  simp only [bind_r, guardD_r, decide_eq_true_eq, h1, if_true, allocD_r]
  exact repeatN_rt h l h3 tail

theorem listLP_le (max sz : Nat) {d : Dec α} (b : Bytes) (v : List α) (r : Bytes)
    (h : (listLP max sz d b).r = .ok v r) : v.length ≤ max := by
  simp only [C32.listLP, bind_eq, bind_r] at h
  cases hv : (C32.varint false b).r with
  | ok n rest =>
    rw [hv] at h
    simp only [guardD_r, decide_eq_true_eq] at h
    by_cases h1 : n ≤ max
    · simp only [h1, if_true, allocD_r] at h
      rw [repeatN_length n rest v r h]; exact h1
    · simp [h1] at h
  | err e => rw [hv] at h; simp at h
  | panic => rw [hv] at h; simp at h

theorem Total.pair {d1 : Dec α} {d2 : Dec β} (h1 : Total d1) (h2 : Total d2) : Total (pair d1 d2) := by
  simp only [C32.pair, bind_eq, pure_eq]
  exact Total.bind h1 fun _ => Total.bind h2 fun _ => Total.pure _

theorem NonIncr.pair {d1 : Dec α} {d2 : Dec β} (h1 : NonIncr d1) (h2 : NonIncr d2) :
    NonIncr (pair d1 d2) := by
  simp only [C32.pair, bind_eq, pure_eq]
  exact NonIncr.bind h1 fun _ => NonIncr.bind h2 fun _ => NonIncr.pure _

theorem AllocB.pair {d1 : Dec α} {d2 : Dec β} {B1 B2 : Nat} (h1 : AllocB B1 d1) (h2 : AllocB B2 d2) :
    AllocB (B1 + B2) (pair d1 d2) := by
  simp only [C32.pair, bind_eq, pure_eq]
  exact AllocB.bind h1 fun _ => (AllocB.bind h2 fun _ => AllocB.pure _)

theorem AllocC.pair {d1 : Dec α} {d2 : Dec β} {K1 K2 : Nat} (h1 : AllocC K1 d1) (h2 : AllocC K2 d2) :
    AllocC (K1 + K2) (pair d1 d2) := by
  simp only [C32.pair, bind_eq, pure_eq]
  exact AllocC.bind h1 fun _ => (AllocC.bind h2 fun _ => AllocC.pure _)

theorem pair_rt {e1 : α → Bytes} {e2 : β → Bytes} {d1 : Dec α} {d2 : Dec β} {w1 : α → Prop}
    {w2 : β → Prop} (h1 : RT e1 d1 w1) (h2 : RT e2 d2 w2) :
    RT (fun p => e1 p.1 ++ e2 p.2) (pair d1 d2) (fun p => w1 p.1 ∧ w2 p.2) := by
  intro p tail ⟨ha, hb⟩
  simp only [C32.pair, bind_eq, pure_eq, List.append_assoc]
  rw [bind_ok (h1 p.1 _ ha), bind_ok (h2 p.2 _ hb)]
  simp

theorem Total.tagged {tag : Dec τ} {sel : τ → Option (Dec α)} (h1 : Total tag)
    (h2 : ∀ t d, sel t = some d → Total d) : Total (tagged tag sel) := by
  simp only [C32.tagged, bind_eq]
  refine Total.bind h1 fun t => ?_
  cases h : sel t with
  | none => exact Total.fail _
  | some d => exact h2 t d h

theorem AllocC.tagged {tag : Dec τ} {sel : τ → Option (Dec α)} {K1 K2 : Nat} (h1 : AllocC K1 tag)
    (h2 : ∀ t d, sel t = some d → AllocC K2 d) : AllocC (K1 + K2) (tagged tag sel) := by
  simp only [C32.tagged, bind_eq]
  refine AllocC.bind h1 fun t => ?_
  cases h : sel t with
  | none => exact (AllocC.fail _).mono (Nat.zero_le _)
  | some d => exact h2 t d h

/-- round trip of a tagged union: the tag of `v` selects a decoder that round-trips `v` -/
theorem tagged_rt {tag : Dec τ} {sel : τ → Option (Dec α)} {etag : τ → Bytes} {wt : τ → Prop}
    (ht : RT etag tag wt) (t : τ) (d : Dec α) (hs : sel t = some d) (hw : wt t)
    (body : Bytes) (v : α) (tail : Bytes) (hd : (d (body ++ tail)).r = .ok v tail) :
    (tagged tag sel (etag t ++ body ++ tail)).r = .ok v tail := by
  simp only [C32.tagged, bind_eq, List.append_assoc]
  rw [bind_ok (ht t _ hw), hs]
  exact hd

/-! ### pointwise / refined bind rules -/

theorem bind_ne_panic {d : Dec α} {f : α → Dec β} {b : Bytes} (hd : (d b).r ≠ .panic)
    (hf : ∀ v r, (d b).r = .ok v r → (f v r).r ≠ .panic) : (Dec.bind d f b).r ≠ .panic := by
  rw [bind_r]
  cases h : (d b).r with
  | ok v rest => exact hf v rest h
  | err e => simp
  | panic => exact absurd h hd

/-- a leading decoder that allocates nothing and consumes at least one byte pays for up to `A` bytes
allocated by what follows -/
theorem AllocB.bindStrict {d : Dec α} {f : α → Dec β} (h0 : ∀ b, (d b).alloc = 0) (hs : Strict d)
    (h2 : ∀ v, AllocB A (f v)) : AllocB 0 (Dec.bind d f) := by
  intro b
  rw [bind_r, bind_alloc, h0 b]
  cases hd : (d b).r with
  | ok w rest =>
    have a2 := h2 w rest
    have := hs b w rest hd
    show 0 + (f w rest).alloc + 128 * (f w rest).r.restLen ≤ 128 * b.length + 0
    omega
  | err e => simp only [Res.restLen]; omega
  | panic => simp only [Res.restLen]; omega

/-- `AllocC.bind` where the continuation may use that the first decoder succeeded -/
theorem AllocC.bindOk {d : Dec α} {f : α → Dec β} {K1 K2 : Nat} (h1 : AllocC K1 d)
    (h2 : ∀ b v r, (d b).r = .ok v r → AllocC K2 (f v)) : AllocC (K1 + K2) (Dec.bind d f) := by
  intro b
  rw [bind_alloc]
  have a1 := h1 b
  cases hd : (d b).r with
  | ok w rest => have a2 := h2 b w rest hd rest; simp only []; omega
  | err e => simp only []; omega
  | panic => simp only []; omega

theorem AllocB.onBytes {inner : Dec α} {K : Nat} (h : AllocC K inner) (sub : Bytes) :
    AllocB K (onBytes inner sub) := by
  intro b
  rw [onBytes_alloc, onBytes_r]
  have := h sub
  cases hi : (inner sub).r with
  | ok v r => simp only [Res.restLen]; omega
  | err e => simp only [Res.restLen]; omega
  | panic => simp only [Res.restLen]; omega

theorem Total.map {d : Dec α} (f : α → β) (h : Total d) : Total (Dec.map f d) :=
  Total.bind h fun _ => Total.pure _
theorem NonIncr.map {d : Dec α} (f : α → β) (h : NonIncr d) : NonIncr (Dec.map f d) :=
  NonIncr.bind h fun _ => NonIncr.pure _
theorem AllocB.map {d : Dec α} {B : Nat} (f : α → β) (h : AllocB B d) : AllocB B (Dec.map f d) := by
  have := AllocB.bind h fun v => AllocB.pure (f v)
  exact this
theorem map_ok {d : Dec α} {f : α → β} {b : Bytes} {v : α} {rest : Bytes}
    (h : (d b).r = .ok v rest) : (Dec.map f d b).r = .ok (f v) rest := by
  unfold Dec.map; rw [bind_ok h]; rfl

theorem AllocC.zero_of_alloc {d : Dec α} (h : ∀ b, (d b).alloc = 0) : AllocC 0 d := by
  intro b; rw [h b]; exact Nat.le_refl _

theorem varint_alloc0 (b : Bytes) : (varint false b).alloc = 0 := by
  have := varint_alloc false b; simp at this; exact this

theorem crash_r (b : Bytes) : (Dec.crash b : Out α).r = .panic := rfl
theorem crash_alloc (b : Bytes) : (Dec.crash b : Out α).alloc = 0 := rfl

end MtxVerif.C32
