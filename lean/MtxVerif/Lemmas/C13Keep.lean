/-
C13 — second half of the property (components none of whose parameters changed keep running) and the
converse results: an uncovered constructor field / an identity comparison really breaks the property.
-/
import MtxVerif.Lemmas.C13Main

namespace MtxVerif.C13

theorem tight_cons {r : Row} {E : List Row} (h : tight (r :: E) = true) :
    (∀ c ∈ r.cmp, c.field ∈ r.reads ++ r.guard) ∧ (∀ d ∈ r.deps, d ∈ r.refs) ∧
    (∀ rl ∈ r.reloads, rl.field ∈ r.reads ∧ rl.kind = .value) ∧ tight E = true := by
  simp only [tight, Bool.and_eq_true, List.all_eq_true] at h
  obtain ⟨⟨⟨h1, h2⟩, h3⟩, h4⟩ := h
  refine ⟨fun c hc => List.contains_iff_mem.mp (h1 c hc),
          fun d hd => List.contains_iff_mem.mp (h2 d hd), ?_, h4⟩
  intro rl hrl
  have := h3 rl hrl
  simp only [beq_iff_eq] at this
  exact ⟨List.contains_iff_mem.mp this.1, this.2⟩

/-- under `tight`, everything k's close closure compares is a parameter of k -/
theorem cmpClosure_sub_param : ∀ (L : List Row) (k : Nat), tight L = true →
    ∀ c ∈ cmpClosure L k, c.field ∈ paramClosure L k
  | [], _, _, c, h => by simp [cmpClosure] at h
  | r :: E, k, ht, c, h => by
    obtain ⟨hcmp, hdeps, _, htE⟩ := tight_cons ht
    by_cases hk : k = r.comp
    · simp only [cmpClosure, hk, if_true, List.mem_append, List.mem_flatMap] at h
      simp only [paramClosure, hk, if_true, List.mem_append, List.mem_flatMap]
      rcases h with h | ⟨d, hd, hc⟩
      · left; exact List.mem_append.mp (hcmp c h)
      · right; exact ⟨d, hdeps d hd, cmpClosure_sub_param E d htE c hc⟩
    · simp only [cmpClosure, hk, if_false] at h
      simp only [paramClosure, hk, if_false]
      exact cmpClosure_sub_param E k htE c h

theorem own_sub_param : ∀ (L : List Row), wfl L = true → ∀ r ∈ L,
    ∀ f ∈ r.reads ++ r.guard, f ∈ paramClosure L r.comp
  | [], _, r, h, _, _ => by cases h
  | r0 :: E, hw, r, h, f, hf => by
    obtain ⟨hnot, _, _, hwE⟩ := wfl_cons hw
    rcases List.mem_cons.mp h with h | h
    · subst h
      simp only [paramClosure, if_true, List.mem_append]
      left; exact List.mem_append.mp hf
    · have hne : r.comp ≠ r0.comp := fun e => hnot (e ▸ mem_comps_of_mem h)
      simp only [paramClosure, hne, if_false]
      exact own_sub_param E hwE r h f hf

theorem tight_row : ∀ (L : List Row), tight L = true → ∀ r ∈ L,
    ∀ rl ∈ r.reloads, rl.field ∈ r.reads ∧ rl.kind = .value
  | [], _, r, h, _, _ => by cases h
  | r0 :: E, ht, r, h, rl, hrl => by
    obtain ⟨_, _, hr0, htE⟩ := tight_cons ht
    rcases List.mem_cons.mp h with h | h
    · subst h; exact hr0 rl hrl
    · exact tight_row E htE r h rl hrl

/-- `keeps_unchanged`: a component none of whose parameters (own constructor fields, guard, and the
parameters of the components it points to, transitively) changed value is the SAME instance after
the reload — provided no pointer that its close closure compares by identity changed address. -/
theorem keeps_unchanged (gaps : List (Nat × Nat)) (G : Nat → (Nat → Nat) → Bool) (L : List Row)
    (hw : wfl L = true) (ht : tight L = true) (hG : GuardDet G L)
    (s : St) (new : Conf) (hs : Consistent gaps G L s) (r : Row) (hr : r ∈ L)
    (hsame : ∀ f ∈ paramClosure L r.comp, s.conf.val f = new.val f)
    (hid : ∀ f ∈ identityClosure L r.comp, s.conf.addr f = new.addr f) :
    (reload G L s new).run r.comp = s.run r.comp := by
  let old := s.conf
  let fl := flags old new L
  let g : Nat → Bool := fun k => G k new.val
  let s1 : St := { conf := new, run := midRun old new fl s.run L, next := s.next,
                   panicked := s.panicked || panics old new fl s.run L }
  have hs' : reload G L s new = createAll g L s1 := rfl
  -- the flag stays down
  have hfl : fl r.comp = false := by
    cases h : fl r.comp with
    | false => rfl
    | true =>
      exfalso
      obtain ⟨c, hcm, hd⟩ := cmp_of_flags old new L r.comp h
      have hp := cmpClosure_sub_param L r.comp ht c hcm
      cases hk : c.kind with
      | value =>
        rw [hk] at hd
        simp only [differs, bne_iff_ne, ne_eq] at hd
        exact hd (hsame _ hp)
      | identity =>
        rw [hk] at hd
        simp only [differs, bne_iff_ne, ne_eq] at hd
        apply hd
        apply hid
        simp only [identityClosure, List.mem_map, List.mem_filter, beq_iff_eq]
        exact ⟨c, ⟨hcm, hk⟩, rfl⟩
      | unknown => rw [hk] at hd; simp [differs] at hd
  -- in-place reloads do nothing
  have hpatch : ∀ i, patch old new r i = i := by
    intro i
    have : (fun f => if r.reloads.any (fun rl => rl.field == f && differs old new f rl.kind)
              then new.val f else i.args f) = i.args := by
      funext f
      split
      · rename_i hany
        obtain ⟨rl, hrl, h2⟩ := List.any_eq_true.mp hany
        simp only [Bool.and_eq_true, beq_iff_eq] at h2
        obtain ⟨hrd, hv⟩ := tight_row L ht r hr rl hrl
        rw [hv] at h2
        have hf : f ∈ paramClosure L r.comp :=
          own_sub_param L hw r hr f (List.mem_append.mpr (Or.inl (h2.1 ▸ hrd)))
        have := h2.2
        simp only [differs, bne_iff_ne, ne_eq] at this
        exact absurd (hsame f hf) this
      · rfl
    simp only [patch, this]
  have hm : s1.run r.comp = s.run r.comp := by
    show midRun old new fl s.run L r.comp = _
    rw [midRun_mem old new fl s.run L hw r hr, hfl]
    cases h : s.run r.comp with
    | none => simp
    | some i => simp [hpatch]
  have sp := createAll_spec g L s1 hw r hr
  rw [hs']
  cases h : s.run r.comp with
  | some i => rw [h] at hm; exact sp.keep i hm
  | none =>
    rw [h] at hm
    apply sp.off hm
    have h1 : G r.comp old.val = false := by
      have := hs.guard r hr
      rw [h] at this; exact this.symm
    show G r.comp new.val = false
    rw [← hG r hr old.val new.val (fun f hf =>
      hsame f (own_sub_param L hw r hr f (List.mem_append.mpr (Or.inr hf))))]
    exact h1

/-! ### converses: the side conditions are necessary -/

def allOn : Nat → (Nat → Nat) → Bool := fun _ _ => true

theorem allOn_det (L : List Row) : GuardDet allOn L := fun _ _ _ _ _ => rfl
theorem allOn_true (L : List Row) : GuardTrue allOn L := fun _ _ _ _ => rfl

def conf0 : Conf := { val := fun _ => 0, addr := fun _ => 0 }
/-- only field f gets a new value (and, being a new object, a new address) -/
def confFlip (f : Nat) : Conf :=
  { val := fun x => if x = f then 1 else 0, addr := fun x => if x = f then 1 else 0 }
/-- same values everywhere, but the object holding field f was re-allocated -/
def confRealloc (f : Nat) : Conf :=
  { val := fun _ => 0, addr := fun x => if x = f then 1 else 0 }

theorem wfconf_flip (f : Nat) : WFConf conf0 (confFlip f) := by
  intro x h
  simp only [conf0, confFlip] at h ⊢
  split at h
  · cases h
  · rename_i hx; simp [hx]

theorem wfconf_realloc (f : Nat) : WFConf conf0 (confRealloc f) := fun _ _ => rfl

/-- If component r reads field f in its constructor but f is neither compared by r's close closure
nor reloaded in place, then there is a reload (from a consistent state, between well-formed
configurations differing exactly in f) after which r still runs with the OLD value of f. -/
theorem gap_is_stale (L : List Row) (hw : wfl L = true) (r : Row) (hr : r ∈ L) (f : Nat)
    (hread : f ∈ r.reads)
    (hnc : coveredByClose L r.comp f = false) (hnr : coveredByReload r f = false) :
    ∃ i, (reload allOn L (boot allOn L conf0) (confFlip f)).run r.comp = some i ∧
      i.args f ≠ (confFlip f).val f := by
  let s := boot allOn L conf0
  have hs : Consistent [] allOn L s := boot_consistent [] allOn L hw conf0
  have hsc : s.conf = conf0 := createAll_conf _ L _
  let new := confFlip f
  let fl := flags s.conf new L
  let g : Nat → Bool := fun k => allOn k new.val
  let s1 : St := { conf := new, run := midRun s.conf new fl s.run L, next := s.next,
                   panicked := s.panicked || panics s.conf new fl s.run L }
  have hs' : reload allOn L s new = createAll g L s1 := rfl
  -- r runs in s, built with value 0
  have hrun : (s.run r.comp).isSome = true := by rw [hs.guard r hr]; rfl
  obtain ⟨i0, hi0⟩ := Option.isSome_iff_exists.mp hrun
  have harg : i0.args f = 0 := by
    have := hs.args r hr i0 hi0 f hread (by simp)
    rw [this, hsc]; rfl
  -- only f differs, in value and in address
  have hdiff : ∀ (x : Nat) (k : CmpKind), differs s.conf new x k = true → x = f ∧ detects k = true := by
    intro x k h
    rw [hsc] at h
    cases k with
    | value =>
      simp only [differs, conf0, new, confFlip, bne_iff_ne, ne_eq] at h
      by_cases hx : x = f
      · exact ⟨hx, rfl⟩
      · simp [hx] at h
    | identity =>
      simp only [differs, conf0, new, confFlip, bne_iff_ne, ne_eq] at h
      by_cases hx : x = f
      · exact ⟨hx, rfl⟩
      · simp [hx] at h
    | unknown => simp [differs] at h
  have hfl : fl r.comp = false := by
    cases h : fl r.comp with
    | false => rfl
    | true =>
      exfalso
      obtain ⟨c, hcm, hd⟩ := cmp_of_flags s.conf new L r.comp h
      obtain ⟨hx, hk⟩ := hdiff _ _ hd
      have : coveredByClose L r.comp f = true :=
        List.any_eq_true.mpr ⟨c, hcm, by simp [hx, hk]⟩
      rw [hnc] at this; cases this
  have hm : s1.run r.comp = some (patch s.conf new r i0) := by
    show midRun s.conf new fl s.run L r.comp = _
    rw [midRun_mem s.conf new fl s.run L hw r hr, hfl, hi0]; rfl
  have sp := createAll_spec g L s1 hw r hr
  refine ⟨patch s.conf new r i0, ?_, ?_⟩
  · show (reload allOn L s new).run r.comp = _
    rw [hs']; exact sp.keep _ hm
  · have hnp : (patch s.conf new r i0).args f = i0.args f := by
      simp only [patch]
      split
      · rename_i hany
        exfalso
        obtain ⟨rl, hrl, h2⟩ := List.any_eq_true.mp hany
        simp only [Bool.and_eq_true, beq_iff_eq] at h2
        obtain ⟨_, hk⟩ := hdiff _ _ h2.2
        have : coveredByReload r f = true :=
          List.any_eq_true.mpr ⟨rl, hrl, by simp [h2.1, hk]⟩
        rw [hnr] at this; cases this
      · rfl
    rw [hnp, harg]
    simp [confFlip]

/-- If r's own close predicate compares field f by pointer identity, then there is a reload between
configurations with IDENTICAL values (only the object holding f was re-allocated, as happens on every
re-parse or Clone of the configuration) that nevertheless replaces r by a new instance. -/
theorem identity_cmp_recreates (L : List Row) (hw : wfl L = true) (r : Row) (hr : r ∈ L) (f : Nat)
    (hid : ⟨f, .identity⟩ ∈ r.cmp) :
    ∃ i j, (boot allOn L conf0).run r.comp = some i ∧
      (reload allOn L (boot allOn L conf0) (confRealloc f)).run r.comp = some j ∧ i.id ≠ j.id := by
  let s := boot allOn L conf0
  have hs : Consistent [] allOn L s := boot_consistent [] allOn L hw conf0
  have hsc : s.conf = conf0 := createAll_conf _ L _
  let new := confRealloc f
  let fl := flags s.conf new L
  let g : Nat → Bool := fun k => allOn k new.val
  let s1 : St := { conf := new, run := midRun s.conf new fl s.run L, next := s.next,
                   panicked := s.panicked || panics s.conf new fl s.run L }
  have hs' : reload allOn L s new = createAll g L s1 := rfl
  have hrun : (s.run r.comp).isSome = true := by rw [hs.guard r hr]; rfl
  obtain ⟨i0, hi0⟩ := Option.isSome_iff_exists.mp hrun
  have hfl : fl r.comp = true := by
    have hc : (⟨f, .identity⟩ : Cmp) ∈ cmpClosure L r.comp := cmp_in_closure L hw r hr _ hid
    apply flags_of_cmp s.conf new L r.comp _ hc
    rw [hsc]
    simp [differs, conf0, new, confRealloc]
  have hm : s1.run r.comp = none := by
    show midRun s.conf new fl s.run L r.comp = _
    rw [midRun_mem s.conf new fl s.run L hw r hr, hfl]; rfl
  have sp := createAll_spec g L s1 hw r hr
  have hon : ((createAll g L s1).run r.comp).isSome = true := sp.on rfl
  obtain ⟨j, hj⟩ := Option.isSome_iff_exists.mp hon
  refine ⟨i0, j, hi0, by rw [hs']; exact hj, ?_⟩
  have h1 : i0.id < s.next := hs.ids r hr i0 hi0
  have h2 : s.next ≤ j.id := (sp.fresh hm j hj).2.2.1
  exact Nat.ne_of_lt (Nat.lt_of_lt_of_le h1 h2)
where
  cmp_in_closure : ∀ (E : List Row), wfl E = true → ∀ r ∈ E, ∀ c ∈ r.cmp, c ∈ cmpClosure E r.comp
    | [], _, r, h, _, _ => by cases h
    | r0 :: E', hw, r, h, c, hc => by
      obtain ⟨hnot, _, _, hwE⟩ := wfl_cons hw
      rcases List.mem_cons.mp h with h | h
      · subst h; simp [cmpClosure, hc]
      · have hne : r.comp ≠ r0.comp := fun e => hnot (e ▸ mem_comps_of_mem h)
        simp only [cmpClosure, hne, if_false]
        exact cmp_in_closure E' hwE r h c hc

end MtxVerif.C13
