/-
C29 — playback list/get return exactly the recorded media in range.  Property theorems.

list (∀ segment lists a recorder with a monotone clock writes):
  (`WF`: durations ≥ 0, starts and ends non-decreasing, adjacent segments that are not merged do not overlap)
* `concat_ordered`      output spans are time-ordered and pairwise disjoint
* `concat_cover`        every recorded segment lies inside one span (nothing recorded is missing)
* `concat_length`       #spans = 1 + #adjacent pairs that are not (same stream ∧ consecutive number): segments are
                        merged only when consecutive segments of one stream
* `concat_starts`       every span starts at the start of a recorded segment
* `dropBefore_spec`, `findSegments_start_spec`  the selection keeps a suffix starting at the segment that contains
                        `start`; everything dropped starts at or before `start`
* `clipStart_spec`, `clipEnd_spec`  clipping: spans stay ordered, lie inside the requested interval, the only span
                        that can be removed ends strictly before `start`
get:
* `walkSamples_spec`    the trun loop feeds the muxer exactly the samples before the first one at/after the cut-off
* `mux_emits`           muxer automaton: for one track fed samples with negative then non-negative timestamps, what
                        reaches the client is the window samples, preceded — only if the first of them is not a
                        random-access sample — by the samples since the last random-access point before the start
* `get_window_full` (the property clause "returns the samples whose timestamps fall in the window") is FALSE for
  the walk as coded: `get_window_witness`; with one track per segment the walk is the plain loop over all samples
  (`walkSeg_single_track`, `single_track_fed`).
-/
import MtxVerif.Model.C29

namespace MtxVerif.C29

/-! ### list: concatenation -/

def Entry.fin (e : Entry) : Int := e.start + e.dur
def Seg.fin (s : Seg) : Int := s.start + s.dur

/-- what a recorder with a monotone clock writes: non-negative durations, starts and ends non-decreasing, and two
adjacent segments that are NOT merged (different stream / not consecutive) do not overlap.  Consecutive segments of
one stream MAY overlap: the next one starts at the oldest pending sample, the previous one ends with the newest. -/
def WF : List Seg → Prop
  | [] => True
  | [a] => 0 ≤ a.dur
  | a :: b :: r => 0 ≤ a.dur ∧ a.start ≤ b.start ∧ a.fin ≤ b.fin ∧ (canConcat a b = false → a.fin ≤ b.start) ∧ WF (b :: r)

def Ordered (es : List Entry) : Prop := es.Pairwise (fun a b => a.fin ≤ b.start)

theorem wf_head_dur {a : Seg} {r : List Seg} (h : WF (a :: r)) : 0 ≤ a.dur := by
  cases r with
  | nil => exact h
  | cons b t => exact h.1

theorem concatGo_ne_nil (prev : Seg) (cur : Entry) (l : List Seg) : concatGo prev cur l ≠ [] := by
  induction l generalizing prev cur with
  | nil => simp [concatGo]
  | cons s r ih =>
    unfold concatGo
    split
    · exact ih _ _
    · simp

/-- every span of the result starts at or after the start of the span being built -/
theorem concatGo_starts_ge (l : List Seg) : ∀ (prev : Seg) (cur : Entry), WF (prev :: l) → cur.start ≤ prev.start →
    ∀ e ∈ concatGo prev cur l, cur.start ≤ e.start := by
  induction l with
  | nil => intro prev cur _ _ e he; simp [concatGo] at he; subst he; exact Int.le_refl _
  | cons s r ih =>
    intro prev cur hwf hcs e he
    obtain ⟨hd, hst, hfn, hbr, hwf'⟩ := hwf
    unfold concatGo at he
    split at he
    · exact ih s ⟨cur.start, s.start + s.dur - cur.start⟩ hwf' (by show cur.start ≤ s.start; omega) e he
    · rcases List.mem_cons.mp he with rfl | he
      · exact Int.le_refl _
      · have := ih s ⟨s.start, s.dur⟩ hwf' (Int.le_refl _) e he
        have : s.start ≤ e.start := this
        omega

/-- **time-ordered, non-overlapping** -/
theorem concatGo_ordered (l : List Seg) : ∀ (prev : Seg) (cur : Entry), WF (prev :: l) → cur.fin = prev.fin →
    cur.start ≤ prev.start → Ordered (concatGo prev cur l) := by
  induction l with
  | nil => intro prev cur _ _ _; simp [concatGo, Ordered]
  | cons s r ih =>
    intro prev cur hwf hfin hcs
    obtain ⟨hd, hst, hfn, hbr, hwf'⟩ := hwf
    unfold concatGo
    split
    · exact ih s _ hwf' (by unfold Entry.fin Seg.fin; simp; omega) (by show cur.start ≤ s.start; omega)
    · rename_i hnc
      have hs : prev.fin ≤ s.start := hbr (by simpa using hnc)
      unfold Ordered
      rw [List.pairwise_cons]
      refine ⟨?_, ih s ⟨s.start, s.dur⟩ hwf' rfl (Int.le_refl _)⟩
      intro e he
      have : s.start ≤ e.start := concatGo_starts_ge r s ⟨s.start, s.dur⟩ hwf' (Int.le_refl _) e he
      rw [hfin]; omega

theorem concat_ordered (segs : List Seg) (h : WF segs) : Ordered (concatenate segs) := by
  cases segs with
  | nil => simp [concatenate, Ordered]
  | cons s r => exact concatGo_ordered r s ⟨s.start, s.dur⟩ h rfl (Int.le_refl _)

/-- **nothing recorded is missing**: the span being built, and every later segment, end up inside one span -/
theorem concatGo_cover (l : List Seg) : ∀ (prev : Seg) (cur : Entry), WF (prev :: l) → cur.fin = prev.fin →
    cur.start ≤ prev.start →
    (∃ e ∈ concatGo prev cur l, e.start = cur.start ∧ cur.fin ≤ e.fin) ∧
    (∀ s ∈ l, ∃ e ∈ concatGo prev cur l, e.start ≤ s.start ∧ s.fin ≤ e.fin) := by
  induction l with
  | nil =>
    intro prev cur _ _ _
    exact ⟨⟨cur, by simp [concatGo], rfl, Int.le_refl _⟩, by intro s hs; cases hs⟩
  | cons s r ih =>
    intro prev cur hwf hfin hcs
    obtain ⟨hd, hst, hfn, hbr, hwf'⟩ := hwf
    unfold concatGo
    split
    · obtain ⟨⟨e, he, e1, e2⟩, i2⟩ := ih s ⟨cur.start, s.start + s.dur - cur.start⟩ hwf'
        (by unfold Entry.fin Seg.fin; simp; omega) (by show cur.start ≤ s.start; omega)
      have e2' : s.fin ≤ e.fin := by
        have : (⟨cur.start, s.start + s.dur - cur.start⟩ : Entry).fin = s.fin := by unfold Entry.fin Seg.fin; simp; omega
        rw [this] at e2; exact e2
      have e1' : e.start = cur.start := e1
      refine ⟨⟨e, he, e1', ?_⟩, ?_⟩
      · rw [hfin]; omega
      · intro x hx
        rcases List.mem_cons.mp hx with rfl | hx
        · exact ⟨e, he, by omega, e2'⟩
        · exact i2 x hx
    · obtain ⟨⟨e, he, e1, e2⟩, i2⟩ := ih s ⟨s.start, s.dur⟩ hwf' rfl (Int.le_refl _)
      refine ⟨⟨cur, List.mem_cons_self, rfl, Int.le_refl _⟩, ?_⟩
      intro x hx
      rcases List.mem_cons.mp hx with rfl | hx
      · exact ⟨e, List.mem_cons_of_mem _ he, by have : e.start = x.start := e1; omega, e2⟩
      · obtain ⟨e', he', h1, h2⟩ := i2 x hx
        exact ⟨e', List.mem_cons_of_mem _ he', h1, h2⟩

theorem concat_cover (segs : List Seg) (h : WF segs) :
    ∀ s ∈ segs, ∃ e ∈ concatenate segs, e.start ≤ s.start ∧ s.fin ≤ e.fin := by
  cases segs with
  | nil => intro s hs; cases hs
  | cons a r =>
    intro s hs
    obtain ⟨⟨e, he, e1, e2⟩, i2⟩ := concatGo_cover r a ⟨a.start, a.dur⟩ h rfl (Int.le_refl _)
    rcases List.mem_cons.mp hs with rfl | hs
    · exact ⟨e, he, by have : e.start = s.start := e1; omega, e2⟩
    · exact i2 s hs

/-- number of places where two adjacent segments are NOT (same stream ∧ consecutive numbers) -/
def breaks : Seg → List Seg → Nat
  | _, [] => 0
  | prev, s :: r => (if canConcat prev s then 0 else 1) + breaks s r

/-- **merge only consecutive segments of one stream**: one span per maximal run -/
theorem concatGo_length (l : List Seg) : ∀ (prev : Seg) (cur : Entry),
    (concatGo prev cur l).length = 1 + breaks prev l := by
  induction l with
  | nil => intro _ _; rfl
  | cons s r ih =>
    intro prev cur
    unfold concatGo breaks
    split
    · rw [ih]; omega
    · rw [List.length_cons, ih]; omega

theorem concat_length (s : Seg) (r : List Seg) : (concatenate (s :: r)).length = 1 + breaks s r :=
  concatGo_length r s _

/-- every span starts where a recorded segment starts -/
theorem concatGo_starts (l : List Seg) : ∀ (prev : Seg) (cur : Entry),
    ∀ e ∈ concatGo prev cur l, e.start = cur.start ∨ ∃ s ∈ l, e.start = s.start := by
  induction l with
  | nil => intro _ cur e he; simp [concatGo] at he; exact Or.inl (by rw [he])
  | cons s r ih =>
    intro prev cur e he
    unfold concatGo at he
    split at he
    · rcases ih s _ e he with h | ⟨x, hx, h⟩
      · exact Or.inl h
      · exact Or.inr ⟨x, List.mem_cons_of_mem _ hx, h⟩
    · rcases List.mem_cons.mp he with rfl | he
      · exact Or.inl rfl
      · rcases ih s _ e he with h | ⟨x, hx, h⟩
        · exact Or.inr ⟨s, List.mem_cons_self, h⟩
        · exact Or.inr ⟨x, List.mem_cons_of_mem _ hx, h⟩

theorem concat_starts (segs : List Seg) : ∀ e ∈ concatenate segs, ∃ s ∈ segs, e.start = s.start := by
  cases segs with
  | nil => intro e he; simp [concatenate] at he
  | cons a r =>
    intro e he
    rcases concatGo_starts r a ⟨a.start, a.dur⟩ e he with h | ⟨x, hx, h⟩
    · exact ⟨a, List.mem_cons_self, h⟩
    · exact ⟨x, List.mem_cons_of_mem _ hx, h⟩

/-! ### list: selection -/

/-- FindSegments with `start`: the kept list is a suffix of the (sorted) list beginning with the segment that
contains `start`, and the next one begins after `start`. -/
theorem dropBefore_spec (st : Int) : ∀ (l r : List Seg), dropBefore st l = some r →
    ∃ pre a b t, l = pre ++ r ∧ r = a :: b :: t ∧ a.start ≤ st ∧ st < b.start := by
  intro l
  induction l with
  | nil => intro r h; simp [dropBefore] at h
  | cons a tl ih =>
    intro r h
    cases tl with
    | nil => simp [dropBefore] at h
    | cons b t =>
      unfold dropBefore at h
      split at h
      · rename_i hc
        injection h with h; subst h
        exact ⟨[], a, b, t, rfl, rfl, hc.1, hc.2⟩
      · obtain ⟨pre, a', b', t', e1, e2, e3, e4⟩ := ih r h
        exact ⟨a :: pre, a', b', t', by rw [e1]; rfl, e2, e3, e4⟩

/-! ### list: clipping -/

/-- clipping at `start`: given that only the first span can begin at or before `start` (FindSegments), the result
is ordered, every span begins at or after `start`, and a span is removed only if it ends strictly before `start` -/
theorem clipStart_spec (st : Int) (e : Entry) (r out : List Entry) (ho : Ordered (e :: r))
    (hr : ∀ x ∈ r, st < x.start) (h : clipStart (some st) (e :: r) = some out) :
    Ordered out ∧ (∀ x ∈ out, st ≤ x.start) ∧
    (out = r ∧ e.fin < st ∨ out = ⟨st, e.fin - st⟩ :: r ∧ e.start < st ∧ st ≤ e.fin ∨ out = e :: r ∧ st ≤ e.start) := by
  unfold Ordered at ho
  rw [List.pairwise_cons] at ho
  unfold clipStart at h
  simp only [] at h
  split at h
  · rename_i hlt
    split at h
    · cases h
    · injection h with h; subst h
      exact ⟨ho.2, fun x hx => Int.le_of_lt (hr x hx), Or.inl ⟨rfl, hlt⟩⟩
  · rename_i hge
    split at h
    · rename_i hlt
      injection h with h; subst h
      have hfin : (⟨st, e.dur - (st - e.start)⟩ : Entry).fin = e.fin := by unfold Entry.fin; simp; omega
      refine ⟨?_, ?_, Or.inr (Or.inl ⟨?_, hlt, by unfold Entry.fin; omega⟩)⟩
      · unfold Ordered
        rw [List.pairwise_cons]
        exact ⟨fun x hx => by rw [hfin]; exact ho.1 x hx, ho.2⟩
      · intro x hx
        rcases List.mem_cons.mp hx with rfl | hx
        · exact Int.le_refl _
        · exact Int.le_of_lt (hr x hx)
      · congr 1
        show (⟨st, e.dur - (st - e.start)⟩ : Entry) = ⟨st, e.fin - st⟩
        unfold Entry.fin; congr 1; omega
    · rename_i hnlt
      injection h with h; subst h
      refine ⟨by unfold Ordered; rw [List.pairwise_cons]; exact ho, ?_, Or.inr (Or.inr ⟨rfl, by omega⟩)⟩
      intro x hx
      rcases List.mem_cons.mp hx with rfl | hx
      · omega
      · exact Int.le_of_lt (hr x hx)

/-- clipping at `end`: given that every span begins at or before `end` (FindSegments' filter), every span of the
result ends at or before `end`, and only the last span is changed -/
theorem clipEnd_spec (fin : Int) (es : List Entry) (ho : Ordered es) (hs : ∀ x ∈ es, x.start ≤ fin) :
    (∀ x ∈ clipEnd (some fin) es, x.fin ≤ fin) ∧ (clipEnd (some fin) es).dropLast = es.dropLast ∧
    (clipEnd (some fin) es).length = es.length := by
  rcases List.eq_nil_or_concat es with rfl | ⟨L, a, rfl⟩
  · simp [clipEnd]
  · simp only [List.concat_eq_append] at ho hs ⊢
    unfold clipEnd
    have hgl : (L ++ [a]).getLast? = some a := by simp
    rw [hgl]
    simp only []
    have hLa : ∀ x ∈ L, x.fin ≤ a.start := by
      intro x hx
      unfold Ordered at ho
      rw [List.pairwise_append] at ho
      exact ho.2.2 x hx a (by simp)
    have ha : a.start ≤ fin := hs a (by simp)
    split
    · rename_i hgt
      simp only [List.dropLast_concat]
      refine ⟨?_, by simp, by simp⟩
      intro x hx
      rcases List.mem_append.mp hx with hx | hx
      · have := hLa x hx; omega
      · simp at hx; subst hx; unfold Entry.fin; simp; omega
    · rename_i hle
      refine ⟨?_, rfl, rfl⟩
      intro x hx
      rcases List.mem_append.mp hx with hx | hx
      · have := hLa x hx; omega
      · simp at hx; subst hx; unfold Entry.fin; omega

/-! ### get -/

/-- the trun loop hands the muxer exactly the samples before the first one at or after the cut-off -/
theorem walkSamples_spec (off cut : Int) : ∀ (l : List (Nat × Bool × Int)) (m : MTrack),
    (walkSamples off cut m l).1 =
      (l.takeWhile (fun x => decide (x.2.2 + off < cut))).foldl (fun m x => muxStep m ⟨x.1, x.2.1, x.2.2 + off⟩) m := by
  intro l
  induction l with
  | nil => intro m; rfl
  | cons x r ih =>
    intro m
    obtain ⟨id, ns, d⟩ := x
    unfold walkSamples
    by_cases h : d + off ≥ cut
    · rw [if_pos h, List.takeWhile_cons, if_neg (by simp; omega)]
      rfl
    · rw [if_neg h, List.takeWhile_cons, if_pos (by simp; omega)]
      simp only [List.foldl_cons]
      exact ih _

/-- ids of the pre-roll kept in the buffer: from the last random-access sample on -/
def gop : List Nat → List Smp → List Nat
  | acc, [] => acc
  | acc, s :: r => gop (if s.nonSync then acc ++ [s.id] else [s.id]) r

theorem mux_preroll (pre : List Smp) : ∀ (t : MTrack), t.seenVisible = false → (∀ s ∈ pre, s.dts < 0) →
    (pre.foldl muxStep t).seenVisible = false ∧ (pre.foldl muxStep t).buf = gop t.buf pre ∧
    (pre.foldl muxStep t).tid = t.tid := by
  induction pre with
  | nil => intro t h _; exact ⟨h, rfl, rfl⟩
  | cons s r ih =>
    intro t h hneg
    have hs := hneg s List.mem_cons_self
    simp only [List.foldl_cons]
    have hstep : (muxStep t s).seenVisible = false ∧ (muxStep t s).buf = (if s.nonSync then t.buf ++ [s.id] else [s.id]) ∧
        (muxStep t s).tid = t.tid := by
      unfold muxStep
      rw [if_neg (by omega)]
      cases s.nonSync <;> simp [h]
    obtain ⟨i1, i2, i3⟩ := ih (muxStep t s) hstep.1 (fun x hx => hneg x (List.mem_cons_of_mem _ hx))
    refine ⟨i1, ?_, by rw [i3, hstep.2.2]⟩
    rw [i2, hstep.2.1]; rfl

theorem mux_visible (vis : List Smp) : ∀ (t : MTrack), t.seenVisible = true → (∀ s ∈ vis, 0 ≤ s.dts) →
    (vis.foldl muxStep t).buf = t.buf ++ vis.map (·.id) ∧ (vis.foldl muxStep t).seenVisible = true ∧
    (vis.foldl muxStep t).firstDTS = t.firstDTS := by
  induction vis with
  | nil => intro t h _; simp [h]
  | cons s r ih =>
    intro t h hpos
    have hs := hpos s List.mem_cons_self
    simp only [List.foldl_cons]
    have hstep : (muxStep t s).seenVisible = true ∧ (muxStep t s).buf = t.buf ++ [s.id] ∧
        (muxStep t s).firstDTS = t.firstDTS := by
      unfold muxStep
      rw [if_pos (by omega)]
      simp [h]
    obtain ⟨i1, i2, i3⟩ := ih (muxStep t s) hstep.1 (fun x hx => hpos x (List.mem_cons_of_mem _ hx))
    refine ⟨?_, i2, by rw [i3, hstep.2.2]⟩
    rw [i1, hstep.2.1]; simp

/-- **what one track's client receives.**  Samples are fed in recorded order, those before the requested start
(`pre`, negative timestamps) and then those inside the window (`v :: vis`).  The client gets every window sample, in
order, with the first output timestamp equal to the first window sample's (i.e. relative to the requested start),
preceded — only when that first sample is not a random-access sample — by the samples since the last random-access
point before the start. -/
theorem muxStep_first_visible (t : MTrack) (v : Smp) (h : t.seenVisible = false) (hv : 0 ≤ v.dts) :
    (muxStep t v).seenVisible = true ∧ (muxStep t v).firstDTS = v.dts ∧
    (muxStep t v).buf = (if v.nonSync then t.buf else []) ++ [v.id] := by
  unfold muxStep
  rw [if_pos (by omega)]
  cases hn : v.nonSync <;> simp [h]

theorem mux_emits (tid : Nat) (pre : List Smp) (v : Smp) (vis : List Smp)
    (hneg : ∀ s ∈ pre, s.dts < 0) (hv : 0 ≤ v.dts) (hpos : ∀ s ∈ vis, 0 ≤ s.dts) :
    let t := (pre ++ v :: vis).foldl muxStep { tid := tid }
    t.seenVisible = true ∧ t.firstDTS = v.dts ∧
    t.buf = (if v.nonSync then gop [] pre else []) ++ (v :: vis).map (·.id) := by
  intro t
  have hp := mux_preroll pre { tid := tid } rfl hneg
  have e : t = vis.foldl muxStep (muxStep (pre.foldl muxStep { tid := tid }) v) := by
    simp [t, List.foldl_append]
  have hstep := muxStep_first_visible (pre.foldl muxStep { tid := tid }) v hp.1 hv
  rw [hp.2.1] at hstep
  obtain ⟨i1, i2, i3⟩ := mux_visible vis _ hstep.1 hpos
  rw [e]
  refine ⟨i2, by rw [i3, hstep.2.1], ?_⟩
  rw [i1, hstep.2.2]; simp

/-- a track with nothing inside the window sends nothing -/
theorem mux_nothing_visible (tid : Nat) (pre : List Smp) (hneg : ∀ s ∈ pre, s.dts < 0) :
    (pre.foldl muxStep { tid := tid }).seenVisible = false :=
  (mux_preroll pre { tid := tid } rfl hneg).1

/-! #### the window clause -/

/-- ids handed to the muxer for track `tid` by the walk of one segment -/
def fedIds (ms : List MTrack) (tid : Nat) : List Nat :=
  match ms.find? (fun m => m.tid == tid) with
  | some m => m.buf
  | none => []

/-- "every sample of the segment whose timestamp is inside the window is returned" — for the walk as coded -/
def get_window_full : Prop :=
  ∀ (tracks : List TrackInfo) (parts : List (List PTrk)) (durNs : Int) (ti : TrackInfo), ti ∈ tracks →
    ∀ p ∈ parts, ∀ pt ∈ p, pt.tid = ti.tid → ∀ x ∈ pt.samples, 0 ≤ x.2.2 → x.2.2 < goToMp4 durNs ti.ts →
      x.1 ∈ fedIds (walkSeg tracks 0 durNs (tracks.map fun t => { tid := t.tid }) parts) ti.tid

/-- two tracks at 1 kHz, window 1 s.  Part 0 holds track 1 up to t = 1.2 s (beyond the window) and track 2 up to
0.5 s; part 1 holds track 2 at 0.7 s — inside the window, never returned: the walk stops at the first mdat after
ANY track passed the end of the window. -/
def witnessTracks : List TrackInfo := [⟨1, 1000⟩, ⟨2, 1000⟩]
def witnessParts : List (List PTrk) :=
  [[⟨1, [(1, false, 0), (2, false, 1200)]⟩, ⟨2, [(3, false, 500)]⟩], [⟨2, [(4, false, 700)]⟩]]

theorem get_window_witness : ¬ get_window_full := by
  intro h
  have := h witnessTracks witnessParts 1000000000 ⟨2, 1000⟩ (by decide) [⟨2, [(4, false, 700)]⟩] (by decide)
    ⟨2, [(4, false, 700)]⟩ (by decide) rfl (4, false, 700) (by decide) (by decide) (by decide)
  revert this
  decide

/-! with ONE track per segment the walk is the plain trun loop over all samples of the file, so (timestamps
non-decreasing) everything inside the window reaches the muxer -/

theorem muxStep_tid (t : MTrack) (s : Smp) : (muxStep t s).tid = t.tid := by
  unfold muxStep
  split <;> split <;> rfl

theorem walkSamples_tid (off cut : Int) : ∀ (l : List (Nat × Bool × Int)) (m : MTrack),
    (walkSamples off cut m l).1.tid = m.tid := by
  intro l
  induction l with
  | nil => intro m; rfl
  | cons x r ih =>
    intro m
    obtain ⟨id, ns, d⟩ := x
    unfold walkSamples
    split
    · rfl
    · rw [ih, muxStep_tid]

theorem walkSamples_cons (off cut : Int) (m : MTrack) (id : Nat) (ns : Bool) (d : Int) (r : List (Nat × Bool × Int)) :
    walkSamples off cut m ((id, ns, d) :: r) =
      if d + off ≥ cut then (m, true) else walkSamples off cut (muxStep m ⟨id, ns, d + off⟩) r := by
  rw [walkSamples]

theorem walkSamples_append (off cut : Int) : ∀ (l1 l2 : List (Nat × Bool × Int)) (m : MTrack),
    walkSamples off cut m (l1 ++ l2) =
      if (walkSamples off cut m l1).2 then walkSamples off cut m l1
      else walkSamples off cut (walkSamples off cut m l1).1 l2 := by
  intro l1
  induction l1 with
  | nil => intro l2 m; simp [walkSamples]
  | cons x r ih =>
    intro l2 m
    obtain ⟨id, ns, d⟩ := x
    simp only [List.cons_append]
    rw [walkSamples_cons, walkSamples_cons]
    by_cases h : d + off ≥ cut
    · simp [h]
    · simp only [h, if_false]
      exact ih l2 _

theorem walkSeg_single_track (tracks : List TrackInfo) (ti : TrackInfo) (tid : Nat) (dtsNs durNs : Int)
    (hfind : tracks.find? (fun t => t.tid == tid) = some ti) :
    ∀ (parts : List (List (Nat × Bool × Int))) (m : MTrack), m.tid = tid →
      walkSeg tracks dtsNs durNs [m] (parts.map fun l => [(⟨tid, l⟩ : PTrk)]) =
        [(walkSamples (goToMp4 dtsNs ti.ts) (goToMp4 durNs ti.ts) m parts.flatten).1] := by
  intro parts
  induction parts with
  | nil => intro m _; simp [walkSeg, walkSamples]
  | cons l r ih =>
    intro m hm
    simp only [List.map_cons, List.flatten_cons]
    unfold walkSeg
    have hpart : walkPart tracks dtsNs durNs [m] [(⟨tid, l⟩ : PTrk)] =
        ([(walkSamples (goToMp4 dtsNs ti.ts) (goToMp4 durNs ti.ts) m l).1],
         (walkSamples (goToMp4 dtsNs ti.ts) (goToMp4 durNs ti.ts) m l).2) := by
      unfold walkPart
      have hf2 : [m].find? (fun x => x.tid == tid) = some m := by simp [List.find?, hm]
      simp only [hfind, hf2]
      simp [walkPart, updTrack, hm]
    rw [hpart]
    simp only []
    rw [walkSamples_append]
    split
    · rfl
    · rw [ih _ (by rw [walkSamples_tid]; exact hm)]

/-- …hence, by `walkSamples_spec`, the muxer of a single-track segment receives exactly the samples before the first
one at or after the end of the window -/
theorem single_track_fed (tracks : List TrackInfo) (ti : TrackInfo) (tid : Nat) (dtsNs durNs : Int)
    (hfind : tracks.find? (fun t => t.tid == tid) = some ti) (parts : List (List (Nat × Bool × Int))) :
    walkSeg tracks dtsNs durNs [{ tid := tid }] (parts.map fun l => [(⟨tid, l⟩ : PTrk)]) =
      [(parts.flatten.takeWhile (fun x => decide (x.2.2 + goToMp4 dtsNs ti.ts < goToMp4 durNs ti.ts))).foldl
        (fun m x => muxStep m ⟨x.1, x.2.1, x.2.2 + goToMp4 dtsNs ti.ts⟩) { tid := tid }] := by
  rw [walkSeg_single_track tracks ti tid dtsNs durNs hfind parts { tid := tid } rfl, walkSamples_spec]

/-! ### non-vacuity -/

def exSegs : List Seg := [⟨0, 10, 1, 0⟩, ⟨10, 10, 1, 1⟩, ⟨25, 5, 1, 2⟩, ⟨40, 10, 2, 0⟩]

example : WF exSegs := by simp [exSegs, WF, Seg.fin]
example : concatenate exSegs = [⟨0, 30⟩, ⟨40, 10⟩] := by decide
example : listModel exSegs (some 12) (some 45) = some [⟨12, 18⟩, ⟨40, 5⟩] := by decide
example : listModel exSegs (some 31) (some 45) = some [⟨40, 5⟩] := by decide          -- first span ended before start
example : listModel exSegs (some 30) (some 45) = some [⟨30, 0⟩, ⟨40, 5⟩] := by decide  -- edge: zero-length span
example : listModel exSegs (some 60) none = none := by decide

end MtxVerif.C29
