/-
C09 — helper definitions and lemmas for Props/C09: well-formed parameter trees, quiet prefixes, and the
inertness theorem (a tree no variable concerns is returned unchanged).
-/
import MtxVerif.Model.C09

namespace MtxVerif.C09


def ptrOf : Option V → V
  | none => .nil
  | some v => .some v

/-- no variable is exactly `pfx` and none addresses a child `pfx_…` -/
def Quiet (e : Env) (pfx : Bytes) : Prop := e.get pfx = none ∧ hasKeyWithPrefix e (pfx ++ [95]) = false

/-- shape of a value w.r.t. `dispatch` -/
def wfD (wfA : Ty → Option V → Bool) (t : Ty) (v : V) : Bool :=
  match t with
  | .ptr (.ptr _) => false
  | .ptr t' => (match v with | .nil => wfA t' none | .some w => wfA t' (some w) | _ => false)
  | _ => wfA t (some v)

def wfFieldsWith (wfA : Ty → Option V → Bool) : List (Bytes × Ty) → List V → Bool
  | [], [] => true
  | [], _ :: _ => false
  | _ :: _, [] => false
  | (tag, t) :: fs, v :: vs => (tag == b!"-" || wfD wfA t v) && wfFieldsWith wfA fs vs

/-- the type/value trees the loader can walk (down to depth `fuel`) without error or panic when no variable
concerns them: supported kinds, shapes match, no nil `*struct` -/
def wfAt : Nat → Ty → Option V → Bool
  | 0, _, _ => false
  | f + 1, t, cur? =>
    match t with
    | .str | .int | .uint | .float | .bool | .unm | .unmStruct _ | .strList | .uintList | .floatList => true
    | .map _ => (match cur? with | some (.map _) => true | some .nilMap => true | _ => false)
    | .struct fs =>
      (match cur? with
       | none => fs.all (fun ft => ft.1 == b!"-")
       | some (.struct vs) => wfFieldsWith (wfAt f) fs vs
       | _ => false)
    | .structList fs =>
      (match cur? with
       | none => true
       | some .nilList => true
       | some (.list items) => items.all (fun it => wfD (wfAt f) (.struct fs) it)
       | _ => false)
    | _ => false

theorem isPrefixOf_append_left {p q k : Bytes} (h : (p ++ q).isPrefixOf k = true) : p.isPrefixOf k = true := by
  induction p generalizing k with
  | nil => simp
  | cons a p ih =>
    cases k with
    | nil => simp at h
    | cons b k =>
      simp only [List.cons_append, List.isPrefixOf_cons_cons, Bool.and_eq_true] at h ⊢
      exact ⟨h.1, ih h.2⟩

theorem hasKey_mono {e : Env} {p q : Bytes} (h : hasKeyWithPrefix e p = false) : hasKeyWithPrefix e (p ++ q) = false := by
  unfold hasKeyWithPrefix at *
  rw [List.any_eq_false] at *
  intro kv hkv hc
  exact h kv hkv (isPrefixOf_append_left hc)

theorem isPrefixOf_self (p : Bytes) : p.isPrefixOf p = true := by
  induction p with
  | nil => rfl
  | cons a p ih => simp [ih]

theorem get_none_of_noKey {e : Env} {p : Bytes} (h : hasKeyWithPrefix e p = false) : e.get p = none := by
  unfold Env.get
  cases hf : e.find? (fun kv => kv.1 == p) with
  | none => rfl
  | some kv =>
    have hm := List.mem_of_find?_eq_some hf
    have hp : (kv.1 == p) = true := by have := List.find?_some hf; simpa using this
    have : kv.1 = p := by simpa using hp
    unfold hasKeyWithPrefix at h
    rw [List.any_eq_false] at h
    exact absurd (by rw [this]; exact isPrefixOf_self p) (h kv hm)

/-- children of a quiet prefix are quiet -/
theorem quiet_child {e : Env} {pfx : Bytes} (h : hasKeyWithPrefix e (pfx ++ [95]) = false) (x : Bytes) :
    Quiet e (pfx ++ [95] ++ x) := by
  constructor
  · exact get_none_of_noKey (hasKey_mono h)
  · have := hasKey_mono (q := x ++ [95]) h
    rw [← List.append_assoc] at this
    exact this


/-- struct loader with children that leave their values alone -/
theorem loadFieldsWith_inert (child : Bytes → Ty → V → Outcome V) (wfA : Ty → Option V → Bool) (pfx : Bytes)
    (hchild : ∀ x t v, wfD wfA t v = true → child (pfx ++ [95] ++ x) t v = .ok v) :
    ∀ (fs : List (Bytes × Ty)) (vs acc : List V), wfFieldsWith wfA fs vs = true →
      loadFieldsWith child pfx fs vs acc = .ok (.struct (acc.reverse ++ vs))
  | [], [], acc, _ => by simp [loadFieldsWith]
  | [], _ :: _, _, h => by simp [wfFieldsWith] at h
  | _ :: _, [], _, h => by simp [wfFieldsWith] at h
  | (tag, t) :: fs, v :: vs, acc, h => by
    simp only [wfFieldsWith, Bool.and_eq_true, Bool.or_eq_true] at h
    unfold loadFieldsWith
    by_cases ht : (tag == b!"-") = true
    · simp only [ht, if_true]
      rw [loadFieldsWith_inert child wfA pfx hchild fs vs (v :: acc) h.2]
      simp
    · have hw : wfD wfA t v = true := by
        rcases h.1 with h1 | h1
        · exact absurd h1 ht
        · exact h1
      simp only [ht, Bool.false_eq_true, if_false, hchild _ t v hw]
      rw [loadFieldsWith_inert child wfA pfx hchild fs vs (v :: acc) h.2]
      simp

/-- struct-list loop with no item variables and children that leave their values alone -/
theorem loadItemsWith_inert (child : Bytes → Ty → V → Outcome V) (e : Env) (pfx : Bytes) (fs : List (Bytes × Ty))
    (hno : hasKeyWithPrefix e (pfx ++ [95]) = false) :
    ∀ (steps i : Nat) (items : List V), items.length + 1 ≤ steps + i ∧ 1 ≤ steps →
      (∀ it ∈ items, ∀ x, child (pfx ++ [95] ++ x) (.struct fs) it = .ok it) →
      loadItemsWith child e pfx fs steps i items = .ok items
  | 0, i, items, hs, _ => by
    unfold loadItemsWith; omega
  | steps + 1, i, items, hs, hchild => by
    unfold loadItemsWith
    have hk : hasKeyWithPrefix e (pfx ++ [95] ++ decNat i) = false := hasKey_mono hno
    simp only [hk, Bool.not_false, Bool.true_and]
    by_cases hi : items.length ≤ i
    · simp [hi]
    · have hlt : i < items.length := by omega
      simp only [hi, decide_false, Bool.false_eq_true, if_false, hlt, if_true]
      have hget : items.getD i .other = items[i] := by
        rw [List.getD_eq_getElem?_getD, List.getElem?_eq_getElem hlt]; rfl
      have hmem : items.getD i .other ∈ items := by
        rw [hget]; exact List.getElem_mem hlt
      rw [hchild _ hmem]
      have hset : items.set i (items.getD i .other) = items := by
        rw [hget]; exact List.set_getElem_self hlt
      simp only [hset]
      exact loadItemsWith_inert child e pfx fs hno steps (i + 1) items ⟨by omega, by omega⟩ hchild


/-- nothing in the environment concerns the parameter at `pfx` (for the current code this must include
variables that merely start with the same letters) -/
def Silent (fx : Bool) (e : Env) (pfx : Bytes) : Prop :=
  Quiet e pfx ∧ (fx = false → hasKeyWithPrefix e pfx = false)

theorem silent_child {fx : Bool} {e : Env} {pfx : Bytes} (h : Silent fx e pfx) (x : Bytes) :
    Silent fx e (pfx ++ [95] ++ x) := by
  refine ⟨quiet_child h.1.2 x, fun hf => ?_⟩
  have := hasKey_mono (q := [95] ++ x) (h.2 hf)
  rw [← List.append_assoc] at this
  exact this

theorem dispatch_inert (la : Bytes → Ty → Option V → Outcome V) (wfA : Ty → Option V → Bool) (pfx : Bytes)
    (hla : ∀ t c, wfA t c = true → la pfx t c = .ok (ptrOf c)) (t : Ty) (v : V) (hw : wfD wfA t v = true) :
    dispatch la pfx t v = .ok v := by
  cases t with
  | ptr t' =>
    cases t' with
    | ptr _ => simp [wfD] at hw
    | _ => cases v <;> simp_all [wfD, dispatch, ptrOf]
  | _ => simp only [wfD] at hw; simp [dispatch, hla _ _ hw, ptrOf]

/-- **inertness**: a well-formed parameter tree that no variable concerns is returned unchanged -/
theorem loadAt_inert (fx : Bool) (fl : FloatOracle) (e : Env) :
    ∀ (fuel : Nat) (pfx : Bytes) (t : Ty) (cur? : Option V), Silent fx e pfx → wfAt fuel t cur? = true →
      loadAt fx fl e fuel pfx t cur? = .ok (ptrOf cur?)
  | 0, _, _, _, _, hw => by simp [wfAt] at hw
  | fuel + 1, pfx, t, cur?, hs, hw => by
    have hget : e.get pfx = none := hs.1.1
    have hchildren : hasKeyWithPrefix e (pfx ++ [95]) = false := hs.1.2
    have hrule : (if fx = true then cur?.isSome && hasKeyWithPrefix e (pfx ++ [95]) else hasKeyWithPrefix e pfx) = false := by
      cases fx with
      | true => simp [hchildren]
      | false => simp [hs.2 rfl]
    have hchild : ∀ x t v, wfD (wfAt fuel) t v = true →
        dispatch (loadAt fx fl e fuel) (pfx ++ [95] ++ x) t v = .ok v := by
      intro x t v hwd
      exact dispatch_inert _ (wfAt fuel) _ (fun t c hc => loadAt_inert fx fl e fuel _ t c (silent_child hs x) hc) t v hwd
    unfold loadAt
    simp only [hget, hrule]
    cases t with
    | str | int | uint | float | bool | unm | strList | uintList | floatList =>
      cases cur? <;> simp [ptrOf]
    | unmStruct fs => cases cur? <;> simp [ptrOf]
    | ptr t' => simp [wfAt] at hw
    | otherList => simp [wfAt] at hw
    | other => simp [wfAt] at hw
    | map elem =>
      have hk : mapKeys e pfx = [] := by
        unfold mapKeys
        have : ∀ kv ∈ e, (pfx ++ [95]).isPrefixOf kv.1 = false := by
          unfold hasKeyWithPrefix at hchildren
          rw [List.any_eq_false] at hchildren
          intro kv hkv; exact Bool.eq_false_iff.mpr (hchildren kv hkv)
        have hf : (e.filterMap fun kv =>
            if (pfx ++ [95]).isPrefixOf kv.1 then
              let tok := (kv.1.drop (pfx ++ [95]).length).takeWhile (· ≠ 95)
              if tok.isEmpty || tok != upperAscii tok then none else some (tok, lowerAscii tok)
            else none) = [] := by
          rw [List.filterMap_eq_nil_iff]
          intro kv hkv; simp [this kv hkv]
        simp only [hf]; rfl
      simp only [wfAt] at hw
      cases cur? with
      | none => simp at hw
      | some c =>
        cases c <;> simp_all [loadMapKeysWith, ptrOf]
    | struct fs =>
      simp only [wfAt] at hw
      cases cur? with
      | none => simp only [hw, if_true, ptrOf]
      | some c =>
        cases c <;> try (simp at hw)
        next vs =>
          simp only [loadStructWith]
          rw [loadFieldsWith_inert _ (wfAt fuel) pfx hchild fs vs [] hw]
          simp [ptrOf]
    | structList fs =>
      simp only [wfAt] at hw
      have hne : (e.get pfx == some []) = false := by rw [hget]; rfl
      have hitems : ∀ (items : List V), (items.all (fun it => wfD (wfAt fuel) (.struct fs) it) = true) →
          loadItemsWith (dispatch (loadAt fx fl e fuel)) e pfx fs (e.length + items.length + 1) 0 items = .ok items := by
        intro items hall
        apply loadItemsWith_inert _ e pfx fs hchildren _ 0 items ⟨by omega, by omega⟩
        intro it hit x
        exact hchild x _ it (List.all_eq_true.mp hall it hit)
      cases cur? with
      | none =>
        have := hitems [] (by simp)
        simp only [List.length_nil] at this
        simp [this, ptrOf]
      | some c =>
        cases c <;> try (simp at hw)
        next items =>
          have := hitems items (List.all_eq_true.mpr hw)
          cases items with
          | nil => simp only [List.length_nil] at this; simp [this, ptrOf]
          | cons a l => simp only [List.length_cons] at this; simp [this, ptrOf]
        next =>
          have := hitems [] (by simp)
          simp only [List.length_nil] at this
          simp [this, ptrOf]



end MtxVerif.C09
