/-
C13 — generic lemmas about the reload model (any table).
-/
import MtxVerif.Model.C13

namespace MtxVerif.C13

/-! ### close flags vs. closures -/

/-- soundness of the closure: a differing comparison anywhere in k's closure raises k's flag -/
theorem flags_of_cmp (old new : Conf) : ∀ (L : List Row) (k : Nat) (c : Cmp),
    c ∈ cmpClosure L k → differs old new c.field c.kind = true → flags old new L k = true
  | [], _, _, h, _ => by simp [cmpClosure] at h
  | r :: E, k, c, h, hd => by
    by_cases hk : k = r.comp
    · simp only [cmpClosure, hk, if_true, List.mem_append, List.mem_flatMap] at h
      simp only [flags, hk, if_true, Bool.or_eq_true, List.any_eq_true]
      rcases h with h | ⟨d, hdm, hc⟩
      · left
        exact List.any_eq_true.mpr ⟨c, h, hd⟩
      · right
        exact ⟨d, hdm, flags_of_cmp old new E d c hc hd⟩
    · simp only [cmpClosure, hk, if_false] at h
      simp only [flags, hk, if_false]
      exact flags_of_cmp old new E k c h hd

/-- completeness of the closure: a raised flag is explained by a differing comparison in the closure -/
theorem cmp_of_flags (old new : Conf) : ∀ (L : List Row) (k : Nat),
    flags old new L k = true → ∃ c, c ∈ cmpClosure L k ∧ differs old new c.field c.kind = true
  | [], _, h => by simp [flags] at h
  | r :: E, k, h => by
    by_cases hk : k = r.comp
    · simp only [flags, hk, if_true, Bool.or_eq_true, List.any_eq_true] at h
      simp only [cmpClosure, hk, if_true, List.mem_append, List.mem_flatMap]
      rcases h with h | ⟨d, hdm, hf⟩
      · obtain ⟨c, hc, hd⟩ := List.any_eq_true.mp h
        exact ⟨c, Or.inl hc, hd⟩
      · obtain ⟨c, hc, hd⟩ := cmp_of_flags old new E d hf
        exact ⟨c, Or.inr ⟨d, hdm, hc⟩, hd⟩
    · simp only [flags, hk, if_false] at h
      simp only [cmpClosure, hk, if_false]
      exact cmp_of_flags old new E k h

theorem wfl_cons {r : Row} {E : List Row} (h : wfl (r :: E) = true) :
    r.comp ∉ comps E ∧ (∀ c ∈ r.refs, c ∈ comps E) ∧ (∀ c ∈ r.deps, c ∈ comps E) ∧ wfl E = true := by
  simp only [wfl, Bool.and_eq_true, Bool.not_eq_true', List.all_eq_true] at h
  obtain ⟨⟨⟨h1, h2⟩, h3⟩, h4⟩ := h
  refine ⟨?_, ?_, ?_, h4⟩
  · intro hm
    have : (comps E).contains r.comp = true := List.contains_iff_mem.mpr hm
    rw [h1] at this; cases this
  · intro c hc; exact List.contains_iff_mem.mp (h2 c hc)
  · intro c hc; exact List.contains_iff_mem.mp (h3 c hc)

theorem depClosure_sub_comps : ∀ (L : List Row) (k d : Nat), wfl L = true →
    d ∈ depClosure L k → d ∈ comps L
  | [], _, _, _, h => by simp [depClosure] at h
  | r :: E, k, d, hw, h => by
    obtain ⟨_, _, hdeps, hwE⟩ := wfl_cons hw
    simp only [comps, List.map_cons, List.mem_cons]
    right
    by_cases hk : k = r.comp
    · simp only [depClosure, hk, if_true, List.mem_append, List.mem_flatMap] at h
      rcases h with h | ⟨e, _, hde⟩
      · exact hdeps d h
      · exact depClosure_sub_comps E e d hwE hde
    · simp only [depClosure, hk, if_false] at h
      exact depClosure_sub_comps E k d hwE h

/-- a raised flag of a (transitive) dependency raises the flag -/
theorem flags_of_dep (old new : Conf) : ∀ (L : List Row) (k d : Nat), wfl L = true →
    d ∈ depClosure L k → flags old new L d = true → flags old new L k = true
  | [], _, _, _, h, _ => by simp [depClosure] at h
  | r :: E, k, d, hw, h, hf => by
    obtain ⟨hnot, _, _, hwE⟩ := wfl_cons hw
    by_cases hk : k = r.comp
    · by_cases hdk : d = r.comp
      · rw [hk, ← hdk]; exact hf
      · have hfE : flags old new E d = true := by simpa [flags, hdk] using hf
        simp only [depClosure, hk, if_true, List.mem_append, List.mem_flatMap] at h
        simp only [flags, hk, if_true, Bool.or_eq_true, List.any_eq_true]
        right
        rcases h with h | ⟨e, hem, hde⟩
        · exact ⟨d, h, hfE⟩
        · exact ⟨e, hem, flags_of_dep old new E e d hwE hde hfE⟩
    · simp only [depClosure, hk, if_false] at h
      have hdE : d ∈ comps E := depClosure_sub_comps E k d hwE h
      have hdk : d ≠ r.comp := fun e => hnot (e ▸ hdE)
      have hfE : flags old new E d = true := by simpa [flags, hdk] using hf
      simp only [flags, hk, if_false]
      exact flags_of_dep old new E k d hwE h hfE

/-! ### closeResources, pointwise -/

theorem mem_comps_of_mem {L : List Row} {r : Row} (h : r ∈ L) : r.comp ∈ comps L :=
  List.mem_map.mpr ⟨r, h, rfl⟩

theorem midRun_notin (old new : Conf) (fl : Nat → Bool) (run : Nat → Option Inst) :
    ∀ (L : List Row) (k : Nat), k ∉ comps L → midRun old new fl run L k = run k
  | [], _, _ => rfl
  | r :: E, k, h => by
    simp only [comps, List.map_cons, List.mem_cons, not_or] at h
    simp only [midRun, h.1, if_false]
    exact midRun_notin old new fl run E k h.2

theorem midRun_mem (old new : Conf) (fl : Nat → Bool) (run : Nat → Option Inst) :
    ∀ (L : List Row), wfl L = true → ∀ r ∈ L,
      midRun old new fl run L r.comp
        = if fl r.comp then none else (run r.comp).map (patch old new r)
  | [], _, r, h => by cases h
  | r0 :: E, hw, r, h => by
    obtain ⟨hnot, _, _, hwE⟩ := wfl_cons hw
    rcases List.mem_cons.mp h with h | h
    · subst h; simp [midRun]
    · have hne : r.comp ≠ r0.comp := fun e => hnot (e ▸ mem_comps_of_mem h)
      simp only [midRun, hne, if_false]
      exact midRun_mem old new fl run E hwE r h

/-! ### createResources -/

theorem createOne_run_ne (g : Nat → Bool) (r : Row) (s : St) (k : Nat) (h : k ≠ r.comp) :
    (createOne g r s).run k = s.run k := by
  unfold createOne
  split
  · simp [setRun, h]
  · rfl

theorem createOne_conf (g : Nat → Bool) (r : Row) (s : St) : (createOne g r s).conf = s.conf := by
  unfold createOne; split <;> rfl

theorem createOne_panicked (g : Nat → Bool) (r : Row) (s : St) :
    (createOne g r s).panicked = s.panicked := by
  unfold createOne; split <;> rfl

theorem createOne_next_le (g : Nat → Bool) (r : Row) (s : St) : s.next ≤ (createOne g r s).next := by
  unfold createOne; split
  · exact Nat.le_succ _
  · exact Nat.le_refl _

theorem createAll_conf (g : Nat → Bool) : ∀ (L : List Row) (s : St), (createAll g L s).conf = s.conf
  | [], _ => rfl
  | r :: E, s => by simp [createAll, createOne_conf, createAll_conf g E s]

theorem createAll_panicked (g : Nat → Bool) :
    ∀ (L : List Row) (s : St), (createAll g L s).panicked = s.panicked
  | [], _ => rfl
  | r :: E, s => by simp [createAll, createOne_panicked, createAll_panicked g E s]

theorem createAll_next_le (g : Nat → Bool) : ∀ (L : List Row) (s : St), s.next ≤ (createAll g L s).next
  | [], _ => Nat.le_refl _
  | r :: E, s => Nat.le_trans (createAll_next_le g E s) (createOne_next_le g r _)

theorem createAll_run_notin (g : Nat → Bool) :
    ∀ (L : List Row) (s : St) (k : Nat), k ∉ comps L → (createAll g L s).run k = s.run k
  | [], _, _, _ => rfl
  | r :: E, s, k, h => by
    simp only [comps, List.map_cons, List.mem_cons, not_or] at h
    simp only [createAll]
    rw [createOne_run_ne g r _ k h.1]
    exact createAll_run_notin g E s k h.2

/-- What createResources does for one component. -/
structure Created (g : Nat → Bool) (s s' : St) (r : Row) : Prop where
  on : g r.comp = true → (s'.run r.comp).isSome = true
  keep : ∀ i, s.run r.comp = some i → s'.run r.comp = some i
  off : s.run r.comp = none → g r.comp = false → s'.run r.comp = none
  fresh : s.run r.comp = none → ∀ i, s'.run r.comp = some i →
    i.args = s.conf.val ∧ (∀ c ∈ r.refs, i.refs c = (s'.run c).map (·.id)) ∧
    s.next ≤ i.id ∧ i.id < s'.next

theorem createAll_spec (g : Nat → Bool) :
    ∀ (L : List Row) (s : St), wfl L = true → ∀ r ∈ L, Created g s (createAll g L s) r
  | [], _, _, r, h => by cases h
  | r0 :: E, s, hw, r, h => by
    obtain ⟨hnot, hrefs, _, hwE⟩ := wfl_cons hw
    rcases List.mem_cons.mp h with h | h
    · subst h
      -- the head: created last, on top of `s1`
      have h1 : (createAll g E s).run r.comp = s.run r.comp := createAll_run_notin g E s r.comp hnot
      have hc1 : (createAll g E s).conf = s.conf := createAll_conf g E s
      have hn1 : s.next ≤ (createAll g E s).next := createAll_next_le g E s
      simp only [createAll]
      generalize createAll g E s = s1 at h1 hc1 hn1
      refine ⟨?_, ?_, ?_, ?_⟩
      · intro hg
        unfold createOne
        split
        · simp [setRun]
        · rename_i hcond
          simp only [hg, Bool.true_and, Bool.not_eq_true] at hcond
          cases hr : s1.run r.comp with
          | none => simp [hr] at hcond
          | some i => simp
      · intro i hi
        unfold createOne
        rw [← h1] at hi
        simp [hi]
      · intro hn hg
        unfold createOne
        rw [← h1] at hn
        simp [hg, hn]
      · intro hn i hi
        rw [← h1] at hn
        unfold createOne at hi ⊢
        by_cases hg : g r.comp = true
        · simp only [hg, hn, Option.isNone_none, Bool.and_self, if_true, setRun] at hi ⊢
          simp only [Option.some.injEq] at hi
          subst hi
          refine ⟨congrArg Conf.val hc1, ?_, hn1, Nat.lt_succ_self _⟩
          intro c hc
          have hcE : c ∈ comps E := hrefs c hc
          have hne : c ≠ r.comp := fun e => hnot (e ▸ hcE)
          simp [hne]
        · simp only [Bool.not_eq_true] at hg
          simp [hg, hn] at hi
    · -- a tail component: the head's block does not touch it, nor anything it points to
      have hne : r.comp ≠ r0.comp := fun e => hnot (e ▸ mem_comps_of_mem h)
      have ih := createAll_spec g E s hwE r h
      have hrun : ∀ k, k ≠ r0.comp →
          (createAll g (r0 :: E) s).run k = (createAll g E s).run k := by
        intro k hk; simp only [createAll]; exact createOne_run_ne g r0 _ k hk
      have hnext : (createAll g E s).next ≤ (createAll g (r0 :: E) s).next := by
        simp only [createAll]; exact createOne_next_le g r0 _
      refine ⟨?_, ?_, ?_, ?_⟩
      · intro hg; rw [hrun _ hne]; exact ih.on hg
      · intro i hi; rw [hrun _ hne]; exact ih.keep i hi
      · intro hn hg; rw [hrun _ hne]; exact ih.off hn hg
      · intro hn i hi
        rw [hrun _ hne] at hi
        obtain ⟨ha, hr, hlo, hhi⟩ := ih.fresh hn i hi
        refine ⟨ha, ?_, hlo, Nat.lt_of_lt_of_le hhi hnext⟩
        intro c hc
        have hcE : c ∈ comps E := by
          -- refs of a tail row live in the tail (wfl E), hence differ from the head
          exact refs_in_tail E hwE r h c hc
        have hne' : c ≠ r0.comp := fun e => hnot (e ▸ hcE)
        rw [hrun _ hne']; exact hr c hc
where
  refs_in_tail : ∀ (E : List Row), wfl E = true → ∀ r ∈ E, ∀ c ∈ r.refs, c ∈ comps E
    | [], _, r, h, _, _ => by cases h
    | r1 :: E', hw, r, h, c, hc => by
      obtain ⟨_, hrefs, _, hwE⟩ := wfl_cons hw
      simp only [comps, List.map_cons, List.mem_cons]
      right
      rcases List.mem_cons.mp h with h | h
      · subst h; exact hrefs c hc
      · have := refs_in_tail E' hwE r h c hc
        exact this

end MtxVerif.C13
