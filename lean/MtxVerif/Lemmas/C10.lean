/-
C10 — helper lemmas for Props/C10 (stage-by-stage facts about the model of Validate).
-/
import MtxVerif.Model.C10

namespace MtxVerif.C10

@[simp] theorem chk_ok {α} {bad : Bool} {msg : String} {k : Except String α} {x : α} :
    chk bad msg k = .ok x ↔ bad = false ∧ k = .ok x := by
  unfold chk; cases bad <;> simp

theorem any_false_all {α} (l : List α) (p : α → Bool) (h : l.any p = false) : l.all (fun x => !p x) = true := by
  simp only [List.any_eq_false, List.all_eq_true, Bool.not_eq_true'] at *
  intro x hx; simpa using h x hx

/-- the configuration `validateGlobal` returns when every check passes (all deprecated-parameter copies applied) -/
def normGlobal (c : ConfV) : ConfV :=
  { c with
    wqs := optOr c.rbc c.wqs,
    am := match c.xau with | some _ => 1 | none => c.am,
    aha := optOr c.xau c.aha,
    users := if depMode c then legacyUsers else c.users,
    rtsp := match c.rtspDisable with | some d => !d | none => c.rtsp,
    transports := optOr c.protocols c.transports,
    rtspEnc := optOr c.encryption c.rtspEnc,
    rtspAuthMethods := optOr c.authMethods c.rtspAuthMethods,
    rtmp := match c.rtmpDisable with | some d => !d | none => c.rtmp,
    hls := match c.hlsDisable with | some d => !d | none => c.hls,
    webrtc := match c.webrtcDisable with | some d => !d | none => c.webrtc,
    localUdp := optOr c.udpMux c.localUdp,
    localTcp := optOr c.tcpMux c.localTcp,
    hosts := optOr c.nat c.hosts,
    ice2 := c.ice2 ++ (optOr c.iceLegacy []).map iceLegacyURL,
    pdRecord := optOr c.gRecord c.pdRecord,
    pdRecordPath := optOr c.gRecordPath c.pdRecordPath,
    pdSegDur := optOr c.gSegDur c.pdSegDur,
    pdDelAfter := optOr c.gDelAfter c.pdDelAfter }

theorem validateGlobal_eq_norm {c g : ConfV} (h : validateGlobal c = .ok g) : g = normGlobal c := by
  simp only [validateGlobal, chk_ok, depMode] at h
  have := h.2.2.2.2.2.2.2.2.2.2.2.2.2.2.2.2.2.2.2.2.2.2.2.2.2.2.2.2.2.2.2.2.2.2.2.2.2.2.2.2
  injection this with this
  rw [← this]; rfl



theorem users_all {A D : Bool} {l : List User} {e q : User → Bool}
    (h7 : (A && l.any e) = false) (h8 : (A && l.any q) = false) :
    (!(A && !D) || l.all (fun u => !e u && !q u)) = true := by
  cases A with
  | false => simp
  | true =>
    simp only [Bool.true_and, List.any_eq_false] at h7 h8
    cases D with
    | true => simp
    | false =>
      simp only [Bool.not_false, Bool.and_self, Bool.not_true, Bool.false_or, List.all_eq_true, Bool.and_eq_true,
        Bool.not_eq_true']
      intro u hu
      exact ⟨by simpa using h7 u hu, by simpa using h8 u hu⟩

theorem t_rtsp_half : ∀ r e0 e1 u m a b c d p q : Bool,
    (r && (e0 || e1) && a) = false → (r && (e0 || e1) && u && b) = false → (r && (e0 || e1) && u && c) = false →
    (r && (e0 || e1) && m && d) = false → (r && (e0 || e1) && m && p) = false → (r && (e0 || e1) && m && q) = false →
    (!r || (!(e0 || e1) || (!a && (!u || (!b && !c)) && (!m || (!d && !p && !q))))) = true := by decide

theorem hashed_all {R C : Bool} {l : List User}
    (h : (R && C && l.any (fun u => isHashed u.user || isHashed u.pass)) = false) :
    (!R || !C || l.all (fun u => !isHashed u.user && !isHashed u.pass)) = true := by
  cases R <;> cases C <;> simp_all

theorem any_not_false_all {α} {W : Bool} {l : List α} {p : α → Bool}
    (h : (W && l.any (fun u => !p u)) = false) : (!W || l.all p) = true := by
  cases W <;> simp_all

set_option maxHeartbeats 800000 in
theorem validateGlobal_ok {c g : ConfV} (h : validateGlobal c = .ok g) :
    ∀ k ∈ globalOnlyConstraints, k.2 g = true := by
  have e := validateGlobal_eq_norm h
  subst e
  simp only [validateGlobal, chk_ok, depMode] at h
  obtain ⟨h1, h2, h3, h4, h5, h6, h7, h8, h9, h10, h11, h12, h13, h14, h15, h16, h17, h18, h19, h20,
    h21, h22, h23, h24, h25, h26, h27, h28, h29, h30, h31, h32, h33, h34, h35, h36, h37, h38, h39, h40, -⟩ := h
  intro k hk
  simp only [globalOnlyConstraints, List.mem_cons, List.not_mem_nil, or_false] at hk
  rcases hk with rfl | rfl | rfl | rfl | rfl | rfl | rfl | rfl | rfl | rfl | rfl | rfl | rfl
  all_goals (simp only [imp, depMode, normGlobal, bne])
  · have := of_decide_eq_false h1; exact decide_eq_true (by omega)
  · have := of_decide_eq_false h2; exact decide_eq_true (by omega)
  · have := of_decide_eq_false h3
    simp only [isPow2, notPow2, bne, Bool.not_eq_false'] at h4 ⊢
    simp only [Bool.and_eq_true, decide_eq_true_eq]; exact ⟨by omega, h4⟩
  · have := of_decide_eq_false h5; exact decide_eq_true (by omega)
  · exact users_all h7 h8
  · exact (by decide : ∀ a x y : Bool, (a && x) = false → (a && !y) = false → (!a || (!x && y)) = true) _ _ _ h9 h10
  · exact (by decide : ∀ a x y z : Bool, (a && x) = false → (a && !y) = false → (a && z) = false →
      (!a || (!x && y && !z)) = true) _ _ _ _ h11 h12 h13
  · exact (by decide : ∀ a x b y c z d w : Bool, (a && x) = false → (b && y) = false → (c && z) = false → (d && w) = false →
      ((!a || !x) && (!b || !y) && (!c || !z) && (!d || !w)) = true) _ _ _ _ _ _ _ _ h14 h15 h16 h17
  · have f1 := t_rtsp_half _ _ _ _ _ _ _ _ _ _ _ h18 h19 h20 h21 h22 h23
    have f2 := t_rtsp_half _ _ _ _ _ _ _ _ _ _ _ h24 h25 h26 h27 h28 h29
    exact (by decide : ∀ r x y : Bool, (!r || x) = true → (!r || y) = true → (!r || (x && y)) = true) _ _ _ f1 f2
  · have f := hashed_all h32
    exact (by decide : ∀ r e c a d x : Bool, (r && e) = false → (r && c && !a) = false → (!r || !c || x) = true →
      (!r || (!e && (!c || (a && (!!d || x))))) = true) _ _ _ _ _ _ h30 h31 f
  · exact (by decide : ∀ a x b y c z : Bool, (a && x) = false → (b && y) = false → (!c && !z) = false →
      ((!a || !x) && (!b || !y) && (!!c || z)) = true) _ _ _ _ _ _ h33 h34 h35
  · have f := any_not_false_all h37
    exact (by decide : ∀ w a x lu lt ie ips he : Bool, (w && a) = false → (!w || x) = true → (w && lu && lt && ie) = false →
      (w && (!lu || !lt) && !ips && he) = false →
      (!w || (!a && x && (!lu || !lt || !ie) && (!(!lu || !lt) || (ips || !he)))) = true) _ _ _ _ _ _ _ _ h36 f h38 h39
  · exact (by decide : ∀ a x : Bool, (a && x) = false → (!a || !x) = true) _ _ h40
theorem validateRest_ok {pb dep : Bool} {p : PathV} {prim : Option Str} {r : PathRes}
    (h : validateRest pb dep p prim = .ok r) :
    r.self = p ∧ r.primary = prim ∧ r.newUsers = (if dep then pathUsers p else []) ∧
    ∀ k ∈ pcRest pb, k.2 p = true := by
  simp only [validateRest, chk_ok] at h
  obtain ⟨h1, h2, hU, h3, h4, h5, h6, h7, h8, h9, h10, h11, h12, h13, h14, h15, h16, h17, h18, h19, hr⟩ := h
  injection hr with hr
  subst hr
  refine ⟨rfl, rfl, rfl, ?_⟩
  intro k hk
  simp only [pcRest, List.mem_cons, List.not_mem_nil, or_false] at hk
  rcases hk with rfl | rfl | rfl | rfl | rfl | rfl | rfl | rfl | rfl | rfl | rfl | rfl | rfl | rfl
  all_goals (simp only [imp, bne])
  · exact (by decide : ∀ a b : Bool, (a && b) = false → (!a || !b) = true) _ _ h1
  · exact (by decide : ∀ s a b r : Bool, (!s && !a && !b && r) = false → (!(r && !a && !b) || s) = true) _ _ _ _ h2
  · exact (by decide : ∀ a b : Bool, (!a && b) = false → (!!a || !b) = true) _ _ h3
  · exact any_false_all _ _ h4
  · exact (by decide : ∀ a b : Bool, (a && !b) = false → (!a || b) = true) _ _ h5
  · exact (by decide : ∀ aa R sod rd rud fe t0 ok ua : Bool, (aa && R) = false → (aa && sod) = false →
      (aa && (!rd || !rud)) = false → (aa && !fe && !t0) = false → (aa && !fe && !ok) = false → (aa && fe && t0) = false →
      (aa && ua) = false →
      (!aa || (!R && !sod && rd && rud && !ua && (if fe = true then !t0 else (t0 && ok)))) = true)
      _ _ _ _ _ _ _ _ _ h6 h7 h8 h9 h10 h11 h12
  · exact (by decide : ∀ a : Bool, (!a) = false → a = true) _ h13
  · exact (by decide : ∀ s y m d h mi se : Bool, (!s && (!y || !m || !d || !h || !mi || !se)) = false →
      (s || (y && m && d && h && mi && se)) = true) _ _ _ _ _ _ _ h14
  · exact (by decide : ∀ a b : Bool, (a && !b) = false → (!a || b) = true) _ _ h15
  · have := of_decide_eq_false h16; exact decide_eq_true (by omega)
  · cases hz : (p.delAfter == 0) with
    | true => rfl
    | false =>
      simp only [bne, hz, Bool.not_false, Bool.true_and, decide_eq_false_iff_not] at h17
      simp only [Bool.false_or, decide_eq_true_eq]; omega
  · exact (by decide : ∀ a b : Bool, (!a && b) = false → (!!a || !b) = true) _ _ h18
  · exact (by decide : ∀ a b c : Bool, ((!a || !b) && !c) = false → (!(!a || !b) || c) = true) _ _ _ h19
  · exact (by decide : ∀ a : Bool, (!a) = false → a = true) _ hU


/-- what the source switch may change in a path -/
def Frame (p p' : PathV) : Prop :=
  ∃ ov hp hl mq pn, p' = { p with overridePublisher := ov, hwProfile := hp, hwLevel := hl, mjpegQ := mq, primaryName := pn }

theorem not_eq_false_true {a : Bool} (h : (!a) = false) : a = true := by cases a <;> simp_all

/-- the checks of the rpiCamera arm give all `pcSource` constraints for the path it returns -/
theorem rpi_pcSource {p : PathV} (ov : Bool) (mq : Nat) (pn : Str)
    (hk : srcKind p.source = .rpiCamera)
    (h1 : (p.width == 0) = false) (h2 : (p.height == 0) = false)
    (h3 : ((p.codec == b!"mjpeg" || p.secondary && p.codec == b!"auto") && (decide (p.width ≥ 2048) || p.width % 8 != 0)) = false)
    (h4 : ((p.codec == b!"mjpeg" || p.secondary && p.codec == b!"auto") && (decide (p.height ≥ 2048) || p.height % 8 != 0)) = false)
    (h5 : (![b!"normal", b!"short", b!"long", b!"custom"].contains p.exposure) = false)
    (h6 : (![b!"auto", b!"incandescent", b!"tungsten", b!"fluorescent", b!"indoor", b!"daylight", b!"cloudy",
        b!"custom"].contains p.awb) = false)
    (h7 : (p.awbGains != 2) = false)
    (h8 : (![b!"off", b!"cdn_off", b!"cdn_fast", b!"cdn_hq"].contains p.denoise) = false)
    (h9 : (![b!"centre", b!"spot", b!"matrix", b!"custom"].contains p.metering) = false)
    (h10 : (![b!"auto", b!"manual", b!"continuous"].contains p.afMode) = false)
    (h11 : (![b!"normal", b!"macro", b!"full"].contains p.afRange) = false)
    (h12 : (![b!"normal", b!"fast"].contains p.afSpeed) = false)
    (h13 : (!optIn (p.profile.or p.hwProfile) profiles3) = false)
    (h14 : (!optIn (p.level.or p.hwLevel) levels3) = false)
    (h15 : (!optIn p.swProfile profiles3) = false)
    (h16 : (!optIn p.swLevel levels3) = false)
    (h17 : (!(b!"auto" :: profiles3).contains p.h264Profile) = false)
    (h18 : (!levels3.contains p.h264Level) = false)
    (h19 : (![b!"auto", b!"hardwareH264", b!"softwareH264", b!"mjpeg"].contains p.codec) = false) :
    ∀ k ∈ pcSource, k.2 { p with overridePublisher := ov, hwProfile := p.profile.or p.hwProfile,
                                 hwLevel := p.level.or p.hwLevel, mjpegQ := mq, primaryName := pn } = true := by
  intro k hk'
  simp only [pcSource, List.mem_cons, List.not_mem_nil, or_false] at hk'
  rcases hk' with rfl | rfl | rfl | rfl | rfl | rfl
  all_goals (simp only [imp, hk])
  · decide
  · rfl
  · rfl
  · rfl
  · rfl
  · have hw : decide (p.width < 2048) = !decide (p.width ≥ 2048) := by
      by_cases h : p.width < 2048 <;> simp [h, Nat.not_le.mpr, Nat.not_lt.mp] <;> omega
    have hh : decide (p.height < 2048) = !decide (p.height ≥ 2048) := by
      by_cases h : p.height < 2048 <;> simp [h] <;> omega
    rw [hw, hh]
    have e7 : (p.awbGains == 2) = true := by simpa [bne] using h7
    simp only [not_eq_false_true h5, not_eq_false_true h6, not_eq_false_true h8, not_eq_false_true h9,
      not_eq_false_true h10, not_eq_false_true h11, not_eq_false_true h12, not_eq_false_true h13,
      not_eq_false_true h14, not_eq_false_true h15, not_eq_false_true h16, not_eq_false_true h17,
      not_eq_false_true h18, not_eq_false_true h19, e7, Bool.and_true, bne, h1, h2, Bool.not_false, Bool.true_and,
      BEq.rfl, Bool.not_true, Bool.false_or]
    exact (by decide : ∀ mj wg wm hg hm : Bool, (mj && (wg || !wm)) = false → (mj && (hg || !hm)) = false →
      (!mj || (!wg && wm && !hg && hm)) = true) _ _ _ _ _ h3 h4

theorem frame_refl (p : PathV) : Frame p p := ⟨p.overridePublisher, p.hwProfile, p.hwLevel, p.mjpegQ, p.primaryName, rfl⟩

theorem validateRpi_ok {all : List PathV} {p p' : PathV} {prim : Option Str}
    (hk : srcKind p.source = .rpiCamera) (h : validateRpi all p = .ok (p', prim)) :
    Frame p p' ∧ (∀ k ∈ pcSource, k.2 p' = true) ∧
    (p.secondary = false → all.any (isPrimaryFor p) = false ∧ prim = none) ∧
    (p.secondary = true → ∃ q, all.find? (isPrimaryFor p) = some q ∧ p'.primaryName = q.name ∧ prim = some q.name) := by
  simp only [validateRpi, chk_ok] at h
  obtain ⟨h1, h2, h3, h4, h5, h6, h7, h8, h9, h10, h11, h12, h13, h14, h15, h16, h17, h18, h19, hr⟩ := h
  rcases Bool.eq_false_or_eq_true p.secondary with hs | hs
  case inr =>
    rw [if_pos (by simp [hs])] at hr
    simp only [chk_ok] at hr
    obtain ⟨ha, hr⟩ := hr
    injection hr with hr
    injection hr with hp hprim
    subst hp; subst hprim
    refine ⟨⟨_, _, _, _, _, rfl⟩, ?_, fun _ => ⟨ha, rfl⟩, fun hc => by simp [hs] at hc⟩
    exact rpi_pcSource _ _ _ hk h1 h2 h3 h4 h5 h6 h7 h8 h9 h10 h11 h12 h13 h14 h15 h16 h17 h18 h19
  case inl =>
    rw [if_neg (by simp [hs])] at hr
    cases hf : all.find? (isPrimaryFor p) with
    | none => simp [hf] at hr
    | some q =>
      simp only [hf, chk_ok] at hr
      obtain ⟨_, hr⟩ := hr
      injection hr with hr
      injection hr with hp hprim
      subst hp; subst hprim
      refine ⟨⟨_, _, _, _, _, rfl⟩, ?_, fun hc => by simp [hs] at hc, fun _ => ⟨q, rfl, rfl, rfl⟩⟩
      exact rpi_pcSource _ _ _ hk h1 h2 h3 h4 h5 h6 h7 h8 h9 h10 h11 h12 h13 h14 h15 h16 h17 h18 h19


/-- the non-rpiCamera arms: the `pcSource` constraints follow from the arm taken and its checks -/
theorem pcSource_of_kind {p : PathV} (ov : Bool) {K : SrcKind} (hk : srcKind p.source = K)
    (hinv : K ≠ .invalid) (hrpi : K ≠ .rpiCamera)
    (hurl : (K = .url ∨ K = .urlPort ∨ K = .udpRtp) → p.urlOk = true)
    (hport : (K = .urlPort ∨ K = .udpRtp) → p.hostPortOk = true)
    (hsdp : (K = .udpRtp ∨ K = .unixRtp) → p.sdpEmpty = false)
    (hred : K = .redirect → p.redirect.isEmpty = false ∧ p.redirectOk = true) :
    ∀ k ∈ pcSource, k.2 { p with overridePublisher := ov } = true := by
  intro k hk'
  simp only [pcSource, List.mem_cons, List.not_mem_nil, or_false] at hk'
  rcases hk' with rfl | rfl | rfl | rfl | rfl | rfl
  all_goals (simp only [imp, hk])
  · cases K <;> simp_all
  · cases K <;> simp_all
  · cases K <;> simp_all
  · cases K <;> simp_all
  · cases K <;> simp_all
  · cases K <;> simp_all

theorem validateSource_ok {all : List PathV} {p p' : PathV} {prim : Option Str}
    (h : validateSource all p = .ok (p', prim)) :
    Frame p p' ∧ (∀ k ∈ pcSource, k.2 p' = true) ∧
    (srcKind p.source = .publisher → (p.srtPubPass.isEmpty || !passLenBad p.srtPubPass) = true) ∧
    (srcKind p.source = .rpiCamera → p.secondary = false → all.any (isPrimaryFor p) = false) ∧
    (srcKind p.source = .rpiCamera → p.secondary = true →
        ∃ q, all.find? (isPrimaryFor p) = some q ∧ p'.primaryName = q.name ∧ prim = some q.name) ∧
    (¬ (srcKind p.source = .rpiCamera ∧ p.secondary = true) → prim = none) := by
  unfold validateSource at h
  split at h
  next hk =>
    simp only [chk_ok] at h
    obtain ⟨h1, h⟩ := h
    injection h with h; injection h with hp hprim; subst hp; subst hprim
    refine ⟨⟨_, _, _, _, _, rfl⟩, pcSource_of_kind _ hk (by simp) (by simp) (by simp) (by simp) (by simp) (by simp), ?_,
      by simp [hk], by simp [hk], fun _ => rfl⟩
    intro _
    exact (by decide : ∀ a b : Bool, (!a && b) = false → (a || !b) = true) _ _ h1
  next hk =>
    simp only [chk_ok] at h
    obtain ⟨h1, h⟩ := h
    injection h with h; injection h with hp hprim; subst hp; subst hprim
    refine ⟨frame_refl _, ?_, by simp [hk], by simp [hk], by simp [hk], fun _ => rfl⟩
    have := pcSource_of_kind (p := p) p.overridePublisher hk (by simp) (by simp) (by simp_all) (by simp_all) (by simp_all) (by simp_all)
    exact this
  next hk =>
    simp only [chk_ok] at h
    obtain ⟨h1, h2, h⟩ := h
    injection h with h; injection h with hp hprim; subst hp; subst hprim
    refine ⟨frame_refl _, ?_, by simp [hk], by simp [hk], by simp [hk], fun _ => rfl⟩
    have := pcSource_of_kind (p := p) p.overridePublisher hk (by simp) (by simp) (by simp_all) (by simp_all) (by simp_all) (by simp_all)
    exact this
  next hk =>
    injection h with h; injection h with hp hprim; subst hp; subst hprim
    refine ⟨frame_refl _, ?_, by simp [hk], by simp [hk], by simp [hk], fun _ => rfl⟩
    exact pcSource_of_kind (p := p) p.overridePublisher hk (by simp) (by simp) (by simp) (by simp) (by simp) (by simp)
  next hk =>
    simp only [chk_ok] at h
    obtain ⟨h1, h2, h3, h⟩ := h
    injection h with h; injection h with hp hprim; subst hp; subst hprim
    refine ⟨frame_refl _, ?_, by simp [hk], by simp [hk], by simp [hk], fun _ => rfl⟩
    have := pcSource_of_kind (p := p) p.overridePublisher hk (by simp) (by simp) (by simp_all) (by simp_all) (by simp_all) (by simp_all)
    exact this
  next hk =>
    simp only [chk_ok] at h
    obtain ⟨h1, h⟩ := h
    injection h with h; injection h with hp hprim; subst hp; subst hprim
    refine ⟨frame_refl _, ?_, by simp [hk], by simp [hk], by simp [hk], fun _ => rfl⟩
    have := pcSource_of_kind (p := p) p.overridePublisher hk (by simp) (by simp) (by simp_all) (by simp_all) (by simp_all) (by simp_all)
    exact this
  next hk =>
    simp only [chk_ok] at h
    obtain ⟨h1, h2, h⟩ := h
    injection h with h; injection h with hp hprim; subst hp; subst hprim
    refine ⟨frame_refl _, ?_, by simp [hk], by simp [hk], by simp [hk], fun _ => rfl⟩
    have := pcSource_of_kind (p := p) p.overridePublisher hk (by simp) (by simp) (by simp_all) (by simp_all) (by simp_all) (by simp_all)
    exact this
  next hk =>
    obtain ⟨hf, hc, hp1, hp2⟩ := validateRpi_ok hk h
    refine ⟨hf, hc, by simp [hk], fun _ hs => (hp1 hs).1, fun _ hs => hp2 hs, ?_⟩
    intro hn
    rcases Bool.eq_false_or_eq_true p.secondary with hs | hs
    · exact absurd ⟨hk, hs⟩ hn
    · exact (hp1 hs).2
  next hk => simp at h

theorem srcKind_publisher {s : Str} (h : (s == sPublisher) = true) : srcKind s = .publisher := by
  unfold srcKind; simp [h]

theorem validatePath_ok {pb dep : Bool} {all : List PathV} {p : PathV} {r : PathRes}
    (h : validatePath pb dep all p = .ok r) :
    Frame p r.self ∧ (∀ k ∈ pathConstraints pb, k.2 r.self = true) ∧
    r.newUsers = (if dep then pathUsers r.self else []) ∧
    (srcKind p.source = .rpiCamera → p.secondary = false → all.any (isPrimaryFor p) = false) ∧
    (srcKind p.source = .rpiCamera → p.secondary = true →
        ∃ q, all.find? (isPrimaryFor p) = some q ∧ r.self.primaryName = q.name ∧ r.primary = some q.name) ∧
    (¬ (srcKind p.source = .rpiCamera ∧ p.secondary = true) → r.primary = none) := by
  simp only [validatePath, chk_ok] at h
  obtain ⟨n1, n2, t1, t2, h⟩ := h
  cases hv : validateSource all p with
  | error e => simp [hv] at h
  | ok pr =>
    obtain ⟨p', prim⟩ := pr
    simp only [hv] at h
    obtain ⟨hself, hprim, hus, hrest⟩ := validateRest_ok h
    obtain ⟨hf, hsrc, hpub, hr1, hr2, hr3⟩ := validateSource_ok hv
    rw [hself, hprim, hus]
    refine ⟨hf, ?_, rfl, hr1, hr2, hr3⟩
    obtain ⟨ov, hp, hl, mq, pn, rfl⟩ := hf
    intro k hk
    simp only [pathConstraints, List.mem_append] at hk
    rcases hk with ((hk | hk) | hk) | hk
    · simp only [pcName, List.mem_cons, List.not_mem_nil, or_false] at hk
      subst hk
      exact (by decide : ∀ a1 a2 a3 rg nv ro : Bool, (!(a1 || a2) && !rg && !nv) = false → (!(a1 || a2) && rg && !ro) = false →
        (a2 || a1 || a3 || (if rg = true then ro else nv)) = true) _ _ _ _ _ _ n1 n2
    · exact hsrc k hk
    · simp only [pcTop, List.mem_cons, List.not_mem_nil, or_false] at hk
      rcases hk with rfl | rfl
      · exact (by decide : ∀ a b : Bool, (!a && !b) = false → (!!b || a) = true) _ _ t2
      · simp only [imp]
        cases he : p.srtPubPass.isEmpty with
        | true => rfl
        | false =>
          have hp : (p.source == sPublisher) = true := by
            have := t1; simp only [he, bne] at this; simpa using this
          have := hpub (srcKind_publisher hp)
          simp only [he, Bool.false_or] at this
          simp [hp, this]
    · exact hrest k hk


/-! ### the loop over the paths -/

/-- the fields of a path that no validation step changes and that the cross-path checks read -/
def key (p : PathV) : Str × Str × Nat × Bool × Bool × Nat := (p.name, p.source, p.camID, p.secondary, p.depc, p.udpRange)

/-- a path without the fields written by ANOTHER path's validation (`primary.RPICameraSecondary… = …`) -/
def core (p : PathV) : PathV :=
  { p with secW := 0, secH := 0, secMjpegQ := 0, secCodec := [], secIdr := 0, secBitrate := 0,
           secProfile := [], secLevel := [] }

theorem key_core (p : PathV) : key (core p) = key p := rfl
theorem key_of_core_eq {a b : PathV} (h : core a = core b) : key a = key b := by
  rw [← key_core a, ← key_core b, h]
theorem core_attach (s q : PathV) : core (attach s q) = core q := rfl
theorem key_attach (s q : PathV) : key (attach s q) = key q := rfl
theorem key_frame {p p' : PathV} (h : Frame p p') : key p' = key p := by
  obtain ⟨_, _, _, _, _, rfl⟩ := h; rfl
theorem name_of_key {a b : PathV} (h : key a = key b) : a.name = b.name := congrArg (·.1) h

def UniqNames (ps : List PathV) : Prop := ∀ q ∈ ps, ∀ p ∈ ps, q.name = p.name → q = p

theorem uniq_of_nodup : ∀ (ps : List PathV), (ps.map (·.name)).Nodup → UniqNames ps
  | [], _ => by intro q hq; cases hq
  | a :: l, h => by
    simp only [List.map_cons, List.nodup_cons, List.mem_map, not_exists, not_and] at h
    have ih := uniq_of_nodup l h.2
    intro q hq p hp hqp
    rcases List.mem_cons.mp hq with e1 | hq' <;> rcases List.mem_cons.mp hp with e2 | hp'
    · rw [e1, e2]
    · exact absurd (by rw [← hqp, e1]) (h.1 p hp')
    · exact absurd (by rw [hqp, e2]) (h.1 q hq')
    · exact ih q hq' p hp' hqp

/-- one step of the loop rewrites the list pointwise -/
def stepFn (r : PathRes) (q : PathV) : PathV :=
  if q.name == r.self.name then r.self
  else if r.primary == some q.name then attach r.self q
  else q

theorem applyRes_eq (ps : List PathV) (r : PathRes) : applyRes ps r = ps.map (stepFn r) := rfl

/-- `q'` is (up to the fields another path's validation writes) the result of a successful `validatePath`
call against a path list with the key list `ks` -/
def Good (pb dep : Bool) (ks : List (Str × Str × Nat × Bool × Bool × Nat)) (q' : PathV) : Prop :=
  ∃ all p r, all.map key = ks ∧ p ∈ all ∧ validatePath pb dep all p = .ok r ∧ core q' = core r.self

theorem validatePaths_ok (pb dep : Bool) : ∀ (todo : List Str) (ps : List PathV) (us : List User)
    (ps' : List PathV) (us' : List User),
    validatePaths pb dep todo ps us = .ok (ps', us') → UniqNames ps →
    ∃ g : PathV → PathV, ps' = ps.map g ∧ (dep = false → us' = us) ∧
      ∀ q ∈ ps, key (g q) = key q ∧ (q.name ∈ todo → Good pb dep (ps.map key) (g q)) ∧
        (q.name ∉ todo → core (g q) = core q)
  | [], ps, us, ps', us', h, _ => by
    simp only [validatePaths] at h
    injection h with h; injection h with h1 h2
    subst h1; subst h2
    exact ⟨id, by simp, fun _ => rfl, fun q _ => ⟨rfl, ⟨fun hc => absurd hc List.not_mem_nil, fun _ => rfl⟩⟩⟩
  | n :: ns, ps, us, ps', us', h, hu => by
    unfold validatePaths at h
    cases hfind : ps.find? (fun x => x.name == n) with
    | none => simp [hfind] at h
    | some p =>
      simp only [hfind] at h
      cases hv : validatePath pb dep ps p with
      | error e => simp [hv] at h
      | ok r =>
        simp only [hv] at h
        have hp : p ∈ ps := List.mem_of_find?_eq_some hfind
        have hpn : p.name = n := by have := List.find?_some hfind; simpa using this
        obtain ⟨hf, _, hnu, _, _, _⟩ := validatePath_ok hv
        have hkr : key r.self = key p := key_frame hf
        have hrn : r.self.name = n := (name_of_key hkr).trans hpn
        -- the step preserves keys
        have hkf : ∀ q ∈ ps, key (stepFn r q) = key q := by
          intro q hq
          unfold stepFn
          split
          · next hc =>
            have : q.name = p.name := by rw [hpn, ← hrn]; simpa using hc
            rw [hu q hq p hp this]; exact hkr
          · split
            · exact key_attach _ _
            · rfl
        have hkeys : (ps.map (stepFn r)).map key = ps.map key := by
          rw [List.map_map]; exact List.map_congr_left (fun q hq => hkf q hq)
        have hu1 : UniqNames (ps.map (stepFn r)) := by
          intro a ha b hb hab
          obtain ⟨q, hq, rfl⟩ := List.mem_map.mp ha
          obtain ⟨q2, hq2, rfl⟩ := List.mem_map.mp hb
          have : q.name = q2.name := by
            rw [← name_of_key (hkf q hq), ← name_of_key (hkf q2 hq2)]; exact hab
          rw [hu q hq q2 hq2 this]
        rw [applyRes_eq] at h
        obtain ⟨g1, hps', hus', hg1⟩ := validatePaths_ok pb dep ns (ps.map (stepFn r)) (us ++ r.newUsers) ps' us' h hu1
        refine ⟨g1 ∘ stepFn r, by rw [hps', List.map_map], ?_, ?_⟩
        · intro hd
          rw [hus' hd, hnu, hd]; simp
        · intro q hq
          have hfq : stepFn r q ∈ ps.map (stepFn r) := List.mem_map_of_mem hq
          obtain ⟨k1, k2, k3⟩ := hg1 _ hfq
          have hname : (stepFn r q).name = q.name := name_of_key (hkf q hq)
          refine ⟨by simp only [Function.comp]; rw [k1, hkf q hq], ?_, ?_⟩
          · intro hmem
            simp only [Function.comp]
            by_cases hns : q.name ∈ ns
            · have := k2 (by rw [hname]; exact hns)
              rw [hkeys] at this; exact this
            · have hqn : q.name = n := by
                rcases List.mem_cons.mp hmem with h | h
                · exact h
                · exact absurd h hns
              have hst : stepFn r q = r.self := by
                unfold stepFn; rw [if_pos]; rw [hqn, hrn]; simp
              have := k3 (by rw [hname]; exact hns)
              rw [hst] at this
              exact ⟨ps, p, r, rfl, hp, hv, by rw [hst]; exact this⟩
          · intro hnm
            simp only [Function.comp]
            have hns : q.name ∉ ns := fun h => hnm (List.mem_cons_of_mem _ h)
            have hne : q.name ≠ n := fun h => hnm (h ▸ List.mem_cons_self)
            rw [k3 (by rw [hname]; exact hns)]
            unfold stepFn
            rw [if_neg (by rw [hrn]; simpa using hne)]
            split
            · exact core_attach _ _
            · rfl


theorem srcKind_rpi {s : Str} (h : (s == sRpiCamera) = true) : srcKind s = .rpiCamera := by
  have : s = sRpiCamera := by simpa using h
  subst this; decide

theorem pathConstraint_core (pb : Bool) : ∀ k ∈ pathConstraints pb, ∀ p, k.2 (core p) = k.2 p := by
  intro k hk p
  simp only [pathConstraints, pcName, pcSource, pcTop, pcRest, List.mem_append, List.mem_cons, List.not_mem_nil, or_false] at hk
  rcases hk with ((hk | hk) | hk) | hk
  · subst hk; rfl
  · rcases hk with rfl | rfl | rfl | rfl | rfl | rfl <;> rfl
  · rcases hk with rfl | rfl <;> rfl
  · rcases hk with rfl | rfl | rfl | rfl | rfl | rfl | rfl | rfl | rfl | rfl | rfl | rfl | rfl | rfl <;> rfl

theorem any_depc_of_keys : ∀ (a b : List PathV), a.map key = b.map key → a.any (·.depc) = b.any (·.depc)
  | [], [], _ => rfl
  | [], _ :: _, h => by simp at h
  | _ :: _, [], h => by simp at h
  | x :: a, y :: b, h => by
    simp only [List.map_cons, List.cons.injEq] at h
    have e : x.depc = y.depc := by have := h.1; simp only [key, Prod.mk.injEq] at this; exact this.2.2.2.2.1
    simp only [List.any_cons, e, any_depc_of_keys a b h.2]

theorem names_of_keys {a b : List PathV} (h : a.map key = b.map key) : a.map (·.name) = b.map (·.name) := by
  have := congrArg (List.map (·.1)) h
  simpa [List.map_map, Function.comp_def, key] using this

theorem alias_count (l : List PathV) :
    (l.filter (fun p => isAlias p.name)).length = ((l.map (·.name)).filter isAlias).length := by
  rw [List.filter_map, List.length_map]; rfl

/-- the global-only constraints are insensitive to the path list, and to the user list unless no legacy
credentials are in use -/
theorem globalOnly_congr {g : ConfV} {ps' : List PathV} {us : List User}
    (hd : depMode { g with paths := ps', users := us } = depMode g) (hu : depMode g = false → us = g.users) :
    ∀ k ∈ globalOnlyConstraints, k.2 g = true → k.2 { g with paths := ps', users := us } = true := by
  intro k hk hg
  simp only [globalOnlyConstraints, List.mem_cons, List.not_mem_nil, or_false] at hk
  rcases hk with rfl | rfl | rfl | rfl | rfl | rfl | rfl | rfl | rfl | rfl | rfl | rfl | rfl
  · exact hg
  · exact hg
  · exact hg
  · exact hg
  · simp only [imp] at hg ⊢
    rw [hd]
    cases hdm : depMode g with
    | true => simp
    | false => rw [hu hdm]; rw [hdm] at hg; exact hg
  · exact hg
  · exact hg
  · exact hg
  · exact hg
  · simp only [imp] at hg ⊢
    rw [hd]
    cases hdm : depMode g with
    | true => simpa [hdm] using hg
    | false => rw [hu hdm]; rw [hdm] at hg; exact hg
  · exact hg
  · exact hg
  · exact hg


theorem key_fields {a b : PathV} (h : key a = key b) :
    a.name = b.name ∧ a.source = b.source ∧ a.camID = b.camID ∧ a.secondary = b.secondary := by
  simp only [key, Prod.mk.injEq] at h
  exact ⟨h.1, h.2.1, h.2.2.1, h.2.2.2.1⟩

theorem isPrimaryFor_keys {p p2 q q2 : PathV} (hp : key p = key p2) (hq : key q = key q2) :
    isPrimaryFor p q = isPrimaryFor p2 q2 := by
  obtain ⟨a1, _, a3, _⟩ := key_fields hp
  obtain ⟨b1, b2, b3, b4⟩ := key_fields hq
  unfold isPrimaryFor; rw [a1, a3, b1, b2, b3, b4]

theorem mem_of_keys {a b : List PathV} (h : a.map key = b.map key) {q : PathV} (hq : q ∈ a) :
    ∃ q2 ∈ b, key q2 = key q := by
  have : key q ∈ b.map key := h ▸ List.mem_map_of_mem hq
  obtain ⟨q2, h2, e⟩ := List.mem_map.mp this
  exact ⟨q2, h2, e⟩

/-- all paths "good" w.r.t. their own key list ⇒ primary rpiCamera streams have distinct camera ids -/
theorem rpiUnique_of_good {pb dep : Bool} {ps : List PathV}
    (hg : ∀ q ∈ ps, Good pb dep (ps.map key) q) : rpiUnique ps = true := by
  unfold rpiUnique
  simp only [List.all_eq_true, imp, Bool.or_eq_true, Bool.not_eq_true', beq_iff_eq]
  intro p' hp'
  by_cases hprim : isRpiPrimary p' = true
  · right
    intro q' hq'
    by_cases hq2 : isRpiPrimary q' = true ∧ q'.camID = p'.camID
    · right
      obtain ⟨all, p, r, hks, hpa, hv, hcore⟩ := hg p' hp'
      obtain ⟨hf, _, _, hr1, _, _⟩ := validatePath_ok hv
      have hkp : key p' = key p := (key_of_core_eq hcore).trans (key_frame hf)
      obtain ⟨n1, n2, n3, n4⟩ := key_fields hkp
      simp only [isRpiPrimary, Bool.and_eq_true, Bool.not_eq_true'] at hprim hq2
      have hany := hr1 (srcKind_rpi (by rw [← n2]; exact hprim.1)) (by rw [← n4]; exact hprim.2)
      obtain ⟨q0, hq0, hk0⟩ := mem_of_keys hks.symm hq'
      have h0 : isPrimaryFor p q0 = false := by
        have := List.any_eq_false.mp hany q0 hq0; simpa using this
      rw [isPrimaryFor_keys hkp.symm hk0] at h0
      simp only [isPrimaryFor, hq2.1.1, hq2.1.2, hq2.2, bne, Bool.not_false, Bool.and_true, beq_self_eq_true,
        Bool.not_eq_false', beq_iff_eq] at h0
      exact h0
    · left
      cases h1 : isRpiPrimary q' <;> simp_all
  · left; simpa using hprim

/-- … and every secondary stream has its primary stream -/
theorem rpiSecondary_of_good {pb dep : Bool} {ps : List PathV}
    (hg : ∀ q ∈ ps, Good pb dep (ps.map key) q) : rpiSecondaryHasPrimary ps = true := by
  unfold rpiSecondaryHasPrimary
  simp only [List.all_eq_true, imp, Bool.or_eq_true, Bool.not_eq_true']
  intro s' hs'
  by_cases hsec : isRpiSecondary s' = true
  · right
    obtain ⟨all, p, r, hks, hpa, hv, hcore⟩ := hg s' hs'
    obtain ⟨hf, _, _, _, hr2, _⟩ := validatePath_ok hv
    have hkp : key s' = key p := (key_of_core_eq hcore).trans (key_frame hf)
    obtain ⟨n1, n2, n3, n4⟩ := key_fields hkp
    simp only [isRpiSecondary, Bool.and_eq_true] at hsec
    obtain ⟨q0, hfind, hpn, _⟩ := hr2 (srcKind_rpi (by rw [← n2]; exact hsec.1)) (by rw [← n4]; exact hsec.2)
    have hq0 : q0 ∈ all := List.mem_of_find?_eq_some hfind
    have hq0p : isPrimaryFor p q0 = true := List.find?_some hfind
    obtain ⟨q', hq', hk'⟩ := mem_of_keys hks hq0
    obtain ⟨m1, m2, m3, m4⟩ := key_fields hk'
    have hprimName : s'.primaryName = r.self.primaryName := congrArg (·.primaryName) hcore
    simp only [isPrimaryFor, Bool.and_eq_true, Bool.not_eq_true', beq_iff_eq] at hq0p
    rw [List.any_eq_true]
    refine ⟨q', hq', ?_⟩
    simp only [isRpiPrimary, Bool.and_eq_true, Bool.not_eq_true', beq_iff_eq]
    refine ⟨⟨⟨by rw [m2]; simpa using hq0p.1.1.2, by rw [m4]; exact hq0p.2⟩, by rw [m3, hq0p.1.2, n3]⟩, ?_⟩
    rw [m1, hprimName, hpn]
  · left; simpa using hsec


theorem violations_nil {c : ConfV} (hg : ∀ k ∈ globalConstraints, k.2 c = true)
    (hp : ∀ p ∈ c.paths, ∀ k ∈ pathConstraints c.playback, k.2 p = true) : constraints c = true := by
  unfold constraints violations
  have h1 : globalConstraints.filter (fun k => !k.2 c) = [] := by
    rw [List.filter_eq_nil_iff]; intro k hk; simp [hg k hk]
  have h2 : (c.paths.flatMap fun p => ((pathConstraints c.playback).filter (fun k => !k.2 p)).map (·.1)) = [] := by
    rw [List.flatMap_eq_nil_iff]
    intro p hpm
    have : (pathConstraints c.playback).filter (fun k => !k.2 p) = [] := by
      rw [List.filter_eq_nil_iff]; intro k hk; simp [hp p hpm k hk]
    rw [this]; rfl
  rw [h1, h2]; rfl

theorem remerge_key (c : ConfV) (p : PathV) : key (remerge c p) = key p := rfl


end MtxVerif.C10
