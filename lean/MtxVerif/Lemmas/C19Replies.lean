/-
PathSM, request accounting (C19): every helper conserves "replies given + requests on hold";
the only places where the sum grows are the two request entry points.
-/
import MtxVerif.Lemmas.C18PathSM

namespace MtxVerif.PathSM

/-- request ids answered in an output list (with multiplicity) -/
def replyIds (out : List Out) : List Nat :=
  out.filterMap fun o => match o with | .reply rid _ => some rid | _ => none

/-- request ids on hold (with multiplicity) -/
def pending (s : State) : List Nat := s.descHold ++ s.readHold.map (·.1)

/-- answers so far in this step + still on hold -/
def tot (rid : Nat) (w : W) : Nat := (replyIds w.out).count rid + (pending w.s).count rid

@[simp] theorem replyIds_nil : replyIds [] = [] := rfl
@[simp] theorem replyIds_append (a b : List Out) : replyIds (a ++ b) = replyIds a ++ replyIds b := by
  simp [replyIds]
@[simp] theorem replyIds_reply (rid : Nat) (k : ReplyKind) : replyIds [.reply rid k] = [rid] := rfl
@[simp] theorem replyIds_cons (o : Out) (l : List Out) :
    replyIds (o :: l) = (match o with | .reply rid _ => [rid] | _ => []) ++ replyIds l := by
  cases o <;> simp [replyIds]

/-- a helper that neither answers a request nor touches the hold lists -/
def Silent (f : W → W) : Prop :=
  ∀ w, replyIds (f w).out = replyIds w.out ∧ (f w).s.descHold = w.s.descHold ∧ (f w).s.readHold = w.s.readHold

theorem Silent.tot {f : W → W} (h : Silent f) (rid : Nat) (w : W) : tot rid (f w) = tot rid w := by
  obtain ⟨h1, h2, h3⟩ := h w
  simp [PathSM.tot, pending, h1, h2, h3]

theorem Silent.comp {f g : W → W} (hf : Silent f) (hg : Silent g) : Silent (fun w => g (f w)) := by
  intro w
  obtain ⟨a1, a2, a3⟩ := hf w
  obtain ⟨b1, b2, b3⟩ := hg (f w)
  exact ⟨b1.trans a1, b2.trans a2, b3.trans a3⟩

/-- tactic for the routine cases: unfold, split, simplify -/
macro "silent" : tactic =>
  `(tactic| (intro w; dsimp only; (repeat' split) <;> simp_all [emit, upd, panic]))

theorem silent_setOffline : Silent setOffline := by unfold setOffline; silent
theorem silent_setOnline : Silent setOnline := by
  intro w
  obtain ⟨a1, a2, a3⟩ := silent_setOffline w
  simp [setOnline, a1, a2, a3]
theorem silent_setAvailable : Silent setAvailable := by
  intro w
  unfold setAvailable
  dsimp only
  split
  · simp
  · obtain ⟨a1, a2, a3⟩ := silent_setOnline
      (emit (.hook .avail true) (upd (fun s => { s with hkAvail := true })
        (upd (fun s => { s with stream := some s.nextStream, nextStream := s.nextStream + 1 }) w)))
    simp [a1, a2, a3]
theorem silent_closeReaders : Silent closeReaders := by
  intro w
  have : ∀ l : List Nat, replyIds (l.map Out.readerClosed) = [] := by
    intro l; induction l with
    | nil => rfl
    | cons x xs ih => simp [ih]
  simp [closeReaders, this]
theorem silent_setNotAvailable : Silent setNotAvailable := by
  intro w
  unfold setNotAvailable
  dsimp only
  obtain ⟨a1, a2, a3⟩ := silent_setOffline (emit .pathNotReady w)
  obtain ⟨b1, b2, b3⟩ := silent_closeReaders (setOffline (emit .pathNotReady w))
  split <;> simp_all [panic, emit, upd]
theorem silent_executeRemovePublisher : Silent executeRemovePublisher := by
  intro w
  unfold executeRemovePublisher startOffline
  dsimp only
  obtain ⟨a1, a2, a3⟩ := silent_setOffline w
  obtain ⟨b1, b2, b3⟩ := silent_setNotAvailable w
  split <;> simp_all [upd]
theorem silent_srcStart : Silent srcStart := by unfold srcStart; silent
theorem silent_srcStop : Silent srcStop := by unfold srcStop; silent
theorem silent_onDemandStaticSourceStop : Silent onDemandStaticSourceStop := by
  intro w
  unfold onDemandStaticSourceStop
  dsimp only
  split
  · obtain ⟨a1, a2, a3⟩ := silent_srcStop (upd (fun s => { s with odSrc := .initial })
      (emit (.disarm .srcClose) (upd (fun s => { s with tSrcClose := false }) w)))
    simp_all [replyIds, emit, upd]
  · obtain ⟨a1, a2, a3⟩ := silent_srcStop (upd (fun s => { s with odSrc := .initial }) w)
    simp_all [upd]
theorem silent_onDemandPublisherStop : Silent onDemandPublisherStop := by
  unfold onDemandPublisherStop; silent
theorem silent_onDemandPublisherWaitAgain : Silent onDemandPublisherWaitAgain := by
  unfold onDemandPublisherWaitAgain; silent
theorem silent_holdDemand : Silent holdDemand := by
  intro w
  unfold holdDemand onDemandStaticSourceStart onDemandPublisherStart
  split
  · split
    · obtain ⟨a1, a2, a3⟩ := silent_srcStart w
      simp_all [emit, upd]
    · simp
  · split
    · simp
    · exact silent_onDemandPublisherWaitAgain w
theorem silent_closeCheck : Silent closeCheck := by unfold closeCheck; silent
theorem silent_subErrCleanup : Silent subErrCleanup := by
  intro w; unfold subErrCleanup; split
  · simp
  · exact silent_setNotAvailable w
theorem silent_closeSource (s0 : State) : Silent (closeSource s0) := by
  intro w; unfold closeSource
  split
  · split
    · exact silent_srcStop w
    · simp
  · simp
  · simp

/-! ### the helpers that answer -/

theorem tot_replyStream (rid rid' : Nat) (w : W) :
    tot rid' (replyStream rid w) = tot rid' w + (if rid = rid' then 1 else 0) := by
  unfold replyStream tot pending
  split <;> (simp [List.count_cons]; omega)

theorem tot_replyReader (rid r rid' : Nat) (w : W) :
    tot rid' (replyReader rid r w) = tot rid' w + (if rid = rid' then 1 else 0) := by
  unfold replyReader tot pending register
  split <;> (simp [List.count_cons]; omega)

theorem tot_addReaderPost (rid r rid' : Nat) (w : W) :
    tot rid' (addReaderPost rid r w) = tot rid' w + (if rid = rid' then 1 else 0) := by
  unfold addReaderPost
  dsimp only
  split
  · exact tot_replyReader _ _ _ _
  split
  · unfold tot pending; simp [List.count_cons]; omega
  · rw [tot_replyReader]
    congr 1
    unfold tot pending
    (repeat' split) <;> simp

theorem tot_foldl_desc (rid' : Nat) (l : List Nat) : ∀ w : W,
    tot rid' (l.foldl (fun w rid => replyStream rid w) w) = tot rid' w + l.count rid' := by
  induction l with
  | nil => intro w; simp
  | cons x xs ih => intro w; rw [List.foldl_cons, ih, tot_replyStream, List.count_cons]; simp; omega

theorem tot_foldl_read (rid' : Nat) (l : List (Nat × Nat)) : ∀ w : W,
    tot rid' (l.foldl (fun w (x : Nat × Nat) => addReaderPost x.1 x.2 w) w) = tot rid' w + (l.map (·.1)).count rid' := by
  induction l with
  | nil => intro w; simp
  | cons x xs ih => intro w; rw [List.foldl_cons, ih, tot_addReaderPost, List.map_cons, List.count_cons]; simp; omega

theorem foldl_desc_holds (l : List Nat) : ∀ w : W,
    (l.foldl (fun w rid => replyStream rid w) w).s = w.s := by
  induction l with
  | nil => intro w; rfl
  | cons x xs ih => intro w; rw [List.foldl_cons, ih, replyStream_s]

theorem foldl_read_holds (l : List (Nat × Nat)) : ∀ w : W,
    (l.foldl (fun w (x : Nat × Nat) => addReaderPost x.1 x.2 w) w).s.descHold = w.s.descHold ∧
    (l.foldl (fun w (x : Nat × Nat) => addReaderPost x.1 x.2 w) w).s.readHold = w.s.readHold := by
  induction l with
  | nil => intro w; exact ⟨rfl, rfl⟩
  | cons x xs ih =>
    intro w; rw [List.foldl_cons]
    have R := addReaderPost_rd x.1 x.2 w
    exact ⟨(ih _).1.trans R.f7, (ih _).2.trans R.f8⟩

/-- `consumeOnHoldRequests` answers every held request exactly once and holds nothing afterwards -/
theorem tot_consume (rid' : Nat) (w : W) : tot rid' (consumeOnHoldRequests w) = tot rid' w ∧
    pending (consumeOnHoldRequests w).s = [] := by
  unfold consumeOnHoldRequests
  dsimp only
  generalize hw1 : w.s.descHold.foldl (fun w rid => replyStream rid w) w = w1
  have h1 : tot rid' w1 = tot rid' w + w.s.descHold.count rid' := by rw [← hw1]; exact tot_foldl_desc _ _ _
  have h1s : w1.s = w.s := by rw [← hw1]; exact foldl_desc_holds _ _
  generalize hw2 : upd (fun s => { s with descHold := [] }) w1 = w2
  have h2 : tot rid' w2 + w.s.descHold.count rid' = tot rid' w1 := by
    rw [← hw2]; unfold tot pending; simp [h1s]; omega
  have h2r : w2.s.readHold = w.s.readHold := by rw [← hw2]; simp [h1s]
  have h2d : w2.s.descHold = [] := by rw [← hw2]; rfl
  generalize hw3 : w2.s.readHold.foldl (fun w (x : Nat × Nat) => addReaderPost x.1 x.2 w) w2 = w3
  have h3 : tot rid' w3 = tot rid' w2 + (w2.s.readHold.map (·.1)).count rid' := by
    rw [← hw3]; exact tot_foldl_read _ _ _
  have h3h := foldl_read_holds w2.s.readHold w2
  rw [hw3] at h3h
  constructor
  · have : tot rid' (upd (fun s => { s with readHold := [] }) w3) + (w2.s.readHold.map (·.1)).count rid' = tot rid' w3 := by
      unfold tot pending; simp [h3h.1, h3h.2, h2d]
    have e4 : tot rid' w = (replyIds w.out).count rid' + (w.s.descHold.count rid' + (w.s.readHold.map (·.1)).count rid') := by
      unfold tot pending; simp
    rw [h2r] at this h3
    omega
  · simp [pending, h3h.1, h2d]

/-- `failHolds` answers every held request exactly once and holds nothing afterwards -/
theorem tot_failHolds (k : ReplyKind) (rid' : Nat) (w : W) : tot rid' (failHolds k w) = tot rid' w ∧
    pending (failHolds k w).s = [] := by
  unfold failHolds tot pending
  have e1 : ∀ l : List Nat, replyIds (l.map fun rid => Out.reply rid k) = l := by
    intro l; induction l with
    | nil => rfl
    | cons x xs ih => simp [ih]
  have e2 : ∀ l : List (Nat × Nat), replyIds (l.map fun x => Out.reply x.1 k) = l.map (·.1) := by
    intro l; induction l with
    | nil => rfl
    | cons x xs ih => simp [ih]
  simp [e1, e2]

/-! ### one step: the sum grows by one exactly for the request that enters -/

theorem tot_emit (o : Out) (rid' : Nat) (w : W) :
    tot rid' (emit o w) = tot rid' w + (replyIds [o]).count rid' := by
  unfold tot pending; simp; omega

theorem tot_upd (f : State → State) (rid' : Nat) (w : W)
    (h1 : (f w.s).descHold = w.s.descHold) (h2 : (f w.s).readHold = w.s.readHold) :
    tot rid' (upd f w) = tot rid' w := by
  unfold tot pending; simp [h1, h2]

def reqCount (e : Event) (rid' : Nat) : Nat :=
  match e with
  | .describe rid => if rid = rid' then 1 else 0
  | .addReader rid _ => if rid = rid' then 1 else 0
  | _ => 0

theorem tot_doDescribe (rid rid' : Nat) (w : W) :
    tot rid' (doDescribe rid w) = tot rid' w + (if rid = rid' then 1 else 0) := by
  unfold doDescribe
  split
  · rw [tot_emit]; simp [List.count_cons]
  split
  · exact tot_replyStream _ _ _
  split
  · have := silent_holdDemand.tot rid' w
    obtain ⟨_, a2, a3⟩ := silent_holdDemand w
    unfold tot pending at *
    simp [a2, a3, List.count_cons] at *
    omega
  split
  · rw [tot_emit]; simp [List.count_cons]
  · rw [tot_emit]; simp [List.count_cons]

theorem tot_doAddReader (rid r rid' : Nat) (w : W) :
    tot rid' (doAddReader rid r w) = tot rid' w + (if rid = rid' then 1 else 0) := by
  unfold doAddReader
  split
  · exact tot_addReaderPost _ _ _ _
  split
  · have := silent_holdDemand.tot rid' w
    obtain ⟨_, a2, a3⟩ := silent_holdDemand w
    unfold tot pending at *
    simp [a2, a3, List.count_cons] at *
    omega
  · rw [tot_emit]; simp [List.count_cons]

theorem tot_doRemoveReader (r rid' : Nat) (w : W) : tot rid' (doRemoveReader r w) = tot rid' w := by
  unfold doRemoveReader onDemandStaticSourceScheduleClose onDemandPublisherScheduleClose
  dsimp only
  (repeat' split) <;> simp [tot, pending, emit, upd]

theorem tot_pubAttach (p : Nat) (ok : Bool) (rid' : Nat) (w : W) : tot rid' (pubAttach p ok w) = tot rid' w := by
  unfold pubAttach
  dsimp only
  have h0 : tot rid' (if w.s.conf.alwaysAvailable = true then w else setAvailable w) = tot rid' w := by
    split
    · rfl
    · exact silent_setAvailable.tot _ _
  generalize (if w.s.conf.alwaysAvailable = true then w else setAvailable w) = w1 at h0 ⊢
  split
  · rw [tot_emit, silent_subErrCleanup.tot, h0]; simp
  · rw [tot_emit, (tot_consume _ _).1]
    have h1 : tot rid' (upd (fun s => { s with source := some (.pub p) }) (newSub w1)) = tot rid' w1 := by
      rw [tot_upd _ _ _ rfl rfl]; unfold newSub; rw [tot_upd _ _ _ rfl rfl]
    generalize (upd (fun s => { s with source := some (.pub p) }) (newSub w1)) = w2 at h1 ⊢
    have h2 : tot rid' (if w2.s.conf.alwaysAvailable = true then setOnline w2 else w2) = tot rid' w2 := by
      split
      · exact silent_setOnline.tot _ _
      · rfl
    generalize (if w2.s.conf.alwaysAvailable = true then setOnline w2 else w2) = w3 at h2 ⊢
    split
    · simp only [onDemandPublisherScheduleClose, tot, pending, emit, upd] at *
      simp at *
      omega
    · simp [h2, h1, h0]

theorem tot_pubOverride (rid' : Nat) (w : W) : tot rid' (pubOverride w) = tot rid' w := by
  unfold pubOverride
  split
  · rfl
  · rw [silent_executeRemovePublisher.tot, tot_emit]; simp
  · simp [panic, tot, pending, emit, upd]

theorem tot_doAddPublisher (p : Nat) (ok : Bool) (rid' : Nat) (w : W) :
    tot rid' (doAddPublisher p ok w) = tot rid' w := by
  unfold doAddPublisher
  split
  · simp [tot_emit]
  split
  · simp [tot_emit]
  · rw [tot_pubAttach, tot_pubOverride]

theorem tot_srcReady (ok : Bool) (rid' : Nat) (w : W) : tot rid' (doSourceStaticSetReady ok w) = tot rid' w := by
  unfold doSourceStaticSetReady
  dsimp only
  have h0 : tot rid' (if w.s.conf.alwaysAvailable = true then w else setAvailable w) = tot rid' w := by
    split
    · rfl
    · exact silent_setAvailable.tot _ _
  generalize (if w.s.conf.alwaysAvailable = true then w else setAvailable w) = w1 at h0 ⊢
  split
  · rw [tot_emit, silent_subErrCleanup.tot, h0]; simp
  · rw [tot_emit, (tot_consume _ _).1]
    have h1 : tot rid' (upd (fun s => { s with srcUp := true }) (newSub w1)) = tot rid' w1 := by
      rw [tot_upd _ _ _ rfl rfl]; unfold newSub; rw [tot_upd _ _ _ rfl rfl]
    generalize (upd (fun s => { s with srcUp := true }) (newSub w1)) = w2 at h1 ⊢
    have h2 : tot rid' (if w2.s.conf.alwaysAvailable = true then setOnline w2 else w2) = tot rid' w2 := by
      split
      · exact silent_setOnline.tot _ _
      · rfl
    generalize (if w2.s.conf.alwaysAvailable = true then setOnline w2 else w2) = w3 at h2 ⊢
    split
    · simp only [onDemandStaticSourceScheduleClose, tot, pending, emit, upd] at *
      simp at *
      omega
    · simp [h2, h1, h0]

theorem tot_srcNotReady (rid' : Nat) (w : W) : tot rid' (doSourceStaticSetNotReady w) = tot rid' w := by
  unfold doSourceStaticSetNotReady
  dsimp only
  have h0 : tot rid' (if w.s.conf.alwaysAvailable = true then startOffline (setOffline w) else setNotAvailable w) = tot rid' w := by
    split
    · unfold startOffline; rw [tot_upd _ _ _ rfl rfl]; exact silent_setOffline.tot _ _
    · exact silent_setNotAvailable.tot _ _
  generalize (if w.s.conf.alwaysAvailable = true then startOffline (setOffline w) else setNotAvailable w) = w1 at h0 ⊢
  split
  · rw [silent_onDemandStaticSourceStop.tot, tot_upd _ _ _ rfl rfl, h0]
  · rw [tot_upd _ _ _ rfl rfl, h0]

theorem tot_fireTimer (t : Timer) (rid' : Nat) (w : W) : tot rid' (fireTimer t w) = tot rid' w := by
  cases t <;> unfold fireTimer <;> dsimp only
  · rw [silent_closeCheck.tot]; unfold doOnDemandStaticSourceReadyTimer
    rw [silent_onDemandStaticSourceStop.tot, (tot_failHolds _ _ _).1, tot_upd _ _ _ rfl rfl]
  · rw [silent_closeCheck.tot]; unfold doOnDemandStaticSourceCloseTimer
    split
    · simp [panic, tot, pending, emit, upd]
    · rw [silent_onDemandStaticSourceStop.tot, silent_setNotAvailable.tot, tot_upd _ _ _ rfl rfl]
  · rw [silent_closeCheck.tot]; unfold doOnDemandPublisherReadyTimer
    rw [silent_onDemandPublisherStop.tot, (tot_failHolds _ _ _).1, tot_upd _ _ _ rfl rfl]
  · unfold doOnDemandPublisherCloseTimer
    rw [silent_onDemandPublisherStop.tot, tot_upd _ _ _ rfl rfl]

theorem tot_doClose (rid' : Nat) (w : W) : tot rid' (doClose w) = tot rid' w ∧ pending (doClose w).s = [] := by
  unfold doClose
  dsimp only
  generalize hw1 : failHolds .terminated (upd (fun s => { s with tSrcReady := false, tSrcClose := false, tPubReady := false, tPubClose := false }) (emit .removePath w)) = w1
  have h1 : tot rid' w1 = tot rid' w ∧ pending w1.s = [] := by
    rw [← hw1]
    refine ⟨?_, (tot_failHolds .terminated rid' _).2⟩
    rw [(tot_failHolds _ _ _).1, tot_upd _ _ _ rfl rfl, tot_emit]; simp
  generalize hw2 : closeSource w.s w1 = w2
  have h2 : tot rid' w2 = tot rid' w1 ∧ pending w2.s = pending w1.s := by
    rw [← hw2]
    obtain ⟨_, a2, a3⟩ := silent_closeSource w.s w1
    exact ⟨(silent_closeSource w.s).tot _ _, by simp [pending, a2, a3]⟩
  generalize hw3 : (if w.s.hkDemand = true then emit (Out.hook Hook.demand false) (upd (fun s => { s with hkDemand := false }) w2) else w2) = w3
  have h3 : tot rid' w3 = tot rid' w2 ∧ pending w3.s = pending w2.s := by
    rw [← hw3]; split
    · exact ⟨by rw [tot_emit, tot_upd _ _ _ rfl rfl]; simp, rfl⟩
    · exact ⟨rfl, rfl⟩
  generalize hw4 : (if w.s.stream.isSome = true then setNotAvailable w3 else w3) = w4
  have h4 : tot rid' w4 = tot rid' w3 ∧ pending w4.s = pending w3.s := by
    rw [← hw4]; split
    · obtain ⟨_, a2, a3⟩ := silent_setNotAvailable w3
      exact ⟨silent_setNotAvailable.tot _ _, by simp [pending, a2, a3]⟩
    · exact ⟨rfl, rfl⟩
  constructor
  · rw [tot_upd _ _ _ rfl rfl, h4.1, h3.1, h2.1, h1.1]
  · show pending w4.s = []
    rw [h4.2, h3.2, h2.2, h1.2]

theorem tot_stepW (e : Event) (rid' : Nat) (w : W) (hp : w.s.panicked = false) :
    tot rid' (stepW e w) = tot rid' w + reqCount e rid' := by
  unfold stepW
  rw [if_neg (by simp [hp])]
  split
  · unfold stepClosed reqCount
    split <;> simp [tot, pending, emit, upd, List.count_cons] <;> omega
  unfold reqCount
  split
  · rw [silent_closeCheck.tot]; exact tot_doDescribe _ _ _
  · rw [silent_closeCheck.tot]; exact tot_doAddPublisher _ _ _ _
  · rw [silent_closeCheck.tot]; unfold doRemovePublisher
    split
    · exact silent_executeRemovePublisher.tot _ _
    · rfl
  · rw [silent_closeCheck.tot]; exact tot_doAddReader _ _ _ _
  · rw [silent_closeCheck.tot]; exact tot_doRemoveReader _ _ _
  · split
    · exact tot_srcReady _ _ _
    · simp [tot_emit]
  · split
    · rw [silent_closeCheck.tot]; exact tot_srcNotReady _ _
    · simp [tot_emit]
  · split
    · exact tot_fireTimer _ _ _
    · simp [tot_emit]
  · split
    · rw [tot_upd _ _ _ rfl rfl]; simp
    · simp [tot_emit]
  · exact (tot_doClose _ _).1
  · simp [tot_emit]
  · rw [tot_upd _ _ _ rfl rfl]; simp

end MtxVerif.PathSM
