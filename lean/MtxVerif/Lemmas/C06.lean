/-
C06 — helper lemmas: `splitOn`, the `..`-scanner, `cleanComps`.
-/
import MtxVerif.Model.C06

namespace MtxVerif.C06

/-! ### splitOn -/

theorem splitOn_nil (sep : UInt8) : splitOn sep [] = [[]] := rfl

theorem splitOn_cons_sep (sep : UInt8) (r : Bytes) : splitOn sep (sep :: r) = [] :: splitOn sep r := by
  simp [splitOn]

theorem splitOn_ne_nil (sep : UInt8) (s : Bytes) : splitOn sep s ≠ [] := by
  cases s with
  | nil => simp [splitOn]
  | cons c r =>
    simp only [splitOn]
    split
    · simp
    · split <;> simp

theorem splitOn_cons_ne {sep c : UInt8} (hc : c ≠ sep) {r hd : Bytes} {tl : List Bytes}
    (h : splitOn sep r = hd :: tl) : splitOn sep (c :: r) = (c :: hd) :: tl := by
  simp [splitOn, hc, h]

def slashFree (p : Bytes) : Prop := ∀ c ∈ p, c ≠ 47

theorem slashFree_cons {c : UInt8} {r : Bytes} (h : slashFree (c :: r)) : c ≠ 47 ∧ slashFree r :=
  ⟨h c List.mem_cons_self, fun x hx => h x (List.mem_cons_of_mem _ hx)⟩

theorem splitOn_slashFree (p : Bytes) (h : slashFree p) : splitOn 47 p = [p] := by
  induction p with
  | nil => rfl
  | cons c r ih =>
    obtain ⟨hc, hr⟩ := slashFree_cons h
    exact splitOn_cons_ne hc (ih hr)

/-- a slash-free prefix is glued to the first component. -/
theorem splitOn_prefix (p s : Bytes) (h : slashFree p) :
    ∃ hd tl, splitOn 47 s = hd :: tl ∧ splitOn 47 (p ++ s) = (p ++ hd) :: tl := by
  induction p with
  | nil =>
    cases hs : splitOn 47 s with
    | nil => exact absurd hs (splitOn_ne_nil 47 s)
    | cons hd tl => exact ⟨hd, tl, rfl, by simpa using hs⟩
  | cons c r ih =>
    obtain ⟨hc, hr⟩ := slashFree_cons h
    obtain ⟨hd, tl, h1, h2⟩ := ih hr
    exact ⟨hd, tl, h1, by rw [List.cons_append]; exact splitOn_cons_ne hc h2⟩

theorem splitOn_append_slash (a b : Bytes) :
    splitOn 47 (a ++ 47 :: b) = splitOn 47 a ++ splitOn 47 b := by
  induction a with
  | nil => simp [splitOn_cons_sep, splitOn_nil]
  | cons c r ih =>
    rw [List.cons_append]
    by_cases hc : c = 47
    · subst hc
      rw [splitOn_cons_sep, splitOn_cons_sep, ih]; rfl
    · cases hs : splitOn 47 r with
      | nil => exact absurd hs (splitOn_ne_nil 47 r)
      | cons hd tl =>
        rw [splitOn_cons_ne hc hs]
        rw [hs] at ih
        exact splitOn_cons_ne hc ih

/-! ### the scanner -/

/-- state the scanner is in after reading the slash-free text `p` from the start of a component. -/
def cls (p : Bytes) : St :=
  if p = [] then .s0 else if p = dot then .s1 else if p = dotdot then .s2 else .sx

theorem scan_cons (q : St) (c : UInt8) (s : Bytes) : scan q (c :: s) = scan (step q c) s := rfl

theorem scan_append (q : St) (a b : Bytes) : scan q (a ++ b) = scan (scan q a) b := by
  simp [scan, List.foldl_append]

theorem step_found (c : UInt8) : step .found c = .found := rfl

theorem scan_found (s : Bytes) : scan .found s = .found := by
  induction s with
  | nil => rfl
  | cons c r ih => rw [scan_cons, step_found, ih]

theorem cls_ne_found (p : Bytes) : cls p ≠ .found := by
  unfold cls
  repeat' split
  all_goals simp

theorem step_cls_slash (p : Bytes) : step (cls p) 47 = if p = dotdot then .found else .s0 := by
  unfold cls
  by_cases h0 : p = []
  · subst h0; simp [step, dotdot]
  · by_cases h1 : p = dot
    · subst h1; simp [step, dot, dotdot]
    · by_cases h2 : p = dotdot
      · subst h2; simp [step, dot, dotdot]
      · simp [h0, h1, h2, step]

theorem step_cls (p : Bytes) (c : UInt8) (hc : c ≠ 47) : step (cls p) c = cls (p ++ [c]) := by
  by_cases h0 : p = []
  · subst h0
    by_cases hd : c = 46
    · subst hd; simp [cls, step, dot]
    · have : ([c] : Bytes) ≠ dot := by simp [dot, hd]
      have h2 : ([c] : Bytes) ≠ dotdot := by simp [dotdot]
      simp [cls, step, hc, hd, this, h2]
  · by_cases h1 : p = dot
    · subst h1
      by_cases hd : c = 46
      · subst hd; simp [cls, step, dot, dotdot]
      · simp [cls, step, dot, dotdot, hc, hd]
    · by_cases h2 : p = dotdot
      · subst h2
        by_cases hd : c = 46
        · subst hd; simp [cls, step, dot, dotdot]
        · simp [cls, step, dot, dotdot, hc, hd]
      · have e0 : p ++ [c] ≠ [] := by simp
        have e1 : p ++ [c] ≠ dot := by
          intro e
          cases p with
          | nil => exact h0 rfl
          | cons x xs => simp [dot] at e
        have e2 : p ++ [c] ≠ dotdot := by
          intro e
          cases p with
          | nil => exact h0 rfl
          | cons x xs =>
            cases xs with
            | nil => simp [dotdot] at e; exact h1 (by simp [dot, e.1])
            | cons y ys => simp [dotdot] at e
        by_cases hd : c = 46
        · subst hd
          simp [cls, h0, h1, h2, e1, e2, step]
        · simp [cls, h0, h1, h2, e1, e2, step, hc, hd]

theorem slashFree_snoc {p : Bytes} {c : UInt8} (hp : slashFree p) (hc : c ≠ 47) : slashFree (p ++ [c]) := by
  intro x hx
  rcases List.mem_append.mp hx with h | h
  · exact hp x h
  · simp at h; rw [h]; exact hc

/-- what the scanner knows after reading `s`, having started inside a component whose text so far is `p`:
`found` iff an already finished component is `..`, otherwise the class of the unfinished last component. -/
theorem scan_cls (s p : Bytes) (hp : slashFree p) :
    scan (cls p) s =
      if dotdot ∈ (splitOn 47 (p ++ s)).dropLast then .found
      else cls ((splitOn 47 (p ++ s)).getLast?.getD []) := by
  induction s generalizing p with
  | nil => simp [splitOn_slashFree p hp, scan]
  | cons c r ih =>
    rw [scan_cons]
    by_cases hc : c = 47
    · subst hc
      rw [splitOn_append_slash, splitOn_slashFree p hp, step_cls_slash]
      have hne := splitOn_ne_nil 47 r
      have hdl : ([p] ++ splitOn 47 r).dropLast = p :: (splitOn 47 r).dropLast := by
        cases hs : splitOn 47 r with
        | nil => exact absurd hs hne
        | cons a as => simp
      have hgl : ([p] ++ splitOn 47 r).getLast? = (splitOn 47 r).getLast? := by
        cases hs : splitOn 47 r with
        | nil => exact absurd hs hne
        | cons a as => simp [List.getLast?_cons_cons]
      rw [hdl, hgl]
      by_cases hp2 : p = dotdot
      · simp [hp2, scan_found]
      · have h0 : (St.s0) = cls [] := by simp [cls]
        simp only [hp2, if_false, h0]
        rw [ih [] (by intro x hx; cases hx)]
        simp only [List.nil_append, List.mem_cons]
        have : (dotdot = p) = False := by simp; exact fun e => hp2 e.symm
        simp [this]
    · rw [step_cls p c hc, ih (p ++ [c]) (slashFree_snoc hp hc)]
      simp

theorem finish_cls (p : Bytes) : finish (cls p) = true ↔ p = dotdot := by
  unfold cls
  by_cases h0 : p = []
  · subst h0; simp [finish, dotdot]
  · by_cases h1 : p = dot
    · subst h1; simp [finish, dot, dotdot]
    · by_cases h2 : p = dotdot
      · simp [h2, finish, dot, dotdot]
      · simp [h0, h1, h2, finish]

/-- the scanner decides "some component is `..`". -/
theorem hasDotDot_iff (s : Bytes) : hasDotDot s = true ↔ dotdot ∈ splitOn 47 s := by
  unfold hasDotDot
  have h0 : St.s0 = cls [] := by simp [cls]
  rw [h0, scan_cls s [] (by intro x hx; cases hx)]
  simp only [List.nil_append]
  have hne := splitOn_ne_nil 47 s
  generalize splitOn 47 s = L at hne
  have hsplit : L = L.dropLast ++ [L.getLast?.getD []] := by
    cases hg : L.getLast? with
    | none => exact absurd (List.getLast?_eq_none_iff.mp hg) hne
    | some x =>
      obtain ⟨ys, hys⟩ := List.getLast?_eq_some_iff.mp hg
      rw [hys]; simp
  by_cases hd : dotdot ∈ L.dropLast
  · simp only [hd, if_true, finish, true_iff]
    rw [hsplit]; exact List.mem_append_left _ hd
  · simp only [hd, if_false, finish_cls]
    constructor
    · intro e
      rw [hsplit, e]; simp
    · intro hm
      rw [hsplit] at hm
      rcases List.mem_append.mp hm with h | h
      · exact absurd h hd
      · exact (List.mem_singleton.mp h).symm

/-! ### what a valid path name looks like -/

theorem splitOn_head_cons {c : UInt8} (hc : c ≠ 47) (r : Bytes) :
    ∃ hd tl, splitOn 47 (c :: r) = (c :: hd) :: tl ∧ splitOn 47 r = hd :: tl := by
  cases hs : splitOn 47 r with
  | nil => exact absurd hs (splitOn_ne_nil 47 r)
  | cons hd tl => exact ⟨hd, tl, splitOn_cons_ne hc hs, rfl⟩

/-- an empty last component means the text is empty or ends with a slash. -/
theorem splitOn_last_nil (s : Bytes) (h : (splitOn 47 s).getLast? = some []) :
    s = [] ∨ s.getLast? = some 47 := by
  induction s with
  | nil => left; rfl
  | cons c r ih =>
    right
    by_cases hc : c = 47
    · subst hc
      rw [splitOn_cons_sep] at h
      have hne := splitOn_ne_nil 47 r
      rw [List.getLast?_cons_of_ne_nil hne] at h
      rcases ih h with rfl | hr
      · rfl
      · cases r with
        | nil => simp at hr
        | cons x xs => rw [List.getLast?_cons_cons]; exact hr
    · obtain ⟨hd, tl, h1, h2⟩ := splitOn_head_cons hc r
      rw [h1] at h
      cases tl with
      | nil => simp at h
      | cons t ts =>
        rw [List.getLast?_cons_cons] at h
        have : (splitOn 47 r).getLast? = some [] := by rw [h2, List.getLast?_cons_cons]; exact h
        rcases ih this with rfl | hr
        · simp [splitOn] at h2
        · cases r with
          | nil => simp at hr
          | cons x xs => rw [List.getLast?_cons_cons]; exact hr

structure NameFacts (n : Bytes) : Prop where
  ne : n ≠ []
  lead : n.head? ≠ some 47
  trail : n.getLast? ≠ some 47
  chars : n.all okChar = true
  nodots : ∀ c ∈ splitOn 47 n, c ≠ dot ∧ c ≠ dotdot

theorem valid_facts (n : Bytes) : isValidPathName n = none ↔ NameFacts n := by
  unfold isValidPathName
  cases n with
  | nil => simp; intro h; exact h.ne rfl
  | cons c r =>
    simp only
    constructor
    · intro h
      split at h; · cases h
      rename_i hl
      split at h; · cases h
      rename_i ht
      split at h; · cases h
      rename_i hch
      split at h; · cases h
      rename_i hd
      refine ⟨by simp, by simpa using hl, ht, by simpa using hch, ?_⟩
      intro x hx
      rw [List.any_eq_true] at hd
      constructor
      · intro e; exact hd ⟨x, hx, by simp [e]⟩
      · intro e; exact hd ⟨x, hx, by simp [e]⟩
    · intro h
      have hl : c ≠ 47 := by simpa using h.lead
      rw [if_neg hl, if_neg h.trail]
      have hch : (!(c :: r).all okChar) = false := by rw [h.chars]; rfl
      rw [hch]
      simp only [Bool.false_eq_true, if_false]
      rw [if_neg]
      rw [List.any_eq_true]
      rintro ⟨x, hx, he⟩
      simp only [Bool.or_eq_true, beq_iff_eq] at he
      rcases he with e | e
      · exact (h.nodots x hx).1 e
      · exact (h.nodots x hx).2 e

/-- a text that is neither empty nor `.` nor `..`, glued to what the scanner has read so far, leaves
the scanner in `sx`-class. -/
theorem cls_glue (p hd : Bytes) (hp : p = [] ∨ p = dot ∨ p = dotdot ∨ p = [120])
    (h0 : hd ≠ []) (h1 : hd ≠ dot) (h2 : hd ≠ dotdot) : cls (p ++ hd) = .sx := by
  have key : p ++ hd ≠ [] ∧ p ++ hd ≠ dot ∧ p ++ hd ≠ dotdot := by
    rcases hp with rfl | rfl | rfl | rfl
    · exact ⟨by simpa using h0, by simpa using h1, by simpa using h2⟩
    · refine ⟨by simp [dot], ?_, ?_⟩
      · intro e; simp [dot] at e; exact h0 e
      · intro e; simp [dot, dotdot] at e; exact h1 (by simp [dot, e])
    · refine ⟨by simp [dotdot], ?_, ?_⟩
      · intro e; simp [dot, dotdot] at e
      · intro e; simp [dotdot] at e; exact h0 e
    · refine ⟨by simp, ?_, ?_⟩
      · intro e; simp [dot] at e
      · intro e; simp [dotdot] at e
  simp [cls, key.1, key.2.1, key.2.2]

/-- **scanning a valid path name** from any live state ends in `sx`: the name contributes no `..`
component, whatever precedes it in the same component, and leaves a non-dot component open. -/
theorem scan_valid_name (n : Bytes) (hv : isValidPathName n = none) (q : St) (hq : q ≠ .found) :
    scan q n = .sx := by
  have F := (valid_facts n).mp hv
  -- canonical text for the state
  obtain ⟨p, hp, hcls, hsf⟩ : ∃ p : Bytes, (p = [] ∨ p = dot ∨ p = dotdot ∨ p = [120]) ∧ cls p = q ∧ slashFree p := by
    cases q with
    | s0 => exact ⟨[], Or.inl rfl, by simp [cls], by intro x hx; cases hx⟩
    | s1 => exact ⟨dot, Or.inr (Or.inl rfl), by simp [cls, dot], by intro x hx; simp [dot] at hx; simp [hx]⟩
    | s2 => exact ⟨dotdot, Or.inr (Or.inr (Or.inl rfl)), by simp [cls, dot, dotdot], by intro x hx; simp [dotdot] at hx; simp [hx]⟩
    | sx => exact ⟨[120], Or.inr (Or.inr (Or.inr rfl)), by simp [cls, dot, dotdot], by intro x hx; simp at hx; simp [hx]⟩
    | found => exact absurd rfl hq
  rw [← hcls, scan_cls n p hsf]
  obtain ⟨hd, tl, h1, h2⟩ := splitOn_prefix p n hsf
  rw [h2]
  -- facts about the components of n
  have hhd0 : hd ≠ [] := by
    cases n with
    | nil => exact absurd rfl F.ne
    | cons c r =>
      have hc : c ≠ 47 := by simpa using F.lead
      obtain ⟨hd', tl', e1, _⟩ := splitOn_head_cons hc r
      rw [e1] at h1
      cases h1
      simp
  have hhd := F.nodots hd (by rw [h1]; exact List.mem_cons_self)
  have hglue : p ++ hd ≠ dotdot := by
    intro e
    have := cls_glue p hd hp hhd0 hhd.1 hhd.2
    rw [e] at this
    simp [cls, dot, dotdot] at this
  cases tl with
  | nil => simp [cls_glue p hd hp hhd0 hhd.1 hhd.2]
  | cons t ts =>
    have hlast : ((p ++ hd) :: t :: ts).getLast? = (t :: ts).getLast? := List.getLast?_cons_cons
    have hdrop : ((p ++ hd) :: t :: ts).dropLast = (p ++ hd) :: (t :: ts).dropLast := by simp
    rw [hlast, hdrop]
    have hnd : dotdot ∉ (p ++ hd) :: (t :: ts).dropLast := by
      intro hm
      rcases List.mem_cons.mp hm with e | hm
      · exact hglue e.symm
      · have : dotdot ∈ splitOn 47 n := by
          rw [h1]; exact List.mem_cons_of_mem _ (List.dropLast_subset _ hm)
        exact (F.nodots _ this).2 rfl
    rw [if_neg hnd]
    cases hg : (t :: ts).getLast? with
    | none => simp at hg
    | some l =>
      have hl_mem : l ∈ splitOn 47 n := by
        rw [h1]; exact List.mem_cons_of_mem _ (List.mem_of_getLast? hg)
      have hl := F.nodots l hl_mem
      have hl0 : l ≠ [] := by
        intro e
        subst e
        have : (splitOn 47 n).getLast? = some [] := by rw [h1, List.getLast?_cons_cons]; exact hg
        rcases splitOn_last_nil n this with e | e
        · exact F.ne e
        · exact F.trail e
      have := cls_glue [] l (Or.inl rfl) hl0 hl.1 hl.2
      simpa using this

end MtxVerif.C06
