/-
C13 — the inductive invariant of the reload model and its preservation (any table).
-/
import MtxVerif.Lemmas.C13

namespace MtxVerif.C13

/-- the instance of component `r` was built with (or reloaded to) the values of `conf`,
except for the (component, field) pairs in `gaps` -/
def ArgsOK (gaps : List (Nat × Nat)) (conf : Conf) (r : Row) (i : Inst) : Prop :=
  ∀ f ∈ r.reads, (r.comp, f) ∉ gaps → i.args f = conf.val f

/-- every component pointer stored in the instance points to the CURRENT instance of that component
(or is nil exactly when that component is not running) -/
def RefsOK (run : Nat → Option Inst) (r : Row) (i : Inst) : Prop :=
  ∀ c ∈ r.refs, i.refs c = (run c).map (·.id)

/-- The invariant: exactly the components whose guard holds under the current configuration are
running; each was built with the current values and points to current instances. -/
structure Consistent (gaps : List (Nat × Nat)) (G : Nat → (Nat → Nat) → Bool) (L : List Row) (s : St) :
    Prop where
  guard : ∀ r ∈ L, (s.run r.comp).isSome = G r.comp s.conf.val
  args : ∀ r ∈ L, ∀ i, s.run r.comp = some i → ArgsOK gaps s.conf r i
  refs : ∀ r ∈ L, ∀ i, s.run r.comp = some i → RefsOK s.run r i
  ids : ∀ r ∈ L, ∀ i, s.run r.comp = some i → i.id < s.next
  noPanic : s.panicked = false

/-- a guard depends only on its guard fields -/
def GuardDet (G : Nat → (Nat → Nat) → Bool) (L : List Row) : Prop :=
  ∀ r ∈ L, ∀ v v' : Nat → Nat, (∀ f ∈ r.guard, v f = v' f) → G r.comp v = G r.comp v'

/-- a block whose condition is only `p.k == nil` always creates -/
def GuardTrue (G : Nat → (Nat → Nat) → Bool) (L : List Row) : Prop :=
  ∀ r ∈ L, r.guard = [] → ∀ v, G r.comp v = true

/-- configurations are immutable objects: the same address holds the same value -/
def WFConf (old new : Conf) : Prop := ∀ f, old.addr f = new.addr f → old.val f = new.val f

theorem differs_of_val_ne {old new : Conf} (hc : WFConf old new) {f : Nat} {k : CmpKind}
    (hk : detects k = true) (hne : old.val f ≠ new.val f) : differs old new f k = true := by
  cases k with
  | value => simpa [differs] using hne
  | identity =>
    simp only [differs, bne_iff_ne, ne_eq]
    intro ha; exact hne (hc f ha)
  | unknown => simp [detects] at hk

/-- a field covered by k's close closure cannot change while k's flag stays down -/
theorem val_eq_of_not_flag {old new : Conf} (hc : WFConf old new) {L : List Row} {k f : Nat}
    (hcov : coveredByClose L k f = true) (hfl : flags old new L k = false) :
    old.val f = new.val f := by
  by_cases e : old.val f = new.val f
  · exact e
  · exfalso
    obtain ⟨c, hcm, hc2⟩ := List.any_eq_true.mp hcov
    simp only [Bool.and_eq_true, beq_iff_eq] at hc2
    have hd : differs old new c.field c.kind = true := by
      rw [hc2.1]; exact differs_of_val_ne hc hc2.2 e
    rw [flags_of_cmp old new L k c hcm hd] at hfl
    cases hfl

theorem refs_in_comps : ∀ (L : List Row), wfl L = true → ∀ r ∈ L, ∀ c ∈ r.refs, c ∈ comps L
  | [], _, r, h, _, _ => by cases h
  | r1 :: E, hw, r, h, c, hc => by
    obtain ⟨_, hrefs, _, hwE⟩ := wfl_cons hw
    simp only [comps, List.map_cons, List.mem_cons]
    right
    rcases List.mem_cons.mp h with h | h
    · subst h; exact hrefs c hc
    · exact refs_in_comps E hwE r h c hc

theorem row_of_comp {L : List Row} {c : Nat} (h : c ∈ comps L) : ∃ r ∈ L, r.comp = c := by
  obtain ⟨r, hr, e⟩ := List.mem_map.mp h
  exact ⟨r, hr, e⟩

theorem patch_id (old new : Conf) (r : Row) (i : Inst) : (patch old new r i).id = i.id := rfl
theorem patch_refs (old new : Conf) (r : Row) (i : Inst) : (patch old new r i).refs = i.refs := rfl

theorem covers_row {gaps : List (Nat × Nat)} {L : List Row} (h : covers gaps L = true) {r : Row}
    (hr : r ∈ L) :
    (∀ f ∈ r.guard, coveredByClose L r.comp f = true) ∧
    (∀ f ∈ r.reads, coveredByClose L r.comp f = true ∨ coveredByReload r f = true ∨
      (r.comp, f) ∈ gaps) := by
  have := List.all_eq_true.mp h r hr
  simp only [coversRow, Bool.and_eq_true, List.all_eq_true, Bool.or_eq_true] at this
  refine ⟨this.1, ?_⟩
  intro f hf
  rcases this.2 f hf with (h1 | h2) | h3
  · exact Or.inl h1
  · exact Or.inr (Or.inl h2)
  · exact Or.inr (Or.inr (List.contains_iff_mem.mp h3))

/-- start-up establishes the invariant -/
theorem boot_consistent (gaps : List (Nat × Nat)) (G : Nat → (Nat → Nat) → Bool) (L : List Row)
    (hw : wfl L = true) (c : Conf) : Consistent gaps G L (boot G L c) := by
  have hconf : (boot G L c).conf = c := createAll_conf _ L _
  refine ⟨?_, ?_, ?_, ?_, ?_⟩
  · intro r hr
    have sp := createAll_spec (fun k => G k c.val) L
      { conf := c, run := fun _ => none, next := 0 } hw r hr
    rw [hconf]
    cases hg : G r.comp c.val with
    | true => exact sp.on hg
    | false =>
      have : (boot G L c).run r.comp = none := sp.off rfl hg
      simp [this]
  · intro r hr i hi f _ _
    have sp := createAll_spec (fun k => G k c.val) L
      { conf := c, run := fun _ => none, next := 0 } hw r hr
    rw [hconf, (sp.fresh rfl i hi).1]
  · intro r hr i hi
    have sp := createAll_spec (fun k => G k c.val) L
      { conf := c, run := fun _ => none, next := 0 } hw r hr
    exact (sp.fresh rfl i hi).2.1
  · intro r hr i hi
    have sp := createAll_spec (fun k => G k c.val) L
      { conf := c, run := fun _ => none, next := 0 } hw r hr
    exact (sp.fresh rfl i hi).2.2.2
  · exact createAll_panicked _ L _

/-- one reload preserves the invariant (this is `applies_all`) -/
theorem reload_consistent (gaps : List (Nat × Nat)) (G : Nat → (Nat → Nat) → Bool) (L : List Row)
    (hw : wfl L = true) (hcov : covers gaps L = true) (hrefs : refsCovered L = true)
    (hsafe : reloadsSafe L = true) (hG : GuardDet G L) (hGT : GuardTrue G L)
    (s : St) (new : Conf) (hc : WFConf s.conf new) (hs : Consistent gaps G L s) :
    Consistent gaps G L (reload G L s new) := by
  -- abbreviations
  let old := s.conf
  let fl := flags old new L
  let g : Nat → Bool := fun k => G k new.val
  let s1 : St := { conf := new, run := midRun old new fl s.run L, next := s.next,
                   panicked := s.panicked || panics old new fl s.run L }
  have hs' : reload G L s new = createAll g L s1 := rfl
  have hconf : (reload G L s new).conf = new := by rw [hs']; exact createAll_conf g L s1
  have hmid : ∀ r ∈ L, s1.run r.comp
      = if fl r.comp then none else (s.run r.comp).map (patch old new r) :=
    fun r hr => midRun_mem old new fl s.run L hw r hr
  have sp : ∀ r ∈ L, Created g s1 (createAll g L s1) r := createAll_spec g L s1 hw
  -- a component whose flag is down keeps its guard value
  have hguard_eq : ∀ r ∈ L, fl r.comp = false → G r.comp old.val = G r.comp new.val := by
    intro r hr hfl
    apply hG r hr
    intro f hf
    exact val_eq_of_not_flag hc ((covers_row hcov hr).1 f hf) hfl
  refine ⟨?_, ?_, ?_, ?_, ?_⟩
  · -- guard
    intro r hr
    rw [hconf, hs']
    cases hg : G r.comp new.val with
    | true => exact (sp r hr).on hg
    | false =>
      have hn : s1.run r.comp = none := by
        rw [hmid r hr]
        cases hfl : fl r.comp with
        | true => simp
        | false =>
          have : (s.run r.comp).isSome = false := by
            rw [hs.guard r hr, hguard_eq r hr hfl]; exact hg
          cases hr' : s.run r.comp with
          | none => simp
          | some i => simp [hr'] at this
      have : (createAll g L s1).run r.comp = none := (sp r hr).off hn hg
      simp [this]
  · -- args
    intro r hr i hi f hf hgap
    rw [hconf]
    rw [hs'] at hi
    cases h1 : s1.run r.comp with
    | none => rw [((sp r hr).fresh h1 i hi).1]
    | some j =>
      have hij : i = j := by
        have := (sp r hr).keep j h1
        rw [hi] at this; exact Option.some.inj this
      subst hij
      rw [hmid r hr] at h1
      cases hfl : fl r.comp with
      | true => simp [hfl] at h1
      | false =>
        simp only [hfl, Bool.false_eq_true, if_false] at h1
        cases hr' : s.run r.comp with
        | none => simp [hr'] at h1
        | some i0 =>
          simp only [hr', Option.map_some, Option.some.injEq] at h1
          subst h1
          have hold : i0.args f = old.val f := hs.args r hr i0 hr' f hf hgap
          simp only [patch]
          split
          · rfl
          · rename_i hany
            rw [hold]
            rcases (covers_row hcov hr).2 f hf with h | h | h
            · exact val_eq_of_not_flag hc h hfl
            · by_cases e : old.val f = new.val f
              · exact e
              · exfalso
                apply hany
                obtain ⟨rl, hrl, h2⟩ := List.any_eq_true.mp h
                simp only [Bool.and_eq_true, beq_iff_eq] at h2
                apply List.any_eq_true.mpr
                refine ⟨rl, hrl, ?_⟩
                simp only [Bool.and_eq_true, beq_iff_eq]
                exact ⟨h2.1, differs_of_val_ne hc h2.2 e⟩
            · exact absurd h hgap
  · -- refs
    intro r hr i hi
    rw [hs'] at hi ⊢
    cases h1 : s1.run r.comp with
    | none => exact ((sp r hr).fresh h1 i hi).2.1
    | some j =>
      have hij : i = j := by
        have := (sp r hr).keep j h1
        rw [hi] at this; exact Option.some.inj this
      subst hij
      rw [hmid r hr] at h1
      cases hfl : fl r.comp with
      | true => simp [hfl] at h1
      | false =>
        simp only [hfl, Bool.false_eq_true, if_false] at h1
        cases hr' : s.run r.comp with
        | none => simp [hr'] at h1
        | some i0 =>
          simp only [hr', Option.map_some, Option.some.injEq] at h1
          subst h1
          intro c hcm
          rw [patch_refs, hs.refs r hr i0 hr' c hcm]
          -- c's flag is down, hence c is untouched (same id) or stays absent
          have hcdep : c ∈ depClosure L r.comp :=
            List.contains_iff_mem.mp (List.all_eq_true.mp (List.all_eq_true.mp hrefs r hr) c hcm)
          have hflc : fl c = false := by
            cases h : fl c with
            | false => rfl
            | true =>
              have : fl r.comp = true := flags_of_dep old new L r.comp c hw hcdep h
              rw [hfl] at this; cases this
          obtain ⟨rc, hrc, hrcc⟩ := row_of_comp (refs_in_comps L hw r hr c hcm)
          subst hrcc
          have hm := hmid rc hrc
          simp only [hflc, Bool.false_eq_true, if_false] at hm
          cases hsc : s.run rc.comp with
          | some ic =>
            rw [hsc] at hm
            rw [(sp rc hrc).keep _ hm]
            rfl
          | none =>
            rw [hsc] at hm
            have hgo : G rc.comp old.val = false := by
              have := hs.guard rc hrc
              rw [hsc] at this; exact this.symm
            have hgn : g rc.comp = false := by
              show G rc.comp new.val = false
              rw [← hguard_eq rc hrc hflc]; exact hgo
            rw [(sp rc hrc).off hm hgn]
  · -- ids
    intro r hr i hi
    rw [hs'] at hi ⊢
    cases h1 : s1.run r.comp with
    | none => exact ((sp r hr).fresh h1 i hi).2.2.2
    | some j =>
      have hij : i = j := by
        have := (sp r hr).keep j h1
        rw [hi] at this; exact Option.some.inj this
      subst hij
      rw [hmid r hr] at h1
      have hle : s.next ≤ (createAll g L s1).next := createAll_next_le g L s1
      cases hfl : fl r.comp with
      | true => simp [hfl] at h1
      | false =>
        simp only [hfl, Bool.false_eq_true, if_false] at h1
        cases hr' : s.run r.comp with
        | none => simp [hr'] at h1
        | some i0 =>
          simp only [hr', Option.map_some, Option.some.injEq] at h1
          subst h1
          exact Nat.lt_of_lt_of_le (hs.ids r hr i0 hr') hle
  · -- no nil dereference
    rw [hs', createAll_panicked]
    show (s.panicked || panics old new fl s.run L) = false
    rw [hs.noPanic, Bool.false_or]
    cases hp : panics old new fl s.run L with
    | false => rfl
    | true =>
      exfalso
      obtain ⟨r, hr, h⟩ := List.any_eq_true.mp hp
      simp only [Bool.and_eq_true, Bool.not_eq_true', List.any_eq_true] at h
      obtain ⟨⟨_, hnone⟩, rl, hrl, hnc, _⟩ := h
      have hsafe' := List.all_eq_true.mp (List.all_eq_true.mp hsafe r hr) rl hrl
      rw [hnc, Bool.false_or] at hsafe'
      have hge : r.guard = [] := List.isEmpty_iff.mp hsafe'
      have : (s.run r.comp).isSome = true := by rw [hs.guard r hr]; exact hGT r hr hge _
      cases hr' : s.run r.comp with
      | none => simp [hr'] at this
      | some i => simp [hr'] at hnone

end MtxVerif.C13
