/-
C15 — preservation of the path-side invariants (`InvB`: configuration, static paths; `InvG`: groups).
-/
import MtxVerif.Lemmas.C15Inv

namespace MtxVerif.C15

theorem key_inj {α : Type} (key : LivePath → α) {ps : List LivePath} (h : (ps.map key).Nodup) :
    ∀ a ∈ ps, ∀ b ∈ ps, key a = key b → a = b := by
  induction ps with
  | nil => intro a ha; cases ha
  | cons x xs ih =>
    simp only [List.map_cons, List.nodup_cons, List.mem_map, not_exists, not_and] at h
    intro a ha b hb hab
    rcases List.mem_cons.mp ha with h1 | h1 <;> rcases List.mem_cons.mp hb with h2 | h2
    · rw [h1, h2]
    · subst h1; exact absurd hab.symm (h.1 b h2)
    · subst h2; exact absurd hab (h.1 a h1)
    · exact ih h.2 a h1 b h2 hab

/-- a function that only touches the clients -/
def ClientOnly (f : LivePath → LivePath) : Prop :=
  ∀ p, (f p).name = p.name ∧ (f p).inc = p.inc ∧ (f p).confName = p.confName ∧ (f p).groups = p.groups ∧
    (f p).conf = p.conf ∧ (f p).mailbox = p.mailbox

theorem ClientOnly.cosmetic {f : LivePath → LivePath} (h : ClientOnly f) : Cosmetic f :=
  fun p => ⟨(h p).1, (h p).2.1, (h p).2.2.1, (h p).2.2.2.1⟩

theorem clientOnly_setPub (b : Bool) : ClientOnly (setPub b) := fun _ => ⟨rfl, rfl, rfl, rfl, rfl, rfl⟩
theorem clientOnly_dropClients : ClientOnly dropClients := fun _ => ⟨rfl, rfl, rfl, rfl, rfl, rfl⟩
theorem clientOnly_addReader (id : Nat) : ClientOnly (addReader id) := by
  intro p; unfold addReader; split <;> exact ⟨rfl, rfl, rfl, rfl, rfl, rfl⟩
theorem clientOnly_delReader (id : Nat) : ClientOnly (delReader id) := fun _ => ⟨rfl, rfl, rfl, rfl, rfl, rfl⟩

theorem effective_of_empty {p : LivePath} (h : p.mailbox = []) : p.effective = p.conf := by
  unfold LivePath.effective; rw [h]; rfl

/-- at a quiet path the two sides agree: the path runs with the configuration resolution selects -/
theorem conf_resolved {orc : Oracle} {confs : List Conf} {p : LivePath} (hr : ResOK orc confs p)
    (he : EffOK confs p) (hq : p.mailbox = []) :
    ∃ m, resolve orc confs p.name = some (p.conf, m) ∧ p.confName = p.conf.name := by
  obtain ⟨c, m, hres, hcn⟩ := hr
  have := (resolve_some hres).2
  unfold EffOK at he
  rw [effective_of_empty hq, ← hcn, this] at he
  simp only [Option.some.injEq] at he
  subst he
  exact ⟨m, hres, hcn.symm⟩

/-- the quiet path of a static configuration runs with that (static) configuration, so it is never idle-closed -/
theorem static_not_closed {orc : Oracle} {pm : PM} (invA : InvA orc pm) {p : LivePath} (hp : p ∈ pm.paths)
    (he : EffOK pm.confs p) (hq : p.mailbox = []) {c : Conf} (hc : c ∈ pm.confs) (hs : c.regex = false)
    (hn : p.name = c.name) : shouldClose p = false := by
  obtain ⟨m, hres, _⟩ := conf_resolved (invA.res p hp) he hq
  rw [hn, resolve_exact invA.wf hc] at hres
  simp only [Option.some.injEq, Prod.mk.injEq] at hres
  unfold shouldClose
  rw [← hres.1, hs]
  rfl

theorem deliver_effective {V : Variant} {i : Nat} (h : V.fixOrder = true ∨ i = 0) (p : LivePath) :
    (deliverPath V p i).effective = p.effective := by
  unfold deliverPath
  split
  · split
    · rename_i c hc
      unfold LivePath.effective
      simp [hc]
    · rfl
  · rename_i hV
    rcases h with h | rfl
    · exact absurd h hV
    · cases hm : p.mailbox with
      | nil => simp
      | cons c rest =>
        simp only [List.getElem?_cons_zero, removeNth]
        unfold LivePath.effective
        simp only [hm]
        cases rest with
        | nil => simp
        | cons d ds =>
          simp only [List.getLast?_cons_cons]
          cases h : (d :: ds).getLast? with
          | none => simp at h
          | some x => rfl

/-! ### InvB -/

theorem invB_reload {V : Variant} {orc : Oracle} {pm : PM} (invB : InvB pm) {new : List Conf}
    (wf : WFconfs new) : InvB (reload V orc pm new) := by
  constructor
  · intro q hq
    rw [reload_confs]
    rcases mem_reload hq with ⟨p, hp, hpq⟩ | ⟨c, hc, _, i, _, _, rfl⟩
    · exact kept_eff (invB.eff p hp) hpq
    · exact (mkStatic_ok (orc := orc) wf hc i).2.1
  · intro c hc hs
    rw [reload_confs] at hc
    unfold reload; simp only
    exact cs_static new _ _ c hc hs

theorem stat_upd {pm : PM} (n : Bytes) {f : LivePath → LivePath} (hf : ∀ p, (f p).name = p.name)
    (h : ∀ c ∈ pm.confs, c.regex = false → ∃ p ∈ pm.paths, p.name = c.name) :
    ∀ c ∈ pm.confs, c.regex = false → ∃ p ∈ updPath pm.paths n f, p.name = c.name := by
  intro c hc hs
  obtain ⟨p, hp, hn⟩ := h c hc hs
  refine ⟨if p.name == n then f p else p, List.mem_map.mpr ⟨p, hp, rfl⟩, ?_⟩
  split
  · rw [hf]; exact hn
  · exact hn

theorem invB_deliver {V : Variant} {pm : PM} (invB : InvB pm) (n : Bytes) {i : Nat}
    (h : V.fixOrder = true ∨ i = 0) :
    InvB { pm with paths := updPath pm.paths n (fun p => deliverPath V p i) } := by
  constructor
  · intro q hq
    obtain ⟨p, hp, hq | hq⟩ := mem_updPath hq
    · rw [hq]; exact invB.eff p hp
    · have := invB.eff p hp
      unfold EffOK at this ⊢
      rw [hq, deliver_effective h, (deliverPath_core V p i).2.2.1]
      exact this
  · exact stat_upd n (fun p => (deliverPath_core V p i).1) invB.stat

theorem invB_upd {pm : PM} (invB : InvB pm) (n : Bytes) {f : LivePath → LivePath} (hf : ClientOnly f) :
    InvB { pm with paths := updPath pm.paths n f } := by
  constructor
  · intro q hq
    obtain ⟨p, hp, hq | hq⟩ := mem_updPath hq
    · rw [hq]; exact invB.eff p hp
    · have := invB.eff p hp
      unfold EffOK LivePath.effective at this ⊢
      rw [hq, (hf p).2.2.1, (hf p).2.2.2.2.1, (hf p).2.2.2.2.2]
      exact this
  · exact stat_upd n (fun p => (hf p).1) invB.stat

theorem quiet_upd {ps : List LivePath} {n n' : Bytes} {f : LivePath → LivePath} (hf : ClientOnly f)
    (h : ∀ p ∈ ps, p.name = n' → p.mailbox = []) : ∀ p ∈ updPath ps n f, p.name = n' → p.mailbox = [] := by
  intro q hq hn
  obtain ⟨p, hp, hq | hq⟩ := mem_updPath hq
  · rw [hq] at hn ⊢; exact h p hp hn
  · rw [hq] at hn ⊢
    rw [(hf p).2.2.2.2.2]
    exact h p hp (by rw [← (hf p).1]; exact hn)

/-- idle-closing at a quiet name never removes the path of a static configuration -/
theorem invB_filter {orc : Oracle} {pm : PM} (invA : InvA orc pm) (invB : InvB pm) (n : Bytes)
    (hq : ∀ p ∈ pm.paths, p.name = n → p.mailbox = []) :
    InvB { pm with paths := pm.paths.filter (fun p => !(p.name == n && shouldClose p)) } := by
  constructor
  · intro p hp; exact invB.eff p (List.mem_filter.mp hp).1
  · intro c hc hs
    obtain ⟨p, hp, hn⟩ := invB.stat c hc hs
    refine ⟨p, List.mem_filter.mpr ⟨hp, ?_⟩, hn⟩
    by_cases hpn : p.name = n
    · rw [static_not_closed invA hp (invB.eff p hp) (hq p hp hpn) hc hs hn]; simp
    · simp [hpn]

theorem invB_ensure {orc : Oracle} {pm pm' : PM} (invB : InvB pm) {n : Bytes}
    (h : ensurePath orc pm n = some pm') : InvB pm' ∧ pm'.confs = pm.confs ∧
      (∀ p ∈ pm'.paths, p.name = n → (∀ p ∈ pm.paths, p.name = n → p.mailbox = []) → p.mailbox = []) := by
  unfold ensurePath at h
  split at h
  · cases h
  · rename_i c m hr
    split at h
    · simp only [Option.some.injEq] at h; rw [← h]
      exact ⟨invB, rfl, fun p hp hn hq => hq p hp hn⟩
    · simp only [Option.some.injEq] at h
      rw [← h]
      refine ⟨⟨?_, ?_⟩, rfl, ?_⟩
      · intro p hp
        rcases List.mem_append.mp hp with hp | hp
        · exact invB.eff p hp
        · have : p = mkPath c n m pm.nextInc := by simpa using hp
          rw [this]; exact (mkReq_ok hr _).2.1
      · intro c' hc' hs
        obtain ⟨p, hp, hn⟩ := invB.stat c' hc' hs
        exact ⟨p, List.mem_append_left _ hp, hn⟩
      · intro p hp hn hq
        rcases List.mem_append.mp hp with hp | hp
        · exact hq p hp hn
        · have : p = mkPath c n m pm.nextInc := by simpa using hp
          rw [this]; rfl

theorem invB_step {V : Variant} {orc : Oracle} {pm : PM} (invA : InvA orc pm) (invB : InvB pm) {ev : Ev}
    (hok : okEv pm ev) (hfifo : V.fixOrder = true ∨ Fifo ev) : InvB (step V orc pm ev) := by
  unfold step
  rw [stepS_eq]
  cases ev with
  | reload new => exact invB_reload invB hok
  | deliver n i => exact invB_deliver invB n hfifo
  | pub n =>
    simp only
    split
    · split
      · exact invB
      · split
        · exact invB
        · exact invB_upd invB n (clientOnly_setPub true)
    · split
      · exact invB
      · rename_i pm' he
        exact invB_upd (invB_ensure invB he).1 n (clientOnly_setPub true)
  | unpub n =>
    simp only
    split
    · split
      · exact invB_filter (invA_upd invA n clientOnly_dropClients.cosmetic)
          (invB_upd invB n clientOnly_dropClients) n (quiet_upd clientOnly_dropClients hok)
      · exact invB
    · exact invB
  | read n id =>
    simp only
    split
    · exact invB
    · split
      · exact invB
      · rename_i pm' he
        have invA' := invA_ensure invA he
        obtain ⟨invB', _, hq'⟩ := invB_ensure invB he
        split
        · split
          · exact invB_upd invB' n (clientOnly_addReader id)
          · exact invB_filter invA' invB' n (fun p hp hn => hq' p hp hn hok)
        · exact invB'
  | unread id =>
    simp only
    split
    · rename_i p hfind
      have hp := List.mem_of_find?_eq_some hfind
      have hc : p.readers.contains id = true := by simpa using List.find?_some hfind
      have hquiet : ∀ q ∈ pm.paths, q.name = p.name → q.mailbox = [] := by
        intro q hq hn
        rw [key_inj (·.name) invA.names q hq p hp hn]
        exact hok p hp hc
      exact invB_filter (invA_upd invA p.name (clientOnly_delReader id).cosmetic)
        (invB_upd invB p.name (clientOnly_delReader id)) p.name (quiet_upd (clientOnly_delReader id) hquiet)
    · exact invB

/-! ### InvG -/

theorem invG_upd {orc : Oracle} {pm : PM} (invG : InvG orc pm) (n : Bytes) {f : LivePath → LivePath}
    (hf : Cosmetic f) : InvG orc { pm with paths := updPath pm.paths n f } := by
  intro q hq
  obtain ⟨p, hp, hq | hq⟩ := mem_updPath hq
  · rw [hq]; exact invG p hp
  · obtain ⟨c, m, hr, hg⟩ := invG p hp
    rw [hq]
    exact ⟨c, m, by rw [(hf p).1]; exact hr, by rw [(hf p).2.2.2]; exact hg⟩

theorem invG_filter {orc : Oracle} {pm : PM} (invG : InvG orc pm) (g : LivePath → Bool) :
    InvG orc { pm with paths := pm.paths.filter g } :=
  fun p hp => invG p (List.mem_filter.mp hp).1

theorem invG_ensure {orc : Oracle} {pm pm' : PM} (invG : InvG orc pm) {n : Bytes}
    (h : ensurePath orc pm n = some pm') : InvG orc pm' := by
  unfold ensurePath at h
  split at h
  · cases h
  · rename_i c m hr
    split at h
    · simp only [Option.some.injEq] at h; rw [← h]; exact invG
    · simp only [Option.some.injEq] at h
      rw [← h]
      intro p hp
      rcases List.mem_append.mp hp with hp | hp
      · exact invG p hp
      · have : p = mkPath c n m pm.nextInc := by simpa using hp
        rw [this]; exact (mkReq_ok hr _).2.2

theorem invG_step {V : Variant} {orc : Oracle} {pm : PM} (invA : InvA orc pm) (invG : InvG orc pm) {ev : Ev}
    (hok : okEv pm ev) (hside : V.fixGroups = true ∨ NoStale orc pm ev) : InvG orc (step V orc pm ev) := by
  unfold step
  rw [stepS_eq]
  cases ev with
  | reload new =>
    intro q hq
    rw [reload_confs]
    rcases mem_reload hq with ⟨p, hp, hpq⟩ | ⟨c, hc, _, i, _, _, rfl⟩
    · refine kept_grp (invA.res p hp) (invG p hp) ?_ hpq
      rcases hside with h | h
      · exact Or.inl h
      · exact Or.inr (h p hp)
    · exact (mkStatic_ok hok hc i).2.2
  | deliver n i => exact invG_upd invG n (cosmetic_deliver V i)
  | pub n =>
    simp only
    split
    · split
      · exact invG
      · split
        · exact invG
        · exact invG_upd invG n (cosmetic_setPub true)
    · split
      · exact invG
      · rename_i pm' he
        exact invG_upd (invG_ensure invG he) n (cosmetic_setPub true)
  | unpub n =>
    simp only
    split
    · split
      · exact invG_filter (invG_upd invG n cosmetic_dropClients) _
      · exact invG
    · exact invG
  | read n id =>
    simp only
    split
    · exact invG
    · split
      · exact invG
      · rename_i pm' he
        have invG' := invG_ensure invG he
        split
        · split
          · exact invG_upd invG' n (cosmetic_addReader id)
          · exact invG_filter invG' _
        · exact invG'
  | unread id =>
    simp only
    split
    · rename_i p _
      exact invG_filter (invG_upd invG p.name (cosmetic_delReader id)) _
    · exact invG

/-! ### the initial state -/

theorem init_inv {orc : Oracle} {confs : List Conf} (wf : WFconfs confs) :
    InvA orc (initPM confs) ∧ InvB (initPM confs) ∧ InvG orc (initPM confs) := by
  have hmem : ∀ q ∈ (initPM confs).paths, ∃ c ∈ confs, ∃ i, q = mkPath c c.name none i := by
    intro q hq
    unfold initPM at hq
    rcases cs_mem confs [] 0 q hq with h | ⟨c, hc, _, i, _, _, rfl⟩
    · cases h
    · exact ⟨c, hc, i, rfl⟩
  have hincs := cs_incs confs [] 0 (fun p hp => by cases hp) (by simp)
  refine ⟨⟨wf, ?_, ?_, ?_, ?_, rfl⟩, ⟨?_, ?_⟩, ?_⟩
  · unfold initPM; exact cs_names confs [] 0 (by simp)
  · unfold initPM; exact hincs.1
  · unfold initPM; exact hincs.2
  · intro q hq
    obtain ⟨c, hc, i, rfl⟩ := hmem q hq
    exact (mkStatic_ok wf hc i).1
  · intro q hq
    obtain ⟨c, hc, i, rfl⟩ := hmem q hq
    exact (mkStatic_ok (orc := orc) wf hc i).2.1
  · intro c hc hs
    unfold initPM
    exact cs_static confs [] 0 c hc hs
  · intro q hq
    obtain ⟨c, hc, i, rfl⟩ := hmem q hq
    exact (mkStatic_ok wf hc i).2.2

end MtxVerif.C15
