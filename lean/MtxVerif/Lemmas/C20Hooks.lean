/-
PathSM, hook pairs (C20): for each hook kind the start/stop events of the output trace alternate,
starting from the open/closed flag of the state and ending in the flag of the new state.
-/
import MtxVerif.Lemmas.C18PathSM_Step

namespace MtxVerif.PathSM

/-- start (`true`) / stop (`false`) events of hook kind `h` in an output list -/
def hookEvents (h : Hook) (out : List Out) : List Bool :=
  out.filterMap fun o => match o with | .hook h' b => if h' = h then some b else none | _ => none

/-- run the two-state pair automaton: a start is only legal when closed, a stop only when open -/
def alt : Bool → List Bool → Option Bool
  | f, [] => some f
  | f, b :: bs => if b = f then none else alt b bs

/-- "pair is open" flag of the state -/
def flag (h : Hook) (s : State) : Bool :=
  match h with | .avail => s.hkAvail | .online => s.hkOnline | .demand => s.hkDemand

@[simp] theorem hookEvents_nil (h : Hook) : hookEvents h [] = [] := rfl
@[simp] theorem hookEvents_append (h : Hook) (a b : List Out) :
    hookEvents h (a ++ b) = hookEvents h a ++ hookEvents h b := by simp [hookEvents]
@[simp] theorem hookEvents_cons (h : Hook) (o : Out) (l : List Out) :
    hookEvents h (o :: l) = (match o with | .hook h' b => if h' = h then [b] else [] | _ => []) ++ hookEvents h l := by
  cases o <;> simp [hookEvents]
  split <;> simp_all

theorem alt_append (f : Bool) (a b : List Bool) : alt f (a ++ b) = (alt f a).bind (fun f' => alt f' b) := by
  induction a generalizing f with
  | nil => simp [alt]
  | cons x xs ih => simp only [List.cons_append, alt]; split <;> simp [ih]

/-- the outputs of the running step, read from flag `f0`, are a legal pair sequence ending in the
current flag -/
def HK (h : Hook) (f0 : Bool) (w : W) : Prop := alt f0 (hookEvents h w.out) = some (flag h w.s)

/-- helpers that emit no hook event and leave the three flags alone -/
def Quiet (f : W → W) : Prop :=
  ∀ w, (∀ h, hookEvents h (f w).out = hookEvents h w.out) ∧
    (f w).s.hkAvail = w.s.hkAvail ∧ (f w).s.hkOnline = w.s.hkOnline ∧ (f w).s.hkDemand = w.s.hkDemand

theorem Quiet.hk {f : W → W} (q : Quiet f) {h : Hook} {f0 : Bool} {w : W} (hk : HK h f0 w) : HK h f0 (f w) := by
  obtain ⟨a, b, c, d⟩ := q w
  unfold HK at *
  rw [a h]
  cases h <;> simp_all [flag]

macro "quiet" : tactic =>
  `(tactic| (intro w; dsimp only; (repeat' split) <;> simp_all [emit, upd, panic]))

theorem quiet_closeReaders : Quiet closeReaders := by
  intro w
  have : ∀ (h : Hook) (l : List Nat), hookEvents h (l.map Out.readerClosed) = [] := by
    intro h l; induction l with
    | nil => rfl
    | cons x xs ih => simp [ih]
  simp [closeReaders, this]
theorem quiet_srcStart : Quiet srcStart := by unfold srcStart; quiet
theorem quiet_srcStop : Quiet srcStop := by unfold srcStop; quiet
theorem quiet_onDemandStaticSourceStop : Quiet onDemandStaticSourceStop := by
  intro w
  unfold onDemandStaticSourceStop
  dsimp only
  split
  · obtain ⟨a, b, c, d⟩ := quiet_srcStop (upd (fun s => { s with odSrc := .initial })
      (emit (.disarm .srcClose) (upd (fun s => { s with tSrcClose := false }) w)))
    simp_all [emit, upd]
  · obtain ⟨a, b, c, d⟩ := quiet_srcStop (upd (fun s => { s with odSrc := .initial }) w)
    simp_all [upd]
theorem quiet_replyStream (rid : Nat) : Quiet (replyStream rid) := by unfold replyStream; quiet
theorem quiet_replyReader (rid r : Nat) : Quiet (replyReader rid r) := by unfold replyReader register; quiet
theorem quiet_addReaderPost (rid r : Nat) : Quiet (addReaderPost rid r) := by
  intro w
  unfold addReaderPost
  dsimp only
  split
  · exact quiet_replyReader rid r w
  split
  · simp [emit]
  · have key : ∀ w1 : W, (∀ h, hookEvents h w1.out = hookEvents h w.out) → w1.s.hkAvail = w.s.hkAvail →
        w1.s.hkOnline = w.s.hkOnline → w1.s.hkDemand = w.s.hkDemand →
        (∀ h, hookEvents h (replyReader rid r w1).out = hookEvents h w.out) ∧
        (replyReader rid r w1).s.hkAvail = w.s.hkAvail ∧ (replyReader rid r w1).s.hkOnline = w.s.hkOnline ∧
        (replyReader rid r w1).s.hkDemand = w.s.hkDemand := by
      intro w1 a b c d
      obtain ⟨a', b', c', d'⟩ := quiet_replyReader rid r w1
      exact ⟨fun h => (a' h).trans (a h), b'.trans b, c'.trans c, d'.trans d⟩
    apply key <;> (repeat' split) <;> simp [emit, upd]
theorem quiet_foldl {α : Type} (f : W → α → W) (hf : ∀ a, Quiet (fun w => f w a)) (l : List α) :
    Quiet (fun w => l.foldl f w) := by
  induction l with
  | nil => intro w; simp
  | cons a as ih =>
    intro w
    obtain ⟨a1, b1, c1, d1⟩ := hf a w
    obtain ⟨a2, b2, c2, d2⟩ := ih (f w a)
    simp only [List.foldl_cons]
    exact ⟨fun h => (a2 h).trans (a1 h), b2.trans b1, c2.trans c1, d2.trans d1⟩
theorem quiet_consume : Quiet consumeOnHoldRequests := by
  intro w
  unfold consumeOnHoldRequests
  dsimp only
  obtain ⟨a1, b1, c1, d1⟩ := quiet_foldl (fun w rid => replyStream rid w) (fun a => quiet_replyStream a) w.s.descHold w
  obtain ⟨a2, b2, c2, d2⟩ := quiet_foldl (fun w (x : Nat × Nat) => addReaderPost x.1 x.2 w)
    (fun a => quiet_addReaderPost a.1 a.2)
    (upd (fun s => { s with descHold := [] }) (w.s.descHold.foldl (fun w rid => replyStream rid w) w)).s.readHold
    (upd (fun s => { s with descHold := [] }) (w.s.descHold.foldl (fun w rid => replyStream rid w) w))
  exact ⟨fun h => (a2 h).trans (a1 h), b2.trans b1, c2.trans c1, d2.trans d1⟩
theorem quiet_failHolds (k : ReplyKind) : Quiet (failHolds k) := by
  intro w
  have e1 : ∀ (h : Hook) (l : List Nat), hookEvents h (l.map fun rid => Out.reply rid k) = [] := by
    intro h l; induction l with
    | nil => rfl
    | cons x xs ih => simp [ih]
  have e2 : ∀ (h : Hook) (l : List (Nat × Nat)), hookEvents h (l.map fun x => Out.reply x.1 k) = [] := by
    intro h l; induction l with
    | nil => rfl
    | cons x xs ih => simp [ih]
  simp [failHolds, e1, e2, upd]
theorem quiet_closeCheck : Quiet closeCheck := by unfold closeCheck; quiet
theorem quiet_closeSource (s0 : State) : Quiet (closeSource s0) := by
  intro w; unfold closeSource
  split
  · split
    · exact quiet_srcStop w
    · simp
  · simp [emit]
  · simp

/-! ### the helpers that fire hooks -/

theorem hk_setOffline {h : Hook} {f0 : Bool} {w : W} (hk : HK h f0 w) : HK h f0 (setOffline w) := by
  unfold HK setOffline at *
  cases h <;> split <;> simp_all [flag, alt_append, alt, emit, upd]

theorem hk_setOnline {h : Hook} {f0 : Bool} {w : W} (hk : HK h f0 w) : HK h f0 (setOnline w) := by
  have h1 := hk_setOffline hk
  have hs := setOffline_s w
  unfold HK setOnline at *
  cases h <;> simp_all [flag, alt_append, alt, emit, upd]

theorem hk_setAvailable {h : Hook} {f0 : Bool} {w : W} (hk : HK h f0 w) (hpre : w.s.hkAvail = false) :
    HK h f0 (setAvailable w) := by
  unfold setAvailable
  dsimp only
  have h1 : HK h f0 (emit (.hook .avail true) (upd (fun s => { s with hkAvail := true })
      (upd (fun s => { s with stream := some s.nextStream, nextStream := s.nextStream + 1 }) w))) := by
    unfold HK at *
    cases h <;> simp_all [flag, alt_append, alt, emit, upd]
  split
  · unfold HK at *; cases h <;> simp_all [flag, alt_append, alt, emit, upd]
  · have h2 := hk_setOnline h1
    unfold HK at *; cases h <;> simp_all [flag, alt_append, alt, emit, upd]

theorem hk_setNotAvailable {h : Hook} {f0 : Bool} {w : W} (hk : HK h f0 w) : HK h f0 (setNotAvailable w) := by
  unfold setNotAvailable
  dsimp only
  have h0 : HK h f0 (emit .pathNotReady w) := by
    unfold HK at *; cases h <;> simp_all [flag, emit]
  have h1 := quiet_closeReaders.hk (hk_setOffline h0)
  generalize closeReaders (setOffline (emit .pathNotReady w)) = w1 at h1 ⊢
  unfold HK at *
  cases h <;> split <;> simp_all [flag, alt_append, alt, emit, upd, panic]

theorem hk_executeRemovePublisher {h : Hook} {f0 : Bool} {w : W} (hk : HK h f0 w) :
    HK h f0 (executeRemovePublisher w) := by
  unfold executeRemovePublisher startOffline
  dsimp only
  split
  · have := hk_setOffline hk
    unfold HK at *; cases h <;> simp_all [flag, upd]
  · have := hk_setNotAvailable hk
    unfold HK at *; cases h <;> simp_all [flag, upd]

theorem hk_onDemandPublisherStop {h : Hook} {f0 : Bool} {w : W} (hk : HK h f0 w) :
    HK h f0 (onDemandPublisherStop w) := by
  unfold HK onDemandPublisherStop at *
  dsimp only
  cases h <;> (repeat' split) <;> simp_all [flag, alt_append, alt, emit, upd, panic]

theorem hk_holdDemand {h : Hook} {f0 : Bool} {w : W} (hk : HK h f0 w)
    (hpre : w.s.conf.odStatic = false → w.s.odPub = .initial → w.s.hkDemand = false) :
    HK h f0 (holdDemand w) := by
  unfold holdDemand onDemandStaticSourceStart onDemandPublisherStart
  split
  · split
    · have := quiet_srcStart.hk hk
      unfold HK at *; cases h <;> simp_all [flag, emit, upd]
    · exact hk
  · split
    · rename_i h1 h2
      have := hpre (by simpa using h1) h2
      unfold HK at *; cases h <;> simp_all [flag, alt_append, alt, emit, upd]
    · unfold onDemandPublisherWaitAgain
      dsimp only
      unfold HK at *
      cases h <;> (repeat' split) <;> simp_all [flag, emit, upd]

theorem hk_subErrCleanup {h : Hook} {f0 : Bool} {w : W} (hk : HK h f0 w) : HK h f0 (subErrCleanup w) := by
  unfold subErrCleanup; split
  · exact hk
  · exact hk_setNotAvailable hk

/-! ### one step -/

theorem hk_upd {h : Hook} {f0 : Bool} {w : W} (f : State → State) (hk : HK h f0 w)
    (h1 : (f w.s).hkAvail = w.s.hkAvail) (h2 : (f w.s).hkOnline = w.s.hkOnline) (h3 : (f w.s).hkDemand = w.s.hkDemand) :
    HK h f0 (upd f w) := by
  unfold HK at *; cases h <;> simp_all [flag, upd]

theorem hk_emit {h : Hook} {f0 : Bool} {w : W} (o : Out) (hk : HK h f0 w) (ho : ∀ h' b, o ≠ .hook h' b) :
    HK h f0 (emit o w) := by
  unfold HK at *
  cases o <;> simp_all [flag, emit]

theorem hk_pubAttach {h : Hook} {f0 : Bool} (p : Nat) (ok : Bool) (w : W) (hk : HK h f0 w)
    (hpre : w.s.conf.alwaysAvailable = false → w.s.hkAvail = false) : HK h f0 (pubAttach p ok w) := by
  unfold pubAttach
  dsimp only
  have h0 : HK h f0 (if w.s.conf.alwaysAvailable = true then w else setAvailable w) := by
    split
    · exact hk
    · exact hk_setAvailable hk (hpre (by simpa using ‹¬ w.s.conf.alwaysAvailable = true›))
  generalize (if w.s.conf.alwaysAvailable = true then w else setAvailable w) = w1 at h0 ⊢
  split
  · exact hk_emit _ (hk_subErrCleanup h0) (by intros; simp)
  · apply hk_emit _ _ (by intros; simp)
    apply quiet_consume.hk
    have h1 : HK h f0 (upd (fun s => { s with source := some (.pub p) }) (newSub w1)) :=
      hk_upd _ (hk_upd _ h0 rfl rfl rfl) rfl rfl rfl
    generalize (upd (fun s => { s with source := some (.pub p) }) (newSub w1)) = w2 at h1 ⊢
    have h2 : HK h f0 (if w2.s.conf.alwaysAvailable = true then setOnline w2 else w2) := by
      split
      · exact hk_setOnline h1
      · exact h1
    generalize (if w2.s.conf.alwaysAvailable = true then setOnline w2 else w2) = w3 at h2 ⊢
    split
    · unfold onDemandPublisherScheduleClose
      exact hk_emit _ (hk_upd _ (hk_emit _ (hk_upd _ h2 rfl rfl rfl) (by intros; simp)) rfl rfl rfl) (by intros; simp)
    · exact h2

theorem hk_srcReady {h : Hook} {f0 : Bool} (ok : Bool) (w : W) (hk : HK h f0 w)
    (hpre : w.s.conf.alwaysAvailable = false → w.s.hkAvail = false) : HK h f0 (doSourceStaticSetReady ok w) := by
  unfold doSourceStaticSetReady
  dsimp only
  have h0 : HK h f0 (if w.s.conf.alwaysAvailable = true then w else setAvailable w) := by
    split
    · exact hk
    · exact hk_setAvailable hk (hpre (by simpa using ‹¬ w.s.conf.alwaysAvailable = true›))
  generalize (if w.s.conf.alwaysAvailable = true then w else setAvailable w) = w1 at h0 ⊢
  split
  · exact hk_emit _ (hk_subErrCleanup h0) (by intros; simp)
  · apply hk_emit _ _ (by intros; simp)
    apply quiet_consume.hk
    have h1 : HK h f0 (upd (fun s => { s with srcUp := true }) (newSub w1)) :=
      hk_upd _ (hk_upd _ h0 rfl rfl rfl) rfl rfl rfl
    generalize (upd (fun s => { s with srcUp := true }) (newSub w1)) = w2 at h1 ⊢
    have h2 : HK h f0 (if w2.s.conf.alwaysAvailable = true then setOnline w2 else w2) := by
      split
      · exact hk_setOnline h1
      · exact h1
    generalize (if w2.s.conf.alwaysAvailable = true then setOnline w2 else w2) = w3 at h2 ⊢
    split
    · unfold onDemandStaticSourceScheduleClose
      exact hk_emit _ (hk_upd _ (hk_emit _ (hk_upd _ h2 rfl rfl rfl) (by intros; simp)) rfl rfl rfl) (by intros; simp)
    · exact h2

theorem hk_doClose {h : Hook} {f0 : Bool} (w : W) (hk : HK h f0 w) : HK h f0 (doClose w) := by
  unfold doClose
  dsimp only
  have h1 : HK h f0 (closeSource w.s (failHolds .terminated (upd (fun s => { s with tSrcReady := false, tSrcClose := false, tPubReady := false, tPubClose := false }) (emit .removePath w)))) :=
    (quiet_closeSource w.s).hk ((quiet_failHolds _).hk (hk_upd _ (hk_emit _ hk (by intros; simp)) rfl rfl rfl))
  have e1 : (closeSource w.s (failHolds .terminated (upd (fun s => { s with tSrcReady := false, tSrcClose := false, tPubReady := false, tPubClose := false }) (emit .removePath w)))).s.hkDemand = w.s.hkDemand := by
    obtain ⟨_, _, _, d⟩ := quiet_closeSource w.s (failHolds .terminated (upd (fun s => { s with tSrcReady := false, tSrcClose := false, tPubReady := false, tPubClose := false }) (emit .removePath w)))
    rw [d]; rfl
  generalize (closeSource w.s (failHolds .terminated (upd (fun s => { s with tSrcReady := false, tSrcClose := false, tPubReady := false, tPubClose := false }) (emit .removePath w)))) = w1 at h1 e1 ⊢
  have h2 : HK h f0 (if w.s.hkDemand = true then emit (.hook .demand false) (upd (fun s => { s with hkDemand := false }) w1) else w1) := by
    split
    · rename_i hd
      rw [← e1] at hd
      unfold HK at *; cases h <;> simp_all [flag, alt_append, alt, emit, upd]
    · exact h1
  generalize (if w.s.hkDemand = true then emit (.hook .demand false) (upd (fun s => { s with hkDemand := false }) w1) else w1) = w2 at h2 ⊢
  apply hk_upd _ _ rfl rfl rfl
  split
  · exact hk_setNotAvailable h2
  · exact h2

theorem hk_stepW {h : Hook} {f0 : Bool} (e : Event) (w : W) (hi : Inv w.s) (hk : HK h f0 w) :
    HK h f0 (stepW e w) := by
  unfold stepW
  split
  · exact hk_emit _ hk (by intros; simp)
  split
  · unfold stepClosed
    split <;> first
      | exact hk_emit _ hk (by intros; simp)
      | exact hk_upd _ hk rfl rfl rfl
      | exact hk
  rename_i hp hcl
  have hc : w.s.closed = false := by simpa using hcl
  have hdem : w.s.conf.odStatic = false → w.s.odPub = .initial → w.s.hkDemand = false := by
    intro _ h0
    have := hi.q3 hc
    rw [h0] at this
    cases hd : w.s.hkDemand with
    | false => rfl
    | true => simp [hd] at this
  have hstream : w.s.stream = none → w.s.hkAvail = false := by
    intro hs; rw [hi.hkA, hs]; rfl
  split
  · -- describe
    apply quiet_closeCheck.hk
    unfold doDescribe
    (repeat' split) <;> first
      | exact hk_emit _ hk (by intros; simp)
      | exact (quiet_replyStream _).hk hk
      | exact hk_upd _ (hk_holdDemand hk hdem) rfl rfl rfl
  · -- addPublisher
    rename_i p ok
    apply quiet_closeCheck.hk
    unfold doAddPublisher
    split
    · exact hk_emit _ hk (by intros; simp)
    split
    · exact hk_emit _ hk (by intros; simp)
    · rename_i hk' _
      have hkind : w.s.conf.kind = .publisher := by simpa using hk'
      obtain ⟨i1, i2, i3, i4⟩ := pubOverride_post w hi hc hkind
      apply hk_pubAttach
      · unfold pubOverride
        split
        · exact hk
        · exact hk_executeRemovePublisher (hk_emit _ hk (by intros; simp))
        · unfold HK at *; cases h <;> simp_all [flag, panic, emit, upd]
      · intro haa
        rw [i1.hkA]
        cases hs : (pubOverride w).s.stream with
        | none => rfl
        | some x =>
          have := i1.c1 haa (by rw [hs]; rfl) (i4 ▸ hkind)
          rw [i2] at this; cases this
  · -- removePublisher
    apply quiet_closeCheck.hk
    unfold doRemovePublisher
    split
    · exact hk_executeRemovePublisher hk
    · exact hk
  · -- addReader
    apply quiet_closeCheck.hk
    unfold doAddReader
    (repeat' split) <;> first
      | exact (quiet_addReaderPost _ _).hk hk
      | exact hk_emit _ hk (by intros; simp)
      | exact hk_upd _ (hk_holdDemand hk hdem) rfl rfl rfl
  · -- removeReader
    apply quiet_closeCheck.hk
    unfold doRemoveReader onDemandStaticSourceScheduleClose onDemandPublisherScheduleClose
    dsimp only
    (repeat' split) <;> first
      | exact hk_emit _ (hk_upd _ (hk_upd _ hk rfl rfl rfl) rfl rfl rfl) (by intros; simp)
      | exact hk_upd _ hk rfl rfl rfl
  · -- srcReady
    split
    · rename_i hg
      apply hk_srcReady _ _ hk
      intro haa
      rw [hi.hkA]
      cases hs : w.s.stream with
      | none => rfl
      | some x =>
        have hks : w.s.conf.kind = .static := hi.kStatic.mpr hg.1
        have := hi.c2 haa (by rw [hs]; rfl) (by rw [hks]; decide)
        rw [this] at hg; simp at hg
    · exact hk_emit _ hk (by intros; simp)
  · -- srcNotReady
    split
    · apply quiet_closeCheck.hk
      unfold doSourceStaticSetNotReady startOffline
      dsimp only
      have h0 : HK h f0 (if w.s.conf.alwaysAvailable = true then upd (fun s => { s with aaCur := none }) (setOffline w) else setNotAvailable w) := by
        split
        · exact hk_upd _ (hk_setOffline hk) rfl rfl rfl
        · exact hk_setNotAvailable hk
      generalize (if w.s.conf.alwaysAvailable = true then upd (fun s => { s with aaCur := none }) (setOffline w) else setNotAvailable w) = w1 at h0 ⊢
      split
      · exact quiet_onDemandStaticSourceStop.hk (hk_upd _ h0 rfl rfl rfl)
      · exact hk_upd _ h0 rfl rfl rfl
    · exact hk_emit _ hk (by intros; simp)
  · -- timers
    split
    · rename_i t _
      cases t <;> unfold fireTimer <;> dsimp only
      · apply quiet_closeCheck.hk; unfold doOnDemandStaticSourceReadyTimer
        exact quiet_onDemandStaticSourceStop.hk ((quiet_failHolds _).hk (hk_upd _ hk rfl rfl rfl))
      · apply quiet_closeCheck.hk; unfold doOnDemandStaticSourceCloseTimer
        split
        · have := hk_upd (fun s => { s with tSrcClose := false }) hk rfl rfl rfl
          unfold HK at *; cases h <;> simp_all [flag, panic, emit, upd]
        · exact quiet_onDemandStaticSourceStop.hk (hk_setNotAvailable (hk_upd _ hk rfl rfl rfl))
      · apply quiet_closeCheck.hk; unfold doOnDemandPublisherReadyTimer
        exact hk_onDemandPublisherStop ((quiet_failHolds _).hk (hk_upd _ hk rfl rfl rfl))
      · unfold doOnDemandPublisherCloseTimer
        exact hk_onDemandPublisherStop (hk_upd _ hk rfl rfl rfl)
    · exact hk_emit _ hk (by intros; simp)
  · -- reload
    split
    · exact hk_upd _ hk rfl rfl rfl
    · exact hk_emit _ hk (by intros; simp)
  · exact hk_doClose w hk
  · exact hk_emit _ hk (by intros; simp)
  · exact hk_upd _ hk rfl rfl rfl

end MtxVerif.PathSM
