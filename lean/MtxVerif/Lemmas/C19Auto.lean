/-
PathSM, on-demand automaton and hold lists (C19): second invariant layer on top of `Inv`.
-/
import MtxVerif.Lemmas.C18PathSM_Step

namespace MtxVerif.PathSM

/-- some request is on hold -/
def Holding (s : State) : Prop := s.descHold ≠ [] ∨ s.readHold ≠ []

instance (s : State) : Decidable (Holding s) := by unfold Holding; infer_instance

structure Inv2 (s : State) : Prop where
  /-- the close timer of the on-demand source only runs while no reader is attached ... -/
  a1 : s.conf.odStatic = true → s.closed = false → s.odSrc = .closing → s.readers = []
  /-- ... and the source is only kept "ready" by attached readers -/
  a2 : s.conf.odStatic = true → s.closed = false → s.odSrc = .ready → s.readers ≠ []
  a3 : s.conf.odPub = true → s.closed = false → s.odPub = .closing → s.readers = []
  /-- requests are only held while there is no stream, on an on-demand path -/
  b1 : Holding s → s.stream = none
  b4 : Holding s → s.conf.odStatic = true ∨ s.conf.odPub = true
  /-- on-demand static source: held requests always have the start timer running -/
  b2 : s.conf.odStatic = true → Holding s → s.odSrc = .waiting

/-- on-demand publisher: held requests always have the start timer running (since the fix of finding
F-C19 `hold-no-timer`, upstream 316e99c: a request held while the automaton is `ready`/`closing` re-arms it) -/
def HoldPubOK (s : State) : Prop := s.conf.odStatic = false → Holding s → s.odPub = .waiting

/-- split `Inv2` into its fields and let `grind` discharge each -/
macro "inv2_fields" : tactic => `(tactic| (constructor <;> (try unfold Holding) <;> grind))

/-- the reader-related clauses of `Inv2` (the ones that do not mention the hold lists) -/
structure Inv2a (s : State) : Prop where
  a1 : s.conf.odStatic = true → s.closed = false → s.odSrc = .closing → s.readers = []
  a2 : s.conf.odStatic = true → s.closed = false → s.odSrc = .ready → s.readers ≠ []
  a3 : s.conf.odPub = true → s.closed = false → s.odPub = .closing → s.readers = []

theorem Inv2.toA {s : State} (h : Inv2 s) : Inv2a s := ⟨h.a1, h.a2, h.a3⟩

theorem inv2a_rdstep {s s' : State} (hi : Inv s) (h : Inv2a s) (R : RdStep s s') : Inv2a s' := by
  have hne : s.readers ≠ [] → s'.readers ≠ [] := by
    intro h1 h2
    cases hb : s.readers with
    | nil => exact h1 hb
    | cons x xs => have := R.rsub x (by rw [hb]; exact List.mem_cons_self); rw [h2] at this; cases this
  have hq : s.conf.odPub = true → s.conf.odStatic = false := by
    intro h1
    have hv := hi.valid
    unfold Conf.valid at hv
    have := odStatic_iff s.conf
    unfold Conf.odPub at h1
    grind
  have hgS : s.conf.odStatic = true → s'.odSrc = .closing → s'.readers = s.readers := by
    intro h2 h1
    by_cases hh : s'.readers = s.readers
    · exact hh
    · exact absurd h1 ((R.grow hh).1 h2)
  have hgP : s.conf.odStatic = false → s.conf.odPub = true → s'.odPub = .closing → s'.readers = s.readers := by
    intro h2 h3 h1
    by_cases hh : s'.readers = s.readers
    · exact hh
    · exact absurd h1 ((R.grow hh).2 h2 h3)
  have f1 := R.f1
  have f2 := R.f2
  have oS := R.odS
  have oP := R.odP
  cases h
  constructor <;> grind

theorem inv2_of_a {s : State} (h : Inv2a s) (hn : ¬ Holding s) : Inv2 s :=
  ⟨h.a1, h.a2, h.a3, fun hh => absurd hh hn, fun hh => absurd hh hn, fun _ hh => absurd hh hn⟩

/-- admitting a reader on an available path (nothing is on hold then) -/
theorem inv2_rdstep {s s' : State} (hi : Inv s) (h : Inv2 s) (R : RdStep s s') : Inv2 s' := by
  have ha := inv2a_rdstep hi h.toA R
  refine ⟨ha.a1, ha.a2, ha.a3, ?_, ?_, ?_⟩ <;> unfold Holding <;> rw [R.f7, R.f8]
  · rw [R.f5]; exact h.b1
  · rw [R.f1]; exact h.b4
  · intro h1 h2
    rw [R.f1] at h1
    have hw := h.b2 h1 h2
    rcases R.odS with ⟨e, _⟩ | ⟨_, e, _⟩
    · rw [e]; exact hw
    · rw [hw] at e; cases e

theorem holdPub_rdstep {s s' : State} (h : HoldPubOK s) (R : RdStep s s') (hn : ¬ Holding s) : HoldPubOK s' := by
  unfold HoldPubOK Holding at *
  intro _ hh
  rw [R.f7, R.f8] at hh
  exact absurd hh hn

theorem inv2_consume (w : W) (hi : Inv w.s) (h : Inv2a w.s) :
    Inv2 (consumeOnHoldRequests w).s ∧ ¬ Holding (consumeOnHoldRequests w).s := by
  obtain ⟨s1, R, e⟩ := consume_rd w
  rw [e]
  have h1 := inv2a_rdstep hi h R
  have hn : ¬ Holding { s1 with descHold := [], readHold := [] } := by simp [Holding]
  refine ⟨inv2_of_a ?_ hn, hn⟩
  cases h1; constructor <;> grind

/-- the stream/readers/hold part of the state after the shared prefix of doAddPublisher / srcReady -/
theorem inv2_pubAttach (p : Nat) (ok : Bool) (w : W) (hi : Inv w.s) (h : Inv2 w.s) (hc : w.s.closed = false)
    (hk : w.s.conf.kind = .publisher) (hsrc : w.s.source = none) :
    Inv2 (pubAttach p ok w).s ∧ (HoldPubOK w.s → HoldPubOK (pubAttach p ok w).s) := by
  unfold pubAttach
  dsimp only
  have hv := odStatic_iff w.s.conf
  have hval := hi.valid
  unfold Conf.valid at hval
  have hq : w.s.conf.odPub = w.s.conf.runOnDemand := rfl
  cases ok
  · simp only [Bool.not_false, if_true, emit_s, subErrCleanup_s]
    unfold HoldPubOK Holding
    constructor
    · (repeat' split) <;> (try simp only [setAvailable_s] at *) <;>
        (cases hi; cases h; unfold Holding at *; inv2_fields)
    · (repeat' split) <;> (try simp only [setAvailable_s] at *) <;> (cases hi; grind)
  · simp only [Bool.not_true, Bool.false_eq_true, if_false, emit_s]
    have key : ∀ w3 : W, Inv w3.s → Inv2a w3.s →
        Inv2 (consumeOnHoldRequests w3).s ∧ (HoldPubOK w.s → HoldPubOK (consumeOnHoldRequests w3).s) := by
      intro w3 i3 j3
      obtain ⟨a, b⟩ := inv2_consume w3 i3 j3
      exact ⟨a, fun _ => by unfold HoldPubOK; intro _ hh; exact absurd hh b⟩
    apply key
    · (repeat' split) <;>
        simp only [emit_s, upd_s, newSub_s, setOnline_s, setAvailable_s, onDemandPublisherScheduleClose] at * <;>
        (cases hi; inv_fields)
    · (repeat' split) <;>
        simp only [emit_s, upd_s, newSub_s, setOnline_s, setAvailable_s, onDemandPublisherScheduleClose] at * <;>
        (cases hi; cases h; unfold Holding at *; constructor <;> grind)

theorem inv2_execRemove (w : W) (hi : Inv w.s) (h : Inv2 w.s) (q : Nat) (hs : w.s.source = some (.pub q)) :
    Inv2 (executeRemovePublisher w).s ∧ (HoldPubOK w.s → HoldPubOK (executeRemovePublisher w).s) := by
  rw [executeRemovePublisher_s]
  have hv := odStatic_iff w.s.conf
  have hval := hi.valid
  unfold Conf.valid at hval
  have hq : w.s.conf.odPub = w.s.conf.runOnDemand := rfl
  constructor
  · cases hi; cases h; unfold Holding at *; inv2_fields
  · unfold HoldPubOK Holding; simp only; exact id

theorem inv2_doAddPublisher (p : Nat) (ok : Bool) (w : W) (hi : Inv w.s) (h : Inv2 w.s) (hc : w.s.closed = false) :
    Inv2 (doAddPublisher p ok w).s ∧ (HoldPubOK w.s → HoldPubOK (doAddPublisher p ok w).s) := by
  unfold doAddPublisher
  split
  · exact ⟨h, id⟩
  split
  · exact ⟨h, id⟩
  · rename_i hk _
    have hk' : w.s.conf.kind = .publisher := by simpa using hk
    obtain ⟨i1, i2, i3, i4⟩ := pubOverride_post w hi hc hk'
    have hS : Inv2 (pubOverride w).s ∧ (HoldPubOK w.s → HoldPubOK (pubOverride w).s) := by
      unfold pubOverride
      split
      · exact ⟨h, id⟩
      · rename_i q hq
        exact inv2_execRemove _ hi h q hq
      · rename_i x hx hne
        exfalso
        rcases hi.kPub hk' with h0 | ⟨q, hq⟩
        · rw [h0] at hne; cases hne
        · rw [hq] at hne; injection hne with e; exact hx q e.symm
    obtain ⟨j1, j2⟩ := inv2_pubAttach p ok _ i1 hS.1 i3 (i4 ▸ hk') i2
    exact ⟨j1, fun hh => j2 (hS.2 hh)⟩

theorem inv2_doRemovePublisher (p : Nat) (w : W) (hi : Inv w.s) (h : Inv2 w.s) :
    Inv2 (doRemovePublisher p w).s ∧ (HoldPubOK w.s → HoldPubOK (doRemovePublisher p w).s) := by
  unfold doRemovePublisher
  split
  · exact inv2_execRemove _ hi h p ‹_›
  · exact ⟨h, id⟩

theorem inv2_doDescribe (rid : Nat) (w : W) (hi : Inv w.s) (h : Inv2 w.s) (hc : w.s.closed = false) :
    Inv2 (doDescribe rid w).s ∧
    (HoldPubOK w.s → HoldPubOK (doDescribe rid w).s) := by
  unfold doDescribe
  have hv := odStatic_iff w.s.conf
  have hval := hi.valid
  unfold Conf.valid at hval
  have hq : w.s.conf.odPub = w.s.conf.runOnDemand := rfl
  split
  · exact ⟨h, fun a => a⟩
  split
  · rw [replyStream_s]; exact ⟨h, fun a => a⟩
  split
  · simp only [upd_s, holdDemand_s]
    have hne : w.s.descHold ++ [rid] ≠ [] := by simp
    have hsn : w.s.stream = none := by
      rename_i hs _
      cases hst : w.s.stream with
      | none => rfl
      | some x => rw [hst] at hs; simp at hs
    have hod : ∀ o : OD, o = .initial ∨ o = .waiting ∨ o = .ready ∨ o = .closing := by
      intro o; cases o <;> simp
    have ho1 := hod w.s.odSrc
    have ho2 := hod w.s.odPub
    constructor
    · cases hi; cases h; unfold Holding at *; inv2_fields
    · unfold HoldPubOK Holding
      cases hi; cases h; unfold Holding at *
      intro hp
      grind
  split
  · exact ⟨h, fun a => a⟩
  · exact ⟨h, fun a => a⟩

theorem inv2_doAddReader (rid r : Nat) (w : W) (hi : Inv w.s) (h : Inv2 w.s) (hc : w.s.closed = false) :
    Inv2 (doAddReader rid r w).s ∧
    (HoldPubOK w.s → HoldPubOK (doAddReader rid r w).s) := by
  unfold doAddReader
  have hv := odStatic_iff w.s.conf
  have hval := hi.valid
  unfold Conf.valid at hval
  have hq : w.s.conf.odPub = w.s.conf.runOnDemand := rfl
  split
  · rename_i hs
    have hn : ¬ Holding w.s := fun hh => by have := h.b1 hh; rw [this] at hs; cases hs
    exact ⟨inv2_rdstep hi h (addReaderPost_rd ..), fun a => holdPub_rdstep a (addReaderPost_rd ..) hn⟩
  split
  · simp only [upd_s, holdDemand_s]
    have hne : w.s.readHold ++ [(rid, r)] ≠ [] := by simp
    have hsn : w.s.stream = none := by
      rename_i hs _
      cases hst : w.s.stream with
      | none => rfl
      | some x => rw [hst] at hs; simp at hs
    have hod : ∀ o : OD, o = .initial ∨ o = .waiting ∨ o = .ready ∨ o = .closing := by
      intro o; cases o <;> simp
    have ho1 := hod w.s.odSrc
    have ho2 := hod w.s.odPub
    constructor
    · cases hi; cases h; unfold Holding at *; inv2_fields
    · unfold HoldPubOK Holding
      cases hi; cases h; unfold Holding at *
      intro hp
      grind
  · exact ⟨h, fun a => a⟩

theorem inv2_doRemoveReader (r : Nat) (w : W) (hi : Inv w.s) (h : Inv2 w.s) (hc : w.s.closed = false) :
    Inv2 (doRemoveReader r w).s ∧ (HoldPubOK w.s → HoldPubOK (doRemoveReader r w).s) := by
  unfold doRemoveReader onDemandStaticSourceScheduleClose onDemandPublisherScheduleClose
  dsimp only
  have hv := odStatic_iff w.s.conf
  have hval := hi.valid
  unfold Conf.valid at hval
  have hq : w.s.conf.odPub = w.s.conf.runOnDemand := rfl
  have h3 : w.s.readers.filter (· != r) ≠ [] → w.s.readers ≠ [] := by
    intro hne he; rw [he] at hne; exact hne rfl
  have h4 : ∀ l : List Nat, l.isEmpty = true ↔ l = [] := fun l => List.isEmpty_iff
  constructor
  · cases hi; cases h
    repeat' split
    all_goals (simp only [upd_s, emit_s] at *; generalize w.s.readers.filter (· != r) = rs at *; unfold Holding at *; inv2_fields)
  · unfold HoldPubOK Holding
    repeat' split
    all_goals (simp only [upd_s, emit_s] at *; grind)

theorem inv2_srcReady (ok : Bool) (w : W) (hi : Inv w.s) (h : Inv2 w.s) (hc : w.s.closed = false)
    (hg : w.s.source = some .static ∧ w.s.srcRunning = true ∧ (!w.s.srcUp) = true) :
    Inv2 (doSourceStaticSetReady ok w).s ∧ (HoldPubOK w.s → HoldPubOK (doSourceStaticSetReady ok w).s) := by
  unfold doSourceStaticSetReady
  dsimp only
  have hv := odStatic_iff w.s.conf
  have hval := hi.valid
  unfold Conf.valid at hval
  have hq : w.s.conf.odPub = w.s.conf.runOnDemand := rfl
  cases ok
  · simp only [Bool.not_false, if_true, emit_s, subErrCleanup_s]
    unfold HoldPubOK Holding
    constructor
    · (repeat' split) <;> (try simp only [setAvailable_s] at *) <;>
        (cases hi; cases h; unfold Holding at *; inv2_fields)
    · (repeat' split) <;> (try simp only [setAvailable_s] at *) <;> (cases hi; grind)
  · simp only [Bool.not_true, Bool.false_eq_true, if_false, emit_s]
    have key : ∀ w3 : W, Inv w3.s → Inv2a w3.s →
        Inv2 (consumeOnHoldRequests w3).s ∧ (HoldPubOK w.s → HoldPubOK (consumeOnHoldRequests w3).s) := by
      intro w3 i3 j3
      obtain ⟨a, b⟩ := inv2_consume w3 i3 j3
      exact ⟨a, fun _ => by unfold HoldPubOK; intro _ hh; exact absurd hh b⟩
    apply key
    · (repeat' split) <;>
        simp only [emit_s, upd_s, newSub_s, setOnline_s, setAvailable_s, onDemandStaticSourceScheduleClose] at * <;>
        (cases hi; inv_fields)
    · (repeat' split) <;>
        simp only [emit_s, upd_s, newSub_s, setOnline_s, setAvailable_s, onDemandStaticSourceScheduleClose] at * <;>
        (cases hi; cases h; unfold Holding at *; constructor <;> grind)

theorem inv2_srcNotReady (w : W) (hi : Inv w.s) (h : Inv2 w.s) (hc : w.s.closed = false)
    (hg : w.s.source = some .static ∧ w.s.srcRunning = true ∧ w.s.srcUp = true) :
    Inv2 (doSourceStaticSetNotReady w).s ∧ (HoldPubOK w.s → HoldPubOK (doSourceStaticSetNotReady w).s) := by
  unfold doSourceStaticSetNotReady
  dsimp only
  have hv := odStatic_iff w.s.conf
  have hval := hi.valid
  unfold Conf.valid at hval
  have hq : w.s.conf.odPub = w.s.conf.runOnDemand := rfl
  constructor
  · (repeat' split) <;>
      simp only [upd_s, setOffline_s, startOffline_s, setNotAvailable_s, onDemandStaticSourceStop_s] at * <;>
      (cases hi; cases h; unfold Holding at *; inv2_fields)
  · unfold HoldPubOK Holding
    (repeat' split) <;>
      simp only [upd_s, setOffline_s, startOffline_s, setNotAvailable_s, onDemandStaticSourceStop_s] at * <;>
      grind

theorem inv2_fireTimer (t : Timer) (w : W) (hi : Inv w.s) (h : Inv2 w.s) (hc : w.s.closed = false)
    (ha : timerArmed w.s t = true) :
    Inv2 (fireTimer t w).s ∧ (HoldPubOK w.s → HoldPubOK (fireTimer t w).s) := by
  have hv := odStatic_iff w.s.conf
  have hval := hi.valid
  unfold Conf.valid at hval
  have hq : w.s.conf.odPub = w.s.conf.runOnDemand := rfl
  cases t <;> unfold fireTimer timerArmed at * <;> simp only [closeCheck_s]
  · unfold doOnDemandStaticSourceReadyTimer
    simp only [onDemandStaticSourceStop_s, failHolds_s, upd_s]
    constructor
    · cases hi; cases h; unfold Holding at *; inv2_fields
    · unfold HoldPubOK Holding; grind
  · unfold doOnDemandStaticSourceCloseTimer
    constructor
    · (repeat' split) <;> simp only [onDemandStaticSourceStop_s, setNotAvailable_s, upd_s, panic, emit_s] at * <;>
        (cases hi; cases h; unfold Holding at *; inv2_fields)
    · unfold HoldPubOK Holding
      (repeat' split) <;> simp only [onDemandStaticSourceStop_s, setNotAvailable_s, upd_s, panic, emit_s] at * <;> grind
  · unfold doOnDemandPublisherReadyTimer
    simp only [onDemandPublisherStop_s, failHolds_s, upd_s]
    constructor
    · cases hi; cases h; unfold Holding at *; inv2_fields
    · unfold HoldPubOK Holding; grind
  · unfold doOnDemandPublisherCloseTimer
    simp only [onDemandPublisherStop_s, upd_s]
    constructor
    · cases hi; cases h; unfold Holding at *; inv2_fields
    · unfold HoldPubOK Holding
      cases hi
      grind

theorem inv2_doClose (w : W) (hi : Inv w.s) (h : Inv2 w.s) :
    Inv2 (doClose w).s ∧ HoldPubOK (doClose w).s := by
  rw [doClose_s]
  constructor
  · cases hi; cases h; unfold Holding at *; inv2_fields
  · unfold HoldPubOK Holding; grind

theorem inv2_stepW (e : Event) (w : W) (hi : Inv w.s) (h : Inv2 w.s) :
    Inv2 (stepW e w).s ∧ (HoldPubOK w.s → HoldPubOK (stepW e w).s) := by
  unfold stepW
  split
  · exact ⟨h, fun a => a⟩
  split
  · unfold stepClosed
    split <;> first
      | exact ⟨h, fun a => a⟩
      | (simp only [upd_s]; exact ⟨by cases h; unfold Holding at *; inv2_fields, fun a => by unfold HoldPubOK Holding at *; grind⟩)
  rename_i hp hcl
  have hc : w.s.closed = false := by simpa using hcl
  split
  · rw [closeCheck_s]; exact inv2_doDescribe _ _ hi h hc
  · rw [closeCheck_s]; exact ⟨(inv2_doAddPublisher _ _ _ hi h hc).1, fun a => (inv2_doAddPublisher _ _ _ hi h hc).2 a⟩
  · rw [closeCheck_s]; exact ⟨(inv2_doRemovePublisher _ _ hi h).1, fun a => (inv2_doRemovePublisher _ _ hi h).2 a⟩
  · rw [closeCheck_s]; exact inv2_doAddReader _ _ _ hi h hc
  · rw [closeCheck_s]; exact ⟨(inv2_doRemoveReader _ _ hi h hc).1, fun a => (inv2_doRemoveReader _ _ hi h hc).2 a⟩
  · split
    · exact ⟨(inv2_srcReady _ _ hi h hc ‹_›).1, fun a => (inv2_srcReady _ _ hi h hc ‹_›).2 a⟩
    · exact ⟨h, fun a => a⟩
  · split
    · rw [closeCheck_s]; exact ⟨(inv2_srcNotReady _ hi h hc ‹_›).1, fun a => (inv2_srcNotReady _ hi h hc ‹_›).2 a⟩
    · exact ⟨h, fun a => a⟩
  · split
    · exact ⟨(inv2_fireTimer _ _ hi h hc ‹_›).1, fun a => (inv2_fireTimer _ _ hi h hc ‹_›).2 a⟩
    · exact ⟨h, fun a => a⟩
  · split
    · rename_i rx hvv
      simp only [upd_s]
      have := odStatic_regexp w.s.conf rx
      have := odPub_regexp w.s.conf rx
      exact ⟨by cases h; unfold Holding at *; inv2_fields, fun a => by unfold HoldPubOK Holding at *; grind⟩
    · exact ⟨h, fun a => a⟩
  · exact ⟨(inv2_doClose _ hi h).1, fun _ => (inv2_doClose _ hi h).2⟩
  · exact ⟨h, fun a => a⟩
  · simp only [upd_s]
    exact ⟨by cases h; unfold Holding at *; inv2_fields, fun a => by unfold HoldPubOK Holding at *; grind⟩

theorem inv2_init (c : Conf) : Inv2 (init c) ∧ HoldPubOK (init c) := by
  unfold init initW HoldPubOK
  dsimp only
  (repeat' split) <;> simp only [upd_s, emit_s, srcStart_s] at * <;>
    exact ⟨by constructor <;> simp [Holding], by simp [Holding]⟩

theorem inv2_run (es : List Event) : ∀ s, Inv s → Inv2 s → Inv2 (run s es).1 := by
  induction es with
  | nil => intro s _ h; exact h
  | cons e es ih => intro s hi h; exact ih _ (inv_step s e hi) (inv2_stepW e { s := s } hi h).1

theorem inv2_reach (c : Conf) (hv : c.valid = true) (es : List Event) : Inv2 (run (init c) es).1 :=
  inv2_run es _ (inv_init c hv) (inv2_init c).1

theorem holdPub_run (es : List Event) : ∀ s, Inv s → Inv2 s → HoldPubOK s → HoldPubOK (run s es).1 := by
  induction es with
  | nil => intro s _ _ h; exact h
  | cons e es ih =>
    intro s hi h hp
    exact ih _ (inv_step s e hi) (inv2_stepW e { s := s } hi h).1 ((inv2_stepW e { s := s } hi h).2 hp)

theorem holdPub_reach (c : Conf) (hv : c.valid = true) (es : List Event) : HoldPubOK (run (init c) es).1 :=
  holdPub_run es _ (inv_init c hv) (inv2_init c).1 (inv2_init c).2

end MtxVerif.PathSM
