/-
PathSM, on-demand automaton and hold lists (C19): second invariant layer on top of `Inv`.
-/
import MtxVerif.Lemmas.C18PathSM_Step

namespace MtxVerif.PathSM

/-- some request is on hold -/
def Holding (s : State) : Prop := s.descHold ≠ [] ∨ s.readHold ≠ []

instance (s : State) : Decidable (Holding s) := by unfold Holding; infer_instance

structure Inv2 (s : State) : Prop where
  /-- the close timer of the on-demand source only runs while no reader is attached ... -/
  a1 : s.conf.odStatic = true → s.closed = false → s.odSrc = .closing → s.readers = []
  /-- ... and the source is only kept "ready" by attached readers -/
  a2 : s.conf.odStatic = true → s.closed = false → s.odSrc = .ready → s.readers ≠ []
  a3 : s.conf.odPub = true → s.closed = false → s.odPub = .closing → s.readers = []
  /-- requests are only held while there is no stream, on an on-demand path -/
  b1 : Holding s → s.stream = none
  b4 : Holding s → s.conf.odStatic = true ∨ s.conf.odPub = true
  /-- on-demand static source: held requests always have the start timer running -/
  b2 : s.conf.odStatic = true → Holding s → s.odSrc = .waiting

/-- on-demand publisher: held requests have the start timer running — NOT an invariant of the code
(finding `hold-no-timer`), it survives every step except a "late demand" (see `lateDemand`). -/
def HoldPubOK (s : State) : Prop := s.conf.odStatic = false → Holding s → s.odPub = .waiting

/-- a request arriving while the on-demand publisher has gone away but the automaton is still in
`ready`/`closing`: the request is held although neither a start timer is armed nor anything started. -/
def lateDemand (s : State) (e : Event) : Bool :=
  (match e with | .describe _ => true | .addReader _ _ => true | _ => false) &&
  !s.closed && s.stream.isNone && !s.conf.odStatic && s.conf.odPub &&
  (s.odPub == .ready || s.odPub == .closing)

/-- split `Inv2` into its fields and let `grind` discharge each -/
macro "inv2_fields" : tactic => `(tactic| (constructor <;> (try unfold Holding) <;> grind))

theorem inv2_rdstep {s s' : State} (hi : Inv s) (h : Inv2 s) (R : RdStep s s') : Inv2 s' := by
  have hne : s.readers ≠ [] → s'.readers ≠ [] := by
    intro h1 h2
    cases hb : s.readers with
    | nil => exact h1 hb
    | cons x xs => have := R.rsub x (by rw [hb]; exact List.mem_cons_self); rw [h2] at this; cases this
  have hq : s.conf.odPub = true → s.conf.odStatic = false := by
    intro h1
    have hv := hi.valid
    unfold Conf.valid at hv
    have := odStatic_iff s.conf
    unfold Conf.odPub at h1
    grind
  have hgS : s.conf.odStatic = true → s'.odSrc = .closing → s'.readers = s.readers := by
    intro h2 h1
    by_cases hh : s'.readers = s.readers
    · exact hh
    · exact absurd h1 ((R.grow hh).1 h2)
  have hgP : s.conf.odStatic = false → s.conf.odPub = true → s'.odPub = .closing → s'.readers = s.readers := by
    intro h2 h3 h1
    by_cases hh : s'.readers = s.readers
    · exact hh
    · exact absurd h1 ((R.grow hh).2 h2 h3)
  have f1 := R.f1
  have f2 := R.f2
  have oS := R.odS
  have oP := R.odP
  have f5 := R.f5
  have f7 := R.f7
  have f8 := R.f8
  cases h
  unfold Holding at *
  inv2_fields

theorem holdPub_rdstep {s s' : State} (h : HoldPubOK s) (R : RdStep s s') (hn : ¬ Holding s) : HoldPubOK s' := by
  cases R; unfold HoldPubOK Holding at *; grind

theorem inv2_consume (w : W) (hi : Inv w.s) (h : Inv2 w.s) (hs : w.s.stream.isSome = true) :
    Inv2 (consumeOnHoldRequests w).s ∧ ¬ Holding (consumeOnHoldRequests w).s := by
  obtain ⟨s1, R, e⟩ := consume_rd w
  rw [e]
  have h1 := inv2_rdstep hi h R
  refine ⟨?_, by simp [Holding]⟩
  cases h1; unfold Holding at *; inv2_fields

/-- the stream/readers/hold part of the state after the shared prefix of doAddPublisher / srcReady -/
theorem inv2_pubAttach (p : Nat) (ok : Bool) (w : W) (hi : Inv w.s) (h : Inv2 w.s) (hc : w.s.closed = false)
    (hk : w.s.conf.kind = .publisher) (hsrc : w.s.source = none) :
    Inv2 (pubAttach p ok w).s ∧ (HoldPubOK w.s → HoldPubOK (pubAttach p ok w).s) := by
  unfold pubAttach
  dsimp only
  have hv := odStatic_iff w.s.conf
  have hval := hi.valid
  unfold Conf.valid at hval
  have hq : w.s.conf.odPub = w.s.conf.runOnDemand := rfl
  cases ok
  · simp only [Bool.not_false, if_true, emit_s, subErrCleanup_s]
    unfold HoldPubOK Holding
    constructor
    · (repeat' split) <;> (try simp only [setAvailable_s] at *) <;>
        (cases hi; cases h; unfold Holding at *; inv2_fields)
    · (repeat' split) <;> (try simp only [setAvailable_s] at *) <;> (cases hi; grind)
  · simp only [Bool.not_true, Bool.false_eq_true, if_false, emit_s]
    have key : ∀ w3 : W, Inv w3.s → Inv2 w3.s → w3.s.stream.isSome = true →
        Inv2 (consumeOnHoldRequests w3).s ∧ (HoldPubOK w.s → HoldPubOK (consumeOnHoldRequests w3).s) := by
      intro w3 i3 j3 hs3
      obtain ⟨a, b⟩ := inv2_consume w3 i3 j3 hs3
      exact ⟨a, fun _ => by unfold HoldPubOK; intro _ hh; exact absurd hh b⟩
    apply key
    · (repeat' split) <;>
        simp only [emit_s, upd_s, newSub_s, setOnline_s, setAvailable_s, onDemandPublisherScheduleClose] at * <;>
        (cases hi; inv_fields)
    · (repeat' split) <;>
        simp only [emit_s, upd_s, newSub_s, setOnline_s, setAvailable_s, onDemandPublisherScheduleClose] at * <;>
        (cases hi; cases h; unfold Holding at *; inv2_fields)
    · (repeat' split) <;>
        simp only [emit_s, upd_s, newSub_s, setOnline_s, setAvailable_s, onDemandPublisherScheduleClose] at * <;>
        (cases hi; grind)

end MtxVerif.PathSM
